(* The trace acceptor of the worker-loop model, tied to the theorems of the model (C01, progress half):
   every state the real runtime went through along an accepted trace is a reachable state of SchedLoopModel with the
   parameters of the code as it is, hence satisfies the no-lost-wake-up invariant, the "never sleeps without a timeout
   over a non-empty local queue" and the "at most GLOBAL_INTERVAL runs between two looks at the global queue" theorems.
   `ex_trace` is a recorded run of the real runtime (harness/src/bin/s_sched.rs, MAYV_MODE=idle MAYV_ROUNDS=1 MAYV_N=1
   MAYV_TMO=10000000 MAYV_WORKERS=2 MAYV_THREADS=1 MAYV_SEED=1 MAYV_STRATEGY=random MAYV_ATOMIC_SPMC=1) as normalised by
   tools/normalize.py with Rt/schedloop_sites.json: non-vacuity of the acceptance theorem. *)
From Coq Require Import List Arith ZArith NArith Bool Lia.
Import ListNotations.
Require Import MayV.Rt.SchedModel MayV.Rt.SchedLoopModel MayV.Rt.SchedLoopInv MayV.Rt.SchedLoopThm MayV.Rt.SchedLoopBudget
  MayV.Rt.SchedLoopRefute MayV.Rt.SchedLoopAccept.

Lemma code_params_cur t : code_params t = Pcur t.
Proof. reflexivity. Qed.

Theorem accepted_traces_are_model_runs tr a ct :
  accept_all m_init tr = Some a -> acfg a = Some ct -> exists n, LReach (Pcur ct) n (al a).
Proof. exact (accept_all_reach tr a ct). Qed.

(* every prefix of an accepted trace is accepted, so the statement covers every state along the trace *)
Theorem accepted_prefixes_are_model_runs tr1 tr2 a ct :
  accept_all m_init (tr1 ++ tr2) = Some a -> acfg a = Some ct ->
  exists a1, accept_all m_init tr1 = Some a1 /\ (forall ct1, acfg a1 = Some ct1 -> exists n, LReach (Pcur ct1) n (al a1)).
Proof.
  intros H _. rewrite accept_all_app in H. destruct (accept_all m_init tr1) as [a1|] eqn:E; [|discriminate].
  exists a1. split; [reflexivity|]. intros ct1 C. eapply accept_all_reach; eauto.
Qed.

(* no lost wake-up on the real traces: whenever a coroutine sits in the global queue of worker w, the eventfd of w is
   pending, or a pusher is between its push and its eventfd write, or w is on its way to collect_global *)
Theorem accepted_traces_wake_coming tr a ct w :
  accept_all m_init tr = Some a -> acfg a = Some ct -> gq (base (al a)) w <> [] -> wake_coming (Pcur ct) (al a) w.
Proof.
  intros H C NE. destruct (accept_all_reach tr a ct H C) as [n R]. rewrite code_params_cur in R.
  apply (global_queue_wake_coming (Pcur ct) n (al a) w); [reflexivity | exact R | exact NE].
Qed.

Theorem accepted_traces_no_lost_wakeup tr a ct w :
  accept_all m_init tr = Some a -> acfg a = Some ct -> wpc (al a) w = PSleep -> gq (base (al a)) w <> [] ->
  evfd (al a) w = true \/ pusher_in_flight (al a) w.
Proof.
  intros H C S NE. destruct (accept_all_reach tr a ct H C) as [n R]. rewrite code_params_cur in R.
  apply (no_lost_wakeup (Pcur ct) n (al a) w); [reflexivity | exact R | exact S | exact NE].
Qed.

Theorem accepted_traces_interval tr a ct w :
  accept_all m_init tr = Some a -> acfg a = Some ct -> since (al a) w <= 64.
Proof.
  intros H C. destruct (accept_all_reach tr a ct H C) as [n R]. rewrite code_params_cur in R.
  apply (at_most_interval_runs_between_collects (Pcur ct) n (al a) w); [reflexivity | cbn; lia | exact R].
Qed.

Definition ex_trace : list (list Z) := [
  [0; 1; 2; 10000000];
  [1; 1; 300; 0];
  [40; 2; 0; 18446744073709551615];
  [31; 1; 1; 0];
  [60; 1; 2; 1];
  [67; 1; 3; 1];
  [45; 1; 0; 0];
  [2; 1; 300; 0];
  [61; 3; 4; 94359169483264];
  [40; 4; 1; 18446744073709551615];
  [41; 2; 0; 1];
  [42; 2; 0; 0];
  [48; 2; 0; 0];
  [49; 2; 0; 1];
  [62; 2; 5; 1];
  [61; 3; 4; 94359169483264];
  [61; 2; 2; 94359169351361];
  [50; 2; 0; 0];
  [43; 2; 0; 0];
  [46; 2; 0; 1];
  [11; 2; 94359169536032; 0];
  [16; 2; 0; 0];
  [17; 2; 0; 0];
  [12; 2; 94359169536032; 0];
  [15; 2; 94359169536032; 0];
  [13; 2; 94359169536032; 0];
  [46; 2; 0; 0];
  [48; 2; 0; 0];
  [1; 1; 301; 0];
  [61; 2; 2; 94359169351361];
  [50; 2; 0; 0];
  [61; 2; 6; 94359169373120];
  [44; 2; 0; 18446744073709551615];
  [40; 2; 0; 10000000];
  [31; 1; 1; 1];
  [60; 1; 7; 1];
  [67; 1; 8; 1];
  [45; 1; 1; 0];
  [2; 1; 301; 0];
  [41; 4; 1; 1];
  [42; 4; 1; 0];
  [48; 4; 1; 0];
  [49; 4; 1; 1];
  [62; 4; 9; 1];
  [61; 4; 7; 94359169353793];
  [50; 4; 1; 0];
  [43; 4; 1; 0];
  [46; 4; 1; 1];
  [11; 4; 94359169536032; 0];
  [16; 4; 0; 0];
  [17; 4; 0; 0];
  [12; 4; 94359169536032; 0];
  [15; 4; 94359169536032; 0];
  [13; 4; 94359169536032; 0];
  [46; 4; 1; 0];
  [48; 4; 1; 0];
  [61; 4; 7; 94359169353793];
  [50; 4; 1; 0];
  [61; 4; 10; 94359169411200];
  [44; 4; 1; 18446744073709551615];
  [40; 4; 1; 10000000];
  [1; 1; 1; 0];
  [31; 1; 1; 2];
  [60; 1; 2; 1];
  [67; 1; 11; 1];
  [45; 1; 0; 0];
  [2; 1; 1; 0];
  [41; 2; 0; 1];
  [42; 2; 0; 0];
  [48; 2; 0; 0];
  [49; 2; 0; 1];
  [62; 2; 5; 2];
  [61; 2; 2; 94359169351362];
  [50; 2; 0; 0];
  [43; 2; 0; 0];
  [46; 2; 0; 1];
  [11; 2; 94359169536032; 0];
  [16; 2; 0; 0];
  [1; 2; 2; 0];
  [31; 2; 1; 3];
  [60; 2; 7; 1];
  [67; 2; 12; 1];
  [45; 2; 1; 0];
  [2; 2; 2; 0];
  [41; 4; 1; 1];
  [42; 4; 1; 0];
  [48; 4; 1; 0];
  [61; 2; 13; 140719503183488];
  [49; 4; 1; 1];
  [62; 4; 9; 2];
  [61; 4; 7; 94359169353794];
  [50; 4; 1; 0];
  [43; 4; 1; 0];
  [46; 4; 1; 1];
  [11; 4; 140719503186752; 0];
  [16; 4; 0; 0];
  [60; 4; 13; 1];
  [12; 2; 94359169536032; 0];
  [67; 4; 14; 1];
  [65; 4; 15; 0];
  [63; 2; 15; 1];
  [64; 2; 15; 1];
  [11; 2; 94359169536032; 0];
  [17; 4; 0; 0];
  [12; 4; 140719503186752; 0];
  [15; 4; 140719503186752; 0];
  [13; 4; 140719503186752; 0];
  [46; 4; 1; 0];
  [48; 4; 1; 0];
  [61; 4; 7; 94359169353794];
  [50; 4; 1; 0];
  [61; 4; 10; 94359169411200];
  [44; 4; 1; 18446744073709551615];
  [40; 4; 1; 10000000];
  [61; 2; 13; 140719503183489];
  [61; 2; 13; 140719503183489];
  [1; 2; 3; 0];
  [31; 2; 1; 4];
  [60; 2; 2; 1];
  [67; 2; 16; 1];
  [45; 2; 0; 0];
  [2; 2; 3; 0];
  [12; 2; 94359169536032; 0];
  [63; 2; 17; 1];
  [13; 2; 94359169536032; 0];
  [13; 2; 94359169536032; 0];
  [46; 2; 0; 0];
  [48; 2; 0; 0];
  [49; 2; 0; 1];
  [62; 2; 5; 3];
  [61; 2; 2; 94359169351363];
  [50; 2; 0; 0];
  [46; 2; 0; 1];
  [11; 2; 140719503186752; 0];
  [16; 2; 0; 0];
  [12; 2; 140719503186752; 0];
  [62; 2; 5; 4];
  [13; 2; 140719503186752; 0];
  [46; 2; 0; 1];
  [11; 2; 140719503186752; 0];
  [1; 2; 4; 0];
  [31; 2; 1; 5];
  [60; 2; 7; 1];
  [67; 2; 18; 1];
  [45; 2; 1; 0];
  [2; 2; 4; 0];
  [41; 4; 1; 1];
  [42; 4; 1; 0];
  [48; 4; 1; 0];
  [49; 4; 1; 1];
  [62; 4; 9; 3];
  [61; 4; 7; 94359169353795];
  [50; 4; 1; 0];
  [43; 4; 1; 0];
  [46; 4; 1; 1];
  [11; 4; 140719503183712; 0];
  [16; 4; 0; 0];
  [1; 4; 5; 0];
  [31; 4; 1; 6];
  [60; 4; 2; 1];
  [67; 4; 19; 1];
  [45; 4; 0; 0];
  [2; 4; 5; 0];
  [12; 2; 140719503186752; 0];
  [61; 4; 20; 140719368965760];
  [63; 2; 21; 1];
  [13; 2; 140719503186752; 0];
  [46; 2; 0; 0];
  [48; 2; 0; 0];
  [49; 2; 0; 1];
  [62; 2; 5; 5];
  [12; 4; 140719503183712; 0];
  [61; 2; 2; 94359169351364];
  [50; 2; 0; 0];
  [46; 2; 0; 1];
  [11; 2; 140719368969024; 0];
  [16; 2; 0; 0];
  [63; 4; 22; 1];
  [60; 2; 20; 1];
  [67; 2; 23; 1];
  [13; 4; 140719503183712; 0];
  [46; 4; 1; 0];
  [48; 4; 1; 0];
  [65; 2; 22; 1];
  [62; 2; 5; 6];
  [61; 4; 7; 94359169353795];
  [50; 4; 1; 0];
  [47; 4; 1; 0];
  [11; 4; 140719503183712; 0];
  [17; 2; 0; 0];
  [12; 2; 140719368969024; 0];
  [15; 2; 140719368969024; 0];
  [13; 2; 140719368969024; 0];
  [46; 2; 0; 0];
  [48; 2; 0; 0];
  [61; 2; 2; 94359169351364];
  [50; 2; 0; 0];
  [61; 2; 6; 94359169373120];
  [44; 2; 0; 18446744073709551615];
  [41; 2; 0; 1];
  [42; 2; 0; 0];
  [48; 2; 0; 0];
  [61; 2; 2; 94359169351364];
  [50; 2; 0; 0];
  [43; 2; 0; 0];
  [46; 2; 0; 0];
  [48; 2; 0; 0];
  [61; 2; 2; 94359169351364];
  [50; 2; 0; 0];
  [61; 2; 6; 94359169373120];
  [44; 2; 0; 18446744073709551615];
  [40; 2; 0; 10000000];
  [41; 2; 0; 0];
  [43; 2; 0; 0];
  [46; 2; 0; 0];
  [48; 2; 0; 0];
  [61; 2; 2; 94359169351364];
  [50; 2; 0; 0];
  [61; 2; 6; 94359169373120];
  [44; 2; 0; 18446744073709551615];
  [40; 2; 0; 10000000];
  [61; 4; 20; 140719368965761];
  [61; 4; 20; 140719368965761];
  [12; 4; 140719503183712; 0];
  [62; 4; 9; 4];
  [13; 4; 140719503183712; 0];
  [46; 4; 1; 1];
  [11; 4; 140719503183712; 0];
  [12; 4; 140719503183712; 0];
  [62; 4; 9; 5];
  [13; 4; 140719503183712; 0];
  [46; 4; 1; 1];
  [11; 4; 140719503183712; 0];
  [12; 4; 140719503183712; 0];
  [62; 4; 9; 6];
  [13; 4; 140719503183712; 0];
  [46; 4; 1; 1];
  [11; 4; 140719503183712; 0];
  [17; 4; 0; 0];
  [65; 4; 21; 1];
  [62; 4; 9; 7];
  [12; 4; 140719503183712; 0];
  [15; 4; 140719503183712; 0];
  [13; 4; 140719503183712; 0];
  [46; 4; 1; 1];
  [11; 4; 140719503186752; 0];
  [17; 4; 0; 0];
  [65; 4; 17; 1];
  [62; 4; 9; 8];
  [12; 4; 140719503186752; 0];
  [15; 4; 140719503186752; 0];
  [13; 4; 140719503186752; 0];
  [46; 4; 1; 1];
  [11; 4; 94359169536032; 0];
  [17; 4; 0; 0];
  [12; 4; 94359169536032; 0];
  [15; 4; 94359169536032; 0];
  [13; 4; 94359169536032; 0];
  [46; 4; 1; 0];
  [48; 4; 1; 0];
  [61; 4; 7; 94359169353795];
  [50; 4; 1; 0];
  [61; 4; 10; 94359169411200];
  [44; 4; 1; 18446744073709551615];
  [40; 4; 1; 10000000]]%Z.

Definition ex_check (a : ast) : bool :=
  match acfg a with Some c => N.eqb c 10000000 | None => false end &&
  Nat.eqb (nw (base (al a))) 2 && Nat.leb 2 (nsel (al a) 0 + nsel (al a) 1) && Nat.leb 2 (ncoll (al a) 0 + ncoll (al a) 1) &&
  Nat.leb 1 (length (dead (base (al a)))).

Lemma ex_trace_check : match accept_all m_init ex_trace with Some a => ex_check a | None => false end = true.
Proof. vm_compute. reflexivity. Qed.

Lemma ex_trace_accepted :
  exists a, accept_all m_init ex_trace = Some a /\ acfg a = Some 10000000%N /\ nw (base (al a)) = 2 /\
            2 <= nsel (al a) 0 + nsel (al a) 1 /\ 2 <= ncoll (al a) 0 + ncoll (al a) 1 /\ 1 <= length (dead (base (al a))).
Proof.
  pose proof ex_trace_check as H. destruct (accept_all m_init ex_trace) as [a|]; [|discriminate H].
  exists a. split; [reflexivity|]. unfold ex_check in H.
  repeat match type of H with _ && _ = true => let H2 := fresh in apply andb_true_iff in H; destruct H as [H H2] end.
  destruct (acfg a) as [c|]; [|discriminate H]. apply N.eqb_eq in H. subst c.
  repeat split; first [apply Nat.eqb_eq; assumption | apply Nat.leb_le; assumption].
Qed.

(* the acceptor rejects: the same run with the eventfd write of the first spawn moved in front of its push *)
Definition is_push (e : list Z) : bool := match e with [60; _; _; 1] => true | _ => false end%Z.
Definition is_ready (e : list Z) : bool := match e with [67; _; _; _] => true | _ => false end%Z.
Definition is_wakeup (e : list Z) : bool := match e with [45; _; _; _] => true | _ => false end%Z.
(* the first  push-CAS, ready store, eventfd write  of the trace becomes  eventfd write, push-CAS, ready store *)
Fixpoint swap_push_wake (l : list (list Z)) : list (list Z) :=
  match l with
  | p :: r => match r with
              | q :: w :: r' => if is_push p && is_ready q && is_wakeup w then w :: p :: q :: r' else p :: swap_push_wake r
              | _ => p :: swap_push_wake r end
  | [] => [] end.

Lemma ex_trace_swap_differs : swap_push_wake ex_trace <> ex_trace.
Proof. vm_compute. discriminate. Qed.

Lemma ex_trace_wake_before_push_rejected : accept_all m_init (swap_push_wake ex_trace) = None.
Proof. vm_compute. reflexivity. Qed.
