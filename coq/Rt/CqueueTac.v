(* Tactics and first consequences of the invariant used by the preservation proofs of CqueueModel. *)
From Coq Require Import List Arith Bool ZArith Lia.
Import ListNotations.
Require Import MayV.Rt.CqueueModel MayV.Rt.CqueueInv.

Definition hide {T} (x : T) : Prop := True.
Ltac fin := try reflexivity; try discriminate; try lia; try congruence; try tauto.

(* what the owner finds at the head of the queue is what the code expects: a Done event of an arm whose handle is
   still in `selectors`, a Normal event whose coroutine is suspended in it *)
Lemma qall_done_sel s a : Inv s -> adding (opc s) = false -> In (EDone a) (qall s) -> sel s a = true /\ a < nexta s.
Proof.
  intros I AD HIn. apply (Q_done _ I) in HIn. destruct HIn as [P D].
  destruct (A_dp _ I a) as [DP _]. rewrite P in DP.
  assert (L : a < nexta s).
  { destruct (le_lt_dec (nexta s) a) as [L|L]; [|exact L]. apply (A_ex _ I) in L. rewrite L in DP. discriminate. }
  split; [|exact L]. pose proof (S_sel _ I a L) as S. rewrite AD in S. cbn in S. rewrite S, D. reflexivity.
Qed.
Lemma qall_norm_susp s e : Inv s -> In (ENormal e) (qall s) -> pc s (earm s e) = ASusp /\ acur s (earm s e) = e /\ e < nexte s.
Proof.
  intros I HIn. apply (Q_norm _ I) in HIn. destruct HIn as [P D].
  assert (L : e < nexte s).
  { destruct (le_lt_dec (nexte s) e) as [L|L]; [|exact L]. destruct (E_new _ I e L) as [X _]. lia. }
  destruct (E_pop0 _ I e L D). auto.
Qed.
Lemma head_done s a l : Inv s -> opc s = P2 -> evq s = EDone a :: l -> sel s a = true.
Proof. intros I E Q. apply (qall_done_sel s a I); [rewrite E; reflexivity|]. unfold qall. rewrite E, Q. left; reflexivity. Qed.
Lemma stash_done s a : Inv s -> opc s = P4t -> ostash s = EDone a -> sel s a = true.
Proof. intros I E Q. apply (qall_done_sel s a I); [rewrite E; reflexivity|]. unfold qall. rewrite E, Q. left; reflexivity. Qed.
Lemma head_norm s e l : Inv s -> opc s = P2 -> evq s = ENormal e :: l -> is_asusp (pc s (earm s e)) = true.
Proof. intros I E Q. destruct (qall_norm_susp s e I) as [X _]; [|rewrite X; reflexivity]. unfold qall. rewrite E, Q. left; reflexivity. Qed.
Lemma stash_norm s e : Inv s -> opc s = P4t -> ostash s = ENormal e -> is_asusp (pc s (earm s e)) = true.
Proof. intros I E Q. destruct (qall_norm_susp s e I) as [X _]; [|rewrite X; reflexivity]. unfold qall. rewrite E, Q. left; reflexivity. Qed.

(* everything the invariant says about the entry the owner has just popped *)
Lemma popped_done s a : Inv s -> adding (opc s) = false -> In (EDone a) (qall s) ->
  sel s a = true /\ a < nexta s /\ dpush s a = 1 /\ dpop s a = 0 /\ dset (pc s a) = true.
Proof.
  intros I AD HIn. destruct (qall_done_sel s a I AD HIn) as [X Y]. apply (Q_done _ I) in HIn. destruct HIn as [P D].
  repeat split; auto. destruct (A_dp _ I a) as [DP _]. rewrite P in DP. destruct (dset (pc s a)); [reflexivity|discriminate].
Qed.
Lemma popped_norm s e : Inv s -> In (ENormal e) (qall s) ->
  pc s (earm s e) = ASusp /\ acur s (earm s e) = e /\ e < nexte s /\ epush s e = 1 /\ epop s e = 0 /\ earm s e < nexta s.
Proof.
  intros I HIn. destruct (qall_norm_susp s e I HIn) as (X & Y & Z). apply (Q_norm _ I) in HIn. destruct HIn as [P D].
  repeat split; auto. apply (E_arm _ I e Z).
Qed.
Lemma in_head_p2 s x l : opc s = P2 -> evq s = x :: l -> In x (qall s).
Proof. intros E Q. unfold qall. rewrite E, Q. left; reflexivity. Qed.
Lemma in_stash_p4t s x : opc s = P4t -> ostash s = x -> In x (qall s).
Proof. intros E Q. unfold qall. rewrite E, Q. left; reflexivity. Qed.
Lemma not_adding_p2 s : opc s = P2 -> adding (opc s) = false. Proof. intros ->. reflexivity. Qed.
Lemma not_adding_p4t s : opc s = P4t -> adding (opc s) = false. Proof. intros ->. reflexivity. Qed.
Ltac headf I :=
  try match goal with
  | Eo : opc ?s = P2, Eq : evq ?s = EDone ?a :: _ |- _ =>
      destruct (popped_done s a I (not_adding_p2 s Eo) (in_head_p2 s _ _ Eo Eq)) as (HDsel & HDlt & HDpush & HDpop & HDset)
  | Eo : opc ?s = P4t, Eq : ostash ?s = EDone ?a |- _ =>
      destruct (popped_done s a I (not_adding_p4t s Eo) (in_stash_p4t s _ Eo Eq)) as (HDsel & HDlt & HDpush & HDpop & HDset)
  | Eo : opc ?s = P2, Eq : evq ?s = ENormal ?e :: _ |- _ =>
      destruct (popped_norm s e I (in_head_p2 s _ _ Eo Eq)) as (HNpc & HNcur & HNlt & HNpush & HNpop & HNarm)
  | Eo : opc ?s = P4t, Eq : ostash ?s = ENormal ?e |- _ =>
      destruct (popped_norm s e I (in_stash_p4t s _ Eo Eq)) as (HNpc & HNcur & HNlt & HNpush & HNpop & HNarm)
  end.

(* a kernel half between fetch_add and fetch_sub is counted in its arm's `kernel` word *)
Lemma kact_kern_pos s e : Inv s -> kact4 (kpc s e) = true -> 1 <= kern s (earm s e).
Proof.
  intros I K. assert (L : e < nexte s).
  { destruct (le_lt_dec (nexte s) e) as [L|L]; [|exact L]. apply (E_ex _ I) in L. rewrite L in K. discriminate. }
  rewrite (K_cnt _ I). apply (cntif_pos _ _ e L). rewrite Nat.eqb_refl, K. reflexivity.
Qed.
(* the arm of an event that is not pushed yet is suspended in it *)
Lemma kpre_susp s e : Inv s -> e < nexte s -> kpost (kpc s e) = false -> pc s (earm s e) = ASusp /\ acur s (earm s e) = e.
Proof.
  intros I L K. destruct (E_cnt _ I e) as [A B]. rewrite K in B. apply (E_pop0 _ I e L). lia.
Qed.

(* the kernel-half count when one kernel half moves *)
Lemma cntif_kpc_upd s e p a0 : e < nexte s ->
  cntif (fun i => Nat.eqb (earm s i) a0 && kact4 (upd (kpc s) e p i)) (nexte s) + (if Nat.eqb (earm s e) a0 && kact4 (kpc s e) then 1 else 0)
  = cntif (fun i => Nat.eqb (earm s i) a0 && kact4 (kpc s i)) (nexte s) + (if Nat.eqb (earm s e) a0 && kact4 p then 1 else 0).
Proof.
  intros L.
  pose proof (cntif_set (fun i => Nat.eqb (earm s i) a0 && kact4 (kpc s i)) (fun i => Nat.eqb (earm s i) a0 && kact4 (upd (kpc s) e p i)) (nexte s) e L) as X.
  cbv beta in X. rewrite upd_eq in X. apply X. intros i N. rewrite upd_neq by exact N. reflexivity.
Qed.

(* the queue as the invariant sees it, after a push by an arm or a kernel half (the owner does not move) *)
Lemma qall_app_eq s y :
  match opc s with P4t => ostash s :: evq s ++ [y] | _ => evq s ++ [y] end = qall s ++ [y].
Proof. unfold qall. destruct (opc s); reflexivity. Qed.
Lemma qall_fold s : match opc s with P4t => ostash s :: evq s | _ => evq s end = qall s.
Proof. reflexivity. Qed.

Lemma NoDup_snoc {X} (l : list X) x : NoDup l -> ~ In x l -> NoDup (l ++ [x]).
Proof.
  induction l as [|y l IH]; cbn; intros N NI; [constructor; [intros []|constructor]|].
  inversion N; subst. constructor.
  - rewrite in_app_iff. cbn. intros [A|[A|[]]]; [contradiction | subst; apply NI; left; reflexivity].
  - apply IH; [assumption | intros A; apply NI; right; exact A].
Qed.

(* the number of arms past their cnt.fetch_sub when one arm moves *)
Lemma cntif_pc_upd s a p : a < nexta s ->
  cntif (fun i => decd (upd (pc s) a p i)) (nexta s) + (if decd (pc s a) then 1 else 0)
  = cntif (fun i => decd (pc s i)) (nexta s) + (if decd p then 1 else 0).
Proof.
  intros L. pose proof (cntif_set (fun i => decd (pc s i)) (fun i => decd (upd (pc s) a p i)) (nexta s) a L) as X.
  cbv beta in X. rewrite upd_eq in X. apply X. intros i N. rewrite upd_neq by exact N. reflexivity.
Qed.

(* the heart of (ii) and (iv): when poll is about to answer Finished every arm has ended, every kernel half is through,
   every event - Normal and Done - has been consumed *)
Lemma finished_all_gone s : Inv s -> opc s = P2 -> evq s = [] -> oalld s = true ->
  (forall a, a < nexta s -> pc s a = ADone /\ dpop s a = 1) /\
  (forall e, e < nexte s -> kpc s e = KDone /\ epop s e = 1) /\ evq s = [].
Proof.
  intros I Eo Eq AD.
  assert (QA : forall a, a < nexta s -> pc s a = ADone /\ dpop s a = 1).
  { intros a L. pose proof (L_all _ I Eo AD a L) as DS.
    destruct (A_dp _ I a) as [P1 P2]. rewrite DS in P1.
    assert (D1 : dpop s a = 1).
    { destruct (dpop s a) as [|[|?]] eqn:ED; [exfalso | reflexivity | lia].
      assert (X : In (EDone a) (qall s)) by (apply (Q_done _ I); split; assumption).
      unfold qall in X. rewrite Eo, Eq in X. destruct X. }
    split; [|exact D1].
    destruct (D_join _ I a D1) as [J|[J _]]; [|rewrite Eo in J; discriminate].
    rewrite (A_jst _ I) in J. destruct (pc s a); try discriminate; reflexivity. }
  split; [exact QA|]. split; [|exact Eq].
  intros e L. destruct (E_arm _ I e L) as (LA & _ & _). destruct (QA _ LA) as [PA _].
  assert (P1 : epop s e = 1).
  { destruct (E_cnt _ I e) as [C1 C2]. destruct (epop s e) as [|[|?]] eqn:EP; [exfalso | reflexivity | destruct (kpost (kpc s e)); lia].
    destruct (E_pop0 _ I e L EP) as [X _]. rewrite PA in X. discriminate. }
  split; [|exact P1].
  destruct (E_cnt _ I e) as [C1 C2]. rewrite P1 in C1.
  assert (KP : kpost (kpc s e) = true) by (destruct (kpost (kpc s e)); [reflexivity | lia]).
  assert (K0' : kern s (earm s e) = 0) by (apply (A_k0 _ I); rewrite PA; reflexivity).
  destruct (kpc s e) eqn:EK; try discriminate; try reflexivity.
  all: pose proof (kact_kern_pos s e I) as X; rewrite EK in X; specialize (X eq_refl); lia.
Qed.

Ltac facts I :=
  pose proof (A_ex _ I) as QAex; pose proof (E_ex _ I) as QEex; pose proof (B_fr _ I) as QBfr;
  pose proof (A_new _ I) as QAnew; pose proof (E_new _ I) as QEnew; pose proof (I_tot _ I) as QItot;
  pose proof (N_bug _ I) as QNbug.

(* an arm / event at a control point exists *)
Ltac known :=
  repeat match goal with
  | Q : forall a, pc ?s a = ANone <-> nexta ?s <= a, E : pc ?s ?a = ?p |- _ =>
      lazymatch goal with _ : a < nexta s |- _ => fail | _ => idtac end;
      lazymatch p with ANone => fail | _ => idtac end;
      assert (a < nexta s) by (let L := fresh in destruct (le_lt_dec (nexta s) a) as [L|L]; [apply Q in L; rewrite L in E; discriminate | exact L])
  | Q : forall a, kpc ?s a = KNone <-> nexte ?s <= a, E : kpc ?s ?a = ?p |- _ =>
      lazymatch goal with _ : a < nexte s |- _ => fail | _ => idtac end;
      lazymatch p with KNone => fail | _ => idtac end;
      assert (a < nexte s) by (let L := fresh in destruct (le_lt_dec (nexte s) a) as [L|L]; [apply Q in L; rewrite L in E; discriminate | exact L])
  end.
(* control points of the pre-fix variants / the bug marker are not reachable in the current code *)
Ltac dead I :=
  match goal with
  | E : opc ?s = Cpre, Q : opc ?s <> OBug /\ opc ?s <> Cpre /\ opc ?s <> P2b |- _ => exfalso; exact (proj1 (proj2 Q) E)
  | E : opc ?s = P2b, Q : opc ?s <> OBug /\ opc ?s <> Cpre /\ opc ?s <> P2b |- _ => exfalso; exact (proj2 (proj2 Q) E)
  | E : opc ?s = OBug, Q : opc ?s <> OBug /\ opc ?s <> Cpre /\ opc ?s <> P2b |- _ => exfalso; exact (proj1 Q E)
  | Eo : opc ?s = P2, Eq : evq ?s = EDone ?a :: _, Ec : sel ?s ?a = false |- _ =>
      exfalso; rewrite (head_done s a _ I Eo Eq) in Ec; discriminate
  | Eo : opc ?s = P4t, Eq : ostash ?s = EDone ?a, Ec : sel ?s ?a = false |- _ =>
      exfalso; rewrite (stash_done s a I Eo Eq) in Ec; discriminate
  | Eo : opc ?s = P2, Eq : evq ?s = ENormal ?e :: _, Ec : is_asusp (pc ?s (earm ?s ?e)) = false |- _ =>
      exfalso; rewrite (head_norm s e _ I Eo Eq) in Ec; discriminate
  | Eo : opc ?s = P4t, Eq : ostash ?s = ENormal ?e, Ec : is_asusp (pc ?s (earm ?s ?e)) = false |- _ =>
      exfalso; rewrite (stash_norm s e I Eo Eq) in Ec; discriminate
  end.
Ltac start I H := facts I; step_cases H; simp; try dead I; headf I; bools; known.
(* an index beyond the allocation frontier carries nothing *)
Ltac fresh_contra :=
  match goal with
  | L : nexta ?s <= ?a, Q : forall a, nexta ?s <= a -> sel ?s a = false /\ _ |- _ =>
      let X := fresh in pose proof (Q a L) as X; destruct X as (? & ? & ? & ?); try congruence; try lia
  end.

(* the arm about to be created does not exist yet *)
Ltac newarm :=
  match goal with
  | Q : forall a, pc ?s a = ANone <-> nexta ?s <= a |- context [nexta ?s] =>
      lazymatch goal with _ : pc s (nexta s) = ANone |- _ => fail | _ => idtac end;
      assert (pc s (nexta s) = ANone) by (apply Q; lia)
  end.
(* instantiate a per-arm clause Q at every arm whose control point is known *)
Ltac inst_pc Q :=
  repeat match goal with
  | E : pc ?s ?a = _ |- _ =>
      lazymatch goal with _ : hide (Q a) |- _ => fail | _ => idtac end;
      let X := fresh "QI" in pose proof (Q a) as X; rewrite E in X; assert (hide (Q a)) by (unfold hide; trivial)
  end.
