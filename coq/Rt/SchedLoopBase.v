(* Frame lemmas of SchedModel.step used by the worker-loop layer (SchedLoopModel): which queue an action
   appends to / removes from, which thread's stack, control point and hand it touches. *)
From Coq Require Import List Arith ZArith NArith Bool Lia.
Import ListNotations.
Require Import MayV.Rt.SchedModel MayV.Rt.SchedInv MayV.Rt.SchedTac MayV.Rt.SchedLoopModel.

Lemma qid_dec (a b : qid) : {a = b} + {a <> b}.
Proof. decide equality; apply Nat.eq_dec. Qed.

Lemma getq_pushq_same s q c : getq (pushq s q c) q = getq s q ++ [c].
Proof. destruct q; unfold pushq; sst; now rewrite upd_eq. Qed.
Lemma getq_pushq_other s q q' c : q' <> q -> getq (pushq s q c) q' = getq s q'.
Proof. destruct q, q'; unfold pushq; sst; intro N; try reflexivity; rewrite upd_neq; congruence. Qed.

Lemma getq_set_apc s a p q : getq (set_apc s a p) q = getq s q. Proof. destruct q, a; reflexivity. Qed.
Lemma getq_add_hand s t c q : getq (add_hand s t c) q = getq s q. Proof. destruct q; reflexivity. Qed.
Lemma getq_del_hand s t c q : getq (del_hand s t c) q = getq s q. Proof. destruct q; reflexivity. Qed.
Lemma getq_set_stk s t l q : getq (set_stk s t l) q = getq s q. Proof. destruct q; reflexivity. Qed.
Lemma getq_on_co s c f q : getq (on_co s c f) q = getq s q. Proof. destruct q; reflexivity. Qed.
Lemma getq_s_co s f q : getq (s_co s f) q = getq s q. Proof. destruct q; reflexivity. Qed.
Lemma getq_s_slots s f q : getq (s_slots s f) q = getq s q. Proof. destruct q; reflexivity. Qed.
Lemma getq_s_dead s f q : getq (s_dead s f) q = getq s q. Proof. destruct q; reflexivity. Qed.
Lemma getq_s_tok s f q : getq (s_tok s f) q = getq s q. Proof. destruct q; reflexivity. Qed.
Lemma getq_s_newb s d q : getq (s_newb s d) q = getq s q. Proof. destruct q; reflexivity. Qed.
Lemma getq_s_punp s f q : getq (s_punp s f) q = getq s q. Proof. destruct q; reflexivity. Qed.
Lemma getq_s_rr s f q : getq (s_rr s f) q = getq s q. Proof. destruct q; reflexivity. Qed.
Lemma getq_set_call s a d p q : getq (set_call s a d p) q = getq s q. Proof. destruct q; reflexivity. Qed.
Lemma getq_end_call s d q : getq (end_call s d) q = getq s q. Proof. destruct q; reflexivity. Qed.
Lemma getq_take_wake s c f p q : getq (take_wake s c f p) q = getq s q.
Proof. unfold take_wake. destruct (jwake (co s c)); apply getq_on_co. Qed.
Lemma getq_park_ret s c q : getq (park_ret s c) q = getq s q.
Proof. unfold park_ret. destruct (upc (co s c)); try reflexivity. destruct (call_of s (AC c) d) as [[]|]; destruct q; reflexivity. Qed.
Global Hint Rewrite getq_set_apc getq_add_hand getq_del_hand getq_set_stk getq_on_co getq_s_co getq_s_slots getq_s_dead
  getq_s_tok getq_s_newb getq_s_punp getq_s_rr getq_set_call getq_end_call getq_take_wake getq_park_ret : gq.

Lemma pushq_case s0 s q c q' : (forall x, getq s x = getq s0 x) ->
  getq (pushq s q c) q' = getq s0 q' \/ (Some q = Some q' /\ exists c1, getq (pushq s q c) q' = getq s0 q' ++ [c1]).
Proof.
  intro E. destruct (qid_dec q' q) as [->|N].
  - right. split; [reflexivity|]. exists c. rewrite getq_pushq_same, E. reflexivity.
  - left. rewrite getq_pushq_other by exact N. apply E.
Qed.

Lemma sgq_case s0 s k c q' : (forall x, getq s x = getq s0 x) ->
  getq (s_gq s (upd (gq s0) k (gq s0 k ++ [c]))) q' = getq s0 q' \/
  (Some (QG k) = Some q' /\ exists c1, getq (s_gq s (upd (gq s0) k (gq s0 k ++ [c]))) q' = getq s0 q' ++ [c1]).
Proof.
  intro E. destruct q' as [k'|t']; [destruct (Nat.eq_dec k' k) as [->|N]|].
  - right. split; [reflexivity|]. exists c. cbn. now rewrite upd_eq.
  - left. cbn. now rewrite upd_neq by exact N.
  - left. rewrite <- (E (QL t')). reflexivity.
Qed.
Lemma slq_case s0 s k c q' : (forall x, getq s x = getq s0 x) ->
  getq (s_lq s (upd (lq s0) k (lq s0 k ++ [c]))) q' = getq s0 q' \/
  (Some (QL k) = Some q' /\ exists c1, getq (s_lq s (upd (lq s0) k (lq s0 k ++ [c]))) q' = getq s0 q' ++ [c1]).
Proof.
  intro E. destruct q' as [t'|k']; [|destruct (Nat.eq_dec k' k) as [->|N]].
  - left. rewrite <- (E (QG t')). reflexivity.
  - right. split; [reflexivity|]. exists c. cbn. now rewrite upd_eq.
  - left. cbn. now rewrite upd_neq by exact N.
Qed.

Ltac same := left; autorewrite with gq; reflexivity.
Ltac pushed := autorewrite with gq;
  first [ apply sgq_case | apply slq_case | apply pushq_case ]; intro; autorewrite with gq; reflexivity.

Lemma step_queues_nongrab s a s' : step s a = Some s' -> (forall t q, a <> Grab t q) -> forall q,
  getq s' q = getq s q \/ (push_target s a = Some q /\ exists c, getq s' q = getq s q ++ [c]).
Proof.
  intros H NG q. destruct a; try (exfalso; eapply NG; reflexivity).
  all: try (step_inv H; same).
  all: unfold push_target; step_inv H; try same; pushed.
Qed.

Lemma step_grab s t q s' : step s (Grab t q) = Some s' ->
  base_idle s t = true /\ exists c, getq s q = c :: getq s' q /\ hand s' t = hand s t ++ [c] /\
  (forall q', q' <> q -> getq s' q' = getq s q') /\ stk s' = stk s /\ tpc s' = tpc s /\ nw s' = nw s /\
  (forall t', t' <> t -> hand s' t' = hand s t').
Proof.
  intro H. destruct q as [k|u]; step_inv H; (split; [reflexivity|]); exists n; cbn; rewrite !upd_eq.
  - repeat split; try reflexivity.
    + intros [k'|u'] N; cbn; [rewrite upd_neq; congruence | reflexivity].
    + intros t' N. now rewrite upd_neq.
  - repeat split; try reflexivity.
    + intros [k'|u'] N; cbn; [reflexivity | rewrite upd_neq; congruence].
    + intros t' N. now rewrite upd_neq.
Qed.

Lemma step_put s t s' : step s (Put t) = Some s' ->
  base_idle s t = true /\ exists c r, hand s t = c :: r /\ lq s' t = lq s t ++ [c] /\ hand s' t = rm c (hand s t) /\
  (forall u, u <> t -> lq s' u = lq s u) /\ gq s' = gq s /\ stk s' = stk s /\ tpc s' = tpc s /\ nw s' = nw s /\
  (forall t', t' <> t -> hand s' t' = hand s t').
Proof.
  intro H. step_inv H. split; [reflexivity|]. exists n, l. cbn. rewrite !upd_eq. repeat split; try reflexivity.
  - rewrite E0. reflexivity.
  - intros u N. now rewrite upd_neq.
  - intros t' N. now rewrite upd_neq.
Qed.

Lemma step_takeslot s t c s' : step s (TakeSlot t c) = Some s' ->
  base_idle s t = true /\ hand s' t = hand s t ++ [c] /\ gq s' = gq s /\ lq s' = lq s /\ stk s' = stk s /\ tpc s' = tpc s /\
  nw s' = nw s /\ (forall t', t' <> t -> hand s' t' = hand s t').
Proof.
  intro H. unfold step in H. destruct (base_idle s t) eqn:B; [|discriminate]. destruct (memb c (slots s)); [|discriminate].
  cbn in H. inversion H; subst; clear H. cbn. rewrite upd_eq. repeat split; try reflexivity.
  intros t' N. now rewrite upd_neq.
Qed.

Lemma step_nw s a s' : step s a = Some s' -> nw s' = nw s.
Proof.
  intro H. destruct a; step_inv H;
    repeat match goal with a : ag |- _ => destruct a | q : qid |- _ => destruct q end;
    try reflexivity; unfold take_wake, park_ret;
    repeat match goal with |- context [match ?x with _ => _ end] => destruct x end; reflexivity.
Qed.

Ltac curs := repeat match goal with E : cur _ _ = Some ?a |- _ => apply cur_cases in E; destruct E as [[? ->]|(? & ? & ? & ->)] end.

(* an action of another thread (or of an anonymous waker) leaves stack, control point and hand of thread t alone *)
Lemma step_other_thread s a s' t : step s a = Some s' -> thread_of a <> Some t ->
  stk s' t = stk s t /\ tpc s' t = tpc s t /\ hand s' t = hand s t.
Proof.
  intros H N. destruct a; cbn [thread_of] in N; step_inv H; curs;
   unfold take_wake, park_ret;
   repeat match goal with |- context [match ?x with _ => _ end] => destruct x end;
   repeat match goal with q : qid |- _ => destruct q end;
   sst; rewrite ?upd_neq by congruence; auto.
Qed.

(* a thread with a frame on its stack does not change its own (thread-level) control point *)
Lemma step_own_tpc s a s' t : step s a = Some s' -> stk s t <> [] -> tpc s' t = tpc s t.
Proof.
  intros H N. destruct a; step_inv H; curs; try congruence;
   unfold take_wake, park_ret;
   repeat match goal with |- context [match ?x with _ => _ end] => destruct x end;
   repeat match goal with q : qid |- _ => destruct q end;
   sst; try reflexivity; apply upd_neq; intros ->; congruence.
Qed.
