(* C08.iii - preservation of group B (clock, lists, identities) *)
From Coq Require Import List Arith NArith Bool Lia Sorting.Sorted.
Import ListNotations.
Require Import MayV.Rt.TimerThread MayV.Rt.TimerThreadInv MayV.Rt.TimerThreadTac.
Local Open Scope N_scope.

Lemma presB_tnow s x s' : InvB s -> stepF s x = Some s' -> tnow s' <= now s'.
Proof.
  intros HB H. pose proof (B_tnow _ HB). step_cases H; cbn; try lia.
  all: apply andb_true_iff in Heqb as [_ E]; apply N.leb_le in E; exact E.
Qed.

(* what a step does to the lists: every entry of the new lists is an old one (up to its link flag),
   or the entry pushed by the stepping adder *)
Definition same_but_lk (e e' : entry) : Prop := eid e = eid e' /\ edl e = edl e' /\ eeff e = eeff e'.

Lemma lists_step s x s' : InvB s -> stepF s x = Some s' ->
  forall L e, In e (lst s' L) ->
    (exists e', In e' (lst s L) /\ same_but_lk e e') \/
    (exists a, x = AStep a /\ apc (A s a) = A2 /\ aiv (A s a) = L /\
               e = {| eid := aid (A s a); edl := adl (A s a); eeff := now s + L; elk := false |}).
Proof.
  intros HB H L e. unfold same_but_lk.
  step_cases H; cbn; intros I; try (left; exists e; auto; fail).
  - (* A2 *) case_list L (aiv (A s a)).
    + apply in_app_or in I as [I|[<-|[]]]; [left; exists e; auto | right; exists a; auto].
    + left; exists e; auto.
  - (* A4 hd *) case_list L (aiv (A s a)); [|left; exists e; auto].
    apply in_link in I as (e' & I & E1 & E2 & E3 & _). left; exists e'; auto.
  - (* A4 *) case_list L (aiv (A s a)); [|left; exists e; auto].
    apply in_link in I as (e' & I & E1 & E2 & E3 & _). left; exists e'; auto.
  - (* DR2 *) case_list L (thL s); [|left; exists e; auto].
    apply in_del_id in I as [I _]. left; exists e; auto.
  - (* P3 *) case_list L (tL s); [|left; exists e; auto].
    left; exists e. split; auto. rewrite Heql. now right.
Qed.

Lemma now_mono s x s' : stepF s x = Some s' -> now s <= now s'.
Proof. intros H. step_cases H; cbn; lia. Qed.

Lemma presB_eff s x s' : InvB s -> stepF s x = Some s' ->
  forall L e, In e (lst s' L) -> edl e <= eeff e /\ eeff e <= now s' + L.
Proof.
  intros HB H L e I. pose proof (now_mono _ _ _ H) as Hn.
  destruct (lists_step _ _ _ HB H L e I) as [(e' & I' & E1 & E2 & E3)|(a & -> & EP & EL & ->)].
  - destruct (B_eff _ HB L e' I'). lia.
  - cbn. pose proof (B_ainv _ HB a) as Ha. unfold ainv in Ha. rewrite EP in Ha. subst L. lia.
Qed.

(* the shape of every list after a step *)
Inductive lshape (s : st) (x : action) (L : N) (l' : list entry) : Prop :=
  | LS_same : l' = lst s L -> lshape s x L l'
  | LS_push a : x = AStep a -> apc (A s a) = A2 -> aiv (A s a) = L ->
      l' = lst s L ++ [{| eid := aid (A s a); edl := adl (A s a); eeff := now s + L; elk := false |}] -> lshape s x L l'
  | LS_link a : x = AStep a -> apc (A s a) = A4 -> aiv (A s a) = L -> l' = link (aid (A s a)) (lst s L) -> lshape s x L l'
  | LS_del c : x = TStep c -> tpc s = DR2 -> thL s = L -> l' = del_id (thid s) (lst s L) -> lshape s x L l'
  | LS_pop c e : x = TStep c -> tpc s = P3 -> tL s = L -> lst s L = e :: l' -> lshape s x L l'.

Lemma lists_shape s x s' : stepF s x = Some s' -> forall L, lshape s x L (lst s' L).
Proof.
  intros H L. step_cases H; cbn; try (apply LS_same; reflexivity).
  - case_list L (aiv (A s a)); [eapply LS_push; eauto | apply LS_same; reflexivity].
  - case_list L (aiv (A s a)); [eapply LS_link; eauto | apply LS_same; reflexivity].
  - case_list L (aiv (A s a)); [eapply LS_link; eauto | apply LS_same; reflexivity].
  - case_list L (thL s); [eapply LS_del; eauto | apply LS_same; reflexivity].
  - case_list L (tL s); [eapply LS_pop; eauto | apply LS_same; reflexivity].
Qed.

Lemma presB_sorted s x s' : InvB s -> stepF s x = Some s' -> forall L, sorted_eff (lst s' L).
Proof.
  intros HB H L. pose proof (B_sorted _ HB L) as S.
  destruct (lists_shape _ _ _ H L) as [E|a _ EP EL E|a _ EP EL E|c _ EP EL E|c e _ EP EL E]; try rewrite E.
  - exact S.
  - apply sorted_app; [exact S|]. intros e I. cbn. destruct (B_eff _ HB L e I). lia.
  - eapply sorted_map_same; [symmetry; apply map_eeff_link | exact S].
  - apply sorted_filter. exact S.
  - rewrite E in S. eapply sorted_tail; eauto.
Qed.

Lemma used_mono s x s' : stepF s x = Some s' -> forall i, In i (used s) -> In i (used s').
Proof. intros H i I. step_cases H; cbn; auto. Qed.

Lemma presB_used s x s' : InvB s -> stepF s x = Some s' -> forall L e, In e (lst s' L) -> In (eid e) (used s').
Proof.
  intros HB H L e I.
  destruct (lists_step _ _ _ HB H L e I) as [(e' & I' & E1 & _)|(a & -> & EP & EL & ->)].
  - rewrite E1. eapply used_mono; eauto. eapply B_used; eauto.
  - cbn. eapply used_mono; eauto. apply (B_act _ HB). congruence.
Qed.

Lemma presB_nodup s x s' : InvB s -> stepF s x = Some s' -> forall L, NoDup (map eid (lst s' L)).
Proof.
  intros HB H L. pose proof (B_nodup _ HB L) as S.
  destruct (lists_shape _ _ _ H L) as [E|a _ EP EL E|a _ EP EL E|c _ EP EL E|c e _ EP EL E]; try rewrite E.
  - exact S.
  - rewrite map_app. cbn. apply NoDup_app_one; [exact S|].
    pose proof (B_ainv _ HB a) as Ha. unfold ainv in Ha. rewrite EP in Ha. destruct Ha as (Ha & _).
    intro I. apply in_map_iff in I as (e & Ee & I). apply Ha. exists L, e. auto.
  - rewrite map_eid_link. exact S.
  - unfold del_id. apply NoDup_map_filter. exact S.
  - rewrite E in S. cbn in S. now inversion S.
Qed.

Lemma in_lists_step s x s' : InvB s -> stepF s x = Some s' -> forall i, in_lists s' i ->
  in_lists s i \/ exists a, x = AStep a /\ apc (A s a) = A2 /\ aid (A s a) = i.
Proof.
  intros HB H i (L & e & I & E).
  destruct (lists_step _ _ _ HB H L e I) as [(e' & I' & E1 & _)|(a & -> & EP & EL & ->)].
  - left. exists L, e'. split; auto. congruence.
  - right. exists a. cbn in E. auto.
Qed.

Lemma fired_step s x s' : stepF s x = Some s' -> forall y, In y (fired s') ->
  In y (fired s) \/ (exists c, x = TStep c) /\ tpc s = PF /\ y = (eid (tcur s), edl (tcur s), now s).
Proof. intros H y. step_cases H; cbn; auto. intros [<-|I]; eauto. Qed.

Lemma removed_step s x s' : stepF s x = Some s' -> forall i, In i (removed s') ->
  In i (removed s) \/ (exists c, x = TStep c) /\ tpc s = DR2 /\ i = thid s.
Proof. intros H y. step_cases H; cbn; auto. intros [<-|I]; eauto. Qed.

Lemma presB_cross s x s' : InvB s -> stepF s x = Some s' ->
  forall L L' e e', In e (lst s' L) -> In e' (lst s' L') -> eid e = eid e' -> L = L'.
Proof.
  intros HB H L L' e e' I I' E.
  destruct (lists_step _ _ _ HB H L e I) as [(e1 & I1 & E1 & _)|(a & -> & EP & EL & ->)];
  destruct (lists_step _ _ _ HB H L' e' I') as [(e2 & I2 & E2 & _)|(a' & Ex & EP' & EL' & ->)].
  - eapply (B_cross _ HB); eauto. congruence.
  - exfalso. pose proof (B_ainv _ HB a') as Ha. unfold ainv in Ha. rewrite EP' in Ha. destruct Ha as (Ha & _).
    apply Ha. exists L, e1. split; auto. cbn in E. congruence.
  - exfalso. pose proof (B_ainv _ HB a) as Ha. unfold ainv in Ha. rewrite EP in Ha. destruct Ha as (Ha & _).
    apply Ha. exists L', e2. split; auto. cbn in E. congruence.
  - injection Ex as <-. congruence.
Qed.

Lemma presB_fired s x s' : InvB s -> stepF s x = Some s' ->
  forall y, In y (fired s') -> In (fid y) (used s') /\ ~ in_lists s' (fid y) /\ snd (fst y) <= snd y.
Proof.
  intros HB H y I. destruct (fired_step _ _ _ H y I) as [I0|((c & ->) & EP & ->)].
  - destruct (B_fired _ HB y I0) as (U & NL & LE). repeat split; auto.
    + eapply used_mono; eauto.
    + intro IL. destruct (in_lists_step _ _ _ HB H _ IL) as [IL0|(a & -> & EP & Ei)]; [tauto|].
      pose proof (B_ainv _ HB a) as Ha. unfold ainv in Ha. rewrite EP in Ha. destruct Ha as (_ & Ha & _).
      apply Ha. rewrite Ei. now apply in_map.
  - destruct (B_tcur _ HB EP) as (U & NL & NF & NR & LE). pose proof (B_tnow _ HB). cbn. repeat split.
    + eapply used_mono; eauto.
    + intro IL. destruct (in_lists_step _ _ _ HB H _ IL) as [IL0|(a & [=] & _)]. tauto.
    + lia.
Qed.

Lemma presB_fired_nodup s x s' : InvB s -> stepF s x = Some s' -> NoDup (map fid (fired s')).
Proof.
  intros HB H. pose proof (B_fired_nodup _ HB) as ND. step_cases H; cbn; auto.
  constructor; auto. destruct (B_tcur _ HB Heqt) as (_ & _ & NF & _). exact NF.
Qed.

Lemma presB_removed s x s' : InvB s -> stepF s x = Some s' ->
  forall i, In i (removed s') -> In i (used s') /\ ~ in_lists s' i /\ ~ In i (map fid (fired s')).
Proof.
  intros HB H i I. destruct (removed_step _ _ _ H i I) as [I0|((c & ->) & EP & ->)].
  - destruct (B_removed _ HB i I0) as (U & NL & NF). repeat split.
    + eapply used_mono; eauto.
    + intro IL. destruct (in_lists_step _ _ _ HB H _ IL) as [IL0|(a & -> & EP & Ei)]; [tauto|].
      pose proof (B_ainv _ HB a) as Ha. unfold ainv in Ha. rewrite EP in Ha. destruct Ha as (_ & _ & Ha & _).
      apply Ha. now rewrite Ei.
    + intro IF. apply in_map_iff in IF as (y & Ey & IF).
      destruct (fired_step _ _ _ H y IF) as [IF0|((c & ->) & EP & ->)].
      * apply NF. apply in_map_iff. eauto.
      * destruct (B_tcur _ HB EP) as (_ & _ & _ & NR & _). cbn in Ey. congruence.
  - pose proof (B_dr2 _ HB EP) as HI. apply has_id_In in HI as (e0 & I0 & E0).
    assert (Hh : handleish s (thid s)) by (right; right; right; auto).
    destruct (B_hnd _ HB _ Hh) as (U & _). repeat split.
    + eapply used_mono; eauto.
    + intros (L & e & Ie & Ee).
      destruct (lists_shape _ _ _ H L) as [E|a [=] _ _ _|a [=] _ _ _|c' _ _ EL E|c' e' _ EP' _ _]; [| |congruence].
      * cbn in H. unfold tstep in H. rewrite EP in H. inv_some. cbn in Ie.
        case_list L (thL s).
        -- apply in_del_id in Ie. tauto.
        -- apply n. eapply (B_cross _ HB); eauto. congruence.
      * rewrite E in Ie. apply in_del_id in Ie. tauto.
    + intro IF. apply in_map_iff in IF as (y & Ey & IF).
      destruct (fired_step _ _ _ H y IF) as [IF0|(_ & EP' & _)]; [|congruence].
      destruct (B_fired _ HB y IF0) as (_ & NL & _). apply NL. exists (thL s), e0. split; congruence.
Qed.

Lemma presB_tcur s x s' : InvB s -> stepF s x = Some s' -> tpc s' = PF ->
  In (eid (tcur s')) (used s') /\ ~ in_lists s' (eid (tcur s')) /\
  ~ In (eid (tcur s')) (map fid (fired s')) /\ ~ In (eid (tcur s')) (removed s') /\ edl (tcur s') <= tnow s'.
Proof.
  intros HB H EP'.
  destruct (tpc_t_eq_dec (tpc s) PF) as [EP|NP].
  - (* the timer does not move: it would leave PF *)
    assert (ET : tcur s' = tcur s /\ tnow s' = tnow s /\ fired s' = fired s /\ removed s' = removed s).
    { step_cases H; cbn in *; auto; congruence. }
    destruct ET as (-> & -> & -> & ->). destruct (B_tcur _ HB EP) as (U & NL & NF & NR & LE). repeat split; auto.
    + eapply used_mono; eauto.
    + intro IL. destruct (in_lists_step _ _ _ HB H _ IL) as [IL0|(a & -> & EPa & Ei)]; [tauto|].
      pose proof (B_ainv _ HB a) as Ha. unfold ainv in Ha. rewrite EPa in Ha. destruct Ha as (_ & _ & _ & Ha & _).
      apply (Ha EP). auto.
  - (* P3 -> PF *)
    step_cases H; cbn in *; try congruence.
    destruct (B_p3 _ HB Heqt) as (e0 & l0 & E0 & LK & LE). rewrite Heql in E0. injection E0 as <- <-.
    assert (Ie : In e (lst s (tL s))) by (rewrite Heql; now left).
    pose proof (B_nodup _ HB (tL s)) as ND. rewrite Heql in ND. cbn in ND. inversion ND; subst.
    repeat split; auto.
    + eapply B_used; eauto.
    + intros (L & e' & I' & E'). cbn in I'. case_list L (tL s).
      * apply H1. rewrite <- E'. now apply in_map.
      * apply n. eapply (B_cross _ HB); eauto.
    + intro IF. apply in_map_iff in IF as (y & Ey & IF). destruct (B_fired _ HB y IF) as (_ & NL & _).
      apply NL. exists (tL s), e. auto.
    + intro IR. destruct (B_removed _ HB _ IR) as (_ & NL & _). apply NL. exists (tL s), e. auto.
Qed.

(* what a step does to the adders: an adder is unchanged, or it is the one that stepped (same id), or it was idle
   and starts a call with a fresh id *)
Lemma adders_step s x s' : stepF s x = Some s' -> forall b,
  (A s' b = A s b /\ x <> AStep b /\ forall iv i, x <> Add b iv i) \/
  (x = AStep b /\ apc (A s b) <> AIdle /\ aid (A s' b) = aid (A s b) /\ aiv (A s' b) = aiv (A s b) /\ adl (A s' b) = adl (A s b)) \/
  (exists iv i, x = Add b iv i /\ apc (A s b) = AIdle /\ ~ In i (used s) /\ aid (A s' b) = i /\ apc (A s' b) = A2 /\
                aiv (A s' b) = iv /\ adl (A s' b) = now s + iv /\ used s' = i :: used s).
Proof.
  intros H b. step_cases H; cbn; try (left; repeat split; intros; congruence).
  all: case_actor b a; try (left; repeat split; intros; congruence).
  all: try (right; left; cbn; repeat split; auto; congruence).
  right; right. exists iv, i. cbn. repeat split; auto.
  intro I. apply mem_nat_In in I. congruence.
Qed.

Lemma presB_act s x s' : InvB s -> stepF s x = Some s' -> forall a, apc (A s' a) <> AIdle -> In (aid (A s' a)) (used s').
Proof.
  intros HB H a NI. destruct (adders_step _ _ _ H a) as [(E & _)|[(-> & N0 & E & _)|(iv & i & -> & E0 & NU & E & _ & _ & _ & EU)]].
  - rewrite E in *. eapply used_mono; eauto. apply (B_act _ HB); auto.
  - rewrite E. eapply used_mono; eauto. apply (B_act _ HB); auto.
  - rewrite E, EU. now left.
Qed.

Lemma presB_act2 s x s' : InvB s -> stepF s x = Some s' ->
  forall a b, a <> b -> apc (A s' a) <> AIdle -> apc (A s' b) <> AIdle -> aid (A s' a) <> aid (A s' b).
Proof.
  intros HB H a b N Ia Ib.
  destruct (adders_step _ _ _ H a) as [(Ea & _)|[(Ex & N0 & Ea & _)|(iv & i & Ex & E0 & NU & Ea & _)]];
  destruct (adders_step _ _ _ H b) as [(Eb & _)|[(Ex' & N0' & Eb & _)|(iv' & i' & Ex' & E0' & NU' & Eb & _)]];
  try (exfalso; congruence).
  - rewrite Ea, Eb in *. apply (B_act2 _ HB); auto.
  - rewrite Ea in *. rewrite Eb. apply (B_act2 _ HB); auto.
  - rewrite Ea in *. rewrite Eb. intro E. apply NU'. rewrite <- E. apply (B_act _ HB); auto.
  - rewrite Eb in *. rewrite Ea. apply (B_act2 _ HB); auto.
  - rewrite Eb in *. rewrite Ea. intro E. apply NU. rewrite E. apply (B_act _ HB); auto.
Qed.

Lemma presB_p3 s x s' : InvB s -> stepF s x = Some s' -> tpc s' = P3 ->
  exists e l, lst s' (tL s') = e :: l /\ elk e = true /\ edl e <= tnow s'.
Proof.
  intros HB H EP'.
  destruct (tpc_t_eq_dec (tpc s) P3) as [EP|NP].
  - destruct (B_p3 _ HB EP) as (e & l & E & LK & LE).
    assert (ET : tL s' = tL s /\ tnow s' = tnow s) by (step_cases H; cbn in *; auto; congruence).
    destruct ET as (-> & ->).
    destruct (lists_shape _ _ _ H (tL s)) as [E1|a _ _ _ E1|a _ _ _ E1|c' _ EP1 _ _|c' e' Ex _ _ _]; try congruence.
    + rewrite E1, E. eauto.
    + rewrite E1, E. cbn. eauto.
    + rewrite E1, E. cbn. destruct (Nat.eqb (eid e) (aid (A s a))); cbn; eauto.
    + subst x. cbn in H. unfold tstep in H. rewrite EP in H. rewrite E in H. inv_some. cbn in EP'. discriminate.
  - step_cases H; cbn in *; try congruence.
    apply N.leb_le in Heqb0. eauto.
Qed.

Lemma presB_dr2 s x s' : InvB s -> stepF s x = Some s' -> tpc s' = DR2 -> has_id (thid s') (lst s' (thL s')) = true.
Proof.
  intros HB H EP'.
  destruct (tpc_t_eq_dec (tpc s) DR2) as [EP|NP].
  - pose proof (B_dr2 _ HB EP) as HI.
    assert (ET : thL s' = thL s /\ thid s' = thid s) by (step_cases H; cbn in *; auto; congruence).
    destruct ET as (-> & ->).
    destruct (lists_shape _ _ _ H (thL s)) as [E1|a _ _ _ E1|a _ _ _ E1|c' Ex _ _ _|c' e' Ex EP1 _ _]; try congruence.
    + rewrite E1. unfold has_id in *. rewrite existsb_app, HI. reflexivity.
    + rewrite E1. apply has_id_In in HI as (e & I & E). apply has_id_In.
      destruct (link_in (aid (A s a)) _ _ I) as (e1 & I1 & E1' & _). exists e1. split; congruence.
    + subst x. cbn in H. unfold tstep in H. rewrite EP in H. inv_some. cbn in EP'. discriminate.
  - step_cases H; cbn in *; try congruence.
    apply removable_has. assumption.
Qed.

Lemma in_set_ready r q x : In x (set_ready r q) -> exists x', In x' q /\ qid x = qid x' /\ qr x = qr x' /\ qL x = qL x'.
Proof.
  unfold set_ready. rewrite in_map_iff. intros (x' & E & I). exists x'. split; auto.
  destruct (Nat.eqb (qr x') r); subst; cbn; auto.
Qed.

Lemma handleish_step s x s' : stepF s x = Some s' -> forall i, handleish s' i ->
  handleish s i \/ exists a, x = AStep a /\ apc (A s a) <> AIdle /\ apc (A s' a) = AIdle /\ aid (A s a) = i.
Proof.
  intros H i Hh. unfold handleish in *.
  step_cases H; cbn in *;
  destruct Hh as [(L0 & I)|[(r0 & E1 & E2)|[(y & I & E)|([E1|E1] & E2)]]];
  try (left; eauto 10; fail); try congruence.
  all: try (case_actor r0 r; cbn in *; try congruence; left; eauto 10; fail).
  all: try tauto.
  all: try (match goal with E : rq _ = _ |- _ => rewrite E in * end; cbn in *; try tauto; left; right; right; left; eauto; fail).
  all: try (left; right; right; left; exists y; split; auto; fail).
  all: try (left; right; right; left; exists q; split; auto; fail).
  - left; left. exists L0. eapply remove_handle_In; eauto.
  - case_actor r0 r; cbn in *; [|left; eauto 10]. subst i0. apply has_handle_In in Heqb. left; left; eauto.
  - destruct I as [[= <- <-]|I]; [|left; eauto 10]. right. exists a. rewrite upd_eq. cbn. repeat split; auto. congruence.
  - destruct I as [[= <- <-]|I]; [|left; eauto 10]. right. exists a. rewrite upd_eq. cbn. repeat split; auto. congruence.
  - destruct I as [[= <- <-]|I]; [|left; eauto 10]. right. exists a. rewrite upd_eq. cbn. repeat split; auto. congruence.
  - apply in_app_or in I as [I|[<-|[]]]; [left; eauto 10|]. cbn in E. left; right; left. eauto.
  - apply in_set_ready in I as (y' & I & E' & _). left; right; right; left. exists y'. split; congruence.
Qed.

Lemma presB_hnd s x s' : InvB s -> stepF s x = Some s' ->
  forall i, handleish s' i -> In i (used s') /\ forall a, apc (A s' a) <> AIdle -> aid (A s' a) <> i.
Proof.
  intros HB H i Hh. destruct (handleish_step _ _ _ H i Hh) as [Hh0|(a0 & -> & N0 & E0 & Ei)].
  - destruct (B_hnd _ HB i Hh0) as (U & Hd). split; [eapply used_mono; eauto|].
    intros a NI. destruct (adders_step _ _ _ H a) as [(E & _)|[(_ & Na & E & _)|(iv & i' & _ & _ & NU & E & _)]].
    + rewrite E in *. auto.
    + rewrite E. auto.
    + rewrite E. intros ->. tauto.
  - split; [eapply used_mono; eauto; subst i; apply (B_act _ HB); auto|].
    intros b NI. destruct (Nat.eq_dec b a0) as [->|Nb]; [congruence|].
    destruct (adders_step _ _ _ H b) as [(E & _)|[([= ->] & _)|(iv & i' & [=] & _)]]; [|congruence].
    rewrite E in *. subst i. apply (B_act2 _ HB); auto.
Qed.

Lemma presB_adl s x s' : InvB s -> stepF s x = Some s' ->
  forall a, apc (A s' a) <> AIdle -> adl (A s' a) <= now s' + aiv (A s' a).
Proof.
  intros HB H a NI. pose proof (now_mono _ _ _ H) as Hn.
  destruct (adders_step _ _ _ H a) as [(E & _)|[(-> & N0 & E1 & E2 & E3)|(iv & i & -> & E0 & NU & E & _ & E2 & E3 & EU)]].
  - rewrite E in *. pose proof (B_adl _ HB a NI). lia.
  - rewrite E2, E3. pose proof (B_adl _ HB a N0). lia.
  - rewrite E2, E3. lia.
Qed.

(* the timer's tcur and tnow only change when the timer steps into PF / TN *)
Lemma tcur_stable s x s' : stepF s x = Some s' -> tpc s = PF -> tpc s' = PF -> tcur s' = tcur s.
Proof. intros H EP EP'. step_cases H; cbn in *; auto; congruence. Qed.

Lemma ainv_new s x s' b iv i : InvB s -> stepF s x = Some s' -> x = Add b iv i -> ainv s' b.
Proof.
  intros HB H ->. cbn in H. destruct (apc (A s b)) eqn:EP; try discriminate.
  destruct (mem_nat i (used s)) eqn:EM; [discriminate|]. inv_some.
  assert (NU : ~ In i (used s)) by (intro I; apply mem_nat_In in I; congruence).
  unfold ainv. cbn. rewrite upd_eq. cbn. repeat split.
  - intros (L & e & I & E). apply NU. rewrite <- E. eapply B_used; eauto.
  - intro I. apply in_map_iff in I as (y & E & I). apply NU. rewrite <- E. apply (B_fired _ HB y I).
  - intro I. apply NU. apply (B_removed _ HB i I).
  - intros EP' E. apply NU. rewrite <- E. apply (B_tcur _ HB EP').
  - lia.
Qed.

Lemma ainv_self s a s' : InvB s -> stepF s (AStep a) = Some s' -> ainv s' a.
Proof.
  intros HB H. pose proof (B_ainv _ HB a) as Ha. unfold ainv in *.
  cbn in H. unfold astep in H. destruct (apc (A s a)) eqn:EP; try discriminate.
  - (* A2 *) inv_some. cbn. rewrite upd_eq. cbn. rewrite updN_eq.
    eexists. split; [apply in_or_app; right; left; reflexivity|]. cbn. auto.
  - (* A3 *) inv_some. cbn. rewrite upd_eq. cbn. split; auto.
  - (* A4 *) destruct Ha as ((e0 & I0 & E0 & LK0 & D0) & Hf).
    destruct (ahd (A s a)) eqn:EH; inv_some; cbn; rewrite upd_eq; cbn; [|exact I].
    split; [exact EH|]. rewrite updN_eq. intros e I.
    apply in_link in I as (e' & I' & _ & _ & -> & _).
    destruct (is_first_true _ _ (Hf eq_refl)) as (e1 & r & El & E1).
    assert (e1 = e0).
    { eapply nodup_same_entry; [apply (B_nodup _ HB (aiv (A s a)))| | |congruence]; auto. rewrite El; now left. }
    subst e1. pose proof (B_sorted _ HB (aiv (A s a))) as S. rewrite El in S, I'.
    pose proof (sorted_first _ _ _ S I'). destruct (B_eff _ HB (aiv (A s a)) e0 I0). lia.
  - (* A5 *) inv_some. cbn. rewrite upd_eq. destruct (inuse s (aiv (A s a))); cbn; auto.
  - (* A6 *) inv_some. cbn. rewrite upd_eq. cbn. exact I.
  - (* A7 *) destruct (slot s); inv_some; cbn; rewrite upd_eq; cbn; exact I.
  - (* A8 *) inv_some. cbn. rewrite upd_eq. cbn. exact I.
Qed.

(* the entry of an adder that has not yet linked it survives everybody else's steps *)
Lemma my_entry_stays s x s' b : InvB s -> stepF s x = Some s' -> x <> AStep b ->
  (apc (A s b) = A3 \/ apc (A s b) = A4) ->
  forall e, In e (lst s (aiv (A s b))) -> eid e = aid (A s b) -> elk e = false ->
  In e (lst s' (aiv (A s b))).
Proof.
  intros HB H Nx EPb e I E LK.
  assert (NIb : apc (A s b) <> AIdle) by (destruct EPb; congruence).
  destruct (lists_shape _ _ _ H (aiv (A s b))) as [E1|a -> _ _ E1|a -> EPa _ E1|c' -> EP1 EL E1|c' e' -> EP1 EL E1]; try rewrite E1.
  - exact I.
  - apply in_or_app. now left.
  - destruct (link_in (aid (A s a)) _ _ I) as (e1 & I1 & _ & _ & _ & Hs).
    assert (e1 = e) as -> by (apply Hs; rewrite E; apply not_eq_sym, (B_act2 _ HB); congruence). exact I1.
  - apply in_del_id. split; auto. rewrite E.
    assert (Hh : handleish s (thid s)) by (right; right; right; auto).
    apply (B_hnd _ HB _ Hh); auto.
  - destruct (B_p3 _ HB EP1) as (e1 & l1 & El & LK1 & _). rewrite EL in El. rewrite El in E1. injection E1 as <- <-.
    rewrite El in I. destruct I as [<-|I]; [congruence | exact I].
Qed.

Lemma ainv_other s x s' b : InvB s -> stepF s x = Some s' ->
  A s' b = A s b -> x <> AStep b -> (forall iv i, x <> Add b iv i) -> ainv s' b.
Proof.
  intros HB H EA Nx Nadd. pose proof (B_ainv _ HB b) as Hb. unfold ainv in *. rewrite EA.
  destruct (apc (A s b)) eqn:EPb; auto.
  - (* A2 *) destruct Hb as (NL & NF & NR & NT & LE).
    assert (NIb : apc (A s b) <> AIdle) by congruence.
    repeat split.
    + intro IL. destruct (in_lists_step _ _ _ HB H _ IL) as [IL0|(a & -> & EPa & Ei)]; [tauto|].
      revert Ei. apply (B_act2 _ HB); congruence.
    + intro I. apply in_map_iff in I as (y & Ey & I).
      destruct (fired_step _ _ _ H y I) as [I0|(_ & EP & ->)].
      * apply NF. apply in_map_iff. eauto.
      * cbn in Ey. apply (NT EP). exact Ey.
    + intro I. destruct (removed_step _ _ _ H _ I) as [I0|(_ & EP & Ei)]; [tauto|].
      assert (Hh : handleish s (thid s)) by (right; right; right; auto).
      apply (proj2 (B_hnd _ HB _ Hh) b NIb). congruence.
    + intros EP'. destruct (tpc_t_eq_dec (tpc s) PF) as [EP|NP].
      * rewrite (tcur_stable _ _ _ H EP EP'). auto.
      * intro E. apply NL. clear NT.
        step_cases H; cbn in *; try congruence. exists (tL s), e. rewrite Heql. split; [now left | exact E].
    + pose proof (now_mono _ _ _ H). lia.
  - (* A3 *) destruct Hb as (e & I & E & LK & D). exists e. repeat split; auto.
    eapply my_entry_stays; eauto.
  - (* A4 *) destruct Hb as ((e & I & E & LK & D) & Hf). split.
    + exists e. repeat split; auto. eapply my_entry_stays; eauto.
    + intros EH. specialize (Hf EH).
      assert (NIb : apc (A s b) <> AIdle) by congruence.
      destruct (lists_shape _ _ _ H (aiv (A s b))) as [E1|a -> _ _ E1|a -> EPa _ E1|c' -> EP1 EL E1|c' e' -> EP1 EL E1]; try rewrite E1.
      * exact Hf.
      * now apply is_first_app.
      * now rewrite is_first_link.
      * apply del_id_first; auto.
        assert (Hh : handleish s (thid s)) by (right; right; right; auto).
        intro Ei. apply (proj2 (B_hnd _ HB _ Hh) b NIb). congruence.
      * exfalso. destruct (B_p3 _ HB EP1) as (e1 & l1 & El & LK1 & _). rewrite EL in El.
        rewrite El in Hf. cbn in Hf. apply Nat.eqb_eq in Hf.
        assert (e1 = e).
        { eapply nodup_same_entry; [apply (B_nodup _ HB (aiv (A s b)))| | |congruence]; auto. rewrite El; now left. }
        congruence.
  - (* A5 *) destruct Hb as (EH & Hbd). split; auto. intros e I.
    destruct (lists_step _ _ _ HB H _ e I) as [(e' & I' & _ & _ & ->)|(a & -> & EPa & EL & ->)]; auto.
    cbn. assert (NIb : apc (A s b) <> AIdle) by congruence. pose proof (B_adl _ HB b NIb). lia.
  - (* A6 *) destruct Hb as (EH & Hbd). split; auto. intros e I.
    destruct (lists_step _ _ _ HB H _ e I) as [(e' & I' & _ & _ & ->)|(a & -> & EPa & EL & ->)]; auto.
    cbn. assert (NIb : apc (A s b) <> AIdle) by congruence. pose proof (B_adl _ HB b NIb). lia.
Qed.

Lemma presB_ainv s x s' : InvB s -> stepF s x = Some s' -> forall b, ainv s' b.
Proof.
  intros HB H b. destruct (adders_step _ _ _ H b) as [(E & N1 & N2)|[(-> & _)|(iv & i & Ex & _)]].
  - eapply ainv_other; eauto.
  - eapply ainv_self; eauto.
  - eapply ainv_new; eauto.
Qed.

Theorem presB s x s' : InvB s -> stepF s x = Some s' -> InvB s'.
Proof.
  intros HB H. constructor.
  - eapply presB_tnow; eauto.
  - eapply presB_eff; eauto.
  - eapply presB_sorted; eauto.
  - eapply presB_used; eauto.
  - eapply presB_nodup; eauto.
  - eapply presB_cross; eauto.
  - eapply presB_fired; eauto.
  - eapply presB_fired_nodup; eauto.
  - eapply presB_removed; eauto.
  - eapply presB_tcur; eauto.
  - eapply presB_adl; eauto.
  - eapply presB_act; eauto.
  - eapply presB_act2; eauto.
  - eapply presB_hnd; eauto.
  - eapply presB_ainv; eauto.
  - eapply presB_p3; eauto.
  - eapply presB_dr2; eauto.
Qed.

Lemma initB : InvB init.
Proof.
  constructor; cbn; try tauto; try lia; try discriminate; try constructor; intros; try tauto; try congruence.
  all: try (destruct H as [(L & [])|[(r & [=] & _)|[(y & [] & _)|([[=]|[=]] & _)]]]).
  all: try exact I.
Qed.
