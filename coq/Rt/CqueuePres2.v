(* Preservation of the per-arm clauses of the CqueueModel invariant (counters per control point, Done-event counters,
   join flag, result, kernel counter after the wait, blockers held). *)
From Coq Require Import List Arith Bool ZArith Lia.
Import ListNotations.
Require Import MayV.Rt.CqueueModel MayV.Rt.CqueueInv MayV.Rt.CqueueTac.

Lemma pres_A_ctr s ac s' : Inv s -> step current s ac = Some s' -> forall a, ctr (pc s' a) (tops s' a) (sent s' a) (bots s' a) (botd s' a).
Proof.
  intros I H a0. pose proof (A_ctr _ I) as Q. start I H.
  all: try newarm; upds; simp; try apply Q.
  all: try (match goal with E : pc ?s ?a = _ |- _ => let X := fresh in pose proof (Q a) as X; rewrite E in X; simp; cbn [ctr is_abot] in *; intuition lia end).
Qed.

Lemma pres_A_dp s ac s' : Inv s -> step current s ac = Some s' -> forall a, dpush s' a = (if dset (pc s' a) then 1 else 0) /\ dpop s' a <= dpush s' a.
Proof.
  intros I H a0. pose proof (A_dp _ I) as Q. start I H.
  all: try newarm; upds; simp; try apply Q.
  all: try (match goal with E : pc ?s ?a = _ |- _ => let X := fresh in pose proof (Q a) as X; rewrite E in X; cbn [dset] in *; intuition lia end).
  all: try (split; [apply Q | lia]).
Qed.

Lemma pres_A_jst s ac s' : Inv s -> step current s ac = Some s' -> forall a, jst s' a = negb (is_adone (pc s' a)).
Proof.
  intros I H a0. pose proof (A_jst _ I) as Q. start I H.
  all: try newarm; upds; simp; try apply Q.
  all: try (match goal with E : pc ?s ?a = _ |- _ => let X := fresh in pose proof (Q a) as X; rewrite E in X; cbn [is_adone negb] in *; fin end).
Qed.

Lemma pres_A_res s ac s' : Inv s -> step current s ac = Some s' -> forall a, endset (pc s' a) = false <-> ares s' a = RRun.
Proof.
  intros I H a0. pose proof (A_res _ I) as Q. start I H.
  all: try newarm; upds; simp; try apply Q.
  all: try (match goal with E : pc ?s ?a = _ |- _ => let X := fresh in pose proof (Q a) as X; rewrite E in X; cbn [endset] in *; try (split; intros; fin; tauto) end).
Qed.

Lemma pres_A_k0 s ac s' : Inv s -> step current s ac = Some s' -> forall a, postd0 (pc s' a) = true -> kern s' a = 0.
Proof.
  intros I H a0. pose proof (A_k0 _ I) as Q. start I H.
  all: try newarm; upds; simp; pcs; fin; try apply Q.
  all: try (intros _; first [assumption | apply Q; match goal with E : pc _ _ = _ |- _ => rewrite E; reflexivity end]).
  all: intros X.
  all: try (match goal with E : kpc ?s ?e = K0, L : ?e < nexte ?s |- _ =>
              destruct (kpre_susp s e I L) as [Y _]; [rewrite E; reflexivity | rewrite Y in X; discriminate] end).
  all: try (match goal with E : kpc ?s ?e = K4 |- _ =>
              pose proof (kact_kern_pos s e I) as Y; rewrite E in Y; specialize (Y eq_refl); rewrite (Q _ X) in Y; lia end).
Qed.

Lemma pres_A_aw s ac s' : Inv s -> step current s ac = Some s' -> forall a, pc s' a = AD4 -> aw s' a < nextb s'.
Proof.
  intros I H a0. pose proof (A_aw _ I) as Q. pose proof (W_tw _ I) as QW. start I H.
  all: try newarm; upds; simp; pcs; fin; try apply Q.
  all: intros; try (match goal with X : pc _ _ = AD4 |- _ => specialize (Q _ X); lia end);
       try (match goal with X : towake _ = Some _ |- _ => destruct (QW _ X); lia end); try (destruct (QW _ eq_refl); lia).
Qed.

Lemma pres_E_kw s ac s' : Inv s -> step current s ac = Some s' -> forall e, kpc s' e = K3 -> kw s' e < nextb s'.
Proof.
  intros I H e0. pose proof (E_kw _ I) as Q. pose proof (W_tw _ I) as QW. start I H.
  all: upds; simp; pcs; fin; try apply Q.
  all: intros; try (match goal with X : kpc _ _ = K3 |- _ => specialize (Q _ X); lia end);
       try (match goal with X : towake _ = Some _ |- _ => destruct (QW _ X); lia end); try (destruct (QW _ eq_refl); lia).
Qed.

Lemma pres_W_tw s ac s' : Inv s -> step current s ac = Some s' -> forall b, towake s' = Some b -> b = ob s' /\ b < nextb s'.
Proof.
  intros I H b0. pose proof (W_tw _ I) as Q. pose proof (W_ob _ I) as QO. start I H.
  all: upds; simp; pcs; fin; try apply Q.
  all: intros X; inversion X; subst; lia.
Qed.

Lemma pres_W_ob s ac s' : Inv s -> step current s ac = Some s' -> parkset (opc s') = true -> ob s' < nextb s'.
Proof.
  intros I H. pose proof (W_ob _ I) as Q. start I H.
  all: upds; simp; pcs; fin; try apply Q.
Qed.
