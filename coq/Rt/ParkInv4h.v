(* C02 - Inv4 is preserved: actions ATDrop, ATick *)
From Coq Require Import List ZArith Bool Arith Lia.
Import ListNotations.
Require Import MayV.Rt.AtomicDur MayV.Base.BlockerSpec MayV.Rt.ParkModel MayV.Rt.ParkTac MayV.Rt.ParkInv1 MayV.Rt.ParkInv2 MayV.Rt.ParkInv3 MayV.Rt.ParkInv4Def.
Open Scope Z_scope.


Lemma inv4_ATDrop s s' : forall i, Inv1 s -> Inv2 s -> Inv3 s -> Inv4 s -> stepF s (ATDrop i) = Some s' -> Inv4 s'.
Proof. intros i. intro4. step4 Ipl H. all: show4. Qed.

Lemma inv4_ATick s s' : forall d, Inv1 s -> Inv2 s -> Inv3 s -> Inv4 s -> stepF s (ATick d) = Some s' -> Inv4 s'.
Proof. intros d. intro4. step4 Ipl H. all: show4. Qed.
