(* C08 (callers) - proofs for the chain model CH (TimedChain.v): the verdict Timeout comes at or after
   call + armed(d) >= call + d; the timer entry's deadline is (clock at add_timer) + armed(d); a suspended
   coroutine with nothing of the runtime enabled sits in the slot with its entry pending and not yet due. *)
From Coq Require Import ZArith List Bool Lia.
Import ListNotations.
Require Import MayV.Rt.AtomicDur MayV.Rt.TimedCallers MayV.Rt.TimedCallersThm MayV.Rt.TimedChain.
Open Scope Z_scope.

Definition past_pub (k : kpc) : bool := match k with KChk | KState | KDone => true | _ => false end.
Definition settled (CK : ckind) (k : kpc) : bool :=
  match k with KDone => true | KState => match CK with CPark => true | CSleep => false end | _ => false end.
Definition pre_add (k : kpc) : bool := match k with KNow | KAdd => true | _ => false end.
Definition sleep_kp (k : kpc) : bool := match k with KNone | KAdd | KDone => true | _ => false end.
Definition need_kdl (k : kpc) : bool := match k with KAdd | KPub | KChk => true | _ => false end.
Definition has_dur (k : kpc) : bool := match k with KNone | KTake => false | _ => true end.

Record CInv (CK : ckind) (s : cst) : Prop := mkCInv {
  j_ud : 0 <= ud s;
  j_now : ctcall s <= cnow s;
  j_slot : slot s = true -> cp s = CYield;
  j_store : cp s = CStore -> kp s = KNone /\ slot s = false /\ ent s = None;
  j_take : kp s = KTake -> tmo s = enc (Some (ud s)) /\ cp s = CYield /\ slot s = false /\ ent s = None;
  j_dur : has_dur (kp s) = true -> kdur s = armed_k CK (ud s);
  j_pre : pre_add (kp s) = true ->
          cp s = CYield /\ ent s = None /\ slot s = match CK with CPark => false | CSleep => true end;
  j_pub : kp s = KPub -> slot s = false /\ cp s = CYield;
  j_kdl : forall t, kdl s = Some t ->
          exists a, armed_k CK (ud s) = Some a /\ ctcall s + a <= t <= cnow s + a /\ forall e, ent s = Some e -> t <= e;
  j_ent : forall e, ent s = Some e ->
          exists a, armed_k CK (ud s) = Some a /\ e = tadd s + a /\ ctcall s <= tadd s <= cnow s /\ has_dur (kp s) = true;
  j_res : cp s = CResumed VTimeout -> exists a, armed_k CK (ud s) = Some a /\ ctcall s + a <= cnow s;
  j_cres : forall t, cres s = Some (VTimeout, t) -> exists a, armed_k CK (ud s) = Some a /\ ctcall s + a <= t;
  j_in : cp s = CYield -> past_pub (kp s) = true -> slot s = true;
  j_armed : cp s = CYield -> settled CK (kp s) = true -> ent s <> None;
  j_fired : cp s = CYield -> ent s = None -> kp s = KPub \/ kp s = KChk -> exists t, kdl s = Some t /\ t <= cnow s;
  j_kn : cp s = CYield -> kp s <> KNone;
  j_sleep : CK = CSleep -> sleep_kp (kp s) = true /\ cp s <> CStore;
  j_kdls : CK = CPark -> need_kdl (kp s) = true -> kdl s <> None
}.

Lemma armed_k_some CK d : 0 <= d -> exists a, armed_k CK d = Some a.
Proof. intros H. destruct CK; cbn; [apply some_is_never_none; exact H | eauto]. Qed.

Lemma cinv_init CK : CInv CK cinit.
Proof.
  constructor; cbn; intros; try lia; try discriminate; try congruence; try (destruct H1; discriminate).
  split; [reflexivity | discriminate].
Qed.

Local Opaque enc dec.
Ltac csplit := repeat match goal with |- _ /\ _ => split | |- _ -> _ => intro end.

Ltac durfix :=
  try match goal with J : kdur ?s = _ |- _ => rewrite J in * end;
  try match goal with J1 : 0 <= ud ?s |- _ =>
      match goal with
      | _ : context [armed (ud s)] |- _ => idtac
      | |- context [armed (ud s)] => idtac
      end;
      let a := fresh "a" in let A := fresh "A" in
      destruct (some_is_never_none (ud s) J1) as (a & A); rewrite A in * end;
  cbn [option_map] in *;
  repeat match goal with H : Some _ = Some _ |- _ => injection H as <- end;
  try discriminate; try congruence; try lia;
  try (eexists; csplit; [reflexivity | (lia || congruence || discriminate || reflexivity) ..]).

Ltac cauto :=
  intros; cbn in *;
  repeat match goal with
  | E : ?x = Some ?z, H : ?x = Some ?t |- _ => tryif constr_eq E H then fail else (rewrite E in H; injection H as <-)
  | E : ?x = None, H : ?x = Some ?t |- _ => rewrite E in H; discriminate H
  end;
  repeat match goal with
  | J : forall t, Some ?z = Some t -> _ |- _ => specialize (J _ eq_refl)
  | J : forall t, None = Some t -> _ |- _ => clear J
  | J : forall t, ?x = Some t -> _, H : ?x = Some ?v |- _ => specialize (J _ H)
  | J : forall t, ?x = Some (VTimeout, t) -> _, H : ?x = Some (VTimeout, ?v) |- _ => specialize (J _ H)
  end;
  spec_all; brk; zb; cbn in *;
  try lia; try discriminate; try congruence; try tauto;
  try match goal with H : _ \/ _ |- _ => destruct H; (discriminate || congruence) end;
  try (eexists; csplit; [eassumption | (lia || eassumption || congruence) ..]).

Lemma cinv_step CK s a s' : CInv CK s -> chstep CK s a = Some s' -> CInv CK s'.
Proof.
  intros [J1 J2 J3 J4 J5 J6 J7 J8 J9 J10 J11 J12 J13 J14 J15 J16 J17 J18] H.
  destruct a as [dt|d| | | |]; cbn [chstep] in H.
  - (* tick *) destruct (dt <? 0) eqn:E; [discriminate|]. inv_some. zb. constructor; cauto.
    all: durfix.
  - (* call *)
    destruct (cp s) eqn:P; try discriminate. destruct (kp s) eqn:Q; try discriminate.
    all: destruct (d <? 0) eqn:E; [discriminate|]; destruct CK; inv_some; zb; constructor; cauto.
    all: durfix.
  - (* coroutine *)
    destruct (cp s) eqn:P; try discriminate; inv_some; constructor; cauto.
    injection H as -> <-. apply J11. reflexivity.
  - (* kernel *)
    unfold kstep, take_resume in H. destruct (kp s) eqn:Q; try discriminate.
    + (* KTake *) destruct CK; split_match H; try discriminate; try inv_some; constructor; cauto.
      rewrite H0. reflexivity.
    + (* KNow *) destruct CK; split_match H; try discriminate; try inv_some; constructor; cauto.
      all: durfix.
    + (* KAdd *) destruct CK; split_match H; try discriminate; try inv_some; constructor; cauto.
      all: durfix.

    + (* KPub *) destruct CK; split_match H; try discriminate; try inv_some; constructor; cauto.
      all: durfix.
    + (* KChk *) destruct CK; split_match H; try discriminate; try inv_some; constructor; cauto.
      all: durfix.
      all: intro E; destruct (J15 E (or_intror eq_refl)) as (t & T1 & T2); (discriminate || (injection T1 as <-; lia)).
    + (* KState *) destruct CK; split_match H; try discriminate; try inv_some; constructor; cauto.
      all: durfix.
  - (* fire *)
    unfold fire, take_resume in H. split_match H; try discriminate; inv_some; constructor; cauto.
    all: durfix.
    + exfalso. assert (past_pub (kp s) = true) by (destruct CK, (kp s); cbn in *; congruence). spec_all. congruence.
    + destruct H1 as [Q|Q]; rewrite Q in *; cbn in *; [|spec_all; congruence].
      destruct CK; [|destruct (J17 eq_refl); discriminate].
      destruct (kdl s) as [t|] eqn:T; [|exfalso; apply (J18 eq_refl eq_refl); reflexivity].
      destruct (J9 t eq_refl) as (a & _ & _ & L). specialize (L z eq_refl). exists t. split; [reflexivity | lia].
  - (* unpark *)
    unfold take_resume in H. destruct CK; split_match H; try discriminate; inv_some; try (constructor; assumption); constructor; cauto.
    all: durfix.
Qed.

Lemma cinv_reach CK s : CReach CK s -> CInv CK s.
Proof. induction 1; [apply cinv_init | eapply cinv_step; eassumption]. Qed.

(* ---- theorems ---- *)

(* the verdict Timeout comes at or after call + what the call was armed with ... *)
Theorem chain_timeout_not_before_armed CK s t :
  CReach CK s -> cres s = Some (VTimeout, t) -> exists a, armed_k CK (ud s) = Some a /\ ctcall s + a <= t.
Proof. intros R. apply (j_cres CK s (cinv_reach CK s R)). Qed.

(* ... hence at or after call + d: for sleep always (the timer gets the exact duration), for park up to
   AtomicDuration's cap *)
Theorem chain_timeout_not_early CK s t :
  CReach CK s -> cres s = Some (VTimeout, t) ->
  match CK with CPark => ceil_ms (ud s) <= CAP | CSleep => True end -> ctcall s + ud s <= t.
Proof.
  intros R E C. destruct (chain_timeout_not_before_armed CK s t R E) as (a & A & L).
  pose proof (j_ud CK s (cinv_reach CK s R)) as U.
  destruct CK; cbn in A.
  - pose proof (armed_bounds (ud s) a U C A). lia.
  - injection A as <-. lia.
Qed.

(* the timer entry of the call: its deadline is the clock at add_timer plus what the call is armed with, and
   add_timer comes after the call *)
Theorem chain_entry_deadline CK s e :
  CReach CK s -> ent s = Some e ->
  exists a, armed_k CK (ud s) = Some a /\ e = tadd s + a /\ ctcall s <= tadd s <= cnow s.
Proof.
  intros R E. destruct (j_ent CK s (cinv_reach CK s R) e E) as (a & A & E1 & E2 & _). eauto.
Qed.

(* the rounding of the entry: less than d + 1 ms after add_timer (exactly d for sleep) *)
Theorem chain_entry_bound CK s e :
  CReach CK s -> ent s = Some e ->
  match CK with CPark => ceil_ms (ud s) <= CAP | CSleep => True end ->
  tadd s + ud s <= e < tadd s + ud s + MS.
Proof.
  intros R E C. destruct (chain_entry_deadline CK s e R E) as (a & A & -> & _).
  pose proof (j_ud CK s (cinv_reach CK s R)) as U.
  destruct CK; cbn in A.
  - pose proof (armed_bounds (ud s) a U C A). lia.
  - injection A as <-. unfold MS. lia.
Qed.

(* no lost time-out: a suspended coroutine with nothing of the runtime enabled (the kernel half is through, the
   timer thread has nothing due) is in the slot and its entry is pending with a deadline in the future *)
Theorem chain_suspended_has_pending_timer CK s :
  CReach CK s -> cp s = CYield -> CQuiescent CK s ->
  slot s = true /\ exists e, ent s = Some e /\ cnow s < e.
Proof.
  intros R P (Qk & Qf). pose proof (cinv_reach CK s R) as I.
  assert (Kd : kp s = KDone).
  { pose proof (j_kn CK s I P) as N. unfold kstep in Qk. destruct (kp s); try congruence; try discriminate.
    - destruct (kdl s); [destruct (_ <=? _)|]; discriminate.
    - destruct (ctok s); discriminate. }
  split; [apply (j_in CK s I P); rewrite Kd; reflexivity|].
  assert (E : ent s <> None) by (apply (j_armed CK s I P); rewrite Kd; destruct CK; reflexivity).
  destruct (ent s) as [e|] eqn:Ee; [|congruence]. exists e. split; [reflexivity|].
  unfold fire in Qf. rewrite Ee in Qf. destruct (e <=? cnow s) eqn:L; [discriminate|]. zb. exact L.
Qed.

(* an entry that is due can be fired, and firing it resumes the coroutine that sits in the slot with Timeout *)
Theorem chain_due_entry_fires s e :
  ent s = Some e -> e <= cnow s -> exists s', fire s = Some s' /\ (slot s = true -> cp s' = CResumed VTimeout).
Proof.
  intros E L. unfold fire, take_resume. rewrite E. apply Z.leb_le in L. rewrite L. eexists. split; [reflexivity|].
  intros S. cbn. rewrite S. reflexivity.
Qed.

(* non-vacuity: park_timeout(1.9 ms) at clock 0 with time passing between all steps: entry at 0.3 ms + 2 ms, fired
   at 2.3 ms, verdict Timeout at 2.4 ms *)
Example chain_example :
  exists s, CReach CPark s /\ cres s = Some (VTimeout, 2400000) /\ ctcall s = 0 /\ ud s = 1900000 /\ tadd s = 300000.
Proof.
  assert (R : forall l s0, CReach CPark s0 -> forall s, crun CPark s0 l = Some s -> CReach CPark s).
  { induction l as [|a l IH]; cbn; intros s0 R0 s E; [injection E as <-; exact R0|].
    destruct (chstep CPark s0 a) eqn:S; [|discriminate]. eapply IH; [eapply CRS; eassumption | exact E]. }
  destruct (crun CPark cinit [CCall 1900000; CStep; CTick 100000; KStep; CTick 100000; KStep; CTick 100000; KStep; KStep; KStep; KStep;
                              CTick 2000000; Fire; CTick 100000; CStep]) as [s|] eqn:E; [|vm_compute in E; discriminate].
  exists s. split; [eapply R; [constructor | exact E]|]. vm_compute in E. injection E as <-. cbn. repeat split; reflexivity.
Qed.

(* the window of F8 (the entry fires before the coroutine is published) is closed by the kernel's own check *)
Example chain_example_fired_before_published :
  exists s, CReach CPark s /\ cres s = Some (VTimeout, 30000000) /\ ud s = 1000000.
Proof.
  assert (R : forall l s0, CReach CPark s0 -> forall s, crun CPark s0 l = Some s -> CReach CPark s).
  { induction l as [|a l IH]; cbn; intros s0 R0 s E; [injection E as <-; exact R0|].
    destruct (chstep CPark s0 a) eqn:S; [|discriminate]. eapply IH; [eapply CRS; eassumption | exact E]. }
  destruct (crun CPark cinit [CCall 1000000; CStep; KStep; KStep; KStep; CTick 30000000; Fire; KStep; KStep; CStep]) as [s|] eqn:E;
    [|vm_compute in E; discriminate].
  exists s. split; [eapply R; [constructor | exact E]|]. vm_compute in E. injection E as <-. cbn. repeat split; reflexivity.
Qed.
