(* C02 - Inv4 is preserved: actions AResume, AStaleSetco, AOldKDone, ADrop *)
From Coq Require Import List ZArith Bool Arith Lia.
Import ListNotations.
Require Import MayV.Rt.AtomicDur MayV.Base.BlockerSpec MayV.Rt.ParkModel MayV.Rt.ParkTac MayV.Rt.ParkInv1 MayV.Rt.ParkInv2 MayV.Rt.ParkInv3 MayV.Rt.ParkInv4Def.
Open Scope Z_scope.


Lemma inv4_AResume s s' : Inv1 s -> Inv2 s -> Inv3 s -> Inv4 s -> stepF s (AResume) = Some s' -> Inv4 s'.
Proof. intro4. step4 Ipl H. all: show4. Qed.

Lemma inv4_AStaleSetco s s' : Inv1 s -> Inv2 s -> Inv3 s -> Inv4 s -> stepF s (AStaleSetco) = Some s' -> Inv4 s'.
Proof. intro4. step4 Ipl H. all: show4. Qed.

Lemma inv4_AOldKDone s s' : Inv1 s -> Inv2 s -> Inv3 s -> Inv4 s -> stepF s (AOldKDone) = Some s' -> Inv4 s'.
Proof. intro4. step4 Ipl H. all: show4. Qed.

Lemma inv4_ADrop s s' : Inv1 s -> Inv2 s -> Inv3 s -> Inv4 s -> stepF s (ADrop) = Some s' -> Inv4 s'.
Proof. intro4. step4 Ipl H. all: show4. Qed.
