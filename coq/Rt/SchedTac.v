(* Tactics shared by the preservation proofs of SchedModel. *)
From Coq Require Import List Arith ZArith Bool Lia.
Import ListNotations.
Require Import MayV.Rt.SchedModel MayV.Rt.SchedInv.

(* split `step s a = Some s'` into one case per path through the step function *)
Ltac step_split H :=
  repeat (cbv beta iota zeta in H;
  lazymatch type of H with
  | Some _ = Some _ => fail
  | None = Some _ => discriminate H
  | (if ?x then _ else _) = Some _ => let E := fresh "E" in destruct x eqn:E
  | (match ?x with _ => _ end) = Some _ => let E := fresh "E" in destruct x eqn:E
  end).
Ltac step_inv H := unfold step in H; step_split H; inversion H; subst; clear H.

(* projections of the state transformers *)
Ltac sst := cbn [co gq lq hand stk slots dead tpc tok bjoin nextb punp rr nw mk
                 s_co s_gq s_lq s_hand s_stk s_slots s_dead s_tpc s_tok s_newb s_punp s_rr
                 on_co set_apc add_hand del_hand set_stk pushq setq getq qloc take_wake apc set_call end_call] in *.
(* projections of the record transformers *)
Ltac sco := cbn [spawned gst upc cancelled jstate jwake pkt pan jcall jdone loc bodycnt outcome ptaken jret mkc cor0 cor_new
                 c_upc c_loc c_canc c_jstate c_jwake c_pkt c_pan c_jcall c_jfin c_ptaken c_resume c_end c_gst] in *.

Ltac bools :=
  repeat match goal with
  | H : _ && _ = true |- _ => apply andb_true_iff in H; destruct H
  | H : negb _ = true |- _ => apply negb_true_iff in H
  | H : negb _ = false |- _ => apply negb_false_iff in H
  | H : Nat.eqb _ _ = true |- _ => apply Nat.eqb_eq in H; subst
  | H : Nat.eqb _ _ = false |- _ => apply Nat.eqb_neq in H
  | H : memb _ _ = true |- _ => apply memb_in in H
  | H : memb _ _ = false |- _ => apply memb_nin in H
  end.

(* case analysis on the index of an updated map *)
Ltac upds :=
  repeat match goal with
  | |- context [upd ?f ?i ?v ?j] =>
      first [ rewrite (upd_eq f i v) | rewrite (upd_neq f i j v) by congruence
            | let e := fresh "e" in destruct (Nat.eq_dec j i) as [e|e];
              [ subst; rewrite ?upd_eq | rewrite (upd_neq f i j v) by congruence ] ]
  | H : context [upd ?f ?i ?v ?j] |- _ =>
      first [ rewrite (upd_eq f i v) in H | rewrite (upd_neq f i j v) in H by congruence
            | let e := fresh "e" in destruct (Nat.eq_dec j i) as [e|e];
              [ subst; rewrite ?upd_eq in H | rewrite (upd_neq f i j v) in H by congruence ] ]
  end.

Lemma cur_cases s t a : cur s t = Some a ->
  (stk s t = [] /\ a = AT t) \/ (exists c rest, stk s t = FRun c :: rest /\ a = AC c).
Proof.
  unfold cur. destruct (stk s t) as [|[c|c k|c] rest]; intro H; inversion H; subst; eauto.
Qed.
