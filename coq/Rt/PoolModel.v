(* PoolModel (C13, "later spawns run normally, also ones that reuse its stack"): the coroutine stack pool of
   src/pool.rs as an OVERLAY on SchedModel (C01's model, imported unchanged).  Definitions only.

   SchedModel identifies a coroutine with its handle (a fresh id for every spawn); which generator / stack it runs
   on is not part of it.  The overlay adds that: stacks are numbered, `sof c` is the stack coroutine c was spawned
   on, `owner k` the coroutine that occupies stack k now, `pool` the queue of cached stacks, `psize` the counter.
   One transition per shared access of pool.rs, in program order:

     CoroutinePool::get   PGet0  size.fetch_sub(1)         PGet1  pool.pop()  -> Some(k): got it | None: PGet2
                          PGet2  size.fetch_add(1); create_dummy_coroutine()  (a new stack)
     spawn_impl           PSpawn t c ..   co.init_code(closure); the rest is SchedModel's ASpawn (the generator is
                          re-initialised whatever its previous occupant did: generator crate, trusted)
                          PSpawnCustom    a non-default stack size: Gn::new_opt, the pool is not used
     CoroutinePool::put   PPut0  size.fetch_add(1) -> m;  `m >= capacity` as usize (a wrapped, "negative" m is huge);
                                 together with SchedModel's drop step (the last step PD of the panic path, or KDrop of
                                 Done::subscribe): put is the last statement of drop_coroutine, the coroutine is
                                 consumed, the stack is in the hands of the thread
                          PPut1  pool.push(k)  |  size.fetch_sub(1) and the stack is freed
                          PDropCustom     size != default: the stack is freed (drop_coroutine does not call put)
     PBase a              every other step of SchedModel

   Ghost: owner, sof, pg / pp / px (gets between fetch_sub and pop/fetch_add, puts between fetch_add and push /
   fetch_sub).  The pool queue is crossbeam's SegQueue (assumed linearizable, as in C06). *)
From Coq Require Import List Arith ZArith Bool Lia.
Import ListNotations.
Require Import MayV.Rt.SchedModel.

Inductive opc := OIdle | OG1 | OG2 | OGot (k : nat) | OP1 (c k : nat) (ok : bool).

Record pst := {
  base : st;
  pool : list nat;
  psize : Z;
  sof : nat -> option nat;
  owner : nat -> option nat;
  custom : nat -> bool;        (* stack k has a non-default size *)
  nexts : nat;
  op : nat -> opc;
  pg : Z; pp : Z; px : Z }.

Definition is_spawn (a : action) : bool := match a with ASpawn _ _ _ _ => true | _ => false end.
(* the step that is Done::drop_coroutine: the last step of the panic path, or the kernel half of Done *)
Definition drop_of (s : st) (t : nat) : option (nat * action) :=
  match stk s t with
  | FPan c :: _ => match upc (co s c) with PD => Some (c, AStep t) | _ => None end
  | FKer c KD :: _ => Some (c, KDrop t)
  | _ => None end.
Definition is_drop (s : st) (a : action) : bool :=
  match a with
  | AStep t => match stk s t with FPan c :: _ => match upc (co s c) with PD => true | _ => false end | _ => false end
  | KDrop _ => true
  | _ => false end.

Inductive paction :=
  | PGet0 (t : nat) | PGet1 (t : nat) | PGet2 (t : nat)
  | PSpawn (t c : nat) (id : option nat) (local : bool)
  | PSpawnCustom (t c : nat) (id : option nat) (local : bool)
  | PPut0 (t : nat) | PPut1 (t : nat)
  | PDropCustom (t : nat)
  | PBase (a : action).

Section Pool.
Variable cap : Z.     (* config().get_pool_capacity() *)

Definition put_ok (m : Z) : bool := Z.leb 0 m && Z.ltb m cap.

Definition mkp b po sz so ow cu nx o g p x :=
  {| base := b; pool := po; psize := sz; sof := so; owner := ow; custom := cu; nexts := nx; op := o; pg := g; pp := p; px := x |}.
Definition set_op (s : pst) t o := mkp (base s) (pool s) (psize s) (sof s) (owner s) (custom s) (nexts s) (upd (op s) t o) (pg s) (pp s) (px s).

Definition pstep (s : pst) (a : paction) : option pst :=
  match a with
  | PGet0 t =>
      match op s t with
      | OIdle => Some (mkp (base s) (pool s) (psize s - 1) (sof s) (owner s) (custom s) (nexts s) (upd (op s) t OG1) (pg s + 1) (pp s) (px s))
      | _ => None end
  | PGet1 t =>
      match op s t with
      | OG1 => match pool s with
               | k :: r => Some (mkp (base s) r (psize s) (sof s) (owner s) (custom s) (nexts s) (upd (op s) t (OGot k)) (pg s - 1) (pp s) (px s))
               | [] => Some (set_op s t OG2) end
      | _ => None end
  | PGet2 t =>
      match op s t with
      | OG2 => Some (mkp (base s) (pool s) (psize s + 1) (sof s) (owner s) (upd (custom s) (nexts s) false) (S (nexts s))
                         (upd (op s) t (OGot (nexts s))) (pg s - 1) (pp s) (px s))
      | _ => None end
  | PSpawn t c id local =>
      match op s t with
      | OGot k => match step (base s) (ASpawn t c id local) with
                  | Some b' => Some (mkp b' (pool s) (psize s) (upd (sof s) c (Some k)) (upd (owner s) k (Some c)) (custom s) (nexts s)
                                         (upd (op s) t OIdle) (pg s) (pp s) (px s))
                  | None => None end
      | _ => None end
  | PSpawnCustom t c id local =>
      match op s t with
      | OIdle => match step (base s) (ASpawn t c id local) with
                 | Some b' => let k := nexts s in
                              Some (mkp b' (pool s) (psize s) (upd (sof s) c (Some k)) (upd (owner s) k (Some c)) (upd (custom s) k true) (S k)
                                        (op s) (pg s) (pp s) (px s))
                 | None => None end
      | _ => None end
  | PPut0 t =>
      match op s t, drop_of (base s) t with
      | OIdle, Some (c, a) =>
          match sof s c, step (base s) a with
          | Some k, Some b' =>
              if custom s k then None
              else let ok := put_ok (psize s) in
                   Some (mkp b' (pool s) (psize s + 1) (sof s) (upd (owner s) k None) (custom s) (nexts s) (upd (op s) t (OP1 c k ok))
                             (pg s) (if ok then pp s + 1 else pp s) (if ok then px s else px s + 1))
          | _, _ => None end
      | _, _ => None end
  | PPut1 t =>
      match op s t with
      | OP1 c k ok =>
          if ok then Some (mkp (base s) (pool s ++ [k]) (psize s) (sof s) (owner s) (custom s) (nexts s) (upd (op s) t OIdle)
                               (pg s) (pp s - 1) (px s))
          else Some (mkp (base s) (pool s) (psize s - 1) (sof s) (owner s) (custom s) (nexts s) (upd (op s) t OIdle)
                         (pg s) (pp s) (px s - 1))
      | _ => None end
  | PDropCustom t =>
      match op s t, drop_of (base s) t with
      | OIdle, Some (c, a) =>
          match sof s c with
          | Some k => if custom s k
                      then match step (base s) a with
                           | Some b' => Some (mkp b' (pool s) (psize s) (sof s) (upd (owner s) k None) (custom s) (nexts s) (op s) (pg s) (pp s) (px s))
                           | None => None end
                      else None
          | None => None end
      | _, _ => None end
  | PBase a =>
      if is_spawn a || is_drop (base s) a then None
      else match step (base s) a with
           | Some b' => Some (mkp b' (pool s) (psize s) (sof s) (owner s) (custom s) (nexts s) (op s) (pg s) (pp s) (px s))
           | None => None end
  end.

(* CoroutinePool::new: `capacity` dummy coroutines 0 .. n-1 are in the pool *)
Definition pinit (w n : nat) : pst :=
  mkp (init w) (seq 0 n) (Z.of_nat n) (fun _ => None) (fun _ => None) (fun _ => false) n (fun _ => OIdle) 0 0 0.

Inductive PReach (w n : nat) : pst -> Prop :=
| PR0 : PReach w n (pinit w n)
| PRS s a s' : PReach w n s -> pstep s a = Some s' -> PReach w n s'.

Fixpoint psteps (s : pst) (l : list paction) : option pst :=
  match l with [] => Some s | a :: r => match pstep s a with Some s' => psteps s' r | None => None end end.
Lemma psteps_reach w n l : forall s s', PReach w n s -> psteps s l = Some s' -> PReach w n s'.
Proof.
  induction l as [|a r IH]; cbn; intros s s' R H; [inversion H; subst; exact R|].
  destruct (pstep s a) eqn:E; [|discriminate]. eapply IH; [eapply PRS; eassumption|exact H].
Qed.

(* a coroutine that has been spawned and not yet dropped *)
Definition livec (s : pst) (c : nat) : Prop := spawned (co (base s) c) = true /\ loc (co (base s) c) <> LDead.

End Pool.
