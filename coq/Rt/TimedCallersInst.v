(* C08 (callers) - the arming functions of the two contexts satisfy the premises of TimedCallersThm / Bound;
   witnesses (vm_compute) for the slips and for the gap of the code; non-vacuity runs. *)
From Coq Require Import ZArith List Bool Lia.
Import ListNotations.
Require Import MayV.Rt.AtomicDur MayV.Rt.TimedCallers MayV.Rt.TimedCallersThm MayV.Rt.TimedCallersBound.
Open Scope Z_scope.

(* ---- coroutine context: park(Some x) is armed with AtomicDuration's [armed x] ---- *)

Definition DCAP := CAP * MS.     (* about 292 years *)

Lemma ceil_le_cap x : 0 <= x <= DCAP -> ceil_ms x <= CAP.
Proof.
  unfold DCAP, ceil_ms, MS. intros H. apply Z.lt_succ_r. apply Z.div_lt_upper_bound; lia.
Qed.

Lemma armed_lo x a : 0 <= x <= DCAP -> armed x = Some a -> x <= a.
Proof. intros H E. apply (armed_bounds x a); [lia | apply ceil_le_cap; exact H | exact E]. Qed.
Lemma armed_hi x a : 0 <= x <= DCAP -> armed x = Some a -> a < x + MS.
Proof. intros H E. apply (armed_bounds x a); [lia | apply ceil_le_cap; exact H | exact E]. Qed.
Lemma armed_some x : 0 <= x -> armed x <> None.
Proof. intros H E. destruct (some_is_never_none x H) as (t & T). congruence. Qed.

(* ---- thread context: ThreadPark::park_timeout(Some x) waits for exactly x ---- *)

Definition exact (x : Z) : option Z := Some x.
Lemma exact_lo D x a : 0 <= x <= D -> exact x = Some a -> x <= a.
Proof. unfold exact. intros _ [= <-]. lia. Qed.
Lemma exact_hi D x a : 0 <= x <= D -> exact x = Some a -> a < x + MS.
Proof. unfold exact, MS. intros _ [= <-]. lia. Qed.
Lemma exact_some x : 0 <= x -> exact x <> None.
Proof. discriminate. Qed.

(* ---- the encoding before the repair of F3 (floor, 0 = none) as arming function ---- *)

(* the slip "floor instead of ceil" on a single park: wait_timeout(1.9 ms) reports Timeout 1 ms after the call *)
Definition floor_early_run : list act :=
  [Call 1900000; Step false; Step false; Step false; Tick 1000000; Step true; Step false; Step false].

Lemma floor_single_early_refuted :
  exists s t y, Reach KSingle false armed0 s /\ res s = Some (RTimeout, t, y) /\ t < tcall s + dur s.
Proof.
  assert (R : forall l s0, Reach KSingle false armed0 s0 -> forall s, run KSingle false armed0 s0 l = Some s -> Reach KSingle false armed0 s).
  { induction l as [|a l IH]; cbn; intros s0 R0 s E; [injection E as <-; exact R0|].
    destruct (step KSingle false armed0 s0 a) eqn:S; [|discriminate]. eapply IH; [eapply RS; eassumption | exact E]. }
  destruct (run KSingle false armed0 init floor_early_run) as [s|] eqn:E; [|vm_compute in E; discriminate].
  exists s, 1000000, 0. split; [eapply R; [constructor | exact E]|].
  vm_compute in E. injection E as <-. cbn. split; [reflexivity | lia].
Qed.

Lemma run_reach K retry arm l : forall s0, Reach K retry arm s0 -> forall s, run K retry arm s0 l = Some s -> Reach K retry arm s.
Proof.
  induction l as [|a l IH]; cbn; intros s0 R0 s E; [injection E as <-; exact R0|].
  destruct (step K retry arm s0 a) eqn:S; [|discriminate]. eapply IH; [eapply RS; eassumption | exact E].
Qed.

(* ... and a sub-millisecond timeout is no timeout at all: the caller is parked for ever, nothing delays it, an hour
   has passed *)
Definition floor_hang_run : list act :=
  [Call 500000; Step false; Step false; Step false; Tick 3600000000000].

Lemma floor_single_hang_refuted :
  exists s, Reach KSingle false armed0 s /\ pcs s = Parked /\ Quiescent KSingle false armed0 s /\ ar s = None /\
            tcall s + dur s + MS + delay s <= now s.
Proof.
  destruct (run KSingle false armed0 init floor_hang_run) as [s|] eqn:E; [|vm_compute in E; discriminate].
  exists s. split; [eapply run_reach; [constructor | exact E]|].
  vm_compute in E. injection E as <-. cbn. repeat split; try reflexivity; try lia.
  intros []; reflexivity.
Qed.

(* ---- the slip "deadline recomputed from now() in every iteration": wake-ups without data 1.5 ms apart keep a
        recv_timeout(2 ms) from ever timing out; here after 4 rounds (6 ms), nothing delayed, still parked with a
        timer that is due only at 8 ms; every further round adds 1.5 ms ---- *)
Definition recomp_round : list act :=
  [Tick 1500000; Unpark; Step false; Step false; Step false; Step false; Step false].
Definition recomp_run : list act :=
  [Call 2000000; Step false; Step false; Step false; Step false] ++ recomp_round ++ recomp_round ++ recomp_round ++ recomp_round.

Lemma recompute_never_times_out_refuted :
  exists s, Reach KRecomp true armed s /\ pcs s = Parked /\ delay s = 0 /\ nsp s = 4%nat /\
            now s = tcall s + 3 * dur s /\ ar s = Some 2000000 /\ tp s = now s /\ dur s = 2000000.
Proof.
  destruct (run KRecomp true armed init recomp_run) as [s|] eqn:E; [|vm_compute in E; discriminate].
  exists s. split; [eapply run_reach; [constructor | exact E]|].
  vm_compute in E. injection E as <-. cbn. repeat split; reflexivity.
Qed.

(* ---- the code BEFORE fix 3916da2 (KFull: every iteration parks for the FULL timeout): one wake-up without data at 1.5 ms makes
        recv_timeout(2 ms) / poll(Some(2 ms)) report Timeout 3.5 ms after the call although nothing delayed it ---- *)
Definition full_late_run : list act :=
  [Call 2000000; Step false; Step false; Step false; Step false; Tick 1500000; Unpark; Step false; Step false; Step false;
   Step false; Step false; Tick 2000000; Step true; Step false; Step false; Step false].

Lemma full_prompt_refuted retry :
  exists s t, Reach KFull retry armed s /\ res s = Some (RTimeout, t, 0) /\ nsp s = 1%nat /\
              tcall s + dur s + MS <= t /\ t = tcall s + 3500000 /\ dur s = 2000000.
Proof.
  destruct retry.
  - destruct (run KFull true armed init full_late_run) as [s|] eqn:E; [|vm_compute in E; discriminate].
    exists s, 3500000. split; [eapply run_reach; [constructor | exact E]|].
    vm_compute in E. injection E as <-. cbn. repeat split; try reflexivity; lia.
  - destruct (run KFull false armed init (List.hd (Tick 0) full_late_run :: List.tl (List.tl full_late_run))) as [s|] eqn:E; [|vm_compute in E; discriminate].
    exists s, 3500000. split; [eapply run_reach; [constructor | exact E]|].
    vm_compute in E. injection E as <-. cbn. repeat split; try reflexivity; lia.
Qed.

(* the same script on the code since the fix (KRem): Timeout 2.5 ms after the call (0.5 ms left at the wake-up, armed as 1 ms) *)
Definition rem_run : list act :=
  [Call 2000000; Step false; Step false; Step false; Step false; Tick 1500000; Unpark; Step false; Step false; Step false;
   Step false; Step false; Tick 1000000; Step true; Step false; Step false; Step false].

Example rem_prompt_example :
  exists s, Reach KRem true armed s /\ res s = Some (RTimeout, 2500000, 0) /\ tcall s = 0 /\ dur s = 2000000.
Proof.
  destruct (run KRem true armed init rem_run) as [s|] eqn:E; [|vm_compute in E; discriminate].
  exists s. split; [eapply run_reach; [constructor | exact E]|].
  vm_compute in E. injection E as <-. cbn. repeat split; reflexivity.
Qed.

(* non-vacuity of the quiescence theorems: a reachable state of the code in which the call is parked, nothing is
   enabled, and its timer is pending with a deadline in the future *)
Example quiescent_parked_example :
  exists s, Reach KRem true armed s /\ pcs s <> Idle /\ Quiescent KRem true armed s /\ dur s <= DCAP /\
            ar s = Some 2000000 /\ now s = 1000000 /\ tp s = 0.
Proof.
  destruct (run KRem true armed init [Call 1500000; Step false; Step false; Step false; Step false; Tick 1000000]) as [s|] eqn:E;
    [|vm_compute in E; discriminate].
  exists s. split; [eapply run_reach; [constructor | exact E]|].
  vm_compute in E. injection E as <-. cbn. repeat split; try reflexivity; try discriminate.
  all: try (intros []; reflexivity).
  all: try (unfold DCAP; vm_compute; discriminate).
Qed.

(* zero and sub-millisecond durations: what is left 1 ns before the deadline is armed as 1 ms; a zero timeout / a zero
   remainder is armed as Some 0 and due at once *)
Example rem_zero_fires_at_once :
  exists s, Reach KRem false armed s /\ pcs s = Parked /\ ar s = Some 0 /\ tp s = now s /\ rem s = 0 /\
            exists s', cstep KRem false armed s true = Some s'.
Proof.
  destruct (run KRem false armed init [Call 0; Step false; Step false; Step false]) as [s|] eqn:E;
    [|vm_compute in E; discriminate].
  exists s. split; [eapply run_reach; [constructor | exact E]|].
  vm_compute in E. injection E as <-. cbn. repeat split; try reflexivity. eexists; reflexivity.
Qed.
