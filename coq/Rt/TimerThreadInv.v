(* C08.iii - the inductive invariant of the timer-thread model (mut = false) and the shared lemmas/tactics.
   Owicki-Gries style: global clauses, one assertion per adder control point (ainv), timer-local clauses. *)
From Coq Require Import List Arith NArith Bool Lia Sorting.Sorted.
Import ListNotations.
Require Import MayV.Rt.TimerThread.
Local Open Scope N_scope.

Notation stepF := (step false).
Notation ReachF := (Reach false).

(* ---- control-point classes of the timer thread -------------------------------------------------- *)
Definition after_store (p : tpc_t) : bool :=
  match p with D1 | D2 | D3 | DR | DR2 | TS => false | _ => true end.
Definition after_te (p : tpc_t) : bool :=
  match p with D1 | D2 | D3 | DR | DR2 | TS | TE | TT | TU => false | _ => true end.
Definition thold_pc (p : tpc_t) : bool :=
  match p with SI | P1 | P2 | P3 | PF | K1 | K2 | F1 | E1 | F2 | K3 | K4 | SH => true | _ => false end.
Definition claimT_pc (p : tpc_t) : bool := match p with SH | K3 | K4 => true | _ => false end.
Definition parkish (p : tpc_t) : bool := match p with PK | W => true | _ => false end.

Definition inheap (s : st) (L : N) : Prop := exists t, In (t, L) (heap s).
Definition claimA (s : st) (L : N) (a : nat) : Prop := apc (A s a) = A6 /\ aiv (A s a) = L.
Definition claimT (s : st) (L : N) : Prop := claimT_pc (tpc s) = true /\ tL s = L.
Definition limbo (s : st) (L : N) : Prop := tpc s = SI /\ tL s = L.
Definition thold (s : st) (L : N) : Prop := thold_pc (tpc s) = true /\ tL s = L.
(* covering adders that have not yet installed the list *)
Definition covering6 (s : st) (L : N) (a : nat) : Prop :=
  aiv (A s a) = L /\
  ((apc (A s a) = A3 /\ is_first (aid (A s a)) (lst s L) = true) \/
   ((apc (A s a) = A4 \/ apc (A s a) = A5 \/ apc (A s a) = A6) /\ ahd (A s a) = true)).

Definition sorted_eff (l : list entry) : Prop := StronglySorted (fun x y => eeff x <= eeff y) l.
Definition fid (x : nat * N * N) : nat := fst (fst x).
Definition in_lists (s : st) (i : nat) : Prop := exists L e, In e (lst s L) /\ eid e = i.

Definition handleish (s : st) (i : nat) : Prop :=
  (exists L, In (L, i) (handles s)) \/ (exists r, rpc (R s r) = R1 /\ rid (R s r) = i) \/
  (exists x, In x (rq s) /\ qid x = i) \/ ((tpc s = DR \/ tpc s = DR2) /\ thid s = i).

Definition ainv (s : st) (a : nat) : Prop :=
  let x := A s a in
  match apc x with
  | A2 => ~ in_lists s (aid x) /\ ~ In (aid x) (map fid (fired s)) /\ ~ In (aid x) (removed s) /\
          (tpc s = PF -> eid (tcur s) <> aid x) /\ adl x <= now s + aiv x
  | A3 => exists e, In e (lst s (aiv x)) /\ eid e = aid x /\ elk e = false /\ edl e = adl x
  | A4 => (exists e, In e (lst s (aiv x)) /\ eid e = aid x /\ elk e = false /\ edl e = adl x) /\
          (ahd x = true -> is_first (aid x) (lst s (aiv x)) = true)
  | A5 | A6 => ahd x = true /\ forall e, In e (lst s (aiv x)) -> adl x <= eeff e
  | _ => True
  end.

(* ---- group B: clock, lists, identities ------------------------------------------------------------ *)
Record InvB (s : st) : Prop := {
  B_tnow : tnow s <= now s;
  B_eff : forall L e, In e (lst s L) -> edl e <= eeff e /\ eeff e <= now s + L;
  B_sorted : forall L, sorted_eff (lst s L);
  B_used : forall L e, In e (lst s L) -> In (eid e) (used s);
  B_nodup : forall L, NoDup (map eid (lst s L));
  B_cross : forall L L' e e', In e (lst s L) -> In e' (lst s L') -> eid e = eid e' -> L = L';
  B_fired : forall x, In x (fired s) -> In (fid x) (used s) /\ ~ in_lists s (fid x) /\ snd (fst x) <= snd x;
  B_fired_nodup : NoDup (map fid (fired s));
  B_removed : forall i, In i (removed s) -> In i (used s) /\ ~ in_lists s i /\ ~ In i (map fid (fired s));
  B_tcur : tpc s = PF -> In (eid (tcur s)) (used s) /\ ~ in_lists s (eid (tcur s)) /\
                         ~ In (eid (tcur s)) (map fid (fired s)) /\ ~ In (eid (tcur s)) (removed s) /\
                         edl (tcur s) <= tnow s;
  B_adl : forall a, apc (A s a) <> AIdle -> adl (A s a) <= now s + aiv (A s a);
  B_act : forall a, apc (A s a) <> AIdle -> In (aid (A s a)) (used s);
  B_act2 : forall a b, a <> b -> apc (A s a) <> AIdle -> apc (A s b) <> AIdle -> aid (A s a) <> aid (A s b);
  B_hnd : forall i, handleish s i -> In i (used s) /\ forall a, apc (A s a) <> AIdle -> aid (A s a) <> i;
  B_ainv : forall a, ainv s a;
  B_p3 : tpc s = P3 -> exists e l, lst s (tL s) = e :: l /\ elk e = true /\ edl e <= tnow s;
  B_dr2 : tpc s = DR2 -> has_id (thid s) (lst s (thL s)) = true
}.

(* ---- group H: the heap and the in_use protocol ---------------------------------------------------- *)
Record InvH (s : st) : Prop := {
  H_ttm : (tpc s = F1 \/ tpc s = SH) -> forall e, In e (lst s (tL s)) -> ttm s <= eeff e;
  H_ttmb : (tpc s = F1 \/ tpc s = SH) -> ttm s <= now s + tL s;
  H_heapt : forall t L, In (t, L) (heap s) -> forall e, In e (lst s L) -> t <= eeff e;
  H_heapb : forall t L, In (t, L) (heap s) -> t <= now s + L;
  H_nodup : NoDup (map snd (heap s));
  H_zero : forall L, inuse s L = O -> ~ inheap s L /\ (forall a, ~ claimA s L a) /\ ~ claimT s L /\ ~ limbo s L;
  H_pos : forall L, inuse s L <> O -> inheap s L \/ (exists a, claimA s L a) \/ claimT s L \/ limbo s L;
  H_heap_x : forall L, inheap s L -> (forall a, ~ claimA s L a) /\ ~ claimT s L /\ ~ limbo s L;
  H_claim_1 : forall L a b, claimA s L a -> claimA s L b -> a = b;
  H_claim_x : forall L a, claimA s L a -> ~ claimT s L /\ ~ limbo s L
}.

(* ---- group C: every non-empty list is looked after ------------------------------------------------ *)
Definition InvC (s : st) : Prop :=
  forall L, lst s L <> [] -> inheap s L \/ thold s L \/ exists a, covering6 s L a.

(* ---- group W: the wake-up protocol ---------------------------------------------------------------- *)
Record InvW (s : st) : Prop := {
  W_handle : after_store (tpc s) = true -> slot s = true \/ tok s = true \/ holder s;
  W_aim : parkish (tpc s) = true ->
          tok s = true \/ holder s \/ forall L e, In e (lst s L) -> aim_le s e \/ exists a, covering s L a;
  W_rq : after_te (tpc s) = true ->
         tok s = true \/ holder s \/ forall x, In x (rq s) -> rpc (R s (qr x)) = R2 \/ rpc (R s (qr x)) = R3;
  W_aim_gt : parkish (tpc s) = true -> forall t, aim s = Some t -> tnow s < t;
  W_wake : tpc s = W -> twake s = match aim s with Some t => Some (t + tlag s) | None => None end
}.

Record Inv (s : st) : Prop := { IB : InvB s; IH : InvH s; IC : InvC s; IW : InvW s }.

Definition tpc_t_eq_dec : forall x y : tpc_t, {x = y} + {x <> y}.
Proof. decide equality. Defined.
Definition apc_t_eq_dec : forall x y : apc_t, {x = y} + {x <> y}.
Proof. decide equality. Defined.
Definition rpc_t_eq_dec : forall x y : rpc_t, {x = y} + {x <> y}.
Proof. decide equality. Defined.

(* ---- small lemmas --------------------------------------------------------------------------------- *)
Lemma upd_eq {X} (f : nat -> X) i v : upd f i v i = v.
Proof. unfold upd. now rewrite Nat.eqb_refl. Qed.
Lemma upd_neq {X} (f : nat -> X) i j v : j <> i -> upd f i v j = f j.
Proof. unfold upd. intros H. destruct (Nat.eqb_spec j i); congruence. Qed.
Lemma updN_eq {X} (f : N -> X) i v : updN f i v i = v.
Proof. unfold updN. now rewrite N.eqb_refl. Qed.
Lemma updN_neq {X} (f : N -> X) i j v : j <> i -> updN f i v j = f j.
Proof. unfold updN. intros H. destruct (N.eqb_spec j i); congruence. Qed.

Lemma run_reach mut s l s' : Reach mut s -> run mut s l = Some s' -> Reach mut s'.
Proof.
  revert s. induction l as [|x l IHl]; cbn; intros s HR H.
  - inversion H; subst; exact HR.
  - destruct (step mut s x) eqn:E; [|discriminate]. eapply IHl; [eapply RS; eassumption | exact H].
Qed.

Lemma mem_nat_In i l : mem_nat i l = true <-> In i l.
Proof.
  unfold mem_nat. rewrite existsb_exists. split.
  - intros (x & Hx & E). apply Nat.eqb_eq in E. now subst.
  - intros H. exists i. split; [exact H | apply Nat.eqb_refl].
Qed.

Lemma has_handle_In L i l : has_handle L i l = true <-> In (L, i) l.
Proof.
  unfold has_handle. rewrite existsb_exists. split.
  - intros ([L' i'] & Hx & E). cbn in E. apply andb_true_iff in E as [E1 E2].
    apply N.eqb_eq in E1. apply Nat.eqb_eq in E2. now subst.
  - intros H. exists (L, i). split; [exact H|]. cbn. now rewrite N.eqb_refl, Nat.eqb_refl.
Qed.

Lemma remove_handle_In L i l x : In x (remove_handle L i l) -> In x l.
Proof.
  induction l as [|[L' i'] l IHl]; cbn; [tauto|].
  destruct (N.eqb L' L && Nat.eqb i' i); cbn; intuition.
Qed.

Lemma has_id_In i l : has_id i l = true <-> exists e, In e l /\ eid e = i.
Proof.
  unfold has_id. rewrite existsb_exists. split; intros (e & He & E); exists e; split; auto.
  - now apply Nat.eqb_eq in E.
  - now apply Nat.eqb_eq.
Qed.

(* lists of entries *)
Lemma in_link i l e : In e (link i l) ->
  exists e', In e' l /\ eid e = eid e' /\ edl e = edl e' /\ eeff e = eeff e' /\ (elk e = elk e' \/ (eid e' = i /\ elk e = true)).
Proof.
  unfold link. rewrite in_map_iff. intros (e' & E & I). exists e'. split; [exact I|].
  destruct (Nat.eqb_spec (eid e') i); subst e; cbn; auto 6.
Qed.
Lemma link_in i l e' : In e' l -> exists e, In e (link i l) /\ eid e = eid e' /\ edl e = edl e' /\ eeff e = eeff e' /\
  (eid e' <> i -> e = e').
Proof.
  intros I. unfold link.
  exists (if Nat.eqb (eid e') i then {| eid := eid e'; edl := edl e'; eeff := eeff e'; elk := true |} else e').
  split; [apply in_map_iff; exists e'; auto|].
  destruct (Nat.eqb_spec (eid e') i); cbn; auto. repeat split; auto. congruence.
Qed.
Lemma map_eid_link i l : map eid (link i l) = map eid l.
Proof. unfold link. rewrite map_map. apply map_ext. intros e. now destruct (Nat.eqb (eid e) i). Qed.
Lemma map_eeff_link i l : map eeff (link i l) = map eeff l.
Proof. unfold link. rewrite map_map. apply map_ext. intros e. now destruct (Nat.eqb (eid e) i). Qed.
Lemma link_nil i l : link i l = [] -> l = [].
Proof. destruct l; cbn; [auto|discriminate]. Qed.
Lemma is_first_link i j l : is_first j (link i l) = is_first j l.
Proof. destruct l as [|e l]; cbn; [reflexivity|]. now destruct (Nat.eqb (eid e) i). Qed.

Lemma in_del_id i l e : In e (del_id i l) <-> In e l /\ eid e <> i.
Proof.
  unfold del_id. rewrite filter_In. split; intros [H1 H2]; split; auto.
  - intro E. rewrite E, Nat.eqb_refl in H2. discriminate.
  - destruct (Nat.eqb_spec (eid e) i); [contradiction|reflexivity].
Qed.

Lemma sorted_app l x : sorted_eff l -> (forall e, In e l -> eeff e <= eeff x) -> sorted_eff (l ++ [x]).
Proof.
  unfold sorted_eff. induction l as [|y l IHl]; cbn; intros S Hb.
  - constructor; constructor.
  - inversion S; subst. constructor.
    + apply IHl; auto.
    + rewrite Forall_forall in *. intros z Hz. apply in_app_or in Hz as [Hz|[<-|[]]]; auto.
Qed.
Lemma sorted_filter f l : sorted_eff l -> sorted_eff (filter f l).
Proof.
  unfold sorted_eff. induction l as [|y l IHl]; cbn; intros S; [constructor|].
  inversion S; subst. destruct (f y); auto. constructor; auto.
  rewrite Forall_forall in *. intros z Hz. apply filter_In in Hz as [Hz _]. auto.
Qed.
Lemma sorted_map_same l l' : map eeff l = map eeff l' -> sorted_eff l -> sorted_eff l'.
Proof.
  unfold sorted_eff. revert l'. induction l as [|y l IHl]; intros [|y' l'] E S; try discriminate; [constructor|].
  cbn in E. injection E as E1 E2. inversion S; subst. constructor; [apply IHl; auto|].
  rewrite Forall_forall in *. intros z Hz.
  assert (In (eeff z) (map eeff l)) as Hi by (rewrite E2; now apply in_map).
  apply in_map_iff in Hi as (z0 & Ez & Hz0). rewrite <- Ez, <- E1. auto.
Qed.
Lemma sorted_first e l x : sorted_eff (e :: l) -> In x (e :: l) -> eeff e <= eeff x.
Proof.
  intros S [<-|I]; [lia|]. inversion S; subst. rewrite Forall_forall in H2. auto.
Qed.
Lemma sorted_tail e l : sorted_eff (e :: l) -> sorted_eff l.
Proof. intros S. now inversion S. Qed.

Lemma is_first_true i l : is_first i l = true -> exists e r, l = e :: r /\ eid e = i.
Proof. destruct l as [|e r]; cbn; [discriminate|]. intros E. apply Nat.eqb_eq in E. eauto. Qed.

Lemma is_first_app i l l' : is_first i l = true -> is_first i (l ++ l') = true.
Proof. destruct l; cbn; [discriminate|auto]. Qed.
Lemma removable_has i l : removable i l = true -> has_id i l = true.
Proof.
  induction l as [|e [|e' r] IHl]; cbn; try discriminate.
  cbn in IHl. destruct (Nat.eqb (eid e) i); cbn; auto.
Qed.
(* the first entry is removable only if it is the one named; removing another one keeps the first *)
Lemma del_id_first i j l : is_first j l = true -> i <> j -> is_first j (del_id i l) = true.
Proof.
  destruct l as [|e r]; cbn; [discriminate|]. intros E N. apply Nat.eqb_eq in E. subst j.
  destruct (Nat.eqb_spec (eid e) i); [congruence|]. cbn. apply Nat.eqb_refl.
Qed.

(* heap *)
Lemma hfind_In c h t : hfind c h = Some t -> In (t, c) h.
Proof.
  induction h as [|[t' L] r IHh]; cbn; [discriminate|].
  destruct (N.eqb_spec L c); [intros [= <-]; subst; auto | auto].
Qed.
Lemma hfind_None c h : hfind c h = None -> forall t, ~ In (t, c) h.
Proof.
  induction h as [|[t' L] r IHh]; cbn; [tauto|].
  destruct (N.eqb_spec L c); [discriminate|]. intros E t [[= -> ->]|I]; [congruence|]. eapply IHh; eauto.
Qed.
Lemma in_hdel c h x : In x (hdel c h) -> In x h.
Proof.
  induction h as [|[t' L] r IHh]; cbn; [tauto|].
  destruct (N.eqb L c); cbn; intuition.
Qed.
Lemma in_hdel_other c h t L : L <> c -> In (t, L) h -> In (t, L) (hdel c h).
Proof.
  intros N. induction h as [|[t' L'] r IHh]; cbn; [tauto|].
  destruct (N.eqb_spec L' c); cbn; intros [[= -> ->]|I]; auto; congruence.
Qed.
Lemma hdel_gone c h : NoDup (map snd h) -> forall t, ~ In (t, c) (hdel c h).
Proof.
  induction h as [|[t' L'] r IHh]; cbn; [tauto|]. intros ND t. inversion ND; subst.
  destruct (N.eqb_spec L' c).
  - subst. intro I. apply H1. apply in_map_iff. exists (t, c). auto.
  - cbn. intros [[= -> ->]|I]; [congruence|]. eapply IHh; eauto.
Qed.
Lemma hdel_nodup c h : NoDup (map snd h) -> NoDup (map snd (hdel c h)).
Proof.
  induction h as [|[t' L'] r IHh]; cbn; [auto|]. intros ND. inversion ND; subst.
  destruct (N.eqb L' c); [auto|]. cbn. constructor; auto.
  intro I. apply H1. apply in_map_iff in I as (x & E & I). apply in_map_iff. exists x. split; auto. eapply in_hdel; eauto.
Qed.
Lemma hmin_le h m : hmin h = Some m -> forall x, In x h -> m <= fst x.
Proof.
  revert m. induction h as [|[t L] r IHh]; cbn; [discriminate|]. intros m E x [<-|I].
  - cbn. destruct (hmin r); inversion E; subst; lia.
  - destruct (hmin r) as [m'|] eqn:Em.
    + inversion E; subst. specialize (IHh m' eq_refl x I). lia.
    + destruct r; [contradiction|]. cbn in Em. destruct p. destruct (hmin r); discriminate.
Qed.
Lemma hmin_in h m : hmin h = Some m -> exists x, In x h /\ fst x = m.
Proof.
  revert m. induction h as [|[t L] r IHh]; cbn; [discriminate|]. intros m E.
  destruct (hmin r) as [m'|] eqn:Em.
  - inversion E; subst. destruct (N.min_spec t m') as [[_ ->]|[_ ->]].
    + exists (t, L); auto.
    + destruct (IHh m' eq_refl) as (x & Hx & Ex). exists x; auto.
  - inversion E; subst. exists (m, L); auto.
Qed.
Lemma hmin_none h : hmin h = None -> h = [].
Proof. destruct h as [|[t L] r]; cbn; [auto|]. destruct (hmin r); discriminate. Qed.
Lemma none_due_spec t h : none_due t h = true -> forall x, In x h -> t < fst x.
Proof. unfold none_due. rewrite forallb_forall. intros H x I. apply N.ltb_lt. auto. Qed.

Lemma NoDup_app_one {X} (l : list X) x : NoDup l -> ~ In x l -> NoDup (l ++ [x]).
Proof.
  induction l as [|y l IHl]; cbn; intros ND N.
  - constructor; [tauto | constructor].
  - inversion ND; subst. constructor.
    + intro I. apply in_app_or in I as [I|[E|[]]]; [tauto | subst; tauto].
    + apply IHl; tauto.
Qed.
Lemma NoDup_map_filter {X Y} (f : X -> Y) p l : NoDup (map f l) -> NoDup (map f (filter p l)).
Proof.
  induction l as [|y l IHl]; cbn; intros ND; [constructor|]. inversion ND; subst.
  destruct (p y); cbn; auto. constructor; auto.
  intro I. apply H1. apply in_map_iff in I as (z & E & I). apply filter_In in I as [I _]. apply in_map_iff. eauto.
Qed.
(* in a list without duplicate ids an id names one entry *)
Lemma nodup_same_entry l e e' : NoDup (map eid l) -> In e l -> In e' l -> eid e = eid e' -> e = e'.
Proof.
  induction l as [|y l IHl]; cbn; [tauto|]. intros ND I I' E. inversion ND; subst.
  destruct I as [->|I]; destruct I' as [->|I']; auto.
  - exfalso. apply H1. rewrite E. now apply in_map.
  - exfalso. apply H1. rewrite <- E. now apply in_map.
Qed.
