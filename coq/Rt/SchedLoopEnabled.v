(* SchedLoopModel: the worker loop never blocks by itself: at every control point other than "blocked in epoll_wait" and
   "inside run_coroutine" the worker has an enabled action. *)
From Coq Require Import List Arith ZArith NArith Bool Lia.
Import ListNotations.
Require Import MayV.Rt.SchedModel MayV.Rt.SchedInv MayV.Rt.SchedTac MayV.Rt.SchedThm MayV.Rt.SchedLive MayV.Rt.SchedLoopModel
  MayV.Rt.SchedLoopBase MayV.Rt.SchedLoopInv MayV.Rt.SchedLoopStruct.

Lemma base_idle_of s t : stk s t = [] -> tpc s t = Idle -> base_idle s t = true.
Proof. unfold base_idle. now intros -> ->. Qed.

Lemma put_enabled s t c r : base_idle s t = true -> hand s t = c :: r -> step s (Put t) <> None.
Proof. intros B H. unfold step. rewrite B, H. discriminate. Qed.

Lemma lstep_some P l a : guard P l a = true ->
  match proj l a with Some b => step (base l) b <> None | None => True end -> lstep P l a <> None.
Proof.
  intros G S. unfold lstep. rewrite G. destruct (proj l a) as [b|]; [|discriminate].
  destruct (step (base l) b); [discriminate | congruence].
Qed.

Theorem loop_step_enabled P n l w : LReach P n l -> w < n -> wpc l w <> PSleep ->
  (forall r, wpc l w = PCo r -> stk (base l) w = [] /\ hand (base l) w = []) ->
  exists a, actor a = Some w /\ lstep P l a <> None.
Proof.
  intros R L NS CO. pose proof (tinv_reach _ _ _ R) as [I1 I2 I3 I4]. specialize (I2 w L). specialize (I3 w L). specialize (I4 w L).
  pose proof (lreach_base _ _ _ R) as RB.
  assert (LT : (w <? nw (base l)) = true) by (rewrite I1; now apply Nat.ltb_lt).
  assert (BI : is_co (wpc l w) = false -> base_idle (base l) w = true) by (intro X; apply base_idle_of; auto).
  destruct (wpc l w) eqn:E; cbn [is_co hand_ok] in *; try specialize (BI eq_refl).
  - exists (LPoll w false). split; [reflexivity|]. apply lstep_some; cbn [guard proj]; [rewrite LT, E; reflexivity | exact I].
  - congruence.
  - destruct e.
    + exists (LEvRead w). split; [reflexivity|]. apply lstep_some; cbn [guard proj]; [rewrite LT, E; reflexivity | exact I].
    + exists (LEvDone w). split; [reflexivity|]. apply lstep_some; cbn [guard proj]; [rewrite LT, E; reflexivity | exact I].
  - destruct I4 as [c I4]. exists (LPut w). split; [reflexivity|]. apply lstep_some; cbn [guard proj]; [rewrite LT, E; reflexivity|].
    eapply put_enabled; eauto.
  - destruct (hand (base l) w) eqn:EH; [destruct (gq (base l) w) eqn:EG|].
    + exists (LBulkEnd w). split; [reflexivity|]. apply lstep_some; cbn [guard proj]; [rewrite LT, E, EH, EG; reflexivity | exact I].
    + exists (LBulkGrab w). split; [reflexivity|]. apply lstep_some; cbn [guard proj]; [rewrite LT, E; reflexivity|].
      apply (queue_nonempty_grab_enabled _ _ (QG w) n0); [cbn; rewrite EG; now left | exact BI].
    + exists (LBulkEnd w). split; [reflexivity|]. apply lstep_some; cbn [guard proj]; [rewrite LT, E, EH; reflexivity | exact I].
  - destruct (hand (base l) w) eqn:EH; [congruence|]. exists (LPut w). split; [reflexivity|].
    apply lstep_some; cbn [guard proj]; [rewrite LT, E; reflexivity|]. eapply put_enabled; eauto.
  - exists (LPop w). split; [reflexivity|]. apply lstep_some; cbn [guard proj]; [rewrite LT, E; reflexivity|].
    destruct (lq (base l) w) eqn:EL; [exact I|].
    apply (queue_nonempty_grab_enabled _ _ (QL w) n0); [cbn; rewrite EL; now left | exact BI].
  - destruct I4 as [c I4]. exists (LResume w). split; [reflexivity|].
    apply lstep_some; cbn [guard proj]; [rewrite LT, E, I4; reflexivity|]. rewrite I4.
    destruct (handed_coroutine_resumable _ _ w c RB) as (s' & S & _); [rewrite I4; now left | exact BI | congruence].
  - destruct (CO r eq_refl) as (C1 & C2). exists (LCoRet w). split; [reflexivity|].
    apply lstep_some; cbn [guard proj]; [rewrite LT, E, C1, C2; reflexivity | exact I].
  - exists (LHas w). split; [reflexivity|]. apply lstep_some; cbn [guard proj]; [rewrite LT, E; reflexivity | exact I].
  - destruct (Nat.ltb i (maxst (nw (base l)))) eqn:EI.
    + exists (LStEnd w). split; [reflexivity|]. apply lstep_some; cbn [guard proj]; [rewrite LT, E, EI; reflexivity | exact I].
    + exists (LStOut w). split; [reflexivity|]. apply lstep_some; cbn [guard proj]; [|exact I].
      rewrite LT, E. apply Nat.ltb_ge in EI. apply Nat.leb_le in EI. rewrite EI. reflexivity.
  - destruct (hand (base l) w) eqn:EH; [cbn in I4; lia|]. exists (LPut w). split; [reflexivity|].
    apply lstep_some; cbn [guard proj]; [rewrite LT, E; reflexivity|]. eapply put_enabled; eauto.
  - exists (LTmDone w None). split; [reflexivity|]. apply lstep_some; cbn [guard proj]; [rewrite LT, E; reflexivity | exact I].
Qed.

(* what local.pop takes is resumed by the next action of the worker *)
Theorem popped_coroutine_is_resumed_next P n l w c r l1 : LReach P n l -> w < n -> lq (base l) w = c :: r ->
  lstep P l (LPop w) = Some l1 ->
  wpc l1 w = PRes RRun /\ hand (base l1) w = [c] /\ ntake l1 c = S (ntake l c) /\
  exists l2, lstep P l1 (LResume w) = Some l2 /\ In (FRun c) (stk (base l2) w) /\ wpc l2 w = PCo RRun.
Proof.
  intros R L E H. pose proof (tinv_reach _ _ _ R) as [I1 I2 I3 I4].
  assert (R1 : LReach P n l1) by (eapply LRS; eauto).
  pose proof (tinv_reach _ _ _ R1) as [J1 J2 J3 J4].
  destruct (lstep_inv _ _ _ _ H) as (G & s' & -> & S). cbn [guard proj] in G, S. rewrite E in S.
  apply andb_true_iff in G. destruct G as [G0 G1]. destruct (wpc l w) eqn:PC; try discriminate G1.
  specialize (I4 w L). rewrite PC in I4. cbn in I4.
  apply step_grab in S. destruct S as (_ & c' & A & HH & _ & SK & TP & _). cbn [getq] in A. rewrite E in A. inversion A; subst c'.
  rewrite I4 in HH. cbn in HH.
  assert (W1 : wpc (ctl P l (LPop w) s') w = PRes RRun).
  { unfold ctl. rewrite E. unfold taken. lsimp. now rewrite upd_eq. }
  assert (NT : ntake (ctl P l (LPop w) s') c = S (ntake l c)).
  { unfold ctl. rewrite E. unfold taken, inc. lsimp. now rewrite upd_eq. }
  rewrite base_ctl in *. split; [exact W1|]. split; [exact HH|]. split; [exact NT|].
  assert (BI : base_idle s' w = true).
  { apply base_idle_of; [apply J3; [exact L | rewrite W1; reflexivity] | apply J2, L]. }
  destruct (handed_coroutine_resumable _ _ w c (lreach_base _ _ _ R1)) as (s2 & S2 & F2);
    [rewrite base_ctl, HH; now left | rewrite base_ctl; exact BI|]. rewrite base_ctl in S2.
  exists (ctl P (ctl P l (LPop w) s') (LResume w) s2). split.
  - unfold lstep. cbn [guard proj]. rewrite base_ctl, W1, HH, J1. apply Nat.ltb_lt in L. rewrite L. cbn [andb is_nil negb]. rewrite S2. reflexivity.
  - rewrite base_ctl. split; [exact F2|]. unfold ctl at 1. rewrite W1. lsimp. now rewrite upd_eq.
Qed.
