(* C14 theorems about results and panics (current code), and the refutations for the pre-fix variants. *)
From Coq Require Import List Arith Bool Lia.
Import ListNotations.
Require Import MayV.Rt.ScopeModel MayV.Rt.ScopeInv MayV.Rt.ScopeSafe MayV.Rt.ScopeRes MayV.Rt.ScopeResP.

(* ScopedJoinHandle::join: the final `packet.take().unwrap()` finds the child's value (the step is enabled
   and hands out exactly the value the child returned) *)
Theorem explicit_join_returns_value s a :
  Reach current s -> pcm s a = PRet -> pktm s (jcm s a) = Some (cvalm s (jcm s a)).
Proof.
  intros R P. destruct (inv2_reach _ R) as [I I2].
  pose proof (K14 _ I2 a P) as E.
  assert (JP : jpcs (pcm s a) = true) by (rewrite P; reflexivity).
  destruct (K13 _ I2 a E JP) as [G _].
  assert (PW : postwait (pcm s a) = true) by (rewrite P; reflexivity).
  apply (K6 _ I2); [apply fin3_fin; apply (K4 _ I2); apply (K9 _ I2); exact PW | apply (K11 _ I2); exact P | exact G].
Qed.

Theorem result_at_most_once s c : Reach current s -> gotm s c <= 1.
Proof. intros R. destruct (inv2_reach _ R) as [_ I2]. apply (K12 _ I2). Qed.

(* the result JoinHandle::join computed for the owner is the way the child ended *)
Theorem join_result_is_child_outcome s a :
  Reach current s -> hasres (pcm s a) = true ->
  jresm s a = res_of (unwm s (jcm s a)) /\ outm s (jcm s a) = out_of (unwm s (jcm s a)) (cvalm s (jcm s a)).
Proof.
  intros R P. destruct (inv2_reach _ R) as [I I2]. split; [apply (K10 _ I2); exact P|].
  rewrite (K3 _ I2).
  assert (F : fin (pcm s (jcm s a)) = true)
    by (apply fin3_fin; apply (K4 _ I2); apply (K9 _ I2); apply hasres_postwait; exact P).
  rewrite F. reflexivity.
Qed.

(* a child's panic is re-raised in an owner that is not unwinding already ... *)
Theorem child_panic_reraised s a p s' :
  Reach current s -> pcm s a = PRes -> unwm s a = UNone -> outm s (jcm s a) = OPanic p ->
  step current s (Step a) = Some s' -> unwm s' a = UPanic p.
Proof.
  intros R P U O H.
  assert (HR : hasres (pcm s a) = true) by (rewrite P; reflexivity).
  destruct (join_result_is_child_outcome s a R HR) as [J O2]. rewrite O2 in O.
  assert (J2 : jresm s a = RPanic p).
  { rewrite J. destruct (unwm s (jcm s a)); cbn in O; try discriminate. inversion O; subst. reflexivity. }
  cbn [step] in H. rewrite P, U, J2 in H. inversion H; subst. unfold raise, wpc. cbn. rewrite upd_eq. reflexivity.
Qed.

(* ... and stays the owner's state until it ends: no transition changes a set unwinding state ... *)
Theorem unwinding_is_sticky s ac s' a :
  Reach current s -> step current s ac = Some s' -> pcm s a <> PNone -> unwm s a <> UNone -> unwm s' a = unwm s a.
Proof.
  intros R H N U. destruct (inv2_reach _ R) as [I I2]. facts I. facts2 I2.
  step_cases H; simp; bools; known; upds; simp; dm; simp; try reflexivity; try congruence; try lia; unwd; try congruence.
  all: try (match goal with E : pcm ?s ?a = PBody |- _ => rewrite (R1 a E) in U; congruence end).
  all: try (exfalso; apply N; apply Q8; lia).
Qed.

(* ... where it is published as the owner's own outcome (what the owner's JoinHandle::join reports) *)
Theorem outcome_is_unwinding_state s a :
  Reach current s -> fin (pcm s a) = true -> outm s a = out_of (unwm s a) (cvalm s a).
Proof. intros R F. destruct (inv2_reach _ R) as [_ I2]. rewrite (K3 _ I2), F. reflexivity. Qed.
