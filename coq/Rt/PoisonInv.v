(* Invariants of PoisonModel and their preservation (C13). *)
From Coq Require Import List Arith ZArith Bool Lia.
Import ListNotations.
Require Import MayV.Rt.PoisonModel.

Lemma upd_eq {X} (f : nat -> X) i v : upd f i v i = v.
Proof. unfold upd. now rewrite Nat.eqb_refl. Qed.
Lemma upd_neq {X} (f : nat -> X) i j v : j <> i -> upd f i v j = f j.
Proof. unfold upd. intro H. apply Nat.eqb_neq in H. now rewrite H. Qed.

Ltac step_split H :=
  repeat (cbv beta iota zeta in H;
  lazymatch type of H with
  | Some _ = Some _ => fail
  | None = Some _ => discriminate H
  | (if ?x then _ else _) = Some _ => let E := fresh "E" in destruct x eqn:E
  | (match ?x with _ => _ end) = Some _ => let E := fresh "E" in destruct x eqn:E
  end).
Ltac step_inv H := unfold step in H; step_split H; inversion H; subst; clear H.
Ltac bools :=
  repeat match goal with
  | H : _ && _ = true |- _ => apply andb_true_iff in H; destruct H
  | H : negb _ = true |- _ => apply negb_true_iff in H
  | H : negb _ = false |- _ => apply negb_false_iff in H
  | H : Nat.eqb _ _ = true |- _ => apply Nat.eqb_eq in H
  | H : Nat.eqb _ _ = false |- _ => apply Nat.eqb_neq in H
  | H : Nat.leb _ _ = true |- _ => apply Nat.leb_le in H
  | H : Nat.ltb _ _ = true |- _ => apply Nat.ltb_lt in H
  | H : Z.leb _ _ = true |- _ => apply Z.leb_le in H
  | H : Z.eqb _ _ = true |- _ => apply Z.eqb_eq in H
  end.
Ltac proj := cbn [T L nextg cst ctl held fin cunw swal failed wheld readers gid glock gk gpan gerr gfr
                  wT set_cst set_ctl set_held set_fin set_cancel_unw set_caught set_gfr do_drop acquire release] in *.
(* case analysis on the index of an updated map *)
Ltac upds :=
  repeat match goal with
  | |- context [upd ?f ?i ?v ?j] =>
      first [ rewrite (upd_eq f i v) | rewrite (upd_neq f i j v) by congruence
            | let e := fresh "e" in destruct (Nat.eq_dec j i) as [e|e];
              [ subst; rewrite ?upd_eq | rewrite (upd_neq f i j v) by congruence ] ]
  | H : context [upd ?f ?i ?v ?j] |- _ =>
      first [ rewrite (upd_eq f i v) in H | rewrite (upd_neq f i j v) in H by congruence
            | let e := fresh "e" in destruct (Nat.eq_dec j i) as [e|e];
              [ subst; rewrite ?upd_eq in H | rewrite (upd_neq f i j v) in H by congruence ] ]
  end.

(* ---- lists of guards ---- *)
Lemma in_del_g g i l : In g (del_g i l) <-> In g l /\ gid g <> i.
Proof.
  unfold del_g. rewrite filter_In. split; intros [A B]; split; auto.
  - apply negb_true_iff in B. now apply Nat.eqb_neq in B.
  - apply negb_true_iff. now apply Nat.eqb_neq.
Qed.
Lemma find_g_some i l g : find_g i l = Some g -> In g l /\ gid g = i.
Proof. unfold find_g. intro H. apply find_some in H. destruct H as [A B]. apply Nat.eqb_eq in B. auto. Qed.
Lemma find_g_in i l g : In g l -> gid g = i -> exists g', find_g i l = Some g'.
Proof.
  intros I E. unfold find_g. destruct (find (fun g0 => Nat.eqb (gid g0) i) l) eqn:F; [eauto|].
  exfalso. pose proof (find_none _ _ F _ I) as N. cbn in N. apply Nat.eqb_neq in N. auto.
Qed.
Lemma in_move_g g' i d l : In g' (move_g i d l) ->
  exists g, In g l /\ gid g' = gid g /\ glock g' = glock g /\ gk g' = gk g /\ gpan g' = gpan g /\ gerr g' = gerr g.
Proof.
  unfold move_g. rewrite in_map_iff. intros [g [E I]]. exists g. split; [exact I|].
  destruct (Nat.eqb (gid g) i); subst g'; cbn; auto 10.
Qed.
Lemma move_g_in g i d l : In g l ->
  exists g', In g' (move_g i d l) /\ gid g' = gid g /\ glock g' = glock g /\ gk g' = gk g /\ gpan g' = gpan g.
Proof.
  intro I. exists (if Nat.eqb (gid g) i then set_gfr g d else g). split.
  - unfold move_g. apply in_map_iff. exists g. auto.
  - destruct (Nat.eqb (gid g) i); cbn; auto.
Qed.
Lemma map_gid_move i d l : map gid (move_g i d l) = map gid l.
Proof. unfold move_g. rewrite map_map. apply map_ext. intro g. destruct (Nat.eqb (gid g) i); reflexivity. Qed.
Lemma filter_move_len (P : guard -> bool) i d l :
  (forall g, P (set_gfr g d) = P g) -> length (filter P (move_g i d l)) = length (filter P l).
Proof.
  intro HP. induction l as [|g l IH]; [reflexivity|]. unfold move_g in *. cbn [map filter].
  destruct (Nat.eqb (gid g) i); rewrite ?HP; destruct (P g); cbn [length]; rewrite IH; reflexivity.
Qed.
Lemma map_gid_del i l : NoDup (map gid l) -> NoDup (map gid (del_g i l)).
Proof.
  induction l as [|g l IH]; cbn; intro N; [constructor|]. inversion N; subst.
  destruct (negb (Nat.eqb (gid g) i)); cbn; [|auto]. constructor; [|auto].
  intro X. apply in_map_iff in X. destruct X as [g' [E I]]. apply filter_In in I. destruct I as [I _].
  apply H1. apply in_map_iff. eauto.
Qed.
Lemma del_g_notin i l : ~ In i (map gid l) -> del_g i l = l.
Proof.
  induction l as [|g l IH]; cbn; intro N; [reflexivity|].
  destruct (Nat.eqb_spec (gid g) i) as [E|E]; [tauto|]. cbn. f_equal. apply IH. tauto.
Qed.
Lemma filter_del_len (P : guard -> bool) g l : NoDup (map gid l) -> In g l ->
  length (filter P (del_g (gid g) l)) = length (filter P l) - (if P g then 1 else 0).
Proof.
  induction l as [|x l IH]; cbn [map del_g filter]; intros N I; [destruct I|]. inversion N; subst.
  destruct I as [I|I].
  - subst x. rewrite Nat.eqb_refl. cbn [negb]. fold (del_g (gid g) l). rewrite del_g_notin by assumption.
    destruct (P g); cbn [length]; lia.
  - destruct (Nat.eqb_spec (gid x) (gid g)) as [E|E].
    + exfalso. apply H1. rewrite E. apply in_map. exact I.
    + cbn [negb filter]. fold (del_g (gid g) l). specialize (IH H2 I).
      destruct (P x); cbn [length]; rewrite IH; [|reflexivity].
      destruct (P g) eqn:PG; [|lia].
      assert (1 <= length (filter P l)); [|lia].
      assert (X : In g (filter P l)) by (apply filter_In; auto). destruct (filter P l); [destruct X | cbn; lia].
Qed.
Lemma gid_inj l g g' : NoDup (map gid l) -> In g l -> In g' l -> gid g = gid g' -> g = g'.
Proof.
  induction l as [|x l IH]; cbn; intros N I I' E; [destruct I|]. inversion N; subst.
  destruct I as [I|I], I' as [I'|I']; subst; auto.
  - exfalso. apply H1. rewrite E. apply in_map. exact I'.
  - exfalso. apply H1. rewrite <- E. apply in_map. exact I.
Qed.
Lemma existsb_unw_in l : existsb is_unw l = true <-> exists m ins, In (CUnw m ins) l.
Proof.
  rewrite existsb_exists. split.
  - intros [[|m ins] [I U]]; [discriminate|eauto].
  - intros [m [ins I]]. exists (CUnw m ins). auto.
Qed.

Section Inv.
Variable isco : nat -> bool.
Variable ismutex : nat -> bool.
Variable fixd : bool.
Notation step := (step isco ismutex fixd).
Notation Reach := (Reach isco ismutex fixd).

Definition rg (l : nat) (g : guard) : bool := Nat.eqb (glock g) l && negb (has_flag (gk g)).

Fixpoint noadj (l : list citem) : Prop :=
  match l with
  | CUnw _ _ :: ((CUnw _ _ :: _) as r) => False
  | _ :: r => noadj r
  | [] => True end.

Record Inv (s : st) : Prop := {
  (* the Cancel.state word is never negative *)
  J1 : forall t, (0 <= cst (T s t))%Z;
  (* a cancellation unwinds only a coroutine whose cancel bit is set (the bit is never cleared) *)
  J2 : forall t ins, In (CUnw MCancel ins) (ctl (T s t)) -> isco t = true /\ Z.odd (cst (T s t)) = true;
  (* a guard made while the task was not unwinding: every unwinding in progress started while it was held *)
  J3 : forall t g m ins, In g (held (T s t)) -> gpan g = false -> In (CUnw m ins) (ctl (T s t)) -> In (gid g) ins;
  (* guard ids are fresh *)
  J4 : forall t g, In g (held (T s t)) -> gid g < nextg s;
  J4b : forall t, NoDup (map gid (held (T s t)));
  (* a write / mutex guard is the ownership recorded in the lock, and vice versa *)
  J5a : forall t g, In g (held (T s t)) -> has_flag (gk g) = true -> wheld (L s (glock g)) = Some t;
  J5b : forall l t, wheld (L s l) = Some t -> exists g, In g (held (T s t)) /\ glock g = l /\ has_flag (gk g) = true;
  J5e : forall t g g', In g (held (T s t)) -> In g' (held (T s t)) -> has_flag (gk g) = true -> has_flag (gk g') = true ->
        glock g = glock g' -> gid g = gid g';
  (* the readers of a lock are exactly the read guards *)
  J5c : forall l t, count_occ Nat.eq_dec (readers (L s l)) t = length (filter (rg l) (held (T s t)));
  (* a writer excludes readers, poisoned or not *)
  J5d : forall l t, wheld (L s l) = Some t -> readers (L s l) = [];
  (* a task that has ended owns nothing *)
  J6 : forall t, fin (T s t) <> None -> held (T s t) = [] /\ ctl (T s t) = [];
  (* a panic on top of an unwinding without a catch_unwind in between would have aborted *)
  J8 : forall t, noadj (ctl (T s t));
  (* the mark of the cancel panic: set while a cancellation unwinds; later the task has ended or has swallowed it *)
  J9 : forall t ins, In (CUnw MCancel ins) (ctl (T s t)) -> cunw (T s t) = true;
  J10 : forall t, cunw (T s t) = true ->
        (exists ins, In (CUnw MCancel ins) (ctl (T s t))) \/ swal (T s t) = true \/ fin (T s t) <> None;
  (* guards are of the lock's kind *)
  J7 : forall t g, In g (held (T s t)) -> kind_ok ismutex (glock g) (gk g) = true
}.

Lemma inv_init : Inv init.
Proof.
  constructor; cbn; intros; try tauto; try lia; try discriminate; auto; constructor.
Qed.

Lemma odd_add2 c : Z.odd (c + 2) = Z.odd c.
Proof. replace (c + 2)%Z with (c + 2 * 1)%Z by lia. apply Z.odd_add_mul_2. Qed.
Lemma odd_sub2 c : Z.odd (c - 2) = Z.odd c.
Proof. replace (c - 2)%Z with (c + 2 * (-1))%Z by lia. apply Z.odd_add_mul_2. Qed.
Lemma odd_succ_even c : Z.odd c = false -> Z.odd (c + 1) = true.
Proof. intro H. rewrite Z.add_1_r, Z.odd_succ. rewrite <- Z.negb_odd. now rewrite H. Qed.

Lemma count_rm1 (l : list nat) t u :
  count_occ Nat.eq_dec (rm1 t l) u = if Nat.eq_dec t u then pred (count_occ Nat.eq_dec l u) else count_occ Nat.eq_dec l u.
Proof.
  induction l as [|x l IH]; cbn [rm1 count_occ]; [destruct (Nat.eq_dec t u); reflexivity|].
  destruct (Nat.eqb_spec x t) as [E|E].
  - subst x. destruct (Nat.eq_dec t u); [reflexivity|reflexivity].
  - cbn [count_occ]. rewrite IH. destruct (Nat.eq_dec x u), (Nat.eq_dec t u); subst; try congruence; try reflexivity.
Qed.

End Inv.
