(* Preservation of the invariants of PoisonModel (C13), one lemma per clause. *)
From Coq Require Import List Arith ZArith Bool Lia.
Import ListNotations.
Require Import MayV.Rt.PoisonModel MayV.Rt.PoisonInv.
Section P.
Variable isco : nat -> bool.
Variable ismutex : nat -> bool.
Variable fixd : bool.
Notation step := (step isco ismutex fixd).
Notation Inv := (Inv isco ismutex).

Ltac held_cases HG g :=
  try (apply in_del_g in HG; destruct HG as [HG _]);
  try (destruct HG as [HG|HG]; [subst g; proj|]);
  try (apply in_move_g in HG; destruct HG as (?g & HG & ?Eid & ?Elock & ?Ek & ?Epan & ?Eerr)).

Lemma J1_step s a s' : Inv s -> step s a = Some s' -> forall t, (0 <= cst (T s' t))%Z.
Proof.
  intros I H t0. pose proof (J1 _ _ _ I) as K. step_inv H; proj; upds; proj; try apply K.
  all: match goal with |- context [cst (T _ ?t)] => specialize (K t) end; bools; try destruct (Z.odd _); lia.
Qed.

Lemma J2_step s a s' : Inv s -> step s a = Some s' ->
  forall t ins, In (CUnw MCancel ins) (ctl (T s' t)) -> isco t = true /\ Z.odd (cst (T s' t)) = true.
Proof.
  intros I H t0 ins. pose proof (J2 _ _ _ I) as K. step_inv H; proj; upds; proj; try apply K.
  all: intro HI; bools.
  all: try (destruct HI as [HI|HI]; [try discriminate HI|]).
  all: try (match goal with E : ctl (T _ ?t) = _ |- _ => specialize (K t ins); rewrite E in K end).
  all: try (destruct (K ltac:(cbn; auto)) as [K1 K2]; split; [exact K1|]).
  all: try (destruct (K _ _ HI) as [K1 K2]; split; [exact K1|]).
  all: rewrite ?odd_add2, ?odd_sub2; auto.
  - rewrite K2. exact K2.
  - split; [assumption|]. unfold is_canceled in *. bools.
    match goal with E : cst _ = 1%Z |- _ => rewrite E end. reflexivity.
Qed.

Lemma J3_step s a s' : Inv s -> step s a = Some s' ->
  forall t g m ins, In g (held (T s' t)) -> gpan g = false -> In (CUnw m ins) (ctl (T s' t)) -> In (gid g) ins.
Proof.
  intros I H t0 g m ins. pose proof (J3 _ _ _ I) as K. step_inv H; proj; upds; proj; try apply K.
  all: intros HG HP HI; bools.
  all: held_cases HG g.
  all: try (destruct HI as [HI|HI]; [try discriminate HI; try (inversion HI; subst)|]).
  all: try solve [eapply K; eassumption].
  all: try solve [match goal with E : ctl (T _ ?t) = _ |- _ => apply (K t g m ins); [assumption|assumption|rewrite E; cbn; auto] end].
  all: try solve [apply in_map; assumption].
  - exfalso. unfold borrow_panicking, panicking in HP.
    assert (X : existsb is_unw (ctl (T s t)) = true) by (apply existsb_unw_in; eauto). congruence.
  - rewrite Eid. eapply K; try eassumption. congruence.
Qed.

Lemma J4_step s a s' : Inv s -> step s a = Some s' -> forall t g, In g (held (T s' t)) -> gid g < nextg s'.
Proof.
  intros I H t0 g. pose proof (J4 _ _ _ I) as K. step_inv H; proj; upds; proj; try apply K.
  all: intros HG; bools.
  all: held_cases HG g.
  all: try solve [eapply K; eassumption].
  all: try solve [apply Nat.lt_lt_succ_r; eapply K; eassumption].
  all: try lia.
  rewrite Eid. eapply K; eassumption.
Qed.

Lemma J4b_step s a s' : Inv s -> step s a = Some s' -> forall t, NoDup (map gid (held (T s' t))).
Proof.
  intros I H t0. pose proof (J4b _ _ _ I) as K. pose proof (J4 _ _ _ I) as K4. step_inv H; proj; upds; proj; try apply K.
  all: try solve [apply map_gid_del; apply K].
  - cbn [map gid]. constructor; [|apply K]. intro X. apply in_map_iff in X. destruct X as [g [E G]].
    apply K4 in G. lia.
  - rewrite map_gid_move. apply K.
Qed.

Lemma J7_step s a s' : Inv s -> step s a = Some s' -> forall t g, In g (held (T s' t)) -> kind_ok ismutex (glock g) (gk g) = true.
Proof.
  intros I H t0 g. pose proof (J7 _ _ _ I) as K. step_inv H; proj; upds; proj; try apply K.
  all: intros HG; bools.
  all: held_cases HG g.
  all: try solve [eapply K; eassumption].
  all: try assumption.
  rewrite Elock, Ek. eapply K; eassumption.
Qed.

Lemma J6_step s a s' : Inv s -> step s a = Some s' -> forall t, fin (T s' t) <> None -> held (T s' t) = [] /\ ctl (T s' t) = [].
Proof.
  intros I H t0. pose proof (J6 _ _ _ I) as K. step_inv H; proj; upds; proj; try apply K.
  all: intros HF; bools.
  all: try (exfalso; unfold alive in *; match goal with A : match fin ?x with _ => _ end = true |- _ => destruct (fin x); [discriminate A | apply HF; reflexivity] end).
  - split; [|reflexivity]. destruct (held (T s t)) as [|g r]; [reflexivity|].
    cbn in H0. discriminate H0.
  - split; [assumption|reflexivity].
Qed.

Lemma avail_none lk k : available lk k = true -> wheld lk = None.
Proof. unfold available. destruct (wheld lk); [discriminate|reflexivity]. Qed.
Lemma avail_flag lk k : available lk k = true -> has_flag k = true -> readers lk = [].
Proof. unfold available. destruct (wheld lk); [discriminate|]. destruct k; cbn; try discriminate; destruct (readers lk); congruence. Qed.

Definition new_guard (s : st) (t l : nat) (k : gkind) : guard :=
  {| gid := nextg s; glock := l; gk := k; gpan := borrow_panicking (panicking (T s t));
     gerr := borrow_err (failed (L s l)); gfr := ncatch (ctl (T s t)) |}.
Definition lock_st (s : st) (t l : nat) (k : gkind) : st :=
  {| T := upd (T s) t (set_held (T s t) (new_guard s t l k :: held (T s t)));
     L := upd (L s) l (acquire (L s l) t k); nextg := S (nextg s) |}.

Lemma step_shape s a s' : step s a = Some s' ->
   (exists t l k, a = Lock t l k /\ alive (T s t) = true /\ kind_ok ismutex l k = true /\ available (L s l) k = true /\ s' = lock_st s t l k)
   \/ (exists t g0, In g0 (held (T s t)) /\ s' = do_drop isco fixd s t g0)
   \/ (L s' = L s /\ forall t0, held (T s' t0) = held (T s t0) \/ exists i d, held (T s' t0) = move_g i d (held (T s t0))).
Proof.
  intro H. step_inv H; bools.
  1: left; eauto 10.
  1, 10: right; left; match goal with F : find_g _ _ = Some _ |- _ => apply find_g_some in F; destruct F as [F1 F2] end; eauto.
  all: right; right; split; [reflexivity|]; intro t0; proj; upds; proj; eauto.
Qed.

Lemma step_shape2 s a s' : step s a = Some s' ->
   (exists t l k, a = Lock t l k /\ alive (T s t) = true /\ kind_ok ismutex l k = true /\ available (L s l) k = true /\ s' = lock_st s t l k)
   \/ (exists t g0, (a = DropG t (gid g0) \/ a = UnwDrop t (gid g0)) /\ find_g (gid g0) (held (T s t)) = Some g0 /\
                    In g0 (held (T s t)) /\ s' = do_drop isco fixd s t g0)
   \/ (L s' = L s /\ (forall t0, held (T s' t0) = held (T s t0) \/ exists i d, held (T s' t0) = move_g i d (held (T s t0))) /\
       match a with Lock _ _ _ | DropG _ _ | UnwDrop _ _ => False | _ => True end).
Proof.
  intro H. step_inv H; bools.
  1: left; eauto 10.
  1, 10: right; left; match goal with F : find_g _ _ = Some _ |- _ => pose proof F as F0; apply find_g_some in F; destruct F as [F1 F2]; subst end; eauto 10.
  all: right; right; split; [reflexivity|]; split; [|exact Logic.I]; intro t0; proj; upds; proj; eauto.
Qed.

Ltac neutral_in HN HG t0 :=
  destruct (HN t0) as [HE|[?i [?d HE]]]; rewrite HE in HG;
  [| apply in_move_g in HG; destruct HG as (?g & HG & ?Eid & ?Elock & ?Ek & ?Epan & ?Eerr)].

Lemma J5a_step s a s' : Inv s -> step s a = Some s' ->
  forall t g, In g (held (T s' t)) -> has_flag (gk g) = true -> wheld (L s' (glock g)) = Some t.
Proof.
  intros I H t0 g HG HF. pose proof (J5a _ _ _ I) as K.
  destruct (step_shape _ _ _ H) as [(t & l & k & _ & AL & KO & AV & ->)|[(t & g0 & G0 & ->)|[HL HN]]].
  - pose proof (avail_none _ _ AV) as AN. unfold lock_st in *; proj.
    destruct (Nat.eq_dec t0 t) as [->|NE]; [rewrite upd_eq in HG|rewrite upd_neq in HG by assumption]; proj.
    + destruct HG as [HG|HG]; [subst g; unfold new_guard in *; proj; rewrite upd_eq; destruct k; try discriminate; reflexivity|].
      pose proof (K _ _ HG HF) as W. destruct (Nat.eq_dec (glock g) l) as [EL|NL]; [rewrite EL in *; congruence|]. rewrite upd_neq by assumption. exact W.
    + pose proof (K _ _ HG HF) as W. destruct (Nat.eq_dec (glock g) l) as [EL|NL]; [rewrite EL in *; congruence|]. rewrite upd_neq by assumption. exact W.
  - proj. destruct (Nat.eq_dec t0 t) as [->|NE]; [rewrite upd_eq in HG|rewrite upd_neq in HG by assumption]; proj.
    + apply in_del_g in HG. destruct HG as [HG NG]. pose proof (K _ _ HG HF) as W.
      destruct (Nat.eq_dec (glock g) (glock g0)) as [EL|NL]; [|rewrite upd_neq by assumption; exact W].
      rewrite EL, upd_eq. destruct (gk g0) eqn:KG; cbn [release wheld]; try (rewrite <- EL; exact W).
      all: exfalso; apply NG; apply (J5e _ _ _ I t g g0); auto; rewrite KG; reflexivity.
    + pose proof (K _ _ HG HF) as W.
      destruct (Nat.eq_dec (glock g) (glock g0)) as [EL|NL]; [|rewrite upd_neq by assumption; exact W].
      rewrite EL, upd_eq. destruct (gk g0) eqn:KG; cbn [release wheld]; try (rewrite <- EL; exact W).
      all: exfalso; apply NE; assert (X : wheld (L s (glock g0)) = Some t) by (apply K; [assumption|rewrite KG; reflexivity]); rewrite EL in W; congruence.
  - rewrite HL. neutral_in HN HG t0; [apply K; assumption|]. rewrite Elock. apply K; [assumption|congruence].
Qed.

Lemma J5e_step s a s' : Inv s -> step s a = Some s' ->
  forall t g g', In g (held (T s' t)) -> In g' (held (T s' t)) -> has_flag (gk g) = true -> has_flag (gk g') = true ->
        glock g = glock g' -> gid g = gid g'.
Proof.
  intros I H t0 g g' HG HG' HF HF' EL. pose proof (J5e _ _ _ I) as K.
  destruct (step_shape _ _ _ H) as [(t & l & k & _ & AL & KO & AV & ->)|[(t & g0 & G0 & ->)|[HL HN]]].
  - pose proof (avail_none _ _ AV) as AN. unfold lock_st in *; proj.
    destruct (Nat.eq_dec t0 t) as [->|NE]; [rewrite upd_eq in HG, HG'|rewrite upd_neq in HG, HG' by assumption]; proj; [|eapply K; eassumption].
    destruct HG as [HG|HG], HG' as [HG'|HG']; subst; try reflexivity; [| |eapply K; eassumption].
    + exfalso. unfold new_guard in *; proj. pose proof (J5a _ _ _ I _ _ HG' HF') as W. rewrite <- EL in W. congruence.
    + exfalso. unfold new_guard in *; proj. pose proof (J5a _ _ _ I _ _ HG HF) as W. rewrite EL in W. congruence.
  - proj. destruct (Nat.eq_dec t0 t) as [->|NE]; [rewrite upd_eq in HG, HG'|rewrite upd_neq in HG, HG' by assumption]; proj; [|eapply K; eassumption].
    apply in_del_g in HG, HG'. destruct HG, HG'. eapply K; eassumption.
  - destruct (HN t0) as [HE|[i [d HE]]]; rewrite HE in HG, HG'; [eapply K; eassumption|].
    apply in_move_g in HG, HG'. destruct HG as (h & HG & Eid & Elock & Ek & _), HG' as (h' & HG' & Eid' & Elock' & Ek' & _).
    rewrite Eid, Eid'. apply (K t0 h h'); auto; congruence.
Qed.

Lemma J5d_step s a s' : Inv s -> step s a = Some s' -> forall l t, wheld (L s' l) = Some t -> readers (L s' l) = [].
Proof.
  intros I H l0 t0 HW. pose proof (J5d _ _ _ I) as K.
  destruct (step_shape _ _ _ H) as [(t & l & k & _ & AL & KO & AV & ->)|[(t & g0 & G0 & ->)|[HL HN]]].
  - unfold lock_st in *; proj. destruct (Nat.eq_dec l0 l) as [->|NL]; [rewrite upd_eq in *|rewrite upd_neq in * by assumption; eapply K; eassumption].
    pose proof (avail_none _ _ AV) as AN. destruct k; cbn [acquire wheld readers] in *; try (apply (avail_flag _ _ AV); reflexivity). congruence.
  - proj. destruct (Nat.eq_dec l0 (glock g0)) as [->|NL]; [rewrite upd_eq in *|rewrite upd_neq in * by assumption; eapply K; eassumption].
    destruct (gk g0); cbn [release wheld readers] in *; try discriminate. rewrite (K _ _ HW). reflexivity.
  - rewrite HL in *. eapply K; eassumption.
Qed.

Lemma J5b_step s a s' : Inv s -> step s a = Some s' ->
  forall l t, wheld (L s' l) = Some t -> exists g, In g (held (T s' t)) /\ glock g = l /\ has_flag (gk g) = true.
Proof.
  intros I H l0 t0 HW. pose proof (J5b _ _ _ I) as K.
  destruct (step_shape _ _ _ H) as [(t & l & k & _ & AL & KO & AV & ->)|[(t & g0 & G0 & ->)|[HL HN]]].
  - unfold lock_st in *; proj. pose proof (avail_none _ _ AV) as AN.
    assert (OLD : wheld (L s l0) = Some t0 -> exists g, In g (held (upd (T s) t (set_held (T s t) (new_guard s t l k :: held (T s t))) t0)) /\ glock g = l0 /\ has_flag (gk g) = true).
    { intro W. destruct (K _ _ W) as (g & G1 & G2 & G3). exists g. split; [|auto].
      destruct (Nat.eq_dec t0 t) as [->|NE]; [rewrite upd_eq; proj; right; exact G1|rewrite upd_neq by assumption; exact G1]. }
    destruct (Nat.eq_dec l0 l) as [->|NL]; [rewrite upd_eq in *|rewrite upd_neq in * by assumption; auto].
    destruct k; cbn [acquire wheld] in HW; [| |apply OLD; exact HW].
    all: inversion HW; subst t0; eexists; rewrite upd_eq; proj; split; [left; reflexivity|split; reflexivity].
  - proj. destruct (Nat.eq_dec l0 (glock g0)) as [EL|NL]; [subst l0; rewrite upd_eq in *|rewrite upd_neq in * by assumption].
    + destruct (gk g0) eqn:KG; cbn [release wheld] in HW; try discriminate.
      destruct (K _ _ HW) as (g & G1 & G2 & G3). exists g. split; [|auto].
      destruct (Nat.eq_dec t0 t) as [->|NE]; [rewrite upd_eq; proj|rewrite upd_neq by assumption; exact G1].
      apply in_del_g. split; [exact G1|]. intro EG. pose proof (gid_inj _ _ _ (J4b _ _ _ I t) G1 G0 EG). subst g. rewrite KG in G3. discriminate.
    + destruct (K _ _ HW) as (g & G1 & G2 & G3). exists g. split; [|auto].
      destruct (Nat.eq_dec t0 t) as [->|NE]; [rewrite upd_eq; proj|rewrite upd_neq by assumption; exact G1].
      apply in_del_g. split; [exact G1|]. intro EG. pose proof (gid_inj _ _ _ (J4b _ _ _ I t) G1 G0 EG). subst g. congruence.
  - rewrite HL in *. destruct (K _ _ HW) as (g & G1 & G2 & G3).
    destruct (HN t0) as [HE|[i [d HE]]]; rewrite HE; [eauto|].
    destruct (move_g_in g i d _ G1) as (g' & M1 & M2 & M3 & M4 & _). exists g'. split; [exact M1|]. split; congruence.
Qed.

Lemma rg_set_gfr l g d : rg l (set_gfr g d) = rg l g.
Proof. reflexivity. Qed.

Lemma J5c_step s a s' : Inv s -> step s a = Some s' ->
  forall l t, count_occ Nat.eq_dec (readers (L s' l)) t = length (filter (rg l) (held (T s' t))).
Proof.
  intros I H l0 t0. pose proof (J5c _ _ _ I) as K.
  destruct (step_shape _ _ _ H) as [(t & l & k & _ & AL & KO & AV & ->)|[(t & g0 & G0 & ->)|[HL HN]]].
  - unfold lock_st in *; proj.
    assert (RG : rg l0 (new_guard s t l k) = Nat.eqb l l0 && negb (has_flag k)) by reflexivity.
    destruct (Nat.eq_dec l0 l) as [->|NL]; [rewrite upd_eq|rewrite upd_neq by assumption].
    + rewrite Nat.eqb_refl in RG. destruct (Nat.eq_dec t0 t) as [->|NE]; [rewrite upd_eq|rewrite upd_neq by assumption]; proj.
      * cbn [filter]. rewrite RG. destruct k; cbn [acquire readers has_flag negb andb length count_occ]; rewrite ?K; try reflexivity.
        destruct (Nat.eq_dec t t); [reflexivity|congruence].
      * destruct k; cbn [acquire readers count_occ]; try apply K. destruct (Nat.eq_dec t t0); [congruence|apply K].
    + assert (RF : rg l0 (new_guard s t l k) = false) by (rewrite RG; destruct (Nat.eqb_spec l l0); [congruence|reflexivity]).
      destruct (Nat.eq_dec t0 t) as [->|NE]; [rewrite upd_eq|rewrite upd_neq by assumption]; proj; [|apply K].
      cbn [filter]. rewrite RF. apply K.
  - proj. destruct (Nat.eq_dec t0 t) as [->|NE]; [rewrite upd_eq|rewrite (upd_neq (T s)) by assumption]; proj.
    + rewrite (filter_del_len _ _ _ (J4b _ _ _ I t) G0).
      destruct (Nat.eq_dec l0 (glock g0)) as [->|NL]; [rewrite upd_eq|rewrite upd_neq by assumption].
      * unfold rg at 2. rewrite Nat.eqb_refl. destruct (gk g0); cbn [release readers has_flag negb andb]; rewrite ?count_rm1, ?K; try lia.
        destruct (Nat.eq_dec t t); [lia|congruence].
      * unfold rg at 2. destruct (Nat.eqb_spec (glock g0) l0); [congruence|]. cbn [andb]. rewrite K. lia.
    + destruct (Nat.eq_dec l0 (glock g0)) as [->|NL]; [rewrite upd_eq|rewrite upd_neq by assumption; apply K].
      destruct (gk g0); cbn [release readers]; rewrite ?count_rm1; try apply K. destruct (Nat.eq_dec t t0); [congruence|apply K].
  - rewrite HL. destruct (HN t0) as [HE|[i [d HE]]]; rewrite HE; [apply K|]. rewrite filter_move_len; [apply K|]. intro g. reflexivity.
Qed.

Lemma noadj_tail c l : noadj (c :: l) -> noadj l.
Proof. destruct c, l as [|[|] l]; cbn; tauto. Qed.
Lemma J8_step s a s' : Inv s -> step s a = Some s' -> forall t, noadj (ctl (T s' t)).
Proof.
  intros I H t0. pose proof (J8 _ _ _ I) as K. step_inv H; proj; upds; proj; try apply K.
  all: bools.
  all: try (match goal with E : ctl (T _ ?t) = _ |- _ => specialize (K t); rewrite E in K end).
  all: try solve [eapply noadj_tail; eassumption].
  all: try solve [eapply noadj_tail; eapply noadj_tail; eassumption].
  all: try exact Logic.I.
  all: specialize (K t); destruct (ctl (T s t)) as [|[|] r]; cbn in *; auto; discriminate.
Qed.

Lemma J9_step s a s' : Inv s -> step s a = Some s' -> forall t ins, In (CUnw MCancel ins) (ctl (T s' t)) -> cunw (T s' t) = true.
Proof.
  intros I H t0 ins. pose proof (J9 _ _ _ I) as K. step_inv H; proj; upds; proj; try apply K; try reflexivity.
  all: intro HI; bools.
  all: try (destruct HI as [HI|HI]; [discriminate HI|]).
  all: try solve [eapply K; eassumption].
  all: try solve [match goal with E : ctl (T _ ?t) = _ |- _ => apply (K t ins); rewrite E; cbn; auto end].
Qed.

Lemma J10_step s a s' : Inv s -> step s a = Some s' -> forall t, cunw (T s' t) = true ->
  (exists ins, In (CUnw MCancel ins) (ctl (T s' t))) \/ swal (T s' t) = true \/ fin (T s' t) <> None.
Proof.
  intros I H t0. pose proof (J10 _ _ _ I) as K. step_inv H; proj; upds; proj; try apply K.
  all: intro HC; bools.
  all: try solve [left; eexists; left; reflexivity].
  all: try solve [right; right; discriminate].
  all: try (destruct (K _ HC) as [[ins HI]|[HS|HF]];
            [ | right; left; try exact HS; try (destruct m; [exact HS|reflexivity])
              | exfalso; unfold alive in *; match goal with A : match fin ?x with _ => _ end = true |- _ => destruct (fin x); [discriminate A|apply HF; reflexivity] end ]).
  all: try solve [left; exists ins; right; exact HI].
  all: try (match goal with E : ctl (T _ ?t) = _ |- _ => rewrite E in HI end).
  all: try (destruct HI as [HI|HI]; [try discriminate HI|]).
  all: try solve [left; exists ins; exact HI].
  all: try (destruct HI as [HI|HI]; [try discriminate HI|]).
  all: try solve [left; exists ins; exact HI].
  all: try solve [inversion HI; subst; right; left; reflexivity].
  destruct m as [v|]; [|right; left; reflexivity].
  destruct (K _ HC) as [[ins1 HI]|[HS|HF]].
  - rewrite E0 in HI. destruct HI as [HI|[HI|HI]]; try discriminate HI. left. exists ins1. exact HI.
  - right. left. exact HS.
  - exfalso. unfold alive in H. destruct (fin (T s t)); [discriminate H|apply HF; reflexivity].
Qed.

Theorem inv_step s a s' : Inv s -> step s a = Some s' -> Inv s'.
Proof.
  intros I H. constructor.
  - eapply J1_step; eassumption.
  - eapply J2_step; eassumption.
  - eapply J3_step; eassumption.
  - eapply J4_step; eassumption.
  - eapply J4b_step; eassumption.
  - eapply J5a_step; eassumption.
  - eapply J5b_step; eassumption.
  - eapply J5e_step; eassumption.
  - eapply J5c_step; eassumption.
  - eapply J5d_step; eassumption.
  - eapply J6_step; eassumption.
  - eapply J8_step; eassumption.
  - eapply J9_step; eassumption.
  - eapply J10_step; eassumption.
  - eapply J7_step; eassumption.
Qed.

Theorem inv_reach s : Reach isco ismutex fixd s -> Inv s.
Proof. induction 1; [apply inv_init | eapply inv_step; eassumption]. Qed.

End P.
