(* The panic-payload slot of a pooled generator (C13 "the panic payload stays with its coroutine", C15 "a fresh
   coroutine starts clean"), across the recycling of stacks.

   Sources: generator-0.8.10 src/detail/gen.rs (gen_init_impl / check_err: when the body of a generator ends by a
   panic whose payload is not Error::Cancel / Error::Done, the payload is stored in `context.err`; nothing else
   writes the slot on unix apart from the stack-overflow handler, which is outside the model), src/gen_impl.rs
   (get_panic_data = `context.err.take()`; init_code does NOT reset `err`, so whatever is left there survives the
   pool), and may's src/coroutine_impl.rs run_coroutine, None branch:
       if let Some(panic) = co.get_panic_data() { join.set_panic_data(panic) }; join.trigger(); Done::drop_coroutine(co)
   (drop_coroutine puts the generator back into the pool or discards it) and Builder::spawn_impl (takes a pooled
   generator or makes a new one).

   One step per action of a coroutine's life; any number of coroutines and generators; the pool is a SET here (any
   pooled generator may be taken: the FIFO order of the real pool is one such choice).  `skipdet = true` is the seeded
   change C13-4 / C15-6 (the hand-over is skipped for a detached coroutine); `skipdet = false` is the code. *)
From Coq Require Import List Arith Bool Lia.
Import ListNotations.

Inductive ending := Ret | Pan (p : nat) | Can.          (* returns / genuine panic with payload p / Cancel panic *)
Definition pay (e : ending) : option nat := match e with Pan p => Some p | _ => None end.

Inductive gstate := GUnused | GPooled | GOwned (c : nat) | GGone.
Inductive cph := CFree | CRun (g : nat) | CEnded (g : nat) (e : ending) | CDone (e : ending).

Record st := { gs : nat -> gstate;
               err : nat -> option nat;        (* context.err of generator g *)
               ph : nat -> cph;
               det : nat -> bool;              (* the JoinHandle of c was dropped *)
               jp : nat -> option nat;         (* Join.panic of coroutine c *)
               nco : nat }.

Definition upd {A} (f : nat -> A) (k : nat) (v : A) : nat -> A := fun x => if Nat.eqb x k then v else f x.

Definition init : st :=
  {| gs := fun _ => GUnused; err := fun _ => None; ph := fun _ => CFree; det := fun _ => false; jp := fun _ => None; nco := 0 |}.

Inductive act :=
| Spawn (g : nat) (d : bool)      (* spawn_impl on a new (GUnused) or pooled generator; d: the handle will be dropped *)
| End (c : nat) (e : ending)      (* the body ends; gen_init_impl's check_err *)
| Hand (c : nat) (keep : bool).   (* run_coroutine's None branch; keep: pool.put succeeds, else the generator is dropped *)

Definition takeable (x : gstate) : bool := match x with GUnused | GPooled => true | _ => false end.

Definition step (skipdet : bool) (s : st) (a : act) : option st :=
  match a with
  | Spawn g d =>
      if takeable (gs s g) then
        Some {| gs := upd (gs s) g (GOwned (nco s)); err := err s; ph := upd (ph s) (nco s) (CRun g);
                det := upd (det s) (nco s) d; jp := jp s; nco := S (nco s) |}
      else None
  | End c e =>
      match ph s c with
      | CRun g => Some {| gs := gs s;
                          err := match pay e with Some p => upd (err s) g (Some p) | None => err s end;
                          ph := upd (ph s) c (CEnded g e); det := det s; jp := jp s; nco := nco s |}
      | _ => None
      end
  | Hand c keep =>
      match ph s c with
      | CEnded g e =>
          let skip := skipdet && det s c in
          Some {| gs := upd (gs s) g (if keep then GPooled else GGone);
                  err := if skip then err s else upd (err s) g None;
                  ph := upd (ph s) c (CDone e); det := det s;
                  jp := if skip then jp s else match err s g with Some p => upd (jp s) c (Some p) | None => jp s end;
                  nco := nco s |}
      | _ => None
      end
  end.

Fixpoint run (v : bool) (s : st) (l : list act) : option st :=
  match l with
  | [] => Some s
  | a :: l' => match step v s a with Some s' => run v s' l' | None => None end
  end.

Definition Reach (v : bool) (s : st) : Prop := exists l, run v init l = Some s.

