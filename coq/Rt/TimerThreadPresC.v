(* C08.iii - preservation of group C: every non-empty interval list is in the heap, in the hands of the running
   schedule_timer, or about to be installed by the adder that pushed its head *)
From Coq Require Import List Arith NArith Bool Lia Sorting.Sorted.
Import ListNotations.
Require Import MayV.Rt.TimerThread MayV.Rt.TimerThreadInv MayV.Rt.TimerThreadTac MayV.Rt.TimerThreadPresB MayV.Rt.TimerThreadPresH.
Local Open Scope N_scope.

Lemma thold_step s x s' L : stepF s x = Some s' -> thold s L ->
  thold s' L \/
  ((tpc s = F1 \/ tpc s = F2) /\ inuse s L <> O /\ heap s' = heap s /\ (forall b, A s' b = A s b) /\ lst s' L = lst s L) \/
  (tpc s = SH /\ In (ttm s, L) (heap s')) \/
  (lst s' L = []).
Proof.
  intros H [HP HL]. unfold thold.
  step_cases H; cbn in *; auto.
  all: try discriminate HP.
  all: subst L.
  all: try (left; split; [rewrite ?Heqt; reflexivity | reflexivity]; fail).
  - right; left. repeat split; auto. congruence.
  - right; right; left. auto.
  - right; right; right. assumption.
  - right; left. repeat split; auto. congruence.
Qed.

(* an adder that is about to report "head" keeps its head entry first whatever the others do *)
Lemma first_stays s x s' b : InvB s -> stepF s x = Some s' -> x <> AStep b -> apc (A s b) = A3 ->
  is_first (aid (A s b)) (lst s (aiv (A s b))) = true -> is_first (aid (A s b)) (lst s' (aiv (A s b))) = true.
Proof.
  intros HB H Nx EPb Hf.
  assert (NIb : apc (A s b) <> AIdle) by congruence.
  destruct (lists_shape _ _ _ H (aiv (A s b))) as [E1|a -> _ _ E1|a -> EPa _ E1|c' -> EP1 EL E1|c' e' -> EP1 EL E1]; try rewrite E1.
  - exact Hf.
  - now apply is_first_app.
  - now rewrite is_first_link.
  - apply del_id_first; auto.
    assert (Hh : handleish s (thid s)) by (right; right; right; auto).
    intro Ei. apply (proj2 (B_hnd _ HB _ Hh) b NIb). congruence.
  - exfalso. destruct (B_p3 _ HB EP1) as (e1 & l1 & El & LK1 & _). rewrite EL in El.
    rewrite El in Hf. cbn in Hf. apply Nat.eqb_eq in Hf.
    pose proof (B_ainv _ HB b) as Hb. unfold ainv in Hb. rewrite EPb in Hb. destruct Hb as (e & I & E & LK & D).
    assert (e1 = e).
    { eapply nodup_same_entry; [apply (B_nodup _ HB (aiv (A s b)))| | |congruence]; auto. rewrite El; now left. }
    congruence.
Qed.

Section PresC.
Variables (s : st) (x : action) (s' : st).
Hypothesis HB : InvB s.
Hypothesis HH : InvH s.
Hypothesis HC : InvC s.
Hypothesis H : stepF s x = Some s'.

(* an adder at A6 is a covering adder *)
Lemma claimA_covering L b : claimA s L b -> covering6 s L b.
Proof.
  intros [EP EL]. split; auto. right. split; auto.
  pose proof (B_ainv _ HB b) as Hb. unfold ainv in Hb. rewrite EP in Hb. tauto.
Qed.

Lemma inheap_keeps L : inheap s L -> inheap s' L \/ thold s' L.
Proof.
  intros (t & I). unfold inheap.
  destruct (step_heff _ _ _ H) as [Eh Ei CA CT CL|a L0 _ EPa EL Eh Ei CA CT CL|a L0 _ CAa Eh Ei CA CT CL|c t0 _ EP EF Eh Ei CA CT CL|c _ EP Eh Ei CA CT CL|c _ EP Eh Ei CA CT CL|c _ EP Eh Ei CA CT CL];
    rewrite Eh; try (left; exists t; cbn; auto; fail).
  case_list L c.
  - right. destruct (proj2 (CL c) eq_refl) as [E1 E2]. split; auto. now rewrite E1.
  - left. exists t. now apply in_hdel_other.
Qed.

(* what inuse <> 0 means for a list nobody holds after this step *)
Lemma pos_covers L : inuse s L <> O -> heap s' = heap s -> (forall b, A s' b = A s b) -> lst s' L = lst s L ->
  ~ claimT s L -> ~ limbo s L -> inheap s' L \/ exists a, covering6 s' L a.
Proof.
  intros Z Eh EA EL NT NL. destruct (H_pos _ HH L Z) as [(t & P)|[(b & P)|[P|P]]]; try tauto.
  - left. exists t. now rewrite Eh.
  - right. exists b. apply claimA_covering in P. unfold covering6 in *. rewrite EA, EL. exact P.
Qed.

Lemma covering_keeps L a : covering6 s L a -> lst s' L <> [] -> inheap s' L \/ thold s' L \/ exists b, covering6 s' L b.
Proof.
  intros (EL & C) NE.
  destruct (adders_step _ _ _ H a) as [(E & N1 & N2)|[(-> & N0 & _)|(iv & i & Ex & E0 & _)]].
  - (* a does not move *)
    right; right. exists a. unfold covering6. rewrite E. split; auto.
    destruct C as [(EP & Hf)|C]; [|right; exact C]. left. split; auto. subst L. eapply first_stays; eauto.
  - (* a moves *)
    cbn in H. unfold astep in H.
    destruct C as [(EP & Hf)|([EP|[EP|EP]] & EH)]; rewrite EP in H.
    + inv_some. right; right. exists a. unfold covering6. cbn. rewrite upd_eq. cbn. split; auto.
      right. split; auto. now rewrite EL.
    + rewrite EH in H. inv_some. right; right. exists a. unfold covering6. cbn. rewrite upd_eq. cbn. split; auto.
    + inv_some. destruct (inuse s (aiv (A s a))) eqn:EI.
      * right; right. exists a. unfold covering6. cbn. rewrite upd_eq. cbn. split; auto.
      * assert (Z : inuse s L <> O) by (subst L; congruence).
        destruct (H_pos _ HH L Z) as [(t & P)|[(b & P)|[P|P]]].
        -- left. exists t. exact P.
        -- right; right. exists b.
           assert (b <> a) by (intros ->; destruct P as [P _]; congruence).
           apply claimA_covering in P. destruct P as (P1 & P2).
           unfold covering6. cbn. rewrite upd_neq by auto. split; auto.
        -- right; left. destruct P as [P1 P2]. split; auto. cbn. destruct (tpc s); try discriminate; reflexivity.
        -- right; left. destruct P as [P1 P2]. split; auto. cbn. now rewrite P1.
    + inv_some. left. exists (adl (A s a)). cbn. left. congruence.
  - (* a was idle: not covering *)
    destruct C as [(EP & _)|([EP|[EP|EP]] & _)]; congruence.
Qed.

Lemma thold_keeps L : thold s L -> lst s' L <> [] -> inheap s' L \/ thold s' L \/ exists b, covering6 s' L b.
Proof.
  intros HT NE. destruct (thold_step _ _ _ _ H HT) as [T|[(EP & Z & Eh & EA & EL)|[(EP & I)|E]]].
  - auto.
  - destruct (pos_covers L Z Eh EA EL) as [P|P]; auto.
    + intros [P _]. destruct EP as [EP|EP]; rewrite EP in P; discriminate.
    + intros [P _]. destruct EP; congruence.
  - left. eexists; eauto.
  - congruence.
Qed.

Theorem presC : InvC s'.
Proof.
  intros L NE.
  destruct (lst s L) as [|e0 l0] eqn:EL0.
  - (* the list was empty: somebody pushed *)
    destruct (lists_shape _ _ _ H L) as [E1|a -> EPa ELa E1|a -> EPa ELa E1|c' -> EP1 ELt E1|c' e' -> EP1 ELt E1]; rewrite EL0 in *.
    + congruence.
    + right; right. exists a. cbn in H. unfold astep in H. rewrite EPa in H. inv_some.
      unfold covering6. cbn. rewrite upd_eq. cbn. split; auto. left. split; auto.
      subst L. rewrite updN_eq, EL0. cbn. apply Nat.eqb_refl.
    + cbn in E1. congruence.
    + cbn in E1. congruence.
    + discriminate.
  - assert (NE0 : lst s L <> []) by congruence.
    destruct (HC L NE0) as [P|[P|(a & P)]].
    + destruct (inheap_keeps L P); auto.
    + apply thold_keeps; auto.
    + eapply covering_keeps; eauto.
Qed.
End PresC.

Lemma initC : InvC init.
Proof. intros L NE. cbn in NE. congruence. Qed.
