(* C13: the guard drop of PoisonModel inside the lock models of C05 / C12.

   Drop for MutexGuard / RwLockWriteGuard is `poison.done(&guard); unlock()`, Drop for RwLockReadGuard is
   `read_unlock()`: the release does not depend on WHY the guard is dropped.  Here:

   (A) MutexModel (C05): from every reachable state with an actor inside the critical section there is exactly one
       guard-drop path, CS -Step-> U0 -Step-> .., it decrements cnt by exactly one, takes the owner out of `ent`, and
       either frees the lock (cnt was 1) or starts the hand-over to the first waiter (H1); the state after it is
       reachable again, so all C05 theorems hold after a guard was dropped by a panic or by a cancellation.
   (B) RwLockModel (C12): the drop of a write guard by a panicking holder (Panic; Step at DWP) ends in exactly the
       state of the normal drop (Drop) with `pois := true`; a read guard has no poisoning path at all.  Which of the
       two happens is PoisonModel's decision (`rw_write_drop`).
   (C) Simulation: PoisonModel restricted to one Mutex `l` (uncontended acquisitions: its Lock step is enabled only
       when the lock is available) is simulated by MutexModel with one actor per guard: Lock = Start; Step (the CAS
       0 -> 1), every drop - explicit or by an unwinding of any kind - = Step; Step (CS -> U0 -> Idle, cnt 1 -> 0).
       The contended paths are MutexModel's own (C05). *)
From Coq Require Import List Arith ZArith Bool Lia.
Import ListNotations.
Require MayV.Sync.MutexModel MayV.Sync.MutexInv MayV.Sync.MutexME MayV.Sync.MutexThm.
Require MayV.Sync.RwLockModel.
Require Import MayV.Rt.PoisonModel MayV.Rt.PoisonInv MayV.Rt.PoisonPres MayV.Rt.PoisonThm.

Module M := MayV.Sync.MutexModel.
Module MI := MayV.Sync.MutexInv.
Module RW := MayV.Sync.RwLockModel.

(* ------------------------------------------------------------------ (A) *)
Section MutexDrop.
Variable isco : nat -> bool.

Theorem mutex_guard_drop_is_one_unlock s a :
  M.Reach isco s -> M.apc (M.A s a) = M.CS ->
  exists s1 s2,
    M.step isco s (M.Step a) = Some s1 /\ M.apc (M.A s1 a) = M.U0 /\ M.afor (M.A s1 a) = a /\ M.cnt s1 = M.cnt s /\
    M.step isco s1 (M.Step a) = Some s2 /\
    1 <= M.cnt s /\ M.cnt s2 = M.cnt s - 1 /\ M.ent s2 = remove Nat.eq_dec a (M.ent s) /\ ~ In a (M.ent s2) /\
    (M.cnt s = 1 -> M.apc (M.A s2 a) = M.Idle /\ M.holder s2 = M.HNone) /\
    (1 < M.cnt s -> M.apc (M.A s2 a) = M.H1 /\ M.holder s2 = M.holder s) /\
    M.Reach isco s2.
Proof.
  intros R E. pose proof (MayV.Sync.MutexME.inv_reach isco s R) as I.
  pose proof (MI.IA _ I a) as Ha. unfold MI.ainv in Ha. rewrite E in Ha. destruct Ha as (_ & _ & _ & HH & HE).
  destruct (MI.IG _ I) as (C & ND & _).
  assert (C1 : 1 <= M.cnt s). { rewrite C. destruct (M.ent s); [destruct HE | cbn; lia]. }
  set (x1 := {| M.apc := M.U0; M.ab := M.ab (M.A s a); M.aw := M.aw (M.A s a); M.actx := M.RDone; M.afor := a;
                M.aign := M.aign (M.A s a); M.acanc := M.acanc (M.A s a); M.aloc := M.aloc (M.A s a) |}).
  set (s1 := M.setA s (M.upd (M.A s) a x1)).
  assert (S1 : M.step isco s (M.Step a) = Some s1) by (unfold M.step; rewrite E; reflexivity).
  assert (A1 : M.A s1 a = x1) by (subst s1; cbn; apply MI.upd_eq).
  destruct (Nat.ltb 1 (M.cnt s)) eqn:LT.
  - set (s2 := M.mk (M.cnt s - 1) (M.q s) (M.nextb s) (M.upd (M.A s1) a (M.set_pc x1 M.H1)) (M.Bk s) (M.holder s)
                    (remove Nat.eq_dec a (M.ent s)) (M.data s) (M.nwr s)).
    assert (S2 : M.step isco s1 (M.Step a) = Some s2).
    { unfold M.step. rewrite A1. cbn [M.apc x1]. subst s1. cbn [M.cnt M.setA M.mk]. rewrite LT. reflexivity. }
    exists s1, s2. apply Nat.ltb_lt in LT.
    split; [exact S1|]. split; [rewrite A1; reflexivity|]. split; [rewrite A1; reflexivity|]. split; [reflexivity|].
    split; [exact S2|]. split; [exact C1|]. split; [reflexivity|]. split; [reflexivity|].
    split; [apply remove_In|]. split; [lia|].
    split; [intros _; subst s2; cbn; rewrite MI.upd_eq; split; reflexivity|].
    eapply M.RS; [eapply M.RS; [exact R|exact S1]|exact S2].
  - set (s2 := M.mk (M.cnt s - 1) (M.q s) (M.nextb s) (M.upd (M.A s1) a (M.set_pc x1 M.Idle)) (M.Bk s) M.HNone
                    (remove Nat.eq_dec a (M.ent s)) (M.data s) (M.nwr s)).
    assert (S2 : M.step isco s1 (M.Step a) = Some s2).
    { unfold M.step. rewrite A1. cbn [M.apc x1]. subst s1. cbn [M.cnt M.setA M.mk]. rewrite LT. reflexivity. }
    exists s1, s2. apply Nat.ltb_ge in LT.
    split; [exact S1|]. split; [rewrite A1; reflexivity|]. split; [rewrite A1; reflexivity|]. split; [reflexivity|].
    split; [exact S2|]. split; [exact C1|]. split; [reflexivity|]. split; [reflexivity|].
    split; [apply remove_In|].
    split; [intros _; subst s2; cbn; rewrite MI.upd_eq; split; reflexivity|]. split; [lia|].
    eapply M.RS; [eapply M.RS; [exact R|exact S1]|exact S2].
Qed.
End MutexDrop.

(* ------------------------------------------------------------------ (B) *)
Section RwDrop.

(* the write guard dropped by a panicking holder: exactly the normal drop, plus the flag *)
Definition rw_same_but_pois (s1 s2 : RW.st) : Prop :=
  RW.cnt s2 = RW.cnt s1 /\ RW.q s2 = RW.q s1 /\ RW.nextb s2 = RW.nextb s1 /\ RW.rl s2 = RW.rl s1 /\ RW.r s2 = RW.r s1 /\
  RW.Bk s2 = RW.Bk s1 /\ RW.holder s2 = RW.holder s1 /\ RW.ent s2 = RW.ent s1 /\ RW.rdl s2 = RW.rdl s1 /\ RW.ovf s2 = RW.ovf s1 /\
  (forall a', RW.A s2 a' = RW.A s1 a').

Theorem rw_poisoning_drop_releases_like_the_normal_drop s a s1 :
  RW.apc (RW.A s a) = RW.HoldW -> RW.step s (RW.Drop a) = Some s1 ->
  exists sp s2, RW.step s (RW.Panic a) = Some sp /\ RW.apc (RW.A sp a) = RW.DWP /\
                RW.step sp (RW.Step a) = Some s2 /\ RW.pois s2 = true /\ rw_same_but_pois s1 s2 /\
                RW.apc (RW.A s2 a) = RW.U0 /\ RW.afor (RW.A s2 a) = Some a.
Proof.
  intros E H. unfold RW.step in H. rewrite E in H. inversion H; subst; clear H.
  eexists. eexists. split; [unfold RW.step; rewrite E; reflexivity|].
  cbn [RW.wA RW.A RW.apc]. rewrite MI.upd_eq. cbn [RW.set_pc RW.apc].
  split; [reflexivity|]. split.
  - unfold RW.step. cbn [RW.wA RW.A]. rewrite MI.upd_eq. cbn [RW.set_pc RW.apc]. reflexivity.
  - cbn. split; [reflexivity|]. split.
    + unfold rw_same_but_pois. cbn. repeat split. intro a'. unfold RW.upd. destruct (Nat.eqb a' a); reflexivity.
    + unfold RW.upd. rewrite Nat.eqb_refl. cbn. split; reflexivity.
Qed.

(* a read guard has no poisoning path *)
Theorem rw_read_guard_has_no_poisoning_drop s a :
  RW.apc (RW.A s a) = RW.HoldR -> RW.step s (RW.Panic a) = None /\ exists s1, RW.step s (RW.Drop a) = Some s1 /\ RW.pois s1 = RW.pois s.
Proof. intro E. unfold RW.step. rewrite E. split; [reflexivity|]. eexists. split; reflexivity. Qed.

(* which of the two write-guard drops happens is PoisonModel's decision: the RwLockModel actions of a write guard
   dropped in situation (gpan, tpan, isco, cst) *)
Definition rw_write_drop (fixd gpan tpan isco : bool) (cst : Z) (cunw : bool) (a : nat) : list RW.action :=
  if drop_poisons fixd GW gpan tpan isco cst cunw then [RW.Panic a; RW.Step a] else [RW.Drop a].

Theorem rw_write_drop_sets_exactly_the_decision fixd gpan tpan isco cst cunw s a :
  RW.apc (RW.A s a) = RW.HoldW ->
  exists s', RW.run s (rw_write_drop fixd gpan tpan isco cst cunw a) = Some s' /\
             RW.pois s' = RW.pois s || drop_poisons fixd GW gpan tpan isco cst cunw /\
             RW.apc (RW.A s' a) = RW.U0 /\ RW.afor (RW.A s' a) = Some a /\ RW.cnt s' = RW.cnt s /\ RW.holder s' = RW.holder s.
Proof.
  intro E. unfold rw_write_drop. destruct (drop_poisons fixd GW gpan tpan isco cst cunw).
  - cbn [RW.run]. unfold RW.step at 1. rewrite E. cbn [RW.wA RW.A RW.step]. rewrite MI.upd_eq. cbn [RW.set_pc RW.apc].
    eexists. split; [reflexivity|]. cbn. unfold RW.upd. rewrite Nat.eqb_refl. cbn. rewrite orb_true_r. auto.
  - cbn [RW.run]. unfold RW.step. rewrite E. eexists. split; [reflexivity|]. cbn. unfold RW.upd. rewrite Nat.eqb_refl. cbn.
    rewrite orb_false_r. auto.
Qed.
End RwDrop.

(* ------------------------------------------------------------------ (C) *)
Section MutexSim.
Variable isco : nat -> bool.        (* PoisonModel: which tasks are coroutines *)
Variable ismutex : nat -> bool.
Variable fixd : bool.
Variable iscoM : nat -> bool.       (* MutexModel: which actors (= guards) are coroutines; irrelevant on these paths *)
Variable l : nat.                   (* the Mutex *)
Hypothesis Lm : ismutex l = true.

Fixpoint msteps (s : M.st) (acts : list M.action) : option M.st :=
  match acts with [] => Some s | a :: r => match M.step iscoM s a with Some s' => msteps s' r | None => None end end.
Lemma msteps_reach acts : forall s s', M.Reach iscoM s -> msteps s acts = Some s' -> M.Reach iscoM s'.
Proof.
  induction acts as [|a r IH]; cbn; intros s s' R H; [inversion H; subst; exact R|].
  destruct (M.step iscoM s a) eqn:E; [|discriminate]. eapply IH; [eapply M.RS; eassumption|exact H].
Qed.

(* what a PoisonModel action does to the Mutex l, in MutexModel actions (one actor per guard id) *)
Definition on_l (ps : st) (t i : nat) : bool :=
  match find_g i (held (T ps t)) with Some g => Nat.eqb (glock g) l | None => false end.
Definition tr (ps : st) (a : action) : list M.action :=
  match a with
  | Lock t l' GM => if Nat.eqb l' l then [M.Start (nextg ps) false; M.Step (nextg ps)] else []
  | DropG t i | UnwDrop t i => if on_l ps t i then [M.Step i; M.Step i] else []
  | _ => [] end.

Definition Rel (ps : st) (ms : M.st) : Prop :=
  M.q ms = [] /\
  match wheld (L ps l) with
  | None => M.cnt ms = 0 /\ forall i, M.apc (M.A ms i) = M.Idle
  | Some t => exists g, In g (held (T ps t)) /\ glock g = l /\ M.cnt ms = 1 /\ M.apc (M.A ms (gid g)) = M.CS /\
                        forall i, i <> gid g -> M.apc (M.A ms i) = M.Idle
  end.

Lemma rel_init : Rel init M.init.
Proof. split; [reflexivity|]. cbn. split; [reflexivity|]. intro i. reflexivity. Qed.

Lemma kind_on_l g : kind_ok ismutex (glock g) (gk g) = true -> glock g = l -> gk g = GM.
Proof. intros K E. rewrite E in K. unfold kind_ok in K. rewrite Lm in K. destruct (gk g); cbn in K; congruence. Qed.

Lemma on_l_find ps t g : find_g (gid g) (held (T ps t)) = Some g -> on_l ps t (gid g) = Nat.eqb (glock g) l.
Proof. intro F. unfold on_l. rewrite F. reflexivity. Qed.

Theorem mutex_simulation ps ms a ps' :
  Reach isco ismutex fixd ps -> Rel ps ms -> step isco ismutex fixd ps a = Some ps' ->
  exists ms', msteps ms (tr ps a) = Some ms' /\ Rel ps' ms'.
Proof.
  intros R [Q RL] H. pose proof (inv_reach _ _ _ _ R) as I.
  destruct (step_shape2 _ _ _ _ _ _ H) as [(t & l0 & k & -> & AL & KO & AV & ->)|[(t & g0 & AD & F0 & G0 & ->)|(HL & HN & NA)]].
  - (* Lock *)
    destruct (Nat.eq_dec l0 l) as [->|NL].
    + assert (k = GM) by (unfold kind_ok in KO; rewrite Lm in KO; destruct k; cbn in KO; congruence). subst k.
      cbn [tr]. rewrite Nat.eqb_refl. rewrite (avail_none _ _ AV) in RL. cbv beta iota in RL. destruct RL as [C0 ID].
      set (i := nextg ps).
      set (x1 := {| M.apc := M.L0; M.ab := M.ab (M.A ms i); M.aw := M.aw (M.A ms i); M.actx := M.actx (M.A ms i);
                    M.afor := M.afor (M.A ms i); M.aign := false; M.acanc := M.acanc (M.A ms i); M.aloc := M.aloc (M.A ms i) |}).
      set (m1 := M.setA ms (M.upd (M.A ms) i x1)).
      assert (S1 : M.step iscoM ms (M.Start i false) = Some m1) by (unfold M.step; rewrite ID; reflexivity).
      assert (A1 : M.A m1 i = x1) by (subst m1; cbn; apply MI.upd_eq).
      set (m2 := M.mk 1 (M.q m1) (M.nextb m1) (M.upd (M.A m1) i (M.set_pc x1 M.CS)) (M.Bk m1) (M.HA i) (i :: M.ent m1) (M.data m1) (M.nwr m1)).
      assert (S2 : M.step iscoM m1 (M.Step i) = Some m2).
      { unfold M.step. rewrite A1. cbn [M.apc x1]. subst m1. cbn [M.cnt M.setA M.mk]. rewrite C0. reflexivity. }
      exists m2. split; [cbn [msteps]; rewrite S1, S2; reflexivity|]. split; [exact Q|].
      unfold lock_st. cbn [L T]. rewrite !upd_eq. cbn [acquire wheld]. cbv beta iota. exists (new_guard ps t l GM).
      split; [rewrite ?upd_eq; cbn [held set_held]; left; reflexivity|]. split; [reflexivity|]. split; [reflexivity|].
      unfold new_guard. cbn [gid]. fold i. subst m2. cbn [M.A M.mk]. rewrite MI.upd_eq. split; [reflexivity|].
      intros j NE. rewrite MI.upd_neq by exact NE. subst m1. cbn [M.A M.setA M.mk]. rewrite MI.upd_neq by exact NE. apply ID.
    + assert (TR : tr ps (Lock t l0 k) = []) by (cbn; destruct k; try reflexivity; destruct (Nat.eqb_spec l0 l); [congruence|reflexivity]).
      rewrite TR. exists ms. split; [reflexivity|]. split; [exact Q|].
      unfold lock_st. cbn [L T]. rewrite (upd_neq (L ps)) by (intro X; apply NL; symmetry; exact X).
      destruct (wheld (L ps l)) as [t'|]; [|exact RL]. destruct RL as (g & G & GL & REST). exists g. split; [|auto].
      destruct (Nat.eq_dec t' t) as [->|NT]; [rewrite upd_eq; cbn; right; exact G|rewrite upd_neq by exact NT; exact G].
  - (* a guard is dropped: explicitly or by an unwinding *)
    assert (TR : tr ps a = if Nat.eqb (glock g0) l then [M.Step (gid g0); M.Step (gid g0)] else []).
    { destruct AD as [-> | ->]; cbn [tr]; rewrite (on_l_find _ _ _ F0); reflexivity. }
    rewrite TR. destruct (Nat.eqb_spec (glock g0) l) as [EL|NL].
    + pose proof (kind_on_l _ (J7 _ _ _ I _ _ G0) EL) as KM.
      assert (HF : has_flag (gk g0) = true) by (rewrite KM; reflexivity).
      pose proof (J5a _ _ _ I _ _ G0 HF) as W. rewrite EL in W. rewrite W in RL. cbv beta iota in RL.
      destruct RL as (g & G & GL & C1 & PC & ID).
      assert (g = g0).
      { apply (gid_inj _ _ _ (J4b _ _ _ I t) G G0). apply (J5e _ _ _ I t g g0 G G0); [|exact HF|congruence].
        rewrite (kind_on_l _ (J7 _ _ _ I _ _ G) GL). reflexivity. }
      subst g. set (i := gid g0) in *.
      set (x1 := {| M.apc := M.U0; M.ab := M.ab (M.A ms i); M.aw := M.aw (M.A ms i); M.actx := M.RDone; M.afor := i;
                    M.aign := M.aign (M.A ms i); M.acanc := M.acanc (M.A ms i); M.aloc := M.aloc (M.A ms i) |}).
      set (m1 := M.setA ms (M.upd (M.A ms) i x1)).
      assert (S1 : M.step iscoM ms (M.Step i) = Some m1) by (unfold M.step; rewrite PC; reflexivity).
      assert (A1 : M.A m1 i = x1) by (subst m1; cbn; apply MI.upd_eq).
      assert (S2 : exists m2, M.step iscoM m1 (M.Step i) = Some m2 /\ M.cnt m2 = 0 /\ M.q m2 = M.q ms /\
                              forall j, M.apc (M.A m2 j) = if Nat.eqb j i then M.Idle else M.apc (M.A ms j)).
      { unfold M.step. rewrite A1. cbn [M.apc x1]. subst m1. cbn [M.cnt M.setA M.mk]. rewrite C1. cbn [Nat.ltb Nat.leb].
        eexists. split; [reflexivity|]. cbn [M.cnt M.q M.A M.mk M.setA]. split; [reflexivity|]. split; [reflexivity|].
        intro j. unfold M.upd. destruct (Nat.eqb j i); reflexivity. }
      destruct S2 as (m2 & S2 & C2 & Q2 & P2).
      exists m2. split; [cbn [msteps]; rewrite S1, S2; reflexivity|]. split; [rewrite Q2; exact Q|].
      cbn [do_drop L]. rewrite EL, upd_eq. rewrite KM. cbn [release wheld]. cbv beta iota.
      split; [exact C2|].
      intro j. rewrite P2. destruct (Nat.eqb_spec j i) as [_|NE]; [reflexivity|]. apply ID. exact NE.
    + exists ms. split; [reflexivity|]. split; [exact Q|].
      cbn [do_drop L T]. rewrite (upd_neq (L ps)) by (intro X; apply NL; symmetry; exact X).
      destruct (wheld (L ps l)) as [t'|]; [|exact RL]. destruct RL as (g & G & GL & REST). exists g. split; [|auto].
      destruct (Nat.eq_dec t' t) as [->|NT]; [rewrite upd_eq; cbn [held set_held]|rewrite upd_neq by exact NT; exact G].
      apply in_del_g. split; [exact G|]. intro X. pose proof (gid_inj _ _ _ (J4b _ _ _ I t) G G0 X). subst g. congruence.
  - (* everything else does not touch the Mutex *)
    assert (TR : tr ps a = []) by (destruct a; try reflexivity; destruct NA).
    rewrite TR. exists ms. split; [reflexivity|]. split; [exact Q|]. rewrite HL.
    destruct (wheld (L ps l)) as [t'|]; [|exact RL]. destruct RL as (g & G & GL & REST).
    destruct (HN t') as [HE|(i & d & HE)]; rewrite HE; [exists g; auto|].
    destruct (move_g_in g i d _ G) as (g' & M1 & M2 & M3 & _). exists g'. rewrite M2. split; [exact M1|]. split; [congruence|exact REST].
Qed.

(* so: every run of the guard life cycle, with panics, cancellations, nested unwindings, is a run of MutexModel for
   the Mutex l, in which each guard drop is the one unlock path of (A) *)
Theorem mutex_simulation_run acts : forall ps ms ps',
  Reach isco ismutex fixd ps -> M.Reach iscoM ms -> Rel ps ms -> run isco ismutex fixd ps acts = Some ps' ->
  exists ms', M.Reach iscoM ms' /\ Rel ps' ms'.
Proof.
  induction acts as [|a r IH]; cbn [run]; intros ps ms ps' RP RM RL H; [inversion H; subst; eauto|].
  destruct (step isco ismutex fixd ps a) as [ps1|] eqn:E; [|discriminate].
  destruct (mutex_simulation _ _ _ _ RP RL E) as (ms1 & S & RL1).
  eapply IH; [eapply RS; eassumption | eapply msteps_reach; eassumption | exact RL1 | exact H].
Qed.
End MutexSim.
