(* Hygiene invariant of LocalModel: where the generator's para slot may be non-empty, who may have set the
   cancel bit, what the verdict of a consuming blocking call can be.  `leakm g` marks a generator on which
   wait_io's short-cut left a Canceled para behind (only possible before the repair of F30). *)
From Coq Require Import List Arith Bool ZArith Lia.
Import ListNotations.
Require Import MayV.Rt.LocalModel MayV.Rt.LocalTac MayV.Rt.LocalInvS.

Definition para_ok (p : pc) (o : option perr) : Prop :=
  match p with
  | PNew | PBody | PEnd | PSusp _ => o = None
  | PShort k => o = Some ECanceled
  | PReady k | PBack k | PAfter k => (consumes k = false -> o = None) /\ (o = Some ETimeout -> has_timer k = true)
  | _ => True
  end.

Record PInv (s : st) : Prop := {
  P1 : forall c, occ (pcm s c) = true -> leakm s (genm s c) = false -> para_ok (pcm s c) (param s (genm s c));
  P2 : forall c k, pcm s c = PShort k -> cbitm s c = true /\ cdism s c = 0;
  P3 : forall g, goccm s g = None -> leakm s g = false -> param s g = None;
  C1 : forall c, cbitm s c = true -> 1 <= ncanm s c;
  C2 : forall c, occ (pcm s c) = true -> leakm s (genm s c) = false -> param s (genm s c) = Some ECanceled -> 1 <= ncanm s c;
  V1 : forall c, verm s c = Some (Some ECanceled) -> 1 <= ncanm s c \/ leakm s (genm s c) = true;
  V2 : forall c, verm s c = Some (Some ETimeout) -> has_timer (vkindm s c) = true \/ leakm s (genm s c) = true }.

Lemma pinv_init cf : PInv (init cf).
Proof. constructor; cbn; intros; try discriminate; auto. Qed.

Ltac usep I := first [ solve [eapply (P1 _ I); eauto; congruence] | solve [eapply (P2 _ I); eauto; congruence]
                     | solve [eapply (P3 _ I); eauto; congruence] | solve [eapply (C1 _ I); eauto; congruence]
                     | solve [eapply (C2 _ I); eauto; congruence] | solve [eapply (V1 _ I); eauto; congruence]
                     | solve [eapply (V2 _ I); eauto; congruence] ].

(* two occupants of one generator are one *)
Ltac geninj J :=
  match goal with
  | e : genm ?s ?a = genm ?s ?b, n : ?a <> ?b |- _ =>
      exfalso; apply n; apply (occ_gen_inj s a b J); [ | | exact e];
      solve [ assumption | match goal with E : pcm s _ = _ |- _ => rewrite E; reflexivity end ]
  | e : genm ?s ?a = genm ?s ?b, n : ?b <> ?a |- _ =>
      exfalso; apply n; symmetry; apply (occ_gen_inj s a b J); [ | | exact e];
      solve [ assumption | match goal with E : pcm s _ = _ |- _ => rewrite E; reflexivity end ]
  end.

Lemma timer_consumes k : has_timer k = true -> consumes k = true.
Proof. destruct k as [|? []| | |[]| | |]; cbn; congruence. Qed.
Lemma cancelp_consumes k : cancel_para k = true -> consumes k = true.
Proof. destruct k; cbn; congruence. Qed.
Lemma unused_free s g : SInv s -> gusedm s g = false -> goccm s g = None.
Proof. intros J H. destruct (goccm s g) eqn:E; auto. apply (S5 _ J) in E. congruence. Qed.
Lemma pooled_free s g l : SInv s -> pool s = g :: l -> goccm s g = None.
Proof. intros J H. apply (S3 _ J). rewrite H. now left. Qed.

(* what the invariants say about the stepping coroutine, whose control point is known *)
Ltac pfwd J I :=
  repeat match goal with
  | E : pcm ?s ?c = ?P |- _ =>
      unseen (pcm s c = P);
      let a := fresh "G" in let b := fresh "G" in let d := fresh "G" in
      pose proof (S2 _ J c) as a; pose proof (P1 _ I c) as b; pose proof (C2 _ I c) as d;
      rewrite E in a, b, d; cbn [occ para_ok] in a, b, d;
      first [ specialize (a eq_refl); destruct a as [a ?] | clear a ];
      first [ specialize (b eq_refl) | clear b ]; first [ specialize (d eq_refl) | clear d ];
      try (pose proof (P2 _ I c _ E))
  | H : cbitm ?s ?c = true |- _ => unseen (cbitm s c = true); pose proof (C1 _ I c H)
  | H : has_timer ?k = true |- _ => unseen (has_timer k = true); pose proof (timer_consumes k H)
  | H : cancel_para ?k = true |- _ => unseen (cancel_para k = true); pose proof (cancelp_consumes k H)
  | H : _ /\ _ |- _ => destruct H
  end.

Lemma pinv_step cf s a s' : SInv s -> PInv s -> step cf s a = Some s' -> PInv s'.
Proof.
  intros J I H. destruct a; cbn [step] in H.
  3,4: (apply access_inv in H; destruct H as [(c0 & d & Ht & Hp & Hg & Ha & ->) | (Ht & ->)];
            constructor; sst; apply I).
  all: unfold cancel_wake, canceled in H; sst; step_split H; try inv_some H.
  all: repeat match goal with
       | |- context [if cancel_para ?k then _ else _] => destruct (cancel_para k) eqn:?
       | |- context [if cancel_plain ?k then _ else _] => destruct (cancel_plain k) eqn:?
       end.
  all: constructor; sst.
  all: try exact (P1 _ I); try exact (P2 _ I); try exact (P3 _ I); try exact (C1 _ I); try exact (C2 _ I);
       try exact (V1 _ I); try exact (V2 _ I).
  all: intros.
  all: eqbs; cbn [occ para_ok] in *; try discriminate.
  all: try solve [ auto | congruence | usep I ].
  all: bools; rewrite ?andb_true_r in *; bools.
  all: try (match goal with E1 : gusedm ?s ?g = false |- _ => pose proof (unused_free s g J E1) end).
  all: try (match goal with E1 : pool ?s = ?g :: ?l |- _ => pose proof (pooled_free s g l J E1) end).
  all: pfwd J I.
  all: try solve [ auto | congruence | lia | geninj J | intuition (congruence || lia) ].
  all: try (match goal with H : goccm ?s ?g = None, L : leakm ?s ?g = false |- _ => pose proof (P3 _ I g H L) end; solve [congruence | lia]).
  all: try (match goal with E0 : yb_of ?k = YNone |- _ => destruct k as [|[] ?| | |?| | |]; try discriminate E0; cbn; intuition congruence end).
  all: try (match goal with H : verm ?s ?c0 = Some (Some ECanceled), e : genm ?s ?c0 = genm ?s ?c |- _ =>
              destruct (V1 _ I c0 H) as [Q|Q]; [now left | right; rewrite e in Q; rewrite Q; reflexivity] end).
  all: try (match goal with H : verm ?s ?c0 = Some (Some ETimeout), e : genm ?s ?c0 = genm ?s ?c |- _ =>
              destruct (V2 _ I c0 H) as [Q|Q]; [now left | right; rewrite e in Q; rewrite Q; reflexivity] end).
  - unfold para_of in H1. rewrite (G0 H0) in H1. discriminate.
  - unfold para_of in *; inv_some H; destruct (leakm s (genm s c)) eqn:L; [now right | left]; intuition.
  - unfold para_of in *; inv_some H; destruct (leakm s (genm s c)) eqn:L; [now right | left]; intuition.
Qed.

Theorem pinv_reach cf s : Reach cf s -> PInv s.
Proof.
  induction 1; [apply pinv_init | eapply pinv_step; eauto using sinv_reach].
Qed.

(* with the repair (the code in /repo) nothing is ever left behind *)
Lemma noleak_step cf s a s' : fixW cf = true -> (forall g, leakm s g = false) -> step cf s a = Some s' -> forall g, leakm s' g = false.
Proof.
  intros F I H. destruct a; cbn [step] in H.
  3,4: (apply access_inv in H; destruct H as [(c0 & d & Ht & Hp & Hg & Ha & ->) | (Ht & ->)]; sst; exact I).
  all: unfold cancel_wake in H; sst; step_split H; try inv_some H; try congruence.
  all: repeat match goal with
       | |- context [if cancel_para ?k then _ else _] => destruct (cancel_para k) eqn:?
       | |- context [if cancel_plain ?k then _ else _] => destruct (cancel_plain k) eqn:?
       end.
  all: sst; try exact I.
Qed.

Theorem noleak_reach cf s : fixW cf = true -> Reach cf s -> forall g, leakm s g = false.
Proof.
  intros F R. induction R; [reflexivity | eapply noleak_step; eauto].
Qed.
