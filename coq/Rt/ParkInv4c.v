(* C02 - Inv4 is preserved: actions APark, AAway, AExit, ANewPark *)
From Coq Require Import List ZArith Bool Arith Lia.
Import ListNotations.
Require Import MayV.Rt.AtomicDur MayV.Base.BlockerSpec MayV.Rt.ParkModel MayV.Rt.ParkTac MayV.Rt.ParkInv1 MayV.Rt.ParkInv2 MayV.Rt.ParkInv3 MayV.Rt.ParkInv4Def.
Open Scope Z_scope.


Lemma inv4_APark s s' : forall d, Inv1 s -> Inv2 s -> Inv3 s -> Inv4 s -> stepF s (APark d) = Some s' -> Inv4 s'.
Proof. intros d. intro4. step4 Ipl H. all: show4. Qed.

Lemma inv4_AAway s s' : Inv1 s -> Inv2 s -> Inv3 s -> Inv4 s -> stepF s (AAway) = Some s' -> Inv4 s'.
Proof. intro4. step4 Ipl H. all: show4. Qed.

Lemma inv4_AExit s s' : forall b, Inv1 s -> Inv2 s -> Inv3 s -> Inv4 s -> stepF s (AExit b) = Some s' -> Inv4 s'.
Proof. intros b. intro4. step4 Ipl H. all: show4. Qed.

Lemma inv4_ANewPark s s' : forall ign, Inv1 s -> Inv2 s -> Inv3 s -> Inv4 s -> stepF s (ANewPark ign) = Some s' -> Inv4 s'.
Proof. intros ign. intro4. step4 Ipl H. all: show4. Qed.
