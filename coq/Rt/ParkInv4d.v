(* C02 - Inv4 is preserved: actions AUnSwap, AUnTake, AUnSched, AUnRun *)
From Coq Require Import List ZArith Bool Arith Lia.
Import ListNotations.
Require Import MayV.Rt.AtomicDur MayV.Base.BlockerSpec MayV.Rt.ParkModel MayV.Rt.ParkTac MayV.Rt.ParkInv1 MayV.Rt.ParkInv2 MayV.Rt.ParkInv3 MayV.Rt.ParkInv4Def.
Open Scope Z_scope.


Lemma inv4_AUnSwap s s' : forall i, Inv1 s -> Inv2 s -> Inv3 s -> Inv4 s -> stepF s (AUnSwap i) = Some s' -> Inv4 s'.
Proof. intros i. intro4. step4 Ipl H. all: show4. Qed.

Lemma inv4_AUnTake s s' : forall i, Inv1 s -> Inv2 s -> Inv3 s -> Inv4 s -> stepF s (AUnTake i) = Some s' -> Inv4 s'.
Proof. intros i. intro4. step4 Ipl H. all: show4. Qed.

Lemma inv4_AUnSched s s' : forall i, Inv1 s -> Inv2 s -> Inv3 s -> Inv4 s -> stepF s (AUnSched i) = Some s' -> Inv4 s'.
Proof. intros i. intro4. step4 Ipl H. all: show4. Qed.

Lemma inv4_AUnRun s s' : forall i, Inv1 s -> Inv2 s -> Inv3 s -> Inv4 s -> stepF s (AUnRun i) = Some s' -> Inv4 s'.
Proof. intros i. intro4. step4 Ipl H. all: show4. Qed.
