(* Preservation of the bookkeeping clauses of the CqueueModel invariant (existence / freshness, totals, the owner's
   mode, deadlines, unreachable control points). *)
From Coq Require Import List Arith Bool ZArith Lia.
Import ListNotations.
Require Import MayV.Rt.CqueueModel MayV.Rt.CqueueInv MayV.Rt.CqueueTac.

Lemma pres_A_ex s ac s' : Inv s -> step current s ac = Some s' -> forall a, pc s' a = ANone <-> nexta s' <= a.
Proof.
  intros I H a0. start I H.
  all: upds; simp; try (apply QAex); try (split; intros; try discriminate; try lia; fail).
  all: try (rewrite QAex; lia).
Qed.

Lemma pres_E_ex s ac s' : Inv s -> step current s ac = Some s' -> forall e, kpc s' e = KNone <-> nexte s' <= e.
Proof.
  intros I H e0. start I H.
  all: upds; simp; try (apply QEex); try (split; intros; try discriminate; try lia; fail).
  all: try (rewrite QEex; lia).
Qed.

Lemma pres_B_fr s ac s' : Inv s -> step current s ac = Some s' -> forall b, nextb s' <= b -> tok s' b = false.
Proof.
  intros I H b0 L. pose proof (W_tw _ I) as QW; pose proof (A_aw _ I) as QAaw; pose proof (E_kw _ I) as QEkw; pose proof (W_ob _ I) as QWob. start I H.
  all: upds; simp; try (apply QBfr; lia); pcs; fin.
  all: try (specialize (QWob eq_refl); lia).
  all: try (match goal with E : pc _ _ = AD4 |- _ => specialize (QAaw _ E); lia end).
  all: try (match goal with E : kpc _ _ = K3 |- _ => specialize (QEkw _ E); lia end).
Qed.

Lemma pres_A_new s ac s' : Inv s -> step current s ac = Some s' ->
  forall a, nexta s' <= a -> sel s' a = false /\ dpop s' a = 0 /\ kern s' a = 0 /\ inl s' a = false.
Proof.
  intros I H a0 L. pose proof (E_arm _ I) as QEarm. start I H.
  all: upds; simp; try (apply QAnew; lia); pcs; fin.
  all: try (fresh_contra; fail).
  all: try (match goal with X : ?e < nexte ?s |- _ => pose proof (QEarm e X); lia end).

Qed.

Lemma pres_E_new s ac s' : Inv s -> step current s ac = Some s' -> forall e, nexte s' <= e -> epush s' e = 0 /\ epop s' e = 0.
Proof.
  intros I H e0 L. start I H.
  all: upds; simp; try (apply QEnew; lia); pcs; fin.


Qed.

Lemma pres_I_tot s ac s' : Inv s -> step current s ac = Some s' -> nexta s' = if adding (opc s') then S (total s') else total s'.
Proof.
  intros I H. start I H.
  all: pcs; fin.
Qed.

Lemma pres_O_fin s ac s' : Inv s -> step current s ac = Some s' ->
  finrel (opc s') (ofin s') /\ fi s' <= total s' /\ (opc s' = FC1 -> fi s' < total s').
Proof.
  intros I H. pose proof (O_fin _ I) as QOfin. start I H.
  all: pcs; simp; fin.
  all: try (repeat split; fin; intuition fin; fail).
Qed.

Lemma pres_X_left s ac s' : Inv s -> step current s ac = Some s' -> oleft s' = is_oexit (opc s').
Proof.
  intros I H. pose proof (X_left _ I) as QX. start I H.
  all: pcs; simp; fin.
Qed.

Lemma pres_T_dl s ac s' : Inv s -> step current s ac = Some s' ->
  inpoll (opc s') = true -> if Nat.eqb (ofin s') 0 then odl s' = zadd_opt (ocall s') (oto s') /\ (ocall s' <= now s')%Z else odl s' = None /\ oto s' = None.
Proof.
  intros I H. pose proof (T_dl _ I) as QT. pose proof (O_fin _ I) as QOfin. start I H.
  all: pcs; simp; fin.
  all: intros HP; try specialize (QT HP); try specialize (QT eq_refl); destruct (ofin s) as [|[|?]]; cbn [Nat.eqb] in *; fin.
  all: try (intuition (fin); fail).
Qed.

Lemma pres_N_bug s ac s' : Inv s -> step current s ac = Some s' -> opc s' <> OBug /\ opc s' <> Cpre /\ opc s' <> P2b.
Proof.
  intros I H. start I H.
  all: pcs; simp; fin.
  all: try (repeat split; congruence).
Qed.
