(* Refutations on the pre-fix variants of the scope model (what the repairs repaired; the theorems of
   ScopeSafe / ScopeThm are not vacuous) and reachable witnesses for the current code.  All by vm_compute. *)
From Coq Require Import List Arith Bool.
Import ListNotations.
Require Import MayV.Rt.ScopeModel MayV.Rt.ScopeInv.


(* a boolean observation of the state a schedule leads to is an observation of a reachable state
   (states are never normalised: only the observed booleans are computed) *)
Definition observe (cf : cfg) (l : list action) (f : st -> bool) : bool :=
  match run cf init l with Some s => f s | None => false end.
Lemma observe_sound cf l f : observe cf l f = true -> exists s, Reach cf s /\ f s = true.
Proof.
  unfold observe. destruct (run cf init l) as [s|] eqn:E; [|discriminate].
  intro H. exists s. split; [eapply run_reach; [constructor | exact E] | exact H].
Qed.
Definition left_and_running (c : nat) (s : st) : bool := cleftm s c && jstm s c.
Lemma left_and_running_spec c s : left_and_running c s = true -> scope_left s c /\ ~ done s c.
Proof.
  unfold left_and_running, scope_left, done. intro H. apply andb_prop in H. destruct H as [H1 H2].
  split; [exact H1 | rewrite H2; discriminate].
Qed.

(* F2' (before commit 06c1f59: no cancel-disable around the scoped join, Join::wait a single `if`):
   task 0 (a coroutine) opens a scope, spawns child 1, closes the scope, parks in the join of child 1;
   a cancel() takes it; the park's yield_back raises Cancel; Drop for Scope finds the chain empty (the dtor
   was unlinked, its JoinHandle dropped by the unwinding) and the scope is left: child 1 still running *)
Definition f2_schedule : list action :=
  [Root KCo; Open 0; Spawn 0 0; Close 0; Step 0; Step 0; Step 0; Step 0; Step 0; Step 0; Cancel 0; Step 0; Step 0].
Theorem F2_scope_left_early_refuted :
  exists s c, Reach prefix s /\ scope_left s c /\ ~ done s c.
Proof.
  destruct (observe_sound prefix f2_schedule (left_and_running 1)) as [s [R H]]; [vm_compute; reflexivity|].
  exists s, 1. split; [exact R | apply left_and_running_spec; exact H].
Qed.

(* F2', second half: two children; the cancel arrives while the owner runs its closure; the unwinding Drop for
   Scope joins with the cancel bit set: yield_with's short-cut returns at once (already unwinding: no second
   panic), Join::wait does not loop, both "joins" return with the children running *)
Definition f2b_schedule : list action :=
  [Root KCo; Open 0; Spawn 0 0; Spawn 0 0; Cancel 0; CPoint 0;
   Step 0; Step 0; Step 0; Step 0; Step 0; Step 0; Step 0; Step 0; Step 0;     (* join of child 2: PDrop PJ0 PW0 PW1 PW2 PPark(short-cut) PT1 PT2 PRes *)
   Step 0; Step 0; Step 0; Step 0; Step 0; Step 0; Step 0; Step 0; Step 0;     (* join of child 1 *)
   Step 0].                                                                     (* chain empty: scope left *)
Theorem F2_shortcut_refuted :
  exists s, Reach prefix s /\ scope_left s 1 /\ ~ done s 1 /\ scope_left s 2 /\ ~ done s 2.
Proof.
  destruct (observe_sound prefix f2b_schedule (fun s => left_and_running 1 s && left_and_running 2 s)) as [s [R H]];
    [vm_compute; reflexivity|].
  apply andb_prop in H. destruct H as [H1 H2]. apply left_and_running_spec in H1. apply left_and_running_spec in H2.
  exists s. tauto.
Qed.

(* mutant: the cancel-disable is kept but Join::wait is a single `if`: the cancel() takes the parked owner
   (it does, whatever the disable count), the park returns Canceled, wait returns although the child runs *)
Definition noloop : cfg := {| cdis := true; cloop := false; ctrans := true |}.
Definition noloop_schedule : list action :=
  [Root KCo; Open 0; Spawn 0 0; Close 0; Step 0; Step 0; Step 0; Step 0; Step 0; Step 0; Cancel 0;
   Step 0; Step 0; Step 0; Step 0; Step 0; Step 0].
Theorem wait_without_loop_refuted : exists s c, Reach noloop s /\ scope_left s c /\ ~ done s c.
Proof.
  destruct (observe_sound noloop noloop_schedule (left_and_running 1)) as [s [R H]]; [vm_compute; reflexivity|].
  exists s, 1. split; [exact R | apply left_and_running_spec; exact H].
Qed.

(* mutant: drop_all runs a dtor before the rest of the chain is linked back: child 2 panics, its panic is
   re-raised in the owner inside the dtor, the rest of the chain (child 1's join) is lost *)
Definition notrans : cfg := {| cdis := true; cloop := true; ctrans := false |}.
Definition notrans_schedule : list action :=
  [Root KCo; Open 0; Spawn 0 0; Spawn 0 0; Panic 2 7; Step 2; Step 2; Step 2;   (* child 2: PF1 PF2 PF3(no waiter) *)
   Close 0; Step 0; Step 0; Step 0; Step 0; Step 0; Step 0; Step 0;              (* owner: PDrop PJ0 PW0 PT1 PT2 PEn PCk *)
   Step 0;                                                                       (* PRes: re-raise, chain lost *)
   Step 0].                                                                      (* chain empty: scope left *)
Theorem non_transactional_drop_all_refuted : exists s c, Reach notrans s /\ scope_left s c /\ ~ done s c.
Proof.
  destruct (observe_sound notrans notrans_schedule (left_and_running 1)) as [s [R H]]; [vm_compute; reflexivity|].
  exists s, 1. split; [exact R | apply left_and_running_spec; exact H].
Qed.

(* ---- the current code: the same schedules do not get that far, and the hypotheses of the theorems are met ---- *)

(* under the current code the owner of f2_schedule is still inside Join::wait after the cancel *)
Example current_owner_keeps_waiting :
  match run current init (firstn 12 f2_schedule) with
  | Some s => (pcm s 0, cleftm s 1, dism s 0, cbitm s 0) = (PW0, false, 1, true) | None => False end.
Proof. vm_compute. reflexivity. Qed.

(* a cancelled owner with two children under the current code: waits for both, then the cancel takes effect;
   reachable state with scope_left for both children (so scope_not_left_early is not vacuous), the owner
   ends as cancelled *)
Definition cur_schedule : list action :=
  [Root KCo; Open 0; Spawn 0 0; Spawn 0 0; Close 0;
   Step 0; Step 0; Step 0; Step 0; Step 0; Step 0;            (* PDrop PJ0 PW0 PW1 PW2 PPark: suspended in the join of child 2 *)
   Cancel 0; Step 0;                                          (* taken by the cancel: loops (cancel disabled) *)
   Step 0; Step 0; Step 0; Step 0;                            (* PW0 PW1 PW2 PPark: suspended again *)
   Finish 2 5; Step 2; Step 2; Step 2; Step 2;                (* child 2 ends: PF1 PF2 PF3 PF4 (unpark) *)
   Step 0; Step 0; Step 0; Step 0; Step 0;                    (* resumed: PW0 PT1 PEn PCk: Cancel raised *)
   Step 0; Step 0; Step 0; Step 0; Step 0; Step 0;            (* Drop for Scope: PDrop PJ0 PW0 PW1 PW2 PPark: suspended (child 1) *)
   Finish 1 6; Step 1; Step 1; Step 1; Step 1;
   Step 0; Step 0; Step 0; Step 0; Step 0;                    (* PWW PW0 PT1 PEn(-> PRes: unwinding) PRes *)
   Step 0;                                                    (* chain empty: scope left, end of the task *)
   Step 0; Step 0; Step 0].                                   (* PF1 PF2 PF3 *)
Example current_cancelled_owner_waits :
  match run current init cur_schedule with
  | Some s => (cleftm s 1, jstm s 1, cleftm s 2, jstm s 2, outm s 0, pcm s 0) = (true, false, true, false, OCancel, PDone)
  | None => False end.
Proof. vm_compute. reflexivity. Qed.

(* a child's panic (payload 7) reaches the owner's outcome; an explicit join hands out the other child's value *)
Definition panic_schedule : list action :=
  [Root KCo; Open 0; Spawn 0 0; Spawn 0 0; Finish 1 9; Step 1; Step 1; Step 1; Panic 2 7; Step 2; Step 2; Step 2;
   Join 0 1; Step 0; Step 0; Step 0; Step 0; Step 0; Step 0; Step 0;   (* PJ0 PW0 PT1 PEn PCk PRes PRet *)
   Close 0; Step 0; Step 0; Step 0; Step 0; Step 0; Step 0; Step 0; Step 0;  (* dtor of 2: PDrop PJ0 PW0 PT1 PT2 PEn PCk PRes: re-raised *)
   Step 0; Step 0; Step 0; Step 0; Step 0].                            (* dtor of 1 (already joined), chain empty, PF1 PF2 PF3 *)
Example current_child_panic_propagates :
  match run current init panic_schedule with
  | Some s => (outm s 0, gotm s 1, cleftm s 1, cleftm s 2, pcm s 0) = (OPanic 7, 1, true, true, PDone) | None => False end.
Proof. vm_compute. reflexivity. Qed.
