(* SchedLoopModel: projection onto SchedModel, and the invariants behind "no lost wake-up". *)
From Coq Require Import List Arith ZArith NArith Bool Lia.
Import ListNotations.
Require Import MayV.Rt.SchedModel MayV.Rt.SchedInv MayV.Rt.SchedTac MayV.Rt.SchedLoopModel MayV.Rt.SchedLoopBase.

Ltac lsimp := cbn [base wpc evfd tmo dl slept now owed anon pre npop ncoll nsel coll0 ngrab mkl
                   l_base l_wpc l_evfd l_tmo l_dl l_slept l_now l_owed l_anon l_pre l_npop l_ncoll l_nsel l_coll0 l_ngrab
                   set_pc set_evfd grabbed] in *.

Ltac dmatch :=
  repeat match goal with |- context [match ?x with _ => _ end] => destruct x end.

Lemma base_ctl_base P l b l0 : base (ctl_base P l b l0) = base l0.
Proof. unfold ctl_base. dmatch; reflexivity. Qed.

Lemma base_grabbed l o : base (grabbed l o) = base l.
Proof. destruct o; reflexivity. Qed.

Lemma base_ctl P l a s' : base (ctl P l a s') = s'.
Proof. destruct a; unfold ctl; try apply base_ctl_base; dmatch; rewrite ?base_grabbed; reflexivity. Qed.

(* (c) every action of the loop model is a SchedModel action on the coroutine state, or leaves it unchanged *)
Lemma lstep_proj P l a l' : lstep P l a = Some l' ->
  match proj l a with
  | Some b => step (base l) b = Some (base l')
  | None => base l' = base l
  end.
Proof.
  unfold lstep. destruct (guard P l a); [|discriminate]. destruct (proj l a) as [b|].
  - destruct (step (base l) b) as [s'|]; [|discriminate]. intro H. inversion H. now rewrite base_ctl.
  - intro H. inversion H. now rewrite base_ctl.
Qed.

Lemma lstep_nw P l a l' : lstep P l a = Some l' -> nw (base l') = nw (base l).
Proof.
  intro H. apply lstep_proj in H. destruct (proj l a); [eapply step_nw; eauto | now rewrite H].
Qed.

Lemma lreach_base P n l : LReach P n l -> Reach n (base l).
Proof.
  induction 1 as [|l a l' R IH H]; [apply R0|].
  apply lstep_proj in H. destruct (proj l a) as [b|]; [eapply RS; eauto | now rewrite H].
Qed.

Lemma lreach_nw P n l : LReach P n l -> nw (base l) = n.
Proof.
  induction 1 as [|l a l' R IH H]; [reflexivity|]. now rewrite (lstep_nw _ _ _ _ H).
Qed.

Lemma lruns_reach P n tr : forall l l', LReach P n l -> lruns P l tr = Some l' -> LReach P n l'.
Proof.
  induction tr as [|a tr IH]; cbn [lruns]; intros l l' R H; [inversion H; subst; exact R|].
  destruct (lstep P l a) as [l1|] eqn:E; [|discriminate]. eapply IH; [eapply LRS; eauto | exact H].
Qed.

Lemma lruns_app P tr1 : forall tr2 l, lruns P l (tr1 ++ tr2) =
  match lruns P l tr1 with Some l1 => lruns P l1 tr2 | None => None end.
Proof.
  induction tr1 as [|a tr1 IH]; cbn [lruns app]; intros; [reflexivity|].
  destruct (lstep P l a); [apply IH | reflexivity].
Qed.
