(* SchedLoopModel: projection onto SchedModel, and the invariants behind "no lost wake-up". *)
From Coq Require Import List Arith ZArith NArith Bool Lia.
Import ListNotations.
Require Import MayV.Rt.SchedModel MayV.Rt.SchedInv MayV.Rt.SchedTac MayV.Rt.SchedLoopModel MayV.Rt.SchedLoopBase.

Ltac lsimp := cbn [base wpc evfd tmo dl slept now owed anon pre npop ncoll nsel coll0 ngrab ntake bud since mkl
                   l_base l_wpc l_evfd l_tmo l_dl l_slept l_now l_owed l_anon l_pre l_npop l_ncoll l_nsel l_coll0 l_ngrab l_ntake l_bud l_since
                   set_pc set_evfd grabbed taken] in *.

Ltac dmatch :=
  repeat match goal with |- context [match ?x with _ => _ end] => destruct x end.

Lemma base_ctl_base P l b l0 : base (ctl_base P l b l0) = base l0.
Proof. unfold ctl_base. dmatch; reflexivity. Qed.

Lemma base_grabbed l o : base (grabbed l o) = base l.
Proof. destruct o; reflexivity. Qed.
Lemma base_taken l o : base (taken l o) = base l.
Proof. destruct o; reflexivity. Qed.

Lemma base_ctl P l a s' : base (ctl P l a s') = s'.
Proof. destruct a; unfold ctl; try apply base_ctl_base; dmatch; rewrite ?base_grabbed, ?base_taken; reflexivity. Qed.

(* (c) every action of the loop model is a SchedModel action on the coroutine state, or leaves it unchanged *)
Lemma lstep_proj P l a l' : lstep P l a = Some l' ->
  match proj l a with
  | Some b => step (base l) b = Some (base l')
  | None => base l' = base l
  end.
Proof.
  unfold lstep. destruct (guard P l a); [|discriminate]. destruct (proj l a) as [b|].
  - destruct (step (base l) b) as [s'|]; [|discriminate]. intro H. inversion H. now rewrite base_ctl.
  - intro H. inversion H. now rewrite base_ctl.
Qed.

Lemma lstep_nw P l a l' : lstep P l a = Some l' -> nw (base l') = nw (base l).
Proof.
  intro H. apply lstep_proj in H. destruct (proj l a); [eapply step_nw; eauto | now rewrite H].
Qed.

Lemma lreach_base P n l : LReach P n l -> Reach n (base l).
Proof.
  induction 1 as [|l a l' R IH H]; [apply R0|].
  apply lstep_proj in H. destruct (proj l a) as [b|]; [eapply RS; eauto | now rewrite H].
Qed.

Lemma lreach_nw P n l : LReach P n l -> nw (base l) = n.
Proof.
  induction 1 as [|l a l' R IH H]; [reflexivity|]. now rewrite (lstep_nw _ _ _ _ H).
Qed.

Lemma lruns_reach P n tr : forall l l', LReach P n l -> lruns P l tr = Some l' -> LReach P n l'.
Proof.
  induction tr as [|a tr IH]; cbn [lruns]; intros l l' R H; [inversion H; subst; exact R|].
  destruct (lstep P l a) as [l1|] eqn:E; [|discriminate]. eapply IH; [eapply LRS; eauto | exact H].
Qed.

Lemma lruns_app P tr1 : forall tr2 l, lruns P l (tr1 ++ tr2) =
  match lruns P l tr1 with Some l1 => lruns P l1 tr2 | None => None end.
Proof.
  induction tr1 as [|a tr1 IH]; cbn [lruns app]; intros; [reflexivity|].
  destruct (lstep P l a); [apply IH | reflexivity].
Qed.

(* ------------------------------------------------------------------ no lost wake-up (push before eventfd write) *)
(* control points from which worker w runs collect_global (to the empty bulk_pop) before it calls epoll_wait again *)
Definition will_collect (P : params) (p : lpc) : bool :=
  match p with
  | PEvs true | PIo true | PRes (RIo true) | PCo (RIo true) => true
  | PColl _ | PPut _ => true
  | _ => false end.

Definition wake_coming P l w : Prop :=
  evfd l w = true \/ 0 < owed l w \/ 0 < anon l w \/ will_collect P (wpc l w) = true.
Definition JInv P l := forall w, gq (base l) w <> [] -> wake_coming P l w.

Lemma ctl_base_true P l b l0 : push_first P = true ->
  let r := ctl_base P l b l0 in
  wpc r = wpc l0 /\
  evfd r = match wake_target (base l) b with Some k => upd (evfd l0) k true | None => evfd l0 end /\
  owed r = (let o1 := match push_target (base l) b with
                      | Some (QG k) => if is_anon b then owed l0 else inc (owed l0) k
                      | _ => owed l0 end in
            match wake_target (base l) b with Some k => dec o1 k | None => o1 end) /\
  anon r = match push_target (base l) b with
           | Some (QG k) => if is_anon b then inc (anon l0) k else anon l0
           | _ => anon l0 end.
Proof.
  intro PF. unfold ctl_base. rewrite PF.
  destruct (push_target (base l) b) as [[k1|t1]|]; destruct (is_anon b); destruct (wake_target (base l) b) as [k2|];
    destruct (fetch_target (base l) b); lsimp; repeat split; reflexivity.
Qed.

Lemma upd_cases {X} (f : nat -> X) i v j : (j = i /\ upd f i v j = v) \/ (j <> i /\ upd f i v j = f j).
Proof. destruct (Nat.eq_dec j i) as [->|N]; [left; split; [reflexivity | apply upd_eq] | right; split; [exact N | now apply upd_neq]]. Qed.

Ltac updc := repeat match goal with
  | |- context [upd ?f ?i ?v ?j] => let A := fresh in let B := fresh in destruct (upd_cases f i v j) as [[A B]|[A B]]; rewrite B; clear B; try subst
  end.

Lemma ctl_base_J P l b l0 k : push_first P = true ->
   (evfd l0 k = true \/ 0 < owed l0 k \/ 0 < anon l0 k \/ push_target (base l) b = Some (QG k)) ->
   (evfd (ctl_base P l b l0) k = true \/ 0 < owed (ctl_base P l b l0) k \/ 0 < anon (ctl_base P l b l0) k).
Proof.
  intros PF H. destruct (ctl_base_true P l b l0 PF) as (_ & E & O & A). rewrite E, O, A. clear E O A.
  destruct (wake_target (base l) b) as [k2|].
  - destruct (Nat.eq_dec k k2) as [->|N]; [left; apply upd_eq|]. rewrite upd_neq by exact N.
    unfold dec. rewrite upd_neq by exact N.
    destruct H as [H|[H|[H|H]]]; [auto | | | rewrite H ].
    + right; left. destruct (push_target (base l) b) as [[k1|?]|]; try destruct (is_anon b); unfold inc; updc; lia.
    + right; right. destruct (push_target (base l) b) as [[k1|?]|]; try destruct (is_anon b); unfold inc; updc; lia.
    + destruct (is_anon b); unfold inc; rewrite upd_eq; [right; right | right; left]; lia.
  - destruct H as [H|[H|[H|H]]]; [auto | | | rewrite H ].
    + right; left. destruct (push_target (base l) b) as [[k1|?]|]; try destruct (is_anon b); unfold inc; updc; lia.
    + right; right. destruct (push_target (base l) b) as [[k1|?]|]; try destruct (is_anon b); unfold inc; updc; lia.
    + destruct (is_anon b); unfold inc; rewrite upd_eq; [right; right | right; left]; lia.
Qed.

Ltac gsplit G :=
  repeat match type of G with
  | _ && _ = true => let G1 := fresh "G" in let G2 := fresh "G" in apply andb_true_iff in G; destruct G as [G1 G2]; try gsplit G1; try gsplit G2
  end.

(* invert `lstep P l a = Some l'` for a concrete constructor a *)
Ltac linv H :=
  unfold lstep in H;
  match type of H with (if ?g then _ else _) = Some _ => let G := fresh "G" in destruct g eqn:G; [|discriminate H]; cbn [guard] in G; gsplit G end;
  cbn [proj] in H.


Ltac pcs G :=
  repeat match type of G with
  | context [match wpc ?l ?w with _ => _ end] => let E := fresh "E" in destruct (wpc l w) eqn:E; try discriminate G
  | context [match ?e with true => _ | false => _ end] => is_var e; destruct e; try discriminate G
  | context [match ?r with RRun => _ | _ => _ end] => is_var r; destruct r; try discriminate G
  end.

Lemma wc_frame P l l' w : evfd l' w = evfd l w -> owed l' w = owed l w -> anon l' w = anon l w ->
  (will_collect P (wpc l w) = true -> will_collect P (wpc l' w) = true) -> wake_coming P l w -> wake_coming P l' w.
Proof. unfold wake_coming. intros -> -> -> W [A|[A|[A|A]]]; auto. Qed.


Lemma lstep_gq P l a l' : lstep P l a = Some l' -> (forall b, a <> LBase b) -> forall k,
  gq (base l') k = gq (base l) k \/ (a = LBulkGrab k /\ exists c, gq (base l) k = c :: gq (base l') k).
Proof.
  intros H NB k. apply lstep_proj in H. destruct a; cbn [proj] in H; try (rewrite H; left; reflexivity).
  - exfalso. eapply NB; reflexivity.
  - apply step_takeslot in H. destruct H as (_ & _ & -> & _). now left.
  - apply step_grab in H. destruct H as (_ & c & A & _ & B & _). destruct (Nat.eq_dec k w) as [->|N].
    + right. split; [reflexivity|]. exists c. exact A.
    + left. apply (B (QG k)). congruence.
  - apply step_put in H. destruct H as (_ & c & r & _ & _ & _ & _ & -> & _). now left.
  - destruct (lq (base l) w); [rewrite H; now left|]. apply step_grab in H. destruct H as (_ & c & _ & _ & B & _).
    left. apply (B (QG k)). congruence.
  - destruct (hand (base l) w); [rewrite H; now left|].
    destruct (step_queues_nongrab _ _ _ H (fun t q => ltac:(discriminate)) (QG k)) as [A|[A _]]; [now left | discriminate A].
  - destruct (wpc l w); try (rewrite H; now left). apply step_grab in H. destruct H as (_ & c & _ & _ & B & _).
    left. apply (B (QG k)). congruence.
  - apply step_takeslot in H. destruct H as (_ & _ & -> & _). now left.
Qed.

Lemma ctl_other P l a s' w0 : (forall b, a <> LBase b) -> actor a <> Some w0 ->
  (forall k, a <> LAnonWake k) -> (forall k, a <> LAnonPre k) -> (forall k, a <> LSpurWake k) ->
  wpc (ctl P l a s') w0 = wpc l w0 /\ evfd (ctl P l a s') w0 = evfd l w0 /\
  owed (ctl P l a s') w0 = owed l w0 /\ anon (ctl P l a s') w0 = anon l w0.
Proof.
  intros NB NA N1 N2 N3. destruct a; cbn [actor] in NA; try (exfalso; eapply NB; reflexivity);
    try (exfalso; eapply N1; reflexivity); try (exfalso; eapply N2; reflexivity); try (exfalso; eapply N3; reflexivity);
    unfold ctl; dmatch; unfold grabbed, taken; dmatch; lsimp; rewrite ?upd_neq by congruence; repeat split; reflexivity.
Qed.


Lemma ctl_actor P l a s' w : actor a = Some w -> guard P l a = true ->
  owed (ctl P l a s') w = owed l w /\ anon (ctl P l a s') w = anon l w /\
  (will_collect P (wpc l w) = true ->
     will_collect P (wpc (ctl P l a s') w) = true \/ (a = LBulkEnd w /\ gq (base l) w = [])) /\
  (evfd (ctl P l a s') w = evfd l w \/ will_collect P (wpc (ctl P l a s') w) = true).
Proof.
  intros A G. destruct a; cbn [actor] in A; try discriminate A; inversion A; subst; clear A; cbn [guard] in G; gsplit G.
  all: match goal with G : _ |- _ => progress pcs G end.
  all: unfold ctl; try match goal with E : wpc _ _ = _ |- _ => rewrite E end.
  all: try (dmatch; unfold grabbed, taken; dmatch; lsimp; rewrite ?upd_eq; rewrite ?E; cbn [will_collect]; repeat split; try reflexivity;
            try (intro X; try discriminate X); auto; fail).
  - destruct (hand (base l) w); [destruct (gq (base l) w); [|discriminate G1]|]; destruct r; lsimp; rewrite ?upd_eq;
      cbn [will_collect]; repeat split; auto.
Qed.

Lemma jinv_step P l a l' : push_first P = true -> JInv P l -> lstep P l a = Some l' -> JInv P l'.
Proof.
  intros PF J H.
  assert (OTH : (forall b, a <> LBase b) -> (forall k, a <> LAnonWake k) -> (forall k, a <> LAnonPre k) ->
                (forall k, a <> LSpurWake k) ->
                forall w0, actor a <> Some w0 -> gq (base l') w0 <> [] -> wake_coming P l' w0).
  { intros NB N1 N2 N3 w0 NA NE. destruct (lstep_gq _ _ _ _ H NB w0) as [A|[-> _]]; [|cbn in NA; congruence].
    rewrite A in NE. specialize (J w0 NE). unfold lstep in H. destruct (guard P l a); [|discriminate].
    assert (exists s', l' = ctl P l a s') as [s' ->].
    { destruct (proj l a); [destruct (step (base l) a0); [|discriminate]|]; inversion H; eauto. }
    destruct (ctl_other P l a s' w0 NB NA N1 N2 N3) as (A1 & A2 & A3 & A4).
    eapply wc_frame; eauto. now rewrite A1. }
  assert (ACT : forall w, actor a = Some w -> gq (base l') w <> [] -> wake_coming P l' w).
  { intros w A NE.
    assert (NB : forall b, a <> LBase b) by (intros b ->; discriminate A).
    assert (GQ : gq (base l) w <> []).
    { destruct (lstep_gq _ _ _ _ H NB w) as [B|[_ [c B]]]; [now rewrite <- B | rewrite B; discriminate]. }
    specialize (J w GQ). unfold lstep in H. destruct (guard P l a) eqn:G; [|discriminate].
    assert (exists s', l' = ctl P l a s') as [s' ->].
    { destruct (proj l a); [destruct (step (base l) a0); [|discriminate]|]; inversion H; eauto. }
    destruct (ctl_actor P l a s' w A G) as (A1 & A2 & A3 & A4). unfold wake_coming in *. rewrite A1, A2.
    destruct J as [J|[J|[J|J]]]; auto.
    - destruct A4 as [A4|A4]; [left; congruence | auto].
    - destruct (A3 J) as [B|[_ B]]; [auto | contradiction]. }
  intros w0 NE. destruct a.
  all: try (destruct (Nat.eq_dec w0 w) as [->|N]; [apply ACT; [reflexivity | exact NE] | apply OTH; try discriminate; [cbn; congruence | exact NE]]).
  - (* LBase *) linv H. destruct (step (base l) a) as [s0|] eqn:S; [|discriminate]. inversion H; subst; clear H.
    rewrite base_ctl_base in NE. cbn [base l_base mkl] in NE.
    assert (NG : forall t q, a <> Grab t q) by (intros t q ->; discriminate G).
    destruct (ctl_base_true P l a (l_base l s0) PF) as (W & _).
    pose proof (ctl_base_J P l a (l_base l s0) w0 PF) as CJ. lsimp.
    unfold wake_coming. rewrite W. lsimp.
    destruct (step_queues_nongrab _ _ _ S NG (QG w0)) as [A|[A _]]; cbn [getq] in A.
    + rewrite A in NE. destruct (J w0 NE) as [B|[B|[B|B]]]; [| | | auto];
        (destruct CJ as [C|[C|C]]; [auto | auto | auto | auto]).
    + destruct CJ as [C|[C|C]]; auto.
  - (* LAnonWake *) linv H. inversion H; subst; clear H. unfold ctl, wake_coming in *. lsimp. unfold set_evfd. lsimp.
    destruct (Nat.eq_dec w0 k) as [->|N]; [left; apply upd_eq|]. unfold dec. rewrite !upd_neq by exact N. apply J, NE.
  - linv H. rewrite PF in G1. discriminate G1.
  - (* LSpurWake *) linv H. inversion H; subst; clear H. unfold ctl, wake_coming in *. lsimp. unfold set_evfd. lsimp.
    destruct (Nat.eq_dec w0 k) as [->|N]; [left; apply upd_eq|]. rewrite !upd_neq by exact N. apply J, NE.
  - linv H. inversion H; subst; clear H. unfold ctl, wake_coming in *. lsimp. apply J, NE.
Qed.

