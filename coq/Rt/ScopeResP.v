(* Preservation of the second invariant (ScopeRes.Inv2) and the theorems about results and panics. *)
From Coq Require Import List Arith Bool Lia.
Import ListNotations.
Require Import MayV.Rt.ScopeModel MayV.Rt.ScopeInv MayV.Rt.ScopeSafe MayV.Rt.ScopeRes.

Lemma pres_K1 s ac s' : Inv s -> Inv2 s -> step current s ac = Some s' -> forall a, pcm s' a = PBody -> unwm s' a = UNone.
Proof.
  intros I I2 H a0 P. start3 I I2 H.
  all: mid.
  all: try (apply R2; [apply R14; assumption | pcs; reflexivity]).
Qed.

Lemma pres_K2 s ac s' : Inv s -> Inv2 s -> step current s ac = Some s' -> forall a, jexpm s' a = true -> jpcs (pcm s' a) = true -> unwm s' a = UNone.
Proof.
  intros I I2 H a0 E P. start3 I I2 H.
  all: mid.
  all: try (apply R2; [assumption | pcs; reflexivity]).
Qed.

Lemma pres_K3 s ac s' : Inv s -> Inv2 s -> step current s ac = Some s' -> forall c, outm s' c = if fin (pcm s' c) then out_of (unwm s' c) (cvalm s' c) else ORun.
Proof.
  intros I I2 H c0. start3 I I2 H.
  all: mid.
  all: try rewrite R3.
  all: pcs; simp; try (match goal with H : fin _ = _ |- _ => rewrite H end); try reflexivity.
  all: try (match goal with U : unwm ?s ?a = _ |- _ => rewrite U end; reflexivity).
Qed.

Lemma pres_K4 s ac s' : Inv s -> Inv2 s -> step current s ac = Some s' -> forall c, jstm s' c = false -> fin3 (pcm s' c) = true.
Proof.
  intros I I2 H c0 P. start3 I I2 H.
  all: mid.
  all: try (specialize (R4 _ P); pcs; simp; try discriminate; try assumption).
Qed.

Lemma pres_K5 s ac s' : Inv s -> Inv2 s -> step current s ac = Some s' -> forall c, fin (pcm s' c) = true -> tkm s' c = false -> ipktm s' c = negb (unwinding (unwm s' c)) /\ panm s' c = pan_of (unwm s' c).
Proof.
  intros I I2 H c0 P T. start3 I I2 H.
  all: mid.
  all: try solve [apply R5; pcs; auto].
  all: try (match goal with E : pcm ?s ?a = PF1, U : unwm ?s ?a = _ |- _ => destruct (R16 a) as [G1 G2]; [rewrite E; reflexivity|]; rewrite ?U, ?G1, ?G2; cbn; auto end).
Qed.

Lemma pres_K6 s ac s' : Inv s -> Inv2 s -> step current s ac = Some s' -> forall c, fin (pcm s' c) = true -> unwm s' c = UNone -> gotm s' c = 0 -> pktm s' c = Some (cvalm s' c).
Proof.
  intros I I2 H c0 P U G. start3 I I2 H.
  all: mid.
  all: try (apply R6; pcs; auto).
Qed.

Lemma pres_K7 s ac s' : Inv s -> Inv2 s -> step current s ac = Some s' -> forall a, prejoin (pcm s' a) = true -> tkm s' (jcm s' a) = false.
Proof.
  intros I I2 H a0 P. start3 I I2 H.
  all: mid.
  all: try (apply R7; pcs; reflexivity).
  all: try (apply R8; assumption).
Qed.

Lemma pres_K8 s ac s' : Inv s -> Inv2 s -> step current s ac = Some s' -> forall c, joinedm s' c = false -> tkm s' c = false.
Proof.
  intros I I2 H c0 P. start3 I I2 H.
  all: mid.
  all: try (apply R8; assumption).
  all: try (match goal with E : pcm ?s ?a = _, P : joinedm ?s (jcm ?s ?a) = false |- _ => rewrite (R15 a) in P by (rewrite E; reflexivity); discriminate end).
Qed.

Lemma pres_K9 s ac s' : Inv s -> Inv2 s -> step current s ac = Some s' -> forall a, postwait (pcm s' a) = true -> jstm s' (jcm s' a) = false.
Proof.
  intros I I2 H a0 P. start3 I I2 H.
  all: mid.
  all: try (apply R9; pcs; reflexivity).
  all: try (apply Q4; assumption).
Qed.

Lemma pres_K10 s ac s' : Inv s -> Inv2 s -> step current s ac = Some s' -> forall a, hasres (pcm s' a) = true -> jresm s' a = res_of (unwm s' (jcm s' a)).
Proof.
  intros I I2 H a0 P. start3 I I2 H.
  all: mid.
  all: try solve [apply R10; pcs; reflexivity].
  all: try (slots; match goal with C : ipktm ?s ?c = true, G : ipktm ?s ?c = _ |- _ => rewrite G in C; destruct (unwm s c); cbn in *; try discriminate; reflexivity end).
  all: try (slots; match goal with P : panm ?s ?c = _, G : panm ?s ?c = _, U : forall a, pcm ?s a = PT2 -> _, E : pcm ?s ?a = PT2 |- _ => specialize (U a E); rewrite G in P; destruct (unwm s c); cbn in *; try discriminate; try inversion P; reflexivity end).
Qed.

Lemma pres_K10b s ac s' : Inv s -> Inv2 s -> step current s ac = Some s' -> forall a, pcm s' a = PT2 -> unwinding (unwm s' (jcm s' a)) = true.
Proof.
  intros I I2 H a0 P. start3 I I2 H.
  all: mid.
  all: try (apply R10b; assumption).
  all: try (slots; match goal with C : ipktm ?s ?c = false, G : ipktm ?s ?c = _ |- _ => rewrite G in C; destruct (unwinding (unwm s c)); [reflexivity | discriminate] end).
Qed.

Lemma pres_K11 s ac s' : Inv s -> Inv2 s -> step current s ac = Some s' -> forall a, pcm s' a = PRet -> unwm s' (jcm s' a) = UNone.
Proof.
  intros I I2 H a0 P. start3 I I2 H.
  all: mid.
  all: try (apply R11; assumption).
  all: try (match goal with E : pcm ?s ?a = PRes, J : jresm ?s ?a = ROk |- _ => rewrite (R10 a) in J by (rewrite E; reflexivity); destruct (unwm s (jcm s a)); cbn in J; try discriminate; reflexivity end).
  all: try (match goal with E : pcm ?s ?a = PRes, J : jexpm ?s ?a = true, U : unwm ?s ?a = _ |- _ => rewrite (R2 a J) in U by (rewrite E; reflexivity); discriminate end).
Qed.

Lemma pres_K12 s ac s' : Inv s -> Inv2 s -> step current s ac = Some s' -> forall c, gotm s' c <= 1 /\ (handlem s' c = true -> gotm s' c = 0).
Proof.
  intros I I2 H c0. start3 I I2 H.
  all: mid.
  all: try (apply R12).
  all: try (match goal with |- context [gotm ?s ?c] => destruct (R12 c); split; [assumption | intros; try discriminate; auto] end).
  all: try (match goal with E : pcm ?s ?a = PRet |- _ => destruct (R13 a (R14 a E)) as [G1 G2]; [rewrite E; reflexivity|]; rewrite G1, G2; split; [lia | discriminate] end).
Qed.

Lemma pres_K13 s ac s' : Inv s -> Inv2 s -> step current s ac = Some s' -> forall a, jexpm s' a = true -> jpcs (pcm s' a) = true -> gotm s' (jcm s' a) = 0 /\ handlem s' (jcm s' a) = false.
Proof.
  intros I I2 H a0 E P. start3 I I2 H.
  all: mid.
  all: try (apply R13; [assumption | pcs; reflexivity]).
  all: try (split; [apply R12; assumption | reflexivity]).
Qed.

Lemma pres_K14 s ac s' : Inv s -> Inv2 s -> step current s ac = Some s' -> forall a, pcm s' a = PRet -> jexpm s' a = true.
Proof.
  intros I I2 H a0 P. start3 I I2 H.
  all: mid.
  all: try (apply R14; assumption).
Qed.

Lemma pres_K15 s ac s' : Inv s -> Inv2 s -> step current s ac = Some s' -> forall a, jpcs (pcm s' a) = true -> joinedm s' (jcm s' a) = true.
Proof.
  intros I I2 H a0 P. start3 I I2 H.
  all: mid.
  all: try (apply R15; pcs; reflexivity).
Qed.

Lemma pres_K16 s ac s' : Inv s -> Inv2 s -> step current s ac = Some s' -> forall c, fin (pcm s' c) = false -> ipktm s' c = false /\ panm s' c = None.
Proof.
  intros I I2 H c0 P. start3 I I2 H.
  all: mid.
  all: try solve [apply R16; pcs; auto].
  all: try (match goal with P : fin (pcm ?s ?c) = false, X : fin3 (pcm ?s ?c) = true |- _ => rewrite (fin3_fin _ X) in P; discriminate end).
  all: try (match goal with e : jcm ?s ?a = ?a, E : pcm ?s ?a = _ |- _ => rewrite e in *; destruct (R16 a) as [G1 G2]; [rewrite E; reflexivity|]; rewrite ?G1, ?G2; auto end).
Qed.

Lemma inv2_init : Inv2 init.
Proof. constructor; cbn; intros; try discriminate; try tauto; try lia; auto. Qed.

Lemma inv2_step s ac s' : Inv s -> Inv2 s -> step current s ac = Some s' -> Inv2 s'.
Proof.
  intros I I2 H. constructor.
  - eapply pres_K1; eauto.
  - eapply pres_K2; eauto.
  - eapply pres_K3; eauto.
  - eapply pres_K4; eauto.
  - eapply pres_K5; eauto.
  - eapply pres_K6; eauto.
  - eapply pres_K7; eauto.
  - eapply pres_K8; eauto.
  - eapply pres_K9; eauto.
  - eapply pres_K10; eauto.
  - eapply pres_K10b; eauto.
  - eapply pres_K11; eauto.
  - eapply pres_K12; eauto.
  - eapply pres_K13; eauto.
  - eapply pres_K14; eauto.
  - eapply pres_K15; eauto.
  - eapply pres_K16; eauto.
Qed.

Theorem inv2_reach s : Reach current s -> Inv s /\ Inv2 s.
Proof.
  induction 1 as [|s a s' R [I I2] H]; [split; [apply inv_init | apply inv2_init]|].
  split; [eapply inv_step; eauto | eapply inv2_step; eauto].
Qed.
