(* Every transition of the CURRENT code's model preserves the safety invariant of ScopeInv.v; hence
   theorem scope_not_left_early: in every reachable state, a child whose scope has been left is done. *)
From Coq Require Import List Arith Bool Lia.
Import ListNotations.
Require Import MayV.Rt.ScopeModel MayV.Rt.ScopeInv.

Ltac facts I :=
  pose proof (J1 _ I) as Q1; pose proof (J2 _ I) as Q2; pose proof (J3 _ I) as Q3; pose proof (J4 _ I) as Q4;
  pose proof (J5 _ I) as Q5; pose proof (J6 _ I) as Q6; pose proof (J7 _ I) as Q7; pose proof (J8 _ I) as Q8;
  pose proof (J10 _ I) as Q10.

(* a task that is at some control point exists: its id is below nexta *)
Ltac known :=
  repeat match goal with
  | Q8 : forall a, nexta ?s <= a -> pcm ?s a = PNone, E : pcm ?s ?a = ?p |- _ =>
      lazymatch goal with _ : a < nexta s |- _ => fail | _ => idtac end;
      lazymatch p with PNone => fail | _ => idtac end;
      assert (a < nexta s) by (let L := fresh in destruct (le_lt_dec (nexta s) a) as [L|L]; [rewrite (Q8 a L) in E; discriminate | exact L])
  end.
(* everything the invariant says about a child c / its parent a *)
Ltac child c a P :=
  match goal with
  | Q6 : forall c a, parentm ?s c = Some a -> _ |- _ => let F := fresh "F6" in pose proof (Q6 c a P) as F
  end.
Ltac pcs := repeat match goal with E : pcm ?s ?a = _ |- _ => rewrite E in *; clear E end.
Ltac start I H := facts I; step_cases H; simp; bools; known.

Lemma pres_J8 s ac s' : Inv s -> step current s ac = Some s' -> forall a, nexta s' <= a -> pcm s' a = PNone.
Proof.
  intros I H a0 L. start I H.
  all: upds; simp; try (apply Q8; lia); try lia.
Qed.

Lemma pres_J6 s ac s' : Inv s -> step current s ac = Some s' -> forall c a, parentm s' c = Some a -> c < nexta s' /\ a < nexta s'.
Proof.
  intros I H c0 a0 P. start I H.
  all: upds; simp; try (inversion P; subst); try (specialize (Q6 _ _ P)); try lia.
Qed.

Lemma pres_J10 s ac s' : Inv s -> step current s ac = Some s' -> forall a d x, In x (frm s' a d) -> parentm s' x = Some a.
Proof.
  intros I H a0 d0 x0 P. start I H.
  all: upds; simp; cbn [In] in *; eauto; try tauto.
  all: try (match goal with P : In ?x (frm ?s ?a ?d) |- _ => pose proof (Q6 _ _ (Q10 _ _ _ P)); lia end).
  all: try (match goal with E : frm ?s ?a ?d = _ :: _ |- _ => apply (Q10 a d); rewrite E; cbn [In]; tauto end).
  all: try (destruct P as [P|P]; [lia | eauto]).
Qed.

(* the child being joined exists *)
Ltac jc_known :=
  repeat match goal with
  | Q7 : forall a, jpcs (pcm ?s a) = true -> parentm ?s (jcm ?s a) = Some a, Q6 : forall c a, parentm ?s c = Some a -> _, P : pcm ?s ?a = ?p |- _ =>
      lazymatch goal with _ : parentm s (jcm s a) = Some a |- _ => fail | _ => idtac end;
      let X := fresh "X7" in
      assert (X : parentm s (jcm s a) = Some a) by (apply Q7; rewrite P; reflexivity);
      pose proof (Q6 _ _ X)
  end.

Lemma pres_J7 s ac s' : Inv s -> step current s ac = Some s' -> forall a, jpcs (pcm s' a) = true -> parentm s' (jcm s' a) = Some a.
Proof.
  intros I H a0 P. start I H.
  all: upds; simp; dm; try discriminate; try (apply Q7; pcs; reflexivity); eauto.
  all: try (match goal with P : jpcs (pcm ?s ?a) = true |- _ => pose proof (Q6 _ _ (Q7 _ P)); try lia end).
  all: try (match goal with E : frm ?s ?a ?d = ?x :: _ |- _ => apply (Q10 a d); rewrite E; cbn [In]; tauto end).
Qed.

Lemma pres_J5 s ac s' : Inv s -> step current s ac = Some s' -> forall a, kindm s' a = KCo -> waitset (pcm s' a) = true -> 1 <= dism s' a.
Proof.
  intros I H a0 K P. start I H.
  all: upds; simp; try rewrite K in *; simp; dm; simp; try discriminate; try lia; try (apply Q5; [assumption | pcs; reflexivity]); eauto.
Qed.

Lemma pres_J4 s ac s' : Inv s -> step current s ac = Some s' -> forall a, pcm s' a = PW3 -> jstm s' (jcm s' a) = false.
Proof.
  intros I H a0 P. start I H.
  all: upds; simp; dm; simp; try discriminate; try lia; try (apply Q4; assumption); eauto.
  all: jc_known; try lia.
Qed.

Lemma pres_J3 s ac s' : Inv s -> step current s ac = Some s' -> forall c, cleftm s' c = true -> jstm s' c = false.
Proof.
  intros I H c0 P. start I H.
  all: upds; simp; dm; simp; try discriminate; try lia; try (apply Q3; assumption); eauto.
  all: try (apply orb_prop in P; destruct P as [P|P]; [apply Q3; assumption|]; bools; try discriminate).
  all: try (match goal with E : parentm ?s ?c = Some ?a |- jstm ?s ?c = false =>
            destruct (cleftm s c) eqn:CL; [apply Q3; assumption|];
            destruct (Q1 _ _ E CL) as [LT [D|[D|[D1 D2]]]];
            [ repeat match goal with E : _ = _ |- _ => rewrite E in D end; destruct D | assumption | pcs; discriminate ] end).
Qed.

Ltac nodis :=
  match goal with
  | H : is_co (kindm ?s ?a) = true, Z : dism ?s ?a = 0, Q5 : forall a, kindm ?s a = KCo -> _, E : pcm ?s ?a = _ |- _ =>
      let K := fresh in
      assert (K : kindm s a = KCo) by (destruct (kindm s a); [discriminate|reflexivity]);
      specialize (Q5 a K); rewrite E in Q5; specialize (Q5 eq_refl); lia
  end.
Ltac headchild :=
  match goal with
  | Q10 : forall a d x, In x (frm ?s a d) -> parentm ?s x = Some a, E : frm ?s ?a ?d = ?x :: _ |- _ =>
      lazymatch goal with _ : parentm s x = Some a |- _ => fail | _ => idtac end;
      let X := fresh "X10" in assert (X : parentm s x = Some a) by (apply (Q10 a d); rewrite E; cbn [In]; tauto)
  end.

Lemma pres_J2 s ac s' : Inv s -> step current s ac = Some s' ->
  forall c a, parentm s' c = Some a -> joinedm s' c = true -> jstm s' c = false \/ injoin s' a c.
Proof.
  intros I H c0 a0 P JD. unfold injoin. start I H; try nodis; try headchild.
  all: upds; simp; dm; simp; try discriminate; try lia.
  all: try (inversion P; subst).
  all: try (match goal with P : parentm ?s ?c = Some ?a |- _ => pose proof (Q6 _ _ P) end); try lia.
  all: try (match goal with P : parentm ?s ?c = Some ?a, JD : joinedm ?s ?c = true |- _ =>
              destruct (Q2 _ _ P JD) as [D|[D1 D2]]; [left; assumption | pcs; simp; try discriminate ] end).
  all: try solve [intuition (auto; try congruence; try lia)].
Qed.

Ltac headdone :=
  match goal with
  | X : parentm ?s ?x = Some ?a, J : joinedm ?s ?x = true, E : pcm ?s ?a = PDrop,
    Q2 : forall c a, parentm ?s c = Some a -> joinedm ?s c = true -> _ |- _ =>
      let D := fresh "HD" in
      assert (D : jstm s x = false) by (let D1 := fresh in let D2 := fresh in
        destruct (Q2 _ _ X J) as [D1|[D1 D2]]; [exact D1 | rewrite E in D1; discriminate])
  end.

Lemma pres_J1 s ac s' : Inv s -> step current s ac = Some s' ->
  forall c a, parentm s' c = Some a -> cleftm s' c = false ->
    cdepthm s' c < depthm s' a /\ (In c (frm s' a (cdepthm s' c)) \/ jstm s' c = false \/ injoin s' a c).
Proof.
  intros I H c0 a0 P CL. unfold injoin. start I H; try nodis; try headchild; try headdone.
  all: upds; simp; dm; simp; try discriminate; try lia.
  all: try (inversion P; subst).
  all: try (apply orb_false_elim in CL; destruct CL as [CL CL2]).
  all: try (match goal with P : parentm ?s ?c = Some ?a |- _ => pose proof (Q6 _ _ P) end); try lia.
  all: try (match goal with P : parentm ?s ?c = Some ?a, CL : cleftm ?s ?c = false |- _ =>
              destruct (Q1 _ _ P CL) as [LT [D|[D|[D1 D2]]]]; pcs; simp; try discriminate end).
  all: try (match goal with P : parentm ?s ?c = Some ?a, C2 : onat_eqb (parentm ?s ?c) ?a && true = false |- _ =>
              rewrite P in C2; cbn [onat_eqb] in C2; rewrite Nat.eqb_refl in C2; discriminate end).
  all: cbn [In].
  all: try solve [intuition (auto; try congruence; try lia)].
  all: try (match goal with D : In _ (frm ?s ?a ?d), E : frm ?s ?a ?d = _ :: _ |- _ => rewrite E in D; destruct D as [D|D]; subst end).
  all: try solve [intuition (auto; try congruence; try lia)].
Qed.

Lemma inv_init : Inv init.
Proof.
  constructor; cbn; intros; try discriminate; try tauto; try lia; auto.
Qed.

Lemma inv_step s ac s' : Inv s -> step current s ac = Some s' -> Inv s'.
Proof.
  intros I H. constructor.
  - eapply pres_J1; eauto.
  - eapply pres_J2; eauto.
  - eapply pres_J3; eauto.
  - eapply pres_J4; eauto.
  - eapply pres_J5; eauto.
  - eapply pres_J6; eauto.
  - eapply pres_J7; eauto.
  - eapply pres_J8; eauto.
  - eapply pres_J10; eauto.
Qed.

Theorem inv_reach s : Reach current s -> Inv s.
Proof. induction 1; [apply inv_init | eapply inv_step; eauto]. Qed.

(* C14, safety core: the owner has left a scope (normally or by unwinding) only if every coroutine spawned in
   it has finished - any number of tasks, any nesting, any schedule, cancel / panic of owners at any point *)
Theorem scope_not_left_early s : Reach current s -> forall c, scope_left s c -> done s c.
Proof. intros R c L. exact (J3 _ (inv_reach _ R) c L). Qed.
