(* Preservation of the owner's clauses of the CqueueModel invariant (handles, join of a consumed Done event, the locals of
   check_panic, cancel-disable balance). *)
From Coq Require Import List Arith Bool ZArith Lia.
Import ListNotations.
Require Import MayV.Rt.CqueueModel MayV.Rt.CqueueInv MayV.Rt.CqueueTac.

Lemma pres_S_sel s ac s' : Inv s -> step current s ac = Some s' ->
  forall a, a < nexta s' ->
    if adding (opc s') && Nat.eqb (S a) (nexta s') then sel s' a = false /\ dpop s' a = 0 else sel s' a = Nat.eqb (dpop s' a) 0.
Proof.
  intros I H a0 L. pose proof (S_sel _ I a0) as Q. start I H.
  all: simp; pcs; try (exact (Q L)).
  all: upds; simp; pcs; fin.
  all: try (destruct (QAnew a0) as (? & ? & ? & ?); [lia|]; fin; split; fin).
  all: try (assert (L' : a0 < nexta s) by lia; specialize (Q L'); fin).
Qed.

Lemma pres_D_join s ac s' : Inv s -> step current s ac = Some s' ->
  forall a, dpop s' a = 1 -> jst s' a = false \/ (cjoin (opc s') = true /\ ocur s' = a).
Proof.
  intros I H a0. pose proof (D_join _ I a0) as Q. pose proof (A_dp _ I) as QD. pose proof (A_jst _ I) as QJ. start I H.
  all: simp; pcs; try exact Q.
  all: upds; simp; pcs; fin.
  all: intros P; try (specialize (Q P)); fin.
  all: try (destruct Q as [Q|[Q1 Q2]]; fin; auto; subst; auto; fail).
  all: try (destruct (QD a0); lia).
Qed.

Lemma pres_O_chk s ac s' : Inv s -> step current s ac = Some s' -> cpcs (opc s') = true -> dpop s' (ocur s') = 1.
Proof.
  intros I H. pose proof (O_chk _ I) as Q. start I H.
  all: simp; pcs; try exact Q; fin.
  all: upds; simp; pcs; fin.
Qed.

Lemma pres_O_chk2 s ac s' : Inv s -> step current s ac = Some s' ->
  cres (opc s') = true -> jst s' (ocur s') = false /\ ojres s' = ares s' (ocur s').
Proof.
  intros I H. pose proof (O_chk2 _ I) as Q. pose proof (A_jst _ I) as QJ. start I H.
  all: simp; pcs; try exact Q; fin.
  all: upds; simp; pcs; fin.
  all: intros X; try (destruct (Q X) as [J R]); try (destruct (Q eq_refl) as [J R]); try (split; congruence).
  all: try (rewrite QJ in J; pcs; discriminate).
Qed.

Lemma pres_O_c3 s ac s' : Inv s -> step current s ac = Some s' -> opc s' = C3 -> ispan s' = false /\ exists p, ojres s' = RPanic p.
Proof.
  intros I H. pose proof (O_c3 _ I) as Q. start I H.
  all: simp; pcs; try exact Q; fin.
  intros _. split; [assumption | eauto].
Qed.

Lemma pres_O_co s ac s' : Inv s -> step current s ac = Some s' -> copcs (opc s') = true -> oco s' = true.
Proof.
  intros I H. pose proof (O_co _ I) as Q. start I H.
  all: simp; pcs; try exact Q; fin.
Qed.

Lemma pres_O_dis s ac s' : Inv s -> step current s ac = Some s' ->
  odis s' = if oco s' then (if cdis1 (opc s') then 1 else 0) + (if negb (Nat.eqb (ofin s') 0) && drainset (opc s') then 1 else 0) else 0.
Proof.
  intros I H. pose proof (O_dis _ I) as Q. pose proof (O_fin _ I) as QF. pose proof (O_co _ I) as QC. start I H.
  all: simp; pcs; try exact Q; fin.
  all: try (specialize (QC eq_refl)).
  all: destruct QF as (F1 & F2 & F3); destruct (ofin s) as [|[|[|?]]] eqn:EF; cbn [Nat.eqb negb andb Nat.add] in *.
  all: destruct (oco s) eqn:OC; try (destruct co); fin.
Qed.
