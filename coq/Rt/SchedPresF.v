(* Preservation of FInv: blockers that were not created yet are not referenced. *)
From Coq Require Import List Arith ZArith Bool Lia.
Import ListNotations.
Require Import MayV.Rt.SchedModel MayV.Rt.SchedInv MayV.Rt.SchedTac.

Ltac dag := repeat match goal with a : ag |- _ => destruct a end.
Ltac fin1 F1 F2 F3 F4 :=
  intros; sst; upds; sco;
  try match goal with H : _ \/ _ |- _ => destruct H end;
  try discriminate;
  try match goal with H : Some _ = Some _ |- _ => inversion H; subst; clear H end;
  try match goal with H : CT3 _ = CT3 _ |- _ => inversion H; subst; clear H end;
  try match goal with H : PT3 _ = PT3 _ |- _ => inversion H; subst; clear H end;
  try match goal with H : In _ (_ ++ [_]) |- _ => apply in_snoc in H; destruct H; subst end;
  try match goal with H : In _ (rm1 _ _) |- _ => apply in_rm1 in H end;
 try match goal with H : In ?w (punp _), K : nextb _ <= ?w |- _ => apply F2 in H; lia end;
  first [ solve [eauto] | solve [apply F1; lia] 
        | solve [eapply F2; eauto] | solve [eapply F3; eauto] | solve [eapply F4; eauto]
        | solve [apply Nat.lt_lt_succ_r; eauto] | lia | idtac ].

Lemma finv_step s a s' : FInv s -> step s a = Some s' -> FInv s'.
Proof.
  intros (F1 & F2 & F3 & F4) H. destruct a.
  all: step_inv H.
  all: unfold FInv, take_wake, park_ret, call_of in *.
  all: dag.
  all: try match goal with q : qid |- _ => destruct q end.
  all: bools.
  all: repeat match goal with |- context [match ?x with _ => _ end] => destruct x eqn:? end.
  all: sst.
  all: try solve [repeat split; sst; auto].
  all: repeat split.
  all: fin1 F1 F2 F3 F4.

Qed.
