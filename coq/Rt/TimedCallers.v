(* C08 (callers) - the timed APIs on top of park: models only (definitions; proofs in TimedCallersThm.v,
   TimedCallersBound.v, TimedChainThm.v).

   Part DL (this file): ONE caller of a timed API and its environment, with the park primitive abstract.
     kinds of caller
       KRem     the code of  mpsc::Receiver::recv_timeout / recv_max_until  (src/sync/mpsc.rs)  and of
                Cqueue::poll(Some(timeout))  (src/cqueue.rs)  since fix 3916da2:
                deadline = Instant::now() + timeout  once,  remaining = timeout,
                loop { try; register; re-check; park(Some(remaining)); [try;]
                       now = Instant::now(); if now >= deadline {Timeout}; remaining = deadline.saturating_duration_since(now) }
       KFull    the code BEFORE fix 3916da2: every iteration parks for the FULL timeout, not for what is left of it
                (finding F35)
       KRecomp  the slip "deadline recomputed from now() in every iteration"
       KSingle  one park(Some(d)) and its verdict: Semphore / SyncFlag / Condvar ::wait_timeout (SyncBlocker
                handshake after the park), mpmc recv_timeout (= Semphore::wait_timeout), Blocker::park(Some(d))
     the abstract park  (contract = what C02 proves for a fresh Park / for ThreadPark, and C08_timer for liveness):
       entered at clock tp with argument x it is armed with [arm x] (coroutine: AtomicDuration's [armed];
       thread: [Some x]);  it returns Ok whenever the token is set (an unparker, or a spurious cause: action
       [Unpark] may happen at any time), it returns Timeout ONLY when [tp + a <= now], and that return is ENABLED
       as soon as [tp + a <= now] (the timer thread is live: C08_timer_quiescent_wakes_in_time,
       C02_park_past_deadline_not_stuck).
     time: [now] (ns, Z) moves only by [Tick dt]; every clock read of the code is its own transition, so time may
       pass between any two steps.  Ghost [delay]: the part of the elapsed time that is NOT waiting for the own
       timer: all time that passes while the caller is not parked (it was descheduled, the lock was taken, ...)
       and all time that passes in a park after its armed deadline (timer thread / scheduler late).

   Part CH (TimedChain.v): the chain  park_timeout(Some d) -> AtomicDuration -> timer entry -> fire -> verdict,
   and sleep(d). *)
From Coq Require Import ZArith List Bool Lia.
Import ListNotations.
Require Import MayV.Rt.AtomicDur.
Open Scope Z_scope.

Inductive kind := KFull | KRem | KRecomp | KSingle.
Inductive verdict := VOk | VTimeout.
Inductive result := ROk | RDisc | RTimeout.

Inductive pc :=
| Idle
| Try0                 (* optimistic try_recv / try_wait / is_fired before anything else *)
| ReadDl               (* let deadline = Instant::now() + timeout *)
| Top                  (* loop head: new Blocker, to_wake.store, re-check of the queue *)
| Enter                (* Blocker::park(dur): token already set => Ok at once *)
| Parked
| After (v : verdict)  (* park returned v: [try_recv again] / SyncBlocker handshake *)
| Chk                  (* now = Instant::now(); if now >= deadline { return Timeout }; remaining = deadline - now *)
| Ret (r : result).

Record st := mk {
  now : Z;            (* the clock *)
  pcs : pc;
  dur : Z;            (* the timeout argument of the call in progress *)
  dl : Z;             (* local: deadline *)
  rem : Z;            (* local (KRem): remaining *)
  tp : Z;             (* clock at the entry of the current park *)
  ar : option Z;      (* what the current park is armed with *)
  tok : bool;         (* wake-up token of the current Blocker *)
  q : nat;            (* items in the channel / event queue *)
  gone : bool;        (* all senders gone / all select coroutines done *)
  (* ghost *)
  tcall : Z;          (* clock at the call *)
  delay : Z;
  nsp : nat;          (* parks of this call that returned Ok without data (spurious for the caller) *)
  obs : bool;         (* `Instant::now() >= deadline` was observed true *)
  res : option (result * Z * Z)   (* last return: result, clock, delay of that call *)
}.

Definition set_pcs (v : pc) (s : st) : st :=
  mk (now s) (v) (dur s) (dl s) (rem s) (tp s) (ar s) (tok s) (q s) (gone s) (tcall s) (delay s) (nsp s) (obs s) (res s).
Definition set_time (t dly : Z) (s : st) : st :=
  mk (t) (pcs s) (dur s) (dl s) (rem s) (tp s) (ar s) (tok s) (q s) (gone s) (tcall s) (dly) (nsp s) (obs s) (res s).
Definition set_dl (v : Z) (s : st) : st :=
  mk (now s) (pcs s) (dur s) (v) (rem s) (tp s) (ar s) (tok s) (q s) (gone s) (tcall s) (delay s) (nsp s) (obs s) (res s).
Definition set_rem (v : Z) (s : st) : st :=
  mk (now s) (pcs s) (dur s) (dl s) (v) (tp s) (ar s) (tok s) (q s) (gone s) (tcall s) (delay s) (nsp s) (obs s) (res s).
Definition set_park (t : Z) (a : option Z) (s : st) : st :=
  mk (now s) (pcs s) (dur s) (dl s) (rem s) (t) (a) (tok s) (q s) (gone s) (tcall s) (delay s) (nsp s) (obs s) (res s).
Definition set_tok (v : bool) (s : st) : st :=
  mk (now s) (pcs s) (dur s) (dl s) (rem s) (tp s) (ar s) (v) (q s) (gone s) (tcall s) (delay s) (nsp s) (obs s) (res s).
Definition set_q (v : nat) (s : st) : st :=
  mk (now s) (pcs s) (dur s) (dl s) (rem s) (tp s) (ar s) (tok s) (v) (gone s) (tcall s) (delay s) (nsp s) (obs s) (res s).
Definition set_gone (v : bool) (s : st) : st :=
  mk (now s) (pcs s) (dur s) (dl s) (rem s) (tp s) (ar s) (tok s) (q s) (v) (tcall s) (delay s) (nsp s) (obs s) (res s).
Definition set_nsp (v : nat) (s : st) : st :=
  mk (now s) (pcs s) (dur s) (dl s) (rem s) (tp s) (ar s) (tok s) (q s) (gone s) (tcall s) (delay s) (v) (obs s) (res s).
Definition set_obs (v : bool) (s : st) : st :=
  mk (now s) (pcs s) (dur s) (dl s) (rem s) (tp s) (ar s) (tok s) (q s) (gone s) (tcall s) (delay s) (nsp s) (v) (res s).
Definition set_res (v : option (result * Z * Z)) (s : st) : st :=
  mk (now s) (pcs s) (dur s) (dl s) (rem s) (tp s) (ar s) (tok s) (q s) (gone s) (tcall s) (delay s) (nsp s) (obs s) (v).
Definition start_call (d : Z) (s : st) : st :=
  mk (now s) (pcs s) (d) (dl s) (rem s) (tp s) (ar s) (tok s) (q s) (gone s) (now s) (0) (0%nat) (false) (None).

Definition init : st := mk 0 Idle 0 0 0 0 None false 0%nat false 0 0 0%nat false None.

Inductive act :=
| Tick (dt : Z)        (* time passes *)
| Send                 (* a message / event is pushed *)
| Drop                 (* last sender dropped / last select coroutine done *)
| Unpark               (* somebody unparks the caller's current Blocker (after a push, or for no reason) *)
| Call (d : Z)         (* the caller starts a timed call with timeout d *)
| Step (to : bool).    (* the caller's next step; in a park: to = true is the Timeout return, false the Ok return *)

Section Model.
Variable K : kind.
Variable retry : bool.           (* mpsc: try_recv before the deadline is read and again after every park; cqueue: no *)
Variable arm : Z -> option Z.    (* what park(Some x) is armed with *)

Definition is_single := match K with KSingle => true | _ => false end.
Definition first_pc := if retry || is_single then Try0 else ReadDl.

(* the part of a tick that is waiting for the own timer *)
Definition free_of (s : st) (dt : Z) : Z :=
  match pcs s with
  | Parked => match ar s with
              | Some a => Z.max 0 (Z.min (now s + dt) (tp s + a) - now s)
              | None => dt
              end
  | _ => 0
  end.

(* try_recv / pop: data -> Ok, nobody left -> Disconnected / Finished, else go on at [next] *)
Definition try (s : st) (next : pc) : st :=
  match q s with
  | S n => set_pcs (Ret ROk) (set_q n s)
  | O => if gone s then set_pcs (Ret RDisc) s else set_pcs next s
  end.

Definition park_arg (s : st) : Z := match K with KRem => rem s | _ => dur s end.

Definition cstep (s : st) (to : bool) : option st :=
  match pcs s with
  | Idle => None
  | Try0 => Some (try s (if is_single then Top else ReadDl))
  | ReadDl => Some (set_pcs Top (set_rem (dur s) (set_dl (now s + dur s) s)))
  | Top =>
      let s1 := match K with KRecomp => set_dl (now s + dur s) s | _ => s end in
      Some (try (set_tok false s1) Enter)
  | Enter =>
      if tok s then Some (set_pcs (After VOk) (set_tok false s))
      else Some (set_pcs Parked (set_park (now s) (arm (park_arg s)) s))
  | Parked =>
      if to then
        match ar s with
        | Some a => if tp s + a <=? now s then Some (set_pcs (After VTimeout) (set_tok false s)) else None
        | None => None
        end
      else if tok s then Some (set_pcs (After VOk) (set_tok false s)) else None
  | After v =>
      if is_single then Some (set_pcs (Ret (match v with VOk => ROk | VTimeout => RTimeout end)) s)
      else
        let s1 := match v with VOk => set_nsp (S (nsp s)) s | VTimeout => s end in
        if retry then
          match q s with
          | S n => Some (set_pcs (Ret ROk) (set_q n s))
          | O => if gone s then Some (set_pcs (Ret RDisc) s) else Some (set_pcs Chk s1)
          end
        else Some (set_pcs Chk s1)
  | Chk => if dl s <=? now s then Some (set_pcs (Ret RTimeout) (set_obs true s))
           else Some (set_pcs Top (set_rem (Z.max 0 (dl s - now s)) s))
  | Ret r => Some (set_pcs Idle (set_res (Some (r, now s, delay s)) s))
  end.

Definition step (s : st) (a : act) : option st :=
  match a with
  | Tick dt => if dt <? 0 then None else Some (set_time (now s + dt) (delay s + (dt - free_of s dt)) s)
  | Send => Some (set_q (S (q s)) s)
  | Drop => Some (set_gone true s)
  | Unpark => Some (set_tok true s)
  | Call d => match pcs s with
              | Idle => if d <? 0 then None else Some (set_pcs first_pc (start_call d s))
              | _ => None
              end
  | Step to => cstep s to
  end.

Inductive Reach : st -> Prop :=
| R0 : Reach init
| RS s a s' : Reach s -> step s a = Some s' -> Reach s'.

Fixpoint run (s : st) (l : list act) : option st :=
  match l with
  | [] => Some s
  | a :: l' => match step s a with Some s' => run s' l' | None => None end
  end.

Definition in_call (s : st) : Prop := pcs s <> Idle.
(* no step of the caller is enabled *)
Definition Quiescent (s : st) : Prop := forall to, cstep s to = None.

(* what is left of the free waiting time of the current park *)
Definition slack (s : st) : Z :=
  match pcs s with
  | Parked => match ar s with Some a => Z.max 0 (tp s + a - now s) | None => 0 end
  | _ => 0
  end.

(* ------------------------------------------------------------------------------------------------ *)
(* The virtual-clock schedule of the harness as a function of the model: time passes only when the     *)
(* caller has no enabled step; scripted environment events (absolute times) are delivered when the     *)
(* clock reaches them.  Used by the differential runs (d_timed): the REAL recv_timeout / poll / ...    *)
(* is driven with the same script and must return the same (result, time).                             *)
(* ------------------------------------------------------------------------------------------------ *)

(* event kinds: 1 = message (Send; Unpark)   2 = wake-up without data (Unpark)   3 = disconnect (Drop; Unpark)
   4 = message without its wake-up (Send): the sender is descheduled between the push and the unpark *)
Definition deliver (s : st) (k : Z) : st :=
  if k =? 1 then set_tok true (set_q (S (q s)) s)
  else if k =? 2 then set_tok true s
  else if k =? 3 then set_tok true (set_gone true s)
  else if k =? 4 then set_q (S (q s)) s
  else s.

(* [pol]: both the caller and a due event can move at the same virtual instant; all orders are legal runs:
   0 = a due event is delivered before the caller moves,  1 = the own timer, when due, goes first,
   2 = a due event is delivered only when the caller has no enabled step,
   3 = a due event is delivered when the caller is parked (before its timer, even if that is due too) *)
Definition cnext (s : st) : option st :=
  match cstep s false with Some s' => Some s' | None => cstep s true end.

Fixpoint sim (fuel : nat) (pol : nat) (s : st) (evs : list (Z * Z)) : option (result * Z) :=
  match fuel with
  | O => None
  | S f =>
    match pcs s with
    | Idle => match res s with Some (r, t, _) => Some (r, t) | None => None end
    | _ =>
      let timer_due := match pcs s, ar s with Parked, Some a => tp s + a <=? now s | _, _ => false end in
      match evs with
      | (t, k) :: evs' =>
          let due := t <=? now s in
          let first := match pol with
                       | O => true
                       | S O => negb timer_due
                       | S (S O) => match cnext s with Some _ => false | None => true end
                       | _ => match pcs s with Parked => true | _ => false end
                       end in
          if due && first then sim f pol (deliver s k) evs'
          else
            match cnext s with
            | Some s' => sim f pol s' evs
            | None =>
                (* nothing enabled: let time pass until the next event or the armed deadline *)
                let tnext := match ar s with Some a => Z.min t (tp s + a) | None => t end in
                match step s (Tick (tnext - now s)) with Some s' => sim f pol s' evs | None => None end
            end
      | [] =>
          match cnext s with
          | Some s' => sim f pol s' evs
          | None =>
              match ar s with
              | Some a => match step s (Tick (tp s + a - now s)) with Some s' => sim f pol s' evs | None => None end
              | None => None     (* parked for ever *)
              end
          end
      end
    end
  end.

End Model.

Fixpoint pairs (l : list Z) : list (Z * Z) :=
  match l with
  | t :: k :: l' => (t, k) :: pairs l'
  | _ => []
  end.

Definition res_code (r : result) : Z := match r with ROk => 0 | RTimeout => 1 | RDisc => 2 end.

(* differential interface:  [api; ctx; t0; d; observed result; observed return time; t1; k1; t2; k2; ...]  =>  [result; return time]
   api: 0 = mpsc recv_timeout (KRem, retry)   1 = Cqueue::poll (KRem, no retry)   2 = single park (sem / flag /
        mpmc / condvar / Blocker::park)   3 = sleep   20/21 = the KFull variants of 0/1 (the code before fix 3916da2)
   ctx: 0 = coroutine (armed by AtomicDuration; sleep: exact)   1 = thread (ThreadPark / thread::sleep: exact)
   t0:  clock at the call; events carry absolute times, sorted.
   -1 as result = the model never returns (parked without a timer).  When an event lands at the very instant at which
   the caller can move, several orders are legal runs (policies 0 .. 3 of [sim]).  The answer equals the observation
   iff the model has a run under the virtual-clock schedule with the same result whose return time is the observed one
   or up to 100 us earlier (see [spin_tol]); otherwise the answer is the model's own (result, time). *)
Definition spin_tol := 100000.

Definition tc_run (l : list Z) : list Z :=
  match l with
  | api :: ctx :: t0 :: d :: ob :: obt :: evl =>
      let K := if (api =? 20) || (api =? 21) then KFull else if (api =? 2) || (api =? 3) then KSingle else KRem in
      let retry := (api =? 0) || (api =? 20) in
      let arm := if (ctx =? 0) && negb (api =? 3) then armed else (fun x => Some x) in
      let s0 := set_time t0 0 init in
      match step K retry arm s0 (Call d) with
      | None => [-2]
      | Some s1 =>
          let out r := match r with Some (r, t) => [res_code r; t] | None => [-1] end in
          let go pol := sim K retry arm 400 pol s1 (pairs evl) in
          (* the observation is explained by a run of the model: same result, and the observed return time is the model's
             or at most [spin_tol] later (a spin-wait of the runtime - wait_kernel, a lock - costs virtual time in the
             harness when every runnable thread spins: a delay in the sense of the ghost [delay], never an early return) *)
          let ok r := match r with Some (r, t) => (res_code r =? ob) && (t <=? obt) && (obt <=? t + spin_tol) | None => false end in
          if ok (go 0%nat) || ok (go 1%nat) || ok (go 2%nat) || ok (go 3%nat) then [ob; obt]
          else out (go 0%nat)
      end
  | _ => [-3]
  end.
