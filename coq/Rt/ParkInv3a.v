(* C02 - Inv3 is preserved: actions AU *)
From Coq Require Import List ZArith Bool Arith Lia.
Import ListNotations.
Require Import MayV.Rt.AtomicDur MayV.Base.BlockerSpec MayV.Rt.ParkModel MayV.Rt.ParkTac MayV.Rt.ParkInv1 MayV.Rt.ParkInv2 MayV.Rt.ParkInv3Def.
Open Scope Z_scope.

Lemma inv3_AU s s' : Inv1 s -> Inv2 s -> Inv3 s -> stepF s AU = Some s' -> Inv3 s'.
Proof. intro3. step3 Ipl H. Qed.

