(* C08.iii - trace acceptor for the timer-thread model.

   One recorded event `[code; actor; obj; val]` of the REAL may::verif::TimerThread (scenario s_timerthread, binding
   coq/Rt/timerthread_sites.json) is matched with one transition of the model (control point, observed value), or is
   a pure observation.  Three things of the real execution are NOT recorded and are therefore derived:

   * park / unpark of the timer thread (crate::verif::thread::{park, park_timeout}, Thread::unpark are not logged):
     under the baton scheduler a thread runs from the end of one hooked operation to the beginning of the next
     without interruption, so `unpark` is executed together with the `wakeup.take()` that returned Some (A8 / R4 / TU
     follow their take at once), and `now()`, the heap peek / push and `park` follow the timer thread's previous
     event at once (the silent closure `tsilent`).  A parked timer thread that is unparked is woken at once (the
     harness makes it runnable and stores no token); a park that times out ends when the clock reaches the wake
     time - which the acceptor learns from the next logged clock value (`timeout_due`), from the timer thread's
     next event (`timeout_wake`), or not at all before an unpark arrives (both orders are kept: `unpark_by`).
   * the virtual clock: the scenario logs it with its API events only (add.call / del.call / fire / now).  Between
     two logged values the clock can advance unseen (an injected stall, or the polling quantum of the harness), so
     the model clock is a LOWER BOUND of the virtual clock, exact at every logged value.  A deadline that the code
     treats as due tells that the clock had reached it (`raise_to`, using the model's TClock action); a deadline that
     it treats as not due is consistent with any lower bound.  Where the model clock cannot decide, both outcomes are
     kept and the next event prunes the wrong one.
   * the heap (it lives under a mutex that is not hooked): which of several minimal heap entries a pop takes, and when
     an adder that found the heap mutex held by the timer thread (between its pop and its `in_use.store(0)`) finally
     pushes (`push_branch`).

   All three are resolved by carrying a SET of candidate model states: every candidate is a reachable model state
   (accept_all_reach), an event prunes the candidates that cannot take it, the trace is rejected when no candidate
   is left.  With the hooks asked for in the work-package report (thread.park / thread.wake / thread.unpark events
   and the clock in every record) the candidate sets collapse to single states. *)
From Coq Require Import List Arith NArith ZArith Bool Lia.
Import ListNotations.
Require Import MayV.Rt.TimerThread MayV.Rt.TimerThreadInv.

Definition M := st -> list st.
Definition ret : M := fun s => [s].
Definition fail : M := fun _ => [].
Definition doA (x : action) : M := fun s => match step false s x with Some s' => [s'] | None => [] end.
Definition guard (b : st -> bool) : M := fun s => if b s then [s] else [].
Definition bnd (m1 m2 : M) : M := fun s => flat_map m2 (m1 s).
Definition alt (m1 m2 : M) : M := fun s => m1 s ++ m2 s.
Definition ife (b : st -> bool) (m1 m2 : M) : M := fun s => if b s then m1 s else m2 s.
Infix ">>" := bnd (at level 60, right associativity).

Definition tpc_is (p : tpc_t) (s : st) : bool := if tpc_t_eq_dec (tpc s) p then true else false.
Definition apc_is (a : nat) (p : apc_t) (s : st) : bool := if apc_t_eq_dec (apc (A s a)) p then true else false.
Definition rpc_is (r : nat) (p : rpc_t) (s : st) : bool := if rpc_t_eq_dec (rpc (R s r)) p then true else false.
Definition znz (v : Z) : bool := negb (Z.eqb v 0).

(* the clock of the model is a LOWER BOUND of the virtual clock (exact at every logged clock value).  When the
   code treats a deadline d as due, the clock had reached d when the timer thread read it: the model catches up *)
Definition raise_to (d : N) : M := fun s =>
  ((if (now s <? d)%N then doA (Tick (d - now s)) else ret) >>
   (fun s1 => if (tnow s1 <? d)%N then doA (TClock d) s1 else [s1])) s.
(* nothing is due: the sleep time is computed; for the wake time to be a lower bound too, the clock reading is
   taken as late as the observations allow (not beyond the clock, below the aim) *)
Definition settle : M := fun s =>
  match hmin (heap s) with
  | Some t => let v := N.min (now s) (t - 1) in if (tnow s <? v)%N then doA (TClock v) s else [s]
  | None => [s]
  end.

(* the timer thread's steps that leave no record *)
Fixpoint tsilent (fuel : nat) : M := fun s =>
  match fuel with
  | O => [s]
  | S k =>
      match tpc s with
      | TU | TN | SH | PK => (doA (TStep 0) >> tsilent k) s
      | SK => (if none_due (tnow s) (heap s) then (settle >> doA (TStep 0) >> tsilent k) s else []) ++
              flat_map (fun x => (raise_to (fst x) >> doA (TStep (snd x)) >> tsilent k) s) (heap s)
      | _ => [s]
      end
  end.

(* an unpark finds the timer thread parked: it runs again *)
Definition wake_if_parked : M := fun s =>
  match tpc s with W => if tok s then doA (TStep 0) s else [s] | _ => [s] end.

(* the timer thread's next event arrives while the model has it parked: the park timed out *)
Definition timeout_wake : M := fun s =>
  match tpc s with
  | W => match twake s with
         | Some t => ((if (now s <? t)%N then doA (Tick (t - now s)) else ret) >> doA (TStep 0)) s
         | None => []
         end
  | _ => [s]
  end.

(* the park had already timed out when the unpark came (the timer thread was runnable, or stalled, and has not
   produced an event since): the unpark leaves a token behind *)
Definition early_timeout : M := fun s =>
  match tpc s, twake s with
  | W, Some t => if tok s then [] else ((if (now s <? t)%N then doA (Tick (t - now s)) else ret) >> doA (TStep 0)) s
  | _, _ => []
  end.
Definition unpark_by (u : M) : M := fun s => (u >> wake_if_parked) s ++ (early_timeout >> u) s.
(* a logged clock value at or past the wake time: the harness has made the parked timer thread runnable *)
Definition timeout_due : M := fun s =>
  match tpc s, twake s with
  | W, Some t => if negb (tok s) && (t <=? now s)%N then doA (TStep 0) s else [s]
  | _, _ => [s]
  end.

(* Entry::remove on an entry that is gone touches nothing shared *)
Definition dr_silent : M := fun s =>
  match tpc s with DR => if has_id (thid s) (lst s (thL s)) then [] else doA (TStep 0) s | _ => [s] end.

(* adders whose heap push was held up by the heap mutex *)
Fixpoint push_branch (acts : list nat) : M :=
  match acts with
  | [] => ret
  | a :: r => (fun s => if apc_is a A6 s && negb (tpc_is SI s) then (ret s) ++ (doA (AStep a) s) else [s]) >> push_branch r
  end.
Definition push_force (a : nat) : M := fun s => if apc_is a A6 s then doA (AStep a) s else [s].

(* the clock as logged by the scenario *)
Definition clock (v : Z) : M := fun s =>
  let t := Z.to_N v in
  ((fun s => if (now s <? t)%N then doA (Tick (t - now s)) s else if (now s =? t)%N then [s] else []) >> timeout_due) s.

Definition nat_of (z : Z) : nat := Z.to_nat z.

Fixpoint lookup (o : Z) (l : list (Z * N)) : option N :=
  match l with [] => None | (o', L) :: r => if Z.eqb o o' then Some L else lookup o r end.
Fixpoint rlookup (L : N) (l : list (Z * N)) : option Z :=
  match l with [] => None | (o', L') :: r => if N.eqb L L' then Some o' else rlookup L r end.
Definition bound_to (o : Z) (L : N) (l : list (Z * N)) : bool :=
  match lookup o l with Some L' => N.eqb L L' | None => false end.

Fixpoint find_handle (i : nat) (l : list (N * nat)) : option N :=
  match l with [] => None | (L, i') :: r => if Nat.eqb i i' then Some L else find_handle i r end.

Local Open Scope Z_scope.

(* one event of the timer thread on one candidate *)
Definition tev (hb ib : list (Z * N)) (acts : list nat) (code obj val : Z) : M :=
  let T := doA (TStep 0) in
  let pre := push_branch acts >> timeout_wake in
  let pre' := pre >> dr_silent in
  match code with
  | 24 => pre' >> guard (tpc_is D1) >> T >> guard (fun s => Bool.eqb (tpc_is DR s) (znz val))
  | 25 => pre' >> ife (tpc_is D2) T (guard (tpc_is TE) >> T >> tsilent 12)
  | 26 => pre' >> guard (tpc_is D3) >> T >> guard (fun s => Bool.eqb (tpc_is DR s) (znz val))
  | 27 => pre >> guard (tpc_is DR)
  | 39 => pre >> guard (fun s => tpc_is DR s && has_id (thid s) (lst s (thL s))) >> T >>
          guard (fun s => Bool.eqb (tpc_is DR2 s) (znz val))
  | 40 => pre >> guard (tpc_is DR2) >> T
  | 16 => pre' >> guard (tpc_is TS) >> T
  | 28 => pre' >> guard (tpc_is TE)
  | 17 => pre' >> guard (fun s => tpc_is TT s && Bool.eqb (slot s) (znz val)) >> T >> tsilent 12
  | 11 => pre' >> guard (fun s => tpc_is SI s && bound_to obj (tL s) ib) >> T
  | 36 => pre' >> guard (fun s => tpc_is P1 s && bound_to obj (tL s) hb) >> T
  | 37 => pre' >> guard (tpc_is P2) >>
          guard (fun s => match lst s (tL s) with e :: _ => Bool.eqb (elk e) (znz val) | [] => false end) >>
          (fun s => match lst s (tL s) with
                    | e :: _ => if elk e
                                then (if (tnow s <? edl e)%N then T s else []) ++ (raise_to (edl e) >> T) s
                                else T s
                    | [] => []
                    end)
  | 38 => pre' >> guard (tpc_is P3) >> T
  | 5 => pre' >> guard (fun s => tpc_is PF s && Nat.eqb (eid (tcur s)) (nat_of obj)) >> clock val >> T
  | 34 => pre' >> guard (fun s => (tpc_is K1 s || tpc_is K3 s) && bound_to obj (tL s) hb) >> T
  | 35 => pre' >> guard (fun s => tpc_is K2 s || tpc_is K4 s) >>
          guard (fun s => match lst s (tL s) with e :: _ => Bool.eqb (elk e) (znz val) | [] => false end) >> T >> tsilent 12
  | 12 => pre' >> guard (fun s => tpc_is F1 s && bound_to obj (tL s) ib && Z.eqb (Z.of_nat (inuse s (tL s))) val) >> T >> tsilent 12
  | 13 => pre' >> guard (fun s => tpc_is F2 s && bound_to obj (tL s) ib && Z.eqb (Z.of_nat (inuse s (tL s))) val) >> T >> tsilent 12
  | 33 => pre' >> guard (fun s => tpc_is E1 s && bound_to obj (tL s) hb) >> T >> tsilent 12
  | _ => fail
  end.

(* one event of an adder / remover thread `a` on one candidate *)
Definition uev (hb ib : list (Z * N)) (a : nat) (code obj val : Z) : M :=
  let SA := doA (AStep a) in
  let SR := doA (RStep a) in
  match code with
  | 1 => guard (fun s => apc_is a AIdle s && rpc_is a RIdle s) >> clock val >>
         doA (Add a (Z.to_N (obj / 1024)) (nat_of (obj mod 1024)))
  | 30 => guard (fun s => apc_is a A2 s && bound_to obj (aiv (A s a)) hb) >> SA
  | 31 => guard (apc_is a A3) >> SA
  | 32 => guard (apc_is a A4) >> SA
  | 10 => guard (fun s => apc_is a A5 s && bound_to obj (aiv (A s a)) ib && Z.eqb (Z.of_nat (inuse s (aiv (A s a)))) val) >> SA >>
          (fun s => if tpc_is SI s then [s] else push_force a s)
  | 14 => push_force a >> guard (fun s => apc_is a A7 s && Bool.eqb (slot s) (znz val)) >> SA >>
          (fun s => if apc_is a A8 s then unpark_by SA s else [s])
  | 2 => guard (fun s => apc_is a AIdle s && Nat.eqb (aid (A s a)) (nat_of obj))
  | 3 => guard (fun s => apc_is a AIdle s && rpc_is a RIdle s) >> clock val >>
         (fun s => match find_handle (nat_of obj) (handles s) with Some L => doA (Del a L (nat_of obj)) s | None => [] end)
  | 20 => guard (rpc_is a R1)
  | 21 => guard (rpc_is a R1) >> (if znz val then SR else ret)
  | 22 => guard (rpc_is a R2)
  | 23 => guard (rpc_is a R2) >> SR
  | 15 => guard (fun s => rpc_is a R3 s && Bool.eqb (slot s) (znz val)) >> SR >>
          (fun s => if rpc_is a R4 s then unpark_by SR s else [s])
  | 4 => guard (rpc_is a RIdle)
  | 6 => clock val
  | _ => fail
  end.

Definition is_timer_code (code : Z) : bool :=
  match code with
  | 24 | 25 | 26 | 27 | 39 | 40 | 16 | 28 | 17 | 11 | 36 | 37 | 38 | 5 | 34 | 35 | 12 | 13 | 33 => true
  | _ => false
  end.

Record acc := { cands : list st; hb : list (Z * N); ib : list (Z * N); tm : Z; acts : list nat }.
Definition ainit : acc := {| cands := [init]; hb := []; ib := []; tm := 0; acts := [] |}.

(* an object is bound to its list at the first push / install of that list; a list has one head and one counter *)
Definition bind (o : Z) (L : N) (l : list (Z * N)) : option (list (Z * N)) :=
  match lookup o l, rlookup L l with
  | None, None => Some ((o, L) :: l)
  | Some L', Some o' => if N.eqb L L' && Z.eqb o o' then Some l else None
  | _, _ => None
  end.

Definition accept_ev (a : acc) (e : list Z) : option acc :=
  match e with
  | [code; actor; obj; val] =>
      if is_timer_code code then
        if (tm a =? 0) || (tm a =? actor) then
          match flat_map (tev (hb a) (ib a) (acts a) code obj val) (cands a) with
          | [] => None
          | c => Some {| cands := c; hb := hb a; ib := ib a; tm := actor; acts := acts a |}
          end
        else None
      else if tm a =? actor then None else
        let an := nat_of actor in
        let s0 := hd init (cands a) in
        let acts' := if existsb (Nat.eqb an) (acts a) then acts a else an :: acts a in
        let hb' := if code =? 30 then bind obj (aiv (A s0 an)) (hb a) else Some (hb a) in
        let ib' := if code =? 10 then bind obj (aiv (A s0 an)) (ib a) else Some (ib a) in
        match hb', ib' with
        | Some h, Some i =>
            match flat_map (uev h i an code obj val) (cands a) with
            | [] => None
            | c => Some {| cands := c; hb := h; ib := i; tm := tm a; acts := acts' |}
            end
        | _, _ => None
        end
  | _ => None
  end.

Fixpoint accept_all (a : acc) (tr : list (list Z)) : option acc :=
  match tr with
  | [] => Some a
  | e :: l => match accept_ev a e with Some a' => accept_all a' l | None => None end
  end.

Local Close Scope Z_scope.

(* run-time monitors on the final candidates: the conclusions of theorems (a) and (d), which can never trip on a
   reachable state, evaluated on the lists the trace has touched *)
Definition wakes_by_b (s : st) (e : entry) : bool :=
  match twake s with Some t => (t <=? eeff e + tlag s)%N | None => false end.
Definition final_ok (a : acc) (s : st) : bool :=
  if tpc_is W s && negb (tok s) && forallb (fun x => apc_is x AIdle s && rpc_is x RIdle s) (acts a)
  then match rq s with [] => true | _ => false end &&
       forallb (fun ol => forallb (wakes_by_b s) (lst s (snd ol))) (hb a)
  else true.
Definition monitors_ok (a : acc) : bool :=
  match cands a with [] => false | _ => forallb (final_ok a) (cands a) end.

(* ---- soundness: every candidate along an accepted trace is a reachable state of the model ------------------ *)
Definition okM (m : M) : Prop := forall s, ReachF s -> Forall ReachF (m s).

Lemma ok_ret : okM ret. Proof. intros s R. constructor; auto. Qed.
Lemma ok_fail : okM fail. Proof. intros s R. constructor. Qed.
Lemma ok_doA x : okM (doA x).
Proof. intros s R. unfold doA. destruct (step false s x) eqn:E; constructor; auto. eapply RS; eauto. Qed.
Lemma ok_guard b : okM (guard b).
Proof. intros s R. unfold guard. destruct (b s); constructor; auto. Qed.
Lemma ok_bnd m1 m2 : okM m1 -> okM m2 -> okM (m1 >> m2).
Proof.
  intros H1 H2 s R. unfold bnd. specialize (H1 s R). induction (m1 s) as [|y l IHl]; cbn; [constructor|].
  inversion H1; subst. apply Forall_app. split; auto.
Qed.
Lemma ok_ife b m1 m2 : okM m1 -> okM m2 -> okM (ife b m1 m2).
Proof. intros H1 H2 s R. unfold ife. destruct (b s); auto. Qed.
Lemma ok_if (b : bool) m1 m2 : okM m1 -> okM m2 -> okM (if b then m1 else m2).
Proof. destruct b; auto. Qed.
Lemma ok_fun_if (b : st -> bool) m1 m2 : okM m1 -> okM m2 -> okM (fun s => if b s then m1 s else m2 s).
Proof. intros H1 H2 s R. destruct (b s); auto. Qed.
Lemma ok_flat {X} (f : X -> M) (g : st -> list X) : (forall c, okM (f c)) -> okM (fun s => flat_map (fun c => f c s) (g s)).
Proof.
  intros Hf s R. induction (g s) as [|c l IHl]; cbn; [constructor|]. apply Forall_app. split; auto. apply Hf; auto.
Qed.

Lemma ok_raise_to d : okM (raise_to d).
Proof.
  intros s R. unfold raise_to.
  apply (ok_bnd (if (now s <? d)%N then doA (Tick (d - now s)) else ret)
                (fun s1 => if (tnow s1 <? d)%N then doA (TClock d) s1 else [s1])); auto.
  - destruct (now s <? d)%N; auto using ok_doA, ok_ret.
  - intros s1 R1. destruct (tnow s1 <? d)%N; [apply ok_doA; auto | constructor; auto].
Qed.
Lemma ok_settle : okM settle.
Proof.
  intros s R. unfold settle. destruct (hmin (heap s)); [|constructor; auto].
  cbv zeta. destruct (tnow s <? N.min (now s) (n - 1))%N; [apply ok_doA; auto | constructor; auto].
Qed.
Lemma ok_tsilent k : okM (tsilent k).
Proof.
  induction k as [|k IH]; intros s R; cbn [tsilent]; [constructor; auto|].
  assert (K : okM (doA (TStep 0) >> tsilent k)) by (apply ok_bnd; [apply ok_doA | exact IH]).
  destruct (tpc s); try (constructor; auto; fail); try (apply K; auto).
  apply Forall_app. split.
  - destruct (none_due (tnow s) (heap s)); [|constructor].
    apply (ok_bnd settle (doA (TStep 0) >> tsilent k)); auto using ok_settle.
  - apply (ok_flat (fun x => raise_to (fst x) >> doA (TStep (snd x)) >> tsilent k) (fun s => heap s)); auto.
    intros x. apply ok_bnd; [apply ok_raise_to | apply ok_bnd; [apply ok_doA | exact IH]].
Qed.
Lemma ok_wake_if_parked : okM wake_if_parked.
Proof. intros s R. unfold wake_if_parked. destruct (tpc s); try (constructor; auto; fail). destruct (tok s); [apply ok_doA; auto | constructor; auto]. Qed.
Lemma ok_timeout_wake : okM timeout_wake.
Proof.
  intros s R. unfold timeout_wake. destruct (tpc s); try (constructor; auto; fail).
  destruct (twake s); [|constructor].
  apply (ok_bnd (if (now s <? n)%N then doA (Tick (n - now s)) else ret) (doA (TStep 0))); auto using ok_doA.
  destruct (now s <? n)%N; auto using ok_doA, ok_ret.
Qed.
Lemma ok_dr_silent : okM dr_silent.
Proof.
  intros s R. unfold dr_silent. destruct (tpc s); try (constructor; auto; fail).
  destruct (has_id (thid s) (lst s (thL s))); [constructor | apply ok_doA; auto].
Qed.
Lemma ok_push_branch l : okM (push_branch l).
Proof.
  induction l as [|a l IH]; cbn [push_branch]; [apply ok_ret|]. apply ok_bnd; auto.
  intros s R. destruct (apc_is a A6 s && negb (tpc_is SI s)); [|constructor; auto].
  apply Forall_app. split; [apply ok_ret | apply ok_doA]; auto.
Qed.
Lemma ok_push_force a : okM (push_force a).
Proof. intros s R. unfold push_force. destruct (apc_is a A6 s); [apply ok_doA; auto | constructor; auto]. Qed.
Lemma ok_timeout_due : okM timeout_due.
Proof.
  intros s R. unfold timeout_due. destruct (tpc s); try (constructor; auto; fail).
  destruct (twake s); [|constructor; auto]. destruct (negb (tok s) && (n <=? now s)%N); [apply ok_doA; auto | constructor; auto].
Qed.
Lemma ok_clock v : okM (clock v).
Proof.
  intros s R. unfold clock. cbv zeta.
  apply (ok_bnd (fun s => if (now s <? Z.to_N v)%N then doA (Tick (Z.to_N v - now s)) s else if (now s =? Z.to_N v)%N then [s] else []) timeout_due); auto using ok_timeout_due.
  intros s1 R1. destruct (now s1 <? Z.to_N v)%N; [apply ok_doA; auto|].
  destruct (now s1 =? Z.to_N v)%N; constructor; auto.
Qed.
Lemma ok_early_timeout : okM early_timeout.
Proof.
  intros s R. unfold early_timeout. destruct (tpc s); try constructor. destruct (twake s); [|constructor].
  destruct (tok s); [constructor|].
  apply (ok_bnd (if (now s <? n)%N then doA (Tick (n - now s)) else ret) (doA (TStep 0))); auto using ok_doA.
  destruct (now s <? n)%N; auto using ok_doA, ok_ret.
Qed.
Lemma ok_unpark_by u : okM u -> okM (unpark_by u).
Proof.
  intros Hu s R. unfold unpark_by. apply Forall_app. split.
  - apply (ok_bnd u wake_if_parked); auto. apply ok_wake_if_parked.
  - apply (ok_bnd early_timeout u); auto. apply ok_early_timeout.
Qed.

Ltac okt :=
  repeat first
    [ apply ok_tsilent | apply ok_raise_to | apply ok_unpark_by | apply ok_wake_if_parked | apply ok_timeout_wake | apply ok_dr_silent
    | apply ok_push_branch | apply ok_push_force | apply ok_clock
    | apply ok_guard | apply ok_doA | apply ok_ret | apply ok_fail
    | apply ok_bnd | apply ok_ife | apply ok_if | apply ok_fun_if ].

Lemma ok_tev hb ib acts code obj val : okM (tev hb ib acts code obj val).
Proof.
  unfold tev; cbv zeta.
  repeat match goal with |- okM (match ?c with _ => _ end) => destruct c end; okt.
  all: intros s R; destruct (lst s (tL s)) as [|e l]; [constructor|]; destruct (elk e); [|apply ok_doA; auto].
  all: apply Forall_app; split; [destruct (tnow s <? edl e)%N; [apply ok_doA; auto | constructor] |].
  all: apply (ok_bnd (raise_to (edl e)) (doA (TStep 0))); auto using ok_raise_to, ok_doA.
Qed.

Lemma ok_uev hb ib a code obj val : okM (uev hb ib a code obj val).
Proof.
  unfold uev; cbv zeta.
  repeat match goal with |- okM (match ?c with _ => _ end) => destruct c end; okt.
  all: intros s R; destruct (find_handle (nat_of obj) (handles s)); [apply ok_doA; auto | constructor].
Qed.

Lemma flat_ok (m : M) l : okM m -> Forall ReachF l -> Forall ReachF (flat_map m l).
Proof.
  intros Hm Hl. induction l as [|y l IHl]; cbn; [constructor|]. inversion Hl; subst.
  apply Forall_app. split; auto.
Qed.

Lemma accept_ev_reach a e a' : Forall ReachF (cands a) -> accept_ev a e = Some a' -> Forall ReachF (cands a').
Proof.
  intros HR H. unfold accept_ev in H.
  destruct e as [|code [|actor [|obj [|val [|]]]]]; try discriminate.
  destruct (is_timer_code code).
  - destruct ((tm a =? 0)%Z || (tm a =? actor)%Z); [|discriminate].
    destruct (flat_map _ (cands a)) eqn:E; [discriminate|]. inversion H; subst. cbn. rewrite <- E.
    apply flat_ok; auto. apply ok_tev.
  - destruct (tm a =? actor)%Z; [discriminate|].
    destruct (if (code =? 30)%Z then _ else _) as [h|]; [|discriminate].
    destruct (if (code =? 10)%Z then _ else _) as [i|]; [|discriminate].
    destruct (flat_map _ (cands a)) eqn:E; [discriminate|]. inversion H; subst. cbn. rewrite <- E.
    apply flat_ok; auto. apply ok_uev.
Qed.

(* every candidate state along an accepted trace of the implementation is a reachable state of the model *)
Theorem accept_all_reach tr : forall a a', Forall ReachF (cands a) -> accept_all a tr = Some a' -> Forall ReachF (cands a').
Proof.
  induction tr as [|e l IH]; cbn [accept_all]; intros a a' R H; [inversion H; subst; exact R|].
  destruct (accept_ev a e) as [a1|] eqn:E; [|discriminate]. eapply IH; [eapply accept_ev_reach; eauto | exact H].
Qed.

Corollary accepted_from_init tr a' : accept_all ainit tr = Some a' -> Forall ReachF (cands a').
Proof. apply accept_all_reach. cbn. constructor; [apply R0 | constructor]. Qed.
