(* C08.iii - preservation of group H (the heap and the in_use protocol) *)
From Coq Require Import List Arith NArith Bool Lia Sorting.Sorted.
Import ListNotations.
Require Import MayV.Rt.TimerThread MayV.Rt.TimerThreadInv MayV.Rt.TimerThreadTac MayV.Rt.TimerThreadPresB.
Local Open Scope N_scope.

(* the effect of one step on the heap / in_use / claims *)
Inductive heff (s : st) (x : action) (s' : st) : Prop :=
  | HE_none : heap s' = heap s -> (forall L, inuse s' L = inuse s L) ->
      (forall L a, claimA s' L a <-> claimA s L a) -> (forall L, claimT s' L <-> claimT s L) ->
      (forall L, limbo s' L <-> limbo s L) -> heff s x s'
  | HE_incA a L : x = AStep a -> apc (A s a) = A5 -> aiv (A s a) = L -> heap s' = heap s ->
      inuse s' = updN (inuse s) L (S (inuse s L)) ->
      (forall L' b, claimA s' L' b <-> (claimA s L' b \/ (b = a /\ L' = L /\ inuse s L = O))) ->
      (forall L, claimT s' L <-> claimT s L) -> (forall L, limbo s' L <-> limbo s L) -> heff s x s'
  | HE_pushA a L : x = AStep a -> claimA s L a -> heap s' = (adl (A s a), L) :: heap s ->
      (forall L, inuse s' L = inuse s L) ->
      (forall L' b, claimA s' L' b <-> (claimA s L' b /\ b <> a)) ->
      (forall L, claimT s' L <-> claimT s L) -> (forall L, limbo s' L <-> limbo s L) -> heff s x s'
  | HE_pop c t : x = TStep c -> tpc s = SK -> hfind c (heap s) = Some t -> heap s' = hdel c (heap s) ->
      (forall L, inuse s' L = inuse s L) -> (forall L a, claimA s' L a <-> claimA s L a) ->
      (forall L, ~ claimT s' L) -> (forall L, limbo s' L <-> L = c) -> heff s x s'
  | HE_reset c : x = TStep c -> tpc s = SI -> heap s' = heap s -> inuse s' = updN (inuse s) (tL s) O ->
      (forall L a, claimA s' L a <-> claimA s L a) ->
      (forall L, ~ claimT s' L) -> (forall L, ~ limbo s' L) -> heff s x s'
  | HE_incT c : x = TStep c -> (tpc s = F1 \/ tpc s = F2) -> heap s' = heap s ->
      inuse s' = updN (inuse s) (tL s) (S (inuse s (tL s))) ->
      (forall L a, claimA s' L a <-> claimA s L a) ->
      (forall L, claimT s' L <-> (L = tL s /\ inuse s (tL s) = O)) -> (forall L, ~ limbo s' L) -> heff s x s'
  | HE_pushT c : x = TStep c -> tpc s = SH -> heap s' = (ttm s, tL s) :: heap s ->
      (forall L, inuse s' L = inuse s L) -> (forall L a, claimA s' L a <-> claimA s L a) ->
      (forall L, ~ claimT s' L) -> (forall L, ~ limbo s' L) -> heff s x s'.

Ltac same_claimA a :=
  let L := fresh "L" in let b := fresh "b" in
  intros L b; unfold claimA; cbn; case_actor b a; cbn; split; intros [? ?]; split; congruence.
Ltac no_claimT := let L := fresh "L" in intros L; unfold claimT, limbo; cbn;
  try match goal with E : tpc _ = _ |- _ => rewrite ?E end; cbn; split; intros [? ?]; try discriminate; try congruence; split; congruence.

Lemma step_heff s x s' : stepF s x = Some s' -> heff s x s'.
Proof.
  intros H. step_cases H.
  all: try (apply HE_none; [reflexivity | reflexivity | first [same_claimA a | tauto] | first [no_claimT | tauto] | first [no_claimT | tauto] ]; fail).
  - (* A5, free *) eapply (HE_incA _ _ _ a); eauto; cbn; try tauto.
    + now rewrite Heqn.
    + intros L' b. unfold claimA. cbn. case_actor b a; cbn.
      * split; [intros [_ E]; right; auto | intros [[E _]|(_ & -> & _)]; [congruence | auto]].
      * split; [tauto | intros [E|(E & _)]; [tauto | congruence]].
  - (* A5, taken *) eapply (HE_incA _ _ _ a); eauto; cbn; try tauto.
    + now rewrite Heqn.
    + intros L' b. unfold claimA. cbn. case_actor b a; cbn.
      * split; [intros [E _]; discriminate | intros [[E _]|(_ & _ & E)]; congruence].
      * split; [tauto | intros [E|(E & _)]; [tauto | congruence]].
  - (* A6 *) eapply (HE_pushA _ _ _ a); eauto; cbn; try tauto.
    + split; auto.
    + intros L' b. unfold claimA. cbn. case_actor b a; cbn.
      * split; [intros [E _]; discriminate | tauto].
      * tauto.
  - (* SK pop *) eapply HE_pop; eauto; cbn; try tauto.
    + intros L [E _]. discriminate.
    + intros L. unfold limbo. cbn. split; [intros [_ E]; auto | auto].
  - (* SI *) eapply HE_reset; eauto; cbn; try tauto.
    + intros L [E _]. discriminate.
    + intros L [E _]. discriminate.
  - (* F1 free *) eapply HE_incT; eauto; cbn; try tauto.
    + now rewrite Heqn.
    + intros L. unfold claimT. cbn. split; [intros [_ E]; auto | intros [E _]; auto].
    + intros L [E _]. discriminate.
  - (* F1 taken *) eapply HE_incT; eauto; cbn; try tauto.
    + now rewrite Heqn.
    + intros L. unfold claimT. cbn. split; [intros [E _]; discriminate | intros [_ E]; congruence].
    + intros L [E _]. discriminate.
  - (* SH *) eapply HE_pushT; eauto; cbn; try tauto.
    + intros L [E _]. discriminate.
    + intros L [E _]. discriminate.
  - (* F2 free *) eapply HE_incT; eauto; cbn; try tauto.
    + now rewrite Heqn.
    + intros L. unfold claimT. cbn. split; [intros [_ E]; auto | intros [E _]; auto].
    + intros L [E _]. discriminate.
  - (* F2 taken *) eapply HE_incT; eauto; cbn; try tauto.
    + now rewrite Heqn.
    + intros L. unfold claimT. cbn. split; [intros [E _]; discriminate | intros [_ E]; congruence].
    + intros L [E _]. discriminate.
Qed.

Lemma claimA_aiv s L L' a : claimA s L a -> claimA s L' a -> L = L'.
Proof. intros [_ E] [_ E']. congruence. Qed.
Lemma claimT_tl s L : claimT s L -> tL s = L /\ claimT_pc (tpc s) = true.
Proof. intros [E E']. auto. Qed.
Lemma notin_heap s L : ~ inheap s L -> ~ In L (map snd (heap s)).
Proof. intros N I. apply in_map_iff in I as ([t L'] & E & I). cbn in E. subst. apply N. exists t. exact I. Qed.

Section PresH.
Variables (s : st) (x : action) (s' : st).
Hypothesis HB : InvB s.
Hypothesis HH : InvH s.
Hypothesis H : stepF s x = Some s'.

Lemma presH_nodup : NoDup (map snd (heap s')).
Proof.
  pose proof (H_nodup _ HH) as ND.
  destruct (step_heff _ _ _ H) as [Eh _ _ _ _|a L _ _ _ Eh _ _ _ _|a L _ CA Eh _ _ _ _|c t _ EP EF Eh _ _ _ _|c _ EP Eh _ _ _ _|c _ EP Eh _ _ _ _|c _ EP Eh _ _ _ _];
    rewrite Eh; auto.
  - cbn. constructor; auto. apply notin_heap. intro IH'. destruct (H_heap_x _ HH L IH') as (NA & _). apply (NA a CA).
  - now apply hdel_nodup.
  - cbn. constructor; auto. apply notin_heap. intro IH'.
    destruct (H_heap_x _ HH _ IH') as (_ & NT & _). apply NT. split; auto. now rewrite EP.
Qed.

Lemma presH_zero : forall L, inuse s' L = O -> ~ inheap s' L /\ (forall a, ~ claimA s' L a) /\ ~ claimT s' L /\ ~ limbo s' L.
Proof.
  intros L. unfold inheap.
  destruct (step_heff _ _ _ H) as [Eh Ei CA CT CL|a L0 _ EPa EL Eh Ei CA CT CL|a L0 _ CAa Eh Ei CA CT CL|c t _ EP EF Eh Ei CA CT CL|c _ EP Eh Ei CA CT CL|c _ EP Eh Ei CA CT CL|c _ EP Eh Ei CA CT CL].
  - rewrite Ei, Eh. intros Z. destruct (H_zero _ HH L Z) as (Z1 & Z2 & Z3 & Z4).
    refine (conj Z1 (conj _ (conj _ _))); [intros a; rewrite CA; auto | rewrite CT; auto | rewrite CL; auto].
  - rewrite Ei, Eh. case_list L L0; [discriminate|]. intros Z. destruct (H_zero _ HH L Z) as (Z1 & Z2 & Z3 & Z4).
    refine (conj Z1 (conj _ (conj _ _))); [|rewrite CT; auto | rewrite CL; auto].
    intros b. rewrite CA. intros [C|(_ & E & _)]; [apply (Z2 _ C) | congruence].
  - rewrite Ei, Eh. intros Z. destruct (H_zero _ HH L Z) as (Z1 & Z2 & Z3 & Z4).
    assert (L <> L0) by (intros ->; apply (Z2 _ CAa)).
    refine (conj _ (conj _ (conj _ _))); [|intros b; rewrite CA; intros [C _]; apply (Z2 _ C) | rewrite CT; auto | rewrite CL; auto].
    intros (t & [[= _ E]|I]); [congruence | apply Z1; exists t; exact I].
  - rewrite Ei, Eh. intros Z. destruct (H_zero _ HH L Z) as (Z1 & Z2 & Z3 & Z4).
    refine (conj _ (conj _ (conj (CT L) _))); [|intros b; rewrite CA; auto | rewrite CL].
    + intros (t' & I). apply Z1. exists t'. eapply in_hdel; eauto.
    + intros ->. apply Z1. exists t. now apply hfind_In.
  - rewrite Ei, Eh. assert (HL : limbo s (tL s)) by (split; auto).
    case_list L (tL s).
    + intros _. refine (conj _ (conj _ (conj (CT _) (CL _)))).
      * intros IH'. apply (H_heap_x _ HH _ IH'). exact HL.
      * intros b. rewrite CA. intros C. apply (H_claim_x _ HH _ _ C). exact HL.
    + intros Z. destruct (H_zero _ HH L Z) as (Z1 & Z2 & Z3 & Z4).
      refine (conj Z1 (conj _ (conj (CT _) (CL _)))). intros b; rewrite CA; auto.
  - rewrite Ei, Eh. case_list L (tL s); [discriminate|]. intros Z. destruct (H_zero _ HH L Z) as (Z1 & Z2 & Z3 & Z4).
    refine (conj Z1 (conj _ (conj _ (CL _)))); [intros b; rewrite CA; auto | rewrite CT; tauto].
  - rewrite Ei, Eh. intros Z. destruct (H_zero _ HH L Z) as (Z1 & Z2 & Z3 & Z4).
    assert (L <> tL s) by (intros ->; apply Z3; split; auto; now rewrite EP).
    refine (conj _ (conj _ (conj (CT _) (CL _)))); [|intros b; rewrite CA; auto].
    intros (t & [[= _ E]|I]); [congruence | apply Z1; exists t; exact I].
Qed.

Lemma presH_pos : forall L, inuse s' L <> O -> inheap s' L \/ (exists a, claimA s' L a) \/ claimT s' L \/ limbo s' L.
Proof.
  intros L. unfold inheap.
  destruct (step_heff _ _ _ H) as [Eh Ei CA CT CL|a L0 _ EPa EL Eh Ei CA CT CL|a L0 _ CAa Eh Ei CA CT CL|c t _ EP EF Eh Ei CA CT CL|c _ EP Eh Ei CA CT CL|c _ EP Eh Ei CA CT CL|c _ EP Eh Ei CA CT CL].
  - rewrite Ei, Eh. intros Z. destruct (H_pos _ HH L Z) as [P|[(b & P)|[P|P]]];
      [left; auto | right; left; exists b; now apply CA | right; right; left; now apply CT | right; right; right; now apply CL].
  - rewrite Ei, Eh. case_list L L0.
    + intros _. destruct (inuse s L0) eqn:EI.
      * right; left. exists a. apply CA. right. auto.
      * assert (Z : inuse s L0 <> O) by congruence.
        destruct (H_pos _ HH L0 Z) as [P|[(b & P)|[P|P]]];
          [left; auto | right; left; exists b; apply CA; now left | right; right; left; now apply CT | right; right; right; now apply CL].
    + intros Z. destruct (H_pos _ HH L Z) as [P|[(b & P)|[P|P]]];
        [left; auto | right; left; exists b; apply CA; now left | right; right; left; now apply CT | right; right; right; now apply CL].
  - rewrite Ei, Eh. intros Z. destruct (H_pos _ HH L Z) as [(t & P)|[(b & P)|[P|P]]].
    + left. exists t. now right.
    + destruct (Nat.eq_dec b a) as [->|Nb].
      * left. rewrite (claimA_aiv _ _ _ _ P CAa). eexists. now left.
      * right; left. exists b. apply CA. auto.
    + right; right; left. now apply CT.
    + right; right; right. now apply CL.
  - rewrite Ei, Eh. intros Z. destruct (H_pos _ HH L Z) as [(t' & P)|[(b & P)|[P|P]]].
    + case_list L c; [right; right; right; now apply CL | left; exists t'; now apply in_hdel_other].
    + right; left. exists b. now apply CA.
    + destruct P as [P _]. rewrite EP in P. discriminate.
    + destruct P as [P _]. congruence.
  - rewrite Ei, Eh. case_list L (tL s); [congruence|].
    intros Z. destruct (H_pos _ HH L Z) as [P|[(b & P)|[P|P]]].
    + now left.
    + right; left. exists b. now apply CA.
    + destruct P as [P _]. rewrite EP in P. discriminate.
    + destruct P as [_ P]. congruence.
  - rewrite Ei, Eh. case_list L (tL s).
    + intros _. destruct (inuse s (tL s)) eqn:EI.
      * right; right; left. apply CT. auto.
      * assert (Z : inuse s (tL s) <> O) by congruence.
        destruct (H_pos _ HH _ Z) as [P|[(b & P)|[P|P]]].
        -- now left.
        -- right; left. exists b. now apply CA.
        -- destruct P as [P _]. destruct EP as [EP|EP]; rewrite EP in P; discriminate.
        -- destruct P as [P _]. destruct EP; congruence.
    + intros Z. destruct (H_pos _ HH L Z) as [P|[(b & P)|[P|P]]].
      * now left.
      * right; left. exists b. now apply CA.
      * destruct P as [P _]. destruct EP as [EP|EP]; rewrite EP in P; discriminate.
      * destruct P as [P _]. destruct EP; congruence.
  - rewrite Ei, Eh. intros Z. destruct (H_pos _ HH L Z) as [(t & P)|[(b & P)|[P|P]]].
    + left. exists t. now right.
    + right; left. exists b. now apply CA.
    + left. destruct P as [_ <-]. eexists. now left.
    + destruct P as [P _]. congruence.
Qed.

Lemma presH_heap_x : forall L, inheap s' L -> (forall a, ~ claimA s' L a) /\ ~ claimT s' L /\ ~ limbo s' L.
Proof.
  intros L. unfold inheap.
  destruct (step_heff _ _ _ H) as [Eh Ei CA CT CL|a L0 _ EPa EL Eh Ei CA CT CL|a L0 _ CAa Eh Ei CA CT CL|c t _ EP EF Eh Ei CA CT CL|c _ EP Eh Ei CA CT CL|c _ EP Eh Ei CA CT CL|c _ EP Eh Ei CA CT CL];
    rewrite Eh.
  - intros IH'. destruct (H_heap_x _ HH L IH') as (X1 & X2 & X3).
    refine (conj _ (conj _ _)); [intros a; rewrite CA; auto | rewrite CT; auto | rewrite CL; auto].
  - intros IH'. destruct (H_heap_x _ HH L IH') as (X1 & X2 & X3).
    refine (conj _ (conj _ _)); [|rewrite CT; auto | rewrite CL; auto].
    intros b. rewrite CA. intros [C|(_ & -> & Z)]; [apply (X1 _ C)|]. destruct (H_zero _ HH _ Z) as (Z1 & _). apply Z1. exact IH'.
  - intros (t & [[= _ <-]|I]).
    + destruct (H_claim_x _ HH _ _ CAa) as (X2 & X3).
      refine (conj _ (conj _ _)); [|rewrite CT; auto | rewrite CL; auto].
      intros b. rewrite CA. intros [C Nb]. apply Nb. eapply (H_claim_1 _ HH); eauto.
    + assert (IH' : inheap s L) by (exists t; exact I). destruct (H_heap_x _ HH L IH') as (X1 & X2 & X3).
      refine (conj _ (conj _ _)); [|rewrite CT; auto | rewrite CL; auto].
      intros b. rewrite CA. intros [C _]. apply (X1 _ C).
  - intros (t' & I). assert (IH' : inheap s L) by (exists t'; eapply in_hdel; eauto).
    destruct (H_heap_x _ HH L IH') as (X1 & X2 & X3).
    refine (conj _ (conj (CT _) _)); [intros b; rewrite CA; auto|].
    rewrite CL. intros ->. eapply hdel_gone; [apply (H_nodup _ HH) | exact I].
  - intros IH'. destruct (H_heap_x _ HH L IH') as (X1 & X2 & X3).
    refine (conj _ (conj (CT _) (CL _))). intros b; rewrite CA; auto.
  - intros IH'. destruct (H_heap_x _ HH L IH') as (X1 & X2 & X3).
    refine (conj _ (conj _ (CL _))); [intros b; rewrite CA; auto|].
    rewrite CT. intros (-> & Z). destruct (H_zero _ HH _ Z) as (Z1 & _). apply Z1. exact IH'.
  - intros (t & [[= _ <-]|I]).
    + refine (conj _ (conj (CT _) (CL _))). intros b. rewrite CA. intros C.
      destruct (H_claim_x _ HH _ _ C) as (X2 & _). apply X2. split; [now rewrite EP | reflexivity].
    + assert (IH' : inheap s L) by (exists t; exact I). destruct (H_heap_x _ HH L IH') as (X1 & X2 & X3).
      refine (conj _ (conj (CT _) (CL _))). intros b; rewrite CA; auto.
Qed.

Lemma presH_claim_1 : forall L a b, claimA s' L a -> claimA s' L b -> a = b.
Proof.
  intros L a b.
  destruct (step_heff _ _ _ H) as [Eh Ei CA CT CL|a0 L0 _ EPa EL Eh Ei CA CT CL|a0 L0 _ CAa Eh Ei CA CT CL|c t _ EP EF Eh Ei CA CT CL|c _ EP Eh Ei CA CT CL|c _ EP Eh Ei CA CT CL|c _ EP Eh Ei CA CT CL];
    rewrite !CA; try apply (H_claim_1 _ HH).
  - intros [C1|(-> & -> & Z)] [C2|(-> & E2 & Z')]; auto.
    + eapply (H_claim_1 _ HH); eauto.
    + subst L. exfalso. destruct (H_zero _ HH _ Z') as (_ & Z2 & _). apply (Z2 _ C1).
    + exfalso. destruct (H_zero _ HH _ Z) as (_ & Z2 & _). apply (Z2 _ C2).
  - intros [C1 _] [C2 _]. eapply (H_claim_1 _ HH); eauto.
Qed.

Lemma presH_claim_x : forall L a, claimA s' L a -> ~ claimT s' L /\ ~ limbo s' L.
Proof.
  intros L a.
  destruct (step_heff _ _ _ H) as [Eh Ei CA CT CL|a0 L0 _ EPa EL Eh Ei CA CT CL|a0 L0 _ CAa Eh Ei CA CT CL|c t _ EP EF Eh Ei CA CT CL|c _ EP Eh Ei CA CT CL|c _ EP Eh Ei CA CT CL|c _ EP Eh Ei CA CT CL];
    rewrite CA.
  - rewrite CT, CL. apply (H_claim_x _ HH).
  - rewrite CT, CL. intros [C|(-> & -> & Z)]; [apply (H_claim_x _ HH _ _ C)|].
    destruct (H_zero _ HH _ Z) as (_ & _ & Z3 & Z4). auto.
  - rewrite CT, CL. intros [C _]. apply (H_claim_x _ HH _ _ C).
  - intros C. split; [apply CT|]. rewrite CL. intros ->.
    assert (IH' : inheap s c) by (exists t; now apply hfind_In).
    destruct (H_heap_x _ HH _ IH') as (X1 & _). apply (X1 _ C).
  - intros C. split; [apply CT | apply CL].
  - intros C. split; [|apply CL]. rewrite CT. intros (-> & Z). destruct (H_zero _ HH _ Z) as (_ & Z2 & _). apply (Z2 _ C).
  - intros C. split; [apply CT | apply CL].
Qed.

(* where the entries of the new heap come from *)
Lemma heap_step : forall t L, In (t, L) (heap s') ->
  In (t, L) (heap s) \/
  (exists a, x = AStep a /\ apc (A s a) = A6 /\ t = adl (A s a) /\ L = aiv (A s a)) \/
  ((exists c, x = TStep c) /\ tpc s = SH /\ t = ttm s /\ L = tL s).
Proof.
  intros t L.
  destruct (step_heff _ _ _ H) as [Eh Ei CA CT CL|a0 L0 _ EPa EL Eh Ei CA CT CL|a0 L0 -> CAa Eh Ei CA CT CL|c t0 _ EP EF Eh Ei CA CT CL|c _ EP Eh Ei CA CT CL|c _ EP Eh Ei CA CT CL|c -> EP Eh Ei CA CT CL];
    rewrite Eh; auto.
  - intros [[= <- <-]|I]; auto. right; left. exists a0. destruct CAa as [E1 E2]. auto.
  - intros I. left. eapply in_hdel; eauto.
  - intros [[= <- <-]|I]; auto. right; right. eauto.
Qed.

Lemma presH_heapt : forall t L, In (t, L) (heap s') -> forall e, In e (lst s' L) -> t <= eeff e.
Proof.
  intros t L I e Ie.
  destruct (heap_step _ _ I) as [I0|[(a & -> & EPa & -> & ->)|((c & ->) & EP & -> & ->)]].
  - destruct (lists_step _ _ _ HB H L e Ie) as [(e' & I' & _ & _ & ->)|(a & -> & EPa & EL & ->)].
    + eapply (H_heapt _ HH); eauto.
    + cbn. apply (H_heapb _ HH); auto.
  - pose proof (B_ainv _ HB a) as Ha. unfold ainv in Ha. rewrite EPa in Ha. destruct Ha as (_ & Ha).
    destruct (lists_step _ _ _ HB H _ e Ie) as [(e' & I' & _ & _ & ->)|(a' & [= <-] & EPa' & _)]; [auto | congruence].
  - destruct (lists_step _ _ _ HB H _ e Ie) as [(e' & I' & _ & _ & ->)|(a' & [=] & _)].
    apply (H_ttm _ HH); auto.
Qed.

Lemma presH_heapb : forall t L, In (t, L) (heap s') -> t <= now s' + L.
Proof.
  intros t L I. pose proof (now_mono _ _ _ H) as Hn.
  destruct (heap_step _ _ I) as [I0|[(a & -> & EPa & -> & ->)|((c & ->) & EP & -> & ->)]].
  - pose proof (H_heapb _ HH _ _ I0). lia.
  - assert (NI : apc (A s a) <> AIdle) by congruence. pose proof (B_adl _ HB a NI). lia.
  - assert (ET : tpc s = F1 \/ tpc s = SH) by auto. pose proof (H_ttmb _ HH ET). lia.
Qed.

(* the timer's re-push time *)
Lemma ttm_step : (tpc s' = F1 \/ tpc s' = SH) ->
  ((tpc s = F1 \/ tpc s = SH) /\ ttm s' = ttm s /\ tL s' = tL s) \/
  ((exists c, x = TStep c) /\ tL s' = tL s /\ lst s' (tL s) = lst s (tL s) /\ now s' = now s /\
   exists e l, lst s (tL s) = e :: l /\ ttm s' = edl e).
Proof.
  intros EP'. clear HB HH. step_cases H; cbn in *; auto; try (destruct EP'; congruence).
  all: right; split; [eauto|]; repeat split; auto; eauto.
Qed.

Lemma presH_ttm : (tpc s' = F1 \/ tpc s' = SH) -> forall e, In e (lst s' (tL s')) -> ttm s' <= eeff e.
Proof.
  intros EP' e Ie.
  destruct (ttm_step EP') as [(EP & -> & ET)|(_ & ET & EL & _ & e0 & l0 & El & ->)]; rewrite ET in Ie.
  - destruct (lists_step _ _ _ HB H _ e Ie) as [(e' & I' & _ & _ & ->)|(a & -> & EPa & EL & ->)].
    + apply (H_ttm _ HH); auto.
    + cbn. apply (H_ttmb _ HH); auto.
  - rewrite EL, El in Ie. pose proof (B_sorted _ HB (tL s)) as S. rewrite El in S.
    pose proof (sorted_first _ _ _ S Ie). assert (I0 : In e0 (lst s (tL s))) by (rewrite El; now left).
    destruct (B_eff _ HB _ _ I0). lia.
Qed.

Lemma presH_ttmb : (tpc s' = F1 \/ tpc s' = SH) -> ttm s' <= now s' + tL s'.
Proof.
  intros EP'. pose proof (now_mono _ _ _ H) as Hn.
  destruct (ttm_step EP') as [(EP & -> & ->)|(_ & -> & EL & -> & e0 & l0 & El & ->)].
  - pose proof (H_ttmb _ HH EP). lia.
  - assert (I0 : In e0 (lst s (tL s))) by (rewrite El; now left).
    destruct (B_eff _ HB _ _ I0). lia.
Qed.
End PresH.

Theorem presH s x s' : InvB s -> InvH s -> stepF s x = Some s' -> InvH s'.
Proof.
  intros HB HH H. constructor.
  - eapply presH_ttm; eauto.
  - eapply presH_ttmb; eauto.
  - eapply presH_heapt; eauto.
  - eapply presH_heapb; eauto.
  - eapply presH_nodup; eauto.
  - eapply presH_zero; eauto.
  - eapply presH_pos; eauto.
  - eapply presH_heap_x; eauto.
  - eapply presH_claim_1; eauto.
  - eapply presH_claim_x; eauto.
Qed.

Lemma initH : InvH init.
Proof.
  constructor; cbn.
  - intros [E|E]; discriminate.
  - intros [E|E]; discriminate.
  - tauto.
  - tauto.
  - constructor.
  - intros L _. refine (conj _ (conj _ (conj _ _))); [intros (t & []) | intros a [E _]; discriminate | intros [E _]; discriminate | intros [E _]; discriminate].
  - congruence.
  - intros L (t & []).
  - intros L a b [E _]. discriminate.
  - intros L a [E _]. discriminate.
Qed.
