(* Trace acceptor for ScopeModel (current code): one recorded event `[code; actor; obj; val]` of the real
   may::coroutine::scope / Join / Cancel / Park / ThreadPark is matched against model transitions.
   Transitions without a shared access (drop_all unlinking a dtor, JoinState::join of a thread owner entering
   Join::wait, the `if !unwinding { resume_unwind }` after the join) are taken silently before / after the
   event of the same task (`norm`); leaving a frame (chain empty) is bound to the scenario's `frame.gone`
   record, which the owner's frame guard logs right after scope() returned or unwound.
   The model must be at the corresponding control point and must compute the value the code observed
   (join state, to_wake slot, packet / panic slots, cancel word = bit + 2 * disable count, park token).

   Codes (bound to source sites in Rt/scope_sites.json):
     1 root.start(kind)  2 spawn.pre(path, frame)  3 kid.start(path)  4 scope.open  5 scope.close  6 frame.gone
     7 task.panic(payload)  8 join.call(path)  9 join.ret(path, value)  10 task.end(value)  11 cancel.call(path)
     12 tpark.enter  13 tpark.leave(woken)  14 tpark.unpark  15 co.panic(coroutine identity)
     20 Join::wait state.load#0   21 to_wake.store   22 state.load#1   23 to_wake.take
     24 Join::trigger state.store  25 to_wake.take    26 JoinHandle::join packet.take   27 panic.take
     28 Join::set_panic_data       30 Scope::spawn_impl their_packet.store   31 ScopedJoinHandle::join packet.take
     40 disable_cancel fetch_add(old)  41 enable_cancel fetch_sub(old)  42 check_cancel load  43 is_canceled load
     44 cancel fetch_or(old)  45 cancel self.co.take  46 cancel co.take
     50 Park::check_park load  51 check_park store  52 check_park swap(old)  53 Park::unpark_impl swap(old)

   Actors of the trace (coroutines / threads as numbered by the normaliser) are mapped to model tasks by the
   scenario's records (root.start, spawn.pre + kid.start carry the child's path); events of unmapped actors
   (the main thread, the canceller's own bookkeeping) are skipped, except the canceller's cancel() accesses,
   which act on the target named by its cancel.call record. *)
From Coq Require Import List ZArith Bool Arith Lia.
Import ListNotations.
Require Import MayV.Rt.ScopeModel MayV.Rt.ScopeInv.
Open Scope Z_scope.

Record aux := {
  amap : nat -> nat;     (* trace actor -> model task + 1 (0 = not a task of the model) *)
  pmap : nat -> nat;     (* path -> model task + 1 *)
  ph : nat -> nat;       (* model task -> phase inside Blocker::park:
                            0 outside | 1 thread suspended | 12 thread took the token at enter
                            5 check_park#1 load saw false | 3 check_park#1 saw true (store pending)
                            2 token absent, cancel check (yield_with) pending | 8 suspended | 7 short-cut taken
                            6 the model has already left the park (token arrived in the window), code still inside
                            9 resumed, check_park#2 pending | 10 / 11 check_park#2 load saw true / false *)
  ctgt : nat -> nat;     (* trace actor -> target task + 1 of its cancel() *)
  nest : nat -> nat;     (* model task -> disable_cancel calls of Park's wait for the kernel half (wait_kernel_yield) in progress *)
  cmap : list (Z * nat); (* identity of a coroutine (address of its handle, logged by root.start / kid.start) -> model task *)
  ojs : nat -> Z; ojw : nat -> Z; opk : nat -> Z }.   (* objects: Join.state / Join.to_wake of a task, token word of a blocker *)
Definition ast := (st * aux)%type.
Definition aux0 : aux := {| amap := fun _ => O; pmap := fun _ => O; ph := fun _ => O; ctgt := fun _ => O; nest := fun _ => O; cmap := [];
                            ojs := fun _ => 0; ojw := fun _ => 0; opk := fun _ => 0 |}.
Definition m_init : ast := (init, aux0).

Definition set_amap (x : aux) m := {| amap := m; pmap := pmap x; ph := ph x; ctgt := ctgt x; nest := nest x; cmap := cmap x; ojs := ojs x; ojw := ojw x; opk := opk x |}.
Definition set_pmap (x : aux) m := {| amap := amap x; pmap := m; ph := ph x; ctgt := ctgt x; nest := nest x; cmap := cmap x; ojs := ojs x; ojw := ojw x; opk := opk x |}.
Definition set_ph (x : aux) a p := {| amap := amap x; pmap := pmap x; ph := upd (ph x) a p; ctgt := ctgt x; nest := nest x; cmap := cmap x; ojs := ojs x; ojw := ojw x; opk := opk x |}.
Definition set_ctgt (x : aux) m := {| amap := amap x; pmap := pmap x; ph := ph x; ctgt := m; nest := nest x; cmap := cmap x; ojs := ojs x; ojw := ojw x; opk := opk x |}.
Definition set_cmap (x : aux) m := {| amap := amap x; pmap := pmap x; ph := ph x; ctgt := ctgt x; nest := nest x; cmap := m; ojs := ojs x; ojw := ojw x; opk := opk x |}.
Definition set_nest (x : aux) a n := {| amap := amap x; pmap := pmap x; ph := ph x; ctgt := ctgt x; nest := upd (nest x) a n; cmap := cmap x; ojs := ojs x; ojw := ojw x; opk := opk x |}.
Definition set_ojs (x : aux) m := {| amap := amap x; pmap := pmap x; ph := ph x; ctgt := ctgt x; nest := nest x; cmap := cmap x; ojs := m; ojw := ojw x; opk := opk x |}.
Definition set_ojw (x : aux) m := {| amap := amap x; pmap := pmap x; ph := ph x; ctgt := ctgt x; nest := nest x; cmap := cmap x; ojs := ojs x; ojw := m; opk := opk x |}.
Definition set_opk (x : aux) m := {| amap := amap x; pmap := pmap x; ph := ph x; ctgt := ctgt x; nest := nest x; cmap := cmap x; ojs := ojs x; ojw := ojw x; opk := m |}.

Definition pc_eqb (x y : pc) : bool :=
  match x, y with
  | PNone, PNone | PBody, PBody | PDrop, PDrop | PJ0, PJ0 | PW0, PW0 | PW1, PW1 | PW2, PW2 | PW3, PW3 | PPark, PPark
  | PWW, PWW | PT1, PT1 | PT2, PT2 | PEn, PEn | PCk, PCk | PRes, PRes | PRet, PRet | PF1, PF1 | PF2, PF2 | PF3, PF3
  | PF4, PF4 | PDone, PDone => true
  | _, _ => false end.
Definition zb (v : Z) : bool := negb (Z.eqb v 0).
Definition bz (b : bool) : Z := if b then 1 else 0.
Definition at_pc (s : st) a p := pc_eqb (pcm s a) p.
(* the cancel word of task a as the code sees it *)
Definition cword (s : st) (a : nat) : Z := bz (cbitm s a) + 2 * Z.of_nat (dism s a).
(* ... plus the nested disables of Park::drop / park_timeout waiting for the kernel half (not in the model: they bracket a yield_now) *)
Definition cwn (s : st) (n : nat) (a : nat) : Z := cword s a + 2 * Z.of_nat n.
Definition bind_obj (m : nat -> Z) (k : nat) (o : Z) : option (nat -> Z) :=
  if Z.eqb (m k) 0 then Some (upd m k o) else if Z.eqb (m k) o then Some m else None.


Fixpoint steps (s : st) (l : list action) : option st :=
  match l with
  | [] => Some s
  | a :: l' => match step current s a with Some s' => steps s' l' | None => None end
  end.

(* transitions of task a without a shared access *)
Definition silent (s : st) (a : nat) : bool :=
  match pcm s a with
  | PDrop => match depthm s a with O => false | S d => match frm s a d with [] => false | _ :: _ => true end end
  | PRes => true
  | PJ0 => negb (is_co (kindm s a))
  | _ => false end.
Fixpoint norm (s : st) (a : nat) (fuel : nat) : list action :=
  match fuel with
  | O => []
  | S f => if silent s a
           then match step current s (Step a) with Some s' => Step a :: norm s' a f | None => [] end
           else []
  end.

Record plan := { acts : list action; nxt : aux }.

(* silent transitions of a, check, the event's own transitions, silent transitions again, new bookkeeping *)
Definition act_on (s : st) (a : nat) (chk : st -> bool) (main : st -> list action) (k : st -> st -> option aux) : option plan :=
  let pre := norm s a 64 in
  match steps s pre with
  | Some s1 =>
      if chk s1 then
        let m := main s1 in
        match steps s1 m with
        | Some s2 =>
            let post := norm s2 a 64 in
            match steps s2 post with
            | Some s3 => match k s1 s3 with Some x' => Some {| acts := pre ++ m ++ post; nxt := x' |} | None => None end
            | None => None end
        | None => None end
      else None
  | None => None end.

Fixpoint lookup (l : list (Z * nat)) (k : Z) : option nat :=
  match l with [] => None | (k', n) :: r => if Z.eqb k k' then Some n else lookup r k end.
Definition task (x : aux) (ta : nat) : option nat := match amap x ta with O => None | S n => Some n end.
(* whom a cancel() of trace actor ta acts on: the target it announced, else itself (the re-check of a subscribe) *)
Definition tgt (x : aux) (ta : nat) : option nat := match ctgt x ta with S t => Some t | O => task x ta end.
Definition skip (x : aux) : option plan := Some {| acts := []; nxt := x |}.
Definition is_some {X} (o : option X) : bool := match o with Some _ => true | None => false end.
Definition is_upanic (u : unwst) : bool := match u with UPanic _ => true | _ => false end.
Definition raised (s1 s3 : st) (a : nat) : bool := unwinding (unwm s3 a) && negb (unwinding (unwm s1 a)).
Definition phis (x : aux) a n := Nat.eqb (ph x a) n.
Definition keep (x : aux) : st -> st -> option aux := fun _ _ => Some x.
Definition one (a : nat) : st -> list action := fun _ => [Step a].
Definition none_acts : st -> list action := fun _ => [].

Definition plan_ev (s : st) (x : aux) (e : list Z) : option plan :=
  match e with
  | [code; zta; o; v] =>
    let ta := Z.to_nat zta in
    match code with
    (* ---- records of the scenario ---- *)
    | 1 => match task x ta with
           | Some _ => None
           | None => let n := nexta s in
                     Some {| acts := [Root (if zb v then KCo else KThread)];
                             nxt := set_cmap (set_pmap (set_amap x (upd (amap x) ta (S n))) (upd (pmap x) O (S n))) ((o, n) :: cmap x) |}
           end
    | 3 => match task x ta, pmap x (Z.to_nat o) with
           | None, S n => if at_pc s n PBody then Some {| acts := []; nxt := set_cmap (set_amap x (upd (amap x) ta (S n))) ((v, n) :: cmap x) |} else None
           | _, _ => None end
    | 11 => match pmap x (Z.to_nat o) with
            | S n => Some {| acts := []; nxt := set_ctgt x (upd (ctgt x) ta (S n)) |}
            | O => None end
    (* the coroutine panicked: run_coroutine publishes the outcome in thread context, on the task's behalf *)
    | 15 => match task x ta, lookup (cmap x) o with
            | Some _, Some n | None, Some n => Some {| acts := []; nxt := set_amap x (upd (amap x) ta (S n)) |}
            | _, None => skip x end
    (* ---- Coroutine::cancel() by whoever calls it ---- *)
    | 44 => match tgt x ta with
            | Some t => if Z.eqb v (cwn s (nest x t) t) then Some {| acts := [Cancel t]; nxt := x |} else None
            | None => None end
    | 45 => match tgt x ta with Some _ => skip x | None => None end
    | 46 => match tgt x ta with
            | Some t => if zb v then Some {| acts := [Cancel t]; nxt := x |} else skip x
            | None => None end
    | _ =>
      match task x ta with
      | None => skip x       (* not a task of the model: the main thread, a canceller *)
      | Some a =>
        let c1 := fun s1 : st => jcm s1 a in
        match code with
        | 2 => let n := nexta s in
               act_on s a (fun s1 => at_pc s1 a PBody) (fun _ => [Spawn a (Z.to_nat v)])
                      (fun _ _ => Some (set_pmap x (upd (pmap x) (Z.to_nat o) (S n))))
        | 4 => act_on s a (fun s1 => at_pc s1 a PBody) (fun _ => [Open a]) (keep x)
        | 5 => act_on s a (fun s1 => at_pc s1 a PBody) (fun _ => [Close a]) (keep x)
        | 6 => act_on s a (fun s1 => at_pc s1 a PDrop) (one a) (keep x)
        | 7 => act_on s a (fun s1 => at_pc s1 a PBody) (fun _ => [Panic a (Z.to_nat o)]) (keep x)
        | 8 => match pmap x (Z.to_nat o) with
               | S c => act_on s a (fun s1 => at_pc s1 a PBody) (fun _ => [Join a c]) (keep x)
               | O => None end
        | 9 => match pmap x (Z.to_nat o) with
               | S c => act_on s a (fun s1 => at_pc s1 a PBody && Nat.eqb (gotm s1 c) 1 && Z.eqb (Z.of_nat (cvalm s1 c)) v) none_acts (keep x)
               | O => None end
        | 10 => act_on s a (fun s1 => at_pc s1 a PBody) (fun _ => [Finish a (Z.to_nat v)]) (keep x)
        (* ---- ThreadPark (virtual) ---- *)
        | 12 => act_on s a (fun s1 => at_pc s1 a PPark && negb (is_co (kindm s1 a)) && phis x a 0) (one a)
                       (fun s1 s3 => match bind_obj (opk x) (jbm s1 a) o with
                                     | Some m => Some (set_ph (set_opk x m) a (if at_pc s3 a PWW then 1%nat else 12%nat))
                                     | None => None end)
        | 13 => if phis x a 1
                then act_on s a (fun s1 => at_pc s1 a PWW && zb v && Z.eqb (opk x (jbm s1 a)) o) (one a) (fun _ _ => Some (set_ph x a 0%nat))
                else if phis x a 12 then act_on s a (fun s1 => zb v) none_acts (fun _ _ => Some (set_ph x a 0%nat))
                else None
        | 14 => act_on s a (fun s1 => at_pc s1 a PF4 && negb (is_co (kindm s1 (bownerm s1 (awm s1 a))))) (one a)
                       (fun s1 _ => match bind_obj (opk x) (awm s1 a) o with Some m => Some (set_opk x m) | None => None end)
        (* ---- src/join.rs ---- *)
        | 20 => act_on s a (fun s1 => at_pc s1 a PW0 && Bool.eqb (jstm s1 (c1 s1)) (zb v)) (one a)
                       (fun s1 _ => match bind_obj (ojs x) (c1 s1) o with Some m => Some (set_ojs x m) | None => None end)
        | 21 => act_on s a (fun s1 => at_pc s1 a PW1) (one a)
                       (fun s1 _ => match bind_obj (ojw x) (c1 s1) o with Some m => Some (set_ojw x m) | None => None end)
        | 22 => act_on s a (fun s1 => at_pc s1 a PW2 && Bool.eqb (jstm s1 (c1 s1)) (zb v) && Z.eqb (ojs x (c1 s1)) o) (one a) (keep x)
        | 23 => act_on s a (fun s1 => at_pc s1 a PW3 && Bool.eqb (is_some (jwakem s1 (c1 s1))) (zb v) && Z.eqb (ojw x (c1 s1)) o) (one a) (keep x)
        | 24 => act_on s a (fun s1 => (at_pc s1 a PF1 || at_pc s1 a PF2) && negb (zb v))
                       (fun s1 => if at_pc s1 a PF1 then [Step a; Step a] else [Step a])
                       (fun _ _ => match bind_obj (ojs x) a o with Some m => Some (set_ojs x m) | None => None end)
        | 25 => act_on s a (fun s1 => at_pc s1 a PF3 && Bool.eqb (is_some (jwakem s1 a)) (zb v)) (one a)
                       (fun _ _ => match bind_obj (ojw x) a o with Some m => Some (set_ojw x m) | None => None end)
        | 26 => act_on s a (fun s1 => at_pc s1 a PT1 && Bool.eqb (ipktm s1 (c1 s1)) (zb v)) (one a) (keep x)
        | 27 => act_on s a (fun s1 => at_pc s1 a PT2 && Bool.eqb (is_some (panm s1 (c1 s1))) (zb v)) (one a) (keep x)
        | 28 => act_on s a (fun s1 => at_pc s1 a PF1 && is_upanic (unwm s1 a)) none_acts (keep x)
        (* ---- src/scoped.rs ---- *)
        | 30 => act_on s a (fun s1 => at_pc s1 a PF1 && negb (unwinding (unwm s1 a))) none_acts (keep x)
        | 31 => act_on s a (fun s1 => at_pc s1 a PRet && zb v) (one a) (keep x)
        (* ---- src/cancel.rs ---- *)
        | 40 => if Nat.eqb (nest x a) 0 && (at_pc s a PJ0 || at_pc s a PDrop)
                then act_on s a (fun s1 => at_pc s1 a PJ0 && is_co (kindm s1 a) && Z.eqb v (cword s1 a)) (one a) (keep x)
                else if Z.eqb v (cwn s (nest x a) a) then Some {| acts := []; nxt := set_nest x a (S (nest x a)) |} else None
        | 41 => match nest x a with
                | S n => if Z.eqb v (cwn s (S n) a) then Some {| acts := []; nxt := set_nest x a n |} else None
                | O => act_on s a (fun s1 => at_pc s1 a PEn && Z.eqb v (cword s1 a)) (one a) (keep x)
                end
        | 42 =>
            if negb (Nat.eqb (nest x a) 0) then (if Z.eqb v (cwn s (nest x a) a) then skip x else None)
            else if at_pc s a PCk then act_on s a (fun s1 => Z.eqb v (cword s1 a)) (one a) (keep x)
            else if phis x a 8
            then act_on s a (fun s1 => at_pc s1 a PWW && Z.eqb v (cword s1 a)) (one a)
                        (fun s1 s3 => Some (set_ph x a (if raised s1 s3 a then 0%nat else 9%nat)))
            else if phis x a 6
            then act_on s a (fun s1 => Z.eqb v (cword s1 a) && negb (cancel_due s1 a && negb (unwinding (unwm s1 a)))) none_acts
                        (fun _ _ => Some (set_ph x a 9%nat))
            else if phis x a 7 then act_on s a (fun s1 => Z.eqb v (cword s1 a)) none_acts (fun _ _ => Some (set_ph x a 9%nat))
            else if phis x a 13 then act_on s a (fun s1 => Z.eqb v (cword s1 a)) none_acts (fun _ _ => Some (set_ph x a 0%nat))
            else if phis x a 0 && at_pc s a PBody
            then act_on s a (fun s1 => Z.eqb v (cword s1 a))
                        (fun s1 => if Z.eqb v 1 && negb (unwinding (unwm s1 a)) then [CPoint a] else []) (keep x)
            else None
        | 43 =>
            if negb (Nat.eqb (nest x a) 0) then (if Z.eqb v (cwn s (nest x a) a) then skip x else None)
            else if phis x a 2
            then act_on s a (fun s1 => at_pc s1 a PPark && Z.eqb v (cword s1 a)) (one a)
                        (fun s1 s3 => Some (set_ph x a (if tokm s1 (jbm s1 a) then 6%nat
                                                        else if at_pc s3 a PWW then 8%nat
                                                        else if raised s1 s3 a then 13%nat else 7%nat)))
            else act_on s a (fun s1 => Z.eqb v (cword s1 a)) none_acts (keep x)
        (* ---- src/park.rs: the token word of a coroutine's blocker ---- *)
        | 50 =>
            if phis x a 0
            then act_on s a (fun s1 => at_pc s1 a PPark && is_co (kindm s1 a) && Bool.eqb (tokm s1 (jbm s1 a)) (zb v))
                        (fun _ => if zb v then [Step a] else [])
                        (fun s1 _ => match bind_obj (opk x) (jbm s1 a) o with
                                     | Some m => Some (set_ph (set_opk x m) a (if zb v then 3%nat else 5%nat))
                                     | None => None end)
            else if phis x a 9 then Some {| acts := []; nxt := set_ph x a (if zb v then 10%nat else 11%nat) |}
            else None
        | 51 => if phis x a 3 || phis x a 10 then Some {| acts := []; nxt := set_ph x a 0%nat |} else None
        | 52 =>
            if phis x a 5
            then act_on s a (fun s1 => at_pc s1 a PPark && Bool.eqb (tokm s1 (jbm s1 a)) (zb v) && Z.eqb (opk x (jbm s1 a)) o)
                        (fun _ => if zb v then [Step a] else [])
                        (fun _ _ => Some (set_ph x a (if zb v then 0%nat else 2%nat)))
            else if phis x a 11 then Some {| acts := []; nxt := set_ph x a 0%nat |}
            else None
        | 53 => act_on s a (fun s1 => at_pc s1 a PF4 && is_co (kindm s1 (bownerm s1 (awm s1 a)))) (one a)
                       (fun s1 _ => match bind_obj (opk x) (awm s1 a) o with Some m => Some (set_opk x m) | None => None end)
        | _ => None
        end
      end
    end
  | _ => None
  end.

Definition accept_ev (sx : ast) (e : list Z) : option ast :=
  let (s, x) := sx in
  match plan_ev s x e with
  | Some p => match steps s (acts p) with Some s' => Some (s', nxt p) | None => None end
  | None => None end.

Fixpoint accept_all (sx : ast) (tr : list (list Z)) : option ast :=
  match tr with
  | [] => Some sx
  | e :: l => match accept_ev sx e with Some sx' => accept_all sx' l | None => None end
  end.

(* monitor of the final state: the property itself on every task of the run, and results handed out once;
   the theorems say it can never trip on a reachable state *)
Definition monitors_ok (sx : ast) : bool :=
  let s := fst sx in
  forallb (fun c => implb (cleftm s c) (negb (jstm s c)) && Nat.leb (gotm s c) 1) (seq 0 (nexta s)).

(* ------------------------------------------------------------------------------------------ *)
(* soundness: every state along an accepted trace is a reachable state of the model (current code) *)

Lemma steps_reach l : forall s s', Reach current s -> steps s l = Some s' -> Reach current s'.
Proof.
  induction l as [|a l IH]; cbn [steps]; intros s s' R H; [inversion H; subst; exact R|].
  destruct (step current s a) as [s1|] eqn:E; [|discriminate]. eapply IH; [eapply RS; eauto | exact H].
Qed.

Lemma accept_ev_ok sx e sx' : Reach current (fst sx) -> accept_ev sx e = Some sx' -> Reach current (fst sx').
Proof.
  intros R H. destruct sx as [s x]. unfold accept_ev in H. cbn [fst] in R.
  destruct (plan_ev s x e) as [p|]; [|discriminate].
  destruct (steps s (acts p)) as [s1|] eqn:E; [|discriminate].
  inversion H; subst. cbn [fst]. eapply steps_reach; eauto.
Qed.

Theorem accept_all_reach tr : forall sx sx', Reach current (fst sx) -> accept_all sx tr = Some sx' -> Reach current (fst sx').
Proof.
  induction tr as [|e l IH]; cbn [accept_all]; intros sx sx' R H; [inversion H; subst; exact R|].
  destruct (accept_ev sx e) as [s1|] eqn:E; [|discriminate]. eapply IH; [eapply accept_ev_ok; eauto | exact H].
Qed.

Corollary accepted_trace_reaches tr sx : accept_all m_init tr = Some sx -> Reach current (fst sx).
Proof. intro H. exact (accept_all_reach tr m_init sx (R0 current) H). Qed.
