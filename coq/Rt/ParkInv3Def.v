(* C02 - (definitions and tactics; the preservation lemmas are in ParkInv3a..d.v, one group of actions each, so that they build in parallel) who woke the coroutine, what the generator `para` says, why an Ok is backed by a token, and what
   cannot happen on a fresh Park object (stale unparkers / stale timers need an earlier call). *)
From Coq Require Import List ZArith Bool Arith Lia.
Import ListNotations.
Require Import MayV.Rt.AtomicDur MayV.Base.BlockerSpec MayV.Rt.ParkModel MayV.Rt.ParkTac MayV.Rt.ParkInv1 MayV.Rt.ParkInv2.
Open Scope Z_scope.

(* `para` agrees with the recorded wake source *)
Definition pw (s : st) : Prop :=
  match para s with
  | None => match wsrc s with WUn _ | WSelfTok => True | _ => False end
  | Some PTimeout => match wsrc s with WTm _ | WSelfTmo => True | _ => False end
  | Some PCanceled => cbit s = true
  end.

Record Inv3 (s : st) : Prop := {
  h_src : match holder s with
          | HUn _ => match wsrc s with WUn _ => True | _ => False end
          | HCn _ => wsrc s = WCn
          | HTm _ => match wsrc s with WTm _ => True | _ => False end
          | HNone => True end;
  k_src : match kp s with
          | KSgoff true | KSrun => wsrc s = WSelfTmo
          | KFgoff true | KFrun => wsrc s = WSelfTok
          | KC4 => wsrc s = WCn
          | _ => True end;
  p_none : match up s with
           | UIdle | UCp1Load | UCp1Store | UCp1Swap | UWk | UWkD | UWkY1 | UWkY2 | UWkQ | UWkY3 | UWkE
           | UTo | UYc | UYield | UAway | UDead => para s = None
           | USusp => rq s = 0%nat -> para s = None
           | _ => True end;
  p_w : match up s with
        | UYb | UCc | UCp2Load | UCp2Store | UCp2Swap | URm | UPara => pw s
        | USusp => (0 < rq s)%nat -> pw s
        | _ => True end;
  tok_w : match wsrc s with
          | WUn false | WSelfTok => match up s with USusp | UYb | UCc | UCp2Load => pstate s = true | _ => True end
          | _ => True end;
  k_ftake : kp s = KFtake -> up s = USusp -> pstate s = true;
  n_tok : forall i, un s i = NTake false -> pstate s = true;
  c_bit : forall i, cn s i <> CIdle -> cbit s = true;
  c_bitk : match kp s with KC2 | KC3 | KC3s | KC4 => cbit s = true | _ => True end;
  store_tok : match up s with UCp1Store | UCp2Store => pstate s = true | _ => True end;
  ctok_ok : match up s with URm | UPara => para s = None -> ctok s = true \/ wsrc s = WUn true | _ => True end;
  s0 : ncall s = 0%nat ->
       (forall i, tm s i = TmNone) /\ kp s = KIdle /\ nclr s = 0%nat /\
       match up s with UIdle | UAway | UDead => True | _ => False end;
  s1 : (ncall s <= 1)%nat -> in_park (up s) = true -> forall i, tm s i <> TmNone -> hnd s = Some i;
  s2 : (ncall s <= 1)%nat -> in_park (up s) = true -> nclr s = 0%nat;
  s3 : forall i, un s i = NTake true -> (1 <= nclr s)%nat;
  s4 : match wsrc s with WUn true | WTm true => (2 <= ncall s)%nat | _ => True end;
  pre_w : match up s with
          | UCp1Load | UCp1Store | UCp1Swap | UWk | UWkD | UWkY1 | UWkY2 | UWkQ | UWkY3 | UWkE | UTo | UYc | UYield => wsrc s = WNone
          | _ => True end;
  c2s : match up s with
        | UCp2Swap => match wsrc s with WUn false | WSelfTok => False | _ => True end
        | _ => True end;
  t0 : tok0 s = true ->
       susp s = false /\
       match up s with UCp1Load => pstate s = true | UCp1Store => True | u => in_park u = false end
}.

Lemma inv3_init : Inv3 init.
Proof. constructor; unfold pw; cbn; intros; fin. Qed.

Ltac dmg3 :=
  match goal with
  | |- context [match para ?s with _ => _ end] => destruct (para s) eqn:?
  | |- context [match wsrc ?s with _ => _ end] => destruct (wsrc s) eqn:?
  | |- context [match holder ?s with _ => _ end] => destruct (holder s) eqn:?
  | |- context [match up ?s with _ => _ end] => destruct (up s) eqn:?
  | |- context [match kp ?s with _ => _ end] => destruct (kp s) eqn:?
  | |- context [match ?p with PTimeout => _ | PCanceled => _ end] => destruct p eqn:?
  | |- context [if ?b then _ else _] => destruct b eqn:?
  end.
Ltac dmh3 :=
  match goal with
  | H : context [match para ?s with _ => _ end] |- _ => destruct (para s) eqn:?
  | H : context [match wsrc ?s with _ => _ end] |- _ => destruct (wsrc s) eqn:?
  | H : context [match holder ?s with _ => _ end] |- _ => destruct (holder s) eqn:?
  | H : context [match hnd ?s with _ => _ end] |- _ => destruct (hnd s) eqn:?
  | H : context [match ?p with PTimeout => _ | PCanceled => _ end] |- _ => destruct p eqn:?
  | H : context [if ?b then _ else _] |- _ => destruct b eqn:?
  | H : context [match kp ?s with _ => _ end] |- _ => destruct (kp s) eqn:?
  end.

Ltac cl3a :=
  intros; rw; cbn in *|-; brk;
  repeat match goal with H : _ \/ _ |- _ => destruct H end;
  repeat match goal with
         | H : negb _ = false |- _ => apply negb_false_iff in H
         | H : negb _ = true |- _ => apply negb_true_iff in H
         | H : optnat_eqb _ (Some _) = true |- _ => apply optnat_eqb_some in H
         | H : _ && _ = true |- _ => apply andb_true_iff in H; destruct H
         end;
  try match goal with |- context [upd _ _ _ ?j] => upd_at j end;
  try match goal with H : context [upd _ _ _ ?j] |- _ => cbn in H; upd_at j end;
  try match goal with
      | H : context [mark_stale (un ?s) ?j] |- _ => unfold mark_stale in H; destruct (un s j) as [|[|]|] eqn:?
      end;
  try match goal with
      | H : context [match cn ?s ?j with _ => _ end] |- _ => destruct (cn s j) eqn:?
      end;
  cbn in *|-; subst;
  repeat match goal with H : ?a = ?a -> _ |- _ => specialize (H eq_refl) end;
  repeat match goal with H : ?P -> _, H' : ?P |- _ => match type of P with Prop => specialize (H H') end end;
  repeat match goal with
         | H : ?P -> _ |- _ =>
             match type of P with Prop => let X := fresh "X" in assert (X : P) by (clear H; fin0); specialize (H X) end
         end;
  brk;
  try solve [fin];
  try solve [match goal with
             | |- (2 <= ncall ?s)%nat =>
                 destruct (Nat.le_gt_cases (ncall s) 1) as [L|L]; [|lia];
                 repeat match goal with
                        | H : ?P -> _ |- _ =>
                            match type of P with Prop => let X := fresh "X" in assert (X : P) by (clear H; fin0); specialize (H X) end
                        end;
                 try match goal with Hh : forall i, tm _ i <> TmNone -> _, Hj : tm _ ?j = _ |- _ =>
                       let Q := fresh "Q" in
                       assert (Q : hnd s = Some j) by (apply Hh; congruence); rewrite Q in *;
                       try rewrite optnat_eqb_refl in *
                     end;
                 try match goal with Hh : forall i, un _ i = NTake true -> _, Hj : un _ ?j = NTake true |- _ => specialize (Hh j Hj) end;
                 fin
             end];
  try solve [match goal with Hh : forall i, un _ i = NTake false -> _, Hj : un _ ?j = NTake false |- _ => specialize (Hh j Hj); fin end];
  try solve [match goal with Hh : forall i, un _ i = NTake true -> _, Hj : un _ ?j = NTake true |- _ => specialize (Hh j Hj); fin end];
  try solve [match goal with Hh : forall i, cn _ i <> CIdle -> _, Hj : cn _ ?j = _ |- _ => apply (Hh j); congruence end];
  try solve [match goal with Hh : forall i, tm _ i <> TmNone -> _ |- _ = Some ?j => apply (Hh j); congruence end];
  try solve [match goal with Hh : forall i, tm _ i <> TmNone -> _, Hj : tm _ ?j <> TmNone |- _ =>
               specialize (Hh j Hj); rw; cbn in *; fin end];
  try solve [left; fin]; try solve [right; fin].

Ltac cl3 :=
  unfold places, pw, canceled in *; cbn; rw; cbn;
  try assumption;
  intros; rw; cbn in *|-;
  try solve [cl3a];
  try solve [repeat (dmg3; cbn in * ); cl3a];
  try solve [repeat (dmg3; cbn in * ); dmh3; cbn in *; cl3a];
  try solve [repeat (dmg3; cbn in * ); dmh3; cbn in *; dmh3; cbn in *; cl3a];
  try solve [repeat (dmg3; cbn in * ); dmh3; cbn in *; dmh3; cbn in *; dmh3; cbn in *; cl3a].

Ltac intro3 :=
  intros [Ipl Ihun Ihcn Ihtm Irun Isusp Iwk [Inn Ine] Ipre Icd ((Id1 & Id2 & Id3 & Id4) & Iok & Itn)] [Tn Tf Kt Kd Kl Kp Ka Hs He Hd Wd]
         [Hsr Ksr Pn Pw Tw Kf Nt Cb Cbk St Ck S0 S1 S2 S3 S4 Prw C2s T0] H;
  clear Tn Tf Kt Kd Kl Kp Ka He Hd Wd.
Ltac step3 Ipl H := step_inv H; pre Ipl; constructor; solve [cl3].
