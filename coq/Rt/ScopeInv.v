(* Invariants of ScopeModel for the CURRENT code (cfg `current`) and the tactics used to prove that
   every transition preserves them.  The safety invariant (record Inv):
     J1  a child c of a whose scope is not yet left: its frame is still open, and c is still linked in the
         frame's dtor chain, or done, or a is inside JoinState::join for c right now
     J2  JoinState of c is Joined: c is done or the owner is inside that join
     J3  (the property) scope left => child done
     J4  Join::wait's re-check saw `done`
     J5  a coroutine inside Join::wait of a scoped join has the cancel disabled
     J6-J10  freshness and ownership bookkeeping *)
From Coq Require Import List Arith Bool Lia.
Import ListNotations.
Require Import MayV.Rt.ScopeModel.

Definition waitset (p : pc) : bool := match p with PW0 | PW1 | PW2 | PW3 | PPark | PWW => true | _ => false end.
Definition joinset (p : pc) : bool := match p with PJ0 | PW0 | PW1 | PW2 | PW3 | PPark | PWW => true | _ => false end.
(* every control point inside JoinState::join / ScopedJoinHandle::join *)
Definition jpcs (p : pc) : bool :=
  match p with PJ0 | PW0 | PW1 | PW2 | PW3 | PPark | PWW | PT1 | PT2 | PEn | PCk | PRes | PRet => true | _ => false end.
Definition injoin (s : st) (a c : nat) : Prop := joinset (pcm s a) = true /\ jcm s a = c.

Record Inv (s : st) : Prop := {
  J1 : forall c a, parentm s c = Some a -> cleftm s c = false ->
         cdepthm s c < depthm s a /\ (In c (frm s a (cdepthm s c)) \/ jstm s c = false \/ injoin s a c);
  J2 : forall c a, parentm s c = Some a -> joinedm s c = true -> jstm s c = false \/ injoin s a c;
  J3 : forall c, cleftm s c = true -> jstm s c = false;
  J4 : forall a, pcm s a = PW3 -> jstm s (jcm s a) = false;
  J5 : forall a, kindm s a = KCo -> waitset (pcm s a) = true -> 1 <= dism s a;
  J6 : forall c a, parentm s c = Some a -> c < nexta s /\ a < nexta s;
  J7 : forall a, jpcs (pcm s a) = true -> parentm s (jcm s a) = Some a;
  J8 : forall a, nexta s <= a -> pcm s a = PNone;
  J10 : forall a d x, In x (frm s a d) -> parentm s x = Some a }.

Lemma upd_eq {X} (f : nat -> X) i v : upd f i v i = v.
Proof. unfold upd. now rewrite Nat.eqb_refl. Qed.
Lemma upd_neq {X} (f : nat -> X) i j v : j <> i -> upd f i v j = f j.
Proof. unfold upd. intros H. destruct (Nat.eqb_spec j i); congruence. Qed.

Lemma run_reach cf l : forall s s', Reach cf s -> run cf s l = Some s' -> Reach cf s'.
Proof.
  induction l as [|a l IH]; cbn [run]; intros s s' R H; [inversion H; subst; exact R|].
  destruct (step cf s a) as [s1|] eqn:E; [|discriminate]. eapply IH; [eapply RS; eauto | exact H].
Qed.

Ltac inv_some := match goal with H : Some _ = Some _ |- _ => inversion H; subst; clear H end.

(* all projections and setters of the state *)
Ltac simp :=
  unfold after_take, after_park, cancel_due in *;
  cbn [pcm kindm depthm frm unwm cbitm dism jcm jbm jexpm jresm awm jstm jwakem ipktm pktm panm joinedm handlem
       parentm cdepthm cleftm cvalm outm gotm tkm tokm parkedm reasonm bownerm nexta nextb
       set_pcm set_kindm set_depthm set_frm set_unwm set_cbitm set_dism set_jcm set_jbm set_jexpm set_jresm set_awm
       set_jstm set_jwakem set_ipktm set_pktm set_panm set_joinedm set_handlem set_parentm set_cdepthm set_cleftm
       set_cvalm set_outm set_gotm set_tkm set_tokm set_parkedm set_reasonm set_bownerm set_nexta set_nextb
       wpc new_task raise after_park after_take cancel_due cdis cloop ctrans current negb andb orb is_co] in *.

(* split the step function into its cases; H : step cf s ac = Some s' *)
Ltac sc1 H :=
  match type of H with
  | context [match ?ac with Root _ => _ | Open _ => _ | Spawn _ _ => _ | Close _ => _ | Join _ _ => _ | Panic _ _ => _
             | CPoint _ => _ | Finish _ _ => _ | Cancel _ => _ | Recheck _ => _ | Step _ => _ end] => destruct ac
  | context [match pcm ?s ?a with _ => _ end] => let E := fresh "Epc" in destruct (pcm s a) eqn:E
  | context [match depthm ?s ?a with _ => _ end] => let E := fresh "Ed" in destruct (depthm s a) eqn:E
  | context [match frm ?s ?a ?d with _ => _ end] => let E := fresh "Ef" in destruct (frm s a d) eqn:E
  | context [match reasonm ?s ?b with _ => _ end] => let E := fresh "Er" in destruct (reasonm s b) eqn:E
  | context [match unwm ?s ?a with _ => _ end] => let E := fresh "Eu" in destruct (unwm s a) eqn:E
  | context [match jresm ?s ?a with _ => _ end] => let E := fresh "Ej" in destruct (jresm s a) eqn:E
  | context [match pktm ?s ?a with _ => _ end] => let E := fresh "Ek" in destruct (pktm s a) eqn:E
  | context [match panm ?s ?a with _ => _ end] => let E := fresh "Ep" in destruct (panm s a) eqn:E
  | context [match jwakem ?s ?a with _ => _ end] => let E := fresh "Ew" in destruct (jwakem s a) eqn:E
  | context [if ?c then _ else _] => let E := fresh "Ec" in destruct c eqn:E
  | _ => progress cbv zeta in H
  end; cbv beta iota in H; try discriminate.
Ltac step_cases H := unfold step in H; repeat (sc1 H); try inv_some.

Ltac bools :=
  repeat match goal with
  | H : (_ && _)%bool = true |- _ => apply andb_prop in H; destruct H
  | H : negb _ = true |- _ => apply negb_true_iff in H
  | H : negb _ = false |- _ => apply negb_false_iff in H
  | H : Nat.eqb _ _ = true |- _ => apply Nat.eqb_eq in H
  | H : Nat.eqb _ _ = false |- _ => apply Nat.eqb_neq in H
  | H : Nat.ltb _ _ = true |- _ => apply Nat.ltb_lt in H
  | H : Nat.ltb _ _ = false |- _ => apply Nat.ltb_ge in H
  | H : onat_eqb ?x ?y = true |- _ => let E := fresh "Eo" in destruct x eqn:E; cbn [onat_eqb] in H; [apply Nat.eqb_eq in H; subst | discriminate]
  | H : pc_is_body ?p = true |- _ => destruct p eqn:?; cbn [pc_is_body] in H; try discriminate; clear H
  | H : pc_is_ww ?p = true |- _ => destruct p eqn:?; cbn [pc_is_ww] in H; try discriminate; clear H
  | H : pc_is_none ?p = false |- _ => destruct p eqn:?; cbn [pc_is_none] in H; try discriminate; clear H
  | H : is_none ?o = true |- _ => destruct o eqn:?; cbn [is_none] in H; try discriminate; clear H
  end.

(* decide every comparison of indices that an `upd` in the goal or in a hypothesis depends on *)
Ltac upds :=
  unfold upd in *;
  repeat match goal with
  | |- context [Nat.eqb ?x ?y] => destruct (Nat.eqb_spec x y); subst
  | H : context [Nat.eqb ?x ?y] |- _ => destruct (Nat.eqb_spec x y); subst
  end.

(* remaining case distinctions in control-point expressions *)
Ltac dm :=
  repeat match goal with
  | |- context [match depthm ?s ?a with _ => _ end] => destruct (depthm s a) eqn:?
  | H : context [match depthm ?s ?a with _ => _ end] |- _ => destruct (depthm s a) eqn:?
  | |- context [if ?c then _ else _] => destruct c eqn:?
  | H : context [if ?c then _ else _] |- _ => destruct c eqn:?
  end.
