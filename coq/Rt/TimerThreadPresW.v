(* C08.iii - preservation of group W: the wake-up protocol (handle conservation, the sleep time, remove requests) *)
From Coq Require Import List Arith NArith Bool Lia Sorting.Sorted.
Import ListNotations.
Require Import MayV.Rt.TimerThread MayV.Rt.TimerThreadInv MayV.Rt.TimerThreadTac MayV.Rt.TimerThreadPresB MayV.Rt.TimerThreadPresH MayV.Rt.TimerThreadPresC.
Local Open Scope N_scope.

Lemma removers_step s x s' : stepF s x = Some s' -> forall r,
  (R s' r = R s r /\ x <> RStep r) \/ (x = RStep r) \/ (exists L i, x = Del r L i /\ rpc (R s' r) = R1).
Proof.
  intros H r. step_cases H; cbn; try (left; split; intros; congruence).
  all: case_actor r r0; try (left; split; intros; congruence); auto.
  right; right. eauto.
Qed.

Lemma holder_step s x s' : stepF s x = Some s' -> holder s -> holder s' \/ tok s' = true.
Proof.
  intros H [(a & EP)|[(r & EP)|EP]].
  - destruct (adders_step _ _ _ H a) as [(E & _)|[(-> & _)|(iv & i & _ & E0 & _)]].
    + left; left. exists a. now rewrite E.
    + right. cbn in H. unfold astep in H. rewrite EP in H. inv_some. reflexivity.
    + congruence.
  - destruct (removers_step _ _ _ H r) as [(E & _)|[->|(L & i & -> & _)]].
    + left; right; left. exists r. now rewrite E.
    + right. cbn in H. unfold rstep in H. rewrite EP in H. inv_some. reflexivity.
    + cbn in H. rewrite EP in H. discriminate.
  - step_cases H; cbn in *; try congruence; try (left; right; right; assumption). right; reflexivity.
Qed.

Lemma slot_step s x s' : stepF s x = Some s' -> slot s = true -> slot s' = true \/ holder s'.
Proof.
  intros H ES. unfold holder. step_cases H; cbn in *; auto; try congruence.
  - right; left. exists a. now rewrite upd_eq.
  - right; right; left. exists r. now rewrite upd_eq.
Qed.

Lemma tok_step s x s' : stepF s x = Some s' -> tok s = true ->
  tok s' = true \/ ((tpc s = PK \/ tpc s = W) /\ tpc s' = D1).
Proof. intros H ET. step_cases H; cbn in *; auto; congruence. Qed.

(* the timer's region: it enters "after_store" only through TS, "after_te" only through TE/TT/TU, "parkish" through SK *)
Lemma region_step s x s' : stepF s x = Some s' ->
  (after_store (tpc s') = true -> after_store (tpc s) = true \/ (tpc s = TS /\ slot s' = true)) /\
  (after_te (tpc s') = true -> after_te (tpc s) = true \/
     (tpc s = TE /\ rq s = [] /\ rq s' = []) \/ (tpc s = TT /\ slot s = false /\ slot s' = false /\ tok s' = tok s /\ (forall a, A s' a = A s a) /\ (forall r, R s' r = R s r)) \/
     (tpc s = TU /\ tok s' = true)) /\
  (parkish (tpc s') = true -> (parkish (tpc s) = true /\ aim s' = aim s /\ tnow s' = tnow s) \/
     (tpc s = SK /\ none_due (tnow s) (heap s) = true /\ aim s' = hmin (heap s) /\ tnow s' = tnow s /\ (forall L, lst s' L = lst s L) /\ (forall a, A s' a = A s a))).
Proof.
  intros H. step_cases H; cbn in *; repeat split; auto; intros; try discriminate.
  all: try (match goal with E : tpc _ = _ |- _ => rewrite E in * end; cbn in *; try discriminate; auto; fail).
  all: auto 8.
  right; right; left. repeat split; auto.
Qed.

Lemma rq_step s x s' : stepF s x = Some s' -> forall y, In y (rq s') ->
  (exists y', In y' (rq s) /\ qr y = qr y') \/ (exists r, x = RStep r /\ rpc (R s r) = R1 /\ qr y = r).
Proof.
  intros H y I.
  assert (K : In y (rq s) \/ (exists r, x = RStep r /\ rpc (R s r) = R1 /\ qr y = r) \/
              (exists y', In y' (rq s) /\ qr y = qr y')).
  { step_cases H; cbn in I; try (rewrite Heql in I; cbn in I); auto.
    - apply in_app_or in I as [I|[<-|[]]]; [auto | right; left; exists r; auto].
    - apply in_set_ready in I as (y' & I & _ & E & _). right; right; exists y'; auto.
    - left. now right.
    - left. now right. }
  destruct K as [K|[K|K]]; auto. left. exists y. auto.
Qed.

Lemma covering6_covering s L a : covering6 s L a -> covering s L a.
Proof. intros (E & [C|([C|[C|C]] & EH)]); split; auto; right; split; auto. Qed.

(* a covering adder stays covering until it tries to take the handle *)
Lemma covering_keep s x s' L a : InvB s -> stepF s x = Some s' -> covering s L a ->
  (x = AStep a -> apc (A s a) <> A7) -> covering s' L a.
Proof.
  intros HB H (EL & C) N7.
  destruct (adders_step _ _ _ H a) as [(E & N1 & N2)|[(-> & N0 & _)|(iv & i & Ex & E0 & _)]].
  - unfold covering. rewrite E. split; auto.
    destruct C as [(EP & Hf)|C]; [|right; exact C]. left. split; auto. subst L. eapply first_stays; eauto.
  - specialize (N7 eq_refl). cbn in H. unfold astep in H.
    destruct C as [(EP & Hf)|([EP|[EP|[EP|EP]]] & EH)]; try congruence; rewrite EP in H.
    + inv_some. unfold covering. cbn. rewrite upd_eq. cbn. split; auto. right. split; auto. now rewrite EL.
    + rewrite EH in H. inv_some. unfold covering. cbn. rewrite upd_eq. cbn. split; auto.
    + inv_some. unfold covering. cbn. rewrite upd_eq. cbn. split; auto. right. split; auto.
      destruct (inuse s (aiv (A s a))); auto 6.
    + inv_some. unfold covering. cbn. rewrite upd_eq. cbn. split; auto. right. split; auto 6.
  - destruct C as [(EP & _)|([EP|[EP|[EP|EP]]] & _)]; congruence.
Qed.

Lemma rtake_dec s x : (exists r0, x = RStep r0 /\ rpc (R s r0) = R3) \/ ~ (exists r0, x = RStep r0 /\ rpc (R s r0) = R3).
Proof.
  destruct x as [d|a iv i|r L i|a|r|c|v]; try (right; intros (r0 & [=] & _); fail).
  destruct (rpc_t_eq_dec (rpc (R s r)) R3); [left; eauto | right; intros (r0 & [= <-] & E); auto].
Qed.
Lemma atake_dec s x : (exists a0, x = AStep a0 /\ apc (A s a0) = A7) \/ ~ (exists a0, x = AStep a0 /\ apc (A s a0) = A7).
Proof.
  destruct x as [d|a iv i|r L i|a|r|c|v]; try (right; intros (r0 & [=] & _); fail).
  destruct (apc_t_eq_dec (apc (A s a)) A7); [left; eauto | right; intros (r0 & [= <-] & E); auto].
Qed.

(* tok or holder survive as long as the timer does not consume the token (which takes it out of the region) *)
Lemma tok_holder_keep s x s' (H : stepF s x = Some s') : tpc s' <> D1 -> (tok s = true \/ holder s) -> tok s' = true \/ holder s'.
Proof.
  intros ND [T|T].
  - destruct (tok_step _ _ _ H T) as [T'|(_ & E)]; [auto | congruence].
  - destruct (holder_step _ _ _ H T); auto.
Qed.

Lemma presW_handle s x s' (HW : InvW s) (H : stepF s x = Some s') : after_store (tpc s') = true -> slot s' = true \/ tok s' = true \/ holder s'.
Proof.
  intros AS. destruct (proj1 (region_step _ _ _ H) AS) as [AS0|(_ & E)]; [|auto].
  assert (ND : tpc s' <> D1) by (intros E; rewrite E in AS; discriminate).
  destruct (W_handle _ HW AS0) as [S|T].
  - destruct (slot_step _ _ _ H S); auto.
  - right. apply (tok_holder_keep _ _ _ H); auto.
Qed.

(* a failed take happens only when somebody else has the handle or the token is set *)
Lemma failed_take s x s' (HW : InvW s) (H : stepF s x = Some s') : after_store (tpc s) = true -> slot s = false -> tpc s' <> D1 -> tok s' = true \/ holder s'.
Proof.
  intros AS S ND. destruct (W_handle _ HW AS) as [S'|T]; [congruence|]. apply (tok_holder_keep _ _ _ H); auto.
Qed.

Lemma after_te_store p : after_te p = true -> after_store p = true.
Proof. destruct p; cbn; auto. Qed.
Lemma parkish_te p : parkish p = true -> after_te p = true.
Proof. destruct p; cbn; auto; discriminate. Qed.

Lemma presW_rq s x s' (HW : InvW s) (H : stepF s x = Some s') : after_te (tpc s') = true ->
  tok s' = true \/ holder s' \/ forall y, In y (rq s') -> rpc (R s' (qr y)) = R2 \/ rpc (R s' (qr y)) = R3.
Proof.
  intros AT. assert (ND : tpc s' <> D1) by (intros E; rewrite E in AT; discriminate).
  destruct (proj1 (proj2 (region_step _ _ _ H)) AT) as [AT0|[(_ & _ & E)|[(EP & S & S' & ET & EA & ER)|(_ & E)]]].
  - destruct (W_rq _ HW AT0) as [T|[T|Q]]; [destruct (tok_holder_keep _ _ _ H ND (or_introl T)); auto | destruct (tok_holder_keep _ _ _ H ND (or_intror T)); auto |].
    (* is this step a take by a remover? *)
    destruct (rtake_dec s x) as [(r0 & Ex & EP)|ND3].
    + pose proof H as H1. rewrite Ex in H1. cbn in H1. unfold rstep in H1. rewrite EP in H1. destruct (slot s) eqn:ES.
      * injection H1 as <-. right; left. right; left. exists r0. cbn. now rewrite upd_eq.
      * assert (AS : after_store (tpc s) = true) by now apply after_te_store.
        destruct (failed_take _ _ _ HW H AS ES ND); auto.
    + right; right. intros y I.
      destruct (rq_step _ _ _ H y I) as [(y' & I' & ->)|(r & -> & EP & ->)].
      * specialize (Q y' I').
        destruct (removers_step _ _ _ H (qr y')) as [(E & _)|[->|(L & i & -> & _)]].
        -- now rewrite E.
        -- cbn in H. unfold rstep in H. destruct Q as [Q|Q]; [|exfalso; apply ND3; eauto].
           rewrite Q in H. inv_some. cbn. rewrite upd_eq. cbn. auto.
        -- cbn in H. destruct Q as [Q|Q]; rewrite Q in H; discriminate.
      * cbn in H. unfold rstep in H. rewrite EP in H. inv_some. cbn. rewrite upd_eq. cbn. auto.
  - right; right. rewrite E. intros y [].
  - assert (AS : after_store (tpc s) = true) by (rewrite EP; reflexivity).
    destruct (failed_take _ _ _ HW H AS S ND); auto.
  - auto.
Qed.

Lemma presW_aim_gt s x s' (HW : InvW s) (H : stepF s x = Some s') : parkish (tpc s') = true -> forall t, aim s' = Some t -> tnow s' < t.
Proof.
  intros PK' t. destruct (proj2 (proj2 (region_step _ _ _ H)) PK') as [(PK0 & -> & ->)|(EP & ND & -> & -> & _)].
  - apply (W_aim_gt _ HW PK0).
  - intros E. destruct (hmin_in _ _ E) as (y & I & <-). eapply none_due_spec; eauto.
Qed.

Lemma presW_wake s x s' (HB : InvB s) (HW : InvW s) (H : stepF s x = Some s') : tpc s' = W -> twake s' = match aim s' with Some t => Some (t + tlag s') | None => None end.
Proof.
  intros EP'. destruct (tpc_t_eq_dec (tpc s) W) as [EP|NP].
  - assert (E : twake s' = twake s /\ aim s' = aim s /\ tlag s' = tlag s).
    { clear HB. pose proof (W_wake _ HW EP) as HWk. clear HW. step_cases H; cbn in *; auto; congruence. }
    destruct E as (-> & -> & ->). apply (W_wake _ HW EP).
  - pose proof (B_tnow _ HB) as Hn.
    assert (PKs : tpc s = PK) by (clear HB HW; step_cases H; cbn in *; congruence).
    assert (PK0 : parkish (tpc s) = true) by now rewrite PKs.
    pose proof (W_aim_gt _ HW PK0) as Hg. clear HB HW.
    step_cases H; cbn in *; try congruence.
    + specialize (Hg _ eq_refl). rewrite Heqo. f_equal. lia.
    + rewrite Heqo. reflexivity.
Qed.

Lemma aim_le_same s s' e e' : aim s' = aim s -> eeff e = eeff e' -> aim_le s e' -> aim_le s' e.
Proof. unfold aim_le. intros -> ->. auto. Qed.

Lemma presW_aim s x s' (HB : InvB s) (HH : InvH s) (HC : InvC s) (HW : InvW s) (H : stepF s x = Some s') :
  parkish (tpc s') = true ->
  tok s' = true \/ holder s' \/ forall L e, In e (lst s' L) -> aim_le s' e \/ exists a, covering s' L a.
Proof.
  intros PK'. assert (ND : tpc s' <> D1) by (intros E; rewrite E in PK'; discriminate).
  destruct (proj2 (proj2 (region_step _ _ _ H)) PK') as [(PK0 & EA & ET)|(EP & NDue & EA & ET & ELs & EAd)].
  - (* the timer stays parked / about to park *)
    destruct (W_aim _ HW PK0) as [T|[T|Q]];
      [destruct (tok_holder_keep _ _ _ H ND (or_introl T)); auto | destruct (tok_holder_keep _ _ _ H ND (or_intror T)); auto |].
    destruct (atake_dec s x) as [(a0 & Ex & EP)|N7].
    + (* somebody tries to take the handle *)
      pose proof H as H1. rewrite Ex in H1. cbn in H1. unfold astep in H1. rewrite EP in H1. destruct (slot s) eqn:ES.
      * injection H1 as <-. right; left. left. exists a0. cbn. now rewrite upd_eq.
      * assert (AS : after_store (tpc s) = true) by (apply after_te_store, parkish_te; exact PK0).
        destruct (failed_take _ _ _ HW H AS ES ND); auto.
    + right; right. intros L e I.
      assert (CK : forall a, covering s L a -> covering s' L a).
      { intros a C. eapply covering_keep; eauto. }
      destruct (lists_step _ _ _ HB H L e I) as [(e' & I' & _ & _ & E3)|(a & Ex & EPa & EL & Ee)].
      * destruct (Q L e' I') as [Le|(a & C)]; [left; eapply aim_le_same; eauto | right; eauto].
      * (* a new entry *)
        destruct (lst s L) as [|e0 l0] eqn:EL0.
        -- right. exists a. pose proof H as H1. rewrite Ex in H1. cbn in H1. unfold astep in H1. rewrite EPa in H1.
           injection H1 as <-. unfold covering. cbn. rewrite upd_eq. cbn. split; auto. left. split; auto.
           subst L. rewrite updN_eq, EL0. cbn. apply Nat.eqb_refl.
        -- assert (I0 : In e0 (lst s L)) by (rewrite EL0; now left).
           destruct (Q L e0 I0) as [Le|(b & C)]; [|right; eauto].
           left. unfold aim_le in *. rewrite EA. destruct (aim s); auto.
           destruct (B_eff _ HB L e0 I0). subst e. cbn. lia.
  - (* the sleep time has just been computed *)
    right; right. intros L e. rewrite ELs. intros I.
    assert (NE : lst s L <> []) by (intro E; rewrite E in I; exact I).
    destruct (HC L NE) as [(t & P)|[[P _]|(a & P)]].
    + left. unfold aim_le. rewrite EA. destruct (hmin (heap s)) as [m|] eqn:EM.
      * pose proof (hmin_le _ _ EM _ P) as Hm. cbn in Hm. pose proof (H_heapt _ HH _ _ P _ I). lia.
      * apply hmin_none in EM. rewrite EM in P. exact P.
    + rewrite EP in P. discriminate.
    + right. exists a. apply covering6_covering in P. unfold covering in *. rewrite EAd, ELs. exact P.
Qed.

Theorem presW s x s' : InvB s -> InvH s -> InvC s -> InvW s -> stepF s x = Some s' -> InvW s'.
Proof.
  intros HB HH HC HW H. constructor.
  - eapply presW_handle; eauto.
  - eapply presW_aim; eauto.
  - eapply presW_rq; eauto.
  - eapply presW_aim_gt; eauto.
  - eapply presW_wake; eauto.
Qed.

Lemma initW : InvW init.
Proof. constructor; cbn; intros; discriminate. Qed.

Theorem inv_step s x s' : Inv s -> stepF s x = Some s' -> Inv s'.
Proof.
  intros [HB HH HC HW] H. constructor.
  - eapply presB; eauto.
  - eapply presH; eauto.
  - eapply presC; eauto.
  - eapply presW; eauto.
Qed.

Theorem inv_reach s : ReachF s -> Inv s.
Proof.
  induction 1.
  - constructor; [apply initB | apply initH | apply initC | apply initW].
  - eapply inv_step; eauto.
Qed.
