(* C02 - witnesses (schedules checked by vm_compute):
     * the three pre-repair variants of the model violate what ParkThm.v proves for the code as it is
       ([step false true true]: F8, the time-out is lost; [step true false true]: F12, Park::drop waits for
       ever; [step true true false]: F31, a cancel is lost when the kernel half of an EARLIER Blocker of the
       same coroutine, still in flight, registers its own (stale) slot with the Cancel after the current park
       registered);
     * non-vacuity: reachable states that satisfy the hypotheses of the theorems of ParkThm.v, and both
       spurious wake-ups of the shared per-coroutine Park (the reason for (v)). *)
From Coq Require Import List ZArith Bool Arith Lia.
Import ListNotations.
Require Import MayV.Rt.AtomicDur MayV.Base.BlockerSpec MayV.Rt.ParkModel MayV.Rt.ParkTac MayV.Rt.ParkThm.
Open Scope Z_scope.

Definition ms1 : Z := 1000000.

(* the user half from the call to the yield of a park that has to wait: state.load, state.swap,
   wait_kernel.load, timeout.store, is_canceled, co_yield *)
Definition u_to_yield : list action := [AU; AU; AU; AU; AU; AU].
(* the user half after a resume: check_cancel flag, check_cancel, state.load, state.store / swap,
   remove_timeout_handle, get_co_para *)
Definition u_resume : list action := [AU; AU; AU; AU; AU; AU].

(* ------------------------------------------------------------------------------------------------ *)
(* F8: without the deadline self-check of subscribe the time-out is lost                            *)
(* ------------------------------------------------------------------------------------------------ *)

(* park_timeout(1 ms); the worker arms the timer and is then stalled for 2 ms before it publishes the
   coroutine: the timer fires into the empty slot, nobody is left to wake the coroutine *)
Definition f8_sched : list action :=
  [APark (Some ms1)] ++ u_to_yield ++
  [AK; AK; AK;                  (* timeout.take, now(), add_timer *)
   ATick (2 * ms1); ATFire 0%nat; ATTake 0%nat;    (* the stall: the timer pops the entry, finds the slot empty *)
   AK; AK; AK; AK;              (* set_timeout_handle, guard on, set_co, wait_co.store *)
   AK; AK; AK].                 (* state.load, is_canceled, guard off *)

Theorem lost_timeout_without_fixF8 :
  exists s, Reach false true true s /\ Quiescent s /\ slot s = true /\ armed_of (ud s) <> None /\
            exists i, hnd s = Some i /\ tm s i = TmDone /\ tdl s i < now s.
Proof.
  destruct (run false true true init f8_sched) as [s|] eqn:E; [|vm_compute in E; discriminate E].
  exists s. split; [eapply run_reach_gen; [apply R0 | exact E]|].
  vm_compute in E. injection E as E. subst s.
  split; [|split; [reflexivity|split; [cbn; discriminate|exists 0%nat; cbn; repeat split; reflexivity]]].
  unfold Quiescent, timers_quiet; cbn. repeat split; intros; try reflexivity.
  destruct i; exact I.
Qed.

(* hence the statement proved for the repaired code (ParkThm.quiescent_no_deadline) fails for the variant *)
Corollary quiescent_no_deadline_refuted_without_fixF8 :
  ~ (forall s, Reach false true true s -> Quiescent s -> slot s = true -> armed_of (ud s) <> None ->
               exists i, hnd s = Some i /\ tm s i = TmArmed /\ now s < tdl s i).
Proof.
  intros H. destruct lost_timeout_without_fixF8 as (s & R & Q & S & A & i & Hh & Ht & _).
  destruct (H s R Q S A) as (j & Hj & Tj & _). congruence.
Qed.

(* ------------------------------------------------------------------------------------------------ *)
(* F12: with the guard released only after the nested resume Park::drop never ends                  *)
(* ------------------------------------------------------------------------------------------------ *)

(* an unpark races with the registration (fast wake-up: subscribe resumes the coroutine itself, on its own
   stack), the coroutine returns from park, finishes and - being the last owner of its handle - drops its
   Park inside that nested resume: Park::drop spins on wait_kernel, which only the frame below can clear *)
Definition f12_sched : list action :=
  [APark None] ++ u_to_yield ++
  [AK; AK; AK; AK; AK;          (* timeout.take, set_timeout_handle, guard on, set_co, wait_co.store *)
   AUnSwap 0%nat;               (* unpark: state.swap(true) *)
   AK; AK; AK; AK;              (* deadline check, state.load = true, wait_co.take, run_coroutine (nested) *)
   AUnTake 0%nat] ++            (* the unparker finds the slot empty *)
  u_resume ++
  [AExit true].                 (* the coroutine finishes; Park::drop runs here *)

Theorem drop_blocked_without_fixF12 :
  exists s, Reach true false true s /\ dropping s = true /\ wk s = true /\
            step true false true s AK = None /\ step true false true s ADrop = Some s /\ up s = UDead.
Proof.
  destruct (run true false true init f12_sched) as [s|] eqn:E; [|vm_compute in E; discriminate E].
  exists s. split; [eapply run_reach_gen; [apply R0 | exact E]|].
  vm_compute in E. injection E as E. subst s. cbn. repeat split; reflexivity.
Qed.

Corollary drop_never_blocked_refuted_without_fixF12 :
  ~ (forall s, Reach true false true s -> dropping s = true -> wk s = true -> exists s', step true false true s AK = Some s').
Proof.
  intros H. destruct drop_blocked_without_fixF12 as (s & R & D & W & K & _).
  destruct (H s R D W) as (s' & X). congruence.
Qed.

(* ------------------------------------------------------------------------------------------------ *)
(* F31: with the registration after the publication a cancel is lost after a stale set_co            *)
(* ------------------------------------------------------------------------------------------------ *)

(* The coroutine parks on Blocker A; the worker running A's subscribe is stalled just before
   cancel.set_co(A.wait_co).  An unparker takes the coroutine out of A's slot and schedules it; the coroutine
   returns, turns to a fresh Blocker B and parks: B's subscribe registers B.wait_co with the Cancel and ends.
   Now the stalled worker continues: set_co(A.wait_co) OVERWRITES the registration.  A later cancel() takes
   A's (empty) slot out of Cancel.co: the coroutine stays parked on B although its cancel bit is set. *)
Definition stale_setco_sched : list action :=
  [ANewPark false; APark None] ++ u_to_yield ++
  [AK; AK; AK; AK; AK; AK;      (* A: timeout.take, handle, guard on, store, deadline check, state.load = false *)
   AUnSwap 0%nat; AUnTake 0%nat; AUnSched 0%nat; AResume] ++
  u_resume ++
  [ANewPark false; APark None] ++ u_to_yield ++
  [AK; AK; AK; AK; AK; AK; AK; AK; AK;   (* B: ... set_co, is_canceled, guard off *)
   AStaleSetco;                 (* A's worker: cancel.set_co(A.wait_co) *)
   ACnOr 0%nat; ACnTakeCo 0%nat; ACnTake 0%nat].

Theorem cancel_lost_after_stale_set_co_without_fixF31 :
  exists s, Reach true true false s /\ Quiescent s /\ slot s = true /\ cbit s = true /\ tainted s = true /\ ccheck s = true.
Proof.
  destruct (run true true false init stale_setco_sched) as [s|] eqn:E; [|vm_compute in E; discriminate E].
  exists s. split; [eapply run_reach_gen; [apply R0 | exact E]|].
  vm_compute in E. injection E as E. subst s.
  split; [|cbn; repeat split; reflexivity].
  unfold Quiescent, timers_quiet; cbn. repeat split; intros; try reflexivity; try (destruct i; reflexivity).
Qed.

(* hence the statement proved for the repaired code (ParkThm.quiescent_no_cancel) fails for the variant *)
Corollary quiescent_no_cancel_refuted_without_fixF31 :
  ~ (forall s, Reach true true false s -> Quiescent s -> ~ (slot s = true /\ cbit s = true)).
Proof.
  intros H. destruct cancel_lost_after_stale_set_co_without_fixF31 as (s & R & Q & S & C & _). exact (H s R Q (conj S C)).
Qed.

(* ------------------------------------------------------------------------------------------------ *)
(* non-vacuity: the hypotheses of the theorems of ParkThm.v hold in reachable states                *)
(* ------------------------------------------------------------------------------------------------ *)

Ltac run_witness sched :=
  let s := fresh "s" in let E := fresh "E" in
  destruct (run true true true init sched) as [s|] eqn:E; [|vm_compute in E; discriminate E];
  exists s; split; [eapply run_reach_gen; [apply R0 | exact E]|];
  vm_compute in E; injection E as E; subst s.

(* the kernel half of a park without timeout, from timeout.take to the release of the guard *)
Definition k_untimed : list action := [AK; AK; AK; AK; AK; AK; AK; AK; AK].
(* ... of a timed park: timeout.take, now(), add_timer, handle, guard on, set_co, store, deadline check,
   state.load, is_canceled, guard off *)
Definition k_timed : list action := [AK; AK; AK; AK; AK; AK; AK; AK; AK; AK; AK].

(* the coroutine rests in the slot, the token is set, an unparker is between swap and take *)
Example ex_token_unparker :
  exists s, ReachF s /\ slot s = true /\ pstate s = true /\ kp s = KIdle /\ un s 0%nat = NTake false.
Proof. run_witness ([APark None] ++ u_to_yield ++ k_untimed ++ [AUnSwap 0%nat]). cbn. repeat split; reflexivity. Qed.

(* the unpark raced with the registration: the coroutine is in the slot, the token is set, nobody but the
   kernel half (about to re-check) will wake it: the unparker found the slot empty *)
Example ex_token_kernel :
  exists s, ReachF s /\ slot s = true /\ pstate s = true /\ kp s = KSload /\ forall i, un s i = NIdle.
Proof.
  run_witness ([APark None] ++ u_to_yield ++ [AK; AK; AK; AK; AUnSwap 0%nat; AUnTake 0%nat; AK; AK]).
  cbn. repeat split; try reflexivity. intros i; destruct i; reflexivity.
Qed.

(* a quiescent state with the coroutine parked (no token, no cancel): Quiescent /\ slot is satisfiable *)
Example ex_quiescent_parked :
  exists s, ReachF s /\ Quiescent s /\ slot s = true /\ pstate s = false /\ cbit s = false.
Proof.
  run_witness ([APark None] ++ u_to_yield ++ k_untimed).
  split; [|cbn; repeat split; reflexivity].
  unfold Quiescent, timers_quiet; cbn. repeat split; intros; try reflexivity; try (destruct i; reflexivity).
Qed.

(* ... and in a timed park, with the timer armed and its deadline ahead *)
Example ex_quiescent_timed :
  exists s, ReachF s /\ Quiescent s /\ slot s = true /\ armed_of (ud s) <> None /\
            hnd s = Some 0%nat /\ tm s 0%nat = TmArmed /\ now s < tdl s 0%nat.
Proof.
  run_witness ([APark (Some ms1)] ++ u_to_yield ++ k_timed).
  split; [|cbn; repeat split; try reflexivity; discriminate].
  unfold Quiescent, timers_quiet; cbn. repeat split; intros; try reflexivity; try (destruct i; reflexivity).
Qed.

(* the deadline passed while the coroutine is in the slot: the timer thread can fire *)
Example ex_deadline_passed :
  exists s, ReachF s /\ slot s = true /\ hnd s = Some 0%nat /\ tm s 0%nat = TmArmed /\ tdl s 0%nat <= now s.
Proof.
  run_witness ([APark (Some ms1)] ++ u_to_yield ++ k_timed ++ [ATick ms1]).
  cbn. repeat split; try reflexivity.
Qed.

(* the cancel bit is set, the coroutine is in the slot and registered, a canceller is on its way *)
Example ex_cancel_pending :
  exists s, ReachF s /\ slot s = true /\ cbit s = true /\ kp s = KIdle /\
            cco s = CThis /\ cn s 0%nat = CTakeCo.
Proof. run_witness ([APark None] ++ u_to_yield ++ k_untimed ++ [ACnOr 0%nat]). cbn. repeat split; reflexivity. Qed.

(* the cancel raced with the registration: the canceller took the registration out of Cancel.co but found the
   slot still empty; nobody but the kernel half (about to re-check the cancel bit) will wake the coroutine *)
Example ex_cancel_kernel :
  exists s, ReachF s /\ slot s = true /\ cbit s = true /\ kp s = KCchk /\ cco s = CNone /\ forall i, cn s i = CIdle.
Proof.
  run_witness ([APark None] ++ u_to_yield ++
               [AK; AK; AK; AK; ACnOr 0%nat; ACnTakeCo 0%nat; ACnTake 0%nat; AK; AK; AK]).
  cbn. repeat split; try reflexivity. intros i; destruct i; reflexivity.
Qed.

(* unpark before park *)
Example ex_token_first : exists s, ReachF s /\ tok0 s = true /\ in_park (up s) = true.
Proof. run_witness [AUnSwap 0%nat; APark None]. cbn. repeat split; reflexivity. Qed.

(* the three verdicts on a fresh Park *)
Example ex_ok_fresh : exists s, ReachF s /\ fresh s /\ up s = UPara /\ ctok s = true /\
            exists s', park_returns s s' VOk.
Proof.
  run_witness ([ANewPark false; APark None] ++ u_to_yield ++ k_untimed ++
               [AUnSwap 0%nat; AUnTake 0%nat; AUnSched 0%nat; AResume; AU; AU; AU; AU; AU]).
  unfold fresh, park_returns. cbn. repeat split; try reflexivity; try lia.
  eexists. repeat split; reflexivity.
Qed.

Example ex_timeout_fresh : exists s, ReachF s /\ fresh s /\ ud s = Some ms1 /\ exists s', park_returns s s' VTimeout.
Proof.
  run_witness ([ANewPark false; APark (Some ms1)] ++ u_to_yield ++ k_timed ++
               [ATick ms1; ATFire 0%nat; ATTake 0%nat; ATRun 0%nat; AU; AU; AU; AU; AU]).
  unfold fresh, park_returns. cbn. repeat split; try reflexivity; try lia.
  eexists. repeat split; reflexivity.
Qed.

(* Canceled is reported to a caller that asked for it (Blocker::new(ignore_cancel = true)) *)
Example ex_canceled_fresh : exists s, ReachF s /\ fresh s /\ cbit s = true /\ exists s', park_returns s s' VCanceled.
Proof.
  run_witness ([ANewPark true; APark None] ++ u_to_yield ++ k_untimed ++
               [ACnOr 0%nat; ACnTakeCo 0%nat; ACnTake 0%nat; ACnSched 0%nat; AResume; AU; AU; AU; AU]).
  unfold fresh, park_returns. cbn. repeat split; try reflexivity; try lia.
  eexists. repeat split; reflexivity.
Qed.

(* (v) is needed.  Spurious Ok on the shared Park: an unparker swaps the token, the parker's first park
   consumes it (Ok, justified), the second park suspends, and only now the unparker's wait_co.take() arrives *)
Example spurious_ok_on_shared_park :
  exists s, ReachF s /\ up s = UPara /\ ctok s = false /\ wsrc s = WUn true /\ ncall s = 2%nat /\
            exists s', park_returns s s' VOk.
Proof.
  run_witness ([AUnSwap 0%nat; APark None; AU; AU; APark None] ++ u_to_yield ++ k_untimed ++
               [AUnTake 0%nat; AUnSched 0%nat; AResume; AU; AU; AU; AU; AU]).
  unfold park_returns. cbn. repeat split; try reflexivity.
  eexists. repeat split; reflexivity.
Qed.

(* Spurious Timeout on the shared Park: park_timeout(1 ms) is unparked in time, but the timer thread pops the
   entry before the requested removal takes effect; its callback finds the coroutine of the NEXT park
   (without timeout!) in the slot *)
Example spurious_timeout_on_shared_park :
  exists s, ReachF s /\ up s = UPara /\ ud s = None /\ wsrc s = WTm true /\ ncall s = 2%nat /\
            exists s', park_returns s s' VTimeout.
Proof.
  run_witness ([APark (Some ms1)] ++ u_to_yield ++ k_timed ++
               [AUnSwap 0%nat; AUnTake 0%nat; AUnSched 0%nat; AResume] ++ u_resume ++
               [ATick ms1; ATFire 0%nat; APark None] ++ u_to_yield ++ k_untimed ++
               [ATTake 0%nat; ATRun 0%nat; AU; AU; AU; AU; AU]).
  unfold park_returns. cbn. repeat split; try reflexivity.
  eexists. repeat split; reflexivity.
Qed.
