(* SchedLoopModel: invariants about sleeping workers (first select, deadline) and about the rounds of the loop. *)
From Coq Require Import List Arith ZArith NArith Bool Lia.
Import ListNotations.
Require Import MayV.Rt.SchedModel MayV.Rt.SchedInv MayV.Rt.SchedTac MayV.Rt.SchedLoopModel MayV.Rt.SchedLoopBase
  MayV.Rt.SchedLoopInv MayV.Rt.SchedLoopStruct MayV.Rt.SchedLoopQueues.

(* a push into a local queue is done by code running on that worker *)
Lemma base_ok_local P l b t : base_ok P l b = true -> push_target (base l) b = Some (QL t) -> is_co (wpc l t) = true.
Proof.
  intros G T. destruct b; cbn [push_target] in T; try discriminate T.
  - destruct (cur (base l) t0); [|discriminate]. destruct (apc (base l) a); discriminate.
  - inversion T; subst. cbn [base_ok] in G. apply andb_true_iff in G. destruct G as [G1 G2].
    apply Nat.ltb_lt in G1. now apply thread_ok_worker in G2.
  - destruct (stk (base l) t0) as [|[| |] ?]; try discriminate. destruct k; discriminate.
  - discriminate G.
  - inversion T; subst. cbn [base_ok] in G. apply andb_true_iff in G. apply G.
  - inversion T; subst. cbn [base_ok] in G. apply andb_true_iff in G. apply G.
Qed.

(* fields of worker w that only w's own loop changes *)
Lemma own_fields_base P l b l0 : tmo (ctl_base P l b l0) = tmo l0 /\ dl (ctl_base P l b l0) = dl l0 /\
  slept (ctl_base P l b l0) = slept l0 /\ now (ctl_base P l b l0) = now l0.
Proof. unfold ctl_base. dmatch; repeat split; reflexivity. Qed.

Lemma own_fields_other P l a s' w : actor a <> Some w ->
  tmo (ctl P l a s') w = tmo l w /\ dl (ctl P l a s') w = dl l w /\ slept (ctl P l a s') w = slept l w.
Proof.
  intro NA. destruct a; cbn [actor] in NA; unfold ctl;
    try (destruct (own_fields_base P l a (l_base l s')) as (-> & -> & -> & _); repeat split; reflexivity);
    dmatch; unfold grabbed, taken; dmatch; lsimp; rewrite ?upd_neq by congruence; repeat split; reflexivity.
Qed.

Lemma now_mono P l a l' : lstep P l a = Some l' -> (now l <= now l')%N.
Proof.
  intro H. destruct (lstep_inv _ _ _ _ H) as (_ & s' & -> & _).
  destruct a; unfold ctl; try (destruct (own_fields_base P l a (l_base l s')) as (_ & _ & _ & ->); reflexivity);
    dmatch; unfold grabbed, taken; dmatch; lsimp; lia.
Qed.

Definition FSInv (l : lst) : Prop :=
  forall w, tmo l w = None -> wpc l w = PWait \/ wpc l w = PSleep -> lq (base l) w = [].
Definition DLInv (l : lst) : Prop :=
  forall w, wpc l w = PSleep ->
    dl l w = option_map (fun t => (slept l w + rnd t)%N) (tmo l w) /\ (slept l w <= now l)%N.

Lemma sleepy_actor P l a s' w : actor a = Some w -> guard P l a = true ->
  wpc (ctl P l a s') w = PWait \/ wpc (ctl P l a s') w = PSleep ->
  (exists nx, a = LTmDone w nx /\ tmo (ctl P l a s') w <> None /\
              (budgeted P = true -> lq (base l) w <> [] -> tmo (ctl P l a s') w = Some 0%N)) \/
  (exists io, a = LPoll w io /\ wpc l w = PWait /\ tmo (ctl P l a s') w = tmo l w /\
     (wpc (ctl P l a s') w = PSleep ->
      dl (ctl P l a s') w = option_map (fun t => (now l + rnd t)%N) (tmo l w) /\ slept (ctl P l a s') w = now l /\
      now (ctl P l a s') = now l /\ is_zero (tmo l w) = false)).
Proof.
  intros A G. destruct a; cbn [actor] in A; try discriminate A; inversion A; subst w0; clear A; cbn [guard] in G; gsplit G.
  all: match goal with G : _ |- _ => progress pcs G end.
  all: unfold ctl; rewrite ?E.
  all: try (dmatch; unfold grabbed, taken; dmatch; lsimp; rewrite ?upd_eq, ?E; intros [X|X]; discriminate X).
  - intros _. right. exists io. split; [reflexivity|]. split; [reflexivity|].
    destruct (evfd l w || io); cbn [orb]; [|destruct (is_zero (tmo l w)) eqn:Z]; lsimp; rewrite ?upd_eq; (split; [reflexivity|]);
      intro X; try discriminate X; auto.
  - intros _. left. exists nx. split; [reflexivity|]. lsimp. rewrite upd_eq. split; [discriminate|].
    intros -> NE. destruct (lq (base l) w); [congruence | reflexivity].
Qed.

Lemma fsinv_step P l a l' : FSInv l -> lstep P l a = Some l' -> FSInv l'.
Proof.
  intros I H w T S.
  destruct (lstep_inv _ _ _ _ H) as (G & s' & E & _).
  assert (OLD : tmo l w = None /\ (wpc l w = PWait \/ wpc l w = PSleep)).
  { destruct (option_nat_dec (actor a) (Some w)) as [A|NA].
    - subst l'. destruct (sleepy_actor P l a s' w A G S) as [(nx & _ & X & _)|(io & _ & X & Y & _)]; [contradiction|].
      split; [congruence | auto].
    - subst l'. rewrite wpc_ctl_other in S by exact NA. destruct (own_fields_other P l a s' w NA) as (X & _). split; [congruence | exact S]. }
  destruct OLD as [T0 S0]. specialize (I w T0 S0).
  destruct (lstep_lq _ _ _ _ w H) as [A|[(x & A & _)|(x & A & [B|(b & B & C)])]].
  - congruence.
  - rewrite I in A. discriminate.
  - subst a. cbn [guard] in G. gsplit G. destruct S0 as [S0|S0]; rewrite S0 in G1; discriminate.
  - subst a. cbn [guard] in G. apply (base_ok_local _ _ _ _ G) in C. destruct S0 as [S0|S0]; rewrite S0 in C; discriminate.
Qed.

Lemma dlinv_step P l a l' : DLInv l -> lstep P l a = Some l' -> DLInv l'.
Proof.
  intros I H w S. pose proof (now_mono _ _ _ _ H) as NM.
  destruct (lstep_inv _ _ _ _ H) as (G & s' & E & _).
  destruct (option_nat_dec (actor a) (Some w)) as [A|NA].
  - subst l'. destruct (sleepy_actor P l a s' w A G (or_intror S)) as [(nx & -> & _)|(io & _ & _ & X & Y)].
    + unfold ctl in S. lsimp. rewrite upd_eq in S. discriminate.
    + destruct (Y S) as (Y1 & Y2 & Y3 & _). rewrite Y1, Y2, X, Y3. split; [reflexivity | lia].
  - subst l'. rewrite wpc_ctl_other in S by exact NA. destruct (own_fields_other P l a s' w NA) as (X1 & X2 & X3).
    rewrite X1, X2, X3. destruct (I w S) as (I1 & I2). split; [exact I1 | lia].
Qed.

Lemma fsinv_reach P n l : LReach P n l -> FSInv l.
Proof. induction 1; [intros w _ _; reflexivity | eapply fsinv_step; eauto]. Qed.
Lemma dlinv_reach P n l : LReach P n l -> DLInv l.
Proof. induction 1; [intros w X; discriminate X | eapply dlinv_step; eauto]. Qed.

(* ---- rounds: every call of run_queued_tasks completes a collect_global before it returns (work_steal) ---- *)
(* before the fix: run_queued_tasks returns only through `local.pop() = None -> collect_global`; with the budget: also when
   the budget is used up, and then - if 1 <= interval < budget - a collect_global was done when the remaining budget passed
   the largest multiple of the interval *)
Definition after_collect (p : lpc) : bool :=
  match p with PHas | PSteal _ | PTim | PRes RTim | PCo RTim => true | _ => false end.
Definition in_call (p : lpc) : bool :=
  match p with
  | PRun | PRes RRun | PCo RRun | PRes RSt | PCo RSt | PColl FromRun | PPut FromRun | PColl FromBud | PPut FromBud
  | PHas | PSteal _ | PStPut => true
  | _ => false end.
Definition bud_coll (p : lpc) : bool := match p with PColl FromBud | PPut FromBud => true | _ => false end.
Definition coll_ok (P : params) : Prop := budgeted P = false \/ (1 <= interval P /\ interval P < budget P).

Definition RCInv (P : params) (l : lst) : Prop :=
  (forall w, coll0 l w <= ncoll l w) /\
  (work_steal P = true -> coll_ok P -> forall w, after_collect (wpc l w) = true -> coll0 l w < ncoll l w) /\
  (budgeted P = true -> 1 <= interval P < budget P -> forall w, in_call (wpc l w) = true ->
     coll0 l w < ncoll l w \/ interval P < bud l w \/ bud_coll (wpc l w) = true).

Lemma after_actor P l a s' w : work_steal P = true -> actor a = Some w -> guard P l a = true ->
  after_collect (wpc (ctl P l a s') w) = true ->
  after_collect (wpc l w) = true \/ (a = LBulkEnd w /\ hand (base l) w = []) \/
  (a = LCoRet w /\ wpc l w = PCo RRun /\ budgeted P = true /\ Nat.pred (bud l w) = 0).
Proof.
  intros WS A G. destruct a; cbn [actor] in A; try discriminate A; inversion A; subst w0; clear A; cbn [guard] in G; gsplit G.
  all: match goal with G : _ |- _ => progress pcs G end.
  all: unfold ctl; rewrite ?E, ?WS.
  all: try (dmatch; unfold grabbed, taken; dmatch; lsimp; rewrite ?upd_eq, ?E; cbn [after_collect]; intro X; try discriminate X; auto; fail).
  (* LCoRet from run_coroutine after local.pop *)
  destruct r; try (lsimp; rewrite upd_eq; cbn [after_collect]; intro X; try discriminate X; auto; fail).
  destruct (budgeted P) eqn:BU; [|lsimp; rewrite upd_eq; intro X; discriminate X].
  destruct (Nat.eqb (Nat.pred (bud l w)) 0) eqn:Z.
  - apply Nat.eqb_eq in Z. intros _. right; right. auto.
  - destruct (Nat.eqb (Nat.pred (bud l w) mod interval P) 0); lsimp; rewrite upd_eq; intro X; discriminate X.
Qed.

Lemma bud_fields_base P l b l0 : bud (ctl_base P l b l0) = bud l0.
Proof. unfold ctl_base. dmatch; reflexivity. Qed.

Lemma bud_other P l a s' w : actor a <> Some w -> bud (ctl P l a s') w = bud l w.
Proof.
  intro NA. destruct a; cbn [actor] in NA; unfold ctl; try (rewrite bud_fields_base; reflexivity);
    dmatch; unfold grabbed, taken; dmatch; lsimp; rewrite ?upd_neq by congruence; reflexivity.
Qed.

(* the budget clause for the acting worker *)
Lemma budget_actor P l a s' w : budgeted P = true -> 1 <= interval P < budget P -> actor a = Some w -> guard P l a = true ->
  coll0 l w <= ncoll l w ->
  (in_call (wpc l w) = true -> coll0 l w < ncoll l w \/ interval P < bud l w \/ bud_coll (wpc l w) = true) ->
  in_call (wpc (ctl P l a s') w) = true ->
  coll0 (ctl P l a s') w < ncoll (ctl P l a s') w \/ interval P < bud (ctl P l a s') w \/ bud_coll (wpc (ctl P l a s') w) = true.
Proof.
  intros BU IB A G C0 I. destruct a; cbn [actor] in A; try discriminate A; inversion A; subst w0; clear A; cbn [guard] in G; gsplit G.
  all: match goal with G : _ |- _ => progress pcs G end.
  all: try rewrite E in I; cbn [in_call bud_coll] in I; unfold ctl; rewrite ?E, ?BU.
  all: try (dmatch; unfold grabbed, taken, inc; dmatch; lsimp; rewrite ?upd_eq, ?E; cbn [in_call bud_coll]; intro X; try discriminate X;
            try (destruct (I eq_refl) as [Y|[Y|Y]]; try discriminate Y); auto; try (left; lia); fail).
  - (* LEvDone: a new call of run_queued_tasks *) intros _. right; left. lsimp. rewrite upd_eq. lia.
  - (* LCoRet *) destruct r; try (lsimp; rewrite ?upd_eq; cbn [in_call bud_coll]; intro X; try discriminate X;
                                   destruct (I eq_refl) as [Y|[Y|Y]]; try discriminate Y; auto; fail).
    destruct (I eq_refl) as [Y|[Y|Y]]; [| |discriminate Y].
    + intros _. left. dmatch; lsimp; exact Y.
    + assert (B0 : Nat.eqb (Nat.pred (bud l w)) 0 = false) by (apply Nat.eqb_neq; lia). rewrite B0.
      destruct (Nat.eqb (Nat.pred (bud l w) mod interval P) 0) eqn:M; intros _.
      * right; right. lsimp. now rewrite upd_eq.
      * right; left. lsimp. rewrite upd_eq. apply Nat.eqb_neq in M.
        destruct (Nat.eq_dec (Nat.pred (bud l w)) (interval P)) as [EQ|NE]; [|lia].
        rewrite EQ, Nat.mod_same in M by lia. congruence.
Qed.

Lemma rcinv_step P l a l' : RCInv P l -> lstep P l a = Some l' -> RCInv P l'.
Proof.
  intros (I1 & I2 & I3) H. split; [|split].
  - intro w. specialize (I1 w). pose proof (lstep_ncoll_mono _ _ _ _ w H).
    destruct (lstep_nsel _ _ _ _ w H) as [[_ ->]|(nx & _ & _ & _ & ->)]; lia.
  - intros WS OK w AC. destruct (lstep_inv _ _ _ _ H) as (G & s' & E & _).
    destruct (option_nat_dec (actor a) (Some w)) as [A|NA].
    + subst l'. destruct (after_actor P l a s' w WS A G AC) as [B|[[-> B]|(-> & PC & BU & Z)]].
      * specialize (I2 WS OK w B). pose proof (lstep_ncoll_mono _ _ _ _ w H).
        destruct (lstep_nsel _ _ _ _ w H) as [[_ ->]|(nx & -> & _)]; [lia|].
        unfold ctl in AC. lsimp. rewrite upd_eq in AC. discriminate.
      * specialize (I1 w). destruct (lstep_nsel _ _ _ _ w H) as [[_ ->]|(nx & X & _)]; [|discriminate X].
        destruct (lstep_ncoll _ _ _ _ w H) as [X|(_ & _ & _ & ->)]; [|lia].
        exfalso. cbn [guard] in G. gsplit G. pcs G1. unfold ctl in X. rewrite E, B in X. unfold inc in X. lsimp.
        rewrite upd_eq in X. lia.
      * (* the budget is used up *)
        destruct OK as [OK|OK]; [congruence|].
        destruct (I3 BU OK w ltac:(rewrite PC; reflexivity)) as [Y|[Y|Y]]; [| lia | rewrite PC in Y; discriminate Y].
        pose proof (lstep_ncoll_mono _ _ _ _ w H).
        destruct (lstep_nsel _ _ _ _ w H) as [[_ ->]|(nx & X & _)]; [lia | discriminate X].
    + subst l'. rewrite wpc_ctl_other in AC by exact NA. specialize (I2 WS OK w AC).
      pose proof (lstep_ncoll_mono _ _ _ _ w H).
      destruct (lstep_nsel _ _ _ _ w H) as [[_ ->]|(nx & -> & _)]; [lia|]. cbn in NA. congruence.
  - intros BU IB w IC. destruct (lstep_inv _ _ _ _ H) as (G & s' & E & _).
    destruct (option_nat_dec (actor a) (Some w)) as [A|NA].
    + subst l'. apply (budget_actor P l a s' w BU IB A G (I1 w) (I3 BU IB w) IC).
    + pose proof (lstep_ncoll_mono _ _ _ _ w H) as M.
      assert (C : coll0 l' w = coll0 l w).
      { destruct (lstep_nsel _ _ _ _ w H) as [[_ X]|(nx & -> & _)]; [exact X | cbn in NA; congruence]. }
      subst l'. rewrite wpc_ctl_other in IC |- * by exact NA. rewrite bud_other by exact NA.
      destruct (I3 BU IB w IC) as [Y|[Y|Y]]; auto. left. lia.
Qed.

Lemma rcinv_reach P n l : LReach P n l -> RCInv P l.
Proof.
  induction 1; [|eapply rcinv_step; eauto].
  split; [intro; cbn; lia|]. split; [intros _ _ w X; discriminate X | intros _ _ w X; discriminate X].
Qed.
