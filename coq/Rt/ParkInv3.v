(* C02 - who woke the coroutine, what the generator `para` says, why an Ok is backed by a token: Inv3
   (ParkInv3Def.v) holds in every reachable state. *)
From Coq Require Import List ZArith Bool Arith Lia.
Import ListNotations.
Require Import MayV.Rt.AtomicDur MayV.Base.BlockerSpec MayV.Rt.ParkModel MayV.Rt.ParkTac MayV.Rt.ParkInv1 MayV.Rt.ParkInv2 MayV.Rt.ParkInv3Def MayV.Rt.ParkInv3a MayV.Rt.ParkInv3b MayV.Rt.ParkInv3c MayV.Rt.ParkInv3d.
Open Scope Z_scope.

Export MayV.Rt.ParkInv3Def.

Lemma inv3_step s a s' : Inv1 s -> Inv2 s -> Inv3 s -> stepF s a = Some s' -> Inv3 s'.
Proof.
  intros I1 I2 I3 H; destruct a.
  - eapply inv3_APark; eassumption.
  - eapply inv3_AU; eassumption.
  - eapply inv3_AAway; eassumption.
  - eapply inv3_AExit; eassumption.
  - eapply inv3_ANewPark; eassumption.
  - eapply inv3_AK; eassumption.
  - eapply inv3_AUnSwap; eassumption.
  - eapply inv3_AUnTake; eassumption.
  - eapply inv3_AUnSched; eassumption.
  - eapply inv3_AUnRun; eassumption.
  - eapply inv3_ACnOr; eassumption.
  - eapply inv3_ACnTakeCo; eassumption.
  - eapply inv3_ACnTake; eassumption.
  - eapply inv3_ACnSched; eassumption.
  - eapply inv3_ATFire; eassumption.
  - eapply inv3_ATDrop; eassumption.
  - eapply inv3_ATTake; eassumption.
  - eapply inv3_ATRun; eassumption.
  - eapply inv3_ATick; eassumption.
  - eapply inv3_AResume; eassumption.
  - eapply inv3_AStaleSetco; eassumption.
  - eapply inv3_AOldKDone; eassumption.
  - eapply inv3_ADrop; eassumption.
Qed.

Theorem inv3_reach s : ReachF s -> Inv1 s /\ Inv2 s /\ Inv3 s.
Proof.
  induction 1 as [|s a s' R (I1 & I2 & I3) H].
  - split; [apply inv1_init | split; [apply inv2_init | apply inv3_init]].
  - split; [eapply inv1_step; eauto | split; [eapply inv2_step; eauto | eapply inv3_step; eauto]].
Qed.
