(* C03 - mpsc/spsc block queues are linearizable FIFO.  Property theorems only: each is closed by
   `exact` of a lemma proved elsewhere and followed by Print Assumptions. *)
From Coq Require Import List ZArith.
Import ListNotations.
Require Import MayV.Queue.MpscCore MayV.Queue.MpscInv MayV.Queue.MpscThm MayV.Queue.MpscAccept.

(* Every value a pop hands out is the head of the abstract FIFO (push linearised at the reserving
   CAS; for the last slot of a block at the `ready` store): nothing lost, duplicated, invented or
   re-ordered, for every block size, any number of producers, any schedule. *)
Theorem C03_mpsc_pop_returns_fifo_head :
  forall B, 1 <= B -> forall s, Reach B s -> bad_fifo s = false.
Proof. exact pops_return_abstract_head. Qed.
Print Assumptions C03_mpsc_pop_returns_fifo_head.

(* A pop answers "empty" only if the abstract FIFO was empty at some step of that call. *)
Theorem C03_mpsc_empty_only_if_possibly_empty :
  forall B, 1 <= B -> forall s, Reach B s -> bad_none s = false.
Proof. exact empty_answers_justified. Qed.
Print Assumptions C03_mpsc_empty_only_if_possibly_empty.

(* The abstract FIFO is the reserved values in slot order. *)
Theorem C03_mpsc_queue_is_slot_order :
  forall B, 1 <= B -> forall s, Reach B s ->
  absq s = map (rv s) (seq (hidx s) (lpb B s - hidx s)).
Proof. exact abstract_queue_is_slot_order. Qed.
Print Assumptions C03_mpsc_queue_is_slot_order.

(* Tie: every state along a trace of the real queue that the acceptor accepts is reachable,
   hence satisfies the three theorems above. *)
Theorem C03_mpsc_accepted_traces_are_model_runs :
  forall B tr s s', Reach B s -> accept_all B s tr = Some s' -> Reach B s'.
Proof. exact accept_all_reach. Qed.
Print Assumptions C03_mpsc_accepted_traces_are_model_runs.
