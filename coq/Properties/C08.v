(* C08 - timed waits never fire early, never hang, fire promptly - for every duration.
   Property theorems only.  Part (i): the timeout encoding (src/sync/atomic_dur.rs).
   Part (ii): TimeOutList as a sequential object (src/timeout_list.rs). *)
From Coq Require Import ZArith List Sorting.Sorted.
Import ListNotations.
Require Import MayV.Rt.AtomicDur MayV.Rt.TimeoutList.
Open Scope Z_scope.

(* the armed timeout is never shorter than what was asked for and less than 1 ms longer,
   for every duration up to the cap of about 292 years *)
Theorem C08_armed_never_early_at_most_1ms_late :
  forall d t, 0 <= d -> ceil_ms d <= CAP -> armed d = Some t -> d <= t < d + MS.
Proof. exact armed_bounds. Qed.
Print Assumptions C08_armed_never_early_at_most_1ms_late.

(* Some(d) is never mistaken for "no timeout" - including zero and sub-millisecond durations *)
Theorem C08_some_is_never_none : forall d, 0 <= d -> exists t, armed d = Some t.
Proof. exact some_is_never_none. Qed.
Print Assumptions C08_some_is_never_none.

Theorem C08_zero_is_zero : armed 0 = Some 0.
Proof. exact armed_zero. Qed.
Print Assumptions C08_zero_is_zero.

(* beyond the cap the wait saturates, it never wraps around to a short one *)
Theorem C08_huge_durations_saturate : forall d, CAP < ceil_ms d -> armed d = Some (CAP * MS).
Proof. exact armed_saturates. Qed.
Print Assumptions C08_huge_durations_saturate.

(* the armed nanoseconds fit the timer's u64 clock *)
Theorem C08_armed_fits_clock : forall d t, 0 <= d -> armed d = Some t -> 0 <= t /\ t + 2 ^ 63 < W.
Proof. exact armed_fits_clock. Qed.
Print Assumptions C08_armed_fits_clock.

(* what the repair (commit "fix: AtomicDuration rounds up ...") changed: the old encoding lost, shortened and wrapped timeouts *)
Theorem C08_old_encoding_refuted :
  armed0 500000 = None /\ armed0 0 = None /\ armed0 1900000 = Some 1000000 /\ armed0 (W * MS + 5 * MS) = Some (5 * MS).
Proof. exact armed0_refuted. Qed.
Print Assumptions C08_old_encoding_refuted.

(* one interval list: exactly the due prefix fires (never early) ... *)
Theorem C08_list_fires_only_due_entries :
  forall now l f r e, pop_due now l = (f, r) -> In e (firstn (length f) l) -> fst e <= now.
Proof. exact pop_due_only_due. Qed.
Print Assumptions C08_list_fires_only_due_entries.

(* ... and with non-decreasing deadlines (same interval, monotone clock) nothing due is left behind *)
Theorem C08_list_leaves_nothing_due :
  forall now l f r, pop_due now l = (f, r) -> StronglySorted (fun a b => fst a <= fst b) l -> Forall (fun e => now < fst e) r.
Proof. exact pop_due_complete. Qed.
Print Assumptions C08_list_leaves_nothing_due.

Example C08_nonvacuous : armed 1900000 = Some 2000000 /\ armed 500000 = Some 1000000 /\
  tl_run [1; 1000000; 1; 2; 1000000; 3] = [1; 1; 1; -1].
Proof. vm_compute. repeat split. Qed.
