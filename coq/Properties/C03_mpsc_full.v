(* C03, full mpsc part - may_queue::mpsc::Queue with its block chain, block retirement through old_block,
   allocator-chosen block addresses (a freed address may be issued again: ABA on the packed tail word is in
   scope), bulk_pop, peek, len / is_empty and Queue::drop.  Property theorems only: each is closed by `exact`
   of a lemma proved elsewhere and followed by Print Assumptions.
   Model: Queue/MpscFullModel.v (one transition per shared access, block size B, any number of pushers, one
   consumer; `true` = the old_block delay of the code), st = (M memory, P pushers, C consumer, G ghost, F monitors).
   nlin s = pushes linearised so far (LP = the reserving CAS, for the last index of a block the ready store),
   rlog = reservation log (pusher, value) in slot order, absq = abstract FIFO, popped = values handed out. *)
From Coq Require Import List ZArith Arith.
Import ListNotations.
Require Import MayV.Queue.MpscFullModel MayV.Queue.MpscFullInv MayV.Queue.MpscFullPresC1 MayV.Queue.MpscFullThm
  MayV.Queue.MpscFullCount MayV.Queue.MpscFullWitness MayV.Queue.MpscFullAccept.

(* (i) Exactly once, nothing invented, across blocks: the values handed out so far followed by the abstract queue
   are the reserved values in slot order, up to the linearisation bound; at most ONE reserved value is not yet
   linearised, and then the closing bit is set (the push of a last index between its CAS and its ready store). *)
Theorem C03_mpsc_full_exactly_once :
  forall B, 1 <= B -> forall s, Reach B true s ->
  popped (G s) ++ absq (G s) = map snd (firstn (nlin B s) (rlog (G s))) /\
  length (popped (G s)) = hidx (M s) /\
  nlin B s <= length (rlog (G s)) /\ length (rlog (G s)) <= S (nlin B s) /\
  (length (rlog (G s)) = S (nlin B s) -> tc (M s) = true).
Proof. exact exactly_once. Qed.
Print Assumptions C03_mpsc_full_exactly_once.

(* (i) every reserved slot has exactly one writer: two pushers between CAS and ready store never work on the same
   (block, index), and the log names the pusher and its value for that slot *)
Theorem C03_mpsc_full_reserved_slots_have_one_owner :
  forall B, 1 <= B -> forall s p q, Reach B true s -> p <> q ->
  (pp (P s p) = PWrite \/ pp (P s p) = PReady) -> (pp (P s q) = PWrite \/ pp (P s q) = PReady) ->
  (gk (P s p), li (P s p)) <> (gk (P s q), li (P s q)) /\
  nth (pslot B (P s p)) (rlog (G s)) (0, 0) = (p, pv (P s p)).
Proof. exact reserved_slots_have_one_owner. Qed.
Print Assumptions C03_mpsc_full_reserved_slots_have_one_owner.

(* (ii) pop / bulk_pop / peek never return anything but the head(s) of the abstract FIFO, in order (monitor form) *)
Theorem C03_mpsc_full_pops_return_fifo_heads :
  forall B, 1 <= B -> forall s, Reach B true s -> bad_fifo (F s) = false.
Proof. exact pops_return_fifo_heads. Qed.
Print Assumptions C03_mpsc_full_pops_return_fifo_heads.

(* (ii) ... and at the linearisation point (the head.index store) what is returned is a non-empty prefix of the
   abstract FIFO that lies inside the head block: bulk_pop never crosses a block boundary *)
Theorem C03_mpsc_full_commit_returns_prefix :
  forall B, 1 <= B -> forall s, Reach B true s -> cp (C s) = CCommit ->
  cacc (C s) = firstn (length (cacc (C s))) (absq (G s)) /\ 1 <= length (cacc (C s)) /\
  hidx (M s) + length (cacc (C s)) <= S (ghk (G s)) * B /\ ghk (G s) * B <= hidx (M s).
Proof. exact commit_returns_prefix. Qed.
Print Assumptions C03_mpsc_full_commit_returns_prefix.

(* (ii) "empty" answers: pop / bulk_pop (also the pops of Queue::drop) answer None / nothing only if the abstract
   FIFO was empty at some transition of that call, also while the closing bit makes push_index() under-report;
   peek answers None only if the abstract FIFO holds nothing but the value of the ONE push that is still inside
   its last-index protocol (it has not returned: the history is linearizable with that push ordered later) *)
Theorem C03_mpsc_full_empty_answers_justified :
  forall B, 1 <= B -> forall s, Reach B true s -> bad_none (F s) = false.
Proof. exact empty_answers_justified. Qed.
Print Assumptions C03_mpsc_full_empty_answers_justified.

(* (ii) len() (and is_empty) called by the consumer: at most the abstract length at its return, at least the
   abstract length at its call minus that ONE pending last-index push.  PARTIAL with respect to DESIGN C03 (iii)
   ("between the abstract lengths at call and return"): that bound is refuted below for the fixed LP assignment. *)
Theorem C03_mpsc_full_len_bounds_partial :
  forall B, 1 <= B -> forall s, Reach B true s -> bad_len (F s) = false.
Proof. exact len_bounds. Qed.
Print Assumptions C03_mpsc_full_len_bounds_partial.
(* the refutation (block size 2): push 11 returned; push 12 took the last index, published it (its LP) and was
   preempted before tail.store; len() then answers 1 while the abstract queue holds 2 values during the whole call.
   Not a defect of the queue: push 12 has not returned, so its LP may be placed after the len(). *)
Theorem C03_mpsc_full_len_between_call_and_return_refuted :
  exists s, Reach 2 true s /\ cp (C s) = CIdle /\ cop (C s) = OLen /\ cres (C s) < glen0 (G s) /\ cres (C s) < length (absq (G s)).
Proof. exact len_below_abstract_length. Qed.
Print Assumptions C03_mpsc_full_len_between_call_and_return_refuted.
(* the same window for peek: None although the abstract queue is not empty (the one value is that pending push) *)
Theorem C03_mpsc_full_peek_none_only_if_empty_refuted :
  exists s, Reach 2 true s /\ cp (C s) = CIdle /\ cop (C s) = OPeek /\ cret (C s) = [] /\ absq (G s) <> [].
Proof. exact peek_none_on_nonempty. Qed.
Print Assumptions C03_mpsc_full_peek_none_only_if_empty_refuted.

(* (v) the three theorems of the linearisation core, on the full model: the abstract FIFO is the reserved values
   in slot order from the consumer's position to the linearisation bound *)
Theorem C03_mpsc_full_queue_is_slot_order :
  forall B, 1 <= B -> forall s, Reach B true s ->
  absq (G s) = map (rv s) (seq (hidx (M s)) (nlin B s - hidx (M s))) /\ hidx (M s) <= nlin B s.
Proof. exact abstract_queue_is_slot_order. Qed.
Print Assumptions C03_mpsc_full_queue_is_slot_order.

(* (iii) memory: no transition dereferences an address that is not allocated (push: slot write, ready store,
   block.start, block.next, next_block.next; consumer: ready loads, tail_block.start, head.next; drop: block.next) *)
Theorem C03_mpsc_full_no_use_after_free :
  forall B, 1 <= B -> forall s, Reach B true s -> bad_uaf (F s) = false.
Proof. exact no_use_after_free. Qed.
Print Assumptions C03_mpsc_full_no_use_after_free.
(* ... no free hits an address that is not allocated (no double free, no wild free) ... *)
Theorem C03_mpsc_full_no_double_free :
  forall B, 1 <= B -> forall s, Reach B true s -> bad_dfree (F s) = false.
Proof. exact no_double_free. Qed.
Print Assumptions C03_mpsc_full_no_double_free.
(* ... a slot write never hits a slot that is ready or already written (so the value the consumer reads with the
   ready load that saw 1 cannot change under it) *)
Theorem C03_mpsc_full_no_slot_overwritten :
  forall B, 1 <= B -> forall s, Reach B true s -> bad_over (F s) = false.
Proof. exact no_slot_overwritten. Qed.
Print Assumptions C03_mpsc_full_no_slot_overwritten.

(* (iii) the structural form: whatever block address a pusher holds AFTER its successful CAS (its block, the next
   block it links) and whatever the consumer holds (head.block, the tail block, old_block) is allocated *)
Theorem C03_mpsc_full_held_blocks_are_allocated :
  forall B, 1 <= B -> forall s, Reach B true s ->
  (forall p, inflight (P s p) = true -> issome (heap (M s) (lb (P s p))) = true) /\
  (forall p, pp (P s p) = PLink -> issome (heap (M s) (pnx (P s p))) = true) /\
  (pcls (cp (C s)) <= 2 -> issome (heap (M s) (hblk (M s))) = true /\ issome (heap (M s) (taddr (M s))) = true /\
                            (oldb (M s) <> 0 -> issome (heap (M s) (oldb (M s))) = true)).
Proof. exact held_blocks_are_allocated. Qed.
Print Assumptions C03_mpsc_full_held_blocks_are_allocated.

(* (iii) "a block is freed only when no pusher can still hold its address from a tail word it loaded" is FALSE as
   stated: a pusher preempted between its tail load and its CAS can hold the address of a freed block ... *)
Theorem C03_mpsc_full_no_pusher_holds_a_freed_address_refuted :
  exists s p, Reach 2 true s /\ pp (P s p) = PCas /\ heap (M s) (lb (P s p)) = None.
Proof. exact pusher_holds_freed_address. Qed.
Print Assumptions C03_mpsc_full_no_pusher_holds_a_freed_address_refuted.
(* ... and the allocator may issue that address again, so that the tail word comes back to the very value the
   pusher holds (here: logical block 4 at the address of block 0, same index) and its stale CAS succeeds (ABA) ... *)
Theorem C03_mpsc_full_aba_on_the_tail_word_is_reachable :
  exists s p, Reach 2 true s /\ pp (P s p) = PCas /\ cas_ok s p = true /\ gtk (G s) = 4 /\
              lb (P s p) = badr (G s) 0 /\ badr (G s) 0 = badr (G s) (gtk (G s)).
Proof. exact aba_reaches_the_cas. Qed.
Print Assumptions C03_mpsc_full_aba_on_the_tail_word_is_reachable.
(* ... which is harmless, because everything the pusher uses afterwards is a function of the tail word its CAS
   saw: whenever a CAS succeeds - stale or not - the pusher's copy IS the current tail word and its block address
   is the allocated tail block (all theorems of this file are proved with that ABA in scope) *)
Theorem C03_mpsc_full_successful_cas_names_the_tail_block :
  forall B, 1 <= B -> forall s p, Reach B true s -> pp (P s p) = PCas -> cas_ok s p = true ->
  lb (P s p) = badr (G s) (gtk (G s)) /\ li (P s p) = ti (M s) /\ tc (M s) = false /\ live s (gtk (G s)) /\
  issome (heap (M s) (lb (P s p))) = true /\ bstart (blk_at s (lb (P s p))) = gtk (G s) * B.
Proof. exact successful_cas_names_the_tail_block. Qed.
Print Assumptions C03_mpsc_full_successful_cas_names_the_tail_block.

(* (iii) the old_block delay is what makes it safe: in the variant that frees the retired block right after
   head.block.store, the pusher of the last slot reads block.start of a freed block (block size 2, 20 steps) *)
Theorem C03_mpsc_full_without_the_old_block_delay_refuted :
  exists s, Reach 2 false s /\ bad_uaf (F s) = true.
Proof. exact without_delay_use_after_free. Qed.
Print Assumptions C03_mpsc_full_without_the_old_block_delay_refuted.

(* (iii) wait_next_block never has to wait: the block after the tail block is installed before the tail moves *)
Theorem C03_mpsc_full_wait_next_block_never_waits :
  forall B, 1 <= B -> forall s, Reach B true s ->
  (forall p, pp (P s p) = PNext -> bnext (blk_at s (lb (P s p))) <> 0) /\
  (cp (C s) = CNext -> bnext (blk_at s (hblk (M s))) <> 0).
Proof. exact wait_next_block_never_waits. Qed.
Print Assumptions C03_mpsc_full_wait_next_block_never_waits.

(* (iv) Queue::drop: when it is done every address is free (all blocks freed), the abstract queue is empty and the
   values handed out (pops before + the pops of drop) are exactly the reserved values in slot order; nobody is
   inside a push (the premise &mut self of drop); no free hit a dead address and the two assertions held ... *)
Theorem C03_mpsc_full_after_drop_everything_is_handed_out_and_freed :
  forall B, 1 <= B -> forall s, Reach B true s -> cp (C s) = CDead ->
  (forall a, heap (M s) a = None) /\ absq (G s) = [] /\ popped (G s) = map snd (rlog (G s)) /\
  (forall p, pp (P s p) = PIdle) /\ bad_dfree (F s) = false /\ bad_assert (F s) = false.
Proof. exact after_drop_everything_is_handed_out_and_freed. Qed.
Print Assumptions C03_mpsc_full_after_drop_everything_is_handed_out_and_freed.
(* ... and every allocation has been matched by exactly one successful free *)
Theorem C03_mpsc_full_after_drop_allocs_equal_frees :
  forall B, 1 <= B -> forall s, Reach B true s -> cp (C s) = CDead -> nalloc (G s) = nfree (G s).
Proof. exact after_drop_allocs_equal_frees. Qed.
Print Assumptions C03_mpsc_full_after_drop_allocs_equal_frees.

(* all monitors together (use-after-free, double free, overwrite, FIFO, empty, len, drop assertions) *)
Theorem C03_mpsc_full_monitors_never_trip :
  forall B, 1 <= B -> forall s, Reach B true s -> monitors_ok s = true.
Proof. exact monitors_never_trip. Qed.
Print Assumptions C03_mpsc_full_monitors_never_trip.

(* Tie: every state along a trace of the real queue that the acceptor accepts is reachable, hence
   satisfies all theorems of this file. *)
Theorem C03_mpsc_full_accepted_traces_are_model_runs :
  forall B tr sx sx', Reach B true (fst sx) -> accept_all B sx tr = Some sx' -> Reach B true (fst sx').
Proof. exact accept_all_reach. Qed.
Print Assumptions C03_mpsc_full_accepted_traces_are_model_runs.

(* ---- non-vacuity ---- *)
(* block size 2: pushes over four blocks by three pushers, pop, bulk_pop, peek, len, a block address issued again,
   Queue::drop with one value left: 5 blocks allocated, 5 freed, every value handed out once *)
Example C03_mpsc_full_nonvacuous_whole_life :
  match run 2 true (init 2) sched_life with
  | Some s => cp (C s) = CDead /\ popped (G s) = [11; 12; 13; 14; 15; 16; 17] /\ absq (G s) = [] /\
              (nalloc (G s), nfree (G s)) = (5, 5) /\ monitors_ok s = true
  | None => False
  end.
Proof. vm_compute. repeat split. Qed.
(* the ABA run to its end: the stale CAS succeeds, 99 goes into slot 0 of logical block 4 and comes out last *)
Example C03_mpsc_full_nonvacuous_aba_run :
  match run 2 true (init 2) (aba_1 ++ aba_2 ++ aba_3) with
  | Some s => popped (G s) = [11; 12; 13; 14; 15; 16; 17; 18; 99] /\ absq (G s) = [] /\ monitors_ok s = true /\
              nth 8 (rlog (G s)) (0, 0) = (9, 99) /\ gk (P s 9) = 4
  | None => False
  end.
Proof. vm_compute. repeat split. Qed.
(* the premises of the commit and the drop theorems are reachable *)
Example C03_mpsc_full_nonvacuous_commit :
  match run 2 true (init 2) (pushO 0 11 ++ pushC 0 12 3 ++ [Bulk; CStep; CStep]) with
  | Some s => cp (C s) = CCommit /\ cacc (C s) = [11; 12] /\ absq (G s) = [11; 12]
  | None => False
  end.
Proof. vm_compute. repeat split. Qed.
(* the monitors are not constant: with the same schedule the variant without the delay trips bad_uaf, the code's
   variant does not *)
Example C03_mpsc_full_monitor_can_trip :
  match run 2 false (init 2) sched_nodelay, run 2 true (init 2) sched_nodelay with
  | Some s, Some s' => bad_uaf (F s) = true /\ bad_uaf (F s') = false
  | _, _ => False
  end.
Proof. vm_compute. split; reflexivity. Qed.
(* a hand-written trace in the real event format is accepted (block size 2): Queue::new (two blocks, link), push 7,
   push 8 (last slot: allocate, wait_next_block, link, tail store), pop -> 7, pop -> 8 (block end: nothing to free yet,
   wait_next_block, head.block store), pop -> None, drop *)
Local Open Scope Z_scope.
Example C03_mpsc_full_nonvacuous_accepted_trace :
  match accept_all 2 (a_init 2)
    [[17;1;0;4096]; [17;1;0;8192]; [43;1;1;8192];
     [1;1;0;7]; [21;1;2;4096]; [22;1;2;1]; [23;1;3;0]; [24;1;4;1]; [2;1;0;0];
     [1;1;0;8]; [21;1;2;4097]; [22;1;2;1]; [23;1;5;1]; [24;1;6;1]; [17;1;0;12288]; [25;1;1;8192]; [27;1;7;12288]; [28;1;2;8192]; [2;1;0;0];
     [3;2;0;0]; [29;2;4;1]; [33;2;8;1]; [4;2;1;7];
     [3;2;0;0]; [29;2;6;1]; [33;2;8;2]; [25;2;1;8192]; [36;2;9;8192]; [4;2;1;8];
     [3;2;0;0]; [29;2;10;0]; [30;2;2;8192]; [4;2;0;0];
     [14;2;0;0]; [29;2;10;0]; [30;2;2;8192]; [40;2;9;8192]; [41;2;2;8192]; [42;2;7;12288]; [18;2;0;12288]; [18;2;0;8192]; [18;2;0;4096]; [15;2;0;0]] with
  | Some sx => popped (G (fst sx)) = [7%nat; 8%nat] /\ cp (C (fst sx)) = CDead /\ a_final sx = true
  | None => False
  end.
Proof. vm_compute. repeat split. Qed.
