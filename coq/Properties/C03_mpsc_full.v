(* C03, full mpsc part - may_queue::mpsc::Queue with its block chain, block retirement through old_block,
   allocator-chosen block addresses (reuse = ABA on the packed tail word in scope), bulk_pop, peek, len and
   Queue::drop.  Property theorems only: each is closed by `exact` of a lemma proved elsewhere and followed by
   Print Assumptions.  Model: Queue/MpscFullModel.v (one transition per shared access, block size B, any
   number of pushers, one consumer), st = (M memory, P pushers, C consumer, G ghost, F monitors). *)
From Coq Require Import List ZArith Arith.
Import ListNotations.
Require Import MayV.Queue.MpscFullModel MayV.Queue.MpscFullAccept.

(* Tie: every state along a trace of the real queue that the acceptor accepts is reachable, hence
   satisfies all theorems of this file. *)
Theorem C03_mpsc_full_accepted_traces_are_model_runs :
  forall B tr sx sx', Reach B true (fst sx) -> accept_all B sx tr = Some sx' -> Reach B true (fst sx').
Proof. exact accept_all_reach. Qed.
Print Assumptions C03_mpsc_full_accepted_traces_are_model_runs.
