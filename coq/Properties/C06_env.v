(* C06 / C07 - channels under interference from the environment of a blocked receiver: spurious returns of
   std::thread::park (spsc thread receiver), cancellation of a blocked coroutine receiver, timed receives against an
   abstract clock.  Property theorems only (conventions of C06.v).  Every theorem of C06.v / C07.v is proved for the
   models WITH these environment actions (they are ordinary transitions, Reach contains them); this file holds the
   statements that are about them. *)
From Coq Require Import List Arith.
Import ListNotations.
Require MayV.Sync.ChanSpscModel MayV.Sync.ChanSpscInv MayV.Sync.ChanSpscThm MayV.Sync.ChanSpscSpur.
Require MayV.Sync.ChanMpscModel MayV.Sync.ChanMpscInv MayV.Sync.ChanMpscThm MayV.Sync.ChanMpscAccept MayV.Sync.ChanMpscTime MayV.Sync.ChanMpscTimeAccept.
From Coq Require Import NArith ZArith.
Require MayV.Sync.ChanMpmcModel MayV.Sync.ChanMpmcInv MayV.Sync.ChanMpmcThm MayV.Sync.ChanMpmcGiveUp.

(* ======================================== spsc ======================================== *)
Module Spsc.
Import MayV.Sync.ChanSpscModel MayV.Sync.ChanSpscInv MayV.Sync.ChanSpscThm MayV.Sync.ChanSpscSpur.

(* (b) a spurious return of thread::park only moves the receiver to its next try_recv: the queue, the logs, the slot,
   the token and the sender are untouched - nothing can be lost by it *)
Theorem C06_spsc_spurious_return_changes_nothing : forall s s', step true s Spur = Some s' ->
  rp (R s) = RPark /\ rp (R s') = RPop1 /\ rc (R s') = CFin /\
  q s' = q s /\ sent s' = sent s /\ rcvd s' = rcvd s /\ drpd s' = drpd s /\
  slot s' = slot s /\ ttok s' = ttok s /\ chans s' = chans s /\ Sn s' = Sn s.
Proof. exact (spsc_spurious_return_changes_nothing true). Qed.
Print Assumptions C06_spsc_spurious_return_changes_nothing.

(* the loop of Receiver::recv absorbs them: recv never answers Empty *)
Theorem C06_spsc_recv_never_answers_empty : forall s, Reach true s ->
  rapi (R s) = ARecv -> rp (R s) = RIdle -> rres (R s) <> REmpty.
Proof. exact spsc_recv_never_answers_empty. Qed.
Print Assumptions C06_spsc_recv_never_answers_empty.

(* a receiver that parks again has registered again: with a value queued or the sender gone and no token pending,
   the sender is about to take its blocker or about to unpark it *)
Theorem C06_spsc_parked_again_is_registered_again : forall s, Reach true s ->
  rp (R s) = RPark -> ttok s = false -> (q s <> [] \/ chans s = 0) ->
  sp (Sn s) = STake \/ (sp (Sn s) = SUnpark /\ sw (Sn s) = WT).
Proof. exact spsc_parked_again_is_registered_again. Qed.
Print Assumptions C06_spsc_parked_again_is_registered_again.

(* no early Disconnected: the answer means the sender is gone, the queue drained, everything sent received or dropped *)
Theorem C07_spsc_no_early_disconnect_with_spurious_returns : forall s, Reach true s ->
  rp (R s) = RIdle -> rres (R s) = RDisc -> chans s = 0 /\ q s = [] /\ sent s = rcvd s ++ drpd s.
Proof. exact spsc_no_early_disconnect_with_spurious_returns. Qed.
Print Assumptions C07_spsc_no_early_disconnect_with_spurious_returns.

Example C06_spsc_spurious_return_then_send_delivers :
  let s := run true init (sch_spur ++ [Send; SStep; SStep; SStep; SStep; RStep; RStep]) in
  Reach true s /\ rp (R s) = RIdle /\ rres (R s) = ROk 0 /\ rcvd s = [0] /\ q s = [].
Proof. exact spurious_return_then_send_delivers. Qed.

Example C06_spsc_stale_token_is_tolerated :
  let s := run true init (sch_stale ++ [SStep; SStep; Recv false; RStep; RStep; RStep; RStep; RStep;
                                        RStep; RStep; RStep; RStep; RStep; RStep; RStep; RStep]) in
  Reach true s /\ rp (R s) = RPark /\ ttok s = false /\ slot s = Some WT /\ rcvd s = [0] /\ q s = [].
Proof. exact stale_token_is_tolerated. Qed.

(* (a) the Cancel panic leaves the coroutine receiver's call at one of its cancellation points; nothing was popped *)
Theorem C06_spsc_cancel_pops_nothing : forall s s', step true s RCan = Some s' ->
  (rp (R s) = KStore \/ rp (R s) = RSusp \/ rp (R s) = KRun) /\
  rp (R s') = RIdle /\ rres (R s') = RCancel /\
  q s' = q s /\ sent s' = sent s /\ rcvd s' = rcvd s /\ drpd s' = drpd s /\ chans s' = chans s /\ Sn s' = Sn s.
Proof. exact (spsc_cancel_pops_nothing true). Qed.
Print Assumptions C06_spsc_cancel_pops_nothing.

(* ... and no handle of the cancelled coroutine is left behind (wait_co, sender, run queue): it is not resumed again *)
Theorem C06_spsc_cancelled_coroutine_is_nowhere : forall s s', Reach true s -> step true s RCan = Some s' ->
  slotC s' = false /\ holdsC (Sn s') = false /\ runq s' = false.
Proof. exact spsc_cancelled_coroutine_is_nowhere. Qed.
Print Assumptions C06_spsc_cancelled_coroutine_is_nowhere.

Example C06_spsc_cancelled_receiver_drop_drops_the_value_once :
  let s := run true init (sch_cancel ++ [DropPort; RStep; RStep; RStep]) in
  Reach true s /\ ralive (R s) = false /\ q s = [] /\ rcvd s = [] /\ drpd s = [0] /\ sent s = [0].
Proof. exact cancelled_receiver_drop_drops_the_value_once. Qed.
End Spsc.

(* ======================================== mpsc, timed ======================================== *)
Module MpscTime.
Import MayV.Sync.ChanMpscModel MayV.Sync.ChanMpscInv MayV.Sync.ChanMpscThm MayV.Sync.ChanMpscAccept MayV.Sync.ChanMpscTime MayV.Sync.ChanMpscTimeAccept.
Open Scope N_scope.

(* the timed overlay (clock, deadline of recv_max_until, deadline of each timed park, `remaining`) only restricts
   the base model: every timed run is a run of ChanMpscModel, so every C06 / C07 mpsc theorem holds along it *)
Theorem C06_mpsc_timed_runs_are_model_runs : forall ts, TReach ts -> Reach (base ts).
Proof. exact treach_base. Qed.
Print Assumptions C06_mpsc_timed_runs_are_model_runs.

(* (c) Timeout only at / after the deadline: when recv_timeout(d) has answered Timeout the clock is at or past the
   deadline the call computed, which is at least d after the clock at the call *)
Theorem C06_mpsc_timeout_only_after_deadline : forall ts, TReach ts ->
  rapi (R (base ts)) = ATimed -> rp (R (base ts)) = RIdle -> rres (R (base ts)) = RTimeout ->
  t0 ts + dur ts <= dl ts /\ dl ts <= now ts /\ t0 ts + dur ts <= now ts.
Proof. exact mpsc_timeout_only_after_deadline. Qed.
Print Assumptions C06_mpsc_timeout_only_after_deadline.

(* the BlockerSpec timeout verdict: the timer wakes the suspended receiver only at / after the park's deadline *)
Theorem C06_mpsc_timer_fires_only_after_park_deadline : forall ts ts', tstep ts (A (Fire RT)) = Some ts' -> pdl ts <= now ts.
Proof. exact mpsc_timer_fires_only_after_park_deadline. Qed.
Print Assumptions C06_mpsc_timer_fires_only_after_park_deadline.

(* tie: every state along an accepted (timed) trace of the real code is a reachable state of the timed model and
   its base component a reachable state of ChanMpscModel *)
Theorem C06_mpsc_accepted_timed_traces_are_model_runs : forall tr l, taccept_allm tm_initm tr = Some l ->
  forall sx, In sx l -> TReach (fst sx) /\ Reach (base (fst sx)).
Proof. exact taccepted_trace_reaches. Qed.
Print Assumptions C06_mpsc_accepted_timed_traces_are_model_runs.

Example C06_mpsc_timeout_at_deadline :
  let ts := trun tinit (sch_timeout ++ [A (RDl false); A (RDl true)]) in
  TReach ts /\ rres (R (base ts)) = RTimeout /\ now ts = 12 /\ dl ts = 12 /\ t0 ts = 0 /\ dur ts = 10.
Proof. exact timeout_at_deadline. Qed.
Example C06_mpsc_early_timer_is_refused :
  let ts := trun tinit (firstn 9 sch_timeout) in
  TReach ts /\ rp (R (base ts)) = RWait /\ now ts = 11 /\ pdl ts = 12 /\ tstep ts (A (Fire RT)) = None.
Proof. exact early_timer_is_refused. Qed.
End MpscTime.

(* ======================================== mpmc: a blocked receiver gives up ======================================== *)
Module Mpmc.
Import MayV.Sync.ChanMpmcModel MayV.Sync.ChanMpmcInv MayV.Sync.ChanMpmcThm MayV.Sync.ChanMpmcGiveUp.

(* (a) / (c) the park of sem.wait / sem.wait_timeout answers Timeout (cn = false, timed calls only) or Canceled (cn = true):
   the receiver leaves with that verdict and nothing is popped *)
Theorem C06_mpmc_giveup_pops_nothing : forall s r cn s', step true true true s (Fire r cn) = Some s' ->
  rp (Rv s r) = WB /\ (cn = false -> rtimed (Rv s r) = true) /\
  rp (Rv s' r) = YIdle /\ rres (Rv s' r) = (if cn then RCancel else RTimeout) /\
  q s' = q s /\ sent s' = sent s /\ rlog s' = rlog s /\ drpd s' = drpd s /\ txp s' = txp s /\ rxp s' = rxp s.
Proof. exact (mpmc_giveup_pops_nothing true true true). Qed.
Print Assumptions C06_mpmc_giveup_pops_nothing.

(* the permit is passed on: free permits + held permits are unchanged; a granted waiter that gives up no longer holds
   one, and it went to the semaphore value (nobody waiting) or to the next waiter (now granted) *)
Theorem C06_mpmc_giveup_passes_the_permit_on : forall s r cn s', Reach true true true s -> step true true true s (Fire r cn) = Some s' ->
  sv s' + length (hold s') = sv s + length (hold s) /\
  (rgr (Rv s r) = true -> ~ In r (hold s') /\ (wq s = [] -> sv s' = S (sv s)) /\
                          (forall w t, wq s = w :: t -> In w (hold s') /\ rgr (Rv s' w) = true)).
Proof. exact (mpmc_giveup_passes_the_permit_on true). Qed.
Print Assumptions C06_mpmc_giveup_passes_the_permit_on.

Example C06_mpmc_the_other_receiver_gets_the_value :
  let s := run true true true init (sch_giveup ++ [Fire 0 false; RStep 1; RStep 1; RStep 1]) in
  Reach true true true s /\ rres (Rv s 1) = ROk (0, 0) /\ rlog s = [(1, (0, 0))] /\ q s = [].
Proof. exact the_other_receiver_gets_the_value. Qed.
End Mpmc.
