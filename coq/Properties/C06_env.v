(* C06 / C07 - channels under interference from the environment of a blocked receiver: spurious returns of
   std::thread::park (spsc thread receiver), cancellation of a blocked coroutine receiver, timed receives against an
   abstract clock.  Property theorems only (conventions of C06.v).  Every theorem of C06.v / C07.v is proved for the
   models WITH these environment actions (they are ordinary transitions, Reach contains them); this file holds the
   statements that are about them. *)
From Coq Require Import List Arith.
Import ListNotations.
Require MayV.Sync.ChanSpscModel MayV.Sync.ChanSpscInv MayV.Sync.ChanSpscThm MayV.Sync.ChanSpscSpur.

(* ======================================== spsc ======================================== *)
Module Spsc.
Import MayV.Sync.ChanSpscModel MayV.Sync.ChanSpscInv MayV.Sync.ChanSpscThm MayV.Sync.ChanSpscSpur.

(* (b) a spurious return of thread::park only moves the receiver to its next try_recv: the queue, the logs, the slot,
   the token and the sender are untouched - nothing can be lost by it *)
Theorem C06_spsc_spurious_return_changes_nothing : forall s s', step true s Spur = Some s' ->
  rp (R s) = RPark /\ rp (R s') = RPop1 /\ rc (R s') = CFin /\
  q s' = q s /\ sent s' = sent s /\ rcvd s' = rcvd s /\ drpd s' = drpd s /\
  slot s' = slot s /\ ttok s' = ttok s /\ chans s' = chans s /\ Sn s' = Sn s.
Proof. exact (spsc_spurious_return_changes_nothing true). Qed.
Print Assumptions C06_spsc_spurious_return_changes_nothing.

(* the loop of Receiver::recv absorbs them: recv never answers Empty *)
Theorem C06_spsc_recv_never_answers_empty : forall s, Reach true s ->
  rapi (R s) = ARecv -> rp (R s) = RIdle -> rres (R s) <> REmpty.
Proof. exact spsc_recv_never_answers_empty. Qed.
Print Assumptions C06_spsc_recv_never_answers_empty.

(* a receiver that parks again has registered again: with a value queued or the sender gone and no token pending,
   the sender is about to take its blocker or about to unpark it *)
Theorem C06_spsc_parked_again_is_registered_again : forall s, Reach true s ->
  rp (R s) = RPark -> ttok s = false -> (q s <> [] \/ chans s = 0) ->
  sp (Sn s) = STake \/ (sp (Sn s) = SUnpark /\ sw (Sn s) = WT).
Proof. exact spsc_parked_again_is_registered_again. Qed.
Print Assumptions C06_spsc_parked_again_is_registered_again.

(* no early Disconnected: the answer means the sender is gone, the queue drained, everything sent received or dropped *)
Theorem C07_spsc_no_early_disconnect_with_spurious_returns : forall s, Reach true s ->
  rp (R s) = RIdle -> rres (R s) = RDisc -> chans s = 0 /\ q s = [] /\ sent s = rcvd s ++ drpd s.
Proof. exact spsc_no_early_disconnect_with_spurious_returns. Qed.
Print Assumptions C07_spsc_no_early_disconnect_with_spurious_returns.

Example C06_spsc_spurious_return_then_send_delivers :
  let s := run true init (sch_spur ++ [Send; SStep; SStep; SStep; SStep; RStep; RStep]) in
  Reach true s /\ rp (R s) = RIdle /\ rres (R s) = ROk 0 /\ rcvd s = [0] /\ q s = [].
Proof. exact spurious_return_then_send_delivers. Qed.

Example C06_spsc_stale_token_is_tolerated :
  let s := run true init (sch_stale ++ [SStep; SStep; Recv false; RStep; RStep; RStep; RStep; RStep;
                                        RStep; RStep; RStep; RStep; RStep; RStep; RStep; RStep]) in
  Reach true s /\ rp (R s) = RPark /\ ttok s = false /\ slot s = Some WT /\ rcvd s = [0] /\ q s = [].
Proof. exact stale_token_is_tolerated. Qed.

(* (a) the Cancel panic leaves the coroutine receiver's call at one of its cancellation points; nothing was popped *)
Theorem C06_spsc_cancel_pops_nothing : forall s s', step true s RCan = Some s' ->
  (rp (R s) = KStore \/ rp (R s) = RSusp \/ rp (R s) = KRun) /\
  rp (R s') = RIdle /\ rres (R s') = RCancel /\
  q s' = q s /\ sent s' = sent s /\ rcvd s' = rcvd s /\ drpd s' = drpd s /\ chans s' = chans s /\ Sn s' = Sn s.
Proof. exact (spsc_cancel_pops_nothing true). Qed.
Print Assumptions C06_spsc_cancel_pops_nothing.

(* ... and no handle of the cancelled coroutine is left behind (wait_co, sender, run queue): it is not resumed again *)
Theorem C06_spsc_cancelled_coroutine_is_nowhere : forall s s', Reach true s -> step true s RCan = Some s' ->
  slotC s' = false /\ holdsC (Sn s') = false /\ runq s' = false.
Proof. exact spsc_cancelled_coroutine_is_nowhere. Qed.
Print Assumptions C06_spsc_cancelled_coroutine_is_nowhere.

Example C06_spsc_cancelled_receiver_drop_drops_the_value_once :
  let s := run true init (sch_cancel ++ [DropPort; RStep; RStep; RStep]) in
  Reach true s /\ ralive (R s) = false /\ q s = [] /\ rcvd s = [] /\ drpd s = [0] /\ sent s = [0].
Proof. exact cancelled_receiver_drop_drops_the_value_once. Qed.
End Spsc.
