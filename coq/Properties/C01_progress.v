(* C01, progress half: "... and runs to its end no matter how often it yields, blocks or migrates between workers".
   Property theorems only: each is closed by `exact` of a lemma proved elsewhere and followed by Print Assumptions.

   Model: Rt/SchedLoopModel.v - the WORKER LOOP of `may` (EventLoop::run, Selector::select with its eventfd and its timeout,
   Scheduler::run_queued_tasks / collect_global / schedule / schedule_global, the steal ring, the I/O timeout handler) as a
   control layer on top of SchedModel (C01.v): `base l` is the SchedModel state, every action is a SchedModel action (proj)
   plus an update of the loop's control state.  n workers (threads 0..n-1), any number of other threads, coroutines and
   pushers; `params`: push_first (true = the code: global.push THEN eventfd write; false = the wrong order of seeded
   change C01-3), work_steal (the cargo feature), cfg_tmo (config().get_timeout_ns()), budgeted / budget / interval
   (true, RUN_BUDGET = 256, GLOBAL_INTERVAL = 64 = the code as it is since fix e723520, finding F34: run_queued_tasks runs at
   most `budget` coroutines per call and looks at the global queue every `interval` of them, select returns Some(0) while
   the local queue is not empty; budgeted = false: the loop before that fix, kept for the refuted statements).
   `Pcur t` = the code as it is, `Pold t` = before the fix, `Pwrong t` = eventfd write before the push.
   `LReach P n l`: l is reachable by any schedule of workers, pushers, coroutine code, I/O events, timers and clock ticks.
   Ghost counters: npop w (local.pop calls of worker w = iterations of 'work), ncoll w (completed collect_global calls),
   nsel w (completed select calls = rounds of the loop), ngrab c / ntake c (how often c was taken out of a global / a local
   queue).

   WHAT IS ASSUMED (the hypotheses of the bounds, not proved): the worker thread keeps taking steps until it has completed
   the stated number of local.pop calls / rounds (OS fairness for runnable threads; coroutines are cooperative: a body that
   never yields keeps its worker); the spmc / mpsc queues are the atomic FIFOs of C03 / C04; sequential consistency.

   REFUTED on the faithful model of the loop BEFORE fix e723520 (found by this model, replayed on the real runtime, repaired:
   finding F34): a coroutine in a global queue was NOT popped within any bounded number of iterations of its worker's 'work
   loop, and a coroutine made runnable by the I/O timeout handler waited for the next I/O timer.  For the loop as it is the
   corresponding statements are theorems (section (b')). *)
From Coq Require Import List Arith ZArith NArith Bool.
Import ListNotations.
Require Import MayV.Rt.SchedModel MayV.Rt.SchedInv MayV.Rt.SchedPresP MayV.Rt.SchedThm.
Require Import MayV.Rt.SchedLoopModel MayV.Rt.SchedLoopInv MayV.Rt.SchedLoopStruct MayV.Rt.SchedLoopSleep MayV.Rt.SchedLoopThm
  MayV.Rt.SchedLoopLive MayV.Rt.SchedLoopRounds MayV.Rt.SchedLoopBudget MayV.Rt.SchedLoopEnabled MayV.Rt.SchedLoopTie
  MayV.Rt.SchedLoopRefute MayV.Rt.SchedLoopRuns MayV.Rt.SchedLoopAccept MayV.Rt.SchedLoopAcceptThm.

(* ---------------------------------------------------------------- (c) the loop model is a restriction of SchedModel *)
(* every action of the worker-loop model performs exactly one SchedModel action on the coroutine state, or none *)
Theorem C01_loop_action_is_a_sched_action :
  forall P l a l', lstep P l a = Some l' ->
  match proj l a with
  | Some b => step (base l) b = Some (base l')
  | None => base l' = base l
  end.
Proof. exact lstep_proj. Qed.
Print Assumptions C01_loop_action_is_a_sched_action.

(* the actions of the loop itself that move a coroutine are Grab (bulk_pop of collect_global, local.pop, the thief's bulk_pop),
   Put (push_back), TakeSlot (co.take of an I/O event / I/O timeout) and Resume (run_coroutine), executed by the worker *)
Theorem C01_loop_movers_are_grab_put_take_resume :
  forall l a b, proj l a = Some b -> (forall x, a <> LBase x) ->
  thread_of b = actor a /\
  ((exists t q, b = Grab t q) \/ (exists t, b = Put t) \/ (exists t c, b = TakeSlot t c) \/ (exists t c, b = Resume t c)).
Proof. exact loop_movers_are_sched_movers. Qed.
Print Assumptions C01_loop_movers_are_grab_put_take_resume.

Theorem C01_loop_states_are_sched_states :
  forall P n l, LReach P n l -> Reach n (base l).
Proof. exact lreach_base. Qed.
Print Assumptions C01_loop_states_are_sched_states.

(* hence the conservation theorems of C01.v hold under the worker loop: e.g. *)
Theorem C01_loop_token_conservation :
  forall P n l c, LReach P n l -> spawned (co (base l) c) = true ->
  exists A, holds (base l) A c /\ (forall B, holds (base l) B c -> B = A) /\ NoDup (cget (base l) A).
Proof. exact loop_token_conservation. Qed.
Print Assumptions C01_loop_token_conservation.

Theorem C01_loop_never_running_on_two_threads :
  forall P n l c t1 t2, LReach P n l -> In (FRun c) (stk (base l) t1) -> In (FRun c) (stk (base l) t2) -> t1 = t2.
Proof. exact loop_never_on_two_threads. Qed.
Print Assumptions C01_loop_never_running_on_two_threads.

(* a worker thread runs no user code of its own, its stack is empty outside run_coroutine, and what it holds in local
   variables is what the control point of its loop says (nothing while it sleeps) *)
Theorem C01_worker_thread_discipline :
  forall P n l w, LReach P n l -> w < n ->
  tpc (base l) w = Idle /\ (is_co (wpc l w) = false -> stk (base l) w = []) /\ hand_ok n (wpc l w) (hand (base l) w).
Proof. exact worker_thread_discipline. Qed.
Print Assumptions C01_worker_thread_discipline.

(* ---------------------------------------------------------------- (a) no coroutine is left behind by a sleeping worker *)
(* NO LOST WAKE-UP: worker w blocked in epoll_wait - with or without timeout - while its global queue is not empty: its eventfd
   is pending, or a pusher is between its global.push and its eventfd write *)
Theorem C01_no_lost_wakeup :
  forall P n l w, push_first P = true -> LReach P n l ->
  wpc l w = PSleep -> gq (base l) w <> [] -> evfd l w = true \/ pusher_in_flight l w.
Proof. exact no_lost_wakeup. Qed.
Print Assumptions C01_no_lost_wakeup.

(* the same on the way into epoll_wait: after the last (empty) bulk_pop of run_queued_tasks, during the steal ring and the
   timer phase, before the call *)
Theorem C01_no_lost_wakeup_on_the_way_to_sleep :
  forall P n l w, push_first P = true -> LReach P n l ->
  wpc l w = PWait \/ wpc l w = PTim \/ wpc l w = PHas \/ (exists i, wpc l w = PSteal i) ->
  gq (base l) w <> [] -> evfd l w = true \/ pusher_in_flight l w.
Proof. exact no_lost_wakeup_before_sleep. Qed.
Print Assumptions C01_no_lost_wakeup_on_the_way_to_sleep.

(* the invariant behind both: ... or w is at a control point from which it runs collect_global to the empty bulk_pop before
   it calls epoll_wait again *)
Theorem C01_global_queue_wake_coming :
  forall P n l w, push_first P = true -> LReach P n l -> gq (base l) w <> [] -> wake_coming P l w.
Proof. exact global_queue_wake_coming. Qed.
Print Assumptions C01_global_queue_wake_coming.

(* only the FIRST epoll_wait of a worker has no timeout; then its local queue is empty and it holds nothing *)
Theorem C01_sleep_without_timeout_has_nothing_local :
  forall P n l w, LReach P n l -> w < n -> wpc l w = PSleep -> dl l w = None ->
  tmo l w = None /\ lq (base l) w = [] /\ hand (base l) w = [].
Proof. exact sleep_without_timeout_has_nothing_local. Qed.
Print Assumptions C01_sleep_without_timeout_has_nothing_local.

(* a worker that sleeps over a non-empty LOCAL queue has a deadline: the model time at which it fell asleep + its timeout t
   (next_expire: the time to the next I/O timer, else the configured poll timeout) rounded up to milliseconds *)
Theorem C01_sleeping_over_local_queue_has_deadline :
  forall P n l w, LReach P n l -> wpc l w = PSleep -> lq (base l) w <> [] ->
  exists t, tmo l w = Some t /\ dl l w = Some (slept l w + rnd t)%N /\ (slept l w <= now l)%N.
Proof. exact sleeping_over_local_queue_has_deadline. Qed.
Print Assumptions C01_sleeping_over_local_queue_has_deadline.

Theorem C01_deadline_is_sleep_time_plus_timeout :
  forall P n l w d, LReach P n l -> wpc l w = PSleep -> dl l w = Some d ->
  exists t, tmo l w = Some t /\ d = (slept l w + rnd t)%N /\ (slept l w <= now l)%N /\ (t <= rnd t)%N.
Proof. exact deadline_is_sleep_time_plus_timeout. Qed.
Print Assumptions C01_deadline_is_sleep_time_plus_timeout.

(* at the latest at its deadline the sleeping worker is woken (epoll_wait returns 0) and goes on to run_queued_tasks; with
   a pending eventfd it is woken at once; time can always pass *)
Theorem C01_deadline_wakes_the_worker :
  forall P n l w d, LReach P n l -> w < n -> wpc l w = PSleep -> dl l w = Some d -> (d <= now l)%N -> evfd l w = false ->
  exists l', lstep P l (LTimeout w) = Some l' /\ wpc l' w = PEvs false /\ base l' = base l.
Proof. exact deadline_wakes. Qed.
Print Assumptions C01_deadline_wakes_the_worker.

Theorem C01_pending_eventfd_wakes_the_worker :
  forall P n l w, LReach P n l -> w < n -> wpc l w = PSleep -> evfd l w = true ->
  exists l', lstep P l (LWake w false) = Some l' /\ wpc l' w = PEvs true /\ base l' = base l.
Proof. exact pending_eventfd_wakes. Qed.
Print Assumptions C01_pending_eventfd_wakes_the_worker.

Theorem C01_time_passes :
  forall P l d, exists l', lstep P l (LTick d) = Some l' /\ now l' = (now l + d)%N /\ base l' = base l.
Proof. exact time_passes. Qed.
Print Assumptions C01_time_passes.

(* QUIESCENCE: all workers blocked in epoll_wait, no eventfd pending, no pusher between push and eventfd write: every global
   queue is empty; a non-empty local queue has a deadline; without deadlines every run queue and every hand is empty *)
Theorem C01_quiescent_global_queues_empty :
  forall P n l, push_first P = true -> LReach P n l -> LQuiescent n l -> forall w, w < n -> gq (base l) w = [].
Proof. exact quiescent_global_queues_empty. Qed.
Print Assumptions C01_quiescent_global_queues_empty.

Theorem C01_quiescent_local_queue_has_deadline :
  forall P n l, LReach P n l -> LQuiescent n l -> forall w, w < n -> lq (base l) w <> [] -> exists d, dl l w = Some d.
Proof. exact quiescent_local_queue_has_deadline. Qed.
Print Assumptions C01_quiescent_local_queue_has_deadline.

Theorem C01_dead_quiescent_all_queues_empty :
  forall P n l, push_first P = true -> LReach P n l -> LQuiescent n l -> (forall w, w < n -> dl l w = None) ->
  forall w, w < n -> gq (base l) w = [] /\ lq (base l) w = [] /\ hand (base l) w = [].
Proof. exact dead_quiescent_all_queues_empty. Qed.
Print Assumptions C01_dead_quiescent_all_queues_empty.

(* ---------------------------------------------------------------- (b) bounds in iterations of the worker's loop *)
(* LOCAL queue, in iterations of 'work: a coroutine with |pre| coroutines in front of it in the local queue of w is taken out
   of it - by w's local.pop or by a thief - before w has called local.pop |pre|+1 more times, along every run *)
Theorem C01_local_fifo_bound :
  forall P w c tr l l' pre post, lruns P l tr = Some l' ->
  lq (base l) w = pre ++ c :: post -> npop l w + length pre < npop l' w -> ntake l c < ntake l' c.
Proof. exact local_fifo_bound. Qed.
Print Assumptions C01_local_fifo_bound.

(* what local.pop takes is resumed by the worker's next action *)
Theorem C01_popped_coroutine_is_resumed_next :
  forall P n l w c r l1, LReach P n l -> w < n -> lq (base l) w = c :: r -> lstep P l (LPop w) = Some l1 ->
  wpc l1 w = PRes RRun /\ hand (base l1) w = [c] /\ ntake l1 c = S (ntake l c) /\
  exists l2, lstep P l1 (LResume w) = Some l2 /\ In (FRun c) (stk (base l2) w) /\ wpc l2 w = PCo RRun.
Proof. exact popped_coroutine_is_resumed_next. Qed.
Print Assumptions C01_popped_coroutine_is_resumed_next.

(* GLOBAL queue: taken by the collect_global of w that completes next (a collect_global ends with an empty bulk_pop) ... *)
Theorem C01_global_collect_bound :
  forall P w c tr l l', lruns P l tr = Some l' ->
  In c (gq (base l) w) -> ncoll l w < ncoll l' w -> ngrab l c < ngrab l' c.
Proof. exact global_collect_bound. Qed.
Print Assumptions C01_global_collect_bound.

(* ... and with work_steal every round of the loop (select call) completes a collect_global - before the fix because
   run_queued_tasks returned only through `local.pop() = None -> collect_global`, with the budget because 1 <= interval <
   budget (coll_ok) -: two round ends later one has *)
Theorem C01_two_rounds_complete_a_collect :
  forall P n w tr, work_steal P = true -> coll_ok P -> forall l l', LReach P n l -> lruns P l tr = Some l' ->
  nsel l w + 2 <= nsel l' w -> ncoll l w < ncoll l' w.
Proof. exact round_collects. Qed.
Print Assumptions C01_two_rounds_complete_a_collect.

Theorem C01_global_queue_collected_within_two_rounds :
  forall P n w c tr l l', work_steal P = true -> coll_ok P -> LReach P n l -> lruns P l tr = Some l' ->
  In c (gq (base l) w) -> nsel l w + 2 <= nsel l' w -> ngrab l c < ngrab l' c.
Proof. exact global_round_bound. Qed.
Print Assumptions C01_global_queue_collected_within_two_rounds.

(* the loop BEFORE the fix (budgeted = false), for the record: run_queued_tasks returned only with an empty local queue, so a
   coroutine in the global or in the local queue of w had been taken out of w's local queue when w had completed two more
   rounds - IF it completed them: that was the flaw (refuted statements below).  With the budget a round may end with a
   non-empty local queue: the bounds of the code as it is are (b') *)
Theorem C01_old_loop_queued_coroutine_taken_within_two_rounds :
  forall P n w c tr l l', work_steal P = true -> budgeted P = false -> LReach P n l -> w < n -> lruns P l tr = Some l' ->
  In c (gq (base l) w) \/ In c (lq (base l) w) -> nsel l w + 2 <= nsel l' w -> ntake l c < ntake l' c.
Proof. exact queued_coroutine_taken_within_two_rounds. Qed.
Print Assumptions C01_old_loop_queued_coroutine_taken_within_two_rounds.

(* what STEALING adds: the thief v (in its steal ring: its own local queue was empty) holds the stolen coroutine in its batch;
   every later step keeps it there, or has put it into v's local queue (where the bounds above apply to v), or v is about to
   resume it *)
Theorem C01_steal_takes_into_the_thiefs_batch :
  forall P n l v l', LReach P n l -> lstep P l (LStGrab v) = Some l' ->
  exists i c, wpc l v = PSteal i /\ lq (base l) (victim n v i) = c :: lq (base l') (victim n v i) /\
              ntake l' c = S (ntake l c) /\ StS l' v c.
Proof. exact steal_takes_into_hand. Qed.
Print Assumptions C01_steal_takes_into_the_thiefs_batch.

Theorem C01_stolen_coroutine_is_queued_or_resumed :
  forall P n l a l' v c, LReach P n l -> v < n -> lstep P l a = Some l' -> StS l v c ->
  StS l' v c \/ In c (lq (base l') v) \/ (wpc l' v = PRes RSt /\ hand (base l') v = [c]).
Proof. exact stolen_step. Qed.
Print Assumptions C01_stolen_coroutine_is_queued_or_resumed.

(* ---------------------------------------------------------------- (b') the code as it is: budget, interval, has_local_tasks *)
(* a worker never blocks in epoll_wait over a non-empty local queue ... *)
Theorem C01_sleeping_worker_has_empty_local_queue :
  forall P n l w, budgeted P = true -> LReach P n l -> wpc l w = PSleep -> lq (base l) w = [].
Proof. exact sleeping_worker_has_empty_local_queue. Qed.
Print Assumptions C01_sleeping_worker_has_empty_local_queue.

(* ... because select is left with next_expire = 0 while the local queue is not empty: the next epoll_wait only polls and the
   worker goes on to run_queued_tasks at once *)
Theorem C01_nonempty_local_queue_only_polls :
  forall P n l w, budgeted P = true -> LReach P n l -> w < n -> wpc l w = PWait -> lq (base l) w <> [] ->
  tmo l w = Some 0%N /\
  exists l', lstep P l (LPoll w false) = Some l' /\ wpc l' w = PEvs (evfd l w) /\ base l' = base l.
Proof. exact nonempty_local_queue_only_polls. Qed.
Print Assumptions C01_nonempty_local_queue_only_polls.

(* quiescence for the code as it is: EVERY run queue of every worker is empty and nothing is held: no queued coroutine is left
   behind by sleeping workers *)
Theorem C01_quiescent_all_queues_empty :
  forall P n l, push_first P = true -> budgeted P = true -> LReach P n l -> LQuiescent n l ->
  forall w, w < n -> gq (base l) w = [] /\ lq (base l) w = [] /\ hand (base l) w = [].
Proof. exact quiescent_all_queues_empty. Qed.
Print Assumptions C01_quiescent_all_queues_empty.

(* `since l w` = run_coroutine calls of worker w (after local.pop) since its call of run_queued_tasks started or it completed a
   collect_global, whichever is later: never more than `interval`.  I.e. a coroutine in the global queue of w is collected
   (C01_global_collect_bound) after at most `interval` further run_coroutine calls of w, unless w returns to select first -
   where the pending eventfd (C01_global_queue_wake_coming) makes it collect, or the next call does (1 <= interval < budget:
   every call of run_queued_tasks completes a collect_global: C01_two_rounds_complete_a_collect with coll_ok) *)
Theorem C01_at_most_interval_runs_between_collects :
  forall P n l w, budgeted P = true -> 1 <= interval P <= budget P -> LReach P n l -> since l w <= interval P.
Proof. exact at_most_interval_runs_between_collects. Qed.
Print Assumptions C01_at_most_interval_runs_between_collects.

Theorem C01_budgeted_round_completes_a_collect :
  forall P n w tr l l', work_steal P = true -> budgeted P = true -> 1 <= interval P < budget P ->
  LReach P n l -> lruns P l tr = Some l' -> nsel l w + 2 <= nsel l' w -> ncoll l w < ncoll l' w.
Proof. exact budgeted_round_collects. Qed.
Print Assumptions C01_budgeted_round_completes_a_collect.

(* the loop never blocks by itself: at every control point other than `blocked in epoll_wait` (see (a)) and `inside
   run_coroutine with a frame on the stack` (the coroutine's own code: cooperative) the worker has an enabled action *)
Theorem C01_worker_loop_never_blocks :
  forall P n l w, LReach P n l -> w < n -> wpc l w <> PSleep ->
  (forall r, wpc l w = PCo r -> stk (base l) w = [] /\ hand (base l) w = []) ->
  exists a, actor a = Some w /\ lstep P l a <> None.
Proof. exact loop_step_enabled. Qed.
Print Assumptions C01_worker_loop_never_blocks.

(* ---------------------------------------------------------------- refuted *)
(* eventfd write BEFORE the push (seeded change C01-3): the no-lost-wake-up statement is false.  Witness: the worker reacts to
   the eventfd, finds its global queue empty and goes back into epoll_wait; the push lands afterwards *)
Theorem C01_no_lost_wakeup_wake_before_push_refuted :
  forall p, ~ (forall l w, LReach (Pwrong (Npos p)) 1 l -> wpc l w = PSleep -> gq (base l) w <> [] ->
                           evfd l w = true \/ pusher_in_flight l w).
Proof. exact wake_before_push_loses_the_wakeup. Qed.
Print Assumptions C01_no_lost_wakeup_wake_before_push_refuted.

Theorem C01_wake_before_push_witness :
  forall p, exists l, LReach (Pwrong (Npos p)) 1 l /\
  wpc l 0 = PSleep /\ gq (base l) 0 = [1] /\ evfd l 0 = false /\ owed l 0 = 0 /\ anon l 0 = 0 /\ pre l 0 = 0 /\
  tpc (base l) 1 = Idle /\ stk (base l) 1 = [] /\ dl l 0 = Some (rnd (Npos p)) /\ now l = 0%N.
Proof. exact wake_before_push_witness. Qed.
Print Assumptions C01_wake_before_push_witness.

(* without work_steal the timeout does not rescue it: run_queued_tasks never looks at the global queue *)
Theorem C01_wake_before_push_witness_without_work_steal :
  exists l, LReach (Pwrong_nosteal 10000000) 1 l /\
  wpc l 0 = PSleep /\ gq (base l) 0 = [1] /\ evfd l 0 = false /\ owed l 0 = 0 /\ anon l 0 = 0 /\ pre l 0 = 0 /\
  tpc (base l) 1 = Idle /\ nsel l 0 = 4 /\ now l = 30000000%N /\ ngrab l 1 = 0.
Proof. exact wake_before_push_witness_nosteal. Qed.
Print Assumptions C01_wake_before_push_witness_without_work_steal.

(* THE LOOP BEFORE FIX e723520 (defect of may found by this model, finding F34, repaired): "a coroutine pushed to a global queue
   is popped within a bounded number of iterations of its worker's loop" was false for every bound B: while the local queue
   never ran empty (one coroutine that keeps yielding is enough) the 'work loop of run_queued_tasks neither called
   collect_global nor returned to select, although the eventfd was pending all the time and every thread kept taking steps *)
Theorem C01_old_loop_global_queue_bounded_by_worker_iterations_refuted :
  forall t B, ~ (forall l l' tr c w, LReach (Pold t) 1 l -> lruns (Pold t) l tr = Some l' -> In c (gq (base l) w) ->
                   npop l w + B <= npop l' w -> ngrab l c < ngrab l' c).
Proof. exact global_queue_not_bounded_by_pops. Qed.
Print Assumptions C01_old_loop_global_queue_bounded_by_worker_iterations_refuted.

Theorem C01_old_loop_global_queue_starvation_witness :
  forall t k, exists l l', LReach (Pold t) 1 l /\ lruns (Pold t) l (rep k cycle) = Some l' /\
  In 2 (gq (base l) 0) /\ In 2 (gq (base l') 0) /\ evfd l' 0 = true /\
  npop l' 0 = npop l 0 + k /\ ngrab l' 2 = 0 /\ ncoll l' 0 = ncoll l 0 /\ nsel l' 0 = nsel l 0.
Proof. exact global_queue_starves. Qed.
Print Assumptions C01_old_loop_global_queue_starvation_witness.

(* THE LOOP BEFORE FIX e723520 (defect of may found by this model, finding F34, repaired): "a sleeping worker with a non-empty
   queue is woken within the configured poll timeout" was false: the I/O timeout handler runs after run_queued_tasks; what
   it made runnable locally slept, with no wake-up under way, for the time T to the next I/O timer - for every T > 0,
   whatever cfg_tmo is *)
Theorem C01_old_loop_local_queue_wait_bounded_by_poll_timeout_refuted :
  forall t T, exists l, LReach (Pold t) 1 l /\
  wpc l 0 = PSleep /\ lq (base l) 0 = [1] /\ gq (base l) 0 = [] /\ evfd l 0 = false /\ owed l 0 = 0 /\ anon l 0 = 0 /\
  dl l 0 = Some (rnd (Npos T)) /\ now l = 0%N /\ tmo l 0 = Some (Npos T).
Proof. exact local_queue_wait_not_bounded_by_poll_timeout. Qed.
Print Assumptions C01_old_loop_local_queue_wait_bounded_by_poll_timeout_refuted.

(* ---------------------------------------------------------------- (d) the tie to the code: lock-step trace acceptance *)
(* Rt/SchedLoopAccept.v: `accept_ev` maps every recorded event of the real worker loop (the hooks of Selector::select /
   wakeup, run_queued_tasks, collect_global, run_coroutine; the claiming CAS of the global mpsc queues, the committing store
   of the local spmc queues, the wait_co slot of Park, NEXT_THREAD_ID.fetch_add) to one `lstep` of the model, a short fixed
   sequence of them, or a checked observation, with the control-point and value checks listed there.  `m_init` is the
   state before the scenario's cfg record; `acfg a = Some ct`: the run was configured with idle-poll timeout ct.
   Every state the real runtime went through along an accepted trace is a reachable state of the model of the code as it
   is (`Pcur ct`), so every theorem of this file applies to it. *)
Theorem C01_accepted_loop_traces_are_model_runs :
  forall tr a ct, accept_all m_init tr = Some a -> acfg a = Some ct -> exists n, LReach (Pcur ct) n (al a).
Proof. exact accepted_traces_are_model_runs. Qed.
Print Assumptions C01_accepted_loop_traces_are_model_runs.

Theorem C01_accepted_loop_trace_prefixes_are_model_runs :
  forall tr1 tr2 a ct, accept_all m_init (tr1 ++ tr2) = Some a -> acfg a = Some ct ->
  exists a1, accept_all m_init tr1 = Some a1 /\ (forall ct1, acfg a1 = Some ct1 -> exists n, LReach (Pcur ct1) n (al a1)).
Proof. exact accepted_prefixes_are_model_runs. Qed.
Print Assumptions C01_accepted_loop_trace_prefixes_are_model_runs.

(* hence, on every recorded run: a worker asleep in epoll_wait while a coroutine sits in its global queue has its eventfd
   pending or a pusher between its push and its eventfd write *)
Theorem C01_accepted_loop_traces_never_lose_a_wakeup :
  forall tr a ct w, accept_all m_init tr = Some a -> acfg a = Some ct ->
  wpc (al a) w = PSleep -> gq (base (al a)) w <> [] -> evfd (al a) w = true \/ pusher_in_flight (al a) w.
Proof. exact accepted_traces_no_lost_wakeup. Qed.
Print Assumptions C01_accepted_loop_traces_never_lose_a_wakeup.

(* and a worker has run at most GLOBAL_INTERVAL coroutines since it last looked at its global queue *)
Theorem C01_accepted_loop_traces_look_at_the_global_queue :
  forall tr a ct w, accept_all m_init tr = Some a -> acfg a = Some ct -> since (al a) w <= 64.
Proof. exact accepted_traces_interval. Qed.
Print Assumptions C01_accepted_loop_traces_look_at_the_global_queue.

(* non-vacuity: a recorded run of the real runtime (two workers; spawn, wake-up, collect, pop, steal, park, unpark, join)
   is accepted; the same run with the eventfd write of its first global push moved in front of the push is rejected *)
Example C01_recorded_loop_trace_is_accepted :
  exists a, accept_all m_init ex_trace = Some a /\ acfg a = Some 10000000%N /\ nw (base (al a)) = 2 /\
            2 <= nsel (al a) 0 + nsel (al a) 1 /\ 2 <= ncoll (al a) 0 + ncoll (al a) 1 /\ 1 <= length (dead (base (al a))).
Proof. exact ex_trace_accepted. Qed.

Example C01_recorded_loop_trace_with_wakeup_before_push_is_rejected :
  swap_push_wake ex_trace <> ex_trace /\ accept_all m_init (swap_push_wake ex_trace) = None.
Proof. exact (conj ex_trace_swap_differs ex_trace_wake_before_push_rejected). Qed.

(* ---------------------------------------------------------------- non-vacuity: concrete runs (Rt/SchedLoopRuns.v) *)
(* hypotheses of the no-lost-wake-up theorem: first epoll_wait (no timeout), global queue [1], the pusher at its wakeup call *)
Example C01_run_sleeping_worker_pusher_in_flight : let l := lafter P10 1 runL_pushed in
  LReach P10 1 l /\ wpc l 0 = PSleep /\ dl l 0 = None /\ gq (base l) 0 = [1] /\ evfd l 0 = false /\ owed l 0 = 1 /\
  tpc (base l) 1 = SW 0.
Proof. exact runL_pushed_state. Qed.

(* hypotheses and conclusion of the two-rounds bound: spawn from a thread, wake-up, collect, run, yield, run, finish with 7 *)
Example C01_run_two_rounds : let l := lafter P10 1 runL_pushed in
  exists l', lruns P10 l (runL_round1 ++ runL_round2) = Some l' /\ In 1 (gq (base l) 0) /\ nsel l 0 + 2 <= nsel l' 0 /\
             ntake l 1 = 0 /\ ntake l' 1 = 2 /\ ngrab l' 1 = 1 /\ In 1 (dead (base l')) /\
             outcome (co (base l') 1) = Some (RVal 7%Z).
Proof. exact runL_two_rounds. Qed.

Example C01_run_quiescent_with_deadline : let l := lafter P10 1 (runL_pushed ++ runL_round1) in
  LReach P10 1 l /\ LQuiescent 1 l /\ dl l 0 = Some 10000000%N /\ gq (base l) 0 = [] /\ lq (base l) 0 = [].
Proof. exact runL_quiescent. Qed.

Example C01_run_quiescent_without_deadline : let l := lafter P10 1 [LPoll 0 false] in
  LReach P10 1 l /\ LQuiescent 1 l /\ (forall w, w < 1 -> dl l w = None).
Proof. exact runL_dead_quiescent. Qed.

Example C01_run_local_queue_pop : let l := lafter P10 1 runL_yielded in
  LReach P10 1 l /\ lq (base l) 0 = [] ++ 1 :: [] /\ wpc l 0 = PRun /\
  exists l', lruns P10 l [LPop 0] = Some l' /\ npop l 0 + length (@nil nat) < npop l' 0 /\ ntake l 1 < ntake l' 1.
Proof. exact runL_local. Qed.

(* the constants of the code satisfy the premises of the budget theorems *)
Example C01_constants_of_the_code : forall t,
  budgeted (Pcur t) = true /\ work_steal (Pcur t) = true /\ push_first (Pcur t) = true /\
  1 <= interval (Pcur t) < budget (Pcur t) /\ coll_ok (Pcur t).
Proof. exact cur_constants. Qed.

(* the two schedules of the refuted statements on the loop as it is: after 64 runs of the yielding coroutine the worker
   collects its global queue, the starved coroutine runs; the old cycle is no longer a run of the model *)
Example C01_run_starvation_schedule_on_the_repaired_loop : let l := lafter P10 1 run_starve_fixed in
  LReach P10 1 l /\ stk (base l) 0 = [FRun 2] /\ lq (base l) 0 = [1] /\ gq (base l) 0 = [] /\ ngrab l 2 = 1 /\ ntake l 2 = 1 /\
  npop l 0 = 66 /\ bud l 0 = 191 /\ ncoll l 0 = 2.
Proof. exact starve_fixed_state. Qed.

Example C01_run_old_starvation_cycle_is_cut : lruns P10 (linit 1) (run_starve ++ rep 64 cycle) = None.
Proof. exact starve_cycle_breaks. Qed.

(* the coroutine made runnable by the I/O timeout handler runs at once (model time still 0), not at the next I/O timer (10 s) *)
Example C01_run_io_timer_schedule_on_the_repaired_loop : let l := lafter P10 1 run_timer_fixed in
  LReach P10 1 l /\ stk (base l) 0 = [FRun 1] /\ now l = 0%N /\ tmo l 0 = Some 0%N /\ wpc l 0 = PCo RRun.
Proof. exact timer_fixed_state. Qed.
