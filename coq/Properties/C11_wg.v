(* C11 (iv): WaitGroup as a client program of the Condvar (Sync/WaitGroupModel.v: wait-group program x CondvarModel): wait returns
   exactly when every other clone has been dropped (safety + quiescence form).  Property theorems only (see Properties/C11.v). *)
From Coq Require Import List ZArith.
Import ListNotations.
Require Import MayV.Sync.CondvarModel MayV.Sync.CondvarInv MayV.Sync.CondvarL4 MayV.Sync.CondvarThm MayV.Sync.CondvarAccept
               MayV.Sync.BarrierModel MayV.Sync.BarrierThm MayV.Sync.BarrierCv MayV.Sync.BarrierLive
               MayV.Sync.WaitGroupModel MayV.Sync.WaitGroupThm MayV.Sync.WaitGroupLive MayV.Sync.BarrierAccept.
Close Scope Z_scope.

(* ---- (iv) WaitGroup as a client program (Sync/WaitGroupModel.v) ---- *)

Theorem C11_wg_count_is_live_handles :
  forall s, WReach s -> wcnt s = length (hl s).
Proof. exact wg_count_is_live_handles. Qed.
Print Assumptions C11_wg_count_is_live_handles.

(* wait() returns only when every handle has been dropped (count = 0): never early *)
Theorem C11_wg_wait_returns_only_when_all_dropped :
  forall s a, WReach s -> wpc s a = WRet -> hl s = [] /\ wcnt s = 0.
Proof. exact wg_wait_returns_only_when_all_dropped. Qed.
Print Assumptions C11_wg_wait_returns_only_when_all_dropped.

(* the progress half, over the product model (wait-group program x Condvar protocol), quiescence form: when no actor has
   an enabled transition of its own the mutex is free and every actor is outside every call, or a cancelled coroutine that
   died in Condvar::wait, or parked in the wait loop of wait() WHILE A HANDLE IS STILL ALIVE *)
Theorem C11_wg_quiescent :
  forall s, WReach s -> WQuiescent s ->
  mx (wcs s) = None /\
  forall a, wpc s a = WIdle \/ wpc s a = WGone \/
            (wpc s a = WLw /\ apc (A (wcs s) a) = WW /\ hl s <> [] /\
             unp (Bk (wcs s) (ab (A (wcs s) a))) = false /\ In (ab (A (wcs s) a)) (q (wcs s))).
Proof. exact wg_quiescent. Qed.
Print Assumptions C11_wg_quiescent.

Theorem C11_wg_never_returns_early :
  forall s, WReach s -> early s = false.
Proof. exact wg_never_returns_early. Qed.
Print Assumptions C11_wg_never_returns_early.

Theorem C11_wg_zero_is_final :
  forall s a, hl s = [] ->
  wstep s (WClone a) = None /\ wstep s (WDrop a) = None /\ (forall co, wstep s (WWait a co) = None) /\ (forall a', wstep s (WGive a a') = None).
Proof. exact wg_zero_is_final. Qed.
Print Assumptions C11_wg_zero_is_final.

Theorem C11_wg_race_free :
  forall s, WReach s -> wviol s = false.
Proof. exact wg_race_free. Qed.
Print Assumptions C11_wg_race_free.


(* ---- tie: every state along a trace of the real WaitGroup accepted by the product acceptor is a reachable state of WaitGroupModel ---- *)
Theorem C11_accepted_wg_traces_are_model_runs :
  forall tr s xy, paccept_all p_init tr = Some (MWg s, xy) -> WReach s.
Proof. exact accepted_wg_trace_reaches. Qed.
Print Assumptions C11_accepted_wg_traces_are_model_runs.

