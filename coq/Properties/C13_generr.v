(* C13 (ii) / C15 - the panic payload of a coroutine stays with that coroutine across the recycling of stacks.
   Property theorems only (model: Rt/GenErr.v: the `context.err` slot of generator-0.8.10, which init_code does not
   reset, the hand-over in run_coroutine's None branch, the pool as a set; any number of coroutines and generators,
   any interleaving of their lives).  Properties/C13.v states "join returns exactly the outcome" for the coroutine's
   own run (PanicPath); here the slot that survives in the pooled generator is followed through every reuse. *)
From Coq Require Import List Arith Bool Lia.
Import ListNotations.
Require Import MayV.Rt.GenErr MayV.Rt.GenErrThm.

(* what join finds for a coroutine that has ended is the payload of ITS panic, and nothing if it returned or was
   cancelled - whoever used the stack before *)
Theorem C13_ii_payload_stays_with_its_coroutine :
  forall s c e, Reach false s -> ph s c = CDone e -> jp s c = pay e.
Proof. exact payload_stays_with_its_coroutine. Qed.
Print Assumptions C13_ii_payload_stays_with_its_coroutine.

(* C15: a coroutine that runs (fresh or on a recycled stack) has an empty payload slot and an empty join slot *)
Theorem C15_running_coroutine_has_a_clean_payload_slot :
  forall s c g, Reach false s -> ph s c = CRun g -> err s g = None /\ jp s c = None.
Proof. exact running_coroutine_has_a_clean_slot. Qed.
Print Assumptions C15_running_coroutine_has_a_clean_payload_slot.

(* a new or pooled generator carries no payload *)
Theorem C15_idle_generator_carries_no_payload :
  forall s g, Reach false s -> takeable (gs s g) = true -> err s g = None.
Proof. exact idle_generator_carries_no_payload. Qed.
Print Assumptions C15_idle_generator_carries_no_payload.

(* a generator has one occupant at a time *)
Theorem C13_ii_generator_has_one_occupant :
  forall s c1 c2 g e1 e2, Reach false s ->
  (ph s c1 = CRun g \/ ph s c1 = CEnded g e1) -> (ph s c2 = CRun g \/ ph s c2 = CEnded g e2) -> c1 = c2.
Proof. exact generator_has_one_occupant. Qed.
Print Assumptions C13_ii_generator_has_one_occupant.

(* the hand-over of an ended coroutine is never blocked (in either variant) *)
Theorem C13_ii_hand_over_enabled :
  forall v s c g e keep, ph s c = CEnded g e -> exists s', step v s (Hand c keep) = Some s' /\ ph s' c = CDone e.
Proof. exact hand_enabled. Qed.
Print Assumptions C13_ii_hand_over_enabled.

(* hand-over skipped for detached coroutines (seeded change C13-4 / C15-6): a cancelled coroutine reports the
   payload 7 of the detached coroutine that panicked on the generator before it; the witness is the history that
   harness/src/bin/s_local.rs drives with MAYV_PREV=dpanic MAYV_FIRST=cancel *)
Theorem C13_ii_skip_for_detached_refuted :
  exists s c e, Reach true s /\ ph s c = CDone e /\ e = Can /\ jp s c = Some 7.
Proof. exact skip_detached_refuted. Qed.
Print Assumptions C13_ii_skip_for_detached_refuted.

(* non-vacuity: the same history in the model of the code *)
Example C13_ii_reuse_after_panic_reachable :
  exists s, Reach false s /\ ph s 0 = CDone (Pan 7) /\ jp s 0 = Some 7 /\ ph s 1 = CDone Can /\ jp s 1 = None /\ gs s 0 = GPooled.
Proof. exact reuse_after_panic_reachable. Qed.
Print Assumptions C13_ii_reuse_after_panic_reachable.
