(* C18 - I/O timeouts and cancel of blocked I/O are exact; the socket stays usable.
   Property theorems only (model: Io/IoModel.v).  What is proved for the CURRENT code (both repairs of the timeout
   path and the repair of the cancel path in place) holds for the restricted interleaving `calm = true`: no worker is
   preempted inside the last instructions of `subscribe` or inside `timeout_handler` for longer than a whole coroutine
   round trip (the caller does not suspend on descriptor f again while an earlier kernel half of itself or on f, or a
   timeout handler for f, is still between two of its accesses).  These theorems carry `_partial`; the full statements
   are refuted on the faithful model for each excluded variant by the `_refuted` witnesses below (vm_compute):
   before the repairs (findings F8b, F18) and for the unrestricted interleaving of the repaired code (known residual F23
   and a lost cancel).  Not proved: that a cancelled caller is always resumed (the scenario s_iotimeout covers it). *)
From Coq Require Import List Arith Bool Lia.
Import ListNotations.
Require Import MayV.Io.IoModel MayV.Io.IoInv2 MayV.Io.IoThm MayV.Io.IoThm2 MayV.Io.IoRefute.

Section C18.
Variable cap : nat.
Variable peer selof : nat -> nat.
Hypothesis peer_inv : forall f, peer (peer f) = f.
Notation Reach := (Reach cap peer selof true true true).

(* (iii) a timed operation reports TimedOut only at or after its own call time + the armed duration *)
Theorem C18_timeout_never_early_partial :
  forall s c, Reach s -> apara (A s c) = true -> apc (A s c) <> Dead -> IoInv2.due s c.
Proof. exact (timeout_never_early_partial cap peer selof peer_inv). Qed.

Theorem C18_timedout_reported_only_when_due_partial :
  forall s a, Reach s -> apc (A s a) = LRes -> apara (A s a) = true -> IoInv2.due s a.
Proof. exact (timedout_reported_only_when_due_partial cap peer selof peer_inv). Qed.

(* (iv) the timer armed for one operation never fires into a later one: with no operation in flight on a descriptor its
   timer cell is empty and no armed entry refers to it; an entry that can still fire was armed by the operation in flight,
   for that operation's deadline or later; a timeout handler in flight meets only a coroutine whose deadline has passed *)
Theorem C18_no_timer_left_behind_partial :
  forall s f, Reach s -> busy s f = None -> tmr s f = None /\ forall e, tstate (T s e) = TArmed -> tev (T s e) <> Some f.
Proof. exact (no_timer_left_behind_partial cap peer selof peer_inv). Qed.

Theorem C18_armed_timer_belongs_to_operation_partial :
  forall s e f, Reach s -> tstate (T s e) = TArmed -> tev (T s e) = Some f ->
  exists a d, busy s f = Some a /\ ato (A s a) = Some d /\ atcall (A s a) + d <= tdl (T s e).
Proof. exact (armed_timer_belongs_to_operation_partial cap peer selof peer_inv). Qed.

Theorem C18_handler_meets_only_due_partial :
  forall s g f e c, Reach s -> Sel s g = THnd f e \/ Sel s g = THnd2 f e -> co s f = Some c -> IoInv2.due s c.
Proof. exact (handler_meets_only_due_partial cap peer selof peer_inv). Qed.
End C18.

(* (v) for every variant and every interleaving: a caller ended by Canceled never runs again; closing a descriptor
   touches no other descriptor's io_flag / coroutine slot / timer cell / pending events; that a suspension is ended by
   exactly one resumption is C17_wake_token_unique *)
Theorem C18_canceled_is_final :
  forall cap peer selof fixB fixD calm s ac s' a,
  step cap peer selof fixB fixD calm s ac = Some s' -> apc (A s a) = Dead -> apc (A s' a) = Dead.
Proof. exact dead_is_final. Qed.

Theorem C18_close_is_local :
  forall cap peer selof fixB fixD calm s f s' g,
  step cap peer selof fixB fixD calm s (Close f) = Some s' -> g <> f ->
  flag s' g = flag s g /\ co s' g = co s g /\ tmr s' g = tmr s g /\ pend s' g = pend s g /\ busy s' g = busy s g /\ closed s' g = closed s g.
Proof. exact close_is_local. Qed.

Print Assumptions C18_timeout_never_early_partial.
Print Assumptions C18_timedout_reported_only_when_due_partial.
Print Assumptions C18_no_timer_left_behind_partial.
Print Assumptions C18_armed_timer_belongs_to_operation_partial.
Print Assumptions C18_handler_meets_only_due_partial.
Print Assumptions C18_canceled_is_final.
Print Assumptions C18_close_is_local.

(* ---- the full statements are refuted for the excluded variants (witness schedules in Io/IoRefute.v) --------------- *)

(* before the repair of the timeout handler: a quiescent state with a suspended timed reader whose deadline has passed
   and whose timer is gone - the timeout is lost (finding F8b; replay: s_iotimeout MAYV_MODE=tdrop with stalls) *)
Theorem C18_timeout_lost_refuted :
  exists s, runp false true true w1 = Some s /\ Quiescent s /\ apc (A s 0) = Susp /\ co s 1 = Some 0 /\ IoRefute.due s 0 /\
            nextt s = 1 /\ tstate (T s 0) = TGone.
Proof. exact timeout_lost_refuted. Qed.

(* before the repair of the cancel path: TimedOut delivered 8 time units after the call of an operation with timeout 10
   (finding F18; replay: s_iotimeout MAYV_MODE=shared) *)
Theorem C18_stale_timer_after_cancel_refuted :
  exists s, runp true false true w2 = Some s /\ alast (A s 0) = Some RCanceled /\
            apara (A s 1) = true /\ ato (A s 1) = Some 10 /\ now s < atcall (A s 1) + 10.
Proof. exact stale_timer_after_cancel_refuted. Qed.

(* the repaired code, unrestricted interleaving: the handler held up between mark and take times out the next operation
   right after its call (known residual F23; replay: the MAYV_RESIDUAL=selector-stall variants of s_iotimeout) *)
Theorem C18_handler_hits_next_operation_refuted :
  exists s, runp true true false w3 = Some s /\ apara (A s 0) = true /\ ato (A s 0) = Some 5 /\ now s < atcall (A s 0) + 5.
Proof. exact handler_hits_next_operation_refuted. Qed.

(* the repaired code, unrestricted interleaving: a cancelled, cancellable caller stays suspended in a quiescent state
   (a stale kernel half overwrote its cancel registration); model only, not reproduced on the code *)
Theorem C18_cancel_lost_refuted :
  exists s, runp true true false w4 = Some s /\ Quiescent s /\ apc (A s 0) = Susp /\ acanc (A s 0) = true /\
            acn (A s 0) = true /\ co s 3 = Some 0.
Proof. exact cancel_lost_refuted. Qed.

Print Assumptions C18_timeout_lost_refuted.
Print Assumptions C18_stale_timer_after_cancel_refuted.
Print Assumptions C18_handler_hits_next_operation_refuted.
Print Assumptions C18_cancel_lost_refuted.

(* ---- non-vacuity -------------------------------------------------------------------------------------------------- *)
(* on the repaired code the schedule of the lost timeout ends with the coroutine re-run, and the schedule of the stale
   timer with the old entry ignored; a regular timeout is delivered exactly at the deadline *)
Example C18_nonvacuous_repairs :
  (match runp true true true w1_fixed with Some s => apc (A s 0) = RBack /\ flag s 1 = true | None => False end) /\
  (match runp true true true (firstn 27 w2) with
   | Some s => tev (T s 0) = None /\ tmr s 1 = Some 1 /\ Sel s 1 = SIdle /\ apara (A s 1) = false /\ co s 1 = Some 1
   | None => False end) /\
  (match runp true true true
           [Start 0 1 Rd true (Some 5) [] 4; Step 0 0; Step 0 0; Step 0 0; Sub 0 false; Sub 0 false; Sub 0 false; Sub 0 false; Sub 0 false;
            Tick 5; SelFire 1 0; SelMark 1; SelHnd 1; Resume 0; Step 0 0; Step 0 0; Step 0 0] with
   | Some s => alast (A s 0) = Some RTimedOut /\ now s = 5 /\ atcall (A s 0) = 0 /\ tmr s 1 = None /\ busy s 1 = None
   | None => False end).
Proof. vm_compute. repeat split. Qed.

(* the canceller takes the coroutine and nulls the timer entry in two accesses: the selector's timeout handler can read
   `event_data` of the due entry in between; it then leaves its mark, finds the slot empty and delivers nothing - the
   cancelled caller ends with Canceled, never with TimedOut *)
Example C18_nonvacuous_handler_between_cancel_take_and_null :
  match runp true true true
          [Start 0 1 Rd true (Some 5) [] 4; Step 0 0; Step 0 0; Step 0 0; Sub 0 false; Sub 0 false; Sub 0 false; Sub 0 false; Sub 0 false;
           CancelSet 0; CancelIo 0; CancelTake 0;
           Tick 5; SelFire 1 0; SelMark 1; SelHnd 1;
           CancelNull 0; Resume 0; Step 0 0] with
  | Some s => alast (A s 0) = Some RCanceled /\ apara (A s 0) = false /\ flag s 1 = true /\ tmr s 1 = None /\
              Sel s 1 = SIdle /\ Cn s 0 = CnIdle /\ busy s 1 = None
  | None => False end.
Proof. vm_compute. repeat split. Qed.

(* ---- accept / connect (the theorems above are about every operation kind: `ato` / `acn` of the caller) ------------- *)
(* connect arms a timer (UnixStream::connect: always 2 s; TcpStream::connect_timeout: the given one), accept never does.
   A connect with timeout 7 that gets EINPROGRESS and whose attempt stays in progress is timed out exactly at the
   deadline, with TimedOut, and leaves no timer behind; the attempt is still in progress in the kernel *)
Example C18_nonvacuous_connect_timeout :
  match runp true true true
          [Start 0 6 Co true (Some 7) [] 4; Step 0 0; Step 0 0; Sub 0 false; Sub 0 false; Sub 0 false; Sub 0 false; Sub 0 false;
           Tick 7; SelFire 0 0; SelMark 0; SelHnd 0; Resume 0; Step 0 0; Step 0 0; Step 0 0] with
  | Some s => alast (A s 0) = Some RTimedOut /\ now s = 7 /\ atcall (A s 0) = 0 /\ tmr s 6 = None /\ busy s 6 = None /\
              kst (Kn s 6) = CProg /\ due s 0
  | None => False end.
Proof. vm_compute. repeat split. exists 7. cbn. split; [reflexivity | lia]. Qed.
(* ... and when the kernel establishes the connection before the deadline connect returns Ok and the timer is disarmed:
   the entry that is still in the list when its deadline comes is ignored (`event_data` nulled) *)
Example C18_nonvacuous_connect_in_time :
  match runp true true true
          [Start 0 6 Co true (Some 7) [] 4; Step 0 0; Step 0 0; Sub 0 false; Sub 0 false; Sub 0 false; Sub 0 false; Sub 0 false;
           Tick 3; Establish 6; SelEvent 0 6; SelTake 0; SelDisarm 0 false; Resume 0; Step 0 0; Step 0 0; Step 0 0; Step 0 0; Step 0 0;
           Tick 4; SelFire 0 0] with
  | Some s => alast (A s 0) = Some RConn /\ now s = 7 /\ tmr s 6 = None /\ tev (T s 0) = None /\ Sel s 0 = SIdle /\ apara (A s 0) = false
  | None => False end.
Proof. vm_compute. repeat split. Qed.
(* cancel of a coroutine blocked in accept: it ends with Canceled, the listener's slot is empty, a connection that
   arrives afterwards stays in the backlog for the next accept *)
Example C18_nonvacuous_cancel_blocked_accept :
  match runp true true true
          [Start 0 4 Ac true None [] 0; Step 0 0; Step 0 0; Step 0 0; Sub 0 false; Sub 0 false; Sub 0 false; Sub 0 false;
           CancelSet 0; CancelIo 0; CancelTake 0; CancelNull 0; Resume 0; Step 0 0;
           Start 1 6 Co true None [] 4; Step 1 1] with
  | Some s => alast (A s 0) = Some RCanceled /\ apc (A s 0) = Dead /\ co s 4 = None /\ busy s 4 = None /\ kq (Kn s 4) = [6] /\
              alast (A s 1) = Some RConn
  | None => False end.
Proof. vm_compute. repeat split. Qed.
