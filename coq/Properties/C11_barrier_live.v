(* C11 (iii), progress half: Barrier(n) composed with the Condvar protocol over the product model; quiescence form of DESIGN 2.2.
   Property theorems only (see Properties/C11.v). *)
From Coq Require Import List ZArith.
Import ListNotations.
Require Import MayV.Sync.CondvarModel MayV.Sync.CondvarInv MayV.Sync.CondvarL4 MayV.Sync.CondvarThm MayV.Sync.CondvarAccept
               MayV.Sync.BarrierModel MayV.Sync.BarrierThm MayV.Sync.BarrierCv MayV.Sync.BarrierLive
               MayV.Sync.WaitGroupModel MayV.Sync.WaitGroupThm MayV.Sync.WaitGroupLive MayV.Sync.BarrierAccept.
Close Scope Z_scope.

(* per completed generation exactly n arrivals: the followers that returned + the ONE leader that returned + the cancelled
   coroutines that died inside (each of them a coroutine whose cancel bit is set) *)
Theorem C11_barrier_exactly_n_return :
  forall n, 1 <= n -> forall s g, BReach n s -> BQuiescent n s -> g < gen s ->
  arr s g = n /\ ldr s g = 1 /\ lret s g = 1 /\ ret s g + lret s g + cntl g (lgen s) (inl s) = n /\
  forall a, In a (inl s) -> lgen s a = g -> bpc s a = BGone /\ ccan (A (cs s) a) = true /\ aco (A (cs s) a) = true.
Proof. exact barrier_exactly_n_return. Qed.
Print Assumptions C11_barrier_exactly_n_return.

(* ... without cancellation: exactly n arrivals of every completed generation have returned, exactly one of them as leader *)
Theorem C11_barrier_exactly_n_return_no_cancel :
  forall n, 1 <= n -> forall s g, BReach n s -> BQuiescent n s -> (forall a, ccan (A (cs s) a) = false) -> g < gen s ->
  arr s g = n /\ lret s g = 1 /\ ret s g + lret s g = n.
Proof. exact barrier_exactly_n_return_no_cancel. Qed.
Print Assumptions C11_barrier_exactly_n_return_no_cancel.

(* a waiter parked in a quiescent state belongs to the generation in progress, which has fewer than n arrivals *)
Theorem C11_barrier_parked_only_for_incomplete_generation :
  forall n, 1 <= n -> forall s a, BReach n s -> BQuiescent n s -> bpc s a = BWait -> lgen s a = gen s /\ arr s (gen s) < n.
Proof. exact barrier_parked_only_for_incomplete_generation. Qed.
Print Assumptions C11_barrier_parked_only_for_incomplete_generation.


(* ---- non-vacuity ---- *)
Example C11_barrier_two_generations : exists s, brun 2 binit (bgen 0 1 ++ bgen 1 0) = Some s /\ BReach 2 s /\
  gen s = 2 /\ arr s 0 = 2 /\ arr s 1 = 2 /\ ldr s 0 = 1 /\ ldr s 1 = 1 /\ ret s 0 = 1 /\ ret s 1 = 1 /\ cnt s = 0 /\ inl s = [] /\ viol s = false /\
  bpc s 0 = BIdle /\ bpc s 1 = BIdle /\ mx (cs s) = None.
Proof. exact barrier_two_generations. Qed.
Example C11_barrier_parked_for_next_generation : exists s, brun 2 binit bsched_park = Some s /\ BReach 2 s /\ BQuiescent 2 s /\
  gen s = 1 /\ bpc s 0 = BWait /\ lgen s 0 = 1 /\ bpc s 1 = BIdle /\ arr s 0 = 2 /\ ret s 0 = 1 /\ lret s 0 = 1 /\ arr s 1 = 1.
Proof. exact barrier_parked_for_next_generation. Qed.
Example C11_barrier_three_parties_three_generations : exists s, brun 2 binit (bgen 0 1 ++ bgen 2 0 ++ bgen 1 2) = Some s /\ BReach 2 s /\ BQuiescent 2 s /\
  gen s = 3 /\ (forall g, g < 3 -> arr s g = 2 /\ ldr s g = 1 /\ lret s g = 1 /\ ret s g = 1) /\ inl s = [] /\ viol s = false /\ mx (cs s) = None.
Proof. exact barrier_three_parties_three_generations. Qed.
