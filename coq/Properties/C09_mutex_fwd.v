(* C09 (continued) - Mutex::lock: (ii) the hand-off to a cancelled waiter is forwarded exactly once.  See Properties/C09.v. *)
From Coq Require Import List Arith ZArith Bool.
Import ListNotations.
Require MayV.Sync.MutexModel MayV.Sync.MutexInv MayV.Sync.MutexME MayV.Sync.MutexLive7 MayV.Sync.MutexPop MayV.Sync.MutexThm MayV.Sync.CancelMutex.

(* ================================================================================================ Mutex (lock), (ii) *)
Module MUTEX.
Import MayV.Sync.MutexModel MayV.Sync.MutexME MayV.Sync.MutexLive7 MayV.Sync.MutexPop MayV.Sync.MutexThm MayV.Sync.CancelMutex.

(* (ii) the lock handed to a waiter that has left by the cancel panic is never dropped: its `release` is set and the
   unparker has not executed its take_release yet (C05 handshake, cancel instantiation) ... *)
Theorem C09_mutex_handoff_to_cancelled_waiter_forwarded :
  forall isco s b, Reach isco s -> holder s = HB b -> apc (A s (owner (Bk s b))) = Exit ->
  rel (Bk s b) = true /\ unp (Bk s b) = true /\ unparker_before_take_release s b.
Proof. exact handshake_gone_owner_forwarded. Qed.
Print Assumptions C09_mutex_handoff_to_cancelled_waiter_forwarded.

(* ... a set `release` stands for exactly one owed unlock of a counted, departed waiter ... *)
Theorem C09_mutex_release_is_an_owed_unlock :
  forall isco s b, Reach isco s -> rel (Bk s b) = true ->
  let o := owner (Bk s b) in ab (A s o) = b /\ 1 <= b /\ MayV.Sync.MutexInv.halfgone (A s o) = true /\ In o (ent s).
Proof. exact release_means_owed_unlock. Qed.
Print Assumptions C09_mutex_release_is_an_owed_unlock.

(* ... forwarded at most once ... *)
Theorem C09_mutex_handoff_forwarded_once :
  forall isco s a, Reach isco s -> apc (A s a) = U0 -> afor (A s a) <> a ->
  holder s = HA a /\ In (afor (A s a)) (ent s) /\ MayV.Sync.MutexInv.halfgone (A s (afor (A s a))) = true /\
  rel (Bk s (ab (A s (afor (A s a))))) = false.
Proof. exact forwarded_unlock_is_unique. Qed.
Print Assumptions C09_mutex_handoff_forwarded_once.

(* ... a cancelled waiter that finds the hand-off at its first look unlocks on its own behalf before the panic; with the
   cancel disabled (Condvar::wait's re-lock) it keeps the lock, or goes back to wait when nothing was handed to it *)
Theorem C09_mutex_cancelled_waiter_with_handoff_unlocks :
  forall isco s a s', Reach isco s -> apc (A s a) = C1 -> aign (A s a) = false -> unp (Bk s (ab (A s a))) = true ->
  step isco s (Step a) = Some s' ->
  holder s = HB (ab (A s a)) /\ holder s' = HA a /\ apc (A s' a) = U0 /\ afor (A s' a) = a /\ actx (A s' a) = RExit.
Proof. exact cancelled_waiter_with_handoff_unlocks. Qed.
Print Assumptions C09_mutex_cancelled_waiter_with_handoff_unlocks.

Theorem C09_mutex_cancel_disabled_waiter_with_handoff_keeps_lock :
  forall isco s a s', Reach isco s -> apc (A s a) = C1 -> aign (A s a) = true -> unp (Bk s (ab (A s a))) = true ->
  step isco s (Step a) = Some s' -> holder s = HB (ab (A s a)) /\ holder s' = HA a /\ apc (A s' a) = CS.
Proof. exact cancelled_disabled_waiter_with_handoff_keeps_lock. Qed.
Print Assumptions C09_mutex_cancel_disabled_waiter_with_handoff_keeps_lock.

Theorem C09_mutex_cancel_disabled_waiter_without_handoff_waits_on :
  forall isco s a s', apc (A s a) = C1 -> aign (A s a) = true -> unp (Bk s (ab (A s a))) = false ->
  step isco s (Step a) = Some s' -> apc (A s' a) = P /\ cnt s' = cnt s /\ q s' = q s /\ holder s' = holder s.
Proof. exact cancelled_disabled_waiter_without_handoff_waits_on. Qed.
Print Assumptions C09_mutex_cancel_disabled_waiter_without_handoff_waits_on.

Theorem C09_mutex_departed_waiter_holds_nothing :
  forall isco s a, Reach isco s -> apc (A s a) = Exit -> holder s <> HA a /\ in_cs (apc (A s a)) = false.
Proof. exact departed_waiter_holds_nothing. Qed.
Print Assumptions C09_mutex_departed_waiter_holds_nothing.

(* ... and the primitive keeps working for everyone else: mutual exclusion and no stranded waiter hold in every reachable
   state - the model's runs include cancellation of any coroutine at any point (C05, restated) *)
Theorem C09_mutex_exclusion_and_no_stranded_waiter_under_cancel :
  forall isco s, Reach isco s ->
  (forall a a', in_cs (apc (A s a)) = true -> in_cs (apc (A s a')) = true -> a = a') /\
  (Stable isco s -> (forall a, in_cs (apc (A s a)) = false) -> forall a, apc (A s a) <> W).
Proof.
  exact (fun isco s R => conj (fun a a' => mutual_exclusion isco s a a' R) (no_stranded_waiter isco s R)).
Qed.
Print Assumptions C09_mutex_exclusion_and_no_stranded_waiter_under_cancel.
End MUTEX.

(* ================================================================================================ non-vacuity *)
(* Mutex: the lock in transit to a waiter that has left by the cancel panic, and the forwarding unlock that follows
   (schedules of C05: coroutine 0 suspended behind thread 1, cancelled, runs the Canceled branch while 1 unlocks) *)
Definition isco01 (a : nat) := negb (Nat.eqb a 1).
Definition mx_sched : list MayV.Sync.MutexModel.action :=
  [MayV.Sync.MutexModel.Start 1 false; MayV.Sync.MutexModel.Step 1; MayV.Sync.MutexModel.Start 0 false] ++
  repeat (MayV.Sync.MutexModel.Step 0) 5 ++ [MayV.Sync.MutexModel.Read 1; MayV.Sync.MutexModel.Cancel 0; MayV.Sync.MutexModel.CKick 0] ++
  repeat (MayV.Sync.MutexModel.Step 0) 4 ++ [MayV.Sync.MutexModel.Write 1] ++ repeat (MayV.Sync.MutexModel.Step 1) 4.
Example C09_ex_mutex_handoff_to_cancelled_waiter :
  let s := MayV.Sync.MutexModel.run isco01 MayV.Sync.MutexModel.init mx_sched in
  MayV.Sync.MutexModel.Reach isco01 s /\ MayV.Sync.MutexModel.holder s = MayV.Sync.MutexModel.HB 1 /\
  MayV.Sync.MutexModel.apc (MayV.Sync.MutexModel.A s 0) = MayV.Sync.MutexModel.Exit /\
  MayV.Sync.MutexModel.acanc (MayV.Sync.MutexModel.A s 0) = true /\
  MayV.Sync.MutexModel.rel (MayV.Sync.MutexModel.Bk s 1) = true /\
  let s' := MayV.Sync.MutexModel.run isco01 s (repeat (MayV.Sync.MutexModel.Step 1) 4) in
  MayV.Sync.MutexModel.cnt s' = 0 /\ MayV.Sync.MutexModel.holder s' = MayV.Sync.MutexModel.HNone /\
  MayV.Sync.MutexModel.apc (MayV.Sync.MutexModel.A s' 1) = MayV.Sync.MutexModel.Idle.
Proof. split; [apply MayV.Sync.MutexModel.run_reach, MayV.Sync.MutexModel.R0 | vm_compute; auto 10]. Qed.

(* Mutex: a cancelled waiter that finds the hand-off at its first look (hypotheses of C09_mutex_cancelled_waiter_with_handoff_unlocks) *)
Example C09_ex_mutex_cancelled_waiter_sees_handoff :
  let s := MayV.Sync.MutexModel.run isco01 MayV.Sync.MutexModel.init
             ([MayV.Sync.MutexModel.Start 1 false; MayV.Sync.MutexModel.Step 1; MayV.Sync.MutexModel.Start 0 false] ++
              repeat (MayV.Sync.MutexModel.Step 0) 5 ++ [MayV.Sync.MutexModel.Cancel 0] ++
              repeat (MayV.Sync.MutexModel.Step 1) 4 ++ [MayV.Sync.MutexModel.CKick 0; MayV.Sync.MutexModel.Step 0]) in
  MayV.Sync.MutexModel.Reach isco01 s /\ MayV.Sync.MutexModel.apc (MayV.Sync.MutexModel.A s 0) = MayV.Sync.MutexModel.C1 /\
  MayV.Sync.MutexModel.unp (MayV.Sync.MutexModel.Bk s 1) = true /\ MayV.Sync.MutexModel.holder s = MayV.Sync.MutexModel.HB 1.
Proof. split; [apply MayV.Sync.MutexModel.run_reach, MayV.Sync.MutexModel.R0 | vm_compute; auto 10]. Qed.

