From Coq Require Import List Arith.
Require Import MayV.Sync.ChanMpscModel MayV.Sync.ChanMpscInv MayV.Sync.ChanMpscThm.
Theorem C06_mpsc_accounting : forall s, Reach s -> sent s = rcvd s ++ drpd s ++ q s.
Proof. exact mpsc_accounting. Qed.
Print Assumptions C06_mpsc_accounting.
