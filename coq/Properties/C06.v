(* C06 - channels deliver every message exactly once, in per-sender order; a blocked receiver is woken
   by the send that makes a value available.  Property theorems only: each is closed by `exact` of a
   lemma proved under Sync/Chan*.v and followed by Print Assumptions.  Three model instances
   (upper layer of DESIGN 2.1): mpsc, spsc (thread and coroutine receiver), mpmc. *)
From Coq Require Import List Arith Sorted.
Import ListNotations.
Require MayV.Sync.ChanMpscModel MayV.Sync.ChanMpscInv MayV.Sync.ChanMpscThm MayV.Sync.ChanMpscAccept MayV.Sync.ChanMpscDrop.
Require MayV.Sync.ChanSpscModel MayV.Sync.ChanSpscInv MayV.Sync.ChanSpscThm MayV.Sync.ChanSpscAccept MayV.Sync.ChanSpscDrop.
Require MayV.Sync.ChanMpmcModel MayV.Sync.ChanMpmcInv MayV.Sync.ChanMpmcThm MayV.Sync.ChanMpmcAccept MayV.Sync.ChanMpmcDrop.

(* ======================================== mpsc ======================================== *)
Module Mpsc.
Import MayV.Sync.ChanMpscModel MayV.Sync.ChanMpscInv MayV.Sync.ChanMpscThm MayV.Sync.ChanMpscAccept MayV.Sync.ChanMpscDrop.

(* (i) the values pushed by successful sends are, in push order: what the receiver was handed (in that
   order), then what drop_port / the final free dropped, then what is still queued *)
Theorem C06_mpsc_accounting : forall s, Reach s -> sent s = rcvd s ++ drpd s ++ q s.
Proof. exact mpsc_accounting. Qed.
Print Assumptions C06_mpsc_accounting.

(* every Ok-sent value is in exactly one of {received, dropped, queued}; nothing else is received *)
Theorem C06_mpsc_exactly_once : forall s, Reach s ->
  NoDup (rcvd s ++ drpd s ++ q s) /\ (forall v, In v (sent s) <-> In v (rcvd s) \/ In v (drpd s) \/ In v (q s)).
Proof. exact mpsc_exactly_once. Qed.
Print Assumptions C06_mpsc_exactly_once.

(* counted: an Ok-sent value occurs exactly once in received ++ dropped ++ still queued (received XOR dropped XOR
   queued, never two of them, never twice); a value that was not sent occurs nowhere.  See C07.v for the freed channel
   (nothing queued any more: received XOR dropped) and for where the drops happen *)
Theorem C06_mpsc_received_xor_dropped : forall s v, Reach s ->
  (In v (sent s) -> cnt v (rcvd s) + cnt v (drpd s) + cnt v (q s) = 1) /\
  (~ In v (sent s) -> cnt v (rcvd s) + cnt v (drpd s) + cnt v (q s) = 0).
Proof. exact mpsc_received_xor_dropped. Qed.
Print Assumptions C06_mpsc_received_xor_dropped.

(* per sender: handle a sent (a,0), (a,1), ... and the receiver got a prefix (a,0) ... (a,k-1), in order *)
Theorem C06_mpsc_per_sender_order : forall s a, Reach s ->
  filter (from a) (sent s) = map (pair a) (seq 0 (sn (Sd s a))) /\
  exists k, k <= sn (Sd s a) /\ filter (from a) (rcvd s) = map (pair a) (seq 0 k).
Proof. exact mpsc_per_sender_order_full. Qed.
Print Assumptions C06_mpsc_per_sender_order.

(* (ii) no lost wake-up *)
Theorem C06_mpsc_no_lost_wakeup : forall s, Reach s ->
  rp (R s) = RWait -> reason (Bk s (rb (R s))) = None -> (q s <> [] \/ chans s = 0) ->
  exists a, sp (Sd s a) = STake \/ (sp (Sd s a) = SUnpark /\ sw (Sd s a) = rb (R s)).
Proof. exact mpsc_no_lost_wakeup. Qed.
Print Assumptions C06_mpsc_no_lost_wakeup.

Theorem C06_mpsc_quiescent_receiver_not_parked_next_to_a_value : forall s, Reach s -> senders_quiet s ->
  rp (R s) = RWait -> reason (Bk s (rb (R s))) = None -> q s = [] /\ chans s <> 0.
Proof. exact mpsc_quiescent_not_stranded. Qed.
Print Assumptions C06_mpsc_quiescent_receiver_not_parked_next_to_a_value.

(* tie: every state along an accepted trace of the real code is a reachable state of the model *)
Theorem C06_mpsc_accepted_traces_are_model_runs : forall tr l, accept_allm m_initm tr = Some l -> forall sx, In sx l -> Reach (fst sx).
Proof. exact accepted_trace_reachesm. Qed.
Print Assumptions C06_mpsc_accepted_traces_are_model_runs.

Example C06_mpsc_nonvacuous :
  let s := run init sch_wake in
  Reach s /\ rp (R s) = RWait /\ reason (Bk s (rb (R s))) = None /\ q s = [(0, 0)] /\ sp (Sd s 0) = STake.
Proof. exact wake_pending. Qed.
End Mpsc.

(* ======================================== spsc ======================================== *)
Module Spsc.
Import MayV.Sync.ChanSpscModel MayV.Sync.ChanSpscInv MayV.Sync.ChanSpscThm MayV.Sync.ChanSpscAccept MayV.Sync.ChanSpscDrop.

Theorem C06_spsc_accounting : forall s, Reach true s -> sent s = rcvd s ++ drpd s ++ q s.
Proof. exact spsc_accounting. Qed.
Print Assumptions C06_spsc_accounting.

Theorem C06_spsc_exactly_once : forall s, Reach true s ->
  NoDup (rcvd s ++ drpd s ++ q s) /\ (forall v, In v (sent s) <-> In v (rcvd s) \/ In v (drpd s) \/ In v (q s)).
Proof. exact spsc_exactly_once. Qed.
Print Assumptions C06_spsc_exactly_once.

Theorem C06_spsc_received_xor_dropped : forall s v, Reach true s ->
  (In v (sent s) -> cnt v (rcvd s) + cnt v (drpd s) + cnt v (q s) = 1) /\
  (~ In v (sent s) -> cnt v (rcvd s) + cnt v (drpd s) + cnt v (q s) = 0).
Proof. exact spsc_received_xor_dropped. Qed.
Print Assumptions C06_spsc_received_xor_dropped.

(* the sender pushed 0, 1, 2, ...; the receiver got 0 ... k-1 in this order *)
Theorem C06_spsc_order : forall s, Reach true s ->
  sent s = seq 0 (sn (Sn s)) /\ exists k, k <= sn (Sn s) /\ rcvd s = seq 0 k.
Proof. exact spsc_order_full. Qed.
Print Assumptions C06_spsc_order.

(* (ii) thread receiver *)
Theorem C06_spsc_thread_no_lost_wakeup : forall s, Reach true s ->
  rp (R s) = RPark -> ttok s = false -> (q s <> [] \/ chans s = 0) ->
  sp (Sn s) = STake \/ (sp (Sn s) = SUnpark /\ sw (Sn s) = WT).
Proof. exact spsc_thread_no_lost_wakeup. Qed.
Print Assumptions C06_spsc_thread_no_lost_wakeup.

(* (ii) coroutine receiver *)
Theorem C06_spsc_coroutine_no_lost_wakeup : forall s, Reach true s ->
  rp (R s) = RSusp -> runq s = false -> (q s <> [] \/ chans s = 0) ->
  sp (Sn s) = STake \/ (sp (Sn s) = SUnpark /\ sw (Sn s) = WC).
Proof. exact spsc_coroutine_no_lost_wakeup. Qed.
Print Assumptions C06_spsc_coroutine_no_lost_wakeup.

Theorem C06_spsc_quiescent_receiver_not_blocked_next_to_a_value : forall s, Reach true s -> sp (Sn s) = SIdle ->
  (rp (R s) = RPark /\ ttok s = false) \/ (rp (R s) = RSusp /\ runq s = false) -> q s = [] /\ chans s <> 0.
Proof. exact spsc_quiescent_not_stranded. Qed.
Print Assumptions C06_spsc_quiescent_receiver_not_blocked_next_to_a_value.

(* tie *)
Theorem C06_spsc_accepted_traces_are_model_runs : forall tr sx, accept_all a_init tr = Some sx -> Reach true (fst sx).
Proof. exact accepted_trace_reaches. Qed.
Print Assumptions C06_spsc_accepted_traces_are_model_runs.

Example C06_spsc_nonvacuous :
  let s := run true init [Recv false; RStep; RStep; RStep; RStep; RStep; Send; SStep; SStep] in
  Reach true s /\ rp (R s) = RPark /\ ttok s = false /\ q s = [0] /\ sp (Sn s) = STake.
Proof. exact spsc_thread_wake. Qed.
End Spsc.

(* ======================================== mpmc ======================================== *)
Module Mpmc.
Import MayV.Sync.ChanMpmcModel MayV.Sync.ChanMpmcInv MayV.Sync.ChanMpmcThm MayV.Sync.ChanMpmcAccept MayV.Sync.ChanMpmcDrop.

Theorem C06_mpmc_accounting : forall s, Reach true true true s -> sent s = map snd (rlog s) ++ drpd s ++ q s.
Proof. exact (mpmc_accounting true). Qed.
Print Assumptions C06_mpmc_accounting.

(* rlog has one entry (receiver, value) per value handed out: received by exactly one receiver call *)
Theorem C06_mpmc_exactly_once : forall s, Reach true true true s ->
  NoDup (map snd (rlog s) ++ drpd s ++ q s) /\
  (forall v, In v (sent s) <-> In v (map snd (rlog s)) \/ In v (drpd s) \/ In v (q s)).
Proof. exact (mpmc_exactly_once true). Qed.
Print Assumptions C06_mpmc_exactly_once.

Theorem C06_mpmc_received_xor_dropped : forall s v, Reach true true true s ->
  (In v (sent s) -> cnt v (recvd s) + cnt v (drpd s) + cnt v (q s) = 1) /\
  (~ In v (sent s) -> cnt v (recvd s) + cnt v (drpd s) + cnt v (q s) = 0).
Proof. exact (mpmc_received_xor_dropped true). Qed.
Print Assumptions C06_mpmc_received_xor_dropped.

(* per receiver r and sender a: the sequence numbers r got from a strictly increase *)
Theorem C06_mpmc_per_receiver_order : forall s r a, Reach true true true s -> StronglySorted lt (got s r a).
Proof. exact (mpmc_per_receiver_order true). Qed.
Print Assumptions C06_mpmc_per_receiver_order.

(* (ii) while a sender (and a receiver) exists: permits = queued values; a permit holder finds a value;
   the `unreachable!("... found no data")` arms are unreachable *)
Theorem C06_mpmc_permits_are_values : forall s, Reach true true true s -> txp s <> 0 -> rxp s <> 0 ->
  length (q s) = sv s + length (hold s) + length (pend s).
Proof. exact (mpmc_permits_are_values true). Qed.
Print Assumptions C06_mpmc_permits_are_values.

Theorem C06_mpmc_unreachable_is_unreachable : forall s r, Reach true true true s ->
  rp (Rv s r) <> RPanic /\ (rp (Rv s r) = Y3n -> txp s = 0).
Proof. exact (mpmc_unreachable_is_unreachable true). Qed.
Print Assumptions C06_mpmc_unreachable_is_unreachable.

Theorem C06_mpmc_holder_finds_value : forall s r, Reach true true true s -> rp (Rv s r) = Y2 -> txp s <> 0 -> q s <> [].
Proof. exact (mpmc_holder_finds_value true). Qed.
Print Assumptions C06_mpmc_holder_finds_value.
(* tie (runs without timed waits, Semphore calls atomic) *)
Theorem C06_mpmc_accepted_traces_are_model_runs : forall tr sx, accept_all a_init tr = Some sx -> Reach true true true (fst sx).
Proof. exact accepted_trace_reaches. Qed.
Print Assumptions C06_mpmc_accepted_traces_are_model_runs.
End Mpmc.
