(* C03, spsc part - may_queue::spsc::Queue (default feature inner_cache) is a linearizable FIFO and
   its block recycling never touches a block the consumer can still read.  Property theorems only:
   each is closed by `exact` of a lemma proved elsewhere and followed by Print Assumptions.
   Model: Queue/SpscModel.v (one transition per shared access, block size B, two fixed roles),
   st = (M memory, P producer locals, C consumer locals, Q abstract queue ghost, K block sequence ghost, F monitors). *)
From Coq Require Import List ZArith Arith.
Import ListNotations.
Require Import MayV.Queue.SpscModel MayV.Queue.SpscInv MayV.Queue.SpscThm MayV.Queue.SpscBlocks MayV.Queue.SpscAccept.

(* (a) Refinement: the values handed out so far followed by the abstract queue are exactly the pushed
   values in push order; tail.index = number of pushes linearised (LP: the tail.index store),
   head.index = number of values handed out (LP: the head.index store). *)
Theorem C03_spsc_refines_fifo :
  forall B, 1 <= B -> forall s, Reach B s ->
  pushed (Q s) = popped (Q s) ++ absq (Q s) /\
  length (pushed (Q s)) = tidx (M s) /\ length (popped (Q s)) = hidx (M s).
Proof. exact refines_fifo. Qed.
Print Assumptions C03_spsc_refines_fifo.

(* (a) Every transition leaves the abstract queue alone, or is the tail.index store of a push and
   appends the pushed value, or is the head.index store of pop/bulk_pop and removes from the front
   exactly the values that call returns. *)
Theorem C03_spsc_linearisation_points :
  forall B, 1 <= B -> forall s a s', Reach B s -> step B s a = Some s' ->
  (absq (Q s') = absq (Q s) /\ pushed (Q s') = pushed (Q s) /\ popped (Q s') = popped (Q s) /\
   tidx (M s') = tidx (M s) /\ hidx (M s') = hidx (M s)) \/
  (a = PStep /\ pp (P s) = PPub /\ absq (Q s') = absq (Q s) ++ [pv (P s)] /\ tidx (M s') = S (tidx (M s)) /\
   hidx (M s') = hidx (M s)) \/
  (a = CStep /\ cp (C s) = CCommit /\ absq (Q s) = cacc (C s) ++ absq (Q s') /\
   popped (Q s') = popped (Q s) ++ cacc (C s) /\ hidx (M s') = cend (C s) /\ tidx (M s') = tidx (M s)).
Proof. exact lin_step. Qed.
Print Assumptions C03_spsc_linearisation_points.

(* (a) What pop / bulk_pop return: a non-empty prefix of the abstract queue, i.e. values in push
   order, at most one block. *)
Theorem C03_spsc_pop_returns_fifo_prefix :
  forall B, 1 <= B -> forall s, Reach B s -> cp (C s) = CCommit ->
  cacc (C s) = firstn (length (cacc (C s))) (absq (Q s)) /\
  1 <= length (cacc (C s)) /\ length (cacc (C s)) <= B /\ length (cacc (C s)) = cend (C s) - hidx (M s).
Proof. exact commit_returns_prefix. Qed.
Print Assumptions C03_spsc_pop_returns_fifo_prefix.

(* (a) monitor form, covering peek as well: nothing else than the abstract head(s) was ever returned *)
Theorem C03_spsc_never_returns_anything_but_the_head :
  forall B, 1 <= B -> forall s, Reach B s -> bad_fifo (F s) = false.
Proof. exact pops_return_fifo_prefix. Qed.
Print Assumptions C03_spsc_never_returns_anything_but_the_head.

(* (a) every slot the consumer reads holds the value that was pushed with exactly that index *)
Theorem C03_spsc_reads_see_pushed_value :
  forall B, 1 <= B -> forall s, Reach B s -> cp (C s) = CRead ->
  slot (M s) (hblk (M s)) (ck (C s) mod B) = Some (ck (C s), nth (ck (C s) - hidx (M s)) (absq (Q s)) 0).
Proof. exact read_slot_holds_queue_value. Qed.
Print Assumptions C03_spsc_reads_see_pushed_value.

(* (b) "empty" (pop None, bulk_pop empty, peek None) is answered only when the abstract queue is
   empty at the tail.index load of that very call (which implies the interval form). *)
Theorem C03_spsc_empty_only_if_empty :
  forall B, 1 <= B -> forall s, Reach B s -> bad_none (F s) = false.
Proof. exact empty_answers_justified. Qed.
Print Assumptions C03_spsc_empty_only_if_empty.
Theorem C03_spsc_indices_equal_iff_abstract_empty :
  forall B, 1 <= B -> forall s, Reach B s -> (hidx (M s) = tidx (M s) <-> absq (Q s) = []).
Proof. exact indices_equal_iff_abstract_empty. Qed.
Print Assumptions C03_spsc_indices_equal_iff_abstract_empty.

(* (c) alloc_node never recycles a block of the window head.block .. tail.block ... *)
Theorem C03_spsc_recycled_block_not_in_consumer_window :
  forall B, 1 <= B -> forall s, Reach B s -> bad_recyc (F s) = false.
Proof. exact recycled_block_not_in_consumer_window. Qed.
Print Assumptions C03_spsc_recycled_block_not_in_consumer_window.
(* ... the producer never overwrites a slot whose value the consumer has not passed yet ... *)
Theorem C03_spsc_no_unconsumed_slot_overwritten :
  forall B, 1 <= B -> forall s, Reach B s -> bad_over (F s) = false.
Proof. exact no_unconsumed_slot_overwritten. Qed.
Print Assumptions C03_spsc_no_unconsumed_slot_overwritten.
(* ... and no null `next` is followed, neither by the consumer at a block end nor by alloc_node. *)
Theorem C03_spsc_no_null_next_followed :
  forall B, 1 <= B -> forall s, Reach B s -> bad_null (F s) = false.
Proof. exact no_null_next_followed. Qed.
Print Assumptions C03_spsc_no_null_next_followed.

(* (c) the structural reason: in block-sequence order first <= last_head <= head.block <= tail.block,
   the blocks from `first` on are pairwise different (also after any number of recyclings) and are
   chained by `next` in that order. *)
Theorem C03_spsc_live_blocks_distinct_and_chained :
  forall B, 1 <= B -> forall s, Reach B s ->
  let k := K s in
  (gfk k <= glk k /\ glk k <= ghk k /\ ghk k <= gtk k /\ gtk k < gnb k) /\
  (first (M s) = bid k (gfk k) /\ lasth (M s) = bid k (glk k) /\ hblk (M s) = bid k (ghk k) /\ tblk (M s) = bid k (gtk k)) /\
  (forall i j, gfk k <= i -> i < j -> j < gnb k -> bid k i <> bid k j) /\
  (forall j, gfk k <= j -> S j < gnb k -> nxt (M s) (bid k j) = bid k (S j)).
Proof. exact live_blocks_distinct_and_chained. Qed.
Print Assumptions C03_spsc_live_blocks_distinct_and_chained.

(* (c) every value the consumer has not passed yet sits, intact, in its slot of its block *)
Theorem C03_spsc_unconsumed_values_intact :
  forall B, 1 <= B -> forall s, Reach B s ->
  forall j o, o < B -> rdpos s <= j * B + o -> j * B + o < tidx (M s) ->
  slot (M s) (bid (K s) j) o = Some (j * B + o, nth (j * B + o) (pushed (Q s)) 0).
Proof. exact unconsumed_values_intact. Qed.
Print Assumptions C03_spsc_unconsumed_values_intact.

(* (v, memory) the inner cache leaks nothing: every block ever allocated is one of the blocks
   first .. last appended block, or the block alloc_node has just returned and push is about to link *)
Theorem C03_spsc_all_blocks_stay_chained :
  forall B, 1 <= B -> forall s, Reach B s ->
  forall b, 1 <= b -> b < nalloc (M s) ->
  (exists k, gfk (K s) <= k /\ k < gnb (K s) /\ bid (K s) k = b) \/ (pp (P s) = PLink /\ pnew (P s) = b).
Proof. exact all_blocks_stay_chained. Qed.
Print Assumptions C03_spsc_all_blocks_stay_chained.

(* (v) PARTIAL: Queue::drop itself is not a transition of the model (it runs with &mut self); what is
   proved is what it relies on in any state without a call in progress: drained implies
   head.block = tail.block (its assert_eq!), and the walk first, first.next, .. up to tail.block visits
   pairwise different blocks which are all blocks ever allocated (each freed exactly once, none leaked).
   That the remaining values are dropped once is covered by the drop-counter oracle of q_spsc only. *)
Theorem C03_spsc_drop_walk_partial :
  forall B, 1 <= B -> forall s, Reach B s -> pp (P s) = PIdle -> cp (C s) = CIdle ->
  (hidx (M s) = tidx (M s) -> hblk (M s) = tblk (M s)) /\
  gnb (K s) = S (gtk (K s)) /\
  (forall b, 1 <= b -> b < nalloc (M s) -> exists k, gfk (K s) <= k /\ k <= gtk (K s) /\ bid (K s) k = b) /\
  (forall i j, gfk (K s) <= i -> i < j -> j <= gtk (K s) -> bid (K s) i <> bid (K s) j) /\
  (forall j, gfk (K s) <= j -> j < gtk (K s) -> nxt (M s) (bid (K s) j) = bid (K s) (S j)) /\
  first (M s) = bid (K s) (gfk (K s)) /\ tblk (M s) = bid (K s) (gtk (K s)).
Proof. exact drop_view. Qed.
Print Assumptions C03_spsc_drop_walk_partial.

(* (d) len() called by the consumer thread lies between the abstract lengths at its call and at its
   return (only pushes can interleave) ... *)
Theorem C03_spsc_len_between_call_and_return :
  forall B, 1 <= B -> forall s, Reach B s -> bad_len (F s) = false.
Proof. exact len_between_call_and_return. Qed.
Print Assumptions C03_spsc_len_between_call_and_return.
(* ... and called by the producer thread between the abstract lengths at its return and at its call
   (only pops can interleave).  len() from a THIRD thread is outside the model (there both indices
   move between the two loads and the result can exceed every abstract length of the interval). *)
Theorem C03_spsc_producer_len_between_return_and_call :
  forall B, 1 <= B -> forall s, Reach B s -> bad_lenp (F s) = false.
Proof. exact producer_len_between_return_and_call. Qed.
Print Assumptions C03_spsc_producer_len_between_return_and_call.

(* all monitors together *)
Theorem C03_spsc_monitors_never_trip :
  forall B, 1 <= B -> forall s, Reach B s -> monitors_ok s = true.
Proof. exact monitors_never_trip. Qed.
Print Assumptions C03_spsc_monitors_never_trip.

(* Tie: every state along a trace of the real queue that the acceptor accepts is reachable, hence
   satisfies all theorems above. *)
Theorem C03_spsc_accepted_traces_are_model_runs :
  forall B tr sx sx', Reach B (fst sx) -> accept_all B sx tr = Some sx' -> Reach B (fst sx').
Proof. exact accept_all_reach. Qed.
Print Assumptions C03_spsc_accepted_traces_are_model_runs.

(* ---- non-vacuity ---- *)
(* block size 2: six pushes, pops and a bulk_pop crossing three block boundaries; block 1 is recycled
   twice and block 2 once (block sequence 1,2,1,2), nothing but the two blocks is ever allocated *)
Definition nv_sched : list action :=
  [Push 1; PStep; PStep; Push 2; PStep; PStep; PStep; PStep; PStep; PStep;
   Pop; CStep; CStep; CStep; Pop; CStep; CStep; CStep; CStep; CStep;
   Push 3; PStep; PStep; Push 4; PStep; PStep; PStep; PStep; PStep; PStep; PStep;
   Bulk; CStep; CStep; CStep; CStep; CStep; CStep; Len; CStep; CStep; Pop; CStep; Peek; CStep;
   Push 5; PStep; PStep; Peek; CStep; CStep; Push 6; PStep; PStep; PStep; PStep; PStep; PStep; PStep;
   Bulk; CStep; CStep; CStep; CStep; CStep; CStep].
Example C03_spsc_nonvacuous_recycling_run :
  match run 2 init nv_sched with
  | Some s => popped (Q s) = [1; 2; 3; 4; 5; 6] /\ absq (Q s) = [] /\ nalloc (M s) = 3 /\
              map (bid (K s)) (seq 0 (gnb (K s))) = [1; 2; 1; 2] /\ monitors_ok s = true
  | None => False
  end.
Proof. vm_compute. repeat split. Qed.

(* the recycling monitor is not constant: from a (non reachable) state in which `first` is the
   consumer's head block while alloc_node is about to hand it out, it trips *)
Example C03_spsc_recycle_monitor_can_trip :
  match step 2 {| M := M init; P := {| pp := PRec1; pv := 0; pnew := 0; plh := 0; plenh := 0; pres := 0 |}; C := C init;
                  Q := Q init; K := K init; F := F init |} PStep with
  | Some s => bad_recyc (F s) = true
  | None => False
  end.
Proof. vm_compute. reflexivity. Qed.

(* a hand-written trace of the real event format is accepted (block size 2): push 7, push 8 (block end,
   fresh block at address 4096), pop -> 7, pop -> 8 (block end), pop -> empty; 34 = the slot read, on the very slot object that was written *)
Local Open Scope Z_scope.
Example C03_spsc_nonvacuous_accepted_trace :
  match accept_all 2 a_init
    [[1;1;0;7]; [20;1;1;0]; [26;1;2;1]; [2;1;0;0];
     [1;1;0;8]; [20;1;3;1]; [22;1;4;512]; [24;1;5;4096]; [25;1;6;4096]; [26;1;2;2]; [2;1;0;0];
     [3;2;0;0]; [30;2;2;2]; [34;2;1;0]; [33;2;7;1]; [4;2;1;7];
     [3;2;0;0]; [30;2;2;2]; [34;2;3;1]; [31;2;5;4096]; [32;2;8;4096]; [33;2;7;2]; [4;2;1;8];
     [3;2;0;0]; [30;2;2;2]; [4;2;0;0]] with
  | Some sx => popped (Q (fst sx)) = [7%nat; 8%nat] /\ a_final sx = true
  | None => False
  end.
Proof. vm_compute. split; reflexivity. Qed.
