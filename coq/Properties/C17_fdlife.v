(* C17 / C18 - the selector registration of a socket lasts for the whole life of the socket.
   Property theorems only (model: Io/FdLife.v; kernel object K7 as stated there: descriptor numbers are
   recycled, the interest list is keyed by number, close removes the socket's own registration).
   "A reader, writer, accept or connect that blocked is resumed when the socket becomes ready" rests on the
   readiness event reaching the EventData of THAT socket (Properties/C17.v takes the registration as given):
   here it is shown that, with the destruction order of the code (IoData field first = EPOLL_CTL_DEL, then the
   std socket = close; pinned per run as `pinned_structs` of coq/Io/io_sites.json), no other socket's drop can
   take the registration away, for any number of sockets and threads, any interleaving of their system calls and
   any recycling of descriptor numbers by the kernel. *)
From Coq Require Import List Arith Bool Lia.
Import ListNotations.
Require Import MayV.Io.FdLife MayV.Io.FdLifeThm.

(* a socket in use owns its descriptor number and is the one registered for it *)
Theorem C17_registration_for_life :
  forall s id fd, Reach true s -> ph s id = SLive fd -> fdt s fd = Some id /\ reg s fd = Some id.
Proof. exact registration_for_life. Qed.
Print Assumptions C17_registration_for_life.

(* a descriptor number never belongs to two sockets, also not to one that is half-way through its drop *)
Theorem C17_number_has_one_owner :
  forall s a b fd, Reach true s -> holds (ph s a) fd -> holds (ph s b) fd -> a = b.
Proof. exact number_has_one_owner. Qed.
Print Assumptions C17_number_has_one_owner.

(* an event is only ever delivered to a socket that is in use and owns the number: no stale EventData is reached *)
Theorem C17_events_reach_a_live_socket :
  forall s fd id, Reach true s -> reg s fd = Some id -> ph s id = SLive fd /\ fdt s fd = Some id.
Proof. exact events_reach_a_live_socket. Qed.
Print Assumptions C17_events_reach_a_live_socket.

(* a free number carries no registration: whoever gets it next starts clean *)
Theorem C17_free_number_not_registered :
  forall s fd, Reach true s -> fdt s fd = None -> reg s fd = None.
Proof. exact free_number_not_registered. Qed.
Print Assumptions C17_free_number_not_registered.

(* the number of a socket that is inside its drop cannot be handed out *)
Theorem C17_no_recycle_inside_the_drop :
  forall s id fd fd', Reach true s -> ph s id = SHalf fd -> step true s (Create fd') <> None -> fd' <> fd.
Proof. exact no_recycle_inside_the_drop. Qed.
Print Assumptions C17_no_recycle_inside_the_drop.

(* the opposite order (close, then EPOLL_CTL_DEL by number): a socket in use, owning its number, without registration;
   the witness is the schedule that harness/src/bin/s_fdreuse.rs drives on the real runtime *)
Theorem C17_close_before_deregister_refuted :
  exists s id fd, Reach false s /\ ph s id = SLive fd /\ fdt s fd = Some id /\ reg s fd = None.
Proof. exact close_first_refuted. Qed.
Print Assumptions C17_close_before_deregister_refuted.

(* non-vacuity: recycling really happens in the model of the code's order *)
Example C17_recycle_reachable :
  exists s, Reach true s /\ ph s 1 = SLive 5 /\ ph s 0 = SDead /\ reg s 5 = Some 1.
Proof. exact recycle_reachable. Qed.
Print Assumptions C17_recycle_reachable.
