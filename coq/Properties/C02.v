(* C02 - park / unpark never loses a wake-up (placeholder while the development is being built) *)
From Coq Require Import List ZArith.
Require Import MayV.Rt.ParkModel MayV.Rt.ParkAccept.
Theorem C02_accepted_traces_are_model_runs :
  forall tr x x', MReach (ms x) -> accept_all x tr = Some x' -> MReach (ms x').
Proof. exact accept_all_reach. Qed.
Print Assumptions C02_accepted_traces_are_model_runs.
