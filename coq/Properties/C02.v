(* C02 - park / unpark never loses a wake-up, in coroutines and in threads.

   Property theorems only: each is closed by `exact` of a lemma proved in Rt/ParkInv*.v, Rt/ParkThm.v,
   Rt/ParkRefute.v, Rt/ParkThread.v, Rt/ParkAccept.v, and followed by Print Assumptions.

   Model (Rt/ParkModel.v): ONE coroutine and the Park it parks on (the per-coroutine Park of coroutine::park, or
   - action ANewPark - the Park of a fresh Blocker), its Cancel, the generator parameter, any number of unparkers,
   cancellers and timer entries, the clock; one transition per shared-memory access of src/park.rs, the cancelled
   short-cut of yield_with, Cancel::cancel / set_co, the timer callback.  [ReachF] = reachable with the code as it
   is in /repo ([step true true true]: the repairs of F8, F12 and F31 are in); the schedule is arbitrary, so every theorem holds for every client program
   (any sequence of park / park_timeout / unpark / cancel on the handle) and every interleaving.
   State components used below: [pstate] = Park.state (the token), [slot] = wait_co holds the coroutine,
   [kp] = control point of the kernel half (Park::subscribe), [up] = control point of the user half
   (Park::park_timeout), [un i] / [cn i] / [tm i] = unparker / canceller / timer entry i, [cbit] = cancel bit,
   [hnd] = timeout_handle, [cco] = Cancel.co.  Ghost: [holder], [wsrc] (who took the coroutine), [tok0], [ctok], [ncall].

   What is NOT proved (see props/C02.json "assumptions"): liveness proper.  "Returns instead of blocking" is
   proved in the safety form of DESIGN 2.2: in no reachable state is the call stuck while a reason to wake it
   exists (some transition of the implementation is enabled; in the slot: one that takes the coroutine), and
   Quiescent states have no such call.  That enabled transitions are eventually taken is the fairness of the
   worker loop / OS scheduler (C01). *)
From Coq Require Import List ZArith Bool.
Import ListNotations.
Require Import MayV.Rt.AtomicDur MayV.Base.BlockerSpec MayV.Rt.ParkModel MayV.Rt.ParkTac MayV.Rt.ParkInv1
               MayV.Rt.ParkThm MayV.Rt.ParkRefute MayV.Rt.ParkThread MayV.Rt.ParkAccept.
Open Scope Z_scope.

(* ================================================================================================ *)
(* (i) single resumption                                                                            *)
(* ================================================================================================ *)

(* The coroutine is in exactly one place while it is alive, in none once it is gone.  [places] counts:
   running + in the wait_co slot + entries in run queues + in the hands of the kernel half + taken by the
   recorded holder (unparker / canceller / timer callback). *)
Theorem C02_single_resumption :
  forall s, ReachF s -> places s = (match up s with UDead => 0 | _ => 1 end)%nat.
Proof. exact single_resumption. Qed.
Print Assumptions C02_single_resumption.

Theorem C02_exactly_one_place :
  forall s, ReachF s -> up s <> UDead ->
  (running s = true  /\ slot s = false /\ rq s = 0%nat /\ kholds (kp s) = false /\ holder s = HNone) \/
  (running s = false /\ slot s = true  /\ rq s = 0%nat /\ kholds (kp s) = false /\ holder s = HNone) \/
  (running s = false /\ slot s = false /\ rq s = 1%nat /\ kholds (kp s) = false /\ holder s = HNone) \/
  (running s = false /\ slot s = false /\ rq s = 0%nat /\ kholds (kp s) = true  /\ holder s = HNone) \/
  (running s = false /\ slot s = false /\ rq s = 0%nat /\ kholds (kp s) = false /\ held (holder s) = true).
Proof. exact exactly_one_place. Qed.
Print Assumptions C02_exactly_one_place.

(* whoever has taken the coroutine out of the slot and not yet passed it on is THE recorded holder:
   `take` hands it to exactly one of unparker / canceller / timer *)
Theorem C02_taken_by_exactly_one :
  forall s, ReachF s ->
  (forall i, un s i = NHold -> holder s = HUn i) /\
  (forall i, cn s i = CHold -> holder s = HCn i) /\
  (forall i, tm s i = TmHold -> holder s = HTm i).
Proof. exact taken_by_exactly_one. Qed.
Print Assumptions C02_taken_by_exactly_one.

Theorem C02_holders_unique :
  forall s, ReachF s ->
  (forall i j, un s i = NHold -> un s j = NHold -> i = j) /\
  (forall i j, cn s i = CHold -> cn s j = CHold -> i = j) /\
  (forall i j, tm s i = TmHold -> tm s j = TmHold -> i = j) /\
  (forall i j, un s i = NHold -> cn s j = CHold -> False) /\
  (forall i j, un s i = NHold -> tm s j = TmHold -> False) /\
  (forall i j, cn s i = CHold -> tm s j = TmHold -> False).
Proof. exact holders_unique. Qed.
Print Assumptions C02_holders_unique.

Theorem C02_holder_is_actor :
  forall s, ReachF s ->
  match holder s with
  | HUn i => un s i = NHold
  | HCn i => cn s i = CHold
  | HTm i => tm s i = TmHold
  | HNone => (forall i, un s i <> NHold) /\ (forall i, cn s i <> CHold) /\ (forall i, tm s i <> TmHold)
  end.
Proof. exact holder_is_actor. Qed.
Print Assumptions C02_holder_is_actor.

(* ================================================================================================ *)
(* (ii) no lost wake-up                                                                             *)
(* ================================================================================================ *)

(* The coroutine is in the slot and the token is set (an unpark happened after the previous park
   returned and nobody consumed it): then the kernel half has not yet done its re-check of the token
   (it is between wait_co.store and state.load / its take), or an unparker is between its
   state.swap(true) and its wait_co.take(). *)
Theorem C02_no_lost_wakeup :
  forall s, ReachF s -> slot s = true -> pstate s = true ->
  krecheck (kp s) = true \/ exists i b, un s i = NTake b.
Proof. exact no_lost_wakeup. Qed.
Print Assumptions C02_no_lost_wakeup.

(* that unparker's next access is enabled, takes the coroutine out of the slot and makes him the holder *)
Theorem C02_unparker_takes :
  forall s i b, un s i = NTake b -> slot s = true ->
  exists s', stepF s (AUnTake i) = Some s' /\ slot s' = false /\ un s' i = NHold /\ holder s' = HUn i.
Proof. exact unparker_takes. Qed.
Print Assumptions C02_unparker_takes.

(* that kernel half, left alone, takes the coroutine back within three accesses and has it in its hands
   (it then resumes it: KSgoff/KFgoff true -> KSrun/KFrun) *)
Theorem C02_kernel_self_wake :
  forall s, krecheck (kp s) = true -> slot s = true -> pstate s = true ->
  exists n s', (n <= 3)%nat /\ run true true true s (repeat AK n) = Some s' /\ slot s' = false /\ kholds (kp s') = true.
Proof. exact kernel_self_wake. Qed.
Print Assumptions C02_kernel_self_wake.

(* Quiescent: the coroutine is not running and in no run queue, the kernel half is through, no unpark /
   cancel call is in progress, no timer entry is due or popped.  Only the client (a new park / unpark /
   cancel call) and the clock can move. *)
Theorem C02_quiescent_no_token :
  forall s, ReachF s -> Quiescent s -> ~ (slot s = true /\ pstate s = true).
Proof. exact quiescent_no_token. Qed.
Print Assumptions C02_quiescent_no_token.

(* Quiescent is exactly "no transition of the implementation is enabled" for states with the coroutine in
   the slot ([internal]: every action but the client's APark / AAway / AExit / ANewPark / AUnSwap / ACnOr,
   the clock ATick and the house-keeping ATDrop / ADrop) *)
Theorem C02_quiescent_stuck :
  forall s, Quiescent s -> forall a, internal a = true -> stepF s a = None.
Proof. exact quiescent_stuck. Qed.
Print Assumptions C02_quiescent_stuck.

Theorem C02_stuck_quiescent :
  forall s, ReachF s -> slot s = true -> (forall a, internal a = true -> stepF s a = None) -> Quiescent s.
Proof. exact stuck_quiescent. Qed.
Print Assumptions C02_stuck_quiescent.

(* Progress form, for EVERY control point of a park call (before, after or concurrently with the unpark):
   the slot is the only place where a call can rest ... *)
Theorem C02_only_the_slot_rests :
  forall s, ReachF s -> in_park (up s) = true -> slot s = false ->
  exists a, internal a = true /\ exists s', stepF s a = Some s'.
Proof. exact only_the_slot_rests. Qed.
Print Assumptions C02_only_the_slot_rests.

(* ... and with the token set it does not rest there either *)
Theorem C02_park_with_token_not_stuck :
  forall s, ReachF s -> pstate s = true -> in_park (up s) = true ->
  exists a, internal a = true /\ exists s', stepF s a = Some s'.
Proof. exact park_with_token_not_stuck. Qed.
Print Assumptions C02_park_with_token_not_stuck.

(* ---- time-out ---- *)

(* a coroutine in the slot in a timed park has its timer entry armed or popped (about to fire), or the
   kernel half is doing the time-out itself (the repair of F8) *)
Theorem C02_no_lost_timeout :
  forall s, ReachF s -> slot s = true -> armed_of (ud s) <> None ->
  exists i, hnd s = Some i /\
    ((tm s i = TmArmed \/ tm s i = TmFired) \/ kp s = KStake \/ (kp s = KChk /\ exists t, kdl s = Some t /\ t <= now s)).
Proof. exact no_lost_timeout. Qed.
Print Assumptions C02_no_lost_timeout.

(* every park_timeout(Some d) is a timed park (AtomicDuration after the repair of F3) *)
Theorem C02_some_duration_is_armed :
  forall d, 0 <= d -> armed_of (Some d) <> None.
Proof. exact armed_of_some. Qed.
Print Assumptions C02_some_duration_is_armed.

Theorem C02_quiescent_no_deadline :
  forall s, ReachF s -> Quiescent s -> slot s = true -> armed_of (ud s) <> None ->
  exists i, hnd s = Some i /\ tm s i = TmArmed /\ now s < tdl s i.
Proof. exact quiescent_no_deadline. Qed.
Print Assumptions C02_quiescent_no_deadline.

Theorem C02_park_past_deadline_not_stuck :
  forall s i, ReachF s -> slot s = true -> hnd s = Some i -> tdl s i <= now s ->
  exists a, internal a = true /\ exists s', stepF s a = Some s'.
Proof. exact park_past_deadline_not_stuck. Qed.
Print Assumptions C02_park_past_deadline_not_stuck.

(* before the repair of F8 (subscribe without the deadline self-check: [step false true true]) the time-out is lost *)
Theorem C02_quiescent_no_deadline_refuted_without_fixF8 :
  ~ (forall s, Reach false true true s -> Quiescent s -> slot s = true -> armed_of (ud s) <> None ->
               exists i, hnd s = Some i /\ tm s i = TmArmed /\ now s < tdl s i).
Proof. exact quiescent_no_deadline_refuted_without_fixF8. Qed.
Print Assumptions C02_quiescent_no_deadline_refuted_without_fixF8.

(* ---- cancel ---- *)

(* The coroutine is in the slot and its cancel bit is set: then the kernel half has not yet passed its own
   re-check of the cancel bit (after which it takes the coroutine back itself), or a canceller holds the slot he
   took out of Cancel.co, or the slot is still registered there and a canceller is about to take it. *)
Theorem C02_no_lost_cancel :
  forall s, ReachF s -> slot s = true -> cbit s = true ->
  match kp s with
  | KChk | KStake | KSload | KFtake | KCchk | KC3 => True
  | _ => (exists i, cn s i = CTake) \/ (cco s = CThis /\ exists i, cn s i = CTakeCo) end.
Proof. exact no_lost_cancel. Qed.
Print Assumptions C02_no_lost_cancel.

(* a suspended coroutine that has not been cancelled is registered with its Cancel *)
Theorem C02_suspended_is_registered :
  forall s, ReachF s -> slot s = true -> cbit s = false -> cco s = CThis.
Proof. exact suspended_is_registered. Qed.
Print Assumptions C02_suspended_is_registered.

(* no kernel half of an earlier Blocker of the coroutine, still in flight, can register with the Cancel
   (ghost [oldk] counts them, [tainted] records that one did) *)
Theorem C02_no_stale_registration :
  forall s, ReachF s -> oldk s = 0%nat /\ tainted s = false.
Proof. exact no_stale_registration. Qed.
Print Assumptions C02_no_stale_registration.

Theorem C02_quiescent_no_cancel :
  forall s, ReachF s -> Quiescent s -> ~ (slot s = true /\ cbit s = true).
Proof. exact quiescent_no_cancel. Qed.
Print Assumptions C02_quiescent_no_cancel.

Theorem C02_park_cancelled_not_stuck :
  forall s, ReachF s -> cbit s = true -> in_park (up s) = true ->
  exists a, internal a = true /\ exists s', stepF s a = Some s'.
Proof. exact park_cancelled_not_stuck. Qed.
Print Assumptions C02_park_cancelled_not_stuck.

(* before the repair of F31 (set_co after the publication, re-check by Cancel::cancel: [step true true false])
   a cancel is lost after a stale set_co *)
Theorem C02_quiescent_no_cancel_refuted_without_fixF31 :
  ~ (forall s, Reach true true false s -> Quiescent s -> ~ (slot s = true /\ cbit s = true)).
Proof. exact quiescent_no_cancel_refuted_without_fixF31. Qed.
Print Assumptions C02_quiescent_no_cancel_refuted_without_fixF31.

(* ================================================================================================ *)
(* (iii) unpark before park                                                                         *)
(* ================================================================================================ *)

(* a park call that starts with the token set ([tok0]) never reaches the suspending part of park_timeout
   ([susp] is set by the yield): while inside the call it is at the first check_park *)
Theorem C02_token_first_never_suspends :
  forall s, ReachF s -> tok0 s = true ->
  susp s = false /\ (in_park (up s) = true -> (up s = UCp1Load /\ pstate s = true) \/ up s = UCp1Store).
Proof. exact token_first_never_suspends. Qed.
Print Assumptions C02_token_first_never_suspends.

(* it returns Ok within two accesses of its own, having consumed the token *)
Theorem C02_token_first_returns_ok :
  forall s, ReachF s -> tok0 s = true -> in_park (up s) = true ->
  exists n s', (n <= 2)%nat /\ run true true true s (repeat AU n) = Some s' /\
               up s' = UIdle /\ lastv s' = Some VOk /\ susp s' = false /\ pstate s' = false.
Proof. exact token_first_returns_ok. Qed.
Print Assumptions C02_token_first_returns_ok.

Theorem C02_token_first_verdict :
  forall s, ReachF s -> tok0 s = true -> in_park (up s) = false -> lastv s = Some VOk.
Proof. exact token_first_verdict. Qed.
Print Assumptions C02_token_first_verdict.

(* ================================================================================================ *)
(* (iv) verdicts of a park on a fresh Blocker; (v) the shared per-coroutine Park                    *)
(* ================================================================================================ *)

(* [park_returns s s' v]: [stepF s AU = Some s'] is the transition with which park_timeout returns v.
   [fresh s]: first call on this Park object (ncall <= 1; ANewPark = Blocker::new resets the count). *)

(* Ok only with a token consumed by this call (by the returning access of the first check_park, or by the
   check_park after the resume: ghost [ctok]) *)
Theorem C02_verdict_ok_fresh :
  forall s s', ReachF s -> fresh s -> park_returns s s' VOk ->
  (pstate s = true /\ (up s = UCp1Store \/ up s = UCp1Swap)) \/ (up s = UPara /\ ctok s = true).
Proof. exact verdict_ok_fresh. Qed.
Print Assumptions C02_verdict_ok_fresh.

(* Timeout only at or after call time + armed duration ... *)
Theorem C02_verdict_timeout_fresh :
  forall s s', ReachF s -> fresh s -> park_returns s s' VTimeout ->
  exists c, call_deadline s = Some c /\ c <= now s'.
Proof. exact verdict_timeout_fresh. Qed.
Print Assumptions C02_verdict_timeout_fresh.

(* ... hence at or after call time + the duration asked for (up to AtomicDuration's cap of about 292 years) *)
Theorem C02_verdict_timeout_fresh_requested :
  forall s s' d, ReachF s -> fresh s -> park_returns s s' VTimeout ->
  ud s = Some d -> ceil_ms d <= CAP -> tcall s + d <= now s'.
Proof. exact verdict_timeout_fresh_requested. Qed.
Print Assumptions C02_verdict_timeout_fresh_requested.

(* Canceled only if the cancel bit of the coroutine is set (fresh or not); the cancel panic inside park likewise *)
Theorem C02_verdict_canceled :
  forall s s', ReachF s -> park_returns s s' VCanceled -> up s = UPara /\ cbit s = true.
Proof. exact verdict_canceled. Qed.
Print Assumptions C02_verdict_canceled.

Theorem C02_abort_needs_cancel :
  forall s s', stepF s AU = Some s' -> up s <> UDead -> up s' = UDead -> cbit s = true.
Proof. exact abort_needs_cancel. Qed.
Print Assumptions C02_abort_needs_cancel.

(* (v) any Park: the only additional behaviour is the spurious return caused by an unparker / a timer entry
   of an EARLIER call on the same Park object *)
Theorem C02_verdict_ok :
  forall s s', ReachF s -> park_returns s s' VOk ->
  (pstate s = true /\ (up s = UCp1Store \/ up s = UCp1Swap)) \/
  (up s = UPara /\ ctok s = true) \/
  (up s = UPara /\ wsrc s = WUn true /\ (2 <= ncall s)%nat).
Proof. exact verdict_ok. Qed.
Print Assumptions C02_verdict_ok.

Theorem C02_verdict_timeout :
  forall s s', ReachF s -> park_returns s s' VTimeout ->
  up s = UPara /\
  ((exists c, call_deadline s = Some c /\ c <= now s') \/ (wsrc s = WTm true /\ (2 <= ncall s)%nat)).
Proof. exact verdict_timeout. Qed.
Print Assumptions C02_verdict_timeout.

Theorem C02_spurious_needs_earlier_call :
  forall s, ReachF s -> (wsrc s = WUn true \/ wsrc s = WTm true) -> (2 <= ncall s)%nat.
Proof. exact spurious_needs_earlier_call. Qed.
Print Assumptions C02_spurious_needs_earlier_call.

Theorem C02_stale_unparker_needs_consumed_token :
  forall s i, ReachF s -> un s i = NTake true -> (1 <= nclr s)%nat.
Proof. exact stale_unparker_needs_consumed_token. Qed.
Print Assumptions C02_stale_unparker_needs_consumed_token.

(* ---- refinement of the abstract Blocker token used by the upper layers (Base/BlockerSpec.v) ---- *)

(* every transition of the model is the Blocker-token event [park_ev] labels it with (unpark = the
   state.swap(true); resume = the clearing access of check_park), or changes nothing of the abstraction;
   [abs s] = (token, deadline of the call in progress) *)
Theorem C02_park_refines_blocker :
  forall s a s', ReachF s -> stepF s a = Some s' ->
  match a with
  | ANewPark _ => abs s' = binit
  | _ => match park_ev s a with
         | Some e => bstep (now s) (cbit s) (abs s) e = Some (abs s')
         | None => abs s' = abs s end
  end.
Proof. exact park_refines_blocker. Qed.
Print Assumptions C02_park_refines_blocker.

(* on a fresh Blocker the resume event is never BSpurious: the verdict about to be reported is justified
   by the abstract object (token / deadline of the call / cancel bit) at the linearisation point *)
Theorem C02_fresh_park_never_spurious :
  forall s, ReachF s -> fresh s -> up s = UCp2Store \/ up s = UCp2Swap -> justified s = true.
Proof. exact fresh_park_never_spurious. Qed.
Print Assumptions C02_fresh_park_never_spurious.

Theorem C02_spurious_resume_sources :
  forall s, ReachF s -> up s = UCp2Store \/ up s = UCp2Swap -> justified s = false ->
  (wsrc s = WUn true \/ wsrc s = WTm true) /\ (2 <= ncall s)%nat.
Proof. exact spurious_resume_sources. Qed.
Print Assumptions C02_spurious_resume_sources.

(* the verdict is not touched between that linearisation point and the return *)
Theorem C02_verdict_stable :
  forall s a s', ReachF s -> stepF s a = Some s' ->
  match up s with UCp2Store | UCp2Swap | URm => True | _ => False end -> para s' = para s.
Proof. exact verdict_stable. Qed.
Print Assumptions C02_verdict_stable.

(* ================================================================================================ *)
(* Park::drop (the repair of F12)                                                                   *)
(* ================================================================================================ *)

Theorem C02_drop_never_blocked :
  forall s, ReachF s -> dropping s = true -> wk s = true -> exists s', stepF s AK = Some s'.
Proof. exact drop_never_blocked. Qed.
Print Assumptions C02_drop_never_blocked.

Theorem C02_drop_never_blocked_refuted_without_fixF12 :
  ~ (forall s, Reach true false true s -> dropping s = true -> wk s = true -> exists s', step true false true s AK = Some s').
Proof. exact drop_never_blocked_refuted_without_fixF12. Qed.
Print Assumptions C02_drop_never_blocked_refuted_without_fixF12.

(* ================================================================================================ *)
(* threads: ThreadPark (src/sync/blocking.rs), token + block under one mutex                        *)
(* ================================================================================================ *)

Theorem C02_threadpark_refines_blocker :
  forall t a t', tpstep t a = Some t' ->
  match tp_ev t a with
  | Some e => bstep (tnow t) false (tabs t) e = Some (tabs t')
  | None => tabs t' = tabs t
  end.
Proof. exact threadpark_refines_blocker. Qed.
Print Assumptions C02_threadpark_refines_blocker.

Theorem C02_threadpark_ok_needs_token :
  forall t t', tpstep t (TpLeave true) = Some t' -> ttok t = true /\ ttok t' = false.
Proof. exact threadpark_ok_needs_token. Qed.
Print Assumptions C02_threadpark_ok_needs_token.

Theorem C02_threadpark_timeout_not_early :
  forall t t', tpstep t (TpLeave false) = Some t' -> exists dl, twait t = Some (Some dl) /\ dl <= tnow t /\ ttok t' = false.
Proof. exact threadpark_timeout_not_early. Qed.
Print Assumptions C02_threadpark_timeout_not_early.

(* no lost wake-up / time-out for a parked thread: whenever a resume is due the owner can leave *)
Theorem C02_threadpark_wake_enabled :
  forall t, wake_due (tnow t) false (tabs t) = true ->
  (exists t', tpstep t (TpLeave true) = Some t') \/ (exists t', tpstep t (TpLeave false) = Some t').
Proof. exact threadpark_wake_enabled. Qed.
Print Assumptions C02_threadpark_wake_enabled.

Theorem C02_threadpark_token_first :
  forall t d t1, ttok t = true -> tpstep t (TpEnter d) = Some t1 -> exists t2, tpstep t1 (TpLeave true) = Some t2.
Proof. exact threadpark_token_first. Qed.
Print Assumptions C02_threadpark_token_first.

(* ================================================================================================ *)
(* tie: every state along an accepted trace of the real code is a reachable state of the model      *)
(* ================================================================================================ *)

Theorem C02_accepted_traces_are_model_runs :
  forall tr x x', MReach (ms x) -> accept_all x tr = Some x' -> MReach (ms x').
Proof. exact accept_all_reach. Qed.
Print Assumptions C02_accepted_traces_are_model_runs.

(* ================================================================================================ *)
(* non-vacuity                                                                                      *)
(* ================================================================================================ *)

Example C02_ex_token_unparker :
  exists s, ReachF s /\ slot s = true /\ pstate s = true /\ kp s = KIdle /\ un s 0%nat = NTake false.
Proof. exact ex_token_unparker. Qed.

Example C02_ex_token_kernel :
  exists s, ReachF s /\ slot s = true /\ pstate s = true /\ kp s = KSload /\ forall i, un s i = NIdle.
Proof. exact ex_token_kernel. Qed.

Example C02_ex_quiescent_parked :
  exists s, ReachF s /\ Quiescent s /\ slot s = true /\ pstate s = false /\ cbit s = false.
Proof. exact ex_quiescent_parked. Qed.

Example C02_ex_quiescent_timed :
  exists s, ReachF s /\ Quiescent s /\ slot s = true /\ armed_of (ud s) <> None /\
            hnd s = Some 0%nat /\ tm s 0%nat = TmArmed /\ now s < tdl s 0%nat.
Proof. exact ex_quiescent_timed. Qed.

Example C02_ex_deadline_passed :
  exists s, ReachF s /\ slot s = true /\ hnd s = Some 0%nat /\ tm s 0%nat = TmArmed /\ tdl s 0%nat <= now s.
Proof. exact ex_deadline_passed. Qed.

Example C02_ex_cancel_pending :
  exists s, ReachF s /\ slot s = true /\ cbit s = true /\ kp s = KIdle /\
            cco s = CThis /\ cn s 0%nat = CTakeCo.
Proof. exact ex_cancel_pending. Qed.

Example C02_ex_cancel_kernel :
  exists s, ReachF s /\ slot s = true /\ cbit s = true /\ kp s = KCchk /\ cco s = CNone /\ forall i, cn s i = CIdle.
Proof. exact ex_cancel_kernel. Qed.

Example C02_ex_token_first : exists s, ReachF s /\ tok0 s = true /\ in_park (up s) = true.
Proof. exact ex_token_first. Qed.

Example C02_ex_ok_fresh :
  exists s, ReachF s /\ fresh s /\ up s = UPara /\ ctok s = true /\ exists s', park_returns s s' VOk.
Proof. exact ex_ok_fresh. Qed.

Example C02_ex_timeout_fresh :
  exists s, ReachF s /\ fresh s /\ ud s = Some 1000000 /\ exists s', park_returns s s' VTimeout.
Proof. exact ex_timeout_fresh. Qed.

Example C02_ex_canceled_fresh :
  exists s, ReachF s /\ fresh s /\ cbit s = true /\ exists s', park_returns s s' VCanceled.
Proof. exact ex_canceled_fresh. Qed.

(* the spurious returns of the shared per-coroutine Park are real (why (iv) is about fresh Blockers only) *)
Example C02_ex_spurious_ok_on_shared_park :
  exists s, ReachF s /\ up s = UPara /\ ctok s = false /\ wsrc s = WUn true /\ ncall s = 2%nat /\
            exists s', park_returns s s' VOk.
Proof. exact spurious_ok_on_shared_park. Qed.

Example C02_ex_spurious_timeout_on_shared_park :
  exists s, ReachF s /\ up s = UPara /\ ud s = None /\ wsrc s = WTm true /\ ncall s = 2%nat /\
            exists s', park_returns s s' VTimeout.
Proof. exact spurious_timeout_on_shared_park. Qed.

(* the lost time-out before the repair of F8, the blocked drop before the repair of F12, the lost cancel
   before the repair of F31: concrete reachable states of the three variants *)
Example C02_ex_lost_timeout_without_fixF8 :
  exists s, Reach false true true s /\ Quiescent s /\ slot s = true /\ armed_of (ud s) <> None /\
            exists i, hnd s = Some i /\ tm s i = TmDone /\ tdl s i < now s.
Proof. exact lost_timeout_without_fixF8. Qed.

Example C02_ex_drop_blocked_without_fixF12 :
  exists s, Reach true false true s /\ dropping s = true /\ wk s = true /\
            step true false true s AK = None /\ step true false true s ADrop = Some s /\ up s = UDead.
Proof. exact drop_blocked_without_fixF12. Qed.

Example C02_ex_cancel_lost_after_stale_set_co_without_fixF31 :
  exists s, Reach true true false s /\ Quiescent s /\ slot s = true /\ cbit s = true /\ tainted s = true /\ ccheck s = true.
Proof. exact cancel_lost_after_stale_set_co_without_fixF31. Qed.
