(* C09 (continued) - Condvar.  See Properties/C09.v for the overview. *)
From Coq Require Import List Arith ZArith Bool.
Import ListNotations.
Require MayV.Sync.CondvarModel MayV.Sync.CondvarInv MayV.Sync.CondvarThm MayV.Sync.CancelCondvar.

(* ================================================================================================ Condvar *)
Module CONDVAR.
Import MayV.Sync.CondvarModel MayV.Sync.CondvarInv MayV.Sync.CondvarThm MayV.Sync.CancelCondvar.
Open Scope Z_scope.

(* (iii) *)
Theorem C09_condvar_canceled_verdict_needs_cancel :
  forall s a s', Reach s -> apc (A s a) = R2 -> step s (Choose a true) = Some s' ->
  ccan (A s a) = true /\ aco (A s a) = true /\ apc (A s' a) = C1.
Proof. exact canceled_verdict_needs_cancel. Qed.
Print Assumptions C09_condvar_canceled_verdict_needs_cancel.

Theorem C09_condvar_cancel_reason_needs_cancel :
  forall s a, Reach s -> post_park (A s a) = true -> rcan (A s a) = true -> ccan (A s a) = true /\ aco (A s a) = true.
Proof. exact cancel_reason_needs_cancel. Qed.
Print Assumptions C09_condvar_cancel_reason_needs_cancel.

Theorem C09_condvar_uncancelled_never_canceled :
  forall s a, Reach s -> ccan (A s a) = false \/ aco (A s a) = false -> apc (A s a) <> C1 /\ apc (A s a) <> Dead.
Proof. exact uncancelled_never_canceled. Qed.
Print Assumptions C09_condvar_uncancelled_never_canceled.

(* (i) *)
Theorem C09_condvar_cancelled_waiter_not_parked :
  forall s a, Quiescent s -> aco (A s a) = true -> ccan (A s a) = true -> apc (A s a) <> WW.
Proof. exact cancelled_waiter_not_parked. Qed.
Print Assumptions C09_condvar_cancelled_waiter_not_parked.

(* (ii) the notification given to a waiter on the error path (Timeout or Canceled: the same code) is passed on exactly once *)
Theorem C09_condvar_cancelled_waiter_forwards_notification :
  forall s a s', Reach s -> apc (A s a) = E1 -> unp (Bk s (ab (A s a))) = true -> step s (Step a) = Some s' ->
  bset (Bk s (ab (A s a))) = O /\ bset (Bk s' (ab (A s a))) = 1%nat /\ In a (owe s') /\ ~ In (ab (A s a)) (giv s') /\ apc (A s' a) = K1.
Proof. exact cancelled_waiter_forwards_notification. Qed.
Print Assumptions C09_condvar_cancelled_waiter_forwards_notification.

Theorem C09_condvar_cancelled_waiter_forwards_notification_recheck :
  forall s a s', Reach s -> apc (A s a) = E4 -> rel (Bk s (ab (A s a))) = true -> step s (Step a) = Some s' ->
  bset (Bk s (ab (A s a))) = O /\ bset (Bk s' (ab (A s a))) = 1%nat /\ In a (owe s') /\ ~ In (ab (A s a)) (giv s') /\ apc (A s' a) = K1.
Proof. exact cancelled_waiter_forwards_notification_recheck. Qed.
Print Assumptions C09_condvar_cancelled_waiter_forwards_notification_recheck.

Theorem C09_condvar_notification_settled_at_most_once :
  forall s b, Reach s -> (bset (Bk s b) <= 1)%nat /\ (In b (giv s) <-> unp (Bk s b) = true /\ bset (Bk s b) = O).
Proof. exact notification_settled_at_most_once. Qed.
Print Assumptions C09_condvar_notification_settled_at_most_once.

(* (ii) the Canceled exit re-acquires the mutex (cancel disabled), releases it unpoisoned and only then unwinds; the dead
   waiter was a cancelled coroutine and owns nothing *)
Theorem C09_condvar_canceled_wait_releases_mutex_unpoisoned :
  forall s a s', Reach s -> apc (A s a) = C1 -> step s (Step a) = Some s' ->
  mx s = Some a /\ mx s' = None /\ pois s' = pois s /\ apc (A s' a) = Dead.
Proof. exact canceled_wait_releases_mutex_unpoisoned. Qed.
Print Assumptions C09_condvar_canceled_wait_releases_mutex_unpoisoned.

Theorem C09_condvar_dead_waiter_was_cancelled_and_holds_nothing :
  forall s a, Reach s -> apc (A s a) = Dead -> ccan (A s a) = true /\ aco (A s a) = true /\ mx s <> Some a.
Proof. exact dead_waiter_was_cancelled_and_holds_nothing. Qed.
Print Assumptions C09_condvar_dead_waiter_was_cancelled_and_holds_nothing.
End CONDVAR.

(* ================================================================================================ non-vacuity *)
Example C09_ex_condvar_cancelled_waiter_forwards :
  exists s, MayV.Sync.CondvarModel.run_strict MayV.Sync.CondvarModel.init MayV.Sync.CancelCondvar.sch_cancel_forward = Some s /\
    MayV.Sync.CondvarModel.Reach s /\
    MayV.Sync.CondvarModel.apc (MayV.Sync.CondvarModel.A s 0%nat) = MayV.Sync.CondvarModel.Dead /\
    MayV.Sync.CondvarModel.ares (MayV.Sync.CondvarModel.A s 0%nat) = 2%nat /\
    MayV.Sync.CondvarModel.ccan (MayV.Sync.CondvarModel.A s 0%nat) = true /\
    MayV.Sync.CondvarModel.nuser s = 1%Z /\ MayV.Sync.CondvarModel.nret s = 1%Z /\ MayV.Sync.CondvarModel.fnone s = 0%Z /\
    MayV.Sync.CondvarModel.ares (MayV.Sync.CondvarModel.A s 1%nat) = 0%nat /\
    MayV.Sync.CondvarModel.mx s = Some 1%nat /\ MayV.Sync.CondvarModel.pois s = false /\
    MayV.Sync.CondvarModel.bset (MayV.Sync.CondvarModel.Bk s 1%nat) = 1%nat /\
    MayV.Sync.CondvarModel.bset (MayV.Sync.CondvarModel.Bk s 2%nat) = 1%nat.
Proof. exact MayV.Sync.CancelCondvar.cancel_forward_somewhere. Qed.

