(* C10, continued - Semphore: a permit handed to a waiter is settled exactly once (timeout / cancel races).
   Property theorems only (exact of a lemma of Sync/SemLiveThm.v + Print Assumptions).  Model: Sync/SemModel.v;
   ghost overlay Sync/SemLive.v (ag / dl / rp / sc / fl, stepped alongside the model by `lstep`, never read by it). *)
From Coq Require Import List ZArith.
Import ListNotations.
Require Import MayV.Sync.SemModel MayV.Sync.SemInv MayV.Sync.SemThm MayV.Sync.SemLive MayV.Sync.SemLiveThm.
Open Scope Z_scope.

(* (iii) a permit handed to a blocker b (its `unparked` flag stored) is settled at most once: by the
   owner's successful return (sc o b) or by ONE decision to re-post (rp o b: owner at is_unparked /
   take_release on the error path, or the agent at take_release in wakeup_one), never twice, never both;
   and exactly once as soon as b is no longer pending (not in giv / pre) *)
Theorem C10_sem_handoff_settled_at_most_once :
  forall i s o b, 0 <= i -> ReachL i s o -> (rp o b + sc o b <= 1)%nat.
Proof. exact handoff_settled_at_most_once. Qed.
Print Assumptions C10_sem_handoff_settled_at_most_once.

Theorem C10_sem_handoff_settled_once_unregistered :
  forall i s o b, 0 <= i -> ReachL i s o ->
  unp (Bk s b) = true -> ~ In b (giv s) -> ~ In b (pre s) -> (rp o b + sc o b = 1)%nat.
Proof. exact handoff_settled_once_unregistered. Qed.
Print Assumptions C10_sem_handoff_settled_once_unregistered.

(* the waiter timed out / was cancelled on b (fl o b) although b had been handed a permit: the permit
   is re-posted exactly once (and the wait did not also succeed) *)
Theorem C10_sem_handoff_reposted_exactly_once :
  forall i s o b, 0 <= i -> ReachL i s o ->
  fl o b = true -> unp (Bk s b) = true -> ~ In b (giv s) -> ~ In b (pre s) -> rp o b = 1%nat /\ sc o b = O.
Proof. exact timed_out_handoff_reposted_exactly_once. Qed.
Print Assumptions C10_sem_handoff_reposted_exactly_once.

Theorem C10_sem_handoff_reposted_at_quiescence :
  forall i s o b, 0 <= i -> ReachL i s o -> Quiescent s ->
  fl o b = true -> unp (Bk s b) = true -> rp o b = 1%nat /\ sc o b = O.
Proof. exact timed_out_handoff_reposted_at_quiescence. Qed.
Print Assumptions C10_sem_handoff_reposted_at_quiescence.

(* non-vacuity *)
(* a waiter is handed a permit (flag stored), times out before the token arrives and re-posts it; the agent does not *)
Example C10_sem_timed_out_handoff_reposted_somewhere :
  let r := runL (init 0) lv0 sch_race in
  ReachL 0 (fst r) (snd r) /\ fl (snd r) 1%nat = true /\ unp (Bk (fst r) 1%nat) = true /\ rp (snd r) 1%nat = 1%nat /\
  apc (A (fst r) 1%nat) = Idle /\ apc (A (fst r) 2%nat) = Idle /\ ares (A (fst r) 1%nat) = false /\
  cnt (fst r) = 1 /\ uposts (fst r) = 1 /\ succ (fst r) = 0.
Proof. exact race_somewhere. Qed.
