(* C01 - every spawned coroutine runs exactly once; join() reports its true outcome.  Property theorems only: each is closed
   by `exact` of a lemma proved elsewhere and followed by Print Assumptions.

   Model: Rt/SchedModel.v - any number of threads, coroutines and spawn sites (thread / coroutine, global with or without
   Builder::id, spawn_local), any number of workers `w`; run queues as atomic FIFOs that ANY idle thread may take from (worker
   loop, stealing and the timer thread are instances), suspension slots, the kernel half `subscribe` running after the context
   switch, the closure wrapper and the panic path access by access, Join::wait / is_done / join access by access, unpark
   detached from the trigger.  Ghost state: loc (where the token of a coroutine is), bodycnt (how often the closure body was
   entered), outcome (how the body ended), jret (what join() returned), ptaken.
   `Reach w s`: s is reachable with w workers by any schedule, i.e. any client program and any interleaving. *)
From Coq Require Import List Arith ZArith Bool.
Import ListNotations.
Require Import MayV.Rt.SchedModel MayV.Rt.SchedInv MayV.Rt.SchedPresP MayV.Rt.SchedThm MayV.Rt.SchedLive MayV.Rt.SchedRuns.

(* ---------------------------------------------------------------- (i) conservation *)
(* A spawned coroutine is, at every moment, in exactly one place - one global queue, one local queue, one thread's hand (a
   local variable between queue and stack), running on one thread's stack, one suspension slot, or dropped after its end - and
   there exactly once.  No queue operation, steal, hand-off or wake-up duplicates or loses it. *)
Theorem C01_token_conservation :
  forall w s c, Reach w s -> spawned (co s c) = true ->
  exists A, holds s A c /\ (forall B, holds s B c -> B = A) /\ NoDup (cget s A).
Proof. exact token_conservation. Qed.
Print Assumptions C01_token_conservation.

Theorem C01_unspawned_is_nowhere :
  forall w s c A, Reach w s -> spawned (co s c) = false -> ~ holds s A c.
Proof. exact unspawned_nowhere. Qed.
Print Assumptions C01_unspawned_is_nowhere.

(* never on two OS threads at the same time, never twice on one stack *)
Theorem C01_never_running_on_two_threads :
  forall w s c t1 t2, Reach w s -> In (FRun c) (stk s t1) -> In (FRun c) (stk s t2) -> t1 = t2.
Proof. exact never_on_two_threads. Qed.
Print Assumptions C01_never_running_on_two_threads.

Theorem C01_at_most_once_on_a_stack :
  forall w s t, Reach w s -> NoDup (frun (stk s t)).
Proof. exact at_most_once_on_a_stack. Qed.
Print Assumptions C01_at_most_once_on_a_stack.

(* while it runs it is in no queue, hand or slot: nobody else can resume it *)
Theorem C01_running_coroutine_is_nowhere_else :
  forall w s c t A, Reach w s -> In (FRun c) (stk s t) -> holds s A c -> A = CR t.
Proof. exact running_is_nowhere_else. Qed.
Print Assumptions C01_running_coroutine_is_nowhere_else.

Theorem C01_never_in_two_queues :
  forall w s c q1 q2, Reach w s -> In c (getq s q1) -> In c (getq s q2) -> q1 = q2.
Proof. exact never_in_two_queues. Qed.
Print Assumptions C01_never_in_two_queues.

Theorem C01_never_twice_in_a_queue :
  forall w s q, Reach w s -> NoDup (getq s q).
Proof. exact never_twice_in_a_queue. Qed.
Print Assumptions C01_never_twice_in_a_queue.

(* ---------------------------------------------------------------- (ii) the body runs exactly once *)
Theorem C01_body_entered_at_most_once :
  forall w s c, Reach w s -> bodycnt (co s c) <= 1.
Proof. exact body_at_most_once. Qed.
Print Assumptions C01_body_entered_at_most_once.

Theorem C01_outcome_means_body_ran_exactly_once :
  forall w s c, Reach w s -> outcome (co s c) <> None -> bodycnt (co s c) = 1.
Proof. exact outcome_body_exactly_once. Qed.
Print Assumptions C01_outcome_means_body_ran_exactly_once.

(* the coroutine is dropped (Done / drop_coroutine) only after its body has ended - by return, panic or cancellation - and
   after the trigger *)
Theorem C01_dropped_only_after_the_body_ended :
  forall w s c, Reach w s -> In c (dead s) ->
  outcome (co s c) <> None /\ bodycnt (co s c) = 1 /\ jstate (co s c) = false.
Proof. exact dead_only_after_body. Qed.
Print Assumptions C01_dropped_only_after_the_body_ended.

(* a coroutine that waits in a run queue, in a slot, or in the hand of an idle thread has not finished: resuming it is legal *)
Theorem C01_waiting_coroutine_has_not_finished :
  forall w s c, Reach w s ->
  (exists q, In c (getq s q)) \/ In c (slots s) \/ (exists t, In c (hand s t) /\ base_idle s t = true) ->
  gst (co s c) <> GFin.
Proof. exact waiting_not_finished. Qed.
Print Assumptions C01_waiting_coroutine_has_not_finished.

(* ---------------------------------------------------------------- (iii) is_done / wait / join never report completion early *)
(* Join.state is what is_done() returns (negated) and what Join::wait loops on.  It is false only in states where the body has
   been entered exactly once and has ended, and the result slot belonging to that end was written BEFORE (it still holds
   the value / payload unless join() has taken it; for Cancel both slots are empty). *)
Theorem C01_finished_flag_is_sound :
  forall w s d, Reach w s -> jstate (co s d) = false ->
  outcome (co s d) <> None /\ bodycnt (co s d) = 1 /\ result_ready (co s d).
Proof. exact finished_flag_sound. Qed.
Print Assumptions C01_finished_flag_is_sound.

Theorem C01_finished_flag_is_monotone :
  forall w s a s' d, Reach w s -> step s a = Some s' -> jstate (co s d) = false -> jstate (co s' d) = false.
Proof. exact finished_stays. Qed.
Print Assumptions C01_finished_flag_is_monotone.

(* a wait()/join() call leaves the loop of Join::wait (towards its return / towards packet.take) only by a step that reads
   state = false *)
Theorem C01_wait_returns_only_when_finished :
  forall w s t s' d a m, Reach w s -> step s (AStep t) = Some s' ->
  jcall (co s d) = Some (a, JW0 m) -> jcall (co s' d) <> Some (a, JW0 m) -> jcall (co s' d) <> Some (a, JW1 m) ->
  jstate (co s d) = false /\ outcome (co s d) <> None /\ result_ready (co s d).
Proof. exact wait_returns_only_when_finished. Qed.
Print Assumptions C01_wait_returns_only_when_finished.

(* ---------------------------------------------------------------- (iv) join returns exactly the outcome *)
Theorem C01_join_returns_the_outcome :
  forall w s d r, Reach w s -> jret (co s d) = Some r ->
  outcome (co s d) = Some r /\ bodycnt (co s d) = 1 /\ jstate (co s d) = false /\
  pkt (co s d) = None /\ pan (co s d) = None /\ jdone (co s d) = true.
Proof. exact join_returns_outcome. Qed.
Print Assumptions C01_join_returns_the_outcome.

(* the value leaves the packet once: into the join() that returned it; the handle is consumed *)
Theorem C01_value_taken_exactly_once :
  forall w s d, Reach w s -> ptaken (co s d) = true ->
  exists v, jret (co s d) = Some (RVal v) /\ outcome (co s d) = Some (RVal v) /\ pkt (co s d) = None /\
            jdone (co s d) = true /\ jcall (co s d) = None.
Proof. exact value_taken_once. Qed.
Print Assumptions C01_value_taken_exactly_once.

(* join() reports Cancel only for a coroutine whose cancel bit was set (and whose body unwound by it) *)
Theorem C01_cancel_reported_only_if_cancelled :
  forall w s d, Reach w s -> jret (co s d) = Some RCancel -> cancelled (co s d) = true.
Proof. exact join_cancel_only_if_cancelled. Qed.
Print Assumptions C01_cancel_reported_only_if_cancelled.

(* ---------------------------------------------------------------- (v) no lost wake-up of the joiner; run queues *)
(* A caller of wait()/join() that has registered its blocker b and re-checked (about to park or parked): as soon as the
   coroutine has finished, a wake-up for b is under way: the trigger is about to take to_wake, or holds b and is about to
   unpark it, or the unpark is issued, or b's token is set. *)
Theorem C01_joiner_wakeup_is_under_way :
  forall w s d a m b, Reach w s ->
  jcall (co s d) = Some (a, JW3 m b) \/ jcall (co s d) = Some (a, JW3p m b) ->
  jstate (co s d) = false -> wake_under_way s d b.
Proof. exact joiner_wakeup_coming. Qed.
Print Assumptions C01_joiner_wakeup_is_under_way.

(* every stage of that wake-up is an enabled transition of a thread that is not blocked *)
Theorem C01_trigger_stage_is_enabled :
  forall w s d b, Reach w s ->
  upc (co s d) = CT2 \/ upc (co s d) = PT2 \/ upc (co s d) = CT3 b \/ upc (co s d) = PT3 b ->
  exists t, step s (AStep t) <> None.
Proof. exact trigger_stage_enabled. Qed.
Print Assumptions C01_trigger_stage_is_enabled.

Theorem C01_parked_thread_returns_with_token :
  forall w s d t m b, Reach w s -> jcall (co s d) = Some (AT t, JW3p m b) -> tok s b = true ->
  exists s', step s (AStep t) = Some s' /\ jcall (co s' d) = Some (AT t, JW0 m).
Proof. exact parked_thread_returns. Qed.
Print Assumptions C01_parked_thread_returns_with_token.

(* quiescence form: when no thread can take the next step of an operation in progress and all issued unparks are delivered,
   no THREAD is parked in wait()/join() on a finished coroutine *)
Theorem C01_no_thread_joiner_stranded :
  forall w s d t m b, Reach w s -> Quiescent s -> jcall (co s d) = Some (AT t, JW3p m b) -> jstate (co s d) = true.
Proof. exact no_thread_joiner_stranded. Qed.
Print Assumptions C01_no_thread_joiner_stranded.

(* PARTIAL: for a COROUTINE joiner the theorem reaches "its blocker's token is set".  What is missing is that a coroutine whose
   Park token is set does not stay suspended: that is the protocol of Park::park_timeout / unpark / subscribe, property C02
   (the model here lets the kernel half skip the re-check: KSkip). *)
Theorem C01_coroutine_joiner_token_set_partial :
  forall w s d c m b, Reach w s -> Quiescent s ->
  jcall (co s d) = Some (AC c, JW3p m b) -> jstate (co s d) = false -> tok s b = true.
Proof. exact coroutine_joiner_token_set_partial. Qed.
Print Assumptions C01_coroutine_joiner_token_set_partial.

(* PARTIAL (progress of the run queues): "runs to its end no matter how often it yields, blocks or migrates" is proved as
   enabledness: a coroutine in a run queue can be taken and resumed by ANY idle thread using queue operations only, and an
   idle thread always finds Grab enabled while a queue is non-empty.  What is assumed, not proved: each worker thread keeps
   executing its loop (OS fairness; the 10 ms idle poll and the eventfd bound the time a worker sleeps over a non-empty
   queue), and the spmc / mpsc queues implement the atomic FIFOs (C03 / C04). *)
Theorem C01_queued_coroutine_can_run_partial :
  forall w s q c t, Reach w s -> In c (getq s q) -> base_idle s t = true ->
  exists n s', steps s (repeat (Grab t q) n ++ [Resume t c]) = Some s' /\ In (FRun c) (stk s' t).
Proof. exact queued_coroutine_can_run. Qed.
Print Assumptions C01_queued_coroutine_can_run_partial.

Theorem C01_nonempty_queue_grab_enabled_partial :
  forall s t q c, In c (getq s q) -> base_idle s t = true -> step s (Grab t q) <> None.
Proof. exact queue_nonempty_grab_enabled. Qed.
Print Assumptions C01_nonempty_queue_grab_enabled_partial.

Theorem C01_handed_coroutine_is_resumable_partial :
  forall w s t c, Reach w s -> In c (hand s t) -> base_idle s t = true ->
  exists s', step s (Resume t c) = Some s' /\ In (FRun c) (stk s' t).
Proof. exact handed_coroutine_resumable. Qed.
Print Assumptions C01_handed_coroutine_is_resumable_partial.

(* ---------------------------------------------------------------- non-vacuity: concrete runs (Rt/SchedRuns.v) *)
Local Open Scope Z_scope.
(* spawn from a thread, join parks, first run on worker 1, yield, stolen by worker 2 (migration), finish, trigger, unpark,
   join returns the value 7 *)
Example C01_run_value_with_migration : let s := after 2 runA in
  Reach 2 s /\ bodycnt (co s 1) = 1%nat /\ outcome (co s 1) = Some (RVal 7) /\ jret (co s 1) = Some (RVal 7) /\
  ptaken (co s 1) = true /\ In 1%nat (dead s) /\ jstate (co s 1) = false /\ tpc s 0 = Idle.
Proof. exact runA_final. Qed.

Example C01_run_migration_between_workers :
  In (FRun 1%nat) (stk (after 2 (runA_spawn_join ++ [Grab 1 (QG 0); Resume 1 1])) 1) /\
  In (FRun 1%nat) (stk (after 2 runA_migrated) 2) /\ stk (after 2 runA_migrated) 1 = [] /\
  bodycnt (co (after 2 runA_migrated) 1) = 1%nat /\ Reach 2 (after 2 runA_migrated).
Proof. exact runA_migration. Qed.

(* hypotheses of the quiescence and run-queue theorems: joiner parked, coroutine queued, an idle worker *)
Example C01_run_parked_and_quiescent : let s := after 2 runA_spawn_join in
  Reach 2 s /\ Quiescent s /\ jcall (co s 1) = Some (AT 0, JW3p MJoin 0) /\ jstate (co s 1) = true /\
  In 1%nat (getq s (QG 0)) /\ base_idle s 1 = true.
Proof. exact runA_parked_quiescent. Qed.

(* hypotheses of the wake-up theorem: parked on a finished coroutine, trigger between its two accesses *)
Example C01_run_wakeup_pending : let s := after 2 runA_triggered in
  Reach 2 s /\ jcall (co s 1) = Some (AT 0, JW3p MJoin 0) /\ jstate (co s 1) = false /\ upc (co s 1) = CT2 /\ tok s 0 = false.
Proof. exact runA_wakeup_pending. Qed.

(* spawn_local from a coroutine, the body panics with payload 5, join() from the coroutine returns the payload *)
Example C01_run_panic : let s := after 2 runB in
  Reach 2 s /\ bodycnt (co s 2) = 1%nat /\ outcome (co s 2) = Some (RPan 5) /\ jret (co s 2) = Some (RPan 5) /\
  pan (co s 2) = None /\ In 2%nat (dead s) /\ stk s 1 = [FRun 1%nat] /\ upc (co s 1) = Idle /\ ptaken (co s 2) = false.
Proof. exact runB_final. Qed.

(* Builder::id, blocks in a slot, cancelled, unwinds with Cancel, join() reports Cancel *)
Example C01_run_cancel : let s := after 2 runC in
  Reach 2 s /\ bodycnt (co s 1) = 1%nat /\ outcome (co s 1) = Some RCancel /\ jret (co s 1) = Some RCancel /\
  cancelled (co s 1) = true /\ In 1%nat (dead s).
Proof. exact runC_final. Qed.

Example C01_cancel_unwind_needs_a_request :
  steps (init 2) [ASpawn 0 1 None false; AStep 0; AStep 0; AStep 0; Grab 1 (QG 0); Resume 1 1; APanic 1 None] = None.
Proof. exact cancel_unwind_needs_request. Qed.

(* a coroutine joiner: wait() parks in a slot, the trigger's unpark moves it to a run queue, it resumes on another worker,
   is_done(), join() returns the value *)
Example C01_run_coroutine_joiner : let s := after 2 runD in
  Reach 2 s /\ jret (co s 2) = Some (RVal 3) /\ stk s 2 = [FRun 1%nat] /\ upc (co s 1) = Idle /\ bodycnt (co s 1) = 1%nat /\
  bodycnt (co s 2) = 1%nat.
Proof. exact runD_final. Qed.
