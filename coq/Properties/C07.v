(* C07 - channel disconnect is always observed: no receiver hangs after the last sender; send fails
   after the last receiver.  Property theorems only (see C06.v for the conventions).
   Repaired defects whose pre-fix models are kept as witnesses: F6 (spsc coroutine receiver),
   F7, F7b (mpmc disconnect permit) and F7c (mpmc Disconnected before drained). *)
From Coq Require Import List Arith.
Import ListNotations.
Require MayV.Sync.ChanMpscModel MayV.Sync.ChanMpscInv MayV.Sync.ChanMpscThm MayV.Sync.ChanMpscDrop.
Require MayV.Sync.ChanSpscModel MayV.Sync.ChanSpscInv MayV.Sync.ChanSpscThm MayV.Sync.ChanSpscDrop.
Require MayV.Sync.ChanMpmcModel MayV.Sync.ChanMpmcInv MayV.Sync.ChanMpmcThm MayV.Sync.ChanMpmcDrop.

(* ======================================== mpsc ======================================== *)
Module Mpsc.
Import MayV.Sync.ChanMpscModel MayV.Sync.ChanMpscInv MayV.Sync.ChanMpscThm MayV.Sync.ChanMpscDrop.

(* (iii) after the last sender's drop: a suspended receiver always has a waker in flight ... *)
Theorem C07_mpsc_no_receiver_parked_after_last_sender : forall s, Reach s -> senders_quiet s ->
  rp (R s) = RWait -> reason (Bk s (rb (R s))) = None -> q s = [] /\ chans s <> 0.
Proof. exact mpsc_quiescent_not_stranded. Qed.
Print Assumptions C07_mpsc_no_receiver_parked_after_last_sender.

(* ... Disconnected is answered only when every sender is gone and the queue is drained ... *)
Theorem C07_mpsc_disconnected_means_drained : forall s, Reach s ->
  rp (R s) = RIdle -> rres (R s) = RDisc -> chans s = 0 /\ q s = [].
Proof. exact mpsc_disconnected_means_drained. Qed.
Print Assumptions C07_mpsc_disconnected_means_drained.

(* ... and a call that starts afterwards never parks and answers a value or Disconnected *)
Theorem C07_mpsc_call_after_disconnect : forall s, Reach s -> rdead (R s) = true ->
  chans s = 0 /\
  match rp (R s) with RPark | RWait | RDeadline => False | _ => True end /\
  (rp (R s) = RIdle -> match rres (R s) with REmpty | RTimeout | RCancel => False | _ => True end).
Proof. exact mpsc_call_after_disconnect. Qed.
Print Assumptions C07_mpsc_call_after_disconnect.

Theorem C07_mpsc_disconnect_stable : forall s ac s', Reach s -> step s ac = Some s' -> chans s = 0 ->
  chans s' = 0 /\ (q s' = q s \/ q s' = tl (q s) \/ q s' = []).
Proof. exact mpsc_disconnect_stable. Qed.
Print Assumptions C07_mpsc_disconnect_stable.

(* (iv) after the receiver is dropped: the flag is set, a send that starts then pushes nothing and fails;
   what was queued is dropped once (drpd, see C06 accounting) *)
Theorem C07_mpsc_send_after_port_drop : forall s a, Reach s ->
  (ralive (R s) = false -> pdrop s = true) /\
  (sdead (Sd s a) = true -> sp (Sd s a) = SChk \/ (sp (Sd s a) = SIdle /\ sres (Sd s a) = false)).
Proof. exact mpsc_receiver_gone. Qed.
Print Assumptions C07_mpsc_send_after_port_drop.

(* (iv) leftovers are dropped exactly once.  Where: only drop_port's pop loop (one value per step) and the free of the
   channel (everything that is left) add to `drpd` ... *)
Theorem C07_mpsc_drop_sites : forall s ac s', step s ac = Some s' ->
  drpd s' = drpd s \/
  (ac = RStep /\ rp (R s) = RPd1 /\ exists v, q s = v :: q s' /\ drpd s' = drpd s ++ [v]) \/
  (ac = Free /\ drpd s' = drpd s ++ q s /\ q s' = [] /\ freed s' = true).
Proof. exact mpsc_drop_sites. Qed.
Print Assumptions C07_mpsc_drop_sites.

(* ... nothing is dropped while the Receiver is alive and not inside its drop ... *)
Theorem C07_mpsc_no_drop_while_receiver_alive : forall s, Reach s -> ralive (R s) = true -> rp (R s) <> RPd1 -> drpd s = [].
Proof. exact mpsc_no_drop_while_receiver_alive. Qed.
Print Assumptions C07_mpsc_no_drop_while_receiver_alive.

(* ... Receiver::drop returns only with the queue empty (all Ok-sent values so far: received or dropped) ... *)
Theorem C07_mpsc_port_drop_returns_drained : forall s s', Reach s -> step s RStep = Some s' ->
  rp (R s) = RPd1 -> ralive (R s') = false -> q s' = [] /\ sent s' = rcvd s' ++ drpd s' /\ pdrop s' = true.
Proof. exact mpsc_port_drop_returns_drained. Qed.
Print Assumptions C07_mpsc_port_drop_returns_drained.

(* ... and once the channel is freed (a send that raced with drop_port may have pushed after the drain: the free drops
   it) every Ok-sent value was received exactly once XOR dropped exactly once: never both, never neither; nothing moves
   after the free *)
Theorem C07_mpsc_freed_received_xor_dropped : forall s v, Reach s -> freed s = true ->
  q s = [] /\ sent s = rcvd s ++ drpd s /\
  (In v (sent s) -> (cnt v (rcvd s) = 1 /\ cnt v (drpd s) = 0) \/ (cnt v (rcvd s) = 0 /\ cnt v (drpd s) = 1)).
Proof. exact mpsc_freed_received_xor_dropped. Qed.
Print Assumptions C07_mpsc_freed_received_xor_dropped.

Theorem C07_mpsc_freed_is_final : forall s ac s', Reach s -> freed s = true -> step s ac = Some s' ->
  sent s' = sent s /\ rcvd s' = rcvd s /\ drpd s' = drpd s /\ q s' = [] /\ freed s' = true.
Proof. exact mpsc_freed_is_final. Qed.
Print Assumptions C07_mpsc_freed_is_final.

Example C07_mpsc_late_push_dropped_at_free :
  let s := run init (sch_late_push ++ [Free]) in
  Reach s /\ freed s = true /\ q s = [] /\ rcvd s = [] /\ drpd s = [(0, 0)] /\ sent s = [(0, 0)].
Proof. exact late_push_dropped_at_free. Qed.

Example C07_mpsc_nonvacuous :
  let s := run init [Recv true; RStep; RStep; RStep; RStep; DropChan 0; SStep 0; SStep 0; SStep 0; RStep; RStep; RStep; RStep] in
  Reach s /\ rp (R s) = RIdle /\ rres (R s) = RDisc /\ chans s = 0.
Proof. exact disconnect_wakes. Qed.
End Mpsc.

(* ======================================== spsc ======================================== *)
Module Spsc.
Import MayV.Sync.ChanSpscModel MayV.Sync.ChanSpscInv MayV.Sync.ChanSpscThm MayV.Sync.ChanSpscDrop.

Theorem C07_spsc_no_receiver_blocked_after_sender_drop : forall s, Reach true s -> sp (Sn s) = SIdle ->
  (rp (R s) = RPark /\ ttok s = false) \/ (rp (R s) = RSusp /\ runq s = false) -> q s = [] /\ chans s <> 0.
Proof. exact spsc_quiescent_not_stranded. Qed.
Print Assumptions C07_spsc_no_receiver_blocked_after_sender_drop.

Theorem C07_spsc_disconnected_means_drained : forall s, Reach true s ->
  rp (R s) = RIdle -> rres (R s) = RDisc -> chans s = 0 /\ q s = [].
Proof. exact spsc_disconnected_means_drained. Qed.
Print Assumptions C07_spsc_disconnected_means_drained.

Theorem C07_spsc_call_after_disconnect : forall s, Reach true s -> rdead (R s) = true ->
  chans s = 0 /\
  match rp (R s) with RPark | RSusp | KStore | KEmpty | KChans | KTake | KRun | RStore => False | _ => True end /\
  (rp (R s) = RIdle -> match rres (R s) with REmpty => False | _ => True end).
Proof. exact spsc_call_after_disconnect. Qed.
Print Assumptions C07_spsc_call_after_disconnect.

Theorem C07_spsc_send_after_port_drop : forall s, Reach true s ->
  (ralive (R s) = false -> pdrop s = true) /\
  (sdead (Sn s) = true -> sp (Sn s) = SChk \/ (sp (Sn s) = SIdle /\ sres (Sn s) = false)).
Proof. exact spsc_receiver_gone. Qed.
Print Assumptions C07_spsc_send_after_port_drop.

(* (iv) leftovers dropped exactly once: as for mpsc *)
Theorem C07_spsc_drop_sites : forall s ac s', step true s ac = Some s' ->
  drpd s' = drpd s \/
  (ac = RStep /\ rp (R s) = RPd1 /\ exists v, q s = v :: q s' /\ drpd s' = drpd s ++ [v]) \/
  (ac = Free /\ drpd s' = drpd s ++ q s /\ q s' = [] /\ freed s' = true).
Proof. exact (spsc_drop_sites true). Qed.
Print Assumptions C07_spsc_drop_sites.

Theorem C07_spsc_no_drop_while_receiver_alive : forall s, Reach true s -> ralive (R s) = true -> rp (R s) <> RPd1 -> drpd s = [].
Proof. exact spsc_no_drop_while_receiver_alive. Qed.
Print Assumptions C07_spsc_no_drop_while_receiver_alive.

Theorem C07_spsc_port_drop_returns_drained : forall s s', Reach true s -> step true s RStep = Some s' ->
  rp (R s) = RPd1 -> ralive (R s') = false -> q s' = [] /\ sent s' = rcvd s' ++ drpd s' /\ pdrop s' = true.
Proof. exact spsc_port_drop_returns_drained. Qed.
Print Assumptions C07_spsc_port_drop_returns_drained.

Theorem C07_spsc_freed_received_xor_dropped : forall s v, Reach true s -> freed s = true ->
  q s = [] /\ sent s = rcvd s ++ drpd s /\
  (In v (sent s) -> (cnt v (rcvd s) = 1 /\ cnt v (drpd s) = 0) \/ (cnt v (rcvd s) = 0 /\ cnt v (drpd s) = 1)).
Proof. exact spsc_freed_received_xor_dropped. Qed.
Print Assumptions C07_spsc_freed_received_xor_dropped.

Theorem C07_spsc_freed_is_final : forall s ac s', Reach true s -> freed s = true -> step true s ac = Some s' ->
  sent s' = sent s /\ rcvd s' = rcvd s /\ drpd s' = drpd s /\ q s' = [] /\ freed s' = true.
Proof. exact spsc_freed_is_final. Qed.
Print Assumptions C07_spsc_freed_is_final.

Example C07_spsc_late_push_dropped_at_free :
  let s := run true init (sch_late_push ++ [Free]) in
  Reach true s /\ freed s = true /\ q s = [] /\ rcvd s = [] /\ drpd s = [0] /\ sent s = [0].
Proof. exact late_push_dropped_at_free. Qed.

(* the code before the F6 repair (7fc6074): the coroutine receiver is suspended for ever, the sender gone *)
Theorem C07_spsc_recv_hang_refuted :
  exists s, Reach false s /\ stuck s /\ chans s = 0 /\ q s = [] /\ slot s = Some WC.
Proof. exact recv_hang_refuted. Qed.
Print Assumptions C07_spsc_recv_hang_refuted.
End Spsc.

(* ======================================== mpmc ======================================== *)
Module Mpmc.
Import MayV.Sync.ChanMpmcModel MayV.Sync.ChanMpmcInv MayV.Sync.ChanMpmcThm MayV.Sync.ChanMpmcDrop.

(* (iii) every Sender gone and nobody with a step left: nobody is blocked in sem.wait(), a permit is
   left over (so every later call returns), and the permits cover the queued values (so the calls
   that follow drain the queue before they answer Disconnected) *)
Theorem C07_mpmc_no_hang_after_disconnect : forall s, Reach true true true s -> txp s = 0 -> quiescent s ->
  (forall r, rp (Rv s r) <> WB) /\ 1 <= sv s /\ length (q s) <= sv s.
Proof. exact (mpmc_no_hang_after_disconnect true). Qed.
Print Assumptions C07_mpmc_no_hang_after_disconnect.

Theorem C07_mpmc_disconnected_only_without_senders : forall s r, Reach true true true s ->
  rp (Rv s r) = YIdle -> rres (Rv s r) = RDisc -> txp s = 0.
Proof. exact (mpmc_disconnected_only_without_senders true). Qed.
Print Assumptions C07_mpmc_disconnected_only_without_senders.

Theorem C07_mpmc_call_after_disconnect : forall s r, Reach true true true s -> rdead (Rv s r) = true ->
  txp s = 0 /\ rp (Rv s r) <> W0 /\ rp (Rv s r) <> WB /\
  (rp (Rv s r) = YIdle -> match rres (Rv s r) with REmpty | RTimeout => False | _ => True end).
Proof. exact (mpmc_call_after_disconnect true). Qed.
Print Assumptions C07_mpmc_call_after_disconnect.

Theorem C07_mpmc_disconnect_stable : forall s ac s', Reach true true true s -> step true true true s ac = Some s' -> txp s = 0 -> txp s' = 0.
Proof. exact (mpmc_disconnect_stable true). Qed.
Print Assumptions C07_mpmc_disconnect_stable.

(* (iv) *)
Theorem C07_mpmc_send_after_last_receiver : forall s a, Reach true true true s -> sdead (Sd s a) = true ->
  rxp s = 0 /\ (sp (Sd s a) = M0 \/ (sp (Sd s a) = SIdle /\ sres (Sd s a) = false)).
Proof. exact (mpmc_send_after_last_receiver true). Qed.
Print Assumptions C07_mpmc_send_after_last_receiver.

(* (iv) leftovers dropped exactly once.  Where: only the pop loop of the LAST Receiver's drop_rx and the free ... *)
Theorem C07_mpmc_drop_sites : forall s ac s', step true true true s ac = Some s' ->
  drpd s' = drpd s \/
  (exists r, ac = RStep r /\ rp (Rv s r) = X1 /\ exists v, q s = v :: q s' /\ drpd s' = drpd s ++ [v]) \/
  (ac = Free /\ drpd s' = drpd s ++ q s /\ q s' = [] /\ freed s' = true).
Proof. exact (mpmc_drop_sites true true true). Qed.
Print Assumptions C07_mpmc_drop_sites.

Theorem C07_mpmc_no_drop_while_a_receiver_is_counted : forall s, Reach true true true s -> rxp s <> 0 -> drpd s = [].
Proof. exact (mpmc_no_drop_while_a_receiver_is_counted true). Qed.
Print Assumptions C07_mpmc_no_drop_while_a_receiver_is_counted.

(* ... the drop_rx that brings rx_ports to 0 enters the pop loop whatever tx_ports is (seeded change C07-6 skips it while
   a Sender is alive) and returns only with the queue empty ... *)
Theorem C07_mpmc_last_receiver_drop_enters_the_drain : forall s r s', step true true true s (RStep r) = Some s' ->
  rp (Rv s r) = X0 -> rxp s' = 0 -> rp (Rv s' r) = X1.
Proof. exact (mpmc_last_receiver_drop_enters_the_drain true true true). Qed.
Print Assumptions C07_mpmc_last_receiver_drop_enters_the_drain.

Theorem C07_mpmc_last_receiver_drop_returns_drained : forall s r s', Reach true true true s -> step true true true s (RStep r) = Some s' ->
  rp (Rv s r) = X1 -> rp (Rv s' r) = YIdle -> rxp s' = 0 /\ q s' = [] /\ sent s' = recvd s' ++ drpd s'.
Proof. exact (mpmc_last_receiver_drop_returns_drained true). Qed.
Print Assumptions C07_mpmc_last_receiver_drop_returns_drained.

(* ... and once the channel is freed every Ok-sent value was received by exactly one call XOR dropped exactly once *)
Theorem C07_mpmc_freed_received_xor_dropped : forall s v, Reach true true true s -> freed s = true ->
  q s = [] /\ sent s = recvd s ++ drpd s /\
  (In v (sent s) -> (cnt v (recvd s) = 1 /\ cnt v (drpd s) = 0) \/ (cnt v (recvd s) = 0 /\ cnt v (drpd s) = 1)).
Proof. exact (mpmc_freed_received_xor_dropped true). Qed.
Print Assumptions C07_mpmc_freed_received_xor_dropped.

Theorem C07_mpmc_freed_is_final : forall s ac s', Reach true true true s -> freed s = true -> step true true true s ac = Some s' ->
  sent s' = sent s /\ rlog s' = rlog s /\ drpd s' = drpd s /\ q s' = [] /\ freed s' = true.
Proof. exact (mpmc_freed_is_final true). Qed.
Print Assumptions C07_mpmc_freed_is_final.

Example C07_mpmc_last_receiver_drop_drains :
  let s := run true true true init sch_rxdrop in
  Reach true true true s /\ rxp s = 0 /\ txp s = 1 /\ drpd s = [(0, 0)] /\ q s = [(0, 1)] /\ sres (Sd s 0) = true.
Proof. exact last_receiver_drop_drains. Qed.

(* Disconnected is decided only when the queue is empty or every queued value is claimed by a permit
   in flight (another receiver inside its call, or the last dropper about to post) ... *)
Theorem C07_mpmc_disconnected_means_claimed : forall s r s', Reach true true true s -> step true true true s (RStep r) = Some s' ->
  rp (Rv s r) <> YIdle -> rp (Rv s' r) = YIdle -> rres (Rv s' r) = RDisc ->
  q s = [] \/ (sv s = 0 /\ length (q s) <= length (hold s) + length (rep s) + g1of s).
Proof. exact mpmc_disconnected_means_claimed. Qed.
Print Assumptions C07_mpmc_disconnected_means_claimed.

(* ... so with nobody else inside a call the receiver has drained the queue before it sees Disconnected *)
Theorem C07_mpmc_disconnected_means_drained : forall s r s', Reach true true true s -> step true true true s (RStep r) = Some s' ->
  rp (Rv s r) <> YIdle -> rp (Rv s' r) = YIdle -> rres (Rv s' r) = RDisc ->
  hold s = [] -> rep s = [] -> dropper s = None -> q s = [].
Proof. exact mpmc_disconnected_means_drained. Qed.
Print Assumptions C07_mpmc_disconnected_means_drained.

(* before 57db612 (F7c): try_recv answered Disconnected without looking again: a single receiver is told
   Disconnected with a value queued, a permit available and everybody else idle *)
Theorem C07_mpmc_drain_before_disconnect_refuted :
  exists s, Reach true true false s /\ rp (Rv s 0) = YIdle /\ rres (Rv s 0) = RDisc /\ q s = [(0, 0)] /\ sv s = 1 /\
            txp s = 0 /\ sp (Sd s 0) = SIdle /\ hold s = [] /\ rep s = [] /\ dropper s = None.
Proof. exact mpmc_drain_before_disconnect_refuted. Qed.
Print Assumptions C07_mpmc_drain_before_disconnect_refuted.

(* before 9c5b86f (F7): single disconnect permit, 2 receivers *)
Theorem C07_mpmc_no_hang_refuted_single_permit :
  exists s, Reach false true false s /\ stranded s 1 /\ rres (Rv s 0) = RDisc.
Proof. exact mpmc_no_hang_after_disconnect_refuted_single_permit. Qed.
Print Assumptions C07_mpmc_no_hang_refuted_single_permit.

(* before 9949d82 (F7b): the disconnect relied on a data permit that a receiver consumed with the value *)
Theorem C07_mpmc_no_hang_refuted_data_permit :
  exists s, Reach true false false s /\ stranded s 1 /\ rres (Rv s 0) = ROk (0, 0).
Proof. exact mpmc_no_hang_after_disconnect_refuted_data_permit. Qed.
Print Assumptions C07_mpmc_no_hang_refuted_data_permit.

Example C07_mpmc_nonvacuous :
  let s := run true true false init (sch_f7 ++ [RStep 0; RStep 1; RStep 1; RStep 1; RStep 1; RStep 1]) in
  txp s = 0 /\ rp (Rv s 0) = YIdle /\ rp (Rv s 1) = YIdle /\ sp (Sd s 0) = SIdle /\ 1 <= sv s.
Proof. exact quiescent_after_disconnect. Qed.
End Mpmc.
