(* C13 - a panic in one coroutine stays in that coroutine; lock poisoning follows std.
   Property theorems only: each is closed by `exact` of a lemma proved elsewhere and followed by Print Assumptions.

   Models:  Rt/PoisonModel.v   the decision of src/sync/poison.rs as a pure function (tied to the real Mutex / RwLock by the
                               differential runs of harness/src/bin/d_poison.rs) and the guard life cycle under Rust's
                               unwinding (any number of tasks, locks, catch_unwind frames, nested unwindings)
            Rt/PoisonTie.v     the guard drop of PoisonModel inside MutexModel (C05) and RwLockModel (C12)
            Rt/SchedModel.v    (C01, imported unchanged) run_coroutine's panic path PP0 .. PD, Join, queues
            Rt/PoolModel.v     the stack pool (pool.rs get / put) as an overlay on SchedModel
            Rt/ScopeModel.v    (C14, imported unchanged) re-raise in the owner of a scope

   The models follow the code after fix bce9086 (finding F32: Flag::done asks whether the cancel panic was raised, not
   whether a cancel request is pending); the code before it is the variant `fixd = false` of PoisonModel.

   What is NOT in PoisonModel and is violated by the real code (known findings F33a/b/c): std::thread::panicking() is a
   per-OS-thread counter.  A coroutine that is suspended inside its unwinding and resumed by another worker leaves both
   workers' counters wrong, and while it is suspended its thread reports "panicking" to every other coroutine
   (observation O2; fix 6bc550e only removed the use in scoped.rs).  PoisonModel treats "unwinding" as a property of the
   task; Rt/PoisonTls.v is the TLS-faithful variant with the refutations. *)
From Coq Require Import List Arith ZArith Bool.
Import ListNotations.
Require MayV.Rt.PoisonModel MayV.Rt.PoisonInv MayV.Rt.PoisonPres MayV.Rt.PoisonThm.
Require MayV.Rt.SchedModel MayV.Rt.SchedInv MayV.Rt.PanicPath MayV.Rt.PanicThm.
Require MayV.Rt.ScopeModel MayV.Rt.ScopeThm.
Require MayV.Rt.PoisonTie MayV.Rt.PoolModel MayV.Rt.PoolThm MayV.Rt.PoisonTls.
Require MayV.Sync.MutexModel MayV.Sync.RwLockModel.
Module P := MayV.Rt.PoisonModel.
Module PT := MayV.Rt.PoisonThm.
Module S := MayV.Rt.SchedModel.
Module SI := MayV.Rt.SchedInv.
Module X := MayV.Rt.PanicThm.
Module SC := MayV.Rt.ScopeModel.
Module TIE := MayV.Rt.PoisonTie.
Module MX := MayV.Sync.MutexModel.
Module RW := MayV.Sync.RwLockModel.
Module PL := MayV.Rt.PoolModel.
Module PLT := MayV.Rt.PoolThm.
Module TLS := MayV.Rt.PoisonTls.

(* ======================================================================================================== *)
(* (i) poisoning                                                                                            *)
(* ======================================================================================================== *)

(* The decision table of Flag::done, as the code computes it NOW (after fix bce9086, finding F32): the flag is stored iff
   the guard was NOT made while the thread was panicking, the thread IS panicking now, and NOT (coroutine context and
   the cancel panic has been raised in this coroutine: Cancel.unwinding, set by trigger_cancel_panic). *)
Theorem C13_i_decision_table :
  forall gpan tpan isco cunw,
  P.done_stores gpan tpan isco cunw = true <-> gpan = false /\ tpan = true /\ ~ (isco = true /\ cunw = true).
Proof. exact PT.done_stores_spec. Qed.
Print Assumptions C13_i_decision_table.

(* ... and before that fix (the variant fixd = false of the model): NOT (coroutine context and Cancel.state == 1). *)
Theorem C13_i_decision_table_prefix :
  forall gpan tpan isco cst,
  P.done_stores_prefix gpan tpan isco cst = true <-> gpan = false /\ tpan = true /\ ~ (isco = true /\ cst = 1%Z).
Proof. exact PT.done_stores_prefix_spec. Qed.
Print Assumptions C13_i_decision_table_prefix.

(* Read guards never poison (RwLockReadGuard carries no poison::Guard). *)
Theorem C13_i_read_guard_never_poisons :
  forall fixd gpan tpan isco cst cunw, P.drop_poisons fixd P.GR gpan tpan isco cst cunw = false.
Proof. exact PT.read_guard_never_poisons. Qed.
Print Assumptions C13_i_read_guard_never_poisons.

(* Every way a guard is dropped (explicitly, or by the unwinding of the frames that own it - genuine panic or
   cancellation, nested or not) sets the flag of ITS lock exactly by that decision, and touches no other lock. *)
Theorem C13_i_guard_drop_is_exactly_the_decision :
  forall isco ismutex fixd s a t g s', PT.drops s a t g -> P.step isco ismutex fixd s a = Some s' ->
  P.failed (P.L s' (P.glock g)) =
    P.failed (P.L s (P.glock g)) || P.drop_poisons fixd (P.gk g) (P.gpan g) (P.panicking (P.T s t)) (isco t) (P.cst (P.T s t)) (P.cunw (P.T s t)) /\
  forall l, l <> P.glock g -> P.L s' l = P.L s l.
Proof. exact PT.drop_exact. Qed.
Print Assumptions C13_i_guard_drop_is_exactly_the_decision.

(* The lock is RELEASED by every guard drop, whatever the decision: the guard is gone, write access (Mutex / write
   guard) is given back, a read guard takes exactly one reader entry out; nobody else is touched. *)
Theorem C13_i_guard_drop_always_releases :
  forall isco ismutex fixd s a t g s', PT.drops s a t g -> P.step isco ismutex fixd s a = Some s' ->
  (forall g', In g' (P.held (P.T s' t)) -> P.gid g' <> P.gid g) /\
  (P.has_flag (P.gk g) = true -> P.wheld (P.L s' (P.glock g)) = None /\ P.readers (P.L s' (P.glock g)) = P.readers (P.L s (P.glock g))) /\
  (P.gk g = P.GR -> P.wheld (P.L s' (P.glock g)) = P.wheld (P.L s (P.glock g)) /\
                    P.readers (P.L s' (P.glock g)) = P.rm1 t (P.readers (P.L s (P.glock g)))) /\
  (forall t', t' <> t -> P.T s' t' = P.T s t') /\
  P.ctl (P.T s' t) = P.ctl (P.T s t) /\ P.cst (P.T s' t) = P.cst (P.T s t).
Proof. exact PT.drop_releases. Qed.
Print Assumptions C13_i_guard_drop_always_releases.

(* ... and what it releases is what the guard held: the dropped guard was the recorded owner / a counted reader. *)
Theorem C13_i_dropped_guard_was_the_owner :
  forall isco ismutex fixd s a t g, P.Reach isco ismutex fixd s -> PT.drops s a t g ->
  (P.has_flag (P.gk g) = true -> P.wheld (P.L s (P.glock g)) = Some t) /\
  (P.gk g = P.GR -> In t (P.readers (P.L s (P.glock g)))).
Proof. exact PT.dropped_guard_was_the_owner. Qed.
Print Assumptions C13_i_dropped_guard_was_the_owner.

(* An unwinding never gets stuck before the guards of the frames it leaves are dropped: it can drop one of them, or
   - when none is left - it is caught (catch_unwind, or the root of the task: generator / thread). *)
Theorem C13_i_unwinding_drops_every_guard_of_the_frames_it_leaves :
  forall isco ismutex fixd s t m ins r, P.Reach isco ismutex fixd s -> P.alive (P.T s t) = true -> P.ctl (P.T s t) = P.CUnw m ins :: r ->
  (exists g s', In g (P.held (P.T s t)) /\ P.step isco ismutex fixd s (P.UnwDrop t (P.gid g)) = Some s') \/
  (exists s', P.step isco ismutex fixd s (P.UnwCatch t) = Some s').
Proof. exact PT.unwinding_proceeds. Qed.
Print Assumptions C13_i_unwinding_drops_every_guard_of_the_frames_it_leaves.

(* A task that has ended (returned, panicked, cancelled) owns no guard, owns no lock, is a reader of none. *)
Theorem C13_i_ended_task_holds_no_lock :
  forall isco ismutex fixd s t, P.Reach isco ismutex fixd s -> P.fin (P.T s t) <> None ->
  P.held (P.T s t) = [] /\ forall l, P.wheld (P.L s l) <> Some t /\ ~ In t (P.readers (P.L s l)).
Proof. exact PT.ended_task_holds_nothing. Qed.
Print Assumptions C13_i_ended_task_holds_no_lock.

(* "The panic started inside the guard": a guard made while its task was not unwinding has been held at the start of
   every unwinding that is now in progress (`ins` = the guards held when the unwinding started). *)
Theorem C13_i_panic_started_inside_the_guard :
  forall isco ismutex fixd s t g m ins, P.Reach isco ismutex fixd s ->
  In g (P.held (P.T s t)) -> P.gpan g = false -> In (P.CUnw m ins) (P.ctl (P.T s t)) -> In (P.gid g) ins.
Proof. exact PT.started_inside. Qed.
Print Assumptions C13_i_panic_started_inside_the_guard.

(* EXACTLY, for the code as it is now: the drop poisons <-> (Mutex or write guard) and the panic started inside the guard
   and NOT (coroutine in which the cancel panic has been raised).  No premise: a merely pending cancel request (F32) and
   the disable count do not matter. *)
Theorem C13_i_poisons_iff_exact :
  forall isco s t g,
  P.poisons isco true s t g = P.has_flag (P.gk g) && P.started_inside_now (P.T s t) g && negb (isco t && P.cunw (P.T s t)).
Proof. exact PT.now_poison_iff_exact. Qed.
Print Assumptions C13_i_poisons_iff_exact.

(* A cancellation unwind never poisons: a guard dropped while the outermost unwinding in progress is a cancellation leaves
   the flag alone - also inside a section that has the cancel disabled (repaired by bce9086 too). *)
Theorem C13_i_cancellation_unwind_never_poisons :
  forall isco ismutex s t g, P.Reach isco ismutex true s ->
  P.cause (P.T s t) = Some P.MCancel -> P.poisons isco true s t g = false.
Proof. exact PT.now_cancel_unwind_never_poisons. Qed.
Print Assumptions C13_i_cancellation_unwind_never_poisons.

(* PARTIAL.  The property says: a write guard dropped by a genuine panic poisons.  Proved for threads, and for coroutines in
   which the cancel panic has not been raised (the mark Cancel.unwinding is never cleared).  What is missing - a coroutine
   whose own code has caught its cancel panic and that panics for real later - is refuted below. *)
Theorem C13_i_genuine_panic_poisons_partial :
  forall isco s t g,
  P.has_flag (P.gk g) = true -> P.gpan g = false -> P.panicking (P.T s t) = true ->
  (isco t = false \/ P.cunw (P.T s t) = false) -> P.poisons isco true s t g = true.
Proof. exact PT.now_genuine_panic_poisons. Qed.
Print Assumptions C13_i_genuine_panic_poisons_partial.

(* PARTIAL in the same way, in terms of what happened: a task that has not swallowed a cancel panic and has no cancellation
   unwinding in progress poisons by every genuine unwinding - whether a cancel request is pending or not (finding F32). *)
Theorem C13_i_genuine_panic_poisons_also_with_a_pending_cancel_request_partial :
  forall isco ismutex s t g, P.Reach isco ismutex true s -> In g (P.held (P.T s t)) ->
  P.has_flag (P.gk g) = true -> P.gpan g = false -> P.panicking (P.T s t) = true -> P.swal (P.T s t) = false ->
  (forall ins, ~ In (P.CUnw P.MCancel ins) (P.ctl (P.T s t))) -> P.poisons isco true s t g = true.
Proof. exact PT.now_pending_cancel_request_does_not_matter. Qed.
Print Assumptions C13_i_genuine_panic_poisons_also_with_a_pending_cancel_request_partial.

(* PARTIAL.  The property as an equivalence in terms of WHAT unwinds: the drop poisons <-> (Mutex or write guard) and the
   panic started inside the guard and the unwinding is not a cancellation.  One premise: (P) no cancel panic has been raised
   in a task that unwinds by a genuine panic (its own code has not caught one with catch_unwind). *)
Theorem C13_i_poisons_iff_panic_started_inside_and_not_cancellation_partial :
  forall isco ismutex s t g, P.Reach isco ismutex true s ->
  (P.genuine (P.cause (P.T s t)) = true -> P.cunw (P.T s t) = false) ->
  P.poisons isco true s t g = P.has_flag (P.gk g) && P.started_inside_now (P.T s t) g && P.genuine (P.cause (P.T s t)).
Proof. exact PT.now_poison_iff_partial. Qed.
Print Assumptions C13_i_poisons_iff_panic_started_inside_and_not_cancellation_partial.

(* REFUTED without (P) on the code as it is now - the residue of fix bce9086, reported; replayed on the real code by
   `MAYV_STRICT10=1 MAYV_MODE=10 d_poison`: a coroutine is cancelled, its own code catches the cancel panic (catch_unwind
   around a cancellation point) and goes on, takes a Mutex and panics for real (payload 7) inside the guard: the task
   ends with OPan 7, the lock is released and NOT poisoned. *)
Theorem C13_i_swallowed_cancel_then_panic_refuted :
  exists s, P.Reach (fun _ => true) (fun _ => true) true s /\
    P.run (fun _ => true) (fun _ => true) true P.init PT.swallow_sched = Some s /\
    P.fin (P.T s 0) = Some (P.OPan 7) /\ P.swal (P.T s 0) = true /\ P.failed (P.L s 0) = false /\ P.wheld (P.L s 0) = None.
Proof. exact PT.swallowed_cancel_refuted. Qed.
Print Assumptions C13_i_swallowed_cancel_then_panic_refuted.

(* REFUTED on the code BEFORE fix bce9086 (variant fixd = false; finding F32, fixed): a coroutine holds a Mutex guard,
   cancel() is called on it, then it panics for real (payload 7).  The unwinding drops the guard and releases the lock,
   the task ends with OPan 7 - what join() reports - and the lock is NOT poisoned: Flag::done decided "cancelled" from
   Cancel.state, not from what is unwinding.  (On the current code the same schedule poisons: example below.) *)
Theorem C13_i_poisons_iff_prefix_refuted :
  exists s s' g, P.Reach (fun _ => true) (fun _ => true) false s /\
    In g (P.held (P.T s 0)) /\ P.has_flag (P.gk g) = true /\ P.started_inside_now (P.T s 0) g = true /\
    P.genuine (P.cause (P.T s 0)) = true /\ P.cunw (P.T s 0) = false /\
    P.step (fun _ => true) (fun _ => true) false s (P.UnwDrop 0 (P.gid g)) = Some s' /\ P.failed (P.L s' (P.glock g)) = false /\
    (exists s'', P.run (fun _ => true) (fun _ => true) false s' [P.UnwCatch 0] = Some s'' /\
                 P.fin (P.T s'' 0) = Some (P.OPan 7) /\ P.failed (P.L s'' 0) = false /\ P.wheld (P.L s'' 0) = None).
Proof. exact PT.poison_iff_prefix_refuted. Qed.
Print Assumptions C13_i_poisons_iff_prefix_refuted.

(* The flag is never cleared ... *)
Theorem C13_i_poisoned_stays_poisoned :
  forall isco ismutex fixd s a s' l, P.step isco ismutex fixd s a = Some s' -> P.failed (P.L s l) = true -> P.failed (P.L s' l) = true.
Proof. exact PT.poisoned_stays_poisoned. Qed.
Print Assumptions C13_i_poisoned_stays_poisoned.

(* ... a poisoned lock is taken under exactly the same condition as a clean one (the flag is not part of it) ... *)
Theorem C13_i_lock_enabled_regardless_of_poison :
  forall isco ismutex fixd s t l k,
  (exists s', P.step isco ismutex fixd s (P.Lock t l k) = Some s') <->
  P.alive (P.T s t) = true /\ P.kind_ok ismutex l k = true /\ P.available (P.L s l) k = true.
Proof. exact PT.lock_enabled_regardless_of_poison. Qed.
Print Assumptions C13_i_lock_enabled_regardless_of_poison.

(* ... every lock() / write() / read() reports Err(Poisoned) exactly when the flag is set, and hands out a guard either way ... *)
Theorem C13_i_lock_reports_poison_and_hands_out_a_guard :
  forall isco ismutex fixd s t l k s', P.step isco ismutex fixd s (P.Lock t l k) = Some s' ->
  exists g, P.held (P.T s' t) = g :: P.held (P.T s t) /\ P.gid g = P.nextg s /\ P.glock g = l /\ P.gk g = k /\
            P.gerr g = P.failed (P.L s l) /\ P.gpan g = P.panicking (P.T s t) /\
            P.failed (P.L s' l) = P.failed (P.L s l) /\
            (P.has_flag k = true -> P.wheld (P.L s' l) = Some t) /\ (k = P.GR -> P.readers (P.L s' l) = t :: P.readers (P.L s l)).
Proof. exact PT.lock_reports_poison_and_hands_out_guard. Qed.
Print Assumptions C13_i_lock_reports_poison_and_hands_out_a_guard.

(* ... that works: it can be dropped at once and the drop releases the lock again. *)
Theorem C13_i_guard_of_a_poisoned_lock_works :
  forall isco ismutex fixd s t l k s', P.step isco ismutex fixd s (P.Lock t l k) = Some s' ->
  exists s'', P.step isco ismutex fixd s' (P.DropG t (P.nextg s)) = Some s'' /\
              (P.has_flag k = true -> P.wheld (P.L s'' l) = None) /\ (k = P.GR -> P.readers (P.L s'' l) = P.readers (P.L s l)) /\
              P.held (P.T s'' t) = P.del_g (P.nextg s) (P.held (P.T s' t)).
Proof. exact PT.guard_of_poisoned_lock_works. Qed.
Print Assumptions C13_i_guard_of_a_poisoned_lock_works.

(* is_poisoned(), get_mut(), into_inner() report exactly the flag. *)
Theorem C13_i_observers_report_the_flag :
  forall s l, P.is_poisoned s l = P.failed (P.L s l) /\ P.get_mut_err s l = P.failed (P.L s l) /\ P.into_inner_err s l = P.failed (P.L s l).
Proof. exact PT.observers_report_the_flag. Qed.
Print Assumptions C13_i_observers_report_the_flag.

(* Exclusion does not depend on the flag: one owner of write access, no reader beside it. *)
Theorem C13_i_write_guard_exclusive_also_when_poisoned :
  forall isco ismutex fixd s t t' g g', P.Reach isco ismutex fixd s ->
  In g (P.held (P.T s t)) -> In g' (P.held (P.T s t')) -> P.has_flag (P.gk g) = true -> P.has_flag (P.gk g') = true ->
  P.glock g = P.glock g' -> t = t' /\ g = g'.
Proof. exact PT.write_guard_exclusive. Qed.
Print Assumptions C13_i_write_guard_exclusive_also_when_poisoned.

Theorem C13_i_write_guard_excludes_readers_also_when_poisoned :
  forall isco ismutex fixd s t t' g g', P.Reach isco ismutex fixd s ->
  In g (P.held (P.T s t)) -> In g' (P.held (P.T s t')) -> P.has_flag (P.gk g) = true -> P.gk g' = P.GR -> P.glock g = P.glock g' -> False.
Proof. exact PT.write_guard_excludes_readers. Qed.
Print Assumptions C13_i_write_guard_excludes_readers_also_when_poisoned.


(* ---- the release, in the lock models of C05 / C12 ---- *)

(* MutexModel (C05): a guard drop - for whatever reason - is the one unlock path CS -> U0 -> ..: cnt is decremented by
   exactly one, the owner leaves `ent`, the lock becomes free (cnt was 1) or the hand-over to the first waiter starts;
   the state after it is reachable, so every C05 theorem holds after a guard was dropped by a panic or a cancellation. *)
Theorem C13_i_mutex_guard_drop_is_exactly_one_unlock :
  forall isco s a, MX.Reach isco s -> MX.apc (MX.A s a) = MX.CS ->
  exists s1 s2,
    MX.step isco s (MX.Step a) = Some s1 /\ MX.apc (MX.A s1 a) = MX.U0 /\ MX.afor (MX.A s1 a) = a /\ MX.cnt s1 = MX.cnt s /\
    MX.step isco s1 (MX.Step a) = Some s2 /\
    1 <= MX.cnt s /\ MX.cnt s2 = MX.cnt s - 1 /\ MX.ent s2 = remove Nat.eq_dec a (MX.ent s) /\ ~ In a (MX.ent s2) /\
    (MX.cnt s = 1 -> MX.apc (MX.A s2 a) = MX.Idle /\ MX.holder s2 = MX.HNone) /\
    (1 < MX.cnt s -> MX.apc (MX.A s2 a) = MX.H1 /\ MX.holder s2 = MX.holder s) /\
    MX.Reach isco s2.
Proof. exact TIE.mutex_guard_drop_is_one_unlock. Qed.
Print Assumptions C13_i_mutex_guard_drop_is_exactly_one_unlock.

(* RwLockModel (C12): the write guard dropped by a panicking holder (Panic; Step at DWP) ends exactly where the normal
   drop ends, with the flag set; which of the two happens is the decision of poison.rs. *)
Theorem C13_i_rwlock_poisoning_drop_releases_like_the_normal_drop :
  forall s a s1, RW.apc (RW.A s a) = RW.HoldW -> RW.step s (RW.Drop a) = Some s1 ->
  exists sp s2, RW.step s (RW.Panic a) = Some sp /\ RW.apc (RW.A sp a) = RW.DWP /\
                RW.step sp (RW.Step a) = Some s2 /\ RW.pois s2 = true /\ TIE.rw_same_but_pois s1 s2 /\
                RW.apc (RW.A s2 a) = RW.U0 /\ RW.afor (RW.A s2 a) = Some a.
Proof. exact TIE.rw_poisoning_drop_releases_like_the_normal_drop. Qed.
Print Assumptions C13_i_rwlock_poisoning_drop_releases_like_the_normal_drop.

Theorem C13_i_rwlock_write_drop_sets_exactly_the_decision :
  forall fixd gpan tpan isco cst cunw s a, RW.apc (RW.A s a) = RW.HoldW ->
  exists s', RW.run s (TIE.rw_write_drop fixd gpan tpan isco cst cunw a) = Some s' /\
             RW.pois s' = RW.pois s || P.drop_poisons fixd P.GW gpan tpan isco cst cunw /\
             RW.apc (RW.A s' a) = RW.U0 /\ RW.afor (RW.A s' a) = Some a /\ RW.cnt s' = RW.cnt s /\ RW.holder s' = RW.holder s.
Proof. exact TIE.rw_write_drop_sets_exactly_the_decision. Qed.
Print Assumptions C13_i_rwlock_write_drop_sets_exactly_the_decision.

Theorem C13_i_rwlock_read_guard_has_no_poisoning_drop :
  forall s a, RW.apc (RW.A s a) = RW.HoldR ->
  RW.step s (RW.Panic a) = None /\ exists s1, RW.step s (RW.Drop a) = Some s1 /\ RW.pois s1 = RW.pois s.
Proof. exact TIE.rw_read_guard_has_no_poisoning_drop. Qed.
Print Assumptions C13_i_rwlock_read_guard_has_no_poisoning_drop.

(* PoisonModel restricted to one Mutex l is simulated by MutexModel (one actor per guard): Lock = Start; Step (the CAS
   0 -> 1), every guard drop - explicit, or by an unwinding of any kind - = Step; Step (CS -> U0 -> Idle).  So every run
   of the guard life cycle with panics, cancellations, nested unwindings is a run of C05's model for that Mutex. *)
Theorem C13_i_guard_life_cycle_is_simulated_by_the_mutex_model :
  forall isco ismutex fixd iscoM l, ismutex l = true ->
  forall acts ps ms ps', P.Reach isco ismutex fixd ps -> MX.Reach iscoM ms -> TIE.Rel l ps ms ->
  P.run isco ismutex fixd ps acts = Some ps' -> exists ms', MX.Reach iscoM ms' /\ TIE.Rel l ps' ms'.
Proof. exact TIE.mutex_simulation_run. Qed.
Print Assumptions C13_i_guard_life_cycle_is_simulated_by_the_mutex_model.

(* ======================================================================================================== *)
(* (ii) the panic stays in the coroutine                                                                    *)
(* ======================================================================================================== *)

(* A body that panics with payload v enters the panic path of run_coroutine: the thread's top frame becomes the
   panic frame, the outcome is recorded, nothing else changes. *)
Theorem C13_ii_body_panic_enters_the_panic_path :
  forall s t c rest v,
  S.stk s t = S.FRun c :: rest -> S.gst (S.co s c) = S.GLive -> S.upc (S.co s c) = S.Idle ->
  exists s', S.step s (S.APanic t (Some v)) = Some s' /\ S.stk s' t = S.FPan c :: rest /\ S.upc (S.co s' c) = S.PP0 v /\
             S.outcome (S.co s' c) = Some (S.RPan v) /\ S.gst (S.co s' c) = S.GFin /\ In c (S.hand s' t) /\
             (forall c', c' <> c -> S.co s' c' = S.co s c') /\
             (forall t', t' <> t -> S.stk s' t' = S.stk s t' /\ S.hand s' t' = S.hand s t') /\
             S.gq s' = S.gq s /\ S.lq s' = S.lq s /\ S.slots s' = S.slots s /\ S.dead s' = S.dead s /\ S.tpc s' = S.tpc s /\
             S.tok s' = S.tok s /\ S.punp s' = S.punp s.
Proof. exact X.body_panic_enters_panic_path. Qed.
Print Assumptions C13_ii_body_panic_enters_the_panic_path.

(* The panic path (panic.store; state.store(false); to_wake.take; [unpark]; drop_coroutine) runs to its end in at
   most five steps of the thread alone - no other actor is needed - and touches nothing but the coroutine's own Join
   (`pframe`: every other coroutine record, every queue, every other thread's stack and hand, the slots, the tokens
   are unchanged; at most the waiter's unpark is issued).  Afterwards the thread's stack is what was below the
   coroutine, the coroutine is dead. *)
Theorem C13_ii_panic_path_runs_to_its_end_and_touches_nothing_else :
  forall w s t c rest, S.Reach w s -> S.stk s t = S.FPan c :: rest ->
  exists n s', n <= 5 /\ S.steps s (repeat (S.AStep t) n) = Some s' /\ X.pframe s s' t c /\
    S.stk s' t = rest /\ S.hand s' t = S.rm c (S.hand s t) /\ S.loc (S.co s' c) = S.LDead /\ S.dead s' = c :: S.dead s /\
    S.upc (S.co s' c) = S.PD /\ S.Reach w s'.
Proof. exact X.panic_path_runs_to_the_end. Qed.
Print Assumptions C13_ii_panic_path_runs_to_its_end_and_touches_nothing_else.

(* The payload: once the Join is triggered the payload of the body's panic is in the panic slot until join() takes
   it, the value slot is empty, and join() can have returned nothing but that payload. *)
Theorem C13_ii_panic_payload_kept_for_join :
  forall w s c v, S.Reach w s -> S.outcome (S.co s c) = Some (S.RPan v) -> S.jstate (S.co s c) = false ->
  S.pkt (S.co s c) = None /\ (S.jret (S.co s c) = None -> S.pan (S.co s c) = Some v) /\
  (forall r, S.jret (S.co s c) = Some r -> r = S.RPan v).
Proof. exact X.panic_payload_kept_for_join. Qed.
Print Assumptions C13_ii_panic_payload_kept_for_join.

Theorem C13_ii_join_returns_exactly_the_outcome :
  forall w s c r, S.Reach w s -> S.jret (S.co s c) = Some r -> S.outcome (S.co s c) = Some r.
Proof. exact X.join_returns_exactly_the_outcome. Qed.
Print Assumptions C13_ii_join_returns_exactly_the_outcome.

(* join() that has seen the finished state: its two remaining accesses are enabled and it returns Err(payload). *)
Theorem C13_ii_join_of_a_panicked_coroutine_returns_the_payload :
  forall w s t a d v,
  S.Reach w s -> S.cur s t = Some a -> S.live_ag s a = true -> S.apc s a = S.InJ d -> S.jcall (S.co s d) = Some (a, S.JT1) ->
  S.outcome (S.co s d) = Some (S.RPan v) ->
  exists s1 s2, S.step s (S.AStep t) = Some s1 /\ S.step s1 (S.AStep t) = Some s2 /\
                S.jret (S.co s2 d) = Some (S.RPan v) /\ S.pan (S.co s2 d) = None /\ S.apc s2 a = S.Idle.
Proof. exact X.join_of_panicked_returns_payload. Qed.
Print Assumptions C13_ii_join_of_a_panicked_coroutine_returns_the_payload.

(* Conservation (C01.i) holds in every reachable state, in particular during and after a panic: every spawned
   coroutine is in exactly one place (queue / hand / running / slot / dead), no duplicates. *)
Theorem C13_ii_conservation_is_unaffected :
  forall w s, S.Reach w s -> SI.PInv s.
Proof. exact X.conservation_is_unaffected. Qed.
Print Assumptions C13_ii_conservation_is_unaffected.

(* The worker survives: a thread that ran the panicking coroutine from its base finishes the panic path with an empty
   stack and an idle control point; it can then take the head of any non-empty queue and resume it. *)
Theorem C13_ii_worker_survives :
  forall w s t c, S.Reach w s -> S.stk s t = [S.FPan c] ->
  exists n s', n <= 5 /\ S.steps s (repeat (S.AStep t) n) = Some s' /\ S.Reach w s' /\ S.base_idle s' t = true /\
   forall q c' r, S.getq s' q = c' :: r ->
     exists s1, S.step s' (S.Grab t q) = Some s1 /\ In c' (S.hand s1 t) /\ S.stk s1 t = [] /\
       (S.gst (S.co s' c') <> S.GFin ->
        exists s2, S.step s1 (S.Resume t c') = Some s2 /\ S.stk s2 t = [S.FRun c'] /\ S.loc (S.co s2 c') = S.LRun t).
Proof. exact X.worker_survives. Qed.
Print Assumptions C13_ii_worker_survives.


(* ---- later spawns, also ones that reuse its stack (pool overlay on SchedModel) ---- *)

(* Every state of a run with the stack pool is a state of SchedModel: every theorem above (and of C01) holds for
   coroutines that run on a reused stack, whatever the previous occupant did (init_code re-initialises the generator:
   generator crate, trusted). *)
Theorem C13_ii_runs_with_the_pool_are_runs_of_the_scheduler_model :
  forall cap w n s, PL.PReach cap w n s -> S.Reach w (PL.base s).
Proof. exact PLT.preach_base. Qed.
Print Assumptions C13_ii_runs_with_the_pool_are_runs_of_the_scheduler_model.

(* Two live coroutines never run on the same stack. *)
Theorem C13_ii_stacks_are_exclusive :
  forall cap w n s c c' k, PL.PReach cap w n s ->
  PL.livec s c -> PL.livec s c' -> PL.sof s c = Some k -> PL.sof s c' = Some k -> c = c'.
Proof. exact PLT.stack_exclusive. Qed.
Print Assumptions C13_ii_stacks_are_exclusive.

(* The stack a spawn takes out of the pool is used by nobody: its previous occupant - returned, panicked or cancelled -
   is gone; afterwards it belongs to the new coroutine. *)
Theorem C13_ii_spawn_gets_a_stack_nobody_uses :
  forall cap w n s t c id local s' k, PL.PReach cap w n s ->
  PL.op s t = PL.OGot k -> PL.pstep cap s (PL.PSpawn t c id local) = Some s' ->
  PL.sof s' c = Some k /\ PL.owner s' k = Some c /\ PL.livec s' c /\
  (forall c', PL.livec s c' -> PL.sof s c' <> Some k) /\ ~ In k (PL.pool s).
Proof. exact PLT.spawn_gets_a_stack_nobody_uses. Qed.
Print Assumptions C13_ii_spawn_gets_a_stack_nobody_uses.

Theorem C13_ii_pooled_stack_is_unused :
  forall cap w n s k c, PL.PReach cap w n s -> In k (PL.pool s) -> PL.livec s c -> PL.sof s c <> Some k.
Proof. exact PLT.pooled_stack_is_unused. Qed.
Print Assumptions C13_ii_pooled_stack_is_unused.

(* pool.put - the end of drop_coroutine, also on the panic path - never blocks; the counter is exact. *)
Theorem C13_ii_pool_put_always_completes :
  forall cap s t c k ok, PL.op s t = PL.OP1 c k ok -> exists s', PL.pstep cap s (PL.PPut1 t) = Some s' /\ PL.op s' t = PL.OIdle.
Proof. exact PLT.put_always_completes. Qed.
Print Assumptions C13_ii_pool_put_always_completes.

Theorem C13_ii_pool_size_accounting :
  forall cap w n s, PL.PReach cap w n s ->
  PL.psize s = (Z.of_nat (length (PL.pool s)) + PL.pp s + PL.px s - PL.pg s)%Z.
Proof. exact PLT.size_accounting. Qed.
Print Assumptions C13_ii_pool_size_accounting.

(* ======================================================================================================== *)
(* (iii) owners re-raise (C14, cited)                                                                        *)
(* ======================================================================================================== *)

(* A scoped child's panic is re-raised in the owner with the same payload (ScopeThm.child_panic_reraised, C14).  The
   select! / cqueue owner (C16) is covered by the scenario oracle only. *)
Theorem C13_iii_scope_owner_reraises_the_childs_panic :
  forall s a p s', SC.Reach SC.current s -> SC.pcm s a = SC.PRes -> SC.unwm s a = SC.UNone ->
  SC.outm s (SC.jcm s a) = SC.OPanic p -> SC.step SC.current s (SC.Step a) = Some s' -> SC.unwm s' a = SC.UPanic p.
Proof. exact MayV.Rt.ScopeThm.child_panic_reraised. Qed.
Print Assumptions C13_iii_scope_owner_reraises_the_childs_panic.


(* ======================================================================================================== *)
(* observation O2: REFUTED on the TLS-faithful variant (Rt/PoisonTls.v) and on the real runtime                  *)
(* ======================================================================================================== *)

(* std::thread::panicking() counts per OS thread.  A coroutine that is suspended INSIDE its unwinding (the runtime does
   that itself: RwLockReadGuard::drop waits for the reader-count mutex, Park::drop for the kernel half, Drop for Scope /
   Cqueue for children) may be resumed by another thread, and meanwhile its thread runs other coroutines.  Known
   findings F33a / F33b / F33c, each run on the real code by every check (props/C13.json, third scenario):

   a panic that started inside a Mutex guard does NOT poison when the coroutine was resumed by another thread while it
   unwinds; the counters of both threads stay wrong (1 and -1) *)
Theorem C13_tls_poison_lost_after_migration_refuted :
  exists s, TLS.TReach s /\
    TLS.trun TLS.tinit [TLS.TLock 0 0; TLS.TPanic 0 7; TLS.TMigrate 0 1; TLS.TDrop 0 0; TLS.TCaught 0] = Some s /\
    TLS.tfailed s 0 = false /\ TLS.towner s 0 = None /\ TLS.tunw (TLS.TT s 0) = None /\
    TLS.pcnt s 0 = 1%Z /\ TLS.pcnt s 1 = (-1)%Z.
Proof. exact TLS.lost_poison_after_migration_refuted. Qed.
Print Assumptions C13_tls_poison_lost_after_migration_refuted.

(* on ONE thread: a well-behaved coroutine that drops its Mutex guard normally POISONS the Mutex while another coroutine
   is suspended inside a cancellation unwind *)
Theorem C13_tls_spurious_poison_on_one_thread_refuted :
  exists s, TLS.TReach s /\
    TLS.trun TLS.tinit [TLS.TLock 1 0; TLS.TCancelReq 0; TLS.TCancelPoint 0; TLS.TDrop 1 0] = Some s /\
    TLS.tfailed s 0 = true /\ TLS.tunw (TLS.TT s 1) = None /\ TLS.tcst (TLS.TT s 1) = 0%Z /\
    TLS.thr (TLS.TT s 0) = TLS.thr (TLS.TT s 1).
Proof. exact TLS.spurious_poison_on_one_thread_refuted. Qed.
Print Assumptions C13_tls_spurious_poison_on_one_thread_refuted.

(* on ONE thread: the cancellation of an unrelated coroutine is suppressed while another one is suspended inside its
   unwinding (check_cancel: `if !thread::panicking()`); a `loop { yield_now() }` then never leaves the worker *)
Theorem C13_tls_cancel_suppressed_refuted :
  exists s, TLS.TReach s /\ TLS.trun TLS.tinit [TLS.TPanic 0 7; TLS.TCancelReq 1] = Some s /\
            P.is_canceled (TLS.tcst (TLS.TT s 1)) = true /\
            forall n, TLS.trun s (repeat (TLS.TCancelPoint 1) n) = Some s.
Proof. exact TLS.cancel_suppressed_refuted. Qed.
Print Assumptions C13_tls_cancel_suppressed_refuted.

(* ======================================================================================================== *)
(* non-vacuity                                                                                               *)
(* ======================================================================================================== *)

(* a panic inside a guard poisons and releases *)
Example C13_ex_panic_inside_guard_poisons_and_releases :
  exists s, P.run (fun _ => true) (fun _ => true) true P.init [P.Lock 0 0 P.GM; P.PanicStart 0 7; P.UnwDrop 0 0; P.UnwCatch 0] = Some s /\
            P.fin (P.T s 0) = Some (P.OPan 7) /\ P.failed (P.L s 0) = true /\ P.wheld (P.L s 0) = None.
Proof. exact PT.same_run_without_cancel_poisons. Qed.

(* the F32 schedule (Lock; CancelReq; PanicStart 7; UnwDrop; UnwCatch) on the code as it is now: poisoned *)
Example C13_ex_pending_cancel_then_panic_poisons_now :
  exists s, P.run (fun _ => true) (fun _ => true) true P.init PT.refute_sched = Some s /\
            P.fin (P.T s 0) = Some (P.OPan 7) /\ P.failed (P.L s 0) = true /\ P.wheld (P.L s 0) = None.
Proof. exact PT.pending_cancel_then_panic_poisons_now. Qed.

(* a cancellation unwind that drops the guard inside a section with the cancel disabled: released, not poisoned *)
Example C13_ex_cancel_unwind_does_not_poison_now :
  exists s, P.run (fun _ => true) (fun _ => true) true P.init
              [P.Lock 0 0 P.GM; P.CancelReq 0; P.CancelStart 0; P.Disable 0; P.UnwDrop 0 0; P.Enable 0; P.UnwCatch 0] = Some s /\
            P.fin (P.T s 0) = Some P.OCan /\ P.failed (P.L s 0) = false /\ P.wheld (P.L s 0) = None.
Proof. exact PT.cancel_unwind_does_not_poison_now. Qed.

(* main spawns 1, the worker runs it, it panics with 7, the panic path runs; 2 is spawned, the SAME worker runs it,
   it returns 5; join(1) = Err(7), join(2) = Ok(5); the worker's stack is empty, both are dead, bodies ran once *)
Example C13_ex_panic_then_next_coroutine_on_the_same_worker :
  exists s, S.steps (S.init 1) X.demo_sched = Some s /\ S.Reach 1 s /\
    S.jret (S.co s 1) = Some (S.RPan 7%Z) /\ S.jret (S.co s 2) = Some (S.RVal 5%Z) /\ S.stk s 1 = [] /\ S.dead s = [2; 1] /\
    S.bodycnt (S.co s 1) = 1 /\ S.bodycnt (S.co s 2) = 1 /\ S.pan (S.co s 1) = None /\ S.pkt (S.co s 2) = None.
Proof. exact X.demo_run. Qed.

(* capacity 1, stack 0 cached: coroutine 1 takes it and panics with 7, the drop puts it back, coroutine 2 gets the SAME
   stack, returns 5; join(1) = Err(7), join(2) = Ok(5), the stack is back in the pool, the counter is 1 *)
Example C13_ex_stack_of_a_panicked_coroutine_is_reused :
  exists s, PL.psteps 1 (PL.pinit 1 1) PLT.reuse_sched = Some s /\ PL.PReach 1 1 1 s /\
    PL.sof s 1 = Some 0 /\ PL.sof s 2 = Some 0 /\ PL.pool s = [0] /\ PL.psize s = 1%Z /\ PL.nexts s = 1 /\
    S.jret (S.co (PL.base s) 1) = Some (S.RPan 7%Z) /\ S.jret (S.co (PL.base s) 2) = Some (S.RVal 5%Z) /\
    S.bodycnt (S.co (PL.base s) 2) = 1 /\ S.stk (PL.base s) 1 = [] /\ S.dead (PL.base s) = [2; 1].
Proof. exact PLT.reuse_after_panic_run. Qed.
