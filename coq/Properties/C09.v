(* C09 - cancellation stops the target, cleans up, never corrupts what it waited on.
   This file: Park / Blocker, the para slot (every blocking call), join, select / cqueue, scope, socket I/O, guards.
   C09_mutex.v, C09_mutex_fwd.v: Mutex.  C09_sync.v: Semphore, Condvar.  C09_chan.v: RwLock, mpsc, mpmc.
   (split so that the files build in parallel: Print Assumptions walks the whole proof cone of every theorem)
   Property theorems only: each is closed by `exact` of a lemma proved elsewhere and followed by Print Assumptions.

   Cancellation is a behaviour of every model of the development rather than a model of its own (DESIGN 6, C09); this
   file ASSEMBLES, per primitive, four statements from the invariants of the existing models (nothing of them is edited):
     (i)   stop      in every reachable quiescent state no cancelled coroutine is suspended in the primitive's wait
                     (+ the progress form: a cancelled, suspended coroutine always has an enabled resumption; + the
                     short-cut: a cancelled coroutine that arrives at a cancellable call does not suspend)
     (ii)  forward   what a cancelled waiter had been given (lock hand-off, permit, notification, message) is passed on /
                     kept exactly once and the primitive's invariants hold afterwards; guards dropped by the cancel
                     unwind release and do not poison
     (iii) no spurious cancel   the transition that delivers / returns `Canceled` (or raises the cancel panic) is taken
                     only by an actor whose cancel bit is set
     (iv)  join of a cancel-unwound coroutine returns Err(Cancel)

   Models and where the cancel bit lives:
     ParkModel (C02)       cbit, set by ACnOr = Cancel::cancel's fetch_or       Rt/CancelThm.v
     MutexModel (C05)      acanc / aign, Cancel / CKick                         Sync/CancelMutex.v (new invariant CInv)
     CondvarModel (C11)    ccan / aco / rcan                                    Sync/CancelCondvar.v (new invariant dinv)
     SchedModel (C01)      cancelled                                            Rt/CancelThm.v (module J)
     CqueueModel (C16)     ocbit / odis                                         Rt/CancelCqueue.v
     IoModel (C17/C18)     acanc                                                Io/CancelIo.v
     LocalModel (C15)      cbitm / ncanm (every kind of blocking call, the para slot of pooled generators)
     PoisonModel (C13)     cancel_bit / cunw
     SemModel (C10), RwLockModel (C12), ChanMpscModel, ChanMpmcModel (C06/C07): the model has a cancel DELIVERY as an
       environment action (Fire / Abort) but no bit; the bit is added by the ghost overlay Base/CancelOverlay.v
       (state = model state + bits + log of cancel() calls; the projection of an overlay run is a run of the model and
       every run of the model is the projection of an overlay run).  On these four, (iii) holds BY CONSTRUCTION of the
       overlay's guard - what it encodes is the contract of the Blocker token proved for the real Park in C02
       (C09_park_canceled_only_if_cancelled below) - and (i) says that the delivery is enabled whenever the bit is set.
   PREMISE of the theorems that say that a cancelled coroutine DIES at a cancellation point: in every model `unwinding /
   panicking` is a property of the TASK, whereas CancelImpl::check_cancel asks std::thread::panicking(), a counter of the
   OS thread (observation O2).  While another coroutine is suspended inside its unwinding on the same worker (the
   cancelled owner of a select! waiting in Cqueue::finish, a scope owner in Drop for Scope, Park::drop waiting for the
   kernel half) the real check_cancel does NOT raise the cancel panic.  So these theorems hold for the code under the
   premise "no other coroutine is suspended inside an unwinding on the same OS thread":
     C09_park_cancelled_raises_panic              (the step UCc -> UDead of ParkModel is check_cancel's panic)
     C09_select_left_all_gone                     (CqueueModel: a cancelled select coroutine ends at its next point)
     C09_scope_cancelled_owner_waits_for_children (ScopeModel: CPoint / the children's cancellation points)
     C09_join_* and C09_cancel_unwind_needs_cancel  are about a body that HAS unwound: unaffected; the missing half
                                                  "a cancelled body does unwind" is the premise again
     C09_cancel_unwind_never_poisons, C09_cancel_unwinding_has_the_bit, C09_guard_drop_always_releases,
     C09_ended_task_holds_no_lock                 (PoisonModel: `panicking` per task; Rt/PoisonTls.v is the TLS-faithful variant)
   and, in the other C09 files, for the transitions into the Canceled branches that end in trigger_cancel_panic only in
   so far as they are reached through Park's check_cancel (the sync primitives use ignore_cancel Blockers and call
   trigger_cancel_panic themselves: unaffected).  The (i) stop theorems (nobody stays SUSPENDED) and the (iii) theorems
   (no spurious cancel) do not depend on the premise.  Without the premise the property is violated on the real code:
   known finding F33e (a cancelled select! whose arms absorb the Canceled result never finishes; scenario entry 2 of
   props/C09.json, notes/c09_known_findings_proposal.json).
   Not modelled / partial (see props/C09.json): `sleep` (same register-then-re-check shape as Park::subscribe, pinned
   statically, oracle in the scenario); drop-exactly-once of stack values is Rust unwinding (trusted; drop counters in
   the scenario); the I/O leg: (iii) is proved, (i) is refuted on IoModel for the unrestricted interleaving
   (C09_io_cancel_lost_refuted, from C18: model only) and proved nowhere - oracle only. *)
From Coq Require Import List Arith ZArith Bool.
Import ListNotations.
Require MayV.Base.BlockerSpec.
Require MayV.Rt.ParkModel MayV.Rt.ParkTac MayV.Rt.ParkThm MayV.Rt.ParkRefute MayV.Rt.CancelThm.
Require MayV.Rt.SchedModel MayV.Rt.SchedLive MayV.Rt.SchedRuns.
Require MayV.Rt.CqueueModel MayV.Rt.CqueueInv MayV.Rt.CqueueThm MayV.Rt.CancelCqueue.
Require MayV.Rt.ScopeModel MayV.Rt.ScopeSafe MayV.Rt.ScopeRefute.
Require MayV.Io.IoModel MayV.Io.IoThm2 MayV.Io.IoRefute MayV.Io.CancelIo.
Require MayV.Rt.LocalModel MayV.Rt.LocalThm.
Require MayV.Rt.PoisonModel MayV.Rt.PoisonThm.

(* ================================================================================================ Park (park, Blocker) *)
Module PARK.
Import MayV.Base.BlockerSpec MayV.Rt.ParkModel MayV.Rt.ParkTac MayV.Rt.ParkThm MayV.Rt.CancelThm.

(* (i) register-then-re-check: a coroutine in the wait_co slot whose cancel bit is set is about to be taken out - the kernel
   half has not yet passed its own check of the bit, or a canceller holds the slot it took from Cancel.co, or the slot is
   still registered there and a canceller is about to take it *)
Theorem C09_park_no_lost_cancel :
  forall s, ReachF s -> slot s = true -> cbit s = true ->
  match kp s with
  | KChk | KStake | KSload | KFtake | KCchk | KC3 => True
  | _ => (exists i, cn s i = CTake) \/ (cco s = CThis /\ exists i, cn s i = CTakeCo) end.
Proof. exact no_lost_cancel. Qed.
Print Assumptions C09_park_no_lost_cancel.

(* a suspended coroutine that has not been cancelled is registered with its Cancel (set_co precedes wait_co.store) *)
Theorem C09_park_suspended_is_registered :
  forall s, ReachF s -> slot s = true -> cbit s = false -> cco s = CThis.
Proof. exact suspended_is_registered. Qed.
Print Assumptions C09_park_suspended_is_registered.

(* (i) quiescence form: no cancelled coroutine rests in the slot (whatever its disable count) *)
Theorem C09_park_cancelled_does_not_rest :
  forall s, ReachF s -> Quiescent s -> cbit s = true -> slot s = false /\ up s <> UYield.
Proof. exact park_cancelled_does_not_rest. Qed.
Print Assumptions C09_park_cancelled_does_not_rest.

(* (i) progress form: at every control point of park_timeout a cancelled coroutine has an enabled internal transition *)
Theorem C09_park_cancelled_can_move :
  forall s, ReachF s -> cbit s = true -> in_park (up s) = true -> can_move s.
Proof. exact park_cancelled_can_move. Qed.
Print Assumptions C09_park_cancelled_can_move.

(* (i) next cancellable call: yield_with's short-cut - no suspension, the verdict Canceled is in the para slot *)
Theorem C09_park_cancelled_takes_shortcut :
  forall s s', up s = UYc -> canceled s = true -> stepF s AU = Some s' ->
  up s' = UYb /\ para s' = Some PCanceled /\ slot s' = slot s /\ running s' = running s.
Proof. exact park_cancelled_takes_shortcut. Qed.
Print Assumptions C09_park_cancelled_takes_shortcut.

(* PREMISE (see the header): no other coroutine is suspended inside an unwinding on the same OS thread *)
Theorem C09_park_cancelled_raises_panic :
  forall s s', up s = UCc -> canceled s = true -> stepF s AU = Some s' -> up s' = UDead.
Proof. exact park_cancelled_raises_panic. Qed.
Print Assumptions C09_park_cancelled_raises_panic.

(* (iii) park_timeout returns Canceled, or dies by the cancel panic, only with the cancel bit of the coroutine set *)
Theorem C09_park_canceled_only_if_cancelled :
  forall s s', ReachF s ->
  (park_returns s s' VCanceled \/ (stepF s AU = Some s' /\ up s <> UDead /\ up s' = UDead)) -> cbit s = true.
Proof. exact park_canceled_only_if_cancelled. Qed.
Print Assumptions C09_park_canceled_only_if_cancelled.

(* ... and the bit is set by Cancel::cancel only *)
Theorem C09_park_cancel_bit_set_only_by_cancel :
  forall s a s', ReachF s -> stepF s a = Some s' -> cbit s = false -> cbit s' = true -> exists i, a = ACnOr i.
Proof. exact cancel_bit_set_only_by_cancel. Qed.
Print Assumptions C09_park_cancel_bit_set_only_by_cancel.

(* the contract the upper layers (and the overlay) use: the abstract Blocker token resumes with Canceled only for a
   cancelled owner; Park refines that object (C02_park_refines_blocker), a fresh Blocker never resumes spuriously *)
Theorem C09_blocker_canceled_needs_cancel :
  forall now c b b', bstep now c b (BResume VCanceled) = Some b' -> c = true.
Proof. exact canceled_needs_cancel. Qed.
Print Assumptions C09_blocker_canceled_needs_cancel.

(* (ii) a cancel racing with an unpark and a timer resumes the coroutine once: it is in exactly one place *)
Theorem C09_park_single_resumption_under_cancel :
  forall s, ReachF s -> up s <> UDead ->
  (running s = true  /\ slot s = false /\ rq s = 0%nat /\ kholds (kp s) = false /\ holder s = HNone) \/
  (running s = false /\ slot s = true  /\ rq s = 0%nat /\ kholds (kp s) = false /\ holder s = HNone) \/
  (running s = false /\ slot s = false /\ rq s = 1%nat /\ kholds (kp s) = false /\ holder s = HNone) \/
  (running s = false /\ slot s = false /\ rq s = 0%nat /\ kholds (kp s) = true  /\ holder s = HNone) \/
  (running s = false /\ slot s = false /\ rq s = 0%nat /\ kholds (kp s) = false /\ held (holder s) = true).
Proof. exact cancel_race_single_resumption. Qed.
Print Assumptions C09_park_single_resumption_under_cancel.

(* finding F31 (repaired by /repo d874713): with the registration AFTER the publication (step true true false) a cancelled
   coroutine rests in the slot of a quiescent state - (i) is refuted on the model of the code before the repair *)
Theorem C09_prefix_cancel_lost_refuted :
  exists s, Reach true true false s /\ Quiescent s /\ slot s = true /\ cbit s = true /\ tainted s = true /\ ccheck s = true.
Proof. exact MayV.Rt.ParkRefute.cancel_lost_after_stale_set_co_without_fixF31. Qed.
Print Assumptions C09_prefix_cancel_lost_refuted.
End PARK.

(* ================================================================================================ every blocking call: para slot *)
Module LOCAL.
Import MayV.Rt.LocalModel MayV.Rt.LocalThm.
(* (iii) at the level of the generator's para slot, for park / park with timeout / ignore_cancel park / sleep / fast park /
   socket io / select send / spsc recv / wait_io and pooled generators (C15): a blocking call reports Canceled only to a
   coroutine that a cancel() was addressed to; the cancel bit is set only by a cancel() addressed to that coroutine *)
Theorem C09_blocking_call_reports_canceled_only_after_own_cancel :
  forall n s c, Reach (current n) s ->
  (verm s c = Some (Some ECanceled) -> 1 <= ncanm s c) /\
  (verm s c = Some (Some ETimeout) -> has_timer (vkindm s c) = true).
Proof. exact current_no_spurious_verdict. Qed.
Print Assumptions C09_blocking_call_reports_canceled_only_after_own_cancel.

Theorem C09_cancel_bit_only_from_own_cancel :
  forall cf s c, Reach cf s -> cbitm s c = true -> 1 <= ncanm s c.
Proof. exact cancel_bit_needs_cancel. Qed.
Print Assumptions C09_cancel_bit_only_from_own_cancel.
End LOCAL.

(* ================================================================================================ join *)
Module JOIN.
Import MayV.Rt.SchedModel MayV.Rt.SchedLive MayV.Rt.CancelThm.

(* (iv) *)
Theorem C09_join_of_cancel_unwound_is_cancel :
  forall w s d r, Reach w s -> outcome (co s d) = Some RCancel -> jret (co s d) = Some r -> r = RCancel.
Proof. exact J.join_of_cancel_unwound_is_cancel. Qed.
Print Assumptions C09_join_of_cancel_unwound_is_cancel.

Theorem C09_join_cancel_means_cancel_unwound :
  forall w s d, Reach w s -> jret (co s d) = Some RCancel ->
  outcome (co s d) = Some RCancel /\ cancelled (co s d) = true /\ bodycnt (co s d) = 1%nat /\ jstate (co s d) = false.
Proof. exact J.join_cancel_means_cancel_unwound. Qed.
Print Assumptions C09_join_cancel_means_cancel_unwound.

(* (iii) *)
Theorem C09_cancel_unwind_needs_cancel :
  forall s t s' c rest, step s (APanic t None) = Some s' -> stk s t = FRun c :: rest -> cancelled (co s c) = true.
Proof. exact J.cancel_unwind_needs_cancel. Qed.
Print Assumptions C09_cancel_unwind_needs_cancel.

(* without hanging: the wake-up of the joiner of a finished coroutine is under way, and in quiescence no thread joiner is
   parked on a finished coroutine (C01, restated: the panic path is the path of the cancel panic too) *)
Theorem C09_joiner_of_cancelled_is_woken :
  forall w s d a m b, Reach w s ->
  jcall (co s d) = Some (a, JW3 m b) \/ jcall (co s d) = Some (a, JW3p m b) -> jstate (co s d) = false -> wake_under_way s d b.
Proof. exact J.joiner_of_cancelled_is_woken. Qed.
Print Assumptions C09_joiner_of_cancelled_is_woken.

Theorem C09_no_thread_joiner_stranded :
  forall w s d t m b, Reach w s -> Quiescent s -> jcall (co s d) = Some (AT t, JW3p m b) -> jstate (co s d) = true.
Proof. exact no_thread_joiner_stranded. Qed.
Print Assumptions C09_no_thread_joiner_stranded.
End JOIN.

(* ================================================================================================ select / cqueue, scope *)
Module SELECT.
Import MayV.Rt.CqueueModel MayV.Rt.CqueueInv MayV.Rt.CqueueThm MayV.Rt.CancelCqueue.

Theorem C09_select_cancelled_poller_resumes :
  forall cf s, opc s = P5w -> cancel_due s = true -> exists s', step cf s OStep = Some s' /\ (opc s' = OUnw \/ opc s' = P1).
Proof. exact cancelled_poller_resumes. Qed.
Print Assumptions C09_select_cancelled_poller_resumes.

Theorem C09_select_cancelled_poller_does_not_park :
  forall cf s s', opc s = P5 -> tok s (ob s) = false -> cancel_due s = true -> step cf s OStep = Some s' -> opc s' <> P5w.
Proof. exact cancelled_poller_does_not_park. Qed.
Print Assumptions C09_select_cancelled_poller_does_not_park.

Theorem C09_select_owner_cancel_unwind_needs_cancel :
  forall cf s s', step cf s OCancelled = Some s' -> oco s = true /\ ocbit s = true /\ odis s = 0.
Proof. exact owner_cancel_unwind_needs_cancel. Qed.
Print Assumptions C09_select_owner_cancel_unwind_needs_cancel.

(* (ii) when select! / cqueue::scope unwinds (cancelled owner included) nobody is inside the cqueue any more and every
   event was consumed exactly once; the final drain and join run with the cancel disabled (F9).
   PREMISE (see the header): the model's select coroutines end at their next cancellation point once cancelled; on the real
   code that needs "no other coroutine suspended inside an unwinding on the same thread" - the owner itself is such a
   coroutine while it waits in Cqueue::finish: known finding F33e *)
Theorem C09_select_left_all_gone :
  forall s, Reach current s -> oleft s = true ->
    all_gone s /\ evq s = [] /\
    (forall a, a < nexta s -> dpush s a = 1 /\ dpop s a = 1 /\ bots s a = sent s a) /\
    (forall e, e < nexte s -> epush s e = 1 /\ epop s e = 1).
Proof. exact scope_left_all_gone. Qed.
Print Assumptions C09_select_left_all_gone.

Theorem C09_select_drain_and_join_not_cancellable :
  forall s, Reach current s -> oco s = true -> ((ofin s <> 0 /\ inpoll (opc s) = true) \/ opc s = CJ) -> cancel_due s = false.
Proof. exact drain_and_join_not_cancellable. Qed.
Print Assumptions C09_select_drain_and_join_not_cancellable.
End SELECT.

Module SCOPE.
Import MayV.Rt.ScopeModel MayV.Rt.ScopeSafe.
(* a cancelled scope owner does not leave the scope while a child runs (F2', C14 restated).  PREMISE as above for the
   children's own cancellation (they are not cancelled by the scope; only an explicit cancel of a child is concerned) *)
Theorem C09_scope_cancelled_owner_waits_for_children :
  forall s, Reach current s -> forall c, scope_left s c -> done s c.
Proof. exact scope_not_left_early. Qed.
Print Assumptions C09_scope_cancelled_owner_waits_for_children.
End SCOPE.

(* ================================================================================================ socket I/O (partial) *)
Module IO.
Import MayV.Io.IoModel MayV.Io.IoThm2 MayV.Io.IoRefute MayV.Io.CancelIo.

(* (iii) every variant, every interleaving *)
Theorem C09_io_canceled_needs_cancel :
  forall cap peer selof fixB fixD calm s ac s' a,
  step cap peer selof fixB fixD calm s ac = Some s' -> apc (A s a) <> Dead -> apc (A s' a) = Dead -> acanc (A s a) = true.
Proof. exact io_canceled_needs_cancel. Qed.
Print Assumptions C09_io_canceled_needs_cancel.

Theorem C09_io_cancel_panic_reports_canceled :
  forall cap peer selof fixB fixD calm s ac s' a,
  step cap peer selof fixB fixD calm s ac = Some s' -> apc (A s a) <> Dead -> apc (A s' a) = Dead -> alast (A s' a) = Some RCanceled.
Proof. exact io_cancel_panic_reports_canceled. Qed.
Print Assumptions C09_io_cancel_panic_reports_canceled.

Theorem C09_io_canceled_is_final :
  forall cap peer selof fixB fixD calm s ac s' a,
  step cap peer selof fixB fixD calm s ac = Some s' -> apc (A s a) = Dead -> apc (A s' a) = Dead.
Proof. exact dead_is_final. Qed.
Print Assumptions C09_io_canceled_is_final.

(* (i) is NOT proved for the I/O leg.  On IoModel with the unrestricted interleaving (calm = false) it is refuted: a
   cancelled, cancellable caller stays suspended in a quiescent state because a stale kernel half overwrote its cancel
   registration (C18; model only, not reproduced on the real code; with calm = true the schedule is blocked) *)
Theorem C09_io_cancel_lost_refuted :
  exists s, runp true true false w4 = Some s /\ Quiescent s /\ apc (A s 0) = Susp /\ acanc (A s 0) = true /\
            acn (A s 0) = true /\ co s 3 = Some 0.
Proof. exact cancel_lost_refuted. Qed.
Print Assumptions C09_io_cancel_lost_refuted.
End IO.

(* ================================================================================================ guards, poisoning *)
Module POISON.
Import MayV.Rt.PoisonModel MayV.Rt.PoisonThm.

(* a guard dropped while the unwinding in progress is a cancellation leaves the poison flag alone (code as it is: bce9086).
   PoisonModel: `panicking` is per task (PREMISE of the header; the per-thread counter is Rt/PoisonTls.v, findings F33a-c) *)
Theorem C09_cancel_unwind_never_poisons :
  forall isco ismutex s t g, Reach isco ismutex true s -> cause (T s t) = Some MCancel -> poisons isco true s t g = false.
Proof. exact now_cancel_unwind_never_poisons. Qed.
Print Assumptions C09_cancel_unwind_never_poisons.

(* a cancellation unwind exists only in a coroutine whose cancel bit is set and in which the cancel panic was raised *)
Theorem C09_cancel_unwinding_has_the_bit :
  forall isco ismutex fixd s t, Reach isco ismutex fixd s -> cause (T s t) = Some MCancel ->
  isco t = true /\ cancel_bit (T s t) = true /\ cunw (T s t) = true.
Proof. exact cancel_unwinding_has_the_bit. Qed.
Print Assumptions C09_cancel_unwinding_has_the_bit.

(* every guard drop releases its lock, whatever the poison decision ... *)
Theorem C09_guard_drop_always_releases :
  forall isco ismutex fixd s a t g s', drops s a t g -> step isco ismutex fixd s a = Some s' ->
  (forall g', In g' (held (T s' t)) -> gid g' <> gid g) /\
  (has_flag (gk g) = true -> wheld (L s' (glock g)) = None /\ readers (L s' (glock g)) = readers (L s (glock g))) /\
  (gk g = GR -> wheld (L s' (glock g)) = wheld (L s (glock g)) /\ readers (L s' (glock g)) = rm1 t (readers (L s (glock g)))) /\
  (forall t', t' <> t -> T s' t' = T s t') /\
  ctl (T s' t) = ctl (T s t) /\ cst (T s' t) = cst (T s t).
Proof. exact drop_releases. Qed.
Print Assumptions C09_guard_drop_always_releases.

(* ... and a task that has ended - by the cancel panic like by anything else - holds no lock *)
Theorem C09_ended_task_holds_no_lock :
  forall isco ismutex fixd s t, Reach isco ismutex fixd s -> fin (T s t) <> None ->
  held (T s t) = [] /\ forall l, wheld (L s l) <> Some t /\ ~ In t (readers (L s l)).
Proof. exact ended_task_holds_nothing. Qed.
Print Assumptions C09_ended_task_holds_no_lock.
End POISON.

(* ================================================================================================ non-vacuity *)
(* join: coroutine 1 is spawned, runs, blocks in a slot; thread 0 cancels it: the canceller moves it to a run queue, the body
   unwinds by the cancel panic; join() finds the packet and the panic slot empty: Err(Cancel) *)
Example C09_ex_join_of_cancelled_returns_cancel :
  let s := MayV.Rt.SchedRuns.after 2 MayV.Rt.SchedRuns.runC in
  MayV.Rt.SchedModel.Reach 2 s /\ MayV.Rt.SchedModel.bodycnt (MayV.Rt.SchedModel.co s 1) = 1%nat /\
  MayV.Rt.SchedModel.outcome (MayV.Rt.SchedModel.co s 1) = Some MayV.Rt.SchedModel.RCancel /\
  MayV.Rt.SchedModel.jret (MayV.Rt.SchedModel.co s 1) = Some MayV.Rt.SchedModel.RCancel /\
  MayV.Rt.SchedModel.cancelled (MayV.Rt.SchedModel.co s 1) = true /\ In 1%nat (MayV.Rt.SchedModel.dead s).
Proof. exact MayV.Rt.SchedRuns.runC_final. Qed.

(* scope: a cancelled owner with two children waits for both and ends as cancelled *)
Example C09_ex_scope_cancelled_owner_waits :
  match MayV.Rt.ScopeModel.run MayV.Rt.ScopeModel.current MayV.Rt.ScopeModel.init MayV.Rt.ScopeRefute.cur_schedule with
  | Some s => (MayV.Rt.ScopeModel.cleftm s 1, MayV.Rt.ScopeModel.jstm s 1, MayV.Rt.ScopeModel.cleftm s 2, MayV.Rt.ScopeModel.jstm s 2,
               MayV.Rt.ScopeModel.outm s 0, MayV.Rt.ScopeModel.pcm s 0) =
              (true, false, true, false, MayV.Rt.ScopeModel.OCancel, MayV.Rt.ScopeModel.PDone)
  | None => False end.
Proof. exact MayV.Rt.ScopeRefute.current_cancelled_owner_waits. Qed.
