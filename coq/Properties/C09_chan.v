(* C09 (continued) - RwLock, mpsc and mpmc receive, through the cancel-bit overlay.  See Properties/C09.v for the overview. *)
From Coq Require Import List Arith ZArith Bool.
Import ListNotations.
Require MayV.Base.CancelOverlay.
Require MayV.Sync.RwLockModel MayV.Sync.RwLockThm MayV.Sync.CancelRwLock.
Require MayV.Sync.ChanMpscModel MayV.Sync.CancelChanMpsc MayV.Sync.ChanMpmcModel MayV.Sync.CancelChanMpmc.
Module OV := MayV.Base.CancelOverlay.

(* ================================================================================================ RwLock *)
Module RWLOCK.
Import MayV.Base.CancelOverlay MayV.Sync.RwLockModel MayV.Sync.RwLockThm MayV.Sync.CancelRwLock.

Theorem C09_rwlock_overlay_projects : forall p os, ROReach p os -> Reach p (base os).
Proof. exact roreach_reach. Qed.
Print Assumptions C09_rwlock_overlay_projects.
Theorem C09_rwlock_overlay_loses_nothing : forall p s, Reach p s -> exists c l, ROReach p {| base := s; cbit := c; clog := l |}.
Proof. exact reach_roreach. Qed.
Print Assumptions C09_rwlock_overlay_loses_nothing.

(* (iii) *)
Theorem C09_rwlock_abort_needs_bit :
  forall p os a k os', ROReach p os -> rostep os (OAct (Abort a) k) = Some os' ->
  cbit os a = true /\ In a (clog os) /\
  ((apc (A (base os) a) = PK /\ apc (A (base os') a) = C1) \/
   (apc (A (base os) a) = RL /\ aop (A (base os) a) = ORead /\ apc (A (base os') a) = Exit)).
Proof. exact abort_needs_bit. Qed.
Print Assumptions C09_rwlock_abort_needs_bit.

Theorem C09_rwlock_canceled_branch_entered_only_by_abort :
  forall s ac s' a, step s ac = Some s' -> apc (A s a) <> C1 -> apc (A s' a) = C1 -> ac = Abort a.
Proof. exact canceled_branch_entered_only_by_abort. Qed.
Print Assumptions C09_rwlock_canceled_branch_entered_only_by_abort.

(* (i) *)
Theorem C09_rwlock_cancelled_not_parked :
  forall os a, OQuiescent os -> cbit os a = true ->
  apc (A (base os) a) <> PK /\ ~ (apc (A (base os) a) = RL /\ aop (A (base os) a) = ORead).
Proof. exact cancelled_not_parked. Qed.
Print Assumptions C09_rwlock_cancelled_not_parked.

(* (ii) *)
Theorem C09_rwlock_cancelled_waiter_with_handoff_unlocks :
  forall s a s', apc (A s a) = C1 -> unp (Bk s (ab (A s a))) = true -> step s (Step a) = Some s' ->
  apc (A s' a) = U0 /\ actx (A s' a) = RExit /\ afor (A s' a) = Some a /\ holder s' = HA a.
Proof. exact cancelled_waiter_with_handoff_unlocks. Qed.
Print Assumptions C09_rwlock_cancelled_waiter_with_handoff_unlocks.

Theorem C09_rwlock_cancelled_waiter_takes_release_unlocks :
  forall s a s', apc (A s a) = C4 -> rel (Bk s (ab (A s a))) = true -> step s (Step a) = Some s' ->
  apc (A s' a) = U0 /\ actx (A s' a) = RExit /\ afor (A s' a) = Some a /\ holder s' = HA a /\ rel (Bk s' (ab (A s a))) = false.
Proof. exact cancelled_waiter_takes_release_unlocks. Qed.
Print Assumptions C09_rwlock_cancelled_waiter_takes_release_unlocks.

Theorem C09_rwlock_unparker_unlocks_for_departed_waiter :
  forall s a s', apc (A s a) = H4 -> rel (Bk s (aw (A s a))) = true -> step s (Step a) = Some s' ->
  apc (A s' a) = U0 /\ afor (A s' a) = Some (owner (Bk s (aw (A s a)))) /\ holder s' = HA a /\ rel (Bk s' (aw (A s a))) = false.
Proof. exact unparker_unlocks_for_departed_waiter. Qed.
Print Assumptions C09_rwlock_unparker_unlocks_for_departed_waiter.

(* once everybody is at rest - returned and dropped, or gone by the cancel panic - the lock is free and usable, and in
   quiescence nobody is stranded, whatever was cancelled and when *)
Theorem C09_rwlock_free_and_usable_after_cancel :
  forall p os, ROReach p os -> ovf (base os) = false ->
  let s := base os in
  ((forall a, at_rest (apc (A s a)) = true) ->
     cnt s = 0 /\ r s = 0%Z /\ rl s = None /\ q s = [] /\ holder s = HNone /\ rdl s = [] /\ ent s = []) /\
  (forall a, (forall x, at_rest (apc (A s x)) = true) -> apc (A s a) = Idle ->
     exists s', run s [Call a OTryWrite; Step a; Step a; Step a] = Some s' /\ apc (A s' a) = HoldW) /\
  (Stable s -> (forall a, apc (A s a) <> HoldW) -> (forall a, apc (A s a) <> HoldR) -> forall a, at_rest (apc (A s a)) = true).
Proof.
  exact (fun p os R N => conj (lock_free_when_all_at_rest p os R N)
                        (conj (lock_usable_when_all_at_rest p os R N) (nobody_stranded_after_cancel p os R N))).
Qed.
Print Assumptions C09_rwlock_free_and_usable_after_cancel.
End RWLOCK.

(* ================================================================================================ mpsc receive *)
Module MPSC.
Import MayV.Base.CancelOverlay MayV.Sync.ChanMpscModel MayV.Sync.CancelChanMpsc.

Theorem C09_mpsc_overlay_projects : forall os, COReach os -> Reach (base os).
Proof. exact coreach_reach. Qed.
Print Assumptions C09_mpsc_overlay_projects.
Theorem C09_mpsc_overlay_loses_nothing : forall s, Reach s -> exists c l, COReach {| base := s; cbit := c; clog := l |}.
Proof. exact reach_coreach. Qed.
Print Assumptions C09_mpsc_overlay_loses_nothing.

(* (iii) the delivery by the overlay's guard; the Canceled RESULT of the call as an invariant of the overlay *)
Theorem C09_mpsc_fire_rc_needs_bit :
  forall os k os', COReach os -> costep os (OAct (Fire RC) k) = Some os' ->
  cbit os rcv_actor = true /\ In rcv_actor (clog os) /\ rp (R (base os)) = RWait /\ rco (R (base os)) = true.
Proof. exact fire_rc_needs_bit. Qed.
Print Assumptions C09_mpsc_fire_rc_needs_bit.

Theorem C09_mpsc_canceled_result_needs_bit :
  forall os, COReach os -> rres (R (base os)) = RCancel -> cbit os rcv_actor = true /\ In rcv_actor (clog os).
Proof. exact canceled_result_needs_bit. Qed.
Print Assumptions C09_mpsc_canceled_result_needs_bit.

(* (i) *)
Theorem C09_mpsc_cancelled_receiver_not_parked :
  forall os, OQuiescent os -> cbit os rcv_actor = true -> rco (R (base os)) = true -> rp (R (base os)) <> RWait.
Proof. exact cancelled_receiver_not_parked. Qed.
Print Assumptions C09_mpsc_cancelled_receiver_not_parked.

(* (ii) *)
Theorem C09_mpsc_cancel_leaves_queue_untouched :
  forall s s1 s2, step s (Fire RC) = Some s1 -> step s1 RStep = Some s2 -> reason (Bk s1 (rb (R s1))) = Some RC ->
  q s2 = q s /\ rcvd s2 = rcvd s /\ drpd s2 = drpd s /\ sent s2 = sent s /\ chans s2 = chans s /\
  rp (R s2) = RIdle /\ rres (R s2) = RCancel /\ ralive (R s2) = ralive (R s).
Proof. exact cancel_leaves_queue_untouched. Qed.
Print Assumptions C09_mpsc_cancel_leaves_queue_untouched.

Theorem C09_mpsc_channel_intact_after_cancel :
  forall os, COReach os -> let s := base os in sent s = rcvd s ++ drpd s ++ q s /\ NoDup (sent s).
Proof. exact channel_intact_after_cancel. Qed.
Print Assumptions C09_mpsc_channel_intact_after_cancel.
End MPSC.

(* ================================================================================================ mpmc receive *)
Module MPMC.
Import MayV.Base.CancelOverlay MayV.Sync.ChanMpmcModel MayV.Sync.CancelChanMpmc.

Theorem C09_mpmc_overlay_projects : forall c os, MOReach c os -> Reach true true c (base os).
Proof. exact moreach_reach. Qed.
Print Assumptions C09_mpmc_overlay_projects.
Theorem C09_mpmc_overlay_loses_nothing :
  forall c s, Reach true true c s -> exists b l, MOReach c {| base := s; cbit := b; clog := l |}.
Proof. exact reach_moreach. Qed.
Print Assumptions C09_mpmc_overlay_loses_nothing.

(* the delivery of a cancellation to a blocked mpmc receiver is the model's give-up action [Fire r true] (any blocked
   waiter, timed or not, granted or not) *)
Theorem C09_mpmc_fire_as_cancel_needs_bit :
  forall c os r os', MOReach c os -> mostep c os (OAct (Fire r true) true) = Some os' ->
  cbit os r = true /\ In r (clog os) /\ rp (Rv (base os) r) = WB.
Proof. exact fire_as_cancel_needs_bit. Qed.
Print Assumptions C09_mpmc_fire_as_cancel_needs_bit.

Theorem C09_mpmc_cancelled_receiver_not_blocked :
  forall c os r, OQuiescent c os -> cbit os r = true -> rp (Rv (base os) r) <> WB.
Proof. exact cancelled_receiver_not_blocked. Qed.
Print Assumptions C09_mpmc_cancelled_receiver_not_blocked.

(* a waiter that gives up before a permit was handed to it takes nothing; one that had been handed the permit posts it
   back (C06_mpmc_giveup_passes_the_permit_on) *)
Theorem C09_mpmc_giving_up_takes_nothing :
  forall c s r c0 s', step true true c s (Fire r c0) = Some s' -> rgr (Rv s r) = false ->
  q s' = q s /\ sv s' = sv s /\ wq s' = rm r (wq s) /\ hold s' = hold s /\ rlog s' = rlog s /\ sent s' = sent s /\
  txp s' = txp s /\ rxp s' = rxp s /\ rp (Rv s' r) = YIdle.
Proof. exact giving_up_takes_nothing. Qed.
Print Assumptions C09_mpmc_giving_up_takes_nothing.

Theorem C09_mpmc_channel_intact_after_cancel :
  forall c os, MOReach c os ->
  let s := base os in
  sent s = map snd (rlog s) ++ drpd s ++ q s /\ NoDup (sent s) /\
  (sv s <> 0 -> wq s = []) /\ (forall r, In r (wq s) <-> rp (Rv s r) = WB /\ rgr (Rv s r) = false).
Proof. exact channel_intact_after_cancel. Qed.
Print Assumptions C09_mpmc_channel_intact_after_cancel.
End MPMC.

(* ================================================================================================ non-vacuity *)
(* the lock handed to a writer that is being cancelled; a send racing with the cancel of a parked mpsc / a blocked mpmc receiver *)
Example C09_ex_rwlock_handoff_to_cancelled_writer :
  exists os, OV.orun _ _ MayV.Sync.RwLockModel.step MayV.Sync.CancelRwLock.rw_hits MayV.Sync.CancelRwLock.all_co
                    (OV.oinit _ (MayV.Sync.RwLockModel.init false)) MayV.Sync.CancelRwLock.osch = Some os /\
    MayV.Sync.CancelRwLock.ROReach false os /\ OV.cbit os 0 = true /\
    MayV.Sync.RwLockModel.apc (MayV.Sync.RwLockModel.A (OV.base os) 0) = MayV.Sync.RwLockModel.C1 /\
    MayV.Sync.RwLockModel.unp (MayV.Sync.RwLockModel.Bk (OV.base os) (MayV.Sync.RwLockModel.ab (MayV.Sync.RwLockModel.A (OV.base os) 0))) = true /\
    MayV.Sync.RwLockModel.holder (OV.base os) = MayV.Sync.RwLockModel.HB 1 /\
    exists os', OV.orun _ _ MayV.Sync.RwLockModel.step MayV.Sync.CancelRwLock.rw_hits MayV.Sync.CancelRwLock.all_co os
                  (map (fun a => OV.OAct a false) [MayV.Sync.RwLockModel.Step 1; MayV.Sync.RwLockModel.Step 1; MayV.Sync.RwLockModel.Step 0; MayV.Sync.RwLockModel.Step 0]) = Some os' /\
                MayV.Sync.RwLockModel.apc (MayV.Sync.RwLockModel.A (OV.base os') 0) = MayV.Sync.RwLockModel.Exit /\
                MayV.Sync.RwLockModel.apc (MayV.Sync.RwLockModel.A (OV.base os') 1) = MayV.Sync.RwLockModel.Idle /\
                MayV.Sync.RwLockModel.cnt (OV.base os') = 0 /\ MayV.Sync.RwLockModel.holder (OV.base os') = MayV.Sync.RwLockModel.HNone.
Proof. exact MayV.Sync.CancelRwLock.handoff_to_cancelled_writer_somewhere. Qed.

Example C09_ex_mpsc_cancelled_receiver_with_pending_message :
  exists os, OV.orun _ _ MayV.Sync.ChanMpscModel.step MayV.Sync.CancelChanMpsc.ch_hits MayV.Sync.CancelChanMpsc.all_co
                    (OV.oinit _ MayV.Sync.ChanMpscModel.init) MayV.Sync.CancelChanMpsc.osch = Some os /\
    MayV.Sync.CancelChanMpsc.COReach os /\
    MayV.Sync.ChanMpscModel.rres (MayV.Sync.ChanMpscModel.R (OV.base os)) = MayV.Sync.ChanMpscModel.RCancel /\
    MayV.Sync.ChanMpscModel.rp (MayV.Sync.ChanMpscModel.R (OV.base os)) = MayV.Sync.ChanMpscModel.RIdle /\
    MayV.Sync.ChanMpscModel.q (OV.base os) = [(0, 0)] /\ MayV.Sync.ChanMpscModel.rcvd (OV.base os) = [] /\
    exists os', OV.orun _ _ MayV.Sync.ChanMpscModel.step MayV.Sync.CancelChanMpsc.ch_hits MayV.Sync.CancelChanMpsc.all_co os
                  (map (fun a => OV.OAct a false) [MayV.Sync.ChanMpscModel.TryRecv; MayV.Sync.ChanMpscModel.RStep]) = Some os' /\
                MayV.Sync.ChanMpscModel.rres (MayV.Sync.ChanMpscModel.R (OV.base os')) = MayV.Sync.ChanMpscModel.ROk (0, 0) /\
                MayV.Sync.ChanMpscModel.rcvd (OV.base os') = [(0, 0)] /\ MayV.Sync.ChanMpscModel.q (OV.base os') = [].
Proof. exact MayV.Sync.CancelChanMpsc.cancelled_receiver_with_pending_message. Qed.

Example C09_ex_mpmc_cancelled_receiver_with_pending_message :
  exists os, OV.orun _ _ (MayV.Sync.ChanMpmcModel.step true true true) MayV.Sync.CancelChanMpmc.mp_hits MayV.Sync.CancelChanMpmc.all_co
                    (OV.oinit _ MayV.Sync.ChanMpmcModel.init) MayV.Sync.CancelChanMpmc.osch = Some os /\
    MayV.Sync.CancelChanMpmc.MOReach true os /\
    MayV.Sync.ChanMpmcModel.rp (MayV.Sync.ChanMpmcModel.Rv (OV.base os) 0) = MayV.Sync.ChanMpmcModel.YIdle /\
    MayV.Sync.ChanMpmcModel.rres (MayV.Sync.ChanMpmcModel.Rv (OV.base os) 0) = MayV.Sync.ChanMpmcModel.RCancel /\
    MayV.Sync.ChanMpmcModel.q (OV.base os) = [(0, 0)] /\ MayV.Sync.ChanMpmcModel.sv (OV.base os) = 1 /\
    MayV.Sync.ChanMpmcModel.wq (OV.base os) = [] /\
    exists os', OV.orun _ _ (MayV.Sync.ChanMpmcModel.step true true true) MayV.Sync.CancelChanMpmc.mp_hits MayV.Sync.CancelChanMpmc.all_co os
                  (map (fun a => OV.OAct a false) [MayV.Sync.ChanMpmcModel.TryRecv 0; MayV.Sync.ChanMpmcModel.RStep 0;
                                                   MayV.Sync.ChanMpmcModel.RStep 0; MayV.Sync.ChanMpmcModel.RStep 0]) = Some os' /\
                MayV.Sync.ChanMpmcModel.rres (MayV.Sync.ChanMpmcModel.Rv (OV.base os') 0) = MayV.Sync.ChanMpmcModel.ROk (0, 0) /\
                MayV.Sync.ChanMpmcModel.q (OV.base os') = [] /\ MayV.Sync.ChanMpmcModel.sv (OV.base os') = 0.
Proof. exact MayV.Sync.CancelChanMpmc.cancelled_receiver_with_pending_message. Qed.
