(* C09 - which registration does a cancel find, across several blocking calls of the target.
   Property theorems only (model: Rt/CancelReg.v: the registrations `io` / `co` of a coroutine's Cancel over a
   program of blocking calls, every call's subscriber running on a worker after the coroutine has yielded; cancel()
   as one step).  Two refutations (known finding F38, replayed on the real runtime by harness/src/bin/s_stalereg.rs)
   and the statement that does hold. *)
From Coq Require Import List Arith Bool Lia.
Import ListNotations.
Require Import MayV.Rt.CancelReg MayV.Rt.CancelRegThm.

(* "after cancel() the target stops at its current or next cancellable blocking call" fails when the tail of an io
   subscriber registers its EventData after the coroutine has moved on (the subscriber publishes the coroutine before
   it registers): (a) another coroutine blocks on that socket, the cancel wakes IT, reports success, and the target
   stays parked with its Park registered *)
Theorem C09_cancel_lost_to_foreign_coroutine_refuted :
  exists s, Reach [CIo 0; CPark] s /\ Lost s /\ pslot s = true /\ coreg s = true /\ urun s = true.
Proof. exact stale_foreign. Qed.
Print Assumptions C09_cancel_lost_to_foreign_coroutine_refuted.

(* (b) the target blocks in an io call on a second socket; the late registration replaces the one of that call *)
Theorem C09_cancel_lost_to_replaced_registration_refuted :
  exists s, Reach [CIo 0; CIo 1] s /\ Lost s /\ sco s 1 = Some WT /\ ioreg s = None.
Proof. exact stale_replaces. Qed.
Print Assumptions C09_cancel_lost_to_replaced_registration_refuted.

(* what holds, for every program of calls, any behaviour of the other coroutine and any timing of the cancel: if the
   event that resumes the target is delivered only after the subscriber of that call has finished (no tail outlives
   its call), the cancel is never lost: once everything has settled the target is not suspended.  _partial: the
   restriction on the interleaving is exactly what F38 violates; cancel() is one step in the model *)
Theorem C09_cancel_reaches_target_partial :
  forall p s, ReachCalm p s -> ~ Lost s.
Proof. exact cancel_reaches_target_calm. Qed.
Print Assumptions C09_cancel_reaches_target_partial.

(* the restricted runs are runs of the model *)
Theorem C09_calm_runs_are_runs : forall p s, ReachCalm p s -> Reach p s.
Proof. exact calm_is_reach. Qed.
Print Assumptions C09_calm_runs_are_runs.

(* non-vacuity: a calm run in which the target is suspended with its registration in place, and one in which the
   cancel arrives there and ends it *)
Example C09_reg_calm_nonvacuous :
  exists s, ReachCalm [CIo 0; CPark] s /\ tst s = TSusp /\ subs s = [] /\ ioreg s = Some 0 /\ sco s 0 = Some WT.
Proof.
  eexists. split.
  - eapply (rc_step _ _ (Sub 0)); [eapply (rc_step _ _ (Sub 0)); [eapply (rc_step _ _ (Sub 0)); [eapply (rc_step _ _ TCall);
      [apply rc_init | exact I | reflexivity] | exact I | reflexivity] | exact I | reflexivity] | exact I | reflexivity].
  - vm_compute. repeat split.
Qed.
Print Assumptions C09_reg_calm_nonvacuous.
