(* C12 - RwLock (stub while the proofs are being written) *)
From Coq Require Import List ZArith.
Import ListNotations.
Require Import MayV.Sync.RwLockModel MayV.Sync.RwLockAccept.

Theorem C12_accepted_traces_are_model_runs :
  forall p tr t t', Reach p (ms t) -> accept_all t tr = Some t' -> Reach p (ms t').
Proof. exact accept_all_reach. Qed.
Print Assumptions C12_accepted_traces_are_model_runs.
