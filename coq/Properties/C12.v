(* C12 - may::sync::RwLock: writers are exclusive, also when the lock is poisoned and guards are taken out
   of PoisonError; every guard releases exactly what it acquired, so that the lock is free again once all
   guards are dropped; blocked readers and writers are not stranded.

   Property theorems only: each is closed by `exact` of a lemma proved under Sync/RwLock*.v and followed by
   Print Assumptions.  Model: Sync/RwLockModel.v (the code as it is now: after F4, F5, F11, F13).
   All theorems are for every reachable state `s` of the model started clean (p = false) or poisoned
   (p = true), any number of actors, any schedule, under the one premise `ovf s = false`: the 64-bit
   reader count never wrapped, i.e. there were never 2^64 read guards at the same time. *)
From Coq Require Import List ZArith.
Import ListNotations.
Require Import MayV.Sync.RwLockModel MayV.Sync.RwLockInv MayV.Sync.RwLockThm MayV.Sync.RwLockPop MayV.Sync.RwLockAccept MayV.Sync.RwLockExamples.
Require MayV.Sync.RwLockPreFix.

(* (i) At most one actor owns write access (write guard under construction, held, or being dropped by a
   panicking holder - Ok(guard) and Poisoned(guard) alike), in clean and in poisoned state. *)
Theorem C12_i_writers_exclusive :
  forall p s, Reach p s -> ovf s = false ->
  forall a a', wown (apc (A s a)) = true -> wown (apc (A s a')) = true -> a = a'.
Proof. exact writers_exclusive. Qed.
Print Assumptions C12_i_writers_exclusive.

(* (i) Never a writer together with a counted reader (read guard built and not yet uncounted). *)
Theorem C12_i_writer_excludes_readers :
  forall p s, Reach p s -> ovf s = false ->
  forall a a', wown (apc (A s a)) = true -> rguard (apc (A s a')) = true -> False.
Proof. exact writer_excludes_readers. Qed.
Print Assumptions C12_i_writer_excludes_readers.

(* (ii) The reader count is exactly the number of actors that own a read guard. *)
Theorem C12_ii_reader_count_exact :
  forall p s, Reach p s -> ovf s = false ->
  r s = Z.of_nat (length (rdl s)) /\ NoDup (rdl s) /\ forall a, In a (rdl s) <-> rguard (apc (A s a)) = true.
Proof. exact reader_count_exact. Qed.
Print Assumptions C12_ii_reader_count_exact.

(* (ii) No read guard drop underflows the count: `*r -= 1` runs at r >= 1 (no wrap, no debug panic). *)
Theorem C12_ii_no_underflow :
  forall p s, Reach p s -> ovf s = false ->
  forall a, apc (A s a) = DR0 -> (1 <= r s)%Z /\ Z.modulo (r s - 1) Wd = (r s - 1)%Z.
Proof. exact no_underflow. Qed.
Print Assumptions C12_ii_no_underflow.

(* (ii) The global counter counts exactly the registered entries (owner / reader group / waiters). *)
Theorem C12_ii_cnt_counts_entries :
  forall p s, Reach p s -> ovf s = false -> cnt s = length (ent s) /\ NoDup (ent s).
Proof. exact cnt_counts_entries. Qed.
Print Assumptions C12_ii_cnt_counts_entries.

(* (ii) When every call has returned and every guard has been dropped, everything acquired has been
   released: cnt = 0, readers = 0, rlock free, no waiter registered. *)
Theorem C12_ii_all_dropped_lock_free :
  forall p s, Reach p s -> ovf s = false ->
  (forall a, at_rest (apc (A s a)) = true) ->
  cnt s = 0 /\ r s = 0%Z /\ rl s = None /\ q s = [] /\ holder s = HNone /\ rdl s = [] /\ ent s = [].
Proof. exact all_dropped_lock_free. Qed.
Print Assumptions C12_ii_all_dropped_lock_free.

(* (ii) ... so a try_write then succeeds (load 0, CAS ok, guard). *)
Theorem C12_ii_try_write_succeeds_when_all_dropped :
  forall p s, Reach p s -> ovf s = false ->
  forall a, (forall x, at_rest (apc (A s x)) = true) -> apc (A s a) = Idle ->
  exists s', run s [Call a OTryWrite; Step a; Step a; Step a] = Some s' /\ apc (A s' a) = HoldW.
Proof. exact try_write_succeeds_when_all_dropped. Qed.
Print Assumptions C12_ii_try_write_succeeds_when_all_dropped.

(* (iii) The waiter queue is never empty when lock() / unlock() pop it: the `expect("got null blocker!")`
   cannot fire - the hand-over chain never breaks, and no panic can happen while the rlock guard is
   held (which is why rlock is never poisoned and read()'s `.expect("rwlock read")` cannot fire either). *)
Theorem C12_iii_pop_never_empty :
  forall p s a, Reach p s -> ovf s = false -> apc (A s a) = H1 -> q s <> [].
Proof. exact pop_never_empty. Qed.
Print Assumptions C12_iii_pop_never_empty.

(* (iii) No stranded reader / writer, quiescence form (DESIGN 2.2): if no actor can take a step and no
   guard is outstanding, then nobody is parked in lock(), nobody waits for rlock, no guard drop is stuck:
   every actor is at rest (and by (ii) the lock is free).  With a fair scheduler (every enabled step is
   eventually taken; assumed as in C01) this is "blocked readers and writers all eventually get the lock";
   the termination measure of the hand-over chain is not part of this theorem. *)
Theorem C12_iii_no_stranded_quiescent :
  forall p s, Reach p s -> ovf s = false ->
  Stable s -> (forall a, apc (A s a) <> HoldW) -> (forall a, apc (A s a) <> HoldR) ->
  forall a, at_rest (apc (A s a)) = true.
Proof. exact no_stranded. Qed.
Print Assumptions C12_iii_no_stranded_quiescent.

(* Tie: every state along a trace of the real RwLock that the acceptor accepts is reachable, hence
   satisfies the theorems above. *)
Theorem C12_accepted_traces_are_model_runs :
  forall p tr t t', Reach p (ms t) -> accept_all t tr = Some t' -> Reach p (ms t').
Proof. exact accept_all_reach. Qed.
Print Assumptions C12_accepted_traces_are_model_runs.

(* ---- documented witnesses about the code BEFORE the repairs (Sync/RwLockPreFix.v): the statements
   above are refuted on the faithful models of the old code, so they are not vacuous ---- *)

(* pre-F5: two write() callers both own a guard on a poisoned lock (9 actions) *)
Theorem C12_prefix_writer_exclusion_refuted :
  exists s, RwLockPreFix.Reach true s /\ RwLockPreFix.P s 1%nat = RwLockPreFix.HoldW /\ RwLockPreFix.P s 2%nat = RwLockPreFix.HoldW.
Proof. exact RwLockPreFix.writer_exclusion_refuted. Qed.
Print Assumptions C12_prefix_writer_exclusion_refuted.

(* pre-F4: all guards dropped, every call returned, and cnt = 1, readers = 2^64 - 1 (10 actions) *)
Theorem C12_prefix_guards_release_what_they_took_refuted :
  exists s, RwLockPreFix.Reach true s /\ (forall a, RwLockPreFix.P s a = RwLockPreFix.Idle) /\
            RwLockPreFix.cnt s = 1%Z /\ RwLockPreFix.r s = (RwLockPreFix.W - 1)%Z.
Proof. exact RwLockPreFix.guards_release_what_they_took_refuted. Qed.
Print Assumptions C12_prefix_guards_release_what_they_took_refuted.

(* pre-F11: a cancelled coroutine leaves its read guard drop by the cancel panic; no guard is left and
   the lock stays taken: cnt = 1, readers = 1 (13 actions) *)
Theorem C12_prefix_cancelled_drop_leaks_the_lock_refuted :
  exists s, RwLockPreFix.Reach false s /\ RwLockPreFix.P s 1%nat = RwLockPreFix.Cancelled /\
            (forall a, a <> 1%nat -> RwLockPreFix.P s a = RwLockPreFix.Idle) /\
            RwLockPreFix.cnt s = 1%Z /\ RwLockPreFix.r s = 1%Z /\ RwLockPreFix.rl s = None.
Proof. exact RwLockPreFix.cancelled_drop_leaks_the_lock_refuted. Qed.
Print Assumptions C12_prefix_cancelled_drop_leaks_the_lock_refuted.

(* ---- non-vacuity: concrete reachable states that satisfy the hypotheses ---- *)

(* a poisoned lock held by a writer that took its guard after the poisoning, a writer and a reader parked *)
Example C12_ex_poisoned_writer_with_waiters :
  exists s, Reach false s /\ ovf s = false /\ pois s = true /\
            apc (A s 1) = Idle /\ apc (A s 2) = HoldW /\ apc (A s 3) = PK /\ apc (A s 4) = PK /\
            cnt s = 3 /\ rl s = Some 4 /\ length (q s) = 2.
Proof. exact ex_poisoned. Qed.

(* two read guards on the poisoned lock (one from read() through a hand-off, one from try_read), a writer parked *)
Example C12_ex_two_readers_one_parked_writer :
  exists s, Reach false s /\ ovf s = false /\ pois s = true /\
            apc (A s 4) = HoldR /\ apc (A s 5) = HoldR /\ apc (A s 6) = PK /\ r s = 2%Z /\ cnt s = 2 /\ holder s = HG.
Proof. exact ex_readers. Qed.

(* after panics, hand-offs, a cancelled waiter and all drops: everybody at rest (hypothesis of (ii)) *)
Example C12_ex_all_at_rest_after_history :
  exists s, Reach false s /\ ovf s = false /\ (forall a, at_rest (apc (A s a)) = true) /\
            apc (A s 7) = Exit /\ apc (A s 6) = Idle /\ nextb s = 5.
Proof. exact ex_rest. Qed.

(* the hypotheses of (iii) are satisfiable *)
Example C12_ex_stable_state :
  exists s, Reach false s /\ ovf s = false /\ Stable s /\
            (forall a, apc (A s a) <> HoldW) /\ (forall a, apc (A s a) <> HoldR) /\ (forall a, apc (A s a) <> H1).
Proof. exact ex_rest_stable. Qed.

(* a read guard drop in progress: hypothesis of C12_ii_no_underflow *)
Example C12_ex_read_guard_drop_in_progress :
  exists s, Reach false s /\ ovf s = false /\ apc (A s 4) = DR0 /\ r s = 2%Z.
Proof. exact ex_dropping. Qed.
