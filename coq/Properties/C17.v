(* C17 - network I/O preserves the byte stream and never misses a readiness edge.
   Property theorems only (model: Io/IoModel.v, kernel object K1-K4 as stated there).
   The theorems hold for every capacity, every pairing of descriptors (an involution), every assignment of
   descriptors to selectors, for the code with and without the two repairs of the timeout path, and for the
   unrestricted interleaving (calm = false) as well as the restricted one. *)
From Coq Require Import List Arith Bool Lia.
Import ListNotations.
Require Import MayV.Io.IoModel MayV.Io.IoInv MayV.Io.IoPres MayV.Io.IoThm.

Section C17.
Variable cap : nat.
Variable peer selof : nat -> nat.
Variable fixB fixD calm : bool.
Hypothesis peer_inv : forall f, peer (peer f) = f.
Notation Reach := (Reach cap peer selof fixB fixD calm).

(* (i) what the readers of a connection have received so far, followed by what the kernel still holds, is exactly what
   the writers' calls reported as written - complete, unmodified, in order, for every split into writes and every
   read size (elements are bytes on a stream socket, whole messages on a datagram socket) *)
Theorem C17_stream_preserved : forall s p, Reach s -> sent (P s p) = rcvd (P s p) ++ buf (P s p).
Proof. exact (stream_preserved cap peer selof fixB fixD calm). Qed.

(* (i) a read returns 0 only at the end of the stream: the writer has shut down and everything sent was received *)
Theorem C17_zero_only_at_end_of_stream :
  forall s p, Reach s -> eof (P s p) = true -> wshut (P s p) = true /\ rcvd (P s p) = sent (P s p).
Proof. exact (eof_only_at_end cap peer selof fixB fixD calm). Qed.

(* (i) one call: a read hands over a non-empty prefix of the queue of at most the requested size and removes exactly
   that (one element per call on a datagram socket: message boundaries are kept), 0 only when the queue is empty
   after shutdown; a write reports exactly the prefix it queued and never overfills the buffer *)
Theorem C17_call_results :
  forall s x m r p' ev, syscall cap peer s x m = SysDone r p' ev ->
  let q := P s (pipe_of peer (akind x) (afd x)) in
  match r with
  | ROk l => akind x = Rd /\ l = firstn m (buf q) /\ 1 <= length l <= an x /\ buf q = l ++ buf p' /\ rcvd p' = rcvd q ++ l
  | REof => akind x = Rd /\ buf q = [] /\ wshut q = true
  | RWrote n => akind x = Wr /\ n = m /\ 1 <= n <= length (adat x) /\ buf p' = buf q ++ firstn n (adat x) /\
                length (buf p') <= cap /\ wshut q = false
  | RPipe => akind x = Wr /\ wshut q = true /\ p' = q
  | _ => False
  end.
Proof. exact (syscall_results cap peer). Qed.

(* (ii) no missed readiness edge: when nobody has an internal step left, no caller is suspended while the kernel has
   data (or end of stream) for it as a reader, space for it as a writer, a connection in the backlog for it as an
   acceptor, or the outcome of its attempt as a connector (`avail`) *)
Theorem C17_no_missed_edge :
  forall s a, Reach s -> Quiescent s -> apc (A s a) = Susp -> ~ avail cap peer s (A s a).
Proof. exact (no_missed_edge cap peer selof fixB fixD calm peer_inv). Qed.

(* (ii) for accept: no acceptor stays suspended while a connection is waiting in the backlog of its listener (K5) *)
Theorem C17_no_missed_accept :
  forall s a, Reach s -> Quiescent s -> apc (A s a) = Susp -> akind (A s a) = Ac -> kq (Kn s (afd (A s a))) = [].
Proof. exact (no_missed_accept cap peer selof fixB fixD calm peer_inv). Qed.

(* (ii) for connect: no connector stays suspended after the kernel has established its connection or failed the
   attempt (K6) *)
Theorem C17_no_missed_connect :
  forall s a, Reach s -> Quiescent s -> apc (A s a) = Susp -> akind (A s a) = Co ->
  kst (Kn s (afd (A s a))) <> CEst /\ forall e, kst (Kn s (afd (A s a))) <> CRef e.
Proof. exact (no_missed_connect cap peer selof fixB fixD calm peer_inv). Qed.

(* accept / connect, one call: accept returns exactly the head of the backlog and removes it (no event: nobody waits for
   room in a backlog); connect reports success only for a connection the kernel has established (and leaves the socket
   connected; a connect that completes at once has put the connection into the listener's backlog, with a readable
   event for the listener if the backlog was empty), and an error e only when the kernel failed the attempt with e *)
Theorem C17_accept_connect_results :
  forall s x m r kn' ev, syscall cap peer s x m = SysK r kn' ev ->
  let f := afd x in
  match r with
  | RAcc c => akind x = Ac /\ kq (Kn s f) = c :: kq (kn' f) /\ kacc (kn' f) = kacc (Kn s f) ++ [c] /\ ev = None
  | RConn => akind x = Co /\ kst (kn' f) = CConn /\
             (kst (Kn s f) = CEst \/ kst (Kn s f) = CConn \/
              (kst (Kn s f) = CNone /\ m = 1 /\ kq (kn' (an x)) = kq (Kn s (an x)) ++ [f] /\ (kq (Kn s (an x)) = [] -> ev = Some (an x))))
  | RErr e => akind x = Co /\ (kst (Kn s f) = CRef e \/ (kst (Kn s f) = CNone /\ m = S (S e)))
  | _ => False
  end.
Proof. exact (syscall_results_k cap peer). Qed.

(* the connections accept has returned on a listener so far, followed by its backlog, are exactly the connections that
   entered the backlog, in the order of arrival: none lost, none returned twice *)
Theorem C17_backlog_fifo : forall s f, Reach s -> kest (Kn s f) = kacc (Kn s f) ++ kq (Kn s f).
Proof. exact (backlog_fifo cap peer selof fixB fixD calm). Qed.

(* (ii) the wake token of a suspended caller exists exactly once: the caller is suspended iff the token is somewhere,
   and `ahome` determines the one place (a `co` slot, a selector, a kernel half, or the run queue) *)
Theorem C17_wake_token_unique :
  forall s a, Reach s ->
  (apc (A s a) = Susp <-> ahome (A s a) <> HNone) /\
  (forall f, co s f = Some a <-> ahome (A s a) = HSlot f) /\
  (aawake (A s a) = true <-> ahome (A s a) = HAwake) /\
  (forall g f, Sel s g = SEvT f a -> ahome (A s a) = HSel g) /\
  (forall k, k < nexts s -> spc_ (Sb s k) = SFastT a -> ahome (A s a) = HFast k) /\
  (forall k, k < nexts s -> sa (Sb s k) = a -> spc_ (Sb s k) = SArm \/ spc_ (Sb s k) = SStore -> ahome (A s a) = HSub k).
Proof. exact (wake_token_unique cap peer selof fixB fixD calm peer_inv). Qed.
(* (ii) ... also while a cancel holds it: between taking the coroutine out of its slot and scheduling it *)
Theorem C17_wake_token_in_cancel :
  forall s c, Reach s ->
  (forall a f, Cn s a = Cn3 f c -> ahome (A s c) = HCan a) /\
  (forall k f, k < nexts s -> spc_ (Sb s k) = SCan4 f c -> ahome (A s c) = HKCan k).
Proof. exact (wake_token_in_cancel cap peer selof fixB fixD calm peer_inv). Qed.
End C17.

Print Assumptions C17_stream_preserved.
Print Assumptions C17_zero_only_at_end_of_stream.
Print Assumptions C17_call_results.
Print Assumptions C17_no_missed_edge.
Print Assumptions C17_no_missed_accept.
Print Assumptions C17_no_missed_connect.
Print Assumptions C17_accept_connect_results.
Print Assumptions C17_backlog_fifo.
Print Assumptions C17_wake_token_unique.
Print Assumptions C17_wake_token_in_cancel.

(* ---- non-vacuity: a concrete pairing (0-1, 2-3, ...), capacity 4, two selectors ------------------------------- *)
Definition peer2 (f : nat) := if Nat.even f then S f else pred f.
Lemma peer2_inv : forall f, peer2 (peer2 f) = f.
Proof.
  intros f. unfold peer2. destruct (Nat.even f) eqn:E.
  - rewrite Nat.even_succ, <- Nat.negb_even, E. reflexivity.
  - destruct f; [discriminate|]. cbn [pred]. rewrite Nat.even_succ, <- Nat.negb_even in E.
    destruct (Nat.even f) eqn:E2; [reflexivity | discriminate].
Qed.
Definition run2 := run 4 peer2 (fun f => f mod 2) true true false init.

(* a reader (actor 0, descriptor 1) finds nothing, suspends, its kernel half completes: a quiescent state with a
   suspended caller whose wake condition does not hold - the hypotheses of C17_no_missed_edge are satisfiable *)
Definition blocked_reader :=
  [Start 0 1 Rd true None [] 5; Step 0 0; Step 0 0; Step 0 0; Sub 0 false; Sub 0 false; Sub 0 false; Sub 0 false].
Example C17_nonvacuous_quiescent :
  exists s, run2 blocked_reader = Some s /\ Quiescent s /\ apc (A s 0) = Susp /\ co s 1 = Some 0.
Proof.
  eexists. split; [vm_compute; reflexivity|]. split; [|split; reflexivity].
  unfold Quiescent. cbn. repeat split.
  - destruct a; cbn; auto.
  - destruct a; reflexivity.
  - intros k L. destruct k; [reflexivity | lia].
Qed.

(* the writer on the other end (actor 1, descriptor 0) sends 3 bytes: the state is no longer quiescent; the
   selector collects the event, takes and schedules the reader, which gets the first two bytes in order *)
Example C17_nonvacuous_wake :
  match run2 (blocked_reader ++ [Start 1 0 Wr false None [7; 8; 9] 0; Step 1 0; Step 1 3; SelEvent 1 1; SelTake 1; SelDisarm 1 false;
                               Resume 0; Step 0 0; Step 0 0; Step 0 0; Step 0 0; Step 0 2]) with
  | Some s => alast (A s 0) = Some (ROk [7; 8]) /\ alast (A s 1) = Some (RWrote 3) /\ buf (P s 0) = [9] /\
              sent (P s 0) = [7; 8; 9] /\ rcvd (P s 0) = [7; 8]
  | None => False
  end.
Proof. vm_compute. repeat split. Qed.

(* ---- accept / connect ------------------------------------------------------------------------------------------ *)
(* an acceptor (actor 0, listener 4) finds the backlog empty and suspends; a connector (actor 1, descriptor 6, timeout
   2000 as UnixStream::connect arms it) gets EINPROGRESS and suspends: quiescent, neither wake condition holds *)
Definition blocked_accept_connect :=
  [Start 0 4 Ac true None [] 0; Step 0 0; Step 0 0; Step 0 0; Sub 0 false; Sub 0 false; Sub 0 false; Sub 0 false;
   Start 1 6 Co true (Some 2000) [] 4; Step 1 0; Step 1 0; Sub 1 false; Sub 1 false; Sub 1 false; Sub 1 false; Sub 1 false].
Example C17_nonvacuous_accept_connect_quiescent :
  exists s, run2 blocked_accept_connect = Some s /\ Quiescent s /\ apc (A s 0) = Susp /\ akind (A s 0) = Ac /\ co s 4 = Some 0 /\
            apc (A s 1) = Susp /\ akind (A s 1) = Co /\ co s 6 = Some 1 /\ kst (Kn s 6) = CProg /\ kq (Kn s 4) = [].
Proof.
  eexists. split; [vm_compute; reflexivity|]. split; [|repeat split; reflexivity].
  unfold Quiescent. cbn. repeat split.
  - destruct a as [|[|a]]; cbn; auto.
  - destruct a as [|[|a]]; reflexivity.
  - intros k L. destruct k as [|[|k]]; [reflexivity | reflexivity | lia].
Qed.
(* the kernel establishes the connection: events for both descriptors; the selectors take and schedule both callers;
   connect returns Ok (the socket is connected), accept returns the connection of descriptor 6 and the backlog is empty *)
Example C17_nonvacuous_accept_connect_wake :
  match run2 (blocked_accept_connect ++
              [Establish 6; Deliver 6; SelEvent 0 6; SelTake 0; SelDisarm 0 true; SelEvent 0 4; SelTake 0; SelDisarm 0 false;
               Resume 1; Step 1 0; Step 1 0; Step 1 0; Step 1 0; Step 1 0;
               Resume 0; Step 0 0; Step 0 0; Step 0 0; Step 0 0; Step 0 0]) with
  | Some s => alast (A s 1) = Some RConn /\ alast (A s 0) = Some (RAcc 6) /\ kst (Kn s 6) = CConn /\ kq (Kn s 4) = [] /\
              kest (Kn s 4) = [6] /\ kacc (Kn s 4) = [6] /\ tmr s 6 = None
  | None => False
  end.
Proof. vm_compute. repeat split. Qed.
(* the kernel refuses the attempt (error 111): the connector is woken and connect returns that error *)
Example C17_nonvacuous_connect_refused :
  match run2 (blocked_accept_connect ++
              [Refuse 6 111; SelEvent 0 6; SelTake 0; SelDisarm 0 true; Resume 1; Step 1 0; Step 1 0; Step 1 0; Step 1 0; Step 1 0]) with
  | Some s => alast (A s 1) = Some (RErr 111) /\ kst (Kn s 6) = CNone /\ apc (A s 0) = Susp
  | None => False
  end.
Proof. vm_compute. repeat split. Qed.
(* a unix-socket connect completes at once: the connection is in the backlog when the call returns, the suspended
   acceptor's listener gets its event *)
Example C17_nonvacuous_connect_at_once :
  match run2 (firstn 8 blocked_accept_connect ++ [Start 1 6 Co true (Some 2000) [] 4; Step 1 1]) with
  | Some s => alast (A s 1) = Some RConn /\ apc (A s 1) = Idle /\ kq (Kn s 4) = [6] /\ pend s 4 = true
  | None => False
  end.
Proof. vm_compute. repeat split. Qed.
