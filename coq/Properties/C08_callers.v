(* C08 (part iv) - the CALLERS of the timed park: sleep, the deadline loops of mpsc::Receiver::recv_timeout /
   recv_max_until and Cqueue::poll(Some(timeout)), the single timed parks (Semphore / SyncFlag / Condvar
   wait_timeout, mpmc recv_timeout, Blocker::park(Some d)), and the chain requested d -> armed -> timer entry ->
   fire -> verdict.  Property theorems only.
   Models: coq/Rt/TimedCallers.v (DL: one caller + environment, park abstract with the contract C02 proves; kinds
   KRem = the code of the two loops (since fix 3916da2: park for what is left of the timeout), KFull = the loops before
   that fix (park for the full timeout every time: finding F35), KRecomp = slip, KSingle = one park) and
   coq/Rt/TimedChain.v (CH: park_timeout through AtomicDuration and the timer entry; sleep).
   [ctx_arm true] = armed by AtomicDuration (coroutine), [ctx_arm false] = exact (thread); [ctx_cap]: d <= 292 years
   in coroutine context.  [res s = Some (r, t, y)]: the last call returned r at clock t, y = its accumulated delay
   (time that passed while the caller was not parked + time it stayed parked after its armed deadline). *)
From Coq Require Import ZArith List Bool.
Import ListNotations.
Require Import MayV.Rt.AtomicDur MayV.Rt.TimedCallers MayV.Rt.TimedCallersThm MayV.Rt.TimedCallersBound
               MayV.Rt.TimedCallersInst MayV.Rt.TimedChain MayV.Rt.TimedChainThm MayV.Rt.TimedCallersProps
               MayV.Rt.TimedCallersRun.
Open Scope Z_scope.

(* ================================ never early ================================ *)

(* the deadline loops (the code, the code before fix 3916da2, even the slip) report Timeout only at or after call + d - for EVERY duration
   and whatever the park is armed with: the loop re-checks `Instant::now() >= deadline` itself *)
Theorem C08_callers_loops_never_early :
  forall K retry arm s, Reach K retry arm s -> is_single K = false ->
  forall t y, res s = Some (RTimeout, t, y) -> tcall s + dur s <= t.
Proof. exact loops_never_early. Qed.
Print Assumptions C08_callers_loops_never_early.

(* ... they leave with Timeout only after `Instant::now() >= deadline` was observed, and the deadline is not before
   call + d (it is computed once from a clock reading taken after the call: no arithmetic slip) *)
Theorem C08_callers_loops_timeout_only_after_deadline_observed :
  forall K retry arm s, Reach K retry arm s -> is_single K = false -> pcs s = Ret RTimeout ->
  obs s = true /\ dl s <= now s /\ tcall s + dur s <= dl s.
Proof. exact loops_timeout_only_after_deadline_observed. Qed.
Print Assumptions C08_callers_loops_timeout_only_after_deadline_observed.

(* the single parks (wait_timeout of Semphore / SyncFlag / Condvar, mpmc recv_timeout, Blocker::park) in both contexts *)
Theorem C08_callers_single_never_early :
  forall retry co s, Reach KSingle retry (ctx_arm co) s -> ctx_cap co (dur s) ->
  forall t y, res s = Some (RTimeout, t, y) -> tcall s + dur s <= t.
Proof. exact single_never_early. Qed.
Print Assumptions C08_callers_single_never_early.

(* ================================ never hang (quiescence form) ================================ *)

(* any caller, any arming: a call none of whose steps is enabled is parked, without a token, before the deadline of
   its own timer (from that deadline on the Timeout return is enabled: next theorem; that the timer thread then does
   fire is C08_timer_quiescent_wakes_in_time / C02_park_past_deadline_not_stuck) *)
Theorem C08_callers_quiescent_is_parked_before_its_deadline :
  forall K retry arm s, pcs s <> Idle -> Quiescent K retry arm s ->
  pcs s = Parked /\ tok s = false /\ forall a, ar s = Some a -> now s < tp s + a.
Proof. exact quiescent_is_parked_before_its_deadline. Qed.
Print Assumptions C08_callers_quiescent_is_parked_before_its_deadline.

Theorem C08_callers_parked_past_deadline_can_leave :
  forall K retry arm s a, pcs s = Parked -> ar s = Some a -> tp s + a <= now s ->
  exists s', cstep K retry arm s true = Some s'.
Proof. exact parked_past_deadline_can_leave. Qed.
Print Assumptions C08_callers_parked_past_deadline_can_leave.

(* the single parks and the deadline loops: a stuck call has its timer pending, and that timer is due before
   call + d + 1 ms + delays; in particular a timed call is never parked without a timer (zero and sub-millisecond
   durations included: Some(0) is armed as Some 0 and due at once) *)
Theorem C08_callers_never_hang :
  forall K retry co s, K = KRem \/ K = KSingle -> Reach K retry (ctx_arm co) s -> pcs s <> Idle -> ctx_cap co (dur s) ->
  Quiescent K retry (ctx_arm co) s ->
  pcs s = Parked /\ tok s = false /\
  exists a, ar s = Some a /\ now s < tp s + a /\ tp s + a < tcall s + dur s + MS + delay s.
Proof. exact textbook_and_single_never_hang. Qed.
Print Assumptions C08_callers_never_hang.

(* the code of mpsc recv_timeout / Cqueue::poll(Some d) as it is: never parked past call + d + 1 ms + delays *)
Theorem C08_callers_code_loop_never_hang :
  forall retry co s, Reach KRem retry (ctx_arm co) s -> pcs s <> Idle -> ctx_cap co (dur s) ->
  Quiescent KRem retry (ctx_arm co) s ->
  pcs s = Parked /\ tok s = false /\
  exists a, ar s = Some a /\ now s < tp s + a /\ tp s + a < tcall s + dur s + MS + delay s.
Proof. exact code_loop_never_hang. Qed.
Print Assumptions C08_callers_code_loop_never_hang.

(* the loops before fix 3916da2: call + 2 d + 1 ms in general, call + d + 1 ms only as long as no park of the call
   returned without data *)
Theorem C08_callers_loop_before_fix_3916da2_never_hang :
  forall retry co s, Reach KFull retry (ctx_arm co) s -> pcs s <> Idle -> ctx_cap co (dur s) ->
  Quiescent KFull retry (ctx_arm co) s ->
  pcs s = Parked /\ tok s = false /\
  exists a, ar s = Some a /\ now s < tp s + a /\ tp s + a < tcall s + dur s + dur s + MS + delay s /\
            (nsp s = 0%nat -> tp s + a < tcall s + dur s + MS + delay s).
Proof. exact loop_before_fix_never_hang. Qed.
Print Assumptions C08_callers_loop_before_fix_3916da2_never_hang.

(* ================================ the rounding bound, end to end ================================ *)

(* Timeout is reported less than d + 1 ms + (delays of the call) after the call: single parks and deadline loops *)
Theorem C08_callers_prompt :
  forall K retry co s t y, K = KRem \/ K = KSingle -> Reach K retry (ctx_arm co) s -> ctx_cap co (dur s) ->
  res s = Some (RTimeout, t, y) -> t - y < tcall s + dur s + MS.
Proof. exact textbook_and_single_prompt. Qed.
Print Assumptions C08_callers_prompt.

(* with the schedule hypothesis spelled out (y = 0: nothing delayed the call): d <= return - call < d + 1 ms *)
Theorem C08_callers_single_undelayed_window :
  forall retry co s t, Reach KSingle retry (ctx_arm co) s -> ctx_cap co (dur s) -> res s = Some (RTimeout, t, 0) ->
  tcall s + dur s <= t < tcall s + dur s + MS.
Proof. exact single_undelayed_window. Qed.
Print Assumptions C08_callers_single_undelayed_window.

(* the code of mpsc recv_timeout / Cqueue::poll(Some d) as it is *)
Theorem C08_callers_code_loop_prompt :
  forall retry co s t y, Reach KRem retry (ctx_arm co) s -> ctx_cap co (dur s) -> res s = Some (RTimeout, t, y) ->
  t - y < tcall s + dur s + MS.
Proof. exact code_loop_prompt. Qed.
Print Assumptions C08_callers_code_loop_prompt.

Theorem C08_callers_code_loop_undelayed_window :
  forall retry co s t, Reach KRem retry (ctx_arm co) s -> ctx_cap co (dur s) -> res s = Some (RTimeout, t, 0) ->
  tcall s + dur s <= t < tcall s + dur s + MS.
Proof. exact code_loop_undelayed_window. Qed.
Print Assumptions C08_callers_code_loop_undelayed_window.

(* the loops BEFORE fix 3916da2 (every iteration parked for the full timeout; finding F35, repaired):
   d + 1 ms only while no park returned without data; 2 d + 1 ms in general; the full statement refuted *)
Theorem C08_callers_loop_before_fix_3916da2_prompt_partial :
  forall retry co s, Reach KFull retry (ctx_arm co) s -> pcs s <> Idle -> ctx_cap co (dur s) ->
  (nsp s = 0%nat -> now s - delay s + slack s < tcall s + dur s + MS) /\
  now s - delay s + slack s < tcall s + dur s + dur s + MS.
Proof. exact loop_before_fix_prompt_partial. Qed.
Print Assumptions C08_callers_loop_before_fix_3916da2_prompt_partial.

Theorem C08_callers_loop_before_fix_3916da2_returned_partial :
  forall retry co s t y, Reach KFull retry (ctx_arm co) s -> ctx_cap co (dur s) -> res s = Some (RTimeout, t, y) ->
  t - y < tcall s + dur s + dur s + MS.
Proof. exact loop_before_fix_returned_partial. Qed.
Print Assumptions C08_callers_loop_before_fix_3916da2_returned_partial.

(* witness: recv_timeout(2 ms) / poll(Some(2 ms)) at clock 0, one wake-up without data at 1.5 ms (mpsc: the unpark of a
   sender whose message was consumed before the call; cqueue: a select coroutine that finished), nothing delayed:
   Timeout at 3.5 ms *)
Theorem C08_callers_loop_before_fix_3916da2_prompt_refuted :
  forall retry,
  ~ (forall s t y, Reach KFull retry (ctx_arm true) s -> ctx_cap true (dur s) -> res s = Some (RTimeout, t, y) ->
                   t - y < tcall s + dur s + MS).
Proof. exact loop_before_fix_prompt_refuted. Qed.
Print Assumptions C08_callers_loop_before_fix_3916da2_prompt_refuted.

(* ================================ the classic slips, as variants ================================ *)

(* deadline recomputed from now() in every iteration: wake-ups without data keep it from ever timing out
   (after 4 of them, 6 ms into a 2 ms timeout, undelayed, parked with a timer due at 8 ms; each round adds 1.5 ms) *)
Theorem C08_callers_recomputed_deadline_refuted :
  ~ (forall s, Reach KRecomp true armed s -> pcs s <> Idle -> now s - delay s + slack s < tcall s + dur s + dur s + MS).
Proof. exact recomputed_deadline_refuted. Qed.
Print Assumptions C08_callers_recomputed_deadline_refuted.

(* floor instead of ceil (the encoding before the repair of F3) under a single park: Timeout 1 ms after a call with
   1.9 ms ... *)
Theorem C08_callers_floor_single_early_refuted :
  exists s t y, Reach KSingle false armed0 s /\ res s = Some (RTimeout, t, y) /\ t < tcall s + dur s.
Proof. exact floor_single_early_refuted. Qed.
Print Assumptions C08_callers_floor_single_early_refuted.

(* ... and a 500 us timeout is no timeout: parked for ever without a timer, nothing enabled, an hour later *)
Theorem C08_callers_floor_single_hang_refuted :
  exists s, Reach KSingle false armed0 s /\ pcs s = Parked /\ Quiescent KSingle false armed0 s /\ ar s = None /\
            tcall s + dur s + MS + delay s <= now s.
Proof. exact floor_single_hang_refuted. Qed.
Print Assumptions C08_callers_floor_single_hang_refuted.

(* (the third slip, "remaining computed as d instead of deadline - now", WAS the code until fix 3916da2:
   C08_callers_loop_before_fix_3916da2_prompt_refuted) *)

(* ================================ sleep, and the chain ================================ *)

Theorem C08_callers_sleep_never_early :
  forall s t, CReach CSleep s -> cres s = Some (VTimeout, t) -> ctcall s + ud s <= t.
Proof. exact sleep_never_early. Qed.
Print Assumptions C08_callers_sleep_never_early.

(* sleep arms the exact duration: the entry's deadline is the clock at add_timer + d *)
Theorem C08_callers_sleep_entry_exact :
  forall s e, CReach CSleep s -> ent s = Some e -> e = tadd s + ud s /\ ctcall s <= tadd s <= cnow s.
Proof. exact sleep_entry_exact. Qed.
Print Assumptions C08_callers_sleep_entry_exact.

(* a sleeping / parked coroutine with nothing of the runtime enabled is in the slot with its entry pending and not
   yet due (sleep: the coroutine is in the slot before the entry exists; park: the window of F8 is closed) *)
Theorem C08_callers_suspended_has_pending_timer :
  forall CK s, CReach CK s -> cp s = CYield -> CQuiescent CK s ->
  slot s = true /\ exists e, ent s = Some e /\ cnow s < e.
Proof. exact chain_suspended_has_pending_timer. Qed.
Print Assumptions C08_callers_suspended_has_pending_timer.

Theorem C08_callers_due_entry_fires :
  forall s e, ent s = Some e -> e <= cnow s -> exists s', fire s = Some s' /\ (slot s = true -> cp s' = CResumed VTimeout).
Proof. exact chain_due_entry_fires. Qed.
Print Assumptions C08_callers_due_entry_fires.

Theorem C08_callers_entry_bound :
  forall CK s e, CReach CK s -> ent s = Some e ->
  match CK with CPark => ceil_ms (ud s) <= CAP | CSleep => True end ->
  tadd s + ud s <= e < tadd s + ud s + MS.
Proof. exact chain_entry_bound. Qed.
Print Assumptions C08_callers_entry_bound.

(* ONE chain: requested d -> AtomicDuration arms ceil_ms(d) ms -> the entry's deadline is the clock at add_timer + that
   -> the verdict Timeout comes only at or after call + that -> a suspended coroutine always has its entry pending ->
   every API on top reports Timeout only at or after ITS call + d -> and, undelayed, before call + d + 1 ms *)
Theorem C08_callers_requested_to_timeout_chain :
  forall d, 0 <= d <= DCAP ->
  exists a,
    armed d = Some a /\ a = ceil_ms d * MS /\ d <= a < d + MS /\
    (forall s e, CReach CPark s -> ud s = d -> ent s = Some e -> e = tadd s + a /\ ctcall s <= tadd s <= cnow s) /\
    (forall s t, CReach CPark s -> ud s = d -> cres s = Some (VTimeout, t) -> ctcall s + a <= t) /\
    (forall s, CReach CPark s -> ud s = d -> cp s = CYield -> CQuiescent CPark s ->
               slot s = true /\ exists e, ent s = Some e /\ cnow s < e) /\
    (forall K retry s t y, Reach K retry armed s -> dur s = d -> res s = Some (RTimeout, t, y) -> tcall s + d <= t) /\
    (forall K retry s t, K = KRem \/ K = KSingle -> Reach K retry armed s -> dur s = d ->
                         res s = Some (RTimeout, t, 0) -> t < tcall s + d + MS).
Proof. exact requested_to_timeout_chain. Qed.
Print Assumptions C08_callers_requested_to_timeout_chain.

(* ================================ non-vacuity ================================ *)

Example C08_callers_nonvacuous_code_loop_timeout :
  exists s, Reach KRem true armed s /\ res s = Some (RTimeout, 2500000, 0) /\ tcall s = 0 /\ dur s = 2000000.
Proof. exact rem_prompt_example. Qed.

Example C08_callers_nonvacuous_quiescent_parked :
  exists s, Reach KRem true armed s /\ pcs s <> Idle /\ Quiescent KRem true armed s /\ dur s <= DCAP /\
            ar s = Some 2000000 /\ now s = 1000000 /\ tp s = 0.
Proof. exact quiescent_parked_example. Qed.

Example C08_callers_nonvacuous_zero_remaining_fires_at_once :
  exists s, Reach KRem false armed s /\ pcs s = Parked /\ ar s = Some 0 /\ tp s = now s /\ rem s = 0 /\
            exists s', cstep KRem false armed s true = Some s'.
Proof. exact rem_zero_fires_at_once. Qed.

Example C08_callers_nonvacuous_chain :
  exists s, CReach CPark s /\ cres s = Some (VTimeout, 2400000) /\ ctcall s = 0 /\ ud s = 1900000 /\ tadd s = 300000.
Proof. exact chain_example. Qed.

Example C08_callers_nonvacuous_fired_before_published :
  exists s, CReach CPark s /\ cres s = Some (VTimeout, 30000000) /\ ud s = 1000000.
Proof. exact chain_example_fired_before_published. Qed.

(* the differential function agrees with the theorems on the witness script: the code before the fix (api 20) is late,
   the code (api 0) is not *)
Example C08_callers_nonvacuous_run :
  tc_run_all [20; 0; 0; 2000000; 1; 3500000; 1500000; 2] = [1; 3500000] /\
  tc_run_all [0; 0; 0; 2000000; 1; 2500000; 1500000; 2] = [1; 2500000] /\
  tc_run_all [2; 0; 0; 1900000; 1; 2000000] = [1; 2000000] /\
  tc_run_all [2; 1; 0; 1900000; 1; 1900000] = [1; 1900000] /\
  tc_run_all [3; 0; 7; 1900000; 1; 1900007] = [1; 1900007] /\
  (* an observation the model does not explain is answered by the model's own value *)
  tc_run_all [0; 0; 0; 2000000; 1; 1999999] = [1; 2000000].
Proof. vm_compute. repeat split. Qed.
