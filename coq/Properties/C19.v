(* C19 - the removable multi-producer list behind the timers (may_queue::mpsc_list_v1): every pushed
   entry is consumed exactly once - popped in push order or removed through its handle -, remove() of a
   consumed / last entry is a no-op, concurrent pushes keep the chain intact, and the head report of push
   identifies the pushes that found the list empty.
   Property theorems only: each is closed by `exact` of a lemma proved in Queue/ListV1*.v and followed by
   Print Assumptions.  All statements quantify over every reachable state of the model (Queue/ListV1Model.v):
   any number of producers, one consumer running any sequence of pop / pop_if / peek / is_empty / remove /
   is_link / Entry::drop, any interleaving at the granularity of single shared accesses.

   Partial (named `_partial`):
   * C19_entry_reached_by_pops_partial: "consumed exactly once" needs, besides "at most once" (proved in full),
     that an entry is eventually consumed.  What is proved is the variant: the set of unconsumed entries in
     front of an entry never grows, shrinks at every pop commit, and pop never answers None while the entry is
     there.  Missing: the fairness argument (a producer between swap and store eventually stores; the
     consumer keeps popping).

   The head report (iv) is proved in full for push as it is since /repo b8fae1d (finding F16: the consumer position
   is read before the node is linked): C19_head_report for node identities, C19_head_report_compares_live_nodes
   lifts it to the address comparison the code makes, allocator re-use included.  For push as it was before
   (read after the store) claim (c) is refuted under address re-use:
   C19_head_report_c_refuted_under_address_reuse (the witness was replayed on the real code by
   harness/src/bin/q_list_aba.rs, which now passes and catches a revert of the fix). *)
From Coq Require Import List Arith Bool ZArith.
Import ListNotations.
Require Import MayV.Queue.ListV1Model MayV.Queue.ListV1Inv MayV.Queue.ListV1Thm MayV.Queue.ListV1Accept MayV.Queue.ListV1Aba.

(* ---------------------------------------------------------------------------------------------- (i) *)

(* an entry's value is handed out at most once - by pop / pop_if or by remove(), never both, never twice *)
Theorem C19_consumed_at_most_once :
  forall s n, Reach s -> cons (nodes s n) <= 1.
Proof. exact consumed_at_most_once. Qed.
Print Assumptions C19_consumed_at_most_once.

(* nothing is lost: an entry that has swapped is unconsumed exactly while it is a chain member behind the
   stub, and then its value is still in its node *)
Theorem C19_unconsumed_iff_in_chain :
  forall s n, Reach s -> 1 <= n -> n < nn s ->
  (cons (nodes s n) = 0 <-> (inch (nodes s n) = true /\ n <> tail s)) /\
  (cons (nodes s n) = 0 -> nval (nodes s n) = true).
Proof. exact unconsumed_iff_in_chain. Qed.
Print Assumptions C19_unconsumed_iff_in_chain.

(* pops come out in push (swap) order: the monitor set by a pop commit that returns an entry not younger
   than the previously popped one never trips ... *)
Theorem C19_pops_in_push_order :
  forall s, Reach s -> bad_order s = false.
Proof. exact pops_in_push_order. Qed.
Print Assumptions C19_pops_in_push_order.

(* ... and at its commit a pop / pop_if hands out an unconsumed entry before which everything is consumed *)
Theorem C19_pop_returns_first_unconsumed :
  forall s, Reach s -> kp s = KP2 ->
  cons (nodes s (kn s)) = 0 /\ nval (nodes s (kn s)) = true /\
  forall m, 1 <= m -> m < kn s -> cons (nodes s m) = 1.
Proof. exact pop_returns_first_unconsumed. Qed.
Print Assumptions C19_pop_returns_first_unconsumed.

(* the code's assertions on values (`tail.value.is_none()`, `next.value.is_some()`) never fail, and a
   remove() that unlinks finds the value *)
Theorem C19_value_present_when_taken :
  forall s, Reach s -> bad_val s = false.
Proof. exact value_present_when_taken. Qed.
Print Assumptions C19_value_present_when_taken.

(* --------------------------------------------------------------------------------------------- (ii) *)

(* remove() of an already consumed entry returns None; nothing changes but the handle's reference *)
Theorem C19_remove_consumed_returns_none :
  forall s n s', Reach s -> cons (nodes s n) = 1 -> step s (Remove n) = Some s' ->
  kres s' = None /\ kp s' = KIdle /\ head s' = head s /\ tail s' = tail s /\
  (forall m, m <> n -> nodes s' m = nodes s m) /\ nodes s' n = w_drop (nodes s n).
Proof. exact remove_consumed_returns_none. Qed.
Print Assumptions C19_remove_consumed_returns_none.

(* remove() of the last linked entry (next = null) returns None, changes nothing but the handle's reference,
   and the entry stays an unconsumed chain member with its value *)
Theorem C19_remove_last_returns_none :
  forall s y s', Reach s -> kp s = KR1 -> nnext (nodes s (kn s)) = None -> step s (KStep y) = Some s' ->
  let n := kn s in
  kres s' = None /\ kp s' = KIdle /\ head s' = head s /\ tail s' = tail s /\
  (forall m, m <> n -> nodes s' m = nodes s m) /\ nodes s' n = w_drop (nodes s n) /\
  inch (nodes s' n) = true /\ n <> tail s' /\ cons (nodes s' n) = 0 /\ nval (nodes s' n) = true.
Proof. exact remove_last_returns_none. Qed.
Print Assumptions C19_remove_last_returns_none.

(* ... and is later handed out by pop: while an entry is unconsumed a pop never finds the list empty, the set
   of unconsumed entries in front of it never grows and shrinks at every pop commit, until the entry itself
   is returned (by a pop commit or by its own remove commit).  PARTIAL: fairness of the scheduler towards the
   producers' pending stores and the consumer's pops is assumed, not proved. *)
Theorem C19_pop_not_empty_while_unconsumed :
  forall s n, Reach s -> unconsumed s n -> head s <> tail s.
Proof. exact pop_not_empty_while_unconsumed. Qed.
Print Assumptions C19_pop_not_empty_while_unconsumed.

Theorem C19_entry_reached_by_pops_partial :
  forall s a s' n, Reach s -> step s a = Some s' -> unconsumed s n ->
  (kres s' = Some n /\ cons (nodes s' n) = 1 /\ (exists y, a = KStep y) /\ kn s = n /\ (kp s = KP2 \/ kp s = KR2)) \/
  (unconsumed s' n /\ (forall m, before s' n m -> before s n m) /\
   (forall y, a = KStep y -> kp s = KP2 -> before s n (kn s) /\ ~ before s' n (kn s))).
Proof. exact entry_reached_by_pops. Qed.
Print Assumptions C19_entry_reached_by_pops_partial.

(* -------------------------------------------------------------------------------------------- (iii) *)

(* the doubly linked structure is a chain from the stub to `head` under any number of concurrent pushes *)
Theorem C19_chain_shape :
  forall s, Reach s ->
  inch (nodes s (tail s)) = true /\ inch (nodes s (head s)) = true /\ nnext (nodes s (head s)) = None /\
  (forall x, inch (nodes s x) = true -> tail s <= x /\ x <= head s) /\
  (forall b, inch (nodes s b) = true -> b <> tail s ->
     let a := gpred (nodes s b) in
     a < b /\ inch (nodes s a) = true /\ (forall x, inch (nodes s x) = true -> ~ (a < x /\ x < b)) /\
     (stage (nodes s b) = 0 -> nnext (nodes s a) = Some b /\ nprev (nodes s b) = Some a) /\
     (1 <= stage (nodes s b) -> nnext (nodes s a) = None /\
        exists p, qn (P s p) = b /\ qprev (P s p) = a /\ (qp (P s p) = Q1 \/ qp (P s p) = Q2 \/ qp (P s p) = Q3))) /\
  (forall a x, inch (nodes s a) = true -> nnext (nodes s a) = Some x -> inch (nodes s x) = true /\ gpred (nodes s x) = a).
Proof. exact chain_shape. Qed.
Print Assumptions C19_chain_shape.

(* visibility: the consumer spins on the stub's `next` only while a producer that swapped directly behind
   the stub has not yet executed its `prev.next` store *)
Theorem C19_consumer_spins_only_on_pending_store :
  forall s, Reach s -> spinning (kp s) -> nnext (nodes s (tail s)) = None ->
  exists p, (qp (P s p) = Q1 \/ qp (P s p) = Q2 \/ qp (P s p) = Q3) /\ qprev (P s p) = tail s.
Proof. exact consumer_spins_only_on_pending_store. Qed.
Print Assumptions C19_consumer_spins_only_on_pending_store.

(* --------------------------------------------------------------------------------------------- (iv) *)

(* the head report, at the producer's read of the consumer position (r is the flag push returns).  The read
   precedes the `prev.next` store, so the own entry is still unconsumed and `prev` is still a chain member:
   (a) list empty at the swap  =>  is_head                 (the timer thread is never left sleeping past a new head)
   (b) not is_head  =>  list not empty at the swap
   (c) is_head  =>  every earlier entry is consumed (and the own one is not)
   (d) no consumer step between swap and read  =>  is_head <-> list empty at the swap *)
Theorem C19_head_report :
  forall s p s', Reach s -> qp (P s p) = Q2 -> step s (PStep p) = Some s' ->
  let x := P s p in let n := qn x in let r := qhead (P s' p) in
  (cons (nodes s n) = 0 /\ inch (nodes s n) = true /\ inch (nodes s (qprev x)) = true /\ freed (nodes s (qprev x)) = false) /\
  (qempty x = true -> r = true) /\
  (r = false -> qempty x = false) /\
  (r = true -> forall m, 1 <= m -> m < n -> cons (nodes s m) = 1) /\
  (qclk x = kclock s -> r = qempty x).
Proof. exact head_report. Qed.
Print Assumptions C19_head_report.

(* addresses: in the overlay where the allocator gives every new node any address not held by an allocated,
   unfreed node (re-use of freed addresses allowed), the comparison the code makes at that read, on addresses,
   equals the comparison of node identities the model makes - both compared nodes are live *)
Theorem C19_head_report_compares_live_nodes :
  forall x p, Reach2 x -> qp (P (fst x) p) = Q2 -> code_flag x p = model_flag x p.
Proof. exact code_flag_is_model_flag. Qed.
Print Assumptions C19_head_report_compares_live_nodes.

Theorem C19_address_overlay_projects :
  forall x, Reach2 x -> Reach (fst x).
Proof. exact reach2_reach. Qed.
Print Assumptions C19_address_overlay_projects.

(* what the fix repaired: with push as it was before /repo b8fae1d (`tail` read after the `prev.next` store,
   step_old) claim (c) is REFUTED for the address comparison when the allocator hands the address of the freed
   `prev` node to a later node that has become the stub: is_head = true for an entry consumed long ago. *)
Theorem C19_head_report_c_refuted_under_address_reuse :
  exists x, Reach2_old x /\
    match qp (P (fst x) 1) with Q3 => true | _ => false end = true /\
    code_flag x 1 = true /\ model_flag x 1 = false /\
    cons (nodes (fst x) (qn (P (fst x) 1))) = 1.
Proof. exact head_report_c_refuted_under_address_reuse. Qed.
Print Assumptions C19_head_report_c_refuted_under_address_reuse.

(* ---------------------------------------------------------------------------------------------- (v) *)

(* the reference count is the number of owners (list while in the chain, handle while it exists); a node is
   freed exactly when the count is 0 *)
Theorem C19_refs_count_owners :
  forall s n, Reach s -> n < nn s ->
  refs (nodes s n) = b2n (inch (nodes s n)) + b2n (hnd (nodes s n)) /\
  (freed (nodes s n) = true <-> refs (nodes s n) = 0).
Proof. exact refs_count_owners. Qed.
Print Assumptions C19_refs_count_owners.

(* no transition of a producer or of the consumer dereferences a freed node, and the code's
   `refs & MASK != 0` assertions hold *)
Theorem C19_no_use_after_free :
  forall s, Reach s -> bad_mem s = false.
Proof. exact no_use_after_free. Qed.
Print Assumptions C19_no_use_after_free.

Theorem C19_reachable_not_freed :
  forall s n, Reach s -> n < nn s -> (inch (nodes s n) = true \/ hnd (nodes s n) = true) -> freed (nodes s n) = false.
Proof. exact reachable_not_freed. Qed.
Print Assumptions C19_reachable_not_freed.

(* ---------------------------------------------------------------------------------------------- tie *)

(* every state along a trace of the real list that the acceptor accepts is reachable in the model, hence
   satisfies all theorems above; in particular the monitors the acceptor's final check reads are false *)
Theorem C19_accepted_traces_are_model_runs :
  forall tr a a', Reach (ms a) -> accept_all a tr = Some a' -> Reach (ms a').
Proof. exact accept_all_reach. Qed.
Print Assumptions C19_accepted_traces_are_model_runs.

Theorem C19_monitors_never_trip :
  forall s, Reach s -> monitors_ok s = true.
Proof. exact monitors_never_trip. Qed.
Print Assumptions C19_monitors_never_trip.

(* ------------------------------------------------------------------------------------- non-vacuity *)

Definition push (p : nat) := [Push p; PStep p; PStep p; PStep p; PStep p].
Definition popk := [Pop; KStep false; KStep false; KStep false].
Definition at_state (sched : list action) (f : st -> bool) : bool :=
  match run init sched with Some s => f s | None => false end.
Lemma at_state_reach sched f : at_state sched f = true -> exists s, Reach s /\ f s = true.
Proof.
  unfold at_state. destruct (run init sched) as [s|] eqn:E; [|discriminate].
  intros H. exists s. split; [eapply run_reach; [apply R0 | exact E] | exact H].
Qed.

(* two pushes; the first entry is removed (a middle removal), the second popped; then remove() on the handle
   of the popped entry is enabled although the entry is consumed (hypotheses of C19_remove_consumed_returns_none) *)
Example C19_ex_remove_then_pop :
  exists s, Reach s /\
    (Nat.eqb (cons (nodes s 1)) 1 && byrem (nodes s 1) && Nat.eqb (cons (nodes s 2)) 1 && negb (byrem (nodes s 2)) &&
     Nat.eqb (tail s) 2 && has_handle s 2 && freed (nodes s 1) && negb (freed (nodes s 2)) &&
     match step s (Remove 2) with Some _ => true | None => false end) = true.
Proof. apply (at_state_reach (push 0 ++ push 1 ++ [Remove 1; KStep false; KStep false] ++ popk)). vm_compute. reflexivity. Qed.

(* remove() of the last linked entry: the consumer is about to load a null `next` *)
Example C19_ex_remove_last :
  exists s, Reach s /\
    (match kp s with KR1 => true | _ => false end && Nat.eqb (kn s) 2 &&
     match nnext (nodes s 2) with None => true | Some _ => false end && inch (nodes s 2)) = true.
Proof. apply (at_state_reach (push 0 ++ push 1 ++ [Remove 2])). vm_compute. reflexivity. Qed.

(* the consumer spins on the stub while a producer is between its swap and its store *)
Example C19_ex_spin :
  exists s, Reach s /\
    (match kp s with KP1 false => true | _ => false end &&
     match nnext (nodes s (tail s)) with None => true | Some _ => false end &&
     match qp (P s 0) with Q1 => true | _ => false end && Nat.eqb (qprev (P s 0)) (tail s)) = true.
Proof. apply (at_state_reach [Push 0; PStep 0; Pop; KStep false]). vm_compute. reflexivity. Qed.

(* a producer at its read of the consumer position that found the list empty, undisturbed by the consumer *)
Example C19_ex_head_report_true :
  exists s, Reach s /\
    (match qp (P s 0) with Q2 => true | _ => false end && qempty (P s 0) && Nat.eqb (qclk (P s 0)) (kclock s) &&
     match step s (PStep 0) with Some s' => qhead (P s' 0) | None => false end) = true.
Proof. apply (at_state_reach [Push 0; PStep 0; PStep 0]). vm_compute. reflexivity. Qed.

(* why the head report is not "is the first unconsumed entry": the predecessor is removed after the read, the
   entry is then the first unconsumed one, yet is_head = false (no wake-up is lost: the entry that was head
   before is gone, the timer thread recomputes when it runs) *)
Example C19_ex_first_unconsumed_may_report_false :
  exists s, Reach s /\
    (Nat.eqb (cons (nodes s 1)) 1 && Nat.eqb (cons (nodes s 2)) 0 && Nat.eqb (gpred (nodes s 2)) (tail s) &&
     negb (qhead (P s 1)) && match qp (P s 1) with QIdle => true | _ => false end && ret (nodes s 2)) = true.
Proof.
  apply (at_state_reach (push 0 ++ [Push 1; PStep 1; PStep 1; PStep 1; PStep 1] ++ [Remove 1; KStep false; KStep false])).
  vm_compute. reflexivity.
Qed.

(* the overlay with addresses: a reachable state in which a freed address has been re-used (node 3 lives where
   node 1 lived) and a producer is at its read - the hypotheses of C19_head_report_compares_live_nodes *)
Example C19_ex_address_reuse :
  exists x, Reach2 x /\
    (match qp (P (fst x) 2) with Q2 => true | _ => false end && Nat.eqb (snd x 3) (snd x 1) && freed (nodes (fst x) 1) &&
     negb (freed (nodes (fst x) 3))) = true.
Proof.
  pose (push2 := fun p c => [(Push p, 0); (PStep p, c); (PStep p, 0); (PStep p, 0); (PStep p, 0)]).
  pose (pop2 := [(Pop, 0); (KStep false, 0); (KStep false, 0); (KStep false, 0)]).
  pose (sched := push2 0 1 ++ push2 1 2 ++ pop2 ++ pop2 ++ [(DropH 1, 0)] ++ [(Push 2, 0); (PStep 2, 1); (PStep 2, 0)]).
  assert (H : exists x, run2 init2 sched = Some x /\
      (match qp (P (fst x) 2) with Q2 => true | _ => false end && Nat.eqb (snd x 3) (snd x 1) && freed (nodes (fst x) 1) &&
       negb (freed (nodes (fst x) 3))) = true).
  { destruct (run2 init2 sched) as [x|] eqn:E; [|vm_compute in E; discriminate].
    exists x. split; [reflexivity|]. vm_compute in E. inversion E; subst. vm_compute. reflexivity. }
  destruct H as (x & E & Hx). exists x. split; [eapply run2_reach; [apply R20 | exact E] | exact Hx].
Qed.

(* the acceptor accepts a small hand-written trace (push of tag 100 by actor 1 on an empty list; pop by actor 2) *)
Example C19_ex_acceptor :
  (match accept_all a_init
     [[1; 1; 0; 100]; [20; 1; 1; 4096]; [34; 1; 4; 4096]; [22; 1; 3; 0]; [21; 1; 2; 8192]; [2; 1; 1; 8192];
      [3; 2; 0; 0]; [29; 2; 1; 8192]; [30; 2; 2; 8192]; [31; 2; 3; 8192]; [4; 2; 1; 100]]%Z
   with Some a => a_final a | None => false end) = true.
Proof. vm_compute. reflexivity. Qed.
