(* C10 - Semphore permits are conserved; SyncFlag is a one-way latch.
   Property theorems only: each is closed by `exact` of a lemma proved under Sync/ and followed by
   Print Assumptions.  Models: Sync/SemModel.v, Sync/FlagModel.v (the CURRENT code: SyncBlocker::unpark
   stores `unparked` before the wake-up; try_wait is a load + CAS loop; a timeout / cancel may still
   win after the token was set).  All statements are for every reachable state: any number of
   threads and coroutines, any interleaving of wait / wait_timeout / try_wait / post / get_value
   (wait / wait_timeout / is_fired / fire), any initial value, timeouts and cancellation at any point. *)
From Coq Require Import List ZArith.
Import ListNotations.
Require Import MayV.Sync.SemModel MayV.Sync.SemInv MayV.Sync.SemThm MayV.Sync.SemPop MayV.Sync.SemAccept.
Require Import MayV.Sync.SemLive MayV.Sync.SemLiveThm.
Require MayV.Sync.FlagModel MayV.Sync.FlagInv MayV.Sync.FlagAccept MayV.Sync.FlagLive MayV.Sync.FlagLiveThm.
Open Scope Z_scope.

(* (i) the number of successful waits never exceeds the initial value plus the number of posts
   (user posts are counted at their fetch_add; re-posts on behalf of waiters that left are not) *)
Theorem C10_sem_permits_conserved :
  forall i s, 0 <= i -> Reach i s -> succ s <= i + uposts s.
Proof. exact permits_conserved. Qed.
Print Assumptions C10_sem_permits_conserved.

(* (ii) the accounting identity: every permit is in the counter, promised to a registered blocker
   (ung: not yet flagged - these are waiters and stale entries; giv: flagged, not yet settled),
   owed as a re-post (owe), or consumed *)
Theorem C10_sem_permit_accounting :
  forall i s, 0 <= i -> Reach i s ->
  cnt s + nl (ung s) + nl (giv s) + nl (owe s) + succ s = i + uposts s.
Proof. exact permit_accounting. Qed.
Print Assumptions C10_sem_permit_accounting.

(* the counter is exact: get_value() = max(cnt, 0) is precisely the number of permits nobody has been promised *)
Theorem C10_sem_counter_exact :
  forall i s, 0 <= i -> Reach i s ->
  cnt s + nl (ung s) - nl (hand s) - nl (pre s) = Z.max (cnt s) 0.
Proof. exact counter_exact. Qed.
Print Assumptions C10_sem_counter_exact.

(* (vi) wakeup_one never pops an empty queue: the `expect("got null blocker!")` is unreachable *)
Theorem C10_sem_pop_never_empty :
  forall i s a, 0 <= i -> Reach i s -> apc (A s a) = K1 -> q s <> [].
Proof. exact pop_never_empty. Qed.
Print Assumptions C10_sem_pop_never_empty.

(* ---- quiescence and hand-off (second ghost overlay, Sync/SemLive.v: ag / dl / rp / sc / fl are stepped
   alongside the model by `lstep`, never read by it; ReachL projects onto and lifts from Reach).
   `Quiescent s`: no actor has an enabled transition of its own - everybody is idle (all calls have
   returned) or suspended in its park with no reason to resume; the timer / cancel (Fire) and the
   start of new calls are the environment's. ---- *)

(* (ii) at quiescence get_value() = max(cnt, 0) = init + posts - successful waits *)
Theorem C10_sem_value_at_quiescence :
  forall i s, 0 <= i -> Reach i s -> Quiescent s -> Z.max (cnt s) 0 = i + uposts s - succ s.
Proof. exact value_at_quiescence. Qed.
Print Assumptions C10_sem_value_at_quiescence.

Theorem C10_sem_value_at_rest :
  forall i s, 0 <= i -> Reach i s -> (forall a, apc (A s a) = Idle) -> Z.max (cnt s) 0 = i + uposts s - succ s.
Proof. exact value_at_rest. Qed.
Print Assumptions C10_sem_value_at_rest.

(* (iv) "whenever permits suffice every waiter proceeds", as a safety statement: a quiescent state with
   init + posts - successes > 0 has nobody parked - every wait has returned.  (What is NOT formalised:
   the scheduler's fairness, i.e. that a non-quiescent system eventually takes its enabled steps, and
   that try_wait's CAS loop only retries when another actor changed the counter.) *)
Theorem C10_sem_no_waiter_parked_when_permits_suffice :
  forall i s, 0 <= i -> Reach i s -> Quiescent s -> 0 < i + uposts s - succ s -> forall a, apc (A s a) = Idle.
Proof. exact no_waiter_parked_when_permits_suffice. Qed.
Print Assumptions C10_sem_no_waiter_parked_when_permits_suffice.

Theorem C10_sem_no_waiter_parked_when_counter_positive :
  forall i s, 0 <= i -> Reach i s -> Quiescent s -> 0 < cnt s -> forall a, apc (A s a) = Idle.
Proof. exact no_waiter_parked_when_counter_positive. Qed.
Print Assumptions C10_sem_no_waiter_parked_when_counter_positive.

(* no lost wake-up in EVERY reachable state: a suspended waiter whose blocker was handed a permit has
   been given a reason to resume, or the agent that popped it is about to deliver the token (K3);
   a waiter about to park on such a blocker finds the token, or the agent is at K3 *)
Theorem C10_sem_flagged_waiter_resumed_or_token_in_flight :
  forall i s a, 0 <= i -> Reach i s -> apc (A s a) = WW -> unp (Bk s (ab (A s a))) = true ->
  reason (Bk s (ab (A s a))) <> None \/ exists g, apc (A s g) = K3 /\ aw (A s g) = ab (A s a).
Proof. exact flagged_waiter_resumed_or_token_in_flight. Qed.
Print Assumptions C10_sem_flagged_waiter_resumed_or_token_in_flight.

Theorem C10_sem_flagged_prepark_token_or_in_flight :
  forall i s a, 0 <= i -> Reach i s -> apc (A s a) = WP -> unp (Bk s (ab (A s a))) = true ->
  tok (Bk s (ab (A s a))) = true \/ exists g, apc (A s g) = K3 /\ aw (A s g) = ab (A s a).
Proof. exact flagged_prepark_token_or_in_flight. Qed.
Print Assumptions C10_sem_flagged_prepark_token_or_in_flight.

(* (iii) a permit handed to a blocker b (its `unparked` flag stored) is settled at most once: by the
   owner's successful return (sc o b) or by ONE decision to re-post (rp o b: owner at is_unparked /
   take_release on the error path, or the agent at take_release in wakeup_one), never twice, never both;
   and exactly once as soon as b is no longer pending (not in giv / pre) *)
Theorem C10_sem_handoff_settled_at_most_once :
  forall i s o b, 0 <= i -> ReachL i s o -> (rp o b + sc o b <= 1)%nat.
Proof. exact handoff_settled_at_most_once. Qed.
Print Assumptions C10_sem_handoff_settled_at_most_once.

Theorem C10_sem_handoff_settled_once_unregistered :
  forall i s o b, 0 <= i -> ReachL i s o ->
  unp (Bk s b) = true -> ~ In b (giv s) -> ~ In b (pre s) -> (rp o b + sc o b = 1)%nat.
Proof. exact handoff_settled_once_unregistered. Qed.
Print Assumptions C10_sem_handoff_settled_once_unregistered.

(* the waiter timed out / was cancelled on b (fl o b) although b had been handed a permit: the permit
   is re-posted exactly once (and the wait did not also succeed) *)
Theorem C10_sem_handoff_reposted_exactly_once :
  forall i s o b, 0 <= i -> ReachL i s o ->
  fl o b = true -> unp (Bk s b) = true -> ~ In b (giv s) -> ~ In b (pre s) -> rp o b = 1%nat /\ sc o b = O.
Proof. exact timed_out_handoff_reposted_exactly_once. Qed.
Print Assumptions C10_sem_handoff_reposted_exactly_once.

Theorem C10_sem_handoff_reposted_at_quiescence :
  forall i s o b, 0 <= i -> ReachL i s o -> Quiescent s ->
  fl o b = true -> unp (Bk s b) = true -> rp o b = 1%nat /\ sc o b = O.
Proof. exact timed_out_handoff_reposted_at_quiescence. Qed.
Print Assumptions C10_sem_handoff_reposted_at_quiescence.

(* a waiter that left without having been handed anything is never re-posted for *)
Theorem C10_sem_no_repost_without_handoff :
  forall i s o b, 0 <= i -> ReachL i s o -> unp (Bk s b) = false -> rp o b = O /\ sc o b = O.
Proof. exact no_repost_without_handoff. Qed.
Print Assumptions C10_sem_no_repost_without_handoff.

(* the overlay adds nothing to the model: every reachable state carries an overlay state, and conversely *)
Theorem C10_sem_overlay_conservative :
  forall i s, (Reach i s <-> exists o, ReachL i s o).
Proof. exact overlay_conservative. Qed.
Print Assumptions C10_sem_overlay_conservative.

(* tie: every state along a trace of the real Semphore that the acceptor accepts is a reachable state *)
Theorem C10_sem_accepted_traces_are_model_runs :
  forall tr sx, SemAccept.accept_all SemAccept.m_init tr = Some sx -> exists i, 0 <= i /\ Reach i (fst sx).
Proof. exact SemAccept.accepted_trace_reaches. Qed.
Print Assumptions C10_sem_accepted_traces_are_model_runs.

(* (v) SyncFlag: never fired spuriously ... *)
Theorem C10_flag_no_spurious_fire :
  forall MAX, 0 < MAX -> forall s, FlagModel.Reach MAX s ->
  (0 < FlagModel.cnt s -> FlagModel.ufired s = true) /\
  (forall a, In (a, true) (FlagModel.obs s) -> FlagModel.ufired s = true).
Proof. exact FlagInv.no_spurious_fire. Qed.
Print Assumptions C10_flag_no_spurious_fire.

(* ... and a latch: after the store of a user-level fire() the counter is positive in every later
   state (is_fired() answers true, a wait returns at its first check), provided fewer than MAX =
   isize::MAX waiters were between their is_fired check and their fetch_sub at that store *)
Theorem C10_flag_fired_stays_fired :
  forall MAX, 0 < MAX -> forall s, FlagModel.Reach MAX s ->
  FlagModel.ufired s = true -> FlagModel.fbound s < MAX -> 0 < FlagModel.cnt s.
Proof. exact FlagInv.fired_stays_fired. Qed.
Print Assumptions C10_flag_fired_stays_fired.

(* "waiters registered before the store of fire() are all woken", as safety: once a user-level fire() has
   executed its store (fewer than MAX waiters in flight at that moment, as for the latch), a quiescent
   state has nobody parked - every wait has returned *)
Theorem C10_flag_fired_nobody_parked :
  forall MAX, 0 < MAX -> forall s, FlagModel.Reach MAX s -> FlagLiveThm.Quiescent MAX s ->
  FlagModel.ufired s = true -> FlagModel.fbound s < MAX -> forall a, FlagModel.apc (FlagModel.A s a) = FlagModel.Idle.
Proof. exact FlagLiveThm.fired_quiescent_nobody_parked. Qed.
Print Assumptions C10_flag_fired_nobody_parked.

Theorem C10_flag_accepted_traces_are_model_runs :
  forall tr sx, FlagAccept.accept_all FlagAccept.m_init tr = Some sx -> FlagModel.Reach FlagAccept.MAX (fst sx).
Proof. exact FlagAccept.accepted_trace_reaches. Qed.
Print Assumptions C10_flag_accepted_traces_are_model_runs.

(* non-vacuity *)
Example C10_sem_conserved_somewhere :
  Reach 0 (run (init 0) sch) /\ succ (run (init 0) sch) = 1 /\ uposts (run (init 0) sch) = 2 /\ cnt (run (init 0) sch) = 1.
Proof. exact conserved_somewhere. Qed.
Example C10_flag_latch_somewhere :
  let s := FlagModel.run 9223372036854775807 FlagModel.init FlagInv.sch in
  FlagModel.Reach 9223372036854775807 s /\ FlagModel.ufired s = true /\ FlagModel.fbound s = 0 /\
  FlagModel.cnt s = 9223372036854775807 /\ FlagModel.obs s = [(2%nat, true); (0%nat, true)].
Proof. exact FlagInv.latch_somewhere. Qed.
(* a waiter parked for good: quiescent, counter -1, value 0 = init + posts - successes *)
Example C10_sem_parked_quiescent_somewhere :
  let s := run (init 0) sch_parked in
  Reach 0 s /\ Quiescent s /\ apc (A s 1%nat) = WW /\ parked (Bk s (ab (A s 1%nat))) = true /\
  cnt s = -1 /\ Z.max (cnt s) 0 = 0 + uposts s - succ s.
Proof. exact parked_quiescent_somewhere. Qed.
(* quiescent with a permit left: nobody parked *)
Example C10_sem_permits_left_quiescent_somewhere :
  let s := run (init 0) sch in
  Reach 0 s /\ Quiescent s /\ 0 < 0 + uposts s - succ s /\ cnt s = 1 /\ (forall a, apc (A s a) = Idle).
Proof. exact permits_left_quiescent_somewhere. Qed.
(* a waiter is handed a permit (flag stored), times out before the token arrives and re-posts it; the agent does not *)
Example C10_sem_timed_out_handoff_reposted_somewhere :
  let r := runL (init 0) lv0 sch_race in
  ReachL 0 (fst r) (snd r) /\ fl (snd r) 1%nat = true /\ unp (Bk (fst r) 1%nat) = true /\ rp (snd r) 1%nat = 1%nat /\
  apc (A (fst r) 1%nat) = Idle /\ apc (A (fst r) 2%nat) = Idle /\ ares (A (fst r) 1%nat) = false /\
  cnt (fst r) = 1 /\ uposts (fst r) = 1 /\ succ (fst r) = 0.
Proof. exact race_somewhere. Qed.
(* two waiters park, a user fires: fired, queue empty, everybody has returned true *)
Example C10_flag_fired_all_woken_somewhere :
  let s := FlagModel.run 9223372036854775807 FlagModel.init FlagLiveThm.sch2 in
  FlagModel.Reach 9223372036854775807 s /\ FlagModel.ufired s = true /\ FlagModel.fbound s = 0 /\ FlagModel.q s = [] /\
  FlagModel.apc (FlagModel.A s 0%nat) = FlagModel.Idle /\ FlagModel.apc (FlagModel.A s 1%nat) = FlagModel.Idle /\
  FlagModel.apc (FlagModel.A s 2%nat) = FlagModel.Idle /\ FlagModel.ares (FlagModel.A s 0%nat) = true /\ FlagModel.ares (FlagModel.A s 1%nat) = true.
Proof. exact FlagLiveThm.fired_all_woken_somewhere. Qed.
