(* C10 - Semphore permits are conserved; SyncFlag is a one-way latch.
   Property theorems only: each is closed by `exact` of a lemma proved under Sync/ and followed by
   Print Assumptions.  Models: Sync/SemModel.v, Sync/FlagModel.v (the CURRENT code: SyncBlocker::unpark
   stores `unparked` before the wake-up; try_wait is a load + CAS loop; a timeout / cancel may still
   win after the token was set).  All statements are for every reachable state: any number of
   threads and coroutines, any interleaving of wait / wait_timeout / try_wait / post / get_value
   (wait / wait_timeout / is_fired / fire), any initial value, timeouts and cancellation at any point.
   The quiescence / wake-up statements of the Semphore are in C10_quiesce.v, the hand-off statements in
   C10_handoff.v (separate files so that the Print Assumptions traversals run in parallel). *)
From Coq Require Import List ZArith.
Import ListNotations.
Require Import MayV.Sync.SemModel MayV.Sync.SemInv MayV.Sync.SemThm MayV.Sync.SemPop MayV.Sync.SemAccept.
Require MayV.Sync.FlagModel MayV.Sync.FlagInv MayV.Sync.FlagAccept MayV.Sync.FlagLive MayV.Sync.FlagLiveThm.
Open Scope Z_scope.

(* (i) the number of successful waits never exceeds the initial value plus the number of posts
   (user posts are counted at their fetch_add; re-posts on behalf of waiters that left are not) *)
Theorem C10_sem_permits_conserved :
  forall i s, 0 <= i -> Reach i s -> succ s <= i + uposts s.
Proof. exact permits_conserved. Qed.
Print Assumptions C10_sem_permits_conserved.

(* (ii) the accounting identity: every permit is in the counter, promised to a registered blocker
   (ung: not yet flagged - these are waiters and stale entries; giv: flagged, not yet settled),
   owed as a re-post (owe), or consumed *)
Theorem C10_sem_permit_accounting :
  forall i s, 0 <= i -> Reach i s ->
  cnt s + nl (ung s) + nl (giv s) + nl (owe s) + succ s = i + uposts s.
Proof. exact permit_accounting. Qed.
Print Assumptions C10_sem_permit_accounting.

(* the counter is exact: get_value() = max(cnt, 0) is precisely the number of permits nobody has been promised *)
Theorem C10_sem_counter_exact :
  forall i s, 0 <= i -> Reach i s ->
  cnt s + nl (ung s) - nl (hand s) - nl (pre s) = Z.max (cnt s) 0.
Proof. exact counter_exact. Qed.
Print Assumptions C10_sem_counter_exact.

(* (vi) wakeup_one never pops an empty queue: the `expect("got null blocker!")` is unreachable *)
Theorem C10_sem_pop_never_empty :
  forall i s a, 0 <= i -> Reach i s -> apc (A s a) = K1 -> q s <> [].
Proof. exact pop_never_empty. Qed.
Print Assumptions C10_sem_pop_never_empty.

(* tie: every state along a trace of the real Semphore that the acceptor accepts is a reachable state *)
Theorem C10_sem_accepted_traces_are_model_runs :
  forall tr sx, SemAccept.accept_all SemAccept.m_init tr = Some sx -> exists i, 0 <= i /\ Reach i (fst sx).
Proof. exact SemAccept.accepted_trace_reaches. Qed.
Print Assumptions C10_sem_accepted_traces_are_model_runs.

(* (v) SyncFlag: never fired spuriously ... *)
Theorem C10_flag_no_spurious_fire :
  forall MAX, 0 < MAX -> forall s, FlagModel.Reach MAX s ->
  (0 < FlagModel.cnt s -> FlagModel.ufired s = true) /\
  (forall a, In (a, true) (FlagModel.obs s) -> FlagModel.ufired s = true).
Proof. exact FlagInv.no_spurious_fire. Qed.
Print Assumptions C10_flag_no_spurious_fire.

(* ... and a latch: after the store of a user-level fire() the counter is positive in every later
   state (is_fired() answers true, a wait returns at its first check), provided fewer than MAX =
   isize::MAX waiters were between their is_fired check and their fetch_sub at that store *)
Theorem C10_flag_fired_stays_fired :
  forall MAX, 0 < MAX -> forall s, FlagModel.Reach MAX s ->
  FlagModel.ufired s = true -> FlagModel.fbound s < MAX -> 0 < FlagModel.cnt s.
Proof. exact FlagInv.fired_stays_fired. Qed.
Print Assumptions C10_flag_fired_stays_fired.

(* "waiters registered before the store of fire() are all woken", as safety: once a user-level fire() has
   executed its store (fewer than MAX waiters in flight at that moment, as for the latch), a quiescent
   state has nobody parked - every wait has returned *)
Theorem C10_flag_fired_nobody_parked :
  forall MAX, 0 < MAX -> forall s, FlagModel.Reach MAX s -> FlagLiveThm.Quiescent MAX s ->
  FlagModel.ufired s = true -> FlagModel.fbound s < MAX -> forall a, FlagModel.apc (FlagModel.A s a) = FlagModel.Idle.
Proof. exact FlagLiveThm.fired_quiescent_nobody_parked. Qed.
Print Assumptions C10_flag_fired_nobody_parked.

Theorem C10_flag_accepted_traces_are_model_runs :
  forall tr sx, FlagAccept.accept_all FlagAccept.m_init tr = Some sx -> FlagModel.Reach FlagAccept.MAX (fst sx).
Proof. exact FlagAccept.accepted_trace_reaches. Qed.
Print Assumptions C10_flag_accepted_traces_are_model_runs.

(* non-vacuity *)
Example C10_sem_conserved_somewhere :
  Reach 0 (run (init 0) sch) /\ succ (run (init 0) sch) = 1 /\ uposts (run (init 0) sch) = 2 /\ cnt (run (init 0) sch) = 1.
Proof. exact conserved_somewhere. Qed.
Example C10_flag_latch_somewhere :
  let s := FlagModel.run 9223372036854775807 FlagModel.init FlagInv.sch in
  FlagModel.Reach 9223372036854775807 s /\ FlagModel.ufired s = true /\ FlagModel.fbound s = 0 /\
  FlagModel.cnt s = 9223372036854775807 /\ FlagModel.obs s = [(2%nat, true); (0%nat, true)].
Proof. exact FlagInv.latch_somewhere. Qed.
(* two waiters park, a user fires: fired, queue empty, everybody has returned true *)
Example C10_flag_fired_all_woken_somewhere :
  let s := FlagModel.run 9223372036854775807 FlagModel.init FlagLiveThm.sch2 in
  FlagModel.Reach 9223372036854775807 s /\ FlagModel.ufired s = true /\ FlagModel.fbound s = 0 /\ FlagModel.q s = [] /\
  FlagModel.apc (FlagModel.A s 0%nat) = FlagModel.Idle /\ FlagModel.apc (FlagModel.A s 1%nat) = FlagModel.Idle /\
  FlagModel.apc (FlagModel.A s 2%nat) = FlagModel.Idle /\ FlagModel.ares (FlagModel.A s 0%nat) = true /\ FlagModel.ares (FlagModel.A s 1%nat) = true.
Proof. exact FlagLiveThm.fired_all_woken_somewhere. Qed.
