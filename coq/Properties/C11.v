(* C11 - Condvar loses no notification; Barrier / WaitGroup release exactly when due.
   Property theorems only: each is closed by `exact` of a lemma proved elsewhere and followed by Print Assumptions.
   Model: Sync/CondvarModel.v (abstract C05 mutex + to_wake FIFO + SyncBlocker handshake + Blocker token spec). *)
From Coq Require Import List ZArith.
Import ListNotations.
Require Import MayV.Sync.CondvarModel MayV.Sync.CondvarInv MayV.Sync.CondvarL4 MayV.Sync.CondvarThm MayV.Sync.CondvarAccept
               MayV.Sync.BarrierModel MayV.Sync.BarrierThm MayV.Sync.BarrierCv MayV.Sync.BarrierLive
               MayV.Sync.WaitGroupModel MayV.Sync.WaitGroupThm MayV.Sync.WaitGroupLive.
Open Scope Z_scope.

(* ---- (i) notify_one / notify_all lose nothing ---- *)

(* every notification that found a blocker is consumed by a wait that returned "notified", in flight, waiting to be
   passed on, or was passed on to an empty queue - at every moment of every execution *)
Theorem C11_notify_accounting :
  forall s, Reach s -> nuser s + nall s = nret s + nl (hand s) + nl (giv s) + nl (owe s) + fnone s.
Proof. exact notify_accounting. Qed.
Print Assumptions C11_notify_accounting.

Theorem C11_notification_settled_at_most_once :
  forall s b, Reach s -> (bset (Bk s b) <= 1)%nat /\ (In b (giv s) <-> unp (Bk s b) = true /\ bset (Bk s b) = O).
Proof. exact notification_settled_at_most_once. Qed.
Print Assumptions C11_notification_settled_at_most_once.

(* a waiter that timed out or was cancelled although it had been given the notification passes it on, exactly once *)
Theorem C11_timed_out_waiter_forwards :
  forall s a s', Reach s -> apc (A s a) = E1 -> unp (Bk s (ab (A s a))) = true -> step s (Step a) = Some s' ->
  bset (Bk s (ab (A s a))) = O /\ bset (Bk s' (ab (A s a))) = 1%nat /\ In a (owe s') /\ ~ In (ab (A s a)) (giv s') /\ apc (A s' a) = K1.
Proof. exact timed_out_waiter_forwards. Qed.
Print Assumptions C11_timed_out_waiter_forwards.

Theorem C11_timed_out_waiter_forwards_recheck :
  forall s a s', Reach s -> apc (A s a) = E4 -> rel (Bk s (ab (A s a))) = true -> step s (Step a) = Some s' ->
  bset (Bk s (ab (A s a))) = O /\ bset (Bk s' (ab (A s a))) = 1%nat /\ In a (owe s') /\ ~ In (ab (A s a)) (giv s') /\ apc (A s' a) = K1.
Proof. exact timed_out_waiter_forwards_recheck. Qed.
Print Assumptions C11_timed_out_waiter_forwards_recheck.

(* a registered waiter that has not been flagged is in the queue or in the hands of a notifier about to flag it *)
Theorem C11_unnotified_waiter_is_queued :
  forall s a, Reach s -> waiting (A s a) (ab (A s a)) -> unp (Bk s (ab (A s a))) = false ->
  In (ab (A s a)) (q s) \/ In (ab (A s a)) (held s).
Proof. exact unnotified_waiter_is_queued. Qed.
Print Assumptions C11_unnotified_waiter_is_queued.

Theorem C11_empty_queue_everybody_notified :
  forall s a, Reach s -> q s = [] -> held s = [] -> waiting (A s a) (ab (A s a)) -> unp (Bk s (ab (A s a))) = true.
Proof. exact empty_queue_everybody_notified. Qed.
Print Assumptions C11_empty_queue_everybody_notified.

(* notify_all returns (its pop finds the queue empty) only when every blocker registered so far is flagged or held *)
Theorem C11_notify_all_reaches_everyone :
  forall s, Reach s -> q s = [] -> forall b, (1 <= b < nextb s)%nat -> unp (Bk s b) = true \/ In b (held s).
Proof. exact notify_all_reaches_everyone. Qed.
Print Assumptions C11_notify_all_reaches_everyone.

(* a flagged, suspended waiter can resume or its notifier still has the wake-up store ahead: never stranded *)
Theorem C11_notified_waiter_not_stranded :
  forall s a, Reach s -> apc (A s a) = WW -> unp (Bk s (ab (A s a))) = true ->
  tok (Bk s (ab (A s a))) = true \/ exists x, (apc (A s x) = K3 \/ apc (A s x) = A3) /\ aw (A s x) = ab (A s a).
Proof. exact notified_waiter_not_stranded. Qed.
Print Assumptions C11_notified_waiter_not_stranded.

(* ---- (ii) wait re-acquires the mutex on every return path ---- *)

Theorem C11_wait_holds_mutex :
  forall s a, Reach s -> has_mx (A s a) = true -> mx s = Some a.
Proof. exact wait_holds_mutex. Qed.
Print Assumptions C11_wait_holds_mutex.

Theorem C11_wait_returns_holding_mutex :
  forall s a s', Reach s -> apc (A s a) = P1 -> step s (Step a) = Some s' -> apc (A s' a) = Idle /\ mx s' = Some a.
Proof. exact wait_returns_holding_mutex. Qed.
Print Assumptions C11_wait_returns_holding_mutex.

Theorem C11_canceled_wait_releases_mutex :
  forall s a s', Reach s -> apc (A s a) = C1 -> step s (Step a) = Some s' ->
  mx s = Some a /\ mx s' = None /\ pois s' = pois s /\ apc (A s' a) = Dead.
Proof. exact canceled_wait_releases_mutex. Qed.
Print Assumptions C11_canceled_wait_releases_mutex.

Theorem C11_canceled_only_if_cancelled :
  forall s a, Reach s -> apc (A s a) = C1 -> ccan (A s a) = true /\ aco (A s a) = true.
Proof. exact canceled_only_if_cancelled. Qed.
Print Assumptions C11_canceled_only_if_cancelled.

Theorem C11_timeout_not_early :
  forall s a, Reach s -> apc (A s a) = P1 -> ares (A s a) = 1%nat -> exists dl, adl (A s a) = Some dl /\ dl <= now s.
Proof. exact timeout_not_early. Qed.
Print Assumptions C11_timeout_not_early.

Theorem C11_relock_cancel_disabled :
  forall s a, Reach s -> apc (A s a) = L -> aco (A s a) = true -> cdis (A s a) = S (cdis0 (A s a)).
Proof. exact relock_cancel_disabled. Qed.
Print Assumptions C11_relock_cancel_disabled.

(* ---- (iii) Barrier(n) as a client program (Sync/BarrierModel.v), for every n >= 1 ---- *)
Close Scope Z_scope.

(* a completed generation had exactly n arrivals and exactly one leader *)
Theorem C11_barrier_generation_complete :
  forall n, 1 <= n -> forall s g, BReach n s -> g < gen s -> arr s g = n /\ ldr s g = 1.
Proof. exact barrier_generation_complete. Qed.
Print Assumptions C11_barrier_generation_complete.

(* generation g + 1 cannot complete - not even begin - before generation g has completed *)
Theorem C11_barrier_generations_in_order :
  forall n, 1 <= n -> forall s g, BReach n s -> gen s <= g -> arr s g < n /\ ldr s g = 0 /\ ret s g = 0 /\ (gen s < g -> arr s g = 0).
Proof. exact barrier_generations_in_order. Qed.
Print Assumptions C11_barrier_generations_in_order.

(* nobody passes the barrier before all n parties of its generation have arrived *)
Theorem C11_barrier_no_early_pass :
  forall n, 1 <= n -> forall s g, BReach n s -> 0 < ret s g -> arr s g = n /\ ldr s g = 1.
Proof. exact barrier_no_early_pass. Qed.
Print Assumptions C11_barrier_no_early_pass.

(* every arrival returned (leader or follower) or is still inside wait(): at most n returns per generation *)
Theorem C11_barrier_returns_accounted :
  forall n, 1 <= n -> forall s g, BReach n s ->
  arr s g = ret s g + ldr s g + cntl g (lgen s) (inl s) /\ ret s g + ldr s g <= n.
Proof. intros n H s g R. split; [exact (barrier_arrivals_accounted n H s g R) | exact (barrier_at_most_n_return n H s g R)]. Qed.
Print Assumptions C11_barrier_returns_accounted.

(* the progress half, over the product model (barrier program x Condvar protocol), DESIGN 2.2 quiescence form: when no
   actor has an enabled transition of its own (BQuiescent: neither barrier code nor Condvar code; only new calls, time and
   cancellation could still happen) the mutex is free and every actor has returned from wait(), or is a cancelled
   coroutine that died inside Condvar::wait, or is parked for the generation IN PROGRESS with its blocker unflagged in
   the queue: the leader's notify_all has reached every waiter of every completed generation *)
Theorem C11_barrier_quiescent :
  forall n, 1 <= n -> forall s, BReach n s -> BQuiescent n s ->
  mx (cs s) = None /\
  forall a, bpc s a = BIdle \/ bpc s a = BGone \/
            (bpc s a = BWait /\ apc (A (cs s) a) = WW /\ lgen s a = gen s /\
             unp (Bk (cs s) (ab (A (cs s) a))) = false /\ In (ab (A (cs s) a)) (q (cs s))).
Proof. exact barrier_quiescent. Qed.
Print Assumptions C11_barrier_quiescent.

(* per completed generation exactly n arrivals: the followers that returned + the ONE leader that returned + the cancelled
   coroutines that died inside (each of them a coroutine whose cancel bit is set) *)
Theorem C11_barrier_exactly_n_return :
  forall n, 1 <= n -> forall s g, BReach n s -> BQuiescent n s -> g < gen s ->
  arr s g = n /\ ldr s g = 1 /\ lret s g = 1 /\ ret s g + lret s g + cntl g (lgen s) (inl s) = n /\
  forall a, In a (inl s) -> lgen s a = g -> bpc s a = BGone /\ ccan (A (cs s) a) = true /\ aco (A (cs s) a) = true.
Proof. exact barrier_exactly_n_return. Qed.
Print Assumptions C11_barrier_exactly_n_return.

(* ... without cancellation: exactly n arrivals of every completed generation have returned, exactly one of them as leader *)
Theorem C11_barrier_exactly_n_return_no_cancel :
  forall n, 1 <= n -> forall s g, BReach n s -> BQuiescent n s -> (forall a, ccan (A (cs s) a) = false) -> g < gen s ->
  arr s g = n /\ lret s g = 1 /\ ret s g + lret s g = n.
Proof. exact barrier_exactly_n_return_no_cancel. Qed.
Print Assumptions C11_barrier_exactly_n_return_no_cancel.

(* a waiter parked in a quiescent state belongs to the generation in progress, which has fewer than n arrivals *)
Theorem C11_barrier_parked_only_for_incomplete_generation :
  forall n, 1 <= n -> forall s a, BReach n s -> BQuiescent n s -> bpc s a = BWait -> lgen s a = gen s /\ arr s (gen s) < n.
Proof. exact barrier_parked_only_for_incomplete_generation. Qed.
Print Assumptions C11_barrier_parked_only_for_incomplete_generation.

(* count / generation_id are touched only by the holder of the barrier's mutex (uses C11.ii) *)
Theorem C11_barrier_race_free :
  forall n s, BReach n s -> viol s = false.
Proof. exact barrier_race_free. Qed.
Print Assumptions C11_barrier_race_free.

(* ---- (iv) WaitGroup as a client program (Sync/WaitGroupModel.v) ---- *)

Theorem C11_wg_count_is_live_handles :
  forall s, WReach s -> wcnt s = length (hl s).
Proof. exact wg_count_is_live_handles. Qed.
Print Assumptions C11_wg_count_is_live_handles.

(* wait() returns only when every handle has been dropped (count = 0): never early *)
Theorem C11_wg_wait_returns_only_when_all_dropped :
  forall s a, WReach s -> wpc s a = WRet -> hl s = [] /\ wcnt s = 0.
Proof. exact wg_wait_returns_only_when_all_dropped. Qed.
Print Assumptions C11_wg_wait_returns_only_when_all_dropped.

(* the progress half, over the product model (wait-group program x Condvar protocol), quiescence form: when no actor has
   an enabled transition of its own the mutex is free and every actor is outside every call, or a cancelled coroutine that
   died in Condvar::wait, or parked in the wait loop of wait() WHILE A HANDLE IS STILL ALIVE *)
Theorem C11_wg_quiescent :
  forall s, WReach s -> WQuiescent s ->
  mx (wcs s) = None /\
  forall a, wpc s a = WIdle \/ wpc s a = WGone \/
            (wpc s a = WLw /\ apc (A (wcs s) a) = WW /\ hl s <> [] /\
             unp (Bk (wcs s) (ab (A (wcs s) a))) = false /\ In (ab (A (wcs s) a)) (q (wcs s))).
Proof. exact wg_quiescent. Qed.
Print Assumptions C11_wg_quiescent.

(* no lost notify_all: once every handle has been dropped nobody stays inside wait() *)
Theorem C11_wg_no_waiter_stranded :
  forall s, WReach s -> WQuiescent s -> hl s = [] -> forall a, wpc s a = WIdle \/ wpc s a = WGone.
Proof. exact wg_no_waiter_stranded. Qed.
Print Assumptions C11_wg_no_waiter_stranded.

(* "wait returns exactly when every other clone has been dropped" (safety + quiescence form): never early; not parked once
   the count is zero; parked in a quiescent state only while a handle is alive; WGone is a cancelled coroutine *)
Theorem C11_wg_wait_returns_exactly_when_all_dropped :
  forall s a, WReach s ->
  (wpc s a = WRet -> hl s = [] /\ wcnt s = 0) /\
  (WQuiescent s -> hl s = [] -> wpc s a = WIdle \/ wpc s a = WGone) /\
  (WQuiescent s -> wpc s a = WLw -> hl s <> [] /\ apc (A (wcs s) a) = WW) /\
  (wpc s a = WGone -> ccan (A (wcs s) a) = true /\ aco (A (wcs s) a) = true).
Proof. exact wg_wait_returns_exactly_when_all_dropped. Qed.
Print Assumptions C11_wg_wait_returns_exactly_when_all_dropped.

Theorem C11_wg_never_returns_early :
  forall s, WReach s -> early s = false.
Proof. exact wg_never_returns_early. Qed.
Print Assumptions C11_wg_never_returns_early.

Theorem C11_wg_zero_is_final :
  forall s a, hl s = [] ->
  wstep s (WClone a) = None /\ wstep s (WDrop a) = None /\ (forall co, wstep s (WWait a co) = None) /\ (forall a', wstep s (WGive a a') = None).
Proof. exact wg_zero_is_final. Qed.
Print Assumptions C11_wg_zero_is_final.

Theorem C11_wg_race_free :
  forall s, WReach s -> wviol s = false.
Proof. exact wg_race_free. Qed.
Print Assumptions C11_wg_race_free.

Open Scope Z_scope.
(* ---- tie: every state along an accepted trace of the real Condvar is a reachable state of the model ---- *)
Theorem C11_accepted_traces_are_model_runs :
  forall tr sx, accept_all m_init tr = Some sx -> Reach (fst sx).
Proof. exact accepted_trace_reaches. Qed.
Print Assumptions C11_accepted_traces_are_model_runs.

(* ---- non-vacuity ---- *)
Example C11_notified_somewhere : exists s, run_strict init sch_notify = Some s /\ Reach s /\
  nuser s = 1 /\ nret s = 1 /\ mx s = Some 0%nat /\ apc (A s 0%nat) = Idle /\ ares (A s 0%nat) = 0%nat /\ giv s = [] /\ q s = [].
Proof. exact notified_somewhere. Qed.
Example C11_forwarded_somewhere : exists s, run_strict init sch_forward = Some s /\ Reach s /\
  nuser s = 1 /\ nret s = 1 /\ fnone s = 0 /\ ares (A s 0%nat) = 1%nat /\ ares (A s 1%nat) = 0%nat /\ mx s = Some 1%nat /\
  bset (Bk s 1%nat) = 1%nat /\ bset (Bk s 2%nat) = 1%nat /\ cdis (A s 0%nat) = O.
Proof. exact forwarded_somewhere. Qed.
Example C11_canceled_somewhere : exists s s', run_strict init sch_cancel = Some s /\ Reach s /\ apc (A s 0%nat) = C1 /\ mx s = Some 0%nat /\
  step s (Step 0%nat) = Some s' /\ apc (A s' 0%nat) = Dead /\ mx s' = None /\ pois s' = false.
Proof. exact canceled_somewhere. Qed.
Close Scope Z_scope.
Example C11_barrier_two_generations : exists s, brun 2 binit (bgen 0 1 ++ bgen 1 0) = Some s /\ BReach 2 s /\
  gen s = 2 /\ arr s 0 = 2 /\ arr s 1 = 2 /\ ldr s 0 = 1 /\ ldr s 1 = 1 /\ ret s 0 = 1 /\ ret s 1 = 1 /\ cnt s = 0 /\ inl s = [] /\ viol s = false /\
  bpc s 0 = BIdle /\ bpc s 1 = BIdle /\ mx (cs s) = None.
Proof. exact barrier_two_generations. Qed.
Example C11_barrier_parked_for_next_generation : exists s, brun 2 binit bsched_park = Some s /\ BReach 2 s /\ BQuiescent 2 s /\
  gen s = 1 /\ bpc s 0 = BWait /\ lgen s 0 = 1 /\ bpc s 1 = BIdle /\ arr s 0 = 2 /\ ret s 0 = 1 /\ lret s 0 = 1 /\ arr s 1 = 1.
Proof. exact barrier_parked_for_next_generation. Qed.
Example C11_barrier_three_parties_three_generations : exists s, brun 2 binit (bgen 0 1 ++ bgen 2 0 ++ bgen 1 2) = Some s /\ BReach 2 s /\ BQuiescent 2 s /\
  gen s = 3 /\ (forall g, g < 3 -> arr s g = 2 /\ ldr s g = 1 /\ lret s g = 1 /\ ret s g = 1) /\ inl s = [] /\ viol s = false /\ mx (cs s) = None.
Proof. exact barrier_three_parties_three_generations. Qed.
Example C11_wg_parked_while_handle_alive : exists s, wrun winit wsched_park = Some s /\ WReach s /\ WQuiescent s /\
  wpc s 0 = WLw /\ apc (A (wcs s) 0) = WW /\ hl s = [1] /\ wcnt s = 1.
Proof. exact wg_parked_while_handle_alive. Qed.
Example C11_wg_all_returned : exists s, wrun winit (wsched ++ [WStep 0]) = Some s /\ WReach s /\ WQuiescent s /\
  hl s = [] /\ wpc s 0 = WIdle /\ wpc s 1 = WIdle /\ early s = false.
Proof. exact wg_all_returned. Qed.
Example C11_wg_wait_returns_somewhere : exists s, wrun winit wsched = Some s /\ WReach s /\
  wpc s 0 = WRet /\ hl s = [] /\ wcnt s = 0 /\ wviol s = false /\ early s = false /\ mx (wcs s) = None /\ wpc s 1 = WIdle.
Proof. exact wg_wait_returns_somewhere. Qed.
