(* C11 - Condvar loses no notification; Barrier / WaitGroup release exactly when due.
   Property theorems only: each is closed by `exact` of a lemma proved elsewhere and followed by Print Assumptions.
   Model: Sync/CondvarModel.v (abstract C05 mutex + to_wake FIFO + SyncBlocker handshake + Blocker token spec).
   This file: (i) notifications are not lost, the tie of the Condvar acceptor, non-vacuity.  The other parts of the property are in
   Properties/C11_wait.v (ii: wait re-acquires the mutex), C11_barrier.v / C11_barrier_live.v (iii: Barrier, safety / progress)
   and C11_wg.v (iv: WaitGroup) - separate files so that the Print Assumptions passes run in parallel. *)
From Coq Require Import List ZArith.
Import ListNotations.
Require Import MayV.Sync.CondvarModel MayV.Sync.CondvarInv MayV.Sync.CondvarL4 MayV.Sync.CondvarThm MayV.Sync.CondvarAccept.
Open Scope Z_scope.

(* ---- (i) notify_one / notify_all lose nothing ---- *)

(* every notification that found a blocker is consumed by a wait that returned "notified", in flight, waiting to be
   passed on, or was passed on to an empty queue - at every moment of every execution *)
Theorem C11_notify_accounting :
  forall s, Reach s -> nuser s + nall s = nret s + nl (hand s) + nl (giv s) + nl (owe s) + fnone s.
Proof. exact notify_accounting. Qed.
Print Assumptions C11_notify_accounting.

Theorem C11_notification_settled_at_most_once :
  forall s b, Reach s -> (bset (Bk s b) <= 1)%nat /\ (In b (giv s) <-> unp (Bk s b) = true /\ bset (Bk s b) = O).
Proof. exact notification_settled_at_most_once. Qed.
Print Assumptions C11_notification_settled_at_most_once.

(* a waiter that timed out or was cancelled although it had been given the notification passes it on, exactly once *)
Theorem C11_timed_out_waiter_forwards :
  forall s a s', Reach s -> apc (A s a) = E1 -> unp (Bk s (ab (A s a))) = true -> step s (Step a) = Some s' ->
  bset (Bk s (ab (A s a))) = O /\ bset (Bk s' (ab (A s a))) = 1%nat /\ In a (owe s') /\ ~ In (ab (A s a)) (giv s') /\ apc (A s' a) = K1.
Proof. exact timed_out_waiter_forwards. Qed.
Print Assumptions C11_timed_out_waiter_forwards.

Theorem C11_timed_out_waiter_forwards_recheck :
  forall s a s', Reach s -> apc (A s a) = E4 -> rel (Bk s (ab (A s a))) = true -> step s (Step a) = Some s' ->
  bset (Bk s (ab (A s a))) = O /\ bset (Bk s' (ab (A s a))) = 1%nat /\ In a (owe s') /\ ~ In (ab (A s a)) (giv s') /\ apc (A s' a) = K1.
Proof. exact timed_out_waiter_forwards_recheck. Qed.
Print Assumptions C11_timed_out_waiter_forwards_recheck.

(* a registered waiter that has not been flagged is in the queue or in the hands of a notifier about to flag it *)
Theorem C11_unnotified_waiter_is_queued :
  forall s a, Reach s -> waiting (A s a) (ab (A s a)) -> unp (Bk s (ab (A s a))) = false ->
  In (ab (A s a)) (q s) \/ In (ab (A s a)) (held s).
Proof. exact unnotified_waiter_is_queued. Qed.
Print Assumptions C11_unnotified_waiter_is_queued.

Theorem C11_empty_queue_everybody_notified :
  forall s a, Reach s -> q s = [] -> held s = [] -> waiting (A s a) (ab (A s a)) -> unp (Bk s (ab (A s a))) = true.
Proof. exact empty_queue_everybody_notified. Qed.
Print Assumptions C11_empty_queue_everybody_notified.

(* notify_all returns (its pop finds the queue empty) only when every blocker registered so far is flagged or held *)
Theorem C11_notify_all_reaches_everyone :
  forall s, Reach s -> q s = [] -> forall b, (1 <= b < nextb s)%nat -> unp (Bk s b) = true \/ In b (held s).
Proof. exact notify_all_reaches_everyone. Qed.
Print Assumptions C11_notify_all_reaches_everyone.

(* a flagged, suspended waiter can resume or its notifier still has the wake-up store ahead: never stranded *)
Theorem C11_notified_waiter_not_stranded :
  forall s a, Reach s -> apc (A s a) = WW -> unp (Bk s (ab (A s a))) = true ->
  tok (Bk s (ab (A s a))) = true \/ exists x, (apc (A s x) = K3 \/ apc (A s x) = A3) /\ aw (A s x) = ab (A s a).
Proof. exact notified_waiter_not_stranded. Qed.
Print Assumptions C11_notified_waiter_not_stranded.

(* ---- tie: every state along an accepted trace of the real Condvar is a reachable state of the model ---- *)
Theorem C11_accepted_traces_are_model_runs :
  forall tr sx, accept_all m_init tr = Some sx -> Reach (fst sx).
Proof. exact accepted_trace_reaches. Qed.
Print Assumptions C11_accepted_traces_are_model_runs.

(* ---- non-vacuity ---- *)
Example C11_notified_somewhere : exists s, run_strict init sch_notify = Some s /\ Reach s /\
  nuser s = 1 /\ nret s = 1 /\ mx s = Some 0%nat /\ apc (A s 0%nat) = Idle /\ ares (A s 0%nat) = 0%nat /\ giv s = [] /\ q s = [].
Proof. exact notified_somewhere. Qed.
Example C11_forwarded_somewhere : exists s, run_strict init sch_forward = Some s /\ Reach s /\
  nuser s = 1 /\ nret s = 1 /\ fnone s = 0 /\ ares (A s 0%nat) = 1%nat /\ ares (A s 1%nat) = 0%nat /\ mx s = Some 1%nat /\
  bset (Bk s 1%nat) = 1%nat /\ bset (Bk s 2%nat) = 1%nat /\ cdis (A s 0%nat) = O.
Proof. exact forwarded_somewhere. Qed.
Example C11_canceled_somewhere : exists s s', run_strict init sch_cancel = Some s /\ Reach s /\ apc (A s 0%nat) = C1 /\ mx s = Some 0%nat /\
  step s (Step 0%nat) = Some s' /\ apc (A s' 0%nat) = Dead /\ mx s' = None /\ pois s' = false.
Proof. exact canceled_somewhere. Qed.
