(* C16: cqueue consumes each event once; select! returns a fully run arm.
   Model: Rt/CqueueModel.v (the code as it is now; `current`).  Every theorem is about EVERY reachable state: any number
   of select coroutines and events, any program of the owner and of the arms, any schedule.  Only statements here;
   the proofs are in Rt/CqueueThm.v (invariant: Rt/CqueueInv.v, preserved by every transition: Rt/CqueuePres1-7.v),
   the refutations of the pre-fix variants in Rt/CqueueRefute.v. *)
From Coq Require Import List Arith Bool ZArith.
Import ListNotations.
Require Import MayV.Rt.CqueueModel MayV.Rt.CqueueInv MayV.Rt.CqueueThm MayV.Rt.CqueueRefute.

(* ---- (i) each event is consumed exactly once and its bottom half runs exactly once, at that moment ---- *)

(* pushed at most once, popped at most once and only after the push *)
Theorem C16_event_consumed_at_most_once :
  forall s, Reach current s -> forall e, epop s e <= epush s e /\ epush s e <= 1.
Proof. exact event_consumed_at_most_once. Qed.
Print Assumptions C16_event_consumed_at_most_once.

(* the queue holds exactly the events pushed and not popped, each once *)
Theorem C16_queue_is_pushed_minus_popped :
  forall s, Reach current s ->
    NoDup (qall s) /\ (forall e, In (ENormal e) (qall s) <-> (epush s e = 1 /\ epop s e = 0))
    /\ (forall a, In (EDone a) (qall s) <-> (dpush s a = 1 /\ dpop s a = 0)).
Proof. exact queue_is_pushed_minus_popped. Qed.
Print Assumptions C16_queue_is_pushed_minus_popped.

(* the transition that consumes event e is the transition that starts its bottom half: the event was pushed and not
   consumed before, its coroutine was suspended, it now runs the bottom half of exactly e's round, inline in the poller *)
Theorem C16_consume_starts_bottom :
  forall s ac s' e, Reach current s -> step current s ac = Some s' -> epop s' e = S (epop s e) ->
    ac = OStep /\ epop s e = 0 /\ epush s e = 1 /\ pc s (earm s e) = ASusp /\ pc s' (earm s e) = ABot /\
    bots s' (earm s e) = S (bots s (earm s e)) /\ bots s' (earm s e) = ernd s e /\ opc s' = PRun /\ ocur s' = earm s e /\ oev s' = e.
Proof. exact consume_starts_bottom. Qed.
Print Assumptions C16_consume_starts_bottom.

(* ... and no other transition starts a bottom half *)
Theorem C16_bottom_starts_only_at_consumption :
  forall s ac s' a, Reach current s -> step current s ac = Some s' -> bots s' a <> bots s a ->
    exists e, earm s e = a /\ epop s' e = S (epop s e) /\ bots s' a = S (bots s a).
Proof. exact bottom_starts_only_at_consumption. Qed.
Print Assumptions C16_bottom_starts_only_at_consumption.

(* never before or without its own top half, never twice: per arm
   bottom halves started <= events sent <= top halves completed <= bottom halves started + 1 *)
Theorem C16_bottom_never_before_or_without_top :
  forall s, Reach current s -> forall a, bots s a <= sent s a /\ sent s a <= tops s a /\ tops s a <= S (bots s a).
Proof. exact bottom_never_before_or_without_top. Qed.
Print Assumptions C16_bottom_never_before_or_without_top.

(* per event: not consumed => its coroutine is suspended in it and its bottom half has not run; consumed => it has *)
Theorem C16_bottom_half_iff_consumed :
  forall s, Reach current s -> forall e, e < nexte s ->
    1 <= ernd s e /\ ernd s e <= tops s (earm s e) /\
    (epop s e = 0 -> pc s (earm s e) = ASusp /\ acur s (earm s e) = e /\ bots s (earm s e) < ernd s e) /\
    (epop s e = 1 -> ernd s e <= bots s (earm s e)).
Proof. exact bottom_half_iff_consumed. Qed.
Print Assumptions C16_bottom_half_iff_consumed.

(* when poll returns Ok(ev): ev was pushed and consumed once, its bottom half has run exactly once (bots = its round) and
   has finished - unless the bottom half blocked on something else; then it continues on a worker.  The property's
   text does not mention that case: a bottom half that blocks is returned "half run" by the real code, too *)
Theorem C16_poll_ok_bottom_has_run :
  forall s, Reach current s -> returns_ok s ->
    earm s (oev s) = ocur s /\ epush s (oev s) = 1 /\ epop s (oev s) = 1 /\
    1 <= ernd s (oev s) /\ bots s (ocur s) = ernd s (oev s) /\ ernd s (oev s) <= tops s (ocur s) /\
    (botd s (ocur s) = bots s (ocur s) \/ byield s (ocur s) = true).
Proof. exact poll_ok_bottom_has_run. Qed.
Print Assumptions C16_poll_ok_bottom_has_run.

(* ---- (ii) Finished / Timeout ---- *)
Theorem C16_finished_only_when_all_ended :
  forall s, Reach current s -> returns_finished s ->
    all_gone s /\ evq s = [] /\
    (forall a, a < nexta s -> pc s a = ADone /\ dpush s a = 1 /\ dpop s a = 1) /\
    (forall e, e < nexte s -> epush s e = 1 /\ epop s e = 1).
Proof. exact finished_only_when_all_ended. Qed.
Print Assumptions C16_finished_only_when_all_ended.

Theorem C16_timeout_only_after_deadline :
  forall s, Reach current s -> returns_timeout s -> ofin s = 0 ->
    exists d, oto s = Some d /\ (ocall s + d <= now s)%Z /\ (ocall s <= now s)%Z.
Proof. exact timeout_only_after_deadline. Qed.
Print Assumptions C16_timeout_only_after_deadline.

Theorem C16_drain_never_times_out :
  forall s, Reach current s -> ofin s <> 0 -> returns_timeout s -> False.
Proof. exact drain_never_times_out. Qed.
Print Assumptions C16_drain_never_times_out.

(* ---- (iii) no lost wake-up of the poller (quiescence form) ---- *)
Theorem C16_no_lost_wakeup :
  forall s, Reach current s -> quiescent s -> parked s -> (evq s <> [] \/ cnt s = 0%Z) -> tok s (ob s) = true.
Proof. exact no_lost_wakeup. Qed.
Print Assumptions C16_no_lost_wakeup.

Theorem C16_no_lost_wakeup_enabled :
  forall s, Reach current s -> quiescent s -> opc s = P5w -> (evq s <> [] \/ cnt s = 0%Z) ->
    exists s', step current s OStep = Some s'.
Proof. exact no_lost_wakeup_enabled. Qed.
Print Assumptions C16_no_lost_wakeup_enabled.

(* ---- (iv) scope / select! exit; the returned token; panics ---- *)
(* when cqueue::scope (select!) has returned or unwound: every select coroutine has ended, every kernel half is through,
   the queue is empty, every event (Normal and Done) was pushed once and consumed once, every event's bottom half ran *)
Theorem C16_scope_left_all_gone :
  forall s, Reach current s -> oleft s = true ->
    all_gone s /\ evq s = [] /\
    (forall a, a < nexta s -> dpush s a = 1 /\ dpop s a = 1 /\ bots s a = sent s a) /\
    (forall e, e < nexte s -> epush s e = 1 /\ epop s e = 1).
Proof. exact scope_left_all_gone. Qed.
Print Assumptions C16_scope_left_all_gone.

Theorem C16_returned_token_fully_run :
  forall s, Reach current s -> returns_ok s -> 1 <= tops s (ocur s) /\ 1 <= bots s (ocur s).
Proof. exact returned_token_fully_run. Qed.
Print Assumptions C16_returned_token_fully_run.

Theorem C16_panic_reraised_at_most_once :
  forall s, Reach current s -> rer s <= 1 /\ (rer s = 1 <-> ispan s = true).
Proof. exact panic_reraised_at_most_once. Qed.
Print Assumptions C16_panic_reraised_at_most_once.

Theorem C16_reraised_payload_is_an_arms :
  forall s, Reach current s -> forall p, rerp s = Some p -> exists a, ares s a = RPanic p.
Proof. exact reraised_payload_is_an_arms. Qed.
Print Assumptions C16_reraised_payload_is_an_arms.

(* the panic of an arm is not lost: when the scope is left and some arm panicked, a panic WAS re-raised in the poller
   (the first one seen; later ones are only waited for).  Whether it leaves the scope is the owner's business: it is
   caught by the final drain and re-raised by finish(false), or swallowed when the owner itself unwinds (Drop). *)
Theorem C16_scope_left_panic_reraised :
  forall s, Reach current s -> oleft s = true -> forall a p, a < nexta s -> ares s a = RPanic p ->
    rer s = 1 /\ exists q, rerp s = Some q.
Proof. exact scope_left_panic_reraised. Qed.
Print Assumptions C16_scope_left_panic_reraised.

(* ---- what the repairs are about ---- *)
Theorem C16_no_bug : forall s, Reach current s -> opc s <> OBug.
Proof. exact no_bug. Qed.
Print Assumptions C16_no_bug.

Theorem C16_drain_and_join_not_cancellable :
  forall s, Reach current s -> oco s = true -> ((ofin s <> 0 /\ inpoll (opc s) = true) \/ opc s = CJ) -> cancel_due s = false.
Proof. exact drain_and_join_not_cancellable. Qed.
Print Assumptions C16_drain_and_join_not_cancellable.

Theorem C16_done_arm_has_no_kernel_half :
  forall s, Reach current s -> forall e, e < nexte s -> pc s (earm s e) = ADone -> kpc s e = KDone /\ epop s e = 1.
Proof. exact done_arm_has_no_kernel_half. Qed.
Print Assumptions C16_done_arm_has_no_kernel_half.

Theorem C16_consumed_done_is_joined :
  forall s, Reach current s -> forall a, dpop s a = 1 -> arm_done s a \/ ((opc s = C0 \/ opc s = CJ) /\ ocur s = a).
Proof. exact consumed_done_is_joined. Qed.
Print Assumptions C16_consumed_done_is_joined.

(* ---- the pre-fix code violates the statements (model witnesses, vm_compute) ---- *)
Theorem C16_F19_scope_left_refuted : exists s a, Reach f19 s /\ oleft s = true /\ a < nexta s /\ ~ arm_done s a.
Proof. exact F19_scope_left_refuted. Qed.
Print Assumptions C16_F19_scope_left_refuted.
Theorem C16_F25_finished_refuted : exists s a, Reach f25 s /\ returns_finished s /\ a < nexta s /\ ~ arm_done s a.
Proof. exact F25_finished_refuted. Qed.
Print Assumptions C16_F25_finished_refuted.
Theorem C16_F29_scope_left_refuted : exists s e, Reach f29 s /\ oleft s = true /\ e < nexte s /\ kactive (kpc s e) = true.
Proof. exact F29_scope_left_refuted. Qed.
Print Assumptions C16_F29_scope_left_refuted.
Theorem C16_F27_bottom_without_event_refuted : exists s a, Reach f27 s /\ sent s a < bots s a.
Proof. exact F27_bottom_without_event_refuted. Qed.
Print Assumptions C16_F27_bottom_without_event_refuted.

(* ---- non-vacuity: the hypotheses are satisfiable on the current code ---- *)
Example C16_poll_ok_reachable : exists s, Reach current s /\ returns_ok s /\ oev s < nexte s.
Proof. exact poll_ok_reachable. Qed.
Example C16_scope_left_reachable :
  exists s, Reach current s /\ oleft s = true /\ nexta s = 2 /\ nexte s = 2 /\ bots s 0 = 1 /\ bots s 1 = 1.
Proof. exact scope_left_reachable. Qed.
Example C16_finished_reachable : exists s, Reach current s /\ returns_finished s /\ nexta s = 1.
Proof. exact finished_reachable. Qed.
Example C16_timeout_reachable : exists s, Reach current s /\ returns_timeout s /\ ofin s = 0.
Proof. exact timeout_reachable. Qed.
Example C16_parked_with_event_reachable :
  exists s, Reach current s /\ opc s = P5w /\ evq s <> [] /\ nexta s = 1 /\ nexte s = 1 /\ kpc s 0 = KDone /\ pc s 0 = ASusp /\ tok s (ob s) = true.
Proof. exact parked_with_event_reachable. Qed.
