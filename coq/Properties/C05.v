(* C05 - may::sync::Mutex: mutual exclusion and no stranded waiter, for threads and coroutines.
   Property theorems only: each is closed by `exact` of a lemma proved in Sync/Mutex*.v and followed by
   Print Assumptions.  Model: Sync/MutexModel.v (the code as it is now in /repo, i.e. after the fix:
   commit for finding F1).  Quantifiers: any number of actors and blockers, any assignment of
   thread/coroutine kinds (isco), any client program (Start / StartTry / Read / Write chosen by the
   schedule), cancellation of any coroutine at any point (Cancel, CKick), callers with the cancel
   disabled (Condvar::wait's re-lock: Start a true), every interleaving of single shared accesses. *)
From Coq Require Import List Arith Bool ZArith.
Import ListNotations.
Require Import MayV.Sync.MutexModel MayV.Sync.MutexME MayV.Sync.MutexLive7 MayV.Sync.MutexPop MayV.Sync.MutexThm
               MayV.Sync.MutexAccept.
Require MayV.Sync.MutexModelV0 MayV.Sync.MutexRefuted MayV.Sync.MutexModelV1 MayV.Sync.MutexRefutedV1.

(* (i) at most one thread or coroutine is inside the critical section *)
Theorem C05_mutual_exclusion :
  forall isco s a a', Reach isco s -> in_cs (apc (A s a)) = true -> in_cs (apc (A s a')) = true -> a = a'.
Proof. exact mutual_exclusion. Qed.
Print Assumptions C05_mutual_exclusion.

(* (i) stronger: critical section, unlock in progress (own, or forwarded for a cancelled waiter), pop and
   flagging of the next waiter all belong to one single actor at a time *)
Theorem C05_single_owner :
  forall isco s a a', Reach isco s -> owns (apc (A s a)) = true -> owns (apc (A s a')) = true -> a = a'.
Proof. exact single_owner. Qed.
Print Assumptions C05_single_owner.

(* (i) data written under the lock is seen by the next holder: a holder that has read the payload holds
   the value of the last write under the lock, and no update is lost *)
Theorem C05_holder_sees_last_write :
  forall isco s a, Reach isco s -> apc (A s a) = CSw -> aloc (A s a) = data s.
Proof. exact holder_sees_last_write. Qed.
Print Assumptions C05_holder_sees_last_write.

Theorem C05_no_lost_update : forall isco s, Reach isco s -> data s = nwr s.
Proof. exact no_lost_update. Qed.
Print Assumptions C05_no_lost_update.

(* (ii) try_lock is one step (never blocks, never registers), succeeds exactly from cnt = 0, and then the
   lock has no owner and nobody is inside *)
Theorem C05_try_lock_never_blocks_succeeds_only_when_free :
  forall isco s a, Reach isco s -> apc (A s a) = T0 ->
  exists s', step isco s (Step a) = Some s' /\
    ((cnt s = 0 /\ apc (A s' a) = CS /\ holder s = HNone /\ (forall a', in_cs (apc (A s a')) = false))
     \/ (cnt s <> 0 /\ apc (A s' a) = Idle /\ cnt s' = cnt s /\ q s' = q s)).
Proof. exact try_lock_spec. Qed.
Print Assumptions C05_try_lock_never_blocks_succeeds_only_when_free.

Theorem C05_cas_succeeds_only_on_a_free_lock :
  forall isco s, Reach isco s -> cnt s = 0 -> holder s = HNone /\ forall a', in_cs (apc (A s a')) = false.
Proof. exact cas_only_when_free. Qed.
Print Assumptions C05_cas_succeeds_only_on_a_free_lock.

(* (iii) cnt = owner + registered waiters *)
Theorem C05_cnt_counts_owner_and_waiters :
  forall isco s, Reach isco s -> cnt s = length (ent s) /\ NoDup (ent s) /\ (ent s <> [] <-> holder s <> HNone).
Proof. exact cnt_is_counted. Qed.
Print Assumptions C05_cnt_counts_owner_and_waiters.

(* (iii) the `expect("got null blocker!")` of lock()/unlock() is unreachable *)
Theorem C05_pop_never_finds_the_queue_empty :
  forall isco s h, Reach isco s -> apc (A s h) = H1 -> q s <> [].
Proof. exact pop_never_empty. Qed.
Print Assumptions C05_pop_never_finds_the_queue_empty.

(* (iii) no stranded waiter, quiescence form: if no actor can take a step of the protocol (holders may stay
   inside) and nobody is inside the critical section, then nobody is parked in lock() - also when waiters
   were cancelled at arbitrary points, with the cancel enabled or disabled, threads and coroutines mixed *)
Theorem C05_no_stranded_waiter :
  forall isco s, Reach isco s -> Stable isco s -> (forall a, in_cs (apc (A s a)) = false) ->
  forall a, apc (A s a) <> W.
Proof. exact no_stranded_waiter. Qed.
Print Assumptions C05_no_stranded_waiter.

(* (iv) handshake: a hand-off to a waiter that has left by the cancel panic is never dropped ... *)
Theorem C05_handshake_gone_owner_is_forwarded :
  forall isco s b, Reach isco s -> holder s = HB b -> apc (A s (owner (Bk s b))) = Exit ->
  rel (Bk s b) = true /\ unp (Bk s b) = true /\ unparker_before_take_release s b.
Proof. exact handshake_gone_owner_forwarded. Qed.
Print Assumptions C05_handshake_gone_owner_is_forwarded.

(* ... a set `release` flag stands for exactly one owed unlock of a counted, departed waiter ... *)
Theorem C05_handshake_release_is_an_owed_unlock :
  forall isco s b, Reach isco s -> rel (Bk s b) = true ->
  let o := owner (Bk s b) in ab (A s o) = b /\ 1 <= b /\ MutexInv.halfgone (A s o) = true /\ In o (ent s).
Proof. exact release_means_owed_unlock. Qed.
Print Assumptions C05_handshake_release_is_an_owed_unlock.

(* ... and is forwarded at most once: the forwarding actor is the single owner, the flag is consumed *)
Theorem C05_handshake_forwarded_once :
  forall isco s a, Reach isco s -> apc (A s a) = U0 -> afor (A s a) <> a ->
  holder s = HA a /\ In (afor (A s a)) (ent s) /\ MutexInv.halfgone (A s (afor (A s a))) = true /\
  rel (Bk s (ab (A s (afor (A s a))))) = false.
Proof. exact forwarded_unlock_is_unique. Qed.
Print Assumptions C05_handshake_forwarded_once.

(* (v) an unlock chain over released waiters is bounded by the queue length *)
Theorem C05_unlock_chain_shrinks_queue :
  forall isco s a s', step isco s (Step a) = Some s' ->
  match apc (A s a) with
  | H1 => S (length (q s')) = length (q s)
  | H2 | H3 | H3w | H4 | U0 => q s' = q s
  | _ => True
  end.
Proof. exact chain_step_shrinks_queue. Qed.
Print Assumptions C05_unlock_chain_shrinks_queue.

(* Tie: every state along a trace of the real Mutex that the acceptor accepts is a reachable state of the
   model, hence satisfies all theorems above *)
Theorem C05_accepted_traces_are_model_runs :
  forall tr s s', Reach all_co (ms s) -> accept_all s tr = Some s' -> Reach all_co (ms s').
Proof. exact accept_all_reach. Qed.
Print Assumptions C05_accepted_traces_are_model_runs.

(* The theorems are not vacuous, and this is what the fix: commit 456533c repaired: on the model of the
   code before the fix two actors are inside the critical section (finding F1) ... *)
Theorem C05_prefix_code_refuted :
  exists s, MutexModelV0.Reach MutexRefuted.isco s /\
            MutexModelV0.apc (MutexModelV0.A s 0) = MutexModelV0.CS /\
            MutexModelV0.apc (MutexModelV0.A s 2) = MutexModelV0.CS.
Proof. exact MutexRefuted.mutual_exclusion_refuted_before_fix. Qed.
Print Assumptions C05_prefix_code_refuted.

(* ... and with only the mutex.rs half of the repair a waiter is stranded *)
Theorem C05_half_fix_refuted :
  exists s, MutexModelV1.Reach MutexRefutedV1.isco s /\ MutexRefutedV1.Stable s /\
            (forall a, MutexModelV1.apc (MutexModelV1.A s a) <> MutexModelV1.CS) /\
            (forall a, MutexModelV1.apc (MutexModelV1.A s a) <> MutexModelV1.H1) /\
            MutexModelV1.apc (MutexModelV1.A s 0) = MutexModelV1.W /\ MutexModelV1.cnt s = 1.
Proof. exact MutexRefutedV1.no_stranded_waiter_refuted_half_fix. Qed.
Print Assumptions C05_half_fix_refuted.

(* ---- non-vacuity: the hypotheses of the implications are satisfiable by reachable states ---- *)
Definition isco01 (a : nat) := negb (Nat.eqb a 1).       (* 0, 2, ... coroutines; 1 a thread *)

(* thread 1 inside the critical section (has read the payload), coroutine 0 suspended in lock(): the state is
   quiescent (so `Stable` alone does not exclude parked waiters: the premise "nobody inside" matters) *)
Definition sched_holder_and_waiter : list action :=
  [Start 1 false; Step 1; Start 0 false; Step 0; Step 0; Step 0; Step 0; Step 0; Read 1].
Example C05_ex_holder_and_parked_waiter :
  let s := run isco01 init sched_holder_and_waiter in
  Reach isco01 s /\ apc (A s 1) = CSw /\ apc (A s 0) = W /\ cnt s = 2 /\ Stable isco01 s.
Proof.
  split; [apply run_reach, R0|]. repeat split; try (vm_compute; reflexivity).
  - destruct a as [|[|[|a]]]; vm_compute; auto.
  - destruct a as [|[|[|a]]]; vm_compute; auto.
Qed.

(* a pop is reachable, with the queue not empty *)
Example C05_ex_pop_reachable :
  let s := run isco01 init (sched_holder_and_waiter ++ [Write 1; Step 1; Step 1]) in
  Reach isco01 s /\ apc (A s 1) = H1 /\ q s = [1].
Proof. split; [apply run_reach, R0 | vm_compute; auto]. Qed.

(* the lock in transit to a waiter that has left by the cancel panic: hypothesis of the handshake theorem *)
Example C05_ex_handoff_to_gone_owner :
  let s := run isco01 init (sched_holder_and_waiter ++
             [Cancel 0; CKick 0; Step 0; Step 0; Step 0; Step 0; Write 1; Step 1; Step 1; Step 1; Step 1]) in
  Reach isco01 s /\ holder s = HB 1 /\ apc (A s (owner (Bk s 1))) = Exit /\ rel (Bk s 1) = true /\ apc (A s 1) = H3.
Proof. split; [apply run_reach, R0 | vm_compute; auto 6]. Qed.

(* ... and the forwarding unlock that follows: U0 on behalf of the departed actor 0 *)
Example C05_ex_forwarding_unlock :
  let s := run isco01 init (sched_holder_and_waiter ++
             [Cancel 0; CKick 0; Step 0; Step 0; Step 0; Step 0; Write 1; Step 1; Step 1; Step 1; Step 1; Step 1; Step 1; Step 1]) in
  Reach isco01 s /\ apc (A s 1) = U0 /\ afor (A s 1) = 0 /\ cnt s = 1.
Proof. split; [apply run_reach, R0 | vm_compute; auto]. Qed.

(* try_lock from a free and from a taken lock *)
Example C05_ex_try_lock :
  let s0 := run isco01 init [StartTry 2] in
  let s1 := run isco01 init [Start 1 false; Step 1; StartTry 2] in
  apc (A s0 2) = T0 /\ cnt s0 = 0 /\ apc (A (run isco01 s0 [Step 2]) 2) = CS /\
  apc (A s1 2) = T0 /\ cnt s1 = 1 /\ apc (A (run isco01 s1 [Step 2]) 2) = Idle.
Proof. vm_compute. auto 7. Qed.

(* the cancel-disabled re-lock (Condvar::wait) that is cancelled while it waits keeps waiting and gets the lock *)
Example C05_ex_cancel_disabled_relock :
  let s := run isco01 init
     [Start 1 false; Step 1; Start 0 true; Step 0; Step 0; Step 0; Step 0; Step 0; Cancel 0; CKick 0; Step 0; Step 0;
      Step 0; Step 0; Step 1; Step 1; Step 1; Step 1; Step 1; Step 1; Step 1; Step 0] in
  Reach isco01 s /\ apc (A s 0) = CS /\ apc (A s 1) = Idle /\ cnt s = 1 /\ acanc (A s 0) = true.
Proof. split; [apply run_reach, R0 | vm_compute; auto]. Qed.

(* the acceptor accepts a (hand-written) uncontended lock / read / write / unlock trace of one thread *)
Example C05_ex_acceptor :
  match accept_all ainit [[1;1;7;0]; [2;1;0;0]; [20;1;1;1]; [3;1;0;0]; [14;1;0;0]; [15;1;0;1]; [6;1;0;0]; [22;1;1;1]; [7;1;0;0]]%Z with
  | Some s => final_ok s = true /\ data (ms s) = 1
  | None => False end.
Proof. vm_compute. auto. Qed.
