(* C15 - coroutine-local storage is private; a fresh coroutine starts clean.  Property theorems only: each is
   closed by `exact` of a lemma proved elsewhere and followed by Print Assumptions.
   Model: Rt/LocalModel.v.  (a) storage: a CoroutineLocal box per spawn with its key -> value map, the raw
   pointer to it in the generator, `LocalKey::with` executed by a thread and resolved through the generator
   that runs on that thread (thread fallback map otherwise), any number of coroutines, keys and threads,
   resumption on any free thread.  (b) hygiene: a FIFO pool of generators whose `para` slot persists; spawn,
   the blocking calls of all kinds (yield_now, Park with/without timeout and ignore_cancel, sleep, fast park,
   socket io, select send, spsc recv, wait_io), their wakers (event, unpark, timer, cancel, re-check), the
   cancelled short-cut of yield_with, yield_back, get_co_para, panics and unwinding, drop_coroutine.
   `current n` is the code as it is in /repo with pool capacity n; `prefix n` the code before commit 172d8b3
   (finding F30).  Theorems about `cf` hold for every configuration (any initialiser, with and without the
   repair). *)
From Coq Require Import List Arith Bool ZArith.
Import ListNotations.
Require Import MayV.Rt.LocalModel MayV.Rt.LocalTac MayV.Rt.LocalThm.

(* ------------------------------------------------------------------------------------------ (a) storage *)

(* On a thread that runs coroutine c, get_co_local_data() finds c's own CoroutineLocal, and it exists. *)
Theorem C15_running_coroutine_resolves_to_its_own_storage :
  forall cf s t c, Reach cf s -> trunm s t = Some c -> cur_local s t = Some c /\ alivem s c = true.
Proof. exact running_resolves_to_own_local. Qed.
Print Assumptions C15_running_coroutine_resolves_to_its_own_storage.

(* `KEY.with` in coroutine c (on whatever thread t it runs): the value seen is c's own entry, created by the
   initialiser iff it did not exist (the initialiser runs then, exactly now, for (c,k) and for nobody else);
   only the entry (c,k) is written: c's other keys, EVERY other coroutine's map and EVERY thread's fallback
   map are unchanged. *)
Theorem C15_with_reads_or_creates_only_its_own_entry :
  forall cf s t c k s', Reach cf s -> trunm s t = Some c -> step cf s (With t k) = Some s' ->
  lastrm s' t = Some (entry cf (lmapm s c) k) /\ lmapm s' c k = Some (entry cf (lmapm s c) k) /\
  (forall k', k' <> k -> lmapm s' c k' = lmapm s c k') /\
  (forall d, d <> c -> lmapm s' d = lmapm s d) /\
  (forall u, tmapm s' u = tmapm s u) /\
  ninitm s' c k = ninitm s c k + fresh01 (lmapm s c) k /\
  (forall d k', (d, k') <> (c, k) -> ninitm s' d k' = ninitm s d k') /\
  (forall u k', tninitm s' u k' = tninitm s u k').
Proof. exact with_in_coroutine. Qed.
Print Assumptions C15_with_reads_or_creates_only_its_own_entry.

(* The same for a store through the reference `with` hands out (interior mutability). *)
Theorem C15_store_writes_only_its_own_entry :
  forall cf s t c k v s', Reach cf s -> trunm s t = Some c -> step cf s (SetV t k v) = Some s' ->
  lastrm s' t = Some v /\ lmapm s' c k = Some v /\
  (forall k', k' <> k -> lmapm s' c k' = lmapm s c k') /\
  (forall d, d <> c -> lmapm s' d = lmapm s d) /\
  (forall u, tmapm s' u = tmapm s u) /\
  ninitm s' c k = ninitm s c k + fresh01 (lmapm s c) k /\
  (forall d k', (d, k') <> (c, k) -> ninitm s' d k' = ninitm s d k') /\
  (forall u k', tninitm s' u k' = tninitm s u k').
Proof. exact store_in_coroutine. Qed.
Print Assumptions C15_store_writes_only_its_own_entry.

(* In thread context the key falls back to the per-thread map: only the entry (t,k) is touched, no
   coroutine's map and no other thread's. *)
Theorem C15_thread_context_uses_the_thread_fallback :
  forall cf s t k s', trunm s t = None -> step cf s (With t k) = Some s' ->
  lastrm s' t = Some (entry cf (tmapm s t) k) /\ tmapm s' t k = Some (entry cf (tmapm s t) k) /\
  (forall k', k' <> k -> tmapm s' t k' = tmapm s t k') /\
  (forall u, u <> t -> tmapm s' u = tmapm s u) /\
  (forall d, lmapm s' d = lmapm s d) /\
  tninitm s' t k = tninitm s t k + fresh01 (tmapm s t) k /\
  (forall d k', ninitm s' d k' = ninitm s d k').
Proof. exact with_in_thread. Qed.
Print Assumptions C15_thread_context_uses_the_thread_fallback.

(* Frame: NO transition other than c's own accesses, its spawn and the drop at its end changes c's map or
   runs an initialiser for c: not its yields and blocking calls, not its resumption on another worker
   (migration), not the wakers, not what other coroutines and threads do - so its values are unchanged by
   yields and migration and invisible to everybody else (nobody else's access reads or writes them). *)
Theorem C15_values_unchanged_by_everything_else :
  forall cf s a s' c, Reach cf s -> step cf s a = Some s' ->
  (forall t k, a = With t k -> trunm s t <> Some c) -> (forall t k v, a = SetV t k v -> trunm s t <> Some c) ->
  (forall g, a <> Spawn c g) -> a <> DFree c ->
  lmapm s' c = lmapm s c /\ (forall k, ninitm s' c k = ninitm s c k).
Proof. exact local_map_frame. Qed.
Print Assumptions C15_values_unchanged_by_everything_else.

Theorem C15_thread_values_unchanged_by_everything_else :
  forall cf s a s' t, step cf s a = Some s' ->
  (forall k, a = With t k -> exists c, trunm s t = Some c) -> (forall k v, a = SetV t k v -> exists c, trunm s t = Some c) ->
  tmapm s' t = tmapm s t /\ (forall k, tninitm s' t k = tninitm s t k).
Proof. exact thread_map_frame. Qed.
Print Assumptions C15_thread_values_unchanged_by_everything_else.

(* The initialiser runs at most once per (coroutine, key) - exactly once iff the entry exists - and per (thread, key). *)
Theorem C15_initialiser_runs_exactly_once_per_coroutine_and_key :
  forall cf s c k, Reach cf s ->
  ninitm s c k <= 1 /\ (alivem s c = true -> (ninitm s c k = 1 <-> lmapm s c k <> None)).
Proof. exact initialiser_once. Qed.
Print Assumptions C15_initialiser_runs_exactly_once_per_coroutine_and_key.

Theorem C15_initialiser_runs_exactly_once_per_thread_and_key :
  forall cf s t k, Reach cf s -> tninitm s t k <= 1 /\ (tninitm s t k = 1 <-> tmapm s t k <> None).
Proof. exact thread_initialiser_once. Qed.
Print Assumptions C15_initialiser_runs_exactly_once_per_thread_and_key.

(* Every value a coroutine created is dropped exactly once, after the coroutine has ended (normal return,
   panic or cancel: all end in Done::drop_coroutine), and never before. *)
Theorem C15_values_dropped_exactly_once_at_the_end :
  forall cf s c k, Reach cf s ->
  (pcm s c = PDone -> ndropm s c k = ninitm s c k /\ lmapm s c k = None) /\ (pcm s c <> PDone -> ndropm s c k = 0).
Proof. exact dropped_exactly_once. Qed.
Print Assumptions C15_values_dropped_exactly_once_at_the_end.

(* `with` never goes through a dangling pointer: in the body of a running coroutine it is always enabled. *)
Theorem C15_with_never_uses_freed_storage :
  forall cf s t c k, Reach cf s -> trunm s t = Some c -> pcm s c = PBody -> exists s', step cf s (With t k) = Some s'.
Proof. exact with_enabled_in_body. Qed.
Print Assumptions C15_with_never_uses_freed_storage.

(* ------------------------------------------------------------------------------------------ (b) hygiene *)

(* A generator that is in the pool has an empty para slot: every path that sets para (timer, cancel, io
   timeout, the cancelled short-cut) is followed by a get_co_para before the body can finish, also when the
   coroutine is killed by a Cancel panic or panics itself.  Code as it is, every pool capacity. *)
Theorem C15_pooled_generator_has_empty_para :
  forall n s g, Reach (current n) s -> In g (pool s) -> param s g = None.
Proof. exact current_pool_para_none. Qed.
Print Assumptions C15_pooled_generator_has_empty_para.

(* The same for every generator without occupant (pooled, discarded, not yet used), *)
Theorem C15_free_generator_has_empty_para :
  forall n s g, Reach (current n) s -> goccm s g = None -> param s g = None.
Proof. exact current_free_generator_para_none. Qed.
Print Assumptions C15_free_generator_has_empty_para.

(* and whenever user code of a coroutine runs (between its blocking calls), before its first run, and when its
   body has finished. *)
Theorem C15_para_empty_whenever_the_body_runs :
  forall n s c, Reach (current n) s -> pcm s c = PNew \/ pcm s c = PBody \/ pcm s c = PEnd -> param s (genm s c) = None.
Proof. exact current_body_para_none. Qed.
Print Assumptions C15_para_empty_whenever_the_body_runs.

(* What spawn hands out, whatever the previous occupant of the generator did: cancel bit 0 and cancel not
   disabled, fresh Park (token false), not panicking, no cancel addressed to it yet, no verdict, a live and
   EMPTY local map (no initialiser has run, nothing dropped), the generator's pointer on it, para empty. *)
Theorem C15_new_occupant_inherits_nothing :
  forall n s c g s', Reach (current n) s -> step (current n) s (Spawn c g) = Some s' ->
  genm s' c = g /\ pcm s' c = PNew /\ cbitm s' c = false /\ cdism s' c = 0 /\ ptokm s' c = false /\ panim s' c = false /\
  ncanm s' c = 0 /\ verm s' c = None /\ alivem s' c = true /\ gldm s' g = Some c /\
  (forall k, lmapm s' c k = None /\ ninitm s' c k = 0 /\ ndropm s' c k = 0) /\
  param s' g = None.
Proof. exact current_new_occupant_clean. Qed.
Print Assumptions C15_new_occupant_inherits_nothing.

(* ... and it stays that way until the coroutine runs: *)
Theorem C15_coroutine_that_has_not_run_has_no_values :
  forall cf s c k, Reach cf s -> pcm s c = PNew -> lmapm s c k = None /\ ninitm s c k = 0 /\ ndropm s c k = 0.
Proof. exact fresh_coroutine_empty. Qed.
Print Assumptions C15_coroutine_that_has_not_run_has_no_values.

(* No pending cancel is inherited: a coroutine's cancel bit is set only by a cancel() addressed to it. *)
Theorem C15_cancel_bit_only_from_own_cancel :
  forall cf s c, Reach cf s -> cbitm s c = true -> 1 <= ncanm s c.
Proof. exact cancel_bit_needs_cancel. Qed.
Print Assumptions C15_cancel_bit_only_from_own_cancel.

(* No stale timeout or error result: a blocking call reports Canceled only to a coroutine that a cancel() was
   addressed to, and Timeout only if the call had a timeout - in particular the first blocking call of a new
   occupant. *)
Theorem C15_no_stale_timeout_or_cancel_result :
  forall n s c, Reach (current n) s ->
  (verm s c = Some (Some ECanceled) -> 1 <= ncanm s c) /\
  (verm s c = Some (Some ETimeout) -> has_timer (vkindm s c) = true).
Proof. exact current_no_spurious_verdict. Qed.
Print Assumptions C15_no_stale_timeout_or_cancel_result.

(* For every configuration (also the code before the repair) the statements hold on every generator into
   which wait_io's short-cut has not leaked (ghost flag leakm); that is what was provable before F30 was found. *)
Theorem C15_pooled_generator_has_empty_para_partial :
  forall cf s g, Reach cf s -> In g (pool s) -> leakm s g = false -> param s g = None.
Proof. exact pool_para_none_partial. Qed.
Print Assumptions C15_pooled_generator_has_empty_para_partial.

Theorem C15_no_stale_result_partial :
  forall cf s c, Reach cf s -> leakm s (genm s c) = false ->
  (verm s c = Some (Some ECanceled) -> 1 <= ncanm s c) /\
  (verm s c = Some (Some ETimeout) -> has_timer (vkindm s c) = true).
Proof. exact no_spurious_verdict_partial. Qed.
Print Assumptions C15_no_stale_result_partial.

(* F30 (repaired by /repo commit 172d8b3): before the repair the statement is refuted.  A coroutine that is
   cancelled while it runs and then calls wait_io (yield_with's short-cut sets para = Canceled, RawIoBlock::
   yield_back only cleared the cancel bit, wait_io never calls get_co_para) finishes normally and gives its
   stack back with para = Canceled ... *)
Theorem C15_prefix_pooled_para_refuted :
  exists s g, Reach (prefix 1) s /\ In g (pool s) /\ param s g = Some ECanceled.
Proof. exact prefix_pool_para_refuted. Qed.
Print Assumptions C15_prefix_pooled_para_refuted.

(* ... and the next coroutine on that stack, which nobody cancelled, gets Canceled from its first park. *)
Theorem C15_prefix_spurious_cancel_refuted :
  exists s c, Reach (prefix 1) s /\ verm s c = Some (Some ECanceled) /\ ncanm s c = 0 /\ cbitm s c = false.
Proof. exact prefix_spurious_cancel_refuted. Qed.
Print Assumptions C15_prefix_spurious_cancel_refuted.

(* ------------------------------------------------------------------------------------------ non-vacuity *)

(* Storage: see LocalThm.ex_storage_schedule (two coroutines and a thread on one key, a migration, an end,
   a re-spawn on the same generator). *)
Example C15_nonvacuous_storage :
  match run (current 1) (init (current 1)) ex_storage_schedule with
  | Some s => (lastrm s 0, lastrm s 1, lastrm s 5, lmapm s 2 7, tmapm s 5 7, lmapm s 1 7, genm s 3,
               (ninitm s 1 7, ndropm s 1 7), (ninitm s 2 7, ndropm s 2 7), (ninitm s 3 7, tninitm s 5 7), pcm s 1)
              = (Some 800%Z, Some 800%Z, Some 800%Z, Some 800%Z, Some 800%Z, None, 0, (1, 1), (1, 0), (1, 1), PDone)
  | None => False end.
Proof. exact ex_storage. Qed.

Example C15_nonvacuous_migration :
  match run (current 1) (init (current 1)) (firstn 12 ex_storage_schedule) with
  | Some s => (lastrm s 1, thrm s 1, lmapm s 1 7, lmapm s 2 7) = (Some 42%Z, 1, Some 42%Z, Some 800%Z)
  | None => False end.
Proof. exact ex_storage_migrated. Qed.

(* Hygiene: previous occupants that timed out / were cancelled while parked / were cancelled when the timer
   had fired / were cancelled and called wait_io / panicked; the last new occupant's park returns Ok. *)
Example C15_nonvacuous_hygiene :
  match run (current 1) (init (current 1)) ex_hygiene_schedule with
  | Some s => (verm s 1, (panim s 2, panim s 3, panim s 4, panim s 5), (ncanm s 3, verm s 3), param s 0,
               (verm s 6, cbitm s 6, ncanm s 6, genm s 6, pcm s 6))
              = (Some (Some ETimeout), (true, true, false, true), (1, None), None, (Some None, false, 0, 0, PBody))
  | None => False end.
Proof. exact ex_hygiene. Qed.

(* The F30 schedule on the code as it is: nothing stays behind. *)
Example C15_nonvacuous_f30_schedule_on_current_code :
  match run (current 1) (init (current 1)) f30_schedule2 with
  | Some s => (param s 0, verm s 2, pcm s 1, pcm s 2) = (None, Some None, PDone, PBody)
  | None => False end.
Proof. exact current_f30_schedule_clean. Qed.
