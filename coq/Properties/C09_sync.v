(* C09 (continued) - Semphore (through the cancel-bit overlay; Condvar is in C09_condvar.v).  See Properties/C09.v for the overview. *)
From Coq Require Import List Arith ZArith Bool.
Import ListNotations.
Require MayV.Base.CancelOverlay.
Require MayV.Sync.SemModel MayV.Sync.SemInv MayV.Sync.CancelSem MayV.Sync.SemLive MayV.Sync.SemLiveThm.
Module OV := MayV.Base.CancelOverlay.

(* ================================================================================================ Semphore *)
Module SEM.
Import MayV.Base.CancelOverlay MayV.Sync.SemModel MayV.Sync.SemInv MayV.Sync.CancelSem.
Open Scope Z_scope.

(* the overlay is conservative: its runs project to runs of SemModel and every run of SemModel is such a projection *)
Theorem C09_sem_overlay_projects : forall i os, SOReach i os -> Reach i (base os).
Proof. exact soreach_reach. Qed.
Print Assumptions C09_sem_overlay_projects.
Theorem C09_sem_overlay_loses_nothing : forall i s, Reach i s -> exists c l, SOReach i {| base := s; cbit := c; clog := l |}.
Proof. exact reach_soreach. Qed.
Print Assumptions C09_sem_overlay_loses_nothing.

(* (iii) by the overlay's guard *)
Theorem C09_sem_fire_as_cancel_needs_bit :
  forall i os a os', SOReach i os -> sostep os (OAct (Fire a) true) = Some os' ->
  cbit os a = true /\ In a (clog os) /\
  apc (A (base os) a) = WW /\ atimed (A (base os) a) = true /\ step (base os) (Fire a) = Some (base os').
Proof. exact fire_as_cancel_needs_bit. Qed.
Print Assumptions C09_sem_fire_as_cancel_needs_bit.

(* (i) *)
Theorem C09_sem_cancelled_waiter_not_parked :
  forall os a, OQuiescent os -> cbit os a = true -> atimed (A (base os) a) = true -> apc (A (base os) a) <> WW.
Proof. exact cancelled_waiter_not_parked. Qed.
Print Assumptions C09_sem_cancelled_waiter_not_parked.

(* (ii) the permit of a cancelled waiter is posted again exactly once *)
Theorem C09_sem_cancelled_waiter_with_permit_reposts :
  forall s a s', apc (A s a) = E1 -> unp (Bk s (ab (A s a))) = true -> step s (Step a) = Some s' ->
  apc (A s' a) = P0 /\ acomp (A s' a) = true /\ actx (A s' a) = RErr /\ owe s' = a :: owe s /\
  giv s' = rm (ab (A s a)) (giv s) /\ cnt s' = cnt s.
Proof. exact cancelled_waiter_with_permit_reposts. Qed.
Print Assumptions C09_sem_cancelled_waiter_with_permit_reposts.

Theorem C09_sem_cancelled_waiter_takes_release_reposts :
  forall s a s', apc (A s a) = E4 -> rel (Bk s (ab (A s a))) = true -> step s (Step a) = Some s' ->
  apc (A s' a) = P0 /\ acomp (A s' a) = true /\ owe s' = a :: owe s /\ rel (Bk s' (ab (A s a))) = false /\
  giv s' = rm (ab (A s a)) (giv s).
Proof. exact cancelled_waiter_takes_release_reposts. Qed.
Print Assumptions C09_sem_cancelled_waiter_takes_release_reposts.

Theorem C09_sem_unparker_reposts_for_departed_waiter :
  forall s a s', apc (A s a) = K4 -> rel (Bk s (aw (A s a))) = true -> step s (Step a) = Some s' ->
  apc (A s' a) = P0 /\ acomp (A s' a) = true /\ owe s' = a :: owe s /\ rel (Bk s' (aw (A s a))) = false /\
  giv s' = rm (aw (A s a)) (giv s).
Proof. exact unparker_reposts_for_departed_waiter. Qed.
Print Assumptions C09_sem_unparker_reposts_for_departed_waiter.

Theorem C09_sem_repost_settles_debt :
  forall s a s', apc (A s a) = P0 -> acomp (A s a) = true -> step s (Step a) = Some s' ->
  cnt s' = cnt s + 1 /\ uposts s' = uposts s /\ owe s' = rm a (owe s).
Proof. exact repost_settles_debt. Qed.
Print Assumptions C09_sem_repost_settles_debt.

Theorem C09_sem_permit_of_cancelled_waiter_accounted :
  forall i os, 0 <= i -> SOReach i os ->
  let s := base os in
  cnt s + nl (ung s) + nl (giv s) + nl (owe s) + succ s = i + uposts s /\ NoDup (owe s) /\
  (forall a, In a (owe s) <-> apc (A s a) = P0 /\ acomp (A s a) = true) /\ succ s <= i + uposts s.
Proof. exact permit_of_cancelled_waiter_accounted. Qed.
Print Assumptions C09_sem_permit_of_cancelled_waiter_accounted.

Theorem C09_sem_wakeup_never_pops_empty_after_cancel :
  forall i os a, 0 <= i -> SOReach i os -> apc (A (base os) a) = K1 -> q (base os) <> [].
Proof. exact wakeup_never_pops_empty_after_cancel. Qed.
Print Assumptions C09_sem_wakeup_never_pops_empty_after_cancel.
(* exactly once, as a count (second overlay of C10, Sync/SemLive.v: per blocker, rp = re-post decisions, sc = successful
   returns, fl = the owner's wait failed - timed out or was CANCELLED - on it): a permit handed to a blocker is settled at
   most once; if the owner's wait failed on it, then - as soon as the blocker is no longer pending, in particular at
   quiescence - it has been re-posted exactly once and never consumed; nothing is re-posted without a hand-off *)
Theorem C09_sem_handoff_settled_at_most_once :
  forall i s o b, 0 <= i -> MayV.Sync.SemLive.ReachL i s o -> (MayV.Sync.SemLive.rp o b + MayV.Sync.SemLive.sc o b <= 1)%nat.
Proof. exact MayV.Sync.SemLiveThm.handoff_settled_at_most_once. Qed.
Print Assumptions C09_sem_handoff_settled_at_most_once.

Theorem C09_sem_failed_waiters_permit_reposted_exactly_once :
  forall i s o b, 0 <= i -> MayV.Sync.SemLive.ReachL i s o ->
  MayV.Sync.SemLive.fl o b = true -> unp (Bk s b) = true -> ~ In b (giv s) -> ~ In b (pre s) ->
  MayV.Sync.SemLive.rp o b = 1%nat /\ MayV.Sync.SemLive.sc o b = O.
Proof. exact MayV.Sync.SemLiveThm.timed_out_handoff_reposted_exactly_once. Qed.
Print Assumptions C09_sem_failed_waiters_permit_reposted_exactly_once.

Theorem C09_sem_failed_waiters_permit_reposted_at_quiescence :
  forall i s o b, 0 <= i -> MayV.Sync.SemLive.ReachL i s o -> MayV.Sync.SemLiveThm.Quiescent s ->
  MayV.Sync.SemLive.fl o b = true -> unp (Bk s b) = true -> MayV.Sync.SemLive.rp o b = 1%nat /\ MayV.Sync.SemLive.sc o b = O.
Proof. exact MayV.Sync.SemLiveThm.timed_out_handoff_reposted_at_quiescence. Qed.
Print Assumptions C09_sem_failed_waiters_permit_reposted_at_quiescence.

Theorem C09_sem_no_repost_without_handoff :
  forall i s o b, 0 <= i -> MayV.Sync.SemLive.ReachL i s o -> unp (Bk s b) = false ->
  MayV.Sync.SemLive.rp o b = O /\ MayV.Sync.SemLive.sc o b = O.
Proof. exact MayV.Sync.SemLiveThm.no_repost_without_handoff. Qed.
Print Assumptions C09_sem_no_repost_without_handoff.
End SEM.



(* ================================================================================================ non-vacuity *)
Example C09_ex_sem_cancelled_waiter_with_permit :
  exists os, OV.orun _ _ MayV.Sync.SemModel.step MayV.Sync.CancelSem.sem_hits MayV.Sync.CancelSem.all_co
                    (OV.oinit _ (MayV.Sync.SemModel.init 0)) MayV.Sync.CancelSem.osch = Some os /\
    MayV.Sync.CancelSem.SOReach 0 os /\ OV.cbit os 0%nat = true /\
    MayV.Sync.SemModel.apc (MayV.Sync.SemModel.A (OV.base os) 0%nat) = MayV.Sync.SemModel.P0 /\
    MayV.Sync.SemModel.acomp (MayV.Sync.SemModel.A (OV.base os) 0%nat) = true /\ MayV.Sync.SemModel.owe (OV.base os) = [0%nat] /\
    MayV.Sync.SemModel.apc (MayV.Sync.SemModel.A (OV.base os) 2%nat) = MayV.Sync.SemModel.WW /\
    MayV.Sync.SemModel.unp (MayV.Sync.SemModel.Bk (OV.base os) 1%nat) = true.
Proof. exact MayV.Sync.CancelSem.cancelled_waiter_with_permit_somewhere. Qed.

