(* C09 (continued) - Semphore (through the cancel-bit overlay) and Condvar.  See Properties/C09.v for the overview. *)
From Coq Require Import List Arith ZArith Bool.
Import ListNotations.
Require MayV.Base.CancelOverlay.
Require MayV.Sync.SemModel MayV.Sync.SemInv MayV.Sync.CancelSem.
Require MayV.Sync.CondvarModel MayV.Sync.CondvarInv MayV.Sync.CondvarThm MayV.Sync.CancelCondvar.
Module OV := MayV.Base.CancelOverlay.

(* ================================================================================================ Semphore *)
Module SEM.
Import MayV.Base.CancelOverlay MayV.Sync.SemModel MayV.Sync.SemInv MayV.Sync.CancelSem.
Open Scope Z_scope.

(* the overlay is conservative: its runs project to runs of SemModel and every run of SemModel is such a projection *)
Theorem C09_sem_overlay_projects : forall i os, SOReach i os -> Reach i (base os).
Proof. exact soreach_reach. Qed.
Print Assumptions C09_sem_overlay_projects.
Theorem C09_sem_overlay_loses_nothing : forall i s, Reach i s -> exists c l, SOReach i {| base := s; cbit := c; clog := l |}.
Proof. exact reach_soreach. Qed.
Print Assumptions C09_sem_overlay_loses_nothing.

(* (iii) by the overlay's guard *)
Theorem C09_sem_fire_as_cancel_needs_bit :
  forall i os a os', SOReach i os -> sostep os (OAct (Fire a) true) = Some os' ->
  cbit os a = true /\ In a (clog os) /\
  apc (A (base os) a) = WW /\ atimed (A (base os) a) = true /\ step (base os) (Fire a) = Some (base os').
Proof. exact fire_as_cancel_needs_bit. Qed.
Print Assumptions C09_sem_fire_as_cancel_needs_bit.

(* (i) *)
Theorem C09_sem_cancelled_waiter_not_parked :
  forall os a, OQuiescent os -> cbit os a = true -> atimed (A (base os) a) = true -> apc (A (base os) a) <> WW.
Proof. exact cancelled_waiter_not_parked. Qed.
Print Assumptions C09_sem_cancelled_waiter_not_parked.

(* (ii) the permit of a cancelled waiter is posted again exactly once *)
Theorem C09_sem_cancelled_waiter_with_permit_reposts :
  forall s a s', apc (A s a) = E1 -> unp (Bk s (ab (A s a))) = true -> step s (Step a) = Some s' ->
  apc (A s' a) = P0 /\ acomp (A s' a) = true /\ actx (A s' a) = RErr /\ owe s' = a :: owe s /\
  giv s' = rm (ab (A s a)) (giv s) /\ cnt s' = cnt s.
Proof. exact cancelled_waiter_with_permit_reposts. Qed.
Print Assumptions C09_sem_cancelled_waiter_with_permit_reposts.

Theorem C09_sem_cancelled_waiter_takes_release_reposts :
  forall s a s', apc (A s a) = E4 -> rel (Bk s (ab (A s a))) = true -> step s (Step a) = Some s' ->
  apc (A s' a) = P0 /\ acomp (A s' a) = true /\ owe s' = a :: owe s /\ rel (Bk s' (ab (A s a))) = false /\
  giv s' = rm (ab (A s a)) (giv s).
Proof. exact cancelled_waiter_takes_release_reposts. Qed.
Print Assumptions C09_sem_cancelled_waiter_takes_release_reposts.

Theorem C09_sem_unparker_reposts_for_departed_waiter :
  forall s a s', apc (A s a) = K4 -> rel (Bk s (aw (A s a))) = true -> step s (Step a) = Some s' ->
  apc (A s' a) = P0 /\ acomp (A s' a) = true /\ owe s' = a :: owe s /\ rel (Bk s' (aw (A s a))) = false /\
  giv s' = rm (aw (A s a)) (giv s).
Proof. exact unparker_reposts_for_departed_waiter. Qed.
Print Assumptions C09_sem_unparker_reposts_for_departed_waiter.

Theorem C09_sem_repost_settles_debt :
  forall s a s', apc (A s a) = P0 -> acomp (A s a) = true -> step s (Step a) = Some s' ->
  cnt s' = cnt s + 1 /\ uposts s' = uposts s /\ owe s' = rm a (owe s).
Proof. exact repost_settles_debt. Qed.
Print Assumptions C09_sem_repost_settles_debt.

Theorem C09_sem_permit_of_cancelled_waiter_accounted :
  forall i os, 0 <= i -> SOReach i os ->
  let s := base os in
  cnt s + nl (ung s) + nl (giv s) + nl (owe s) + succ s = i + uposts s /\ NoDup (owe s) /\
  (forall a, In a (owe s) <-> apc (A s a) = P0 /\ acomp (A s a) = true) /\ succ s <= i + uposts s.
Proof. exact permit_of_cancelled_waiter_accounted. Qed.
Print Assumptions C09_sem_permit_of_cancelled_waiter_accounted.

Theorem C09_sem_wakeup_never_pops_empty_after_cancel :
  forall i os a, 0 <= i -> SOReach i os -> apc (A (base os) a) = K1 -> q (base os) <> [].
Proof. exact wakeup_never_pops_empty_after_cancel. Qed.
Print Assumptions C09_sem_wakeup_never_pops_empty_after_cancel.
End SEM.

(* ================================================================================================ Condvar *)
Module CONDVAR.
Import MayV.Sync.CondvarModel MayV.Sync.CondvarInv MayV.Sync.CondvarThm MayV.Sync.CancelCondvar.
Open Scope Z_scope.

(* (iii) *)
Theorem C09_condvar_canceled_verdict_needs_cancel :
  forall s a s', Reach s -> apc (A s a) = R2 -> step s (Choose a true) = Some s' ->
  ccan (A s a) = true /\ aco (A s a) = true /\ apc (A s' a) = C1.
Proof. exact canceled_verdict_needs_cancel. Qed.
Print Assumptions C09_condvar_canceled_verdict_needs_cancel.

Theorem C09_condvar_cancel_reason_needs_cancel :
  forall s a, Reach s -> post_park (A s a) = true -> rcan (A s a) = true -> ccan (A s a) = true /\ aco (A s a) = true.
Proof. exact cancel_reason_needs_cancel. Qed.
Print Assumptions C09_condvar_cancel_reason_needs_cancel.

Theorem C09_condvar_uncancelled_never_canceled :
  forall s a, Reach s -> ccan (A s a) = false \/ aco (A s a) = false -> apc (A s a) <> C1 /\ apc (A s a) <> Dead.
Proof. exact uncancelled_never_canceled. Qed.
Print Assumptions C09_condvar_uncancelled_never_canceled.

(* (i) *)
Theorem C09_condvar_cancelled_waiter_not_parked :
  forall s a, Quiescent s -> aco (A s a) = true -> ccan (A s a) = true -> apc (A s a) <> WW.
Proof. exact cancelled_waiter_not_parked. Qed.
Print Assumptions C09_condvar_cancelled_waiter_not_parked.

(* (ii) the notification given to a waiter on the error path (Timeout or Canceled: the same code) is passed on exactly once *)
Theorem C09_condvar_cancelled_waiter_forwards_notification :
  forall s a s', Reach s -> apc (A s a) = E1 -> unp (Bk s (ab (A s a))) = true -> step s (Step a) = Some s' ->
  bset (Bk s (ab (A s a))) = O /\ bset (Bk s' (ab (A s a))) = 1%nat /\ In a (owe s') /\ ~ In (ab (A s a)) (giv s') /\ apc (A s' a) = K1.
Proof. exact cancelled_waiter_forwards_notification. Qed.
Print Assumptions C09_condvar_cancelled_waiter_forwards_notification.

Theorem C09_condvar_cancelled_waiter_forwards_notification_recheck :
  forall s a s', Reach s -> apc (A s a) = E4 -> rel (Bk s (ab (A s a))) = true -> step s (Step a) = Some s' ->
  bset (Bk s (ab (A s a))) = O /\ bset (Bk s' (ab (A s a))) = 1%nat /\ In a (owe s') /\ ~ In (ab (A s a)) (giv s') /\ apc (A s' a) = K1.
Proof. exact cancelled_waiter_forwards_notification_recheck. Qed.
Print Assumptions C09_condvar_cancelled_waiter_forwards_notification_recheck.

Theorem C09_condvar_notification_settled_at_most_once :
  forall s b, Reach s -> (bset (Bk s b) <= 1)%nat /\ (In b (giv s) <-> unp (Bk s b) = true /\ bset (Bk s b) = O).
Proof. exact notification_settled_at_most_once. Qed.
Print Assumptions C09_condvar_notification_settled_at_most_once.

(* (ii) the Canceled exit re-acquires the mutex (cancel disabled), releases it unpoisoned and only then unwinds; the dead
   waiter was a cancelled coroutine and owns nothing *)
Theorem C09_condvar_canceled_wait_releases_mutex_unpoisoned :
  forall s a s', Reach s -> apc (A s a) = C1 -> step s (Step a) = Some s' ->
  mx s = Some a /\ mx s' = None /\ pois s' = pois s /\ apc (A s' a) = Dead.
Proof. exact canceled_wait_releases_mutex_unpoisoned. Qed.
Print Assumptions C09_condvar_canceled_wait_releases_mutex_unpoisoned.

Theorem C09_condvar_dead_waiter_was_cancelled_and_holds_nothing :
  forall s a, Reach s -> apc (A s a) = Dead -> ccan (A s a) = true /\ aco (A s a) = true /\ mx s <> Some a.
Proof. exact dead_waiter_was_cancelled_and_holds_nothing. Qed.
Print Assumptions C09_condvar_dead_waiter_was_cancelled_and_holds_nothing.
End CONDVAR.

(* ================================================================================================ non-vacuity *)
Example C09_ex_sem_cancelled_waiter_with_permit :
  exists os, OV.orun _ _ MayV.Sync.SemModel.step MayV.Sync.CancelSem.sem_hits MayV.Sync.CancelSem.all_co
                    (OV.oinit _ (MayV.Sync.SemModel.init 0)) MayV.Sync.CancelSem.osch = Some os /\
    MayV.Sync.CancelSem.SOReach 0 os /\ OV.cbit os 0%nat = true /\
    MayV.Sync.SemModel.apc (MayV.Sync.SemModel.A (OV.base os) 0%nat) = MayV.Sync.SemModel.P0 /\
    MayV.Sync.SemModel.acomp (MayV.Sync.SemModel.A (OV.base os) 0%nat) = true /\ MayV.Sync.SemModel.owe (OV.base os) = [0%nat] /\
    MayV.Sync.SemModel.apc (MayV.Sync.SemModel.A (OV.base os) 2%nat) = MayV.Sync.SemModel.WW /\
    MayV.Sync.SemModel.unp (MayV.Sync.SemModel.Bk (OV.base os) 1%nat) = true.
Proof. exact MayV.Sync.CancelSem.cancelled_waiter_with_permit_somewhere. Qed.

Example C09_ex_condvar_cancelled_waiter_forwards :
  exists s, MayV.Sync.CondvarModel.run_strict MayV.Sync.CondvarModel.init MayV.Sync.CancelCondvar.sch_cancel_forward = Some s /\
    MayV.Sync.CondvarModel.Reach s /\
    MayV.Sync.CondvarModel.apc (MayV.Sync.CondvarModel.A s 0%nat) = MayV.Sync.CondvarModel.Dead /\
    MayV.Sync.CondvarModel.ares (MayV.Sync.CondvarModel.A s 0%nat) = 2%nat /\
    MayV.Sync.CondvarModel.ccan (MayV.Sync.CondvarModel.A s 0%nat) = true /\
    MayV.Sync.CondvarModel.nuser s = 1%Z /\ MayV.Sync.CondvarModel.nret s = 1%Z /\ MayV.Sync.CondvarModel.fnone s = 0%Z /\
    MayV.Sync.CondvarModel.ares (MayV.Sync.CondvarModel.A s 1%nat) = 0%nat /\
    MayV.Sync.CondvarModel.mx s = Some 1%nat /\ MayV.Sync.CondvarModel.pois s = false /\
    MayV.Sync.CondvarModel.bset (MayV.Sync.CondvarModel.Bk s 1%nat) = 1%nat /\
    MayV.Sync.CondvarModel.bset (MayV.Sync.CondvarModel.Bk s 2%nat) = 1%nat.
Proof. exact MayV.Sync.CancelCondvar.cancel_forward_somewhere. Qed.

