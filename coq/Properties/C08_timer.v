(* C08 (part iii) - the timer-thread wake-up protocol of src/timeout_list.rs (TimerThread::{add_timer, del_timer, run},
   TimeOutList::{add_timer, schedule_timer} with the in_use / heap installation): property theorems only.
   Model: coq/Rt/TimerThread.v (any number of adders and removers, any schedule; `step false` is the code,
   `step true` the mutant that computes the sleep time before it stores its handle). *)
From Coq Require Import List NArith.
Import ListNotations.
Require Import MayV.Rt.TimerThread MayV.Rt.TimerThreadInv MayV.Rt.TimerThreadThm.
Local Open Scope N_scope.

(* (a) the timer thread never sleeps past the earliest deadline: when it is parked (until T, or for ever) and no
   token is pending, every pending entry e has T <= eeff e + tlag, or an unpark for it is in flight (somebody
   holds the handle, or the adder that pushed the head of e's list is about to take it from the slot).
   eeff e = clock at e's head swap + interval (edl e <= eeff e: C08_timer_effective_deadline);
   tlag = clock at the park - the timer thread's clock reading (C08_timer_wake_time). *)
Theorem C08_timer_never_sleeps_past_deadline :
  forall s, Reach false s -> tpc s = W -> tok s = false ->
  forall L e, In e (lst s L) -> wakes_by s e \/ unpark_in_flight s L.
Proof. exact never_sleeps_past_deadline. Qed.
Print Assumptions C08_timer_never_sleeps_past_deadline.

(* in terms of the stored deadline the statement holds without skew and lag only (partial), and is refuted with
   skew: an adder delayed between `now()` and its head swap can end up behind an entry with a later deadline; its
   own timer is then late by at most that delay (DESIGN C08.v) *)
Theorem C08_timer_never_sleeps_past_stored_deadline_partial :
  forall s, Reach false s -> tpc s = W -> tok s = false ->
  forall L e, In e (lst s L) -> eeff e = edl e -> tlag s = 0 ->
  match twake s with Some T => T <= edl e | None => False end \/ unpark_in_flight s L.
Proof. exact never_sleeps_past_stored_deadline_partial. Qed.
Print Assumptions C08_timer_never_sleeps_past_stored_deadline_partial.

Theorem C08_timer_never_sleeps_past_stored_deadline_refuted :
  exists s, Reach false s /\ quiescent s /\ twake s = Some 10 /\ exists e, In e (lst s 5) /\ edl e = 5 /\ eeff e = 10.
Proof. exact never_sleeps_past_stored_deadline_refuted. Qed.
Print Assumptions C08_timer_never_sleeps_past_stored_deadline_refuted.

(* quiescence form: nobody is inside add_timer / del_timer, the timer thread is parked, no token:
   all pending deadlines are >= the wake time, and parked for ever => nothing is pending *)
Theorem C08_timer_quiescent_wakes_in_time :
  forall s, Reach false s -> quiescent s -> forall L e, In e (lst s L) -> wakes_by s e.
Proof. exact quiescent_timer_wakes_in_time. Qed.
Print Assumptions C08_timer_quiescent_wakes_in_time.

Theorem C08_timer_parked_forever_nothing_pending :
  forall s, Reach false s -> quiescent s -> twake s = None -> forall L, lst s L = [].
Proof. exact parked_forever_nothing_pending. Qed.
Print Assumptions C08_timer_parked_forever_nothing_pending.

Theorem C08_timer_effective_deadline :
  forall s, Reach false s -> forall L e, In e (lst s L) -> edl e <= eeff e /\ eeff e <= now s + L.
Proof. exact effective_deadline_bounds. Qed.
Print Assumptions C08_timer_effective_deadline.

Theorem C08_timer_wake_time :
  forall s, Reach false s -> tpc s = W -> twake s = match aim s with Some t => Some (t + tlag s) | None => None end.
Proof. exact wake_time_is_aim_plus_lag. Qed.
Print Assumptions C08_timer_wake_time.

(* (b) never early: the handler ran for an entry only when the clock had reached its stored deadline *)
Theorem C08_timer_handler_never_early :
  forall s, Reach false s -> forall i d t, In (i, d, t) (fired s) -> d <= t.
Proof. exact handler_never_early. Qed.
Print Assumptions C08_timer_handler_never_early.

(* (c) every entry fires at most once; an entry removed by Entry::remove never fires *)
Theorem C08_timer_fires_at_most_once : forall s, Reach false s -> NoDup (map fid (fired s)).
Proof. exact fires_at_most_once. Qed.
Print Assumptions C08_timer_fires_at_most_once.

Theorem C08_timer_removed_never_fires :
  forall s, Reach false s -> forall i, In i (removed s) -> ~ In i (map fid (fired s)) /\ ~ in_lists s i.
Proof. exact removed_never_fires. Qed.
Print Assumptions C08_timer_removed_never_fires.

(* (d) no lost remove request *)
Theorem C08_timer_no_lost_remove_request : forall s, Reach false s -> quiescent s -> rq s = [].
Proof. exact no_lost_remove_request. Qed.
Print Assumptions C08_timer_no_lost_remove_request.

(* C08.ii (concurrent part): a non-empty interval list is in the heap, in the hands of the running
   schedule_timer, or about to be installed by the adder that pushed its head - and at most once *)
Theorem C08_timer_list_looked_after :
  forall s, Reach false s -> forall L, lst s L <> [] -> inheap s L \/ thold s L \/ exists a, covering6 s L a.
Proof. exact list_looked_after. Qed.
Print Assumptions C08_timer_list_looked_after.

Theorem C08_timer_list_installed_at_most_once :
  forall s, Reach false s ->
  NoDup (map snd (heap s)) /\
  forall L, (inheap s L -> (forall a, ~ claimA s L a) /\ ~ claimT s L /\ ~ limbo s L) /\
            (forall a b, claimA s L a -> claimA s L b -> a = b) /\
            (forall a, claimA s L a -> ~ claimT s L /\ ~ limbo s L).
Proof. exact list_installed_at_most_once. Qed.
Print Assumptions C08_timer_list_installed_at_most_once.

Theorem C08_timer_heap_time_early_enough :
  forall s, Reach false s -> forall t L, In (t, L) (heap s) -> forall e, In e (lst s L) -> t <= eeff e.
Proof. exact heap_time_is_early_enough. Qed.
Print Assumptions C08_timer_heap_time_early_enough.

(* the statement is not vacuous: with store and schedule swapped the timer thread parks for ever, nobody is
   inside a call, no unpark is in flight - and an entry is pending (14 transitions) *)
Theorem C08_timer_never_sleeps_past_deadline_refuted :
  exists s, Reach true s /\ quiescent s /\ twake s = None /\ exists L e, In e (lst s L) /\ forall a, ~ covering s L a.
Proof. exact never_sleeps_past_deadline_mutant_refuted. Qed.
Print Assumptions C08_timer_never_sleeps_past_deadline_refuted.

(* non-vacuity: a quiescent reachable state with the timer parked until a pending deadline ... *)
Example C08_timer_nonvacuous_parked :
  exists s, Reach false s /\ quiescent s /\ twake s = Some 5 /\ exists e, In e (lst s 5) /\ eeff e = 5 /\ handles s = [(5, 1%nat)].
Proof. exact nv_parked_with_pending_deadline. Qed.
(* ... and a reachable state in which one entry was removed and another one fired at its deadline *)
Example C08_timer_nonvacuous_removed_fired :
  exists s, Reach false s /\ removed s = [1%nat] /\ fired s = [(2%nat, 5, 5)].
Proof. exact nv_removed_and_fired. Qed.
