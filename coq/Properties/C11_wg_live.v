(* C11 (iv), consequences of the quiescence theorem of C11_wg.v: WaitGroup as a client program of the Condvar (Sync/WaitGroupModel.v: wait-group program x CondvarModel): wait returns
   exactly when every other clone has been dropped (safety + quiescence form).  Property theorems only (see Properties/C11.v). *)
From Coq Require Import List ZArith.
Import ListNotations.
Require Import MayV.Sync.CondvarModel MayV.Sync.CondvarInv MayV.Sync.CondvarL4 MayV.Sync.CondvarThm MayV.Sync.CondvarAccept
               MayV.Sync.BarrierModel MayV.Sync.BarrierThm MayV.Sync.BarrierCv MayV.Sync.BarrierLive
               MayV.Sync.WaitGroupModel MayV.Sync.WaitGroupThm MayV.Sync.WaitGroupLive MayV.Sync.WaitGroupOnce MayV.Sync.BarrierAccept.
Close Scope Z_scope.

(* no lost notify_all: once every handle has been dropped nobody stays inside wait() *)
Theorem C11_wg_no_waiter_stranded :
  forall s, WReach s -> WQuiescent s -> hl s = [] -> forall a, wpc s a = WIdle \/ wpc s a = WGone.
Proof. exact wg_no_waiter_stranded. Qed.
Print Assumptions C11_wg_no_waiter_stranded.

(* "wait returns exactly when every other clone has been dropped" (safety + quiescence form): never early; not parked once
   the count is zero; parked in a quiescent state only while a handle is alive; WGone is a cancelled coroutine *)
Theorem C11_wg_wait_returns_exactly_when_all_dropped :
  forall s a, WReach s ->
  (wpc s a = WRet -> hl s = [] /\ wcnt s = 0) /\
  (WQuiescent s -> hl s = [] -> wpc s a = WIdle \/ wpc s a = WGone) /\
  (WQuiescent s -> wpc s a = WLw -> hl s <> [] /\ apc (A (wcs s) a) = WW) /\
  (wpc s a = WGone -> ccan (A (wcs s) a) = true /\ aco (A (wcs s) a) = true).
Proof. exact wg_wait_returns_exactly_when_all_dropped. Qed.
Print Assumptions C11_wg_wait_returns_exactly_when_all_dropped.


(* a wake-up of the Condvar::wait inside WaitGroup::wait is never spurious: when it returns the count is zero, so the body of
   `while *count > 0 { count = cvar.wait(count) }` runs at most once (the only notifier is the notify_all of the drop that makes
   the count zero; the wait is untimed; a cancelled waiter unwinds instead of returning).  Consequence for the tie: rewriting the
   loop as `if` is an EQUIVALENT program over this Condvar and is (rightly) not reported as a violation *)
Theorem C11_wg_wakeup_not_spurious :
  forall s a c s', WReach s -> wpc s a = WLw -> wstep s (WInner a c) = Some s' -> wpc s' a = WL -> wcnt s' = 0.
Proof. exact wg_wakeup_not_spurious. Qed.
Print Assumptions C11_wg_wakeup_not_spurious.

(* ---- non-vacuity ---- *)
Example C11_wg_parked_while_handle_alive : exists s, wrun winit wsched_park = Some s /\ WReach s /\ WQuiescent s /\
  wpc s 0 = WLw /\ apc (A (wcs s) 0) = WW /\ hl s = [1] /\ wcnt s = 1.
Proof. exact wg_parked_while_handle_alive. Qed.
Example C11_wg_all_returned : exists s, wrun winit (wsched ++ [WStep 0]) = Some s /\ WReach s /\ WQuiescent s /\
  hl s = [] /\ wpc s 0 = WIdle /\ wpc s 1 = WIdle /\ early s = false.
Proof. exact wg_all_returned. Qed.
Example C11_wg_wait_returns_somewhere : exists s, wrun winit wsched = Some s /\ WReach s /\
  wpc s 0 = WRet /\ hl s = [] /\ wcnt s = 0 /\ wviol s = false /\ early s = false /\ mx (wcs s) = None /\ wpc s 1 = WIdle.
Proof. exact wg_wait_returns_somewhere. Qed.
