(* C11 (ii): Condvar::wait re-acquires the mutex on every return path; cancellation; timeouts are not early.
   Property theorems only (see Properties/C11.v). *)
From Coq Require Import List ZArith.
Import ListNotations.
Require Import MayV.Sync.CondvarModel MayV.Sync.CondvarInv MayV.Sync.CondvarL4 MayV.Sync.CondvarThm MayV.Sync.BarrierModel MayV.Sync.BarrierCv.
Open Scope Z_scope.

(* ---- (ii) wait re-acquires the mutex on every return path ---- *)

Theorem C11_wait_holds_mutex :
  forall s a, Reach s -> has_mx (A s a) = true -> mx s = Some a.
Proof. exact wait_holds_mutex. Qed.
Print Assumptions C11_wait_holds_mutex.

Theorem C11_wait_returns_holding_mutex :
  forall s a s', Reach s -> apc (A s a) = P1 -> step s (Step a) = Some s' -> apc (A s' a) = Idle /\ mx s' = Some a.
Proof. exact wait_returns_holding_mutex. Qed.
Print Assumptions C11_wait_returns_holding_mutex.

Theorem C11_canceled_wait_releases_mutex :
  forall s a s', Reach s -> apc (A s a) = C1 -> step s (Step a) = Some s' ->
  mx s = Some a /\ mx s' = None /\ pois s' = pois s /\ apc (A s' a) = Dead.
Proof. exact canceled_wait_releases_mutex. Qed.
Print Assumptions C11_canceled_wait_releases_mutex.

Theorem C11_canceled_only_if_cancelled :
  forall s a, Reach s -> apc (A s a) = C1 -> ccan (A s a) = true /\ aco (A s a) = true.
Proof. exact canceled_only_if_cancelled. Qed.
Print Assumptions C11_canceled_only_if_cancelled.

Theorem C11_timeout_not_early :
  forall s a, Reach s -> apc (A s a) = P1 -> ares (A s a) = 1%nat -> exists dl, adl (A s a) = Some dl /\ dl <= now s.
Proof. exact timeout_not_early. Qed.
Print Assumptions C11_timeout_not_early.

Theorem C11_relock_cancel_disabled :
  forall s a, Reach s -> apc (A s a) = L -> aco (A s a) = true -> cdis (A s a) = S (cdis0 (A s a)).
Proof. exact relock_cancel_disabled. Qed.
Print Assumptions C11_relock_cancel_disabled.


(* ---- never hang, quiescence form, at the level of the Condvar itself: an actor inside wait / wait_timeout / notify_one /
   notify_all always has an enabled transition of its own (Step / Resume / Choose) unless it is parked WITHOUT any reason to
   resume (no token, deadline not reached or none, not a cancelled coroutine) or is re-locking while somebody holds the mutex;
   in particular a wait_timeout whose deadline has been reached is resumable, and so is a cancelled coroutine ---- *)
Theorem C11_condvar_call_progress :
  forall s a, Reach s -> apc (A s a) <> Idle -> apc (A s a) <> Dead ->
  (exists c, inner_ok a c = true /\ step s c <> None) \/
  (apc (A s a) = WW /\ tok (Bk s (ab (A s a))) = false /\ due (adl (A s a)) (now s) = false /\ (aco (A s a) && ccan (A s a))%bool = false) \/
  (apc (A s a) = L /\ mx s <> None).
Proof. exact cv_progress. Qed.
Print Assumptions C11_condvar_call_progress.

(* the holder of the mutex is never parked, re-locking or dead, and when it is inside a Condvar call it can step *)
Theorem C11_mutex_holder_can_step :
  forall s a, Reach s -> mx s = Some a -> apc (A s a) <> Idle -> exists c, inner_ok a c = true /\ step s c <> None.
Proof. exact cv_holder_progress. Qed.
Print Assumptions C11_mutex_holder_can_step.

(* a dead actor is a coroutine that was cancelled *)
Theorem C11_dead_only_if_cancelled :
  forall s a, Reach s -> apc (A s a) = Dead -> ccan (A s a) = true /\ aco (A s a) = true.
Proof. exact dead_only_if_cancelled. Qed.
Print Assumptions C11_dead_only_if_cancelled.
