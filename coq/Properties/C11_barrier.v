(* C11 (iii), safety half: Barrier(n) as a client program of the Condvar (Sync/BarrierModel.v: barrier program x CondvarModel),
   for every n >= 1, any number of parties (threads and coroutines) calling wait() any number of times, any number of generations,
   cancellation of waiting coroutines.  Property theorems only (see Properties/C11.v).  Also here: the quiescence theorem (progress half); its consequences
   (exactly n returns per generation, one leader) are in C11_barrier_live.v. *)
From Coq Require Import List ZArith.
Import ListNotations.
Require Import MayV.Sync.CondvarModel MayV.Sync.CondvarInv MayV.Sync.CondvarL4 MayV.Sync.CondvarThm MayV.Sync.CondvarAccept
               MayV.Sync.BarrierModel MayV.Sync.BarrierThm MayV.Sync.BarrierCv MayV.Sync.BarrierLive
               MayV.Sync.WaitGroupModel MayV.Sync.WaitGroupThm MayV.Sync.WaitGroupLive MayV.Sync.BarrierAccept.
Close Scope Z_scope.

(* ---- (iii) Barrier(n) as a client program (Sync/BarrierModel.v), for every n >= 1 ---- *)

(* a completed generation had exactly n arrivals and exactly one leader *)
Theorem C11_barrier_generation_complete :
  forall n, 1 <= n -> forall s g, BReach n s -> g < gen s -> arr s g = n /\ ldr s g = 1.
Proof. exact barrier_generation_complete. Qed.
Print Assumptions C11_barrier_generation_complete.

(* generation g + 1 cannot complete - not even begin - before generation g has completed *)
Theorem C11_barrier_generations_in_order :
  forall n, 1 <= n -> forall s g, BReach n s -> gen s <= g -> arr s g < n /\ ldr s g = 0 /\ ret s g = 0 /\ (gen s < g -> arr s g = 0).
Proof. exact barrier_generations_in_order. Qed.
Print Assumptions C11_barrier_generations_in_order.

(* nobody passes the barrier before all n parties of its generation have arrived *)
Theorem C11_barrier_no_early_pass :
  forall n, 1 <= n -> forall s g, BReach n s -> 0 < ret s g -> arr s g = n /\ ldr s g = 1.
Proof. exact barrier_no_early_pass. Qed.
Print Assumptions C11_barrier_no_early_pass.

(* every arrival returned (leader or follower) or is still inside wait(): at most n returns per generation *)
Theorem C11_barrier_returns_accounted :
  forall n, 1 <= n -> forall s g, BReach n s ->
  arr s g = ret s g + ldr s g + cntl g (lgen s) (inl s) /\ ret s g + ldr s g <= n.
Proof. intros n H s g R. split; [exact (barrier_arrivals_accounted n H s g R) | exact (barrier_at_most_n_return n H s g R)]. Qed.
Print Assumptions C11_barrier_returns_accounted.

(* count / generation_id are touched only by the holder of the barrier's mutex (uses C11.ii) *)
Theorem C11_barrier_race_free :
  forall n s, BReach n s -> viol s = false.
Proof. exact barrier_race_free. Qed.
Print Assumptions C11_barrier_race_free.


(* the progress half, over the product model (barrier program x Condvar protocol), DESIGN 2.2 quiescence form: when no
   actor has an enabled transition of its own (BQuiescent: neither barrier code nor Condvar code; only new calls, time and
   cancellation could still happen) the mutex is free and every actor has returned from wait(), or is a cancelled
   coroutine that died inside Condvar::wait, or is parked for the generation IN PROGRESS with its blocker unflagged in
   the queue: the leader's notify_all has reached every waiter of every completed generation *)
Theorem C11_barrier_quiescent :
  forall n, 1 <= n -> forall s, BReach n s -> BQuiescent n s ->
  mx (cs s) = None /\
  forall a, bpc s a = BIdle \/ bpc s a = BGone \/
            (bpc s a = BWait /\ apc (A (cs s) a) = WW /\ lgen s a = gen s /\
             unp (Bk (cs s) (ab (A (cs s) a))) = false /\ In (ab (A (cs s) a)) (q (cs s))).
Proof. exact barrier_quiescent. Qed.
Print Assumptions C11_barrier_quiescent.

(* ---- tie: every state along a trace of the real Barrier accepted by the product acceptor (Sync/BarrierAccept.v) is a reachable
   state of BarrierModel (and its Condvar component of CondvarModel) ---- *)
Theorem C11_accepted_barrier_traces_are_model_runs :
  forall tr n s xy, paccept_all p_init tr = Some (MBar n s, xy) -> BReach n s.
Proof. exact accepted_barrier_trace_reaches. Qed.
Print Assumptions C11_accepted_barrier_traces_are_model_runs.

(* the product acceptor accepts only traces the Condvar acceptor accepts (API records read as the uninterpreted code 70): its Condvar
   component and the Condvar-level bookkeeping move exactly as CondvarAccept.accept_ev says, so C11_accepted_traces_are_model_runs and
   every Condvar theorem apply to the Condvar component of every state along an accepted Barrier / WaitGroup trace *)
Theorem C11_product_acceptor_refines_condvar_acceptor :
  forall tr p p', paccept_all p tr = Some p' -> accept_all (proj p) (map ev70 tr) = Some (proj p').
Proof. exact accept_all_refines_condvar. Qed.
Print Assumptions C11_product_acceptor_refines_condvar_acceptor.
