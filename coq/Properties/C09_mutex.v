(* C09 (continued) - Mutex::lock: (i) stop and (iii) no spurious cancel.  See Properties/C09.v for the overview. *)
From Coq Require Import List Arith ZArith Bool.
Import ListNotations.
Require MayV.Sync.MutexModel MayV.Sync.MutexInv MayV.Sync.MutexME MayV.Sync.MutexLive7 MayV.Sync.MutexPop MayV.Sync.MutexThm MayV.Sync.CancelMutex.

(* ================================================================================================ Mutex (lock) *)
Module MUTEX.
Import MayV.Sync.MutexModel MayV.Sync.MutexME MayV.Sync.MutexLive7 MayV.Sync.MutexPop MayV.Sync.MutexThm MayV.Sync.CancelMutex.

(* (i) *)
Theorem C09_mutex_cancelled_waiter_not_parked :
  forall isco s a, Reach isco s -> CStable isco s -> isco a = true -> acanc (A s a) = true -> apc (A s a) <> W.
Proof. exact cancelled_waiter_not_parked. Qed.
Print Assumptions C09_mutex_cancelled_waiter_not_parked.

Theorem C09_mutex_cancelled_waiter_can_move :
  forall isco s a, Reach isco s -> isco a = true -> acanc (A s a) = true -> apc (A s a) = W ->
  step isco s (Step a) <> None \/ step isco s (CKick a) <> None.
Proof. exact cancelled_waiter_can_move. Qed.
Print Assumptions C09_mutex_cancelled_waiter_can_move.

Theorem C09_mutex_cancelled_caller_takes_shortcut :
  forall isco s a s', apc (A s a) = P1 -> acanc (A s a) = true -> aign (A s a) = false ->
  step isco s (Step a) = Some s' -> apc (A s' a) = P2.
Proof. exact cancelled_caller_takes_shortcut. Qed.
Print Assumptions C09_mutex_cancelled_caller_takes_shortcut.

Theorem C09_mutex_canceled_branch_never_blocks :
  forall isco s a, Reach isco s ->
  match apc (A s a) with P2 | C1 | C2 | C3 | C4 => True | _ => False end -> step isco s (Step a) <> None.
Proof. exact canceled_branch_never_blocks. Qed.
Print Assumptions C09_mutex_canceled_branch_never_blocks.

(* (iii) *)
Theorem C09_mutex_canceled_branch_only_if_cancelled :
  forall isco s a, Reach isco s -> cancel_pc (A s a) = true -> acanc (A s a) = true /\ isco a = true.
Proof. exact canceled_branch_only_if_cancelled. Qed.
Print Assumptions C09_mutex_canceled_branch_only_if_cancelled.

Theorem C09_mutex_canceled_branch_needs_cancel :
  forall isco s ac s' a, Reach isco s -> step isco s ac = Some s' ->
  apc (A s a) <> C1 -> apc (A s' a) = C1 -> acanc (A s a) = true /\ isco a = true.
Proof. exact canceled_branch_needs_cancel. Qed.
Print Assumptions C09_mutex_canceled_branch_needs_cancel.

Theorem C09_mutex_cancel_panic_needs_cancel :
  forall isco s ac s' a, Reach isco s -> step isco s ac = Some s' -> apc (A s' a) = Exit -> acanc (A s a) = true /\ isco a = true.
Proof. exact cancel_panic_needs_cancel. Qed.
Print Assumptions C09_mutex_cancel_panic_needs_cancel.

Theorem C09_mutex_thread_never_canceled :
  forall isco s a, Reach isco s -> isco a = false -> cancel_pc (A s a) = false.
Proof. exact thread_never_canceled. Qed.
Print Assumptions C09_mutex_thread_never_canceled.

End MUTEX.
