(* C10, continued - Semphore: no lost wake-up in every reachable state; no re-post without a hand-off; the
   ghost overlay is conservative.  Property theorems only (exact of a lemma of Sync/SemLiveThm.v followed by
   the assumptions report).  Model: Sync/SemModel.v; ghost overlay Sync/SemLive.v. *)
From Coq Require Import List ZArith.
Import ListNotations.
Require Import MayV.Sync.SemModel MayV.Sync.SemInv MayV.Sync.SemThm MayV.Sync.SemLive MayV.Sync.SemLiveThm.
Open Scope Z_scope.

(* no lost wake-up in EVERY reachable state: a suspended waiter whose blocker was handed a permit has
   been given a reason to resume, or the agent that popped it is about to deliver the token (K3);
   a waiter about to park on such a blocker finds the token, or the agent is at K3 *)
Theorem C10_sem_flagged_waiter_resumed_or_token_in_flight :
  forall i s a, 0 <= i -> Reach i s -> apc (A s a) = WW -> unp (Bk s (ab (A s a))) = true ->
  reason (Bk s (ab (A s a))) <> None \/ exists g, apc (A s g) = K3 /\ aw (A s g) = ab (A s a).
Proof. exact flagged_waiter_resumed_or_token_in_flight. Qed.
Print Assumptions C10_sem_flagged_waiter_resumed_or_token_in_flight.

Theorem C10_sem_flagged_prepark_token_or_in_flight :
  forall i s a, 0 <= i -> Reach i s -> apc (A s a) = WP -> unp (Bk s (ab (A s a))) = true ->
  tok (Bk s (ab (A s a))) = true \/ exists g, apc (A s g) = K3 /\ aw (A s g) = ab (A s a).
Proof. exact flagged_prepark_token_or_in_flight. Qed.
Print Assumptions C10_sem_flagged_prepark_token_or_in_flight.

(* a waiter that left without having been handed anything is never re-posted for *)
Theorem C10_sem_no_repost_without_handoff :
  forall i s o b, 0 <= i -> ReachL i s o -> unp (Bk s b) = false -> rp o b = O /\ sc o b = O.
Proof. exact no_repost_without_handoff. Qed.
Print Assumptions C10_sem_no_repost_without_handoff.

(* the overlay adds nothing to the model: every reachable state carries an overlay state, and conversely *)
Theorem C10_sem_overlay_conservative :
  forall i s, (Reach i s <-> exists o, ReachL i s o).
Proof. exact overlay_conservative. Qed.
Print Assumptions C10_sem_overlay_conservative.

