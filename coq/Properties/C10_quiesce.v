(* C10, continued - Semphore: "whenever permits suffice every waiter proceeds" and get_value() at quiescence.
   Property theorems only (exact of a lemma of Sync/SemLiveThm.v + Print Assumptions).  Model: Sync/SemModel.v. *)
From Coq Require Import List ZArith.
Import ListNotations.
Require Import MayV.Sync.SemModel MayV.Sync.SemInv MayV.Sync.SemThm MayV.Sync.SemLive MayV.Sync.SemLiveThm.
Open Scope Z_scope.

(* ---- quiescence and hand-off (second ghost overlay, Sync/SemLive.v: ag / dl / rp / sc / fl are stepped
   alongside the model by `lstep`, never read by it; ReachL projects onto and lifts from Reach).
   `Quiescent s`: no actor has an enabled transition of its own - everybody is idle (all calls have
   returned) or suspended in its park with no reason to resume; the timer / cancel (Fire) and the
   start of new calls are the environment's. ---- *)

(* (ii) at quiescence get_value() = max(cnt, 0) = init + posts - successful waits *)
Theorem C10_sem_value_at_quiescence :
  forall i s, 0 <= i -> Reach i s -> Quiescent s -> Z.max (cnt s) 0 = i + uposts s - succ s.
Proof. exact value_at_quiescence. Qed.
Print Assumptions C10_sem_value_at_quiescence.

Theorem C10_sem_value_at_rest :
  forall i s, 0 <= i -> Reach i s -> (forall a, apc (A s a) = Idle) -> Z.max (cnt s) 0 = i + uposts s - succ s.
Proof. exact value_at_rest. Qed.
Print Assumptions C10_sem_value_at_rest.

(* (iv) "whenever permits suffice every waiter proceeds", as a safety statement: a quiescent state with
   init + posts - successes > 0 has nobody parked - every wait has returned.  (What is NOT formalised:
   the scheduler's fairness, i.e. that a non-quiescent system eventually takes its enabled steps, and
   that try_wait's CAS loop only retries when another actor changed the counter.) *)
Theorem C10_sem_no_waiter_parked_when_permits_suffice :
  forall i s, 0 <= i -> Reach i s -> Quiescent s -> 0 < i + uposts s - succ s -> forall a, apc (A s a) = Idle.
Proof. exact no_waiter_parked_when_permits_suffice. Qed.
Print Assumptions C10_sem_no_waiter_parked_when_permits_suffice.

Theorem C10_sem_no_waiter_parked_when_counter_positive :
  forall i s, 0 <= i -> Reach i s -> Quiescent s -> 0 < cnt s -> forall a, apc (A s a) = Idle.
Proof. exact no_waiter_parked_when_counter_positive. Qed.
Print Assumptions C10_sem_no_waiter_parked_when_counter_positive.

(* non-vacuity *)
(* a waiter parked for good: quiescent, counter -1, value 0 = init + posts - successes *)
Example C10_sem_parked_quiescent_somewhere :
  let s := run (init 0) sch_parked in
  Reach 0 s /\ Quiescent s /\ apc (A s 1%nat) = WW /\ parked (Bk s (ab (A s 1%nat))) = true /\
  cnt s = -1 /\ Z.max (cnt s) 0 = 0 + uposts s - succ s.
Proof. exact parked_quiescent_somewhere. Qed.
(* quiescent with a permit left: nobody parked *)
Example C10_sem_permits_left_quiescent_somewhere :
  let s := run (init 0) sch in
  Reach 0 s /\ Quiescent s /\ 0 < 0 + uposts s - succ s /\ cnt s = 1 /\ (forall a, apc (A s a) = Idle).
Proof. exact permits_left_quiescent_somewhere. Qed.
