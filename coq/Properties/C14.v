(* C14 - a scope is never left while one of its coroutines is still running.  Property theorems only: each
   is closed by `exact` of a lemma proved elsewhere and followed by Print Assumptions.
   Model: Rt/ScopeModel.v (any number and nesting of scoped coroutines, every task may own scopes; owner
   panic / cancel at any point; the join protocol over the Blocker token).  `current` is the code as it is in
   /repo; `prefix`, `noloop`, `notrans` are the variants before the repairs / the mutants. *)
From Coq Require Import List Arith Bool.
Import ListNotations.
Require Import MayV.Rt.ScopeModel MayV.Rt.ScopeInv MayV.Rt.ScopeSafe MayV.Rt.ScopeRes MayV.Rt.ScopeResP
               MayV.Rt.ScopeThm MayV.Rt.ScopeRefute.

(* The property: in every reachable state, if the owner has left the scope a coroutine was spawned in -
   by returning from scope()/join! or by unwinding (its own panic, a re-raised child panic, a cancel
   at any cancellable point or while it waits) - that coroutine has finished (Join::trigger's store has
   happened).  All numbers and nestings of scoped coroutines, all interleavings. *)
Theorem C14_scope_not_left_while_child_runs :
  forall s, Reach current s -> forall c, scope_left s c -> done s c.
Proof. exact scope_not_left_early. Qed.
Print Assumptions C14_scope_not_left_while_child_runs.

(* Results: the unwrap at the end of ScopedJoinHandle::join always finds the child's value ... *)
Theorem C14_explicit_join_returns_the_childs_value :
  forall s a, Reach current s -> pcm s a = PRet -> pktm s (jcm s a) = Some (cvalm s (jcm s a)).
Proof. exact explicit_join_returns_value. Qed.
Print Assumptions C14_explicit_join_returns_the_childs_value.

(* ... and a result is handed out at most once. *)
Theorem C14_result_returned_at_most_once :
  forall s c, Reach current s -> gotm s c <= 1.
Proof. exact result_at_most_once. Qed.
Print Assumptions C14_result_returned_at_most_once.

(* The result the owner's join computes is the way the child ended (value / panic payload / cancelled). *)
Theorem C14_join_result_is_child_outcome :
  forall s a, Reach current s -> hasres (pcm s a) = true ->
  jresm s a = res_of (unwm s (jcm s a)) /\ outm s (jcm s a) = out_of (unwm s (jcm s a)) (cvalm s (jcm s a)).
Proof. exact join_result_is_child_outcome. Qed.
Print Assumptions C14_join_result_is_child_outcome.

(* A child's panic is propagated: an owner that is not unwinding already re-raises it with the same payload, *)
Theorem C14_child_panic_reraised_in_owner :
  forall s a p s', Reach current s -> pcm s a = PRes -> unwm s a = UNone -> outm s (jcm s a) = OPanic p ->
  step current s (Step a) = Some s' -> unwm s' a = UPanic p.
Proof. exact child_panic_reraised. Qed.
Print Assumptions C14_child_panic_reraised_in_owner.

(* no later transition changes it, *)
Theorem C14_unwinding_is_sticky :
  forall s ac s' a, Reach current s -> step current s ac = Some s' -> pcm s a <> PNone -> unwm s a <> UNone ->
  unwm s' a = unwm s a.
Proof. exact unwinding_is_sticky. Qed.
Print Assumptions C14_unwinding_is_sticky.

(* and it is what the owner's own join reports. *)
Theorem C14_outcome_is_unwinding_state :
  forall s a, Reach current s -> fin (pcm s a) = true -> outm s a = out_of (unwm s a) (cvalm s a).
Proof. exact outcome_is_unwinding_state. Qed.
Print Assumptions C14_outcome_is_unwinding_state.

(* F2' (repaired by commit 06c1f59): on the pre-fix model the property is refuted - owner cancelled while it
   waits in the join: the scope is left with the child running. *)
Theorem C14_prefix_refuted :
  exists s c, Reach prefix s /\ scope_left s c /\ ~ done s c.
Proof. exact F2_scope_left_early_refuted. Qed.
Print Assumptions C14_prefix_refuted.

(* F2', the unwinding Drop for Scope: joins of a cancelled owner return at once (yield_with's short-cut). *)
Theorem C14_prefix_shortcut_refuted :
  exists s, Reach prefix s /\ scope_left s 1 /\ ~ done s 1 /\ scope_left s 2 /\ ~ done s 2.
Proof. exact F2_shortcut_refuted. Qed.
Print Assumptions C14_prefix_shortcut_refuted.

(* Each of the two halves of the repair is needed, and so is the transactional style of drop_all. *)
Theorem C14_wait_without_loop_refuted :
  exists s c, Reach noloop s /\ scope_left s c /\ ~ done s c.
Proof. exact wait_without_loop_refuted. Qed.
Print Assumptions C14_wait_without_loop_refuted.

Theorem C14_non_transactional_drop_all_refuted :
  exists s c, Reach notrans s /\ scope_left s c /\ ~ done s c.
Proof. exact non_transactional_drop_all_refuted. Qed.
Print Assumptions C14_non_transactional_drop_all_refuted.

(* Non-vacuity: under the current code a cancelled owner with two children waits for both (scope_left holds
   for both in the final state), and ends as cancelled; a child's panic reaches the owner's outcome while the
   explicit join of the other child hands out its value once. *)
Example C14_nonvacuous_cancelled_owner :
  match run current init cur_schedule with
  | Some s => (cleftm s 1, jstm s 1, cleftm s 2, jstm s 2, outm s 0, pcm s 0) = (true, false, true, false, OCancel, PDone)
  | None => False end.
Proof. exact current_cancelled_owner_waits. Qed.

Example C14_nonvacuous_child_panic :
  match run current init panic_schedule with
  | Some s => (outm s 0, gotm s 1, cleftm s 1, cleftm s 2, pcm s 0) = (OPanic 7, 1, true, true, PDone) | None => False end.
Proof. exact current_child_panic_propagates. Qed.
