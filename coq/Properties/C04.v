(* C04 - the work-stealing run queue (may_queue::spmc) hands every task to exactly one taker.
   Property theorems only: each is closed by `exact` of a lemma proved in Queue/Spmc*.v and followed by
   Print Assumptions.  All statements hold for every block size B >= 1, any number of stealers, any
   schedule, and for BOTH allocator disciplines: `reuse = true` lets the allocator issue a freed block
   address again, so ABA on the packed head word is inside the statements, not assumed away. *)
From Coq Require Import List Arith Bool ZArith.
Import ListNotations.
Require Import MayV.Queue.SpmcModel MayV.Queue.SpmcInv MayV.Queue.SpmcFacts MayV.Queue.SpmcThm MayV.Queue.SpmcOrder MayV.Queue.SpmcNoWait MayV.Queue.SpmcAccept.

(* (i) Each task is obtained at most once, and only a task that was pushed: the log of everything any
   pop / local_pop / bulk_pop / steal_into read from a slot has no logical slot index twice, every
   entry lies below tail.index (the slot was filled and published before it was read) and carries
   exactly the value pushed at that index - never an uninitialised slot. *)
Theorem C04_obtained_once_and_pushed :
  forall B reuse, 1 <= B -> forall s, Reach B reuse s ->
  NoDup (map gidx (got s)) /\
  forall a i v, In (a, i, v) (got s) -> i < tix s /\ v = nth_error (pushed s) i /\ exists w, v = Some w.
Proof. exact obtained_once_and_pushed. Qed.
Print Assumptions C04_obtained_once_and_pushed.

(* (i) The claims of operations in flight are pairwise disjoint ... *)
Theorem C04_claims_disjoint :
  forall B reuse, 1 <= B -> forall s a a' i, Reach B reuse s ->
  holds B (A s a) = true -> holds B (A s a') = true ->
  glo (A s a) <= i < ghi (A s a) -> glo (A s a') <= i < ghi (A s a') -> a = a'.
Proof. exact claims_disjoint. Qed.
Print Assumptions C04_claims_disjoint.

(* ... a slot that is claimed but not read yet was handed to nobody ... *)
Theorem C04_claimed_unread_not_obtained :
  forall B reuse, 1 <= B -> forall s a i, Reach B reuse s ->
  holds B (A s a) = true -> pc (A s a) <> XM -> glo (A s a) <= i < ghi (A s a) ->
  forall a' v, ~ In (a', i, v) (got s).
Proof. exact claimed_unread_not_obtained. Qed.
Print Assumptions C04_claimed_unread_not_obtained.

(* ... and the claimed slots are exactly those below the logical position of the head word. *)
Theorem C04_claimed_iff_below_head :
  forall B reuse, 1 <= B -> forall s i, Reach B reuse s -> (cl s i <> None <-> i < HL s).
Proof. exact claimed_iff_below_head. Qed.
Print Assumptions C04_claimed_iff_below_head.

(* (ii) Order: of two entries of the same actor in the log the later one has the larger logical index;
   for the owner these are its local pops: they come out in push order. *)
Theorem C04_obtained_in_push_order :
  forall B reuse, 1 <= B -> forall s l1 g1 l2 g2 l3, Reach B reuse s ->
  got s = l1 ++ g1 :: l2 ++ g2 :: l3 -> gact g1 = gact g2 -> gidx g1 < gidx g2.
Proof. exact obtained_in_push_order. Qed.
Print Assumptions C04_obtained_in_push_order.

(* (ii) The values one operation holds after its slot read are those pushed at the consecutive logical
   indices [glo, ghi) of its claim, in that order (one stolen batch is in push order) ... *)
Theorem C04_batch_in_push_order :
  forall B reuse, 1 <= B -> forall s a, Reach B reuse s -> pc (A s a) = XM ->
  res (A s a) = map (fun i => nth_error (pushed s) i) (seq (glo (A s a)) (ghi (A s a) - glo (A s a))) /\
  glo (A s a) < ghi (A s a) <= tix s.
Proof. exact batch_in_push_order. Qed.
Print Assumptions C04_batch_in_push_order.

(* ... pop / local_pop / bulk_pop return that batch; steal_into returns its last element and appends
   the others, in order, to the stealer's own queue. *)
Theorem C04_return_values :
  forall B reuse, 1 <= B -> forall s a x s', Reach B reuse s -> pc (A s a) = XM -> step B reuse s (Step a x) = Some s' ->
  let batch := map (fun i => nth_error (pushed s) i) (seq (glo (A s a)) (ghi (A s a) - glo (A s a))) in
  if is_steal (kd (A s a))
  then rv (A s' a) = [nth_error (pushed s) (ghi (A s a) - 1)] /\
       dq (A s' a) = dq (A s a) ++ map (fun i => nth_error (pushed s) i) (seq (glo (A s a)) (ghi (A s a) - glo (A s a) - 1))
  else rv (A s' a) = batch.
Proof. exact return_values. Qed.
Print Assumptions C04_return_values.

(* (iii) A claimer that waits (its claim reaches beyond tail.index: possible after an ABA on the head word)
   leaves the wait loop at its next load once the owner has filled its range, and its two remaining
   steps (slot read, release) are always enabled: it waits for nothing but the owner's pushes. *)
Theorem C04_claimed_completes_when_filled :
  forall B reuse s a x, Reach B reuse s -> pc (A s a) = XW -> pend (A s a) <= tix s ->
  exists s1, step B reuse s (Step a x) = Some s1 /\ pc (A s1 a) = XG.
Proof. exact claimed_completes_when_filled. Qed.
Print Assumptions C04_claimed_completes_when_filled.
Theorem C04_read_and_release_enabled :
  forall B reuse s a x, Reach B reuse s -> (pc (A s a) = XG \/ pc (A s a) = XM) -> exists s1, step B reuse s (Step a x) = Some s1.
Proof. exact read_and_release_enabled. Qed.
Print Assumptions C04_read_and_release_enabled.

(* (iii) Without address reuse the head never passes the tail and a claimer never waits: the 10 ms sleep loops of
   pop / bulk_pop are entered only after an ABA on the head word (C04_overclaim_reachable_with_reuse below is a
   witness that they are entered with reuse). *)
Theorem C04_head_never_passes_tail_without_reuse :
  forall B, 1 <= B -> forall s, Reach B false s -> HL s <= tix s.
Proof. exact head_never_passes_tail. Qed.
Print Assumptions C04_head_never_passes_tail_without_reuse.
Theorem C04_no_wait_without_reuse :
  forall B, 1 <= B -> forall s a, Reach B false s -> pc (A s a) = XW -> pend (A s a) <= tix s.
Proof. exact no_wait_without_reuse. Qed.
Print Assumptions C04_no_wait_without_reuse.

(* (iii) While claims reach beyond tail.index the owner's own emptiness test holds: its local_pop answers None. *)
Theorem C04_overclaim_means_owner_sees_empty :
  forall B reuse, 1 <= B -> forall s, Reach B reuse s -> tix s < HL s -> inpush (pc (A s 0)) = false ->
  hb s = tbk s /\ tix s mod B <= hi s.
Proof. exact overclaim_means_owner_sees_empty. Qed.
Print Assumptions C04_overclaim_means_owner_sees_empty.

(* (iii) The "skip slot" branch of local_pop (which would lose a task) is unreachable, and so are the
   owner's restoring store and tail.index re-load. *)
Theorem C04_local_pop_never_skips :
  forall B reuse, 1 <= B -> forall s a, Reach B reuse s -> pc (A s a) <> LK /\ pc (A s a) <> LKr.
Proof. exact local_pop_never_skips. Qed.
Print Assumptions C04_local_pop_never_skips.
Theorem C04_local_pop_never_restores :
  forall B reuse, 1 <= B -> forall s a, Reach B reuse s -> kd (A s a) = KLocal -> pc (A s a) <> XR /\ pc (A s a) <> XT.
Proof. exact local_pop_never_restores. Qed.
Print Assumptions C04_local_pop_never_restores.

(* (iv) Memory: no operation dereferences a freed block, `used` never underflows, no null `next` is
   followed; the owner of a claim or of the lock bit keeps its block alive; a block is freed only by
   the release whose fetch_sub returns exactly what it releases (used hits 0), when nobody else owns a
   claim or the lock in it; the allocator only issues addresses that hold no live block. *)
Theorem C04_memory_safe :
  forall B reuse, 1 <= B -> forall s, Reach B reuse s -> bad_uaf s = false /\ bad_under s = false /\ bad_null s = false.
Proof. exact memory_safe. Qed.
Print Assumptions C04_memory_safe.
Theorem C04_claimers_block_alive :
  forall B reuse, 1 <= B -> forall s a, Reach B reuse s ->
  holds B (A s a) = true \/ lockpc B (A s a) = true -> alive (heap s (lb (A s a))) = true.
Proof. exact claimers_block_alive. Qed.
Print Assumptions C04_claimers_block_alive.
Theorem C04_freed_only_when_unused :
  forall B reuse, 1 <= B -> forall s ac s' b, Reach B reuse s -> step B reuse s ac = Some s' ->
  alive (heap s b) = true -> alive (heap s' b) = false ->
  exists a x, ac = Step a x /\ pc (A s a) = XM /\ lb (A s a) = b /\ used (heap s b) = pend (A s a) - ppi (A s a) /\
  forall a', a' <> a -> holds B (A s a') = true \/ lockpc B (A s a') = true -> lb (A s a') <> b.
Proof. exact freed_only_when_unused. Qed.
Print Assumptions C04_freed_only_when_unused.

(* (v) Nothing is lost: when no operation is in flight the head is not beyond the tail and every task
   pushed so far has been handed out or still lies in [head, tail). *)
Theorem C04_quiescent_nothing_lost :
  forall B reuse, 1 <= B -> forall s, Reach B reuse s -> (forall a, pc (A s a) = Idle \/ pc (A s a) = Ext) ->
  HL s <= tix s /\ forall i, i < tix s -> (exists a v, In (a, i, v) (got s)) \/ HL s <= i.
Proof. exact quiescent_nothing_lost. Qed.
Print Assumptions C04_quiescent_nothing_lost.

(* Tie: every state along a trace of the real queue that the acceptor accepts is a reachable state of the
   model with address reuse, hence satisfies all theorems above. *)
Theorem C04_accepted_traces_are_model_runs :
  forall B tr s x s' x', Reach B true s -> accept_all B (s, x) tr = Some (s', x') -> Reach B true s'.
Proof. exact accept_all_reach. Qed.
Print Assumptions C04_accepted_traces_are_model_runs.

(* ---- non-vacuity ---------------------------------------------------------------------------------- *)
Definition push1 v := [Call 0 KPush v; Step 0 0; Step 0 0].
Definition rep (n : nat) (a : action) := repeat a n.
(* B = 2: three pushes (a second block at address 1), stealer 1 pops slot 0, stealer 2 takes the lock for the last slot
   of block 0, which is freed; the owner pops slot 2: a reachable state with three log entries by three actors *)
Definition sched1 : list action :=
  push1 1 ++ [Call 0 KPush 2; Step 0 0; Step 0 1; Step 0 0; Step 0 0] ++ push1 3 ++
  (Call 1 KPop 0 :: rep 8 (Step 1 0)) ++ (Call 2 KPop 0 :: rep 10 (Step 2 0)) ++ (Call 0 KLocal 0 :: rep 5 (Step 0 0)).
Example C04_nonvacuous_log :
  exists s, Reach 2 true s /\ got s = [(1, 0, Some 1); (2, 1, Some 2); (0, 2, Some 3)] /\ alive (heap s 0) = false /\ HL s = 3.
Proof.
  eexists. split; [eapply (SpmcThm.run_reach 2 true sched1); [constructor | vm_compute; reflexivity]|]. vm_compute. auto 10.
Qed.
(* a stealer in the middle of steal_into: a claim of two slots that is read but not released *)
Definition sched2 : list action :=
  push1 1 ++ [Call 0 KPush 2; Step 0 0; Step 0 1; Step 0 0; Step 0 0] ++ (Call 1 KSteal 0 :: rep 9 (Step 1 0)).
Example C04_nonvacuous_batch :
  exists s, Reach 2 false s /\ pc (A s 1) = XM /\ res (A s 1) = [Some 1; Some 2] /\ glo (A s 1) = 0 /\ ghi (A s 1) = 2.
Proof.
  eexists. split; [eapply (SpmcThm.run_reach 2 false sched2); [constructor | vm_compute; reflexivity]|]. vm_compute. auto 10.
Qed.
(* the ABA over-claim (witness for F10?): block size 2, the allocator issues the freed address 0 again; stealer 1
   loaded head = (address 0, 0), tail.index = 1, tail.block = address 0 before the queue went through two blocks; its
   CAS succeeds on the new block at address 0 and it claims [4, 5) while tail.index = 4: it now waits for a
   push that only the owner can make, and every other actor is idle (a final state unless the owner pushes again). *)
Definition sched3 : list action :=
  [Call 1 KBulk 0; Step 1 0] ++ push1 1 ++ [Step 1 0; Step 1 0] ++
  [Call 0 KPush 2; Step 0 0; Step 0 2; Step 0 0; Step 0 0] ++
  (Call 0 KLocal 0 :: rep 5 (Step 0 0)) ++ (Call 0 KLocal 0 :: rep 7 (Step 0 0)) ++
  push1 3 ++ [Call 0 KPush 4; Step 0 0; Step 0 0; Step 0 0; Step 0 0] ++
  (Call 0 KLocal 0 :: rep 5 (Step 0 0)) ++ (Call 0 KLocal 0 :: rep 7 (Step 0 0)) ++ [Step 1 0; Step 1 0].
Example C04_overclaim_reachable_with_reuse :
  exists s, Reach 2 true s /\ pc (A s 1) = XW /\ tix s = 4 /\ pend (A s 1) = 5 /\ pc (A s 0) = Idle /\
            step 2 true s (Step 1 0) = Some s.
Proof.
  eexists. split; [eapply (SpmcThm.run_reach 2 true sched3); [constructor | vm_compute; reflexivity]|]. vm_compute. auto 10.
Qed.
