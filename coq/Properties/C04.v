(* C04 - spmc work-stealing run queue.  Property theorems only. *)
From Coq Require Import List ZArith.
Import ListNotations.
Require Import MayV.Queue.SpmcModel MayV.Queue.SpmcAccept.

(* Tie: every state along a trace of the real queue that the acceptor accepts is a reachable state
   of the model (with address reuse allowed), hence satisfies the theorems above. *)
Theorem C04_accepted_traces_are_model_runs :
  forall B tr s x s' x', Reach B true s -> accept_all B (s, x) tr = Some (s', x') -> Reach B true s'.
Proof. exact accept_all_reach. Qed.
Print Assumptions C04_accepted_traces_are_model_runs.
