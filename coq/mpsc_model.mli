
val negb : bool -> bool

type nat =
| O
| S of nat

val app : 'a1 list -> 'a1 list -> 'a1 list

type comparison =
| Eq
| Lt
| Gt

val compOpp : comparison -> comparison

val add : nat -> nat -> nat

val mul : nat -> nat -> nat

val eqb : bool -> bool -> bool

module Nat :
 sig
  val eqb : nat -> nat -> bool

  val leb : nat -> nat -> bool

  val ltb : nat -> nat -> bool
 end

val tl : 'a1 list -> 'a1 list

type positive =
| XI of positive
| XO of positive
| XH

type n =
| N0
| Npos of positive

type z =
| Z0
| Zpos of positive
| Zneg of positive

module Pos :
 sig
  val succ : positive -> positive

  val add : positive -> positive -> positive

  val add_carry : positive -> positive -> positive

  val pred_double : positive -> positive

  val pred_N : positive -> n

  val mul : positive -> positive -> positive

  val compare_cont : comparison -> positive -> positive -> comparison

  val compare : positive -> positive -> comparison

  val eqb : positive -> positive -> bool

  val testbit : positive -> n -> bool

  val iter_op : ('a1 -> 'a1 -> 'a1) -> positive -> 'a1 -> 'a1

  val to_nat : positive -> nat

  val of_succ_nat : nat -> positive
 end

module N :
 sig
  val testbit : n -> n -> bool
 end

module Z :
 sig
  val double : z -> z

  val succ_double : z -> z

  val pred_double : z -> z

  val pos_sub : positive -> positive -> z

  val add : z -> z -> z

  val opp : z -> z

  val sub : z -> z -> z

  val mul : z -> z -> z

  val compare : z -> z -> comparison

  val leb : z -> z -> bool

  val ltb : z -> z -> bool

  val eqb : z -> z -> bool

  val to_nat : z -> nat

  val of_nat : nat -> z

  val pos_div_eucl : positive -> z -> z * z

  val div_eucl : z -> z -> z * z

  val modulo : z -> z -> z

  val odd : z -> bool

  val testbit : z -> z -> bool
 end

type ppc =
| PIdle
| PLoad
| PCas
| PWrite
| PReady
| PStore

type cpc =
| CIdle
| CTry
| CTail
| CSpin
| CCommit

type pst = { pp : ppc; lk : nat; li : nat; pv : nat }

type st = { tk : nat; ti : nat; tc : bool; sval : (nat -> nat option);
            srdy : (nat -> bool); hidx : nat; p : (nat -> pst); cp : 
            cpc; cv : nat; saw : bool; rv : (nat -> nat); absq : nat list;
            bad_none : bool; bad_fifo : bool }

val upd : (nat -> 'a1) -> nat -> 'a1 -> nat -> 'a1

val isnil : 'a1 list -> bool

type action =
| Push of nat * nat
| PStep of nat
| Pop
| CStep

val step : nat -> st -> action -> st option

val init : st

val zidx : nat -> z -> nat

val zclosing : z -> bool

val znz : z -> bool

val ppc_eqb : ppc -> ppc -> bool

val cpc_eqb : cpc -> cpc -> bool

val take : nat -> st -> bool -> action -> (st -> bool) -> st option

val observe : st -> bool -> st option

val accept_ev : nat -> st -> z list -> st option

val monitors_ok : st -> bool

val m_init : st

val m_accept : st -> z list -> st option

val m_final : st -> bool
