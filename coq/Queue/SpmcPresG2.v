(* C04 - preservation of the invariant, part 2: claim map, read / released flags, the log of values handed out. *)
From Coq Require Import List Arith Bool Lia.
Import ListNotations.
Require Import MayV.Queue.SpmcModel MayV.Queue.SpmcInv MayV.Queue.SpmcTac MayV.Queue.SpmcFacts.
Section S.
Variable B : nat. Variable reuse : bool. Hypothesis Bpos : 1 <= B.
Notation step := (step B reuse). Notation Inv := (Inv B).

Lemma pres_IRd s ac s' : Inv s -> step s ac = Some s' ->
  forall i, (rl s' i = true -> rd s' i = true) /\ (rd s' i = true -> cl s' i <> None).
Proof.
  intros Hi H i. destruct (IRd _ _ Hi i) as [R1 R2].
  step_cases H; simp; auto.
  all: try (a_facts Hi a).
  all: try solve [updr_all; split; intros; fin].
  all: destruct Ha as (_ & _ & _ & Hc & Pp & Pe & _); destruct Hc as (C1 & C2 & C3 & C4 & C5); rewrite Epc in C5; rewrite Pp, Pe.
  all: updr_all; try solve [split; intros; fin].
  all: destruct (C5 i ltac:(lia)) as (Q1 & Q2 & Q3); split; intros; fin.
Qed.

Lemma pres_IPd s ac s' : Inv s -> step s ac = Some s' ->
  forall i a', cl s' i = Some a' -> rl s' i = false -> holds B (A s' a') = true /\ glo (A s' a') <= i < ghi (A s' a').
Proof.
  intros Hi H i a' Hc Hr. pose proof (IPd _ _ Hi i a') as P.
  step_cases H; simp; auto.
  all: try (a_facts Hi a).
  all: destruct (Nat.eq_dec a' a) as [->|Hne]; [rewrite !upd_eq | rewrite !upd_neq by auto]; simp.
  all: unfold holds in *; simp; try rewrite Epc in P; cbn beta iota in *.
  all: updr_all.
  all: try solve [apply P; fin].
  all: try solve [destruct P as [P1 P2]; fin; discriminate].
  all: unfold lockedB, locked in *; simp.
  all: try match goal with E : (if is_bulk _ then _ else _) = _ |- _ => rewrite E in *; cbn [negb] in * end.
  all: try solve [split; [reflexivity | lia]].
  all: try solve [apply P; fin].
  all: try solve [destruct P as [P1 P2]; fin; discriminate].
Qed.
End S.
