(* C04 - preservation of the invariant, part 2: claim map, read / released flags, the log of values handed out. *)
From Coq Require Import List Arith Bool Lia.
Import ListNotations.
Require Import MayV.Queue.SpmcModel MayV.Queue.SpmcInv MayV.Queue.SpmcTac MayV.Queue.SpmcFacts.
Section S.
Variable B : nat. Variable reuse : bool. Hypothesis Bpos : 1 <= B.
Notation step := (step B reuse). Notation Inv := (Inv B).

Lemma pres_IRd s ac s' : Inv s -> step s ac = Some s' ->
  forall i, (rl s' i = true -> rd s' i = true) /\ (rd s' i = true -> cl s' i <> None).
Proof.
  intros Hi H i. destruct (IRd _ _ Hi i) as [R1 R2].
  step_cases H; simp; auto.
  all: try (a_facts Hi a).
  all: try solve [updr_all; split; intros; fin].
  all: destruct Ha as (_ & _ & _ & Hc & Pp & Pe & _); destruct Hc as (C1 & C2 & C3 & C4 & C5); rewrite Epc in C5; rewrite Pp, Pe.
  all: updr_all; try solve [split; intros; fin].
  all: destruct (C5 i ltac:(lia)) as (Q1 & Q2 & Q3); split; intros; fin.
Qed.

Lemma pres_IPd s ac s' : Inv s -> step s ac = Some s' ->
  forall i a', cl s' i = Some a' -> rl s' i = false -> holds B (A s' a') = true /\ glo (A s' a') <= i < ghi (A s' a').
Proof.
  intros Hi H i a' Hc Hr. pose proof (IPd _ _ Hi i a') as P.
  step_cases H; simp; auto.
  all: try (a_facts Hi a).
  all: destruct (Nat.eq_dec a' a) as [->|Hne]; [rewrite !upd_eq | rewrite !upd_neq by auto]; simp.
  all: unfold holds in *; simp; try rewrite Epc in P; cbn beta iota in *.
  all: updr_all.
  all: try solve [apply P; fin].
  all: try solve [destruct P as [P1 P2]; fin; discriminate].
  all: unfold lockedB, locked in *; simp.
  all: try match goal with E : (if is_bulk _ then _ else _) = _ |- _ => rewrite E in *; cbn [negb] in * end.
  all: try solve [split; [reflexivity | lia]].
  all: try solve [apply P; fin].
  all: try solve [destruct P as [P1 P2]; fin; discriminate].
Qed.
Lemma pres_IGt s ac s' : Inv s -> step s ac = Some s' ->
  forall a' i v, In (a', i, v) (got s') -> rd s' i = true /\ cl s' i = Some a' /\ v = val_at s' i /\ i < tix s'.
Proof.
  intros Hi H a' i v Hin. pose proof (IGt _ _ Hi a' i v) as G. pose proof (len_pushed _ Bpos _ Hi) as LP.
  unfold val_at in *.
  step_cases H; simp; auto.
  all: try (a_facts Hi a).
  all: try solve [destruct (G Hin) as (G1 & G2 & G3 & G4); repeat split; auto; updr_all; fin].
  - destruct (G Hin) as (G1 & G2 & G3 & G4). rewrite nth_error_app1 by lia. auto.
  - destruct (G Hin) as (G1 & G2 & G3 & G4). rewrite nth_error_app1 by lia. auto.
  - destruct (G Hin) as (G1 & G2 & G3 & G4). repeat split; auto. bools. updr_all; auto.
    destruct (unrel_above _ Bpos s i Hi) as (U1 & _); [unfold HL; lia | congruence].
  - destruct (G Hin) as (G1 & G2 & G3 & G4). repeat split; auto. updr_all; auto.
    destruct Ha as (_ & _ & _ & (L1 & L2 & L3) & P1 & _).
    destruct (unrel_above _ Bpos s i Hi) as (U1 & _); [unfold HL; rewrite L2, L3; lia | congruence].
  - destruct (G Hin) as (G1 & G2 & G3 & G4). repeat split; auto. updr_all; auto.
    destruct Ha as (_ & _ & _ & (L1 & L2 & L3) & P1 & _).
    destruct (unrel_above _ Bpos s i Hi) as (U1 & _); [unfold HL; rewrite L2, L3; lia | congruence].
  - destruct (G Hin) as (G1 & G2 & G3 & G4). repeat split; auto. updr_all; auto.
    destruct Ha as (_ & _ & _ & (L1 & L2 & L3) & P1 & _).
    destruct (unrel_above _ Bpos s i Hi) as (U1 & _); [unfold HL; rewrite L2, L3; lia | congruence].
  - destruct Ha as (Hli & _ & _ & Hc & Pp & Pe & Pt).
    destruct (claim_facts _ Bpos _ _ _ Hi Hc) as (K1 & K2 & K3 & K4 & K5 & K6 & K7 & K8 & K9).
    destruct Hc as (C1 & C2 & C3 & C4 & C5). rewrite Epc in C5.
    apply in_app_or in Hin. destruct Hin as [Hin|Hin].
    + destruct (G Hin) as (G1 & G2 & G3 & G4). repeat split; auto. updr_all; auto.
    + apply in_map_iff in Hin. destruct Hin as (j & E & Hj). inversion E; subst a' i v. clear E.
      apply in_seq in Hj. rewrite Pp, Pe in *.
      destruct (C5 (glo (A s a) + j) ltac:(lia)) as (Q1 & Q2 & Q3).
      repeat split; auto; [updr_all; fin | | lia].
      destruct (IBk _ _ Hi _ C2) as (_ & _ & _ & _ & _ & _ & SL).
      rewrite (SL (li (A s a) + j)); [unfold val_at; f_equal; lia | lia | lia].
Qed.


Lemma pres_IGn s ac s' : Inv s -> step s ac = Some s' -> NoDup (map gidx (got s')).
Proof.
  intros Hi H. pose proof (IGn _ _ Hi) as G. fold gidx in G.
  step_cases H; simp; auto.
  a_facts Hi a. destruct Ha as (Hli & _ & _ & Hc & Pp & Pe & Pt). destruct Hc as (C1 & C2 & C3 & C4 & C5). rewrite Epc in C5.
  rewrite map_app, map_map. unfold gidx at 2. cbn [fst snd]. rewrite (map_add_seq B Bpos).
  apply nodup_app; auto; [apply seq_NoDup|].
  intros i Hin Hs. apply in_seq in Hs. apply in_map_iff in Hin. destruct Hin as ([[a' j] v] & E & Hin). unfold gidx in E; cbn in E; subst j.
  apply (IGt _ _ Hi) in Hin. destruct Hin as (G1 & _). destruct (C5 i) as (_ & _ & Q); [lia|congruence].
Qed.

Lemma pres_IGr s ac s' : Inv s -> step s ac = Some s' -> forall i, rd s' i = true -> In i (map gidx (got s')).
Proof.
  intros Hi H i Hr. pose proof (IGr _ _ Hi i) as G. fold gidx in G.
  step_cases H; simp; auto.
  a_facts Hi a. rewrite map_app, map_map. unfold gidx at 2. cbn [fst snd]. rewrite (map_add_seq B Bpos).
  apply in_or_app. updr_all; [right; apply in_seq; lia | left; auto].
Qed.

Lemma pres_ILu s ac s' : Inv s -> step s ac = Some s' ->
  forall a1 a2, lockpc B (A s' a1) = true -> lockpc B (A s' a2) = true -> a1 = a2.
Proof.
  intros Hi H a1 a2 L1 L2. pose proof (ILu _ _ Hi a1 a2) as U.
  pose proof (lock_knows _ s a1 Hi) as K1. pose proof (lock_knows _ s a2 Hi) as K2.
  step_cases H; simp; auto.
  all: try (a_facts Hi a).
  all: destruct (Nat.eq_dec a1 a) as [->|N1]; destruct (Nat.eq_dec a2 a) as [->|N2]; auto.
  all: rewrite ?upd_eq, ?upd_neq in * by auto.
  all: try (destruct k; discriminate).
  all: try solve [bools; first [destruct (K1 L1) as (Q & _) | destruct (K2 L2) as (Q & _)]; congruence].
  all: unfold lockpc, lockedB, locked in *; simp; rewrite ?Epc in *; cbn beta iota in *.
  all: try discriminate.
  all: try solve [apply U; auto].
Qed.
End S.
