(* Preservation of the full mpsc invariant: consumer steps that only touch the consumer's own state (call, try_get, push_index, get / peek, wait_next_block, len, the loads of Queue::drop). *)
From Coq Require Import List Arith Bool Lia.
Import ListNotations.
Require Import MayV.Queue.MpscFullModel MayV.Queue.MpscFullInv MayV.Queue.MpscFullTac MayV.Queue.MpscFullFacts.

(* classes of consumer control points that the state-shape clauses distinguish *)
Definition pcls (c : cpc) : nat :=
  match c with CFree => 1 | CNext | CSetH => 2 | DFree2 => 3 | DOld | CDead => 4 | _ => 0 end.
(* ghost state equal except for saw / glen0 / nfree *)
Definition gsame (g' g : gst) : Prop :=
  rlog g' = rlog g /\ absq g' = absq g /\ popped g' = popped g /\ badr g' = badr g /\ nblk g' = nblk g /\
  gtk g' = gtk g /\ ghk g' = ghk g /\ glo g' = glo g /\ gcl g' = gcl g /\ act g' = act g /\ nalloc g' = nalloc g.

Section S.
Variable B : nat.
Hypothesis Bpos : 1 <= B.
Notation Inv := (Inv B).
Set Default Proof Using "Bpos".

(* a consumer step that touches only the consumer's own state (and saw / glen0 / monitors) *)
Lemma inv_conly s s' :
  Inv s -> M s' = M s -> P s' = P s -> gsame (G s') (G s) -> pcls (cp (C s')) = pcls (cp (C s)) ->
  (cdrop (C s') = true -> act (G s) = []) -> cinv B s' -> monitors_ok s' = true -> Inv s'.
Proof.
  intros Hi EM EP (G1 & G2 & G3 & G4 & G5 & G6 & G7 & G8 & G9 & G10 & G11) ECL ED HC HM.
  assert (NR : nres B s' = nres B s) by (unfold nres; rewrite EM, G6; reflexivity).
  assert (BO : forall k, blkof s' k = blkof s k) by (intros; unfold blkof, blk_at; rewrite EM, G4; reflexivity).
  assert (NL : nlin B s' = nlin B s) by (unfold nlin; rewrite BO, EM, G6; reflexivity).
  assert (RV : forall j, rv s' j = rv s j) by (intros; unfold rv; rewrite G1; reflexivity).
  assert (LHI : lhi s' = lhi s).
  { unfold lhi. rewrite G5, G6. destruct (cp (C s')), (cp (C s)); cbn in ECL; try discriminate; reflexivity. }
  assert (LV : forall k, live s' k <-> live s k) by (intros; unfold live; rewrite LHI, G8; tauto).
  destruct Hi. constructor.
  - rewrite EM. auto.
  - rewrite G1, NR. auto.
  - rewrite EM, G5, G6, G7, G8. auto.
  - intros k L. apply LV in L. rewrite BO, EM, G4. auto.
  - intros k k' L L'. apply LV in L. apply LV in L'. rewrite G4. auto.
  - intros a Ha. rewrite EM. apply I_fr. intros k L. rewrite <- G4. apply Ha. apply LV. auto.
  - intros k L Lk. apply LV in L. rewrite BO, G4. rewrite G6 in Lk. auto.
  - intros k i L Li Ln. apply LV in L. rewrite BO. rewrite NR in Ln. auto.
  - intros k i L Li R. apply LV in L. rewrite BO in *. rewrite RV, NL. auto.
  - rewrite EM, G4, G6, G7. auto.
  - unfold oldrel in *. rewrite EM, G4, G7, G8. destruct (cp (C s')), (cp (C s)); cbn in ECL; try discriminate; auto.
  - rewrite EM, NL. destruct I_hd as [H1 H2]. split; auto. unfold hpos in *. rewrite EM, G7.
    destruct (cp (C s')), (cp (C s)); cbn in ECL; try discriminate; auto.
  - rewrite G2, G3, EM, NL. destruct I_abs as [A1 A2]. split.
    + rewrite A1. apply map_seq_ext. intros; symmetry; apply RV.
    + rewrite A2. apply map_seq_ext. intros; symmetry; apply RV.
  - intros p. specialize (I_p p). unfold pinv, pw_common, pc_common, pslot in *. rewrite EP, ?BO, ?NR, EM, G1, G4, G5, G6, G9. exact I_p.
  - intros p. rewrite EP, G10. auto.
  - rewrite EM, EP, G6, G9. auto.
  - exact HC.
  - intros D. rewrite G10. auto.
  - rewrite G11, G5. auto.
  - exact HM.
Qed.

Lemma lhi_nblk s : pcls (cp (C s)) <= 2 -> lhi s = nblk (G s).
Proof. unfold lhi. destruct (cp (C s)); cbn; auto; lia. Qed.
Lemma live_head' s : Inv s -> pcls (cp (C s)) <= 2 -> live s (ghk (G s)).
Proof. intros Hi Hp. unfold live. rewrite (lhi_nblk s Hp). destruct (I_rng _ _ Hi) as (?&?&?&?&?&?). lia. Qed.
Lemma live_tail' s : Inv s -> pcls (cp (C s)) <= 2 -> live s (gtk (G s)) /\ live s (S (gtk (G s))).
Proof. intros Hi Hp. unfold live. rewrite (lhi_nblk s Hp). destruct (I_rng _ _ Hi) as (?&?&?&?&?&?). lia. Qed.
(* inside Queue::drop nobody is pushing *)
Lemma drop_idle s : Inv s -> cdrop (C s) = true -> (forall p, pp (P s p) = PIdle) /\ tc (M s) = false.
Proof.
  intros Hi D. pose proof (I_dr _ _ Hi D) as A.
  assert (AI : forall p, pp (P s p) = PIdle).
  { intros p. destruct (pp (P s p)) eqn:E; auto; exfalso; pose proof (I_act _ _ Hi p ltac:(congruence)) as I; rewrite A in I; destruct I. }
  split; auto. destruct (tc (M s)) eqn:T; auto. exfalso. destruct (I_cl _ _ Hi T) as [[_ F] _].
  unfold inflight in F. rewrite AI in F. discriminate.
Qed.
(* the tail block's start: push_index() = gtk * B + ti *)
Lemma push_index_eq s : Inv s -> pcls (cp (C s)) <= 2 ->
  issome (heap (M s) (taddr (M s))) = true /\ push_index s = gtk (G s) * B + ti (M s) /\ pendv s = nlin B s - (gtk (G s) * B + ti (M s)).
Proof.
  intros Hi Hp. destruct (live_tail' s Hi Hp) as [LT _]. destruct (I_al _ _ Hi _ LT) as (A1 & A2 & _).
  destruct (I_ptr _ _ Hi) as [T1 _]. unfold push_index, pendv, nlin, blkof, blk_at in *. rewrite T1. rsplit; auto; try lia;
  try (destruct (tc (M s) && brdy _ _); lia).
Qed.
Lemma absq_len s : Inv s -> length (absq (G s)) = nlin B s - hidx (M s).
Proof. intros Hi. destruct (I_abs _ _ Hi) as [A _]. rewrite A. now rewrite map_length, seq_length. Qed.

Lemma pres_c_start s o d : Inv s -> api_ok s = true -> (d = true -> o = OPop /\ act (G s) = []) -> Inv (c_start s o d).
Proof.
  intros Hi A D. unfold api_ok in A. destruct (cp (C s)) eqn:Ecp; try discriminate. apply negb_true_iff in A.
  destruct (I_hd _ _ Hi) as [_ HP]. unfold hpos in HP. rewrite Ecp in HP.
  apply (inv_conly s); auto; try reflexivity.
  - unfold gsame, c_start. sp. rsplit; reflexivity.
  - unfold c_start, entry. sp. rewrite Ecp. destruct o; reflexivity.
  - unfold c_start. sp. intros ->. apply D; auto.
  - unfold c_start, cinv, crd, popbulk, entry. sp. destruct o; cbv beta iota; sp; rsplit; auto; try lia; try discriminate; try (intros; lia).
    all: try (intros ->; destruct D; auto; discriminate).
    all: destruct d; auto; destruct D as [? _]; auto; discriminate.
  - pose proof (I_mon _ _ Hi). unfold c_start, monitors_ok in *. sp. auto.
Qed.

(* reading a ready slot of the head block extends what the consumer has read *)
Lemma crd_ext s s' : Inv s -> pcls (cp (C s)) <= 2 -> crd B s -> ck (C s) < S (ghk (G s)) * B ->
  brdy (blk_at s (hblk (M s))) (ck (C s) mod B) = true ->
  M s' = M s -> G s' = G s -> ck (C s') = S (ck (C s)) ->
  cacc (C s') = cacc (C s) ++ [valof (bval (blk_at s (hblk (M s))) (ck (C s) mod B))] ->
  crd B s'.
Proof.
  intros Hi Hp (K1 & K2 & K3) Hk R EM EG Ek Ea.
  pose proof (hpos_bounds B Bpos s Hi) as [Hb1 Hb2]. pose proof (live_head' s Hi Hp) as LH.
  destruct (I_ptr _ _ Hi) as [_ T2].
  assert (GE : ghk (G s) * B <= ck (C s)) by (clear - K1 Hb1; lia).
  assert (MB : ck (C s) mod B = ck (C s) - ghk (G s) * B) by (apply mod_blk; auto).
  rewrite MB in *. unfold blk_at in *. rewrite T2 in *.
  assert (LB : ck (C s) - ghk (G s) * B < B) by (clear - Hk GE; lia).
  destruct (I_sc _ _ Hi _ _ LH LB R) as [V _]. unfold blkof, blk_at in V. rewrite V in Ea. cbn in Ea.
  replace (ghk (G s) * B + (ck (C s) - ghk (G s) * B)) with (ck (C s)) in Ea by (clear - GE; lia).
  unfold crd. rewrite Ek, Ea, EM. unfold blkof, blk_at, rv. rewrite EM, EG. rewrite app_length. cbn [length]. rsplit.
  - lia.
  - intros j J1 J2. destruct (Nat.eq_dec j (ck (C s))) as [->|n]; [exact R | apply K2; lia].
  - replace (length (cacc (C s)) + 1) with (S (length (cacc (C s)))) by lia. rewrite map_seq_snoc. f_equal; [exact K3|].
    rewrite <- K1. reflexivity.
Qed.

Lemma pres_c_try s : Inv s -> cp (C s) = CTry -> Inv (c_try B s).
Proof.
  intros Hi Ecp. assert (Hp : pcls (cp (C s)) <= 2) by (rewrite Ecp; cbn; lia).
  pose proof (I_c _ _ Hi) as Hc. unfold cinv in Hc. rewrite Ecp in Hc. destruct Hc as (H1 & H2 & H3 & H4 & H5).
  pose proof (live_head' s Hi Hp) as LH. destruct (I_al _ _ Hi _ LH) as (AL1 & AL2 & AL3). destruct (I_ptr _ _ Hi) as [T1 T2].
  pose proof (hpos_bounds B Bpos s Hi) as [Hb1 Hb2].
  assert (UA : issome (heap (M s) (hblk (M s))) = true) by (rewrite T2; exact AL1).
  pose proof (I_mon _ _ Hi) as MON.
  unfold c_try. cbv zeta. destruct (brdy (blk_at s (hblk (M s))) (ck (C s) mod B)) eqn:R.
  - (* ready *)
    match goal with |- Inv ?x => assert (CR : crd B x) end.
    { eapply (crd_ext s); eauto; try reflexivity; unfold deref; sp; reflexivity. }
    apply (inv_conly s); auto; try reflexivity.
    + unfold gsame, deref. sp. rsplit; reflexivity.
    + unfold deref. sp. rewrite Ecp. destruct (match cop (C s) with OBulk => _ | _ => true end); reflexivity.
    + unfold deref. sp. apply (I_dr _ _ Hi).
    + unfold cinv. destruct (match cop (C s) with OBulk => S (ck (C s)) mod B =? 0 | _ => true end) eqn:ST.
      * unfold deref in *. sp. split; [exact H1|]. split; [exact CR|]. rewrite app_length. cbn. split; lia.
      * unfold deref in *. sp. split; [exact H1|]. split; [exact CR|].
        assert (OB : cop (C s) = OBulk) by (destruct (cop (C s)); try discriminate; auto). rewrite OB in ST. bools.
        rsplit.
        -- destruct (Nat.eq_dec (S (ck (C s))) (S (ghk (G s)) * B)) as [e|n]; [|lia]. exfalso. apply ST. rewrite e. apply mod_end; auto.
        -- intros O. congruence.
        -- exact H5.
    + unfold monitors_ok, deref in *. sp. rewrite UA. cbn. rewrite !orb_false_r. exact MON.
  - (* not ready *)
    destruct (isnil (cacc (C s))) eqn:NI.
    + apply (inv_conly s); auto; try reflexivity.
      * unfold gsame, deref. sp. rsplit; reflexivity.
      * unfold deref. sp. rewrite Ecp. reflexivity.
      * unfold deref. sp. apply (I_dr _ _ Hi).
      * unfold cinv, deref. sp. destruct H2 as (K1 & K2 & K3). assert (CA : cacc (C s) = []) by (destruct (cacc (C s)); [auto|discriminate]).
        rewrite CA in *. cbn in K1. rsplit.
        -- destruct H1 as [-> | ->]; discriminate.
        -- reflexivity.
        -- lia.
        -- intros _. destruct (absq (G s)) eqn:AQ; [left; destruct (saw (G s)); reflexivity|]. right.
           pose proof (absq_len s Hi) as AL. rewrite AQ in AL. cbn in AL. destruct (I_hd _ _ Hi) as [HL _].
           destruct (nlin_cases B Bpos s) as [NL | [TC NL]]; [lia|].
           destruct (Nat.eq_dec (hidx (M s)) (gtk (G s) * B + ti (M s))) as [e|ne]; [|lia]. exfalso.
           destruct (I_ti _ _ Hi) as [TI _].
           assert (MB : ck (C s) mod B = ck (C s) - ghk (G s) * B) by (apply mod_blk; auto; clear - K1 Hb1 H3; lia).
           assert (GE : ghk (G s) = gtk (G s) /\ ck (C s) - ghk (G s) * B = ti (M s)).
           { apply (uniq_rep B Bpos); try lia. }
           destruct GE as [GE1 GE2]. unfold nlin in NL. rewrite TC in NL. cbn in NL.
           unfold blk_at in R. rewrite T2, MB, GE2, GE1 in R. unfold blkof, blk_at in NL. rewrite R in NL. lia.
        -- exact H5.
      * unfold monitors_ok, deref in *. sp. rewrite UA. cbn. rewrite !orb_false_r. exact MON.
    + apply (inv_conly s); auto; try reflexivity.
      * unfold gsame, deref. sp. rsplit; reflexivity.
      * unfold deref. sp. rewrite Ecp. reflexivity.
      * unfold deref. sp. apply (I_dr _ _ Hi).
      * unfold cinv, deref. sp. split; [exact H1|]. split; [exact H2|]. destruct (cacc (C s)); [discriminate|]. cbn. split; lia.
      * unfold monitors_ok, deref in *. sp. rewrite UA. cbn. rewrite !orb_false_r. exact MON.
Qed.

Ltac conly s Ecp :=
  apply (inv_conly s); auto; try reflexivity; unfold deref, c_fin_empty in *; sp;
  match goal with
  | |- gsame _ _ => unfold gsame; sp; rsplit; reflexivity
  | |- pcls _ = pcls _ => rewrite Ecp; try reflexivity
  | |- monitors_ok _ = true => unfold monitors_ok in *; sp
  | |- cinv _ _ => unfold cinv; sp
  | _ => idtac
  end.

Lemma pres_c_tail s : Inv s -> cp (C s) = CTail -> Inv (c_tail B s).
Proof.
  intros Hi Ecp. assert (Hp : pcls (cp (C s)) <= 2) by (rewrite Ecp; cbn; lia).
  pose proof (I_c _ _ Hi) as Hc. unfold cinv in Hc. rewrite Ecp in Hc. destruct Hc as (H1 & H2 & H3 & H4 & H5).
  destruct (push_index_eq s Hi Hp) as (UA & PI & PV).
  pose proof (hpos_bounds B Bpos s Hi) as [Hb1 Hb2]. destruct (I_hd _ _ Hi) as [HL HP]. unfold hpos in HP. rewrite Ecp in HP.
  pose proof (I_mon _ _ Hi) as MON. pose proof (absq_len s Hi) as AL. pose proof (nlin_le_nres B Bpos s) as LN.
  destruct (I_ti _ _ Hi) as [TI1 TI2].
  unfold c_tail. cbv zeta. rewrite PI. destruct (gtk (G s) * B + ti (M s) <=? hidx (M s)) eqn:LE; bools.
  - (* "empty" *)
    assert (UJ : match cop (C s) with
                 | OPeek => negb (length (absq (G s)) <=? pendv s)
                 | _ => negb (saw (G s) || isnil (absq (G s))) end = false).
    { destruct (cop (C s)) eqn:O.
      1,2,4: (destruct (H4 ltac:(congruence)) as [SW | SW]; [rewrite SW; reflexivity | lia]).
      apply negb_false_iff. apply Nat.leb_le. lia. }
    rewrite UJ. conly s Ecp.
    + destruct (cdrop (C s)); reflexivity.
    + apply (I_dr _ _ Hi).
    + destruct (cdrop (C s)) eqn:D; auto. split; auto.
      destruct (drop_idle s Hi D) as [_ TF]. unfold nres in LN. rewrite TF in LN.
      assert (E : hidx (M s) = gtk (G s) * B + ti (M s)) by lia.
      assert (ghk (G s) * B + (hidx (M s) - ghk (G s) * B) = gtk (G s) * B + ti (M s)) by lia.
      apply (uniq_rep B Bpos) in H; try lia. tauto.
    + rewrite UA. cbn. rewrite !orb_false_r. exact MON.
  - (* something is reserved *)
    conly s Ecp.
    + apply (I_dr _ _ Hi).
    + unfold crd. sp. rewrite H2, H3. cbn [length]. rsplit; auto; try lia.
      all: rewrite ?(blkend_blk B Bpos (ghk (G s))) by lia.
      all: destruct (cop (C s)); try lia; try congruence.
    + rewrite UA. cbn. rewrite !orb_false_r. exact MON.
Qed.

Lemma pres_c_next s : Inv s -> cp (C s) = CNext -> Inv (c_next s).
Proof.
  intros Hi Ecp. assert (Hp : pcls (cp (C s)) <= 2) by (rewrite Ecp; cbn; lia).
  pose proof (live_head' s Hi Hp) as LH. destruct (I_al _ _ Hi _ LH) as (AL1 & AL2 & AL3). destruct (I_ptr _ _ Hi) as [T1 T2].
  destruct (I_hd _ _ Hi) as [HL HP]. unfold hpos in HP. rewrite Ecp in HP. pose proof (nlin_le_nres B Bpos s) as LN.
  destruct (I_ti _ _ Hi) as [TI1 TI2]. destruct (I_rng _ _ Hi) as (R1 & R2 & R3 & R4 & R5 & R6).
  assert (GK : ghk (G s) <= gtk (G s)).
  { destruct (nres_cases B Bpos s) as [[_ N]|[_ N]]; destruct (le_lt_dec (ghk (G s)) (gtk (G s))); auto; exfalso; nia. }
  pose proof (I_ch _ _ Hi _ LH GK) as CH.
  assert (L1 : live s (S (ghk (G s)))) by (unfold live; rewrite (lhi_nblk s Hp); destruct LH; lia).
  destruct (I_al _ _ Hi _ L1) as (_ & _ & NZ).
  pose proof (I_mon _ _ Hi) as MON.
  unfold c_next. cbv zeta. unfold blk_at. rewrite T2. unfold blkof, blk_at in CH. rewrite CH.
  apply Nat.eqb_neq in NZ. rewrite NZ. conly s Ecp.
  - apply (I_dr _ _ Hi).
  - split; auto.
  - rewrite AL1. cbn. rewrite !orb_false_r. exact MON.
Qed.

Lemma pres_c_lenh s : Inv s -> cp (C s) = CLenH -> Inv (c_lenh s).
Proof.
  intros Hi Ecp. pose proof (I_c _ _ Hi) as Hc. unfold cinv in Hc. rewrite Ecp in Hc. destruct Hc as (H1 & H2).
  pose proof (I_mon _ _ Hi) as MON. unfold c_lenh. conly s Ecp.
  - apply (I_dr _ _ Hi).
  - auto.
Qed.

Lemma pres_c_lent s : Inv s -> cp (C s) = CLenT -> Inv (c_lent s).
Proof.
  intros Hi Ecp. assert (Hp : pcls (cp (C s)) <= 2) by (rewrite Ecp; cbn; lia).
  pose proof (I_c _ _ Hi) as Hc. unfold cinv in Hc. rewrite Ecp in Hc. destruct Hc as (H1 & H2 & H3).
  destruct (push_index_eq s Hi Hp) as (UA & PI & PV). destruct (I_hd _ _ Hi) as [HL _].
  pose proof (I_mon _ _ Hi) as MON. pose proof (absq_len s Hi) as AL.
  destruct (nlin_cases B Bpos s) as [NL | [TC NL]].
  all: unfold c_lent; cbv zeta; rewrite PI, PV, H1; conly s Ecp; [apply (I_dr _ _ Hi) | ].
  all: rewrite UA; cbn [negb]; rewrite !orb_false_r.
  all: match goal with |- context [?a <? ?b] => let E := fresh in destruct (a <? b) eqn:E; [apply Nat.ltb_lt in E; exfalso; lia|] end.
  all: match goal with |- context [?a <? ?b] => let E := fresh in destruct (a <? b) eqn:E; [apply Nat.ltb_lt in E; exfalso; lia|] end.
  all: rewrite !orb_false_r; exact MON.
Qed.

Lemma pres_d_head s : Inv s -> cp (C s) = DHead -> Inv (d_head s).
Proof.
  intros Hi Ecp. pose proof (I_c _ _ Hi) as Hc. unfold cinv in Hc. rewrite Ecp in Hc.
  pose proof (I_mon _ _ Hi) as MON. unfold d_head. conly s Ecp.
  - apply (I_dr _ _ Hi).
  - auto.
Qed.

Lemma pres_d_tail s : Inv s -> cp (C s) = DTail -> Inv (d_tail s).
Proof.
  intros Hi Ecp. pose proof (I_c _ _ Hi) as Hc. unfold cinv in Hc. rewrite Ecp in Hc. destruct Hc as [[D [K KH]] H].
  destruct (drop_idle s Hi D) as [_ TF]. destruct (I_ptr _ _ Hi) as [T1 T2].
  pose proof (I_mon _ _ Hi) as MON. unfold d_tail. conly s Ecp.
  - apply (I_dr _ _ Hi).
  - split; auto. split; auto.
  - rewrite TF, H, T1, T2, K, Nat.eqb_refl. cbn. rewrite !orb_false_r. exact MON.
Qed.

Lemma pres_d_next s : Inv s -> cp (C s) = DNext -> Inv (d_next s).
Proof.
  intros Hi Ecp. assert (Hp : pcls (cp (C s)) <= 2) by (rewrite Ecp; cbn; lia).
  pose proof (I_c _ _ Hi) as Hc. unfold cinv in Hc. rewrite Ecp in Hc. destruct Hc as [[D [K KH]] H].
  destruct (live_tail' s Hi Hp) as [LT LT1]. destruct (I_al _ _ Hi _ LT) as (AL1 & AL2 & AL3). destruct (I_al _ _ Hi _ LT1) as (_ & _ & NZ).
  destruct (I_ptr _ _ Hi) as [T1 T2]. pose proof (I_ch _ _ Hi _ LT (le_n _)) as CH.
  pose proof (I_mon _ _ Hi) as MON. unfold d_next. cbv zeta. unfold blk_at. rewrite H, T1. unfold blkof, blk_at in CH. rewrite CH.
  conly s Ecp.
  - apply (I_dr _ _ Hi).
  - rsplit; auto; [unfold dropst; sp; auto | congruence].
  - rewrite AL1. apply Nat.eqb_neq in NZ. rewrite NZ. cbn. rewrite !orb_false_r. exact MON.
Qed.

Lemma pres_c_spin s : Inv s -> cp (C s) = CSpin -> Inv (c_spin B s).
Proof.
  intros Hi Ecp. assert (Hp : pcls (cp (C s)) <= 2) by (rewrite Ecp; cbn; lia).
  pose proof (I_c _ _ Hi) as Hc. unfold cinv in Hc. rewrite Ecp in Hc. destruct Hc as (H1 & H2 & H3 & H4 & H5 & H6 & H7).
  pose proof (live_head' s Hi Hp) as LH. destruct (I_al _ _ Hi _ LH) as (AL1 & AL2 & AL3). destruct (I_ptr _ _ Hi) as [T1 T2].
  assert (UA : issome (heap (M s) (hblk (M s))) = true) by (rewrite T2; exact AL1).
  pose proof (I_mon _ _ Hi) as MON. pose proof (absq_len s Hi) as AL.
  assert (HK : ck (C s) < S (ghk (G s)) * B) by lia.
  unfold c_spin. cbv zeta. destruct (brdy (blk_at s (hblk (M s))) (ck (C s) mod B)) eqn:R.
  - (* ready *)
    assert (CR : forall s', M s' = M s -> G s' = G s -> ck (C s') = S (ck (C s)) ->
                 cacc (C s') = cacc (C s) ++ [valof (bval (blk_at s (hblk (M s))) (ck (C s) mod B))] -> crd B s').
    { intros. eapply (crd_ext s); eauto. }
    destruct (S (ck (C s)) =? cend (C s)) eqn:EE; bools.
    + destruct (cop (C s)) eqn:O.
      * conly s Ecp; [apply (I_dr _ _ Hi) | | rewrite UA; cbn; rewrite !orb_false_r; exact MON].
        split; [left; exact O|]. split; [apply CR; reflexivity|]. rewrite app_length. cbn. split; lia.
      * conly s Ecp; [apply (I_dr _ _ Hi) | | rewrite UA; cbn; rewrite !orb_false_r; exact MON].
        split; [right; exact O|]. split; [apply CR; reflexivity|]. rewrite app_length. cbn. split; lia.
      * (* peek returns *)
        assert (PK : crd B (s_C s (c_rd (C s) (S (ck (C s))) (cacc (C s) ++ [valof (bval (blk_at s (hblk (M s))) (ck (C s) mod B))])))).
        { apply CR; reflexivity. }
        destruct PK as (P1 & _ & P3). sp. destruct H2 as (K1 & _ & _).
        assert (CE : cend (C s) = S (hidx (M s))) by (apply H6; congruence).
        assert (CA : cacc (C s) = []) by (destruct (cacc (C s)); [auto | cbn in K1; lia]).
        unfold deref. sp. rewrite CA in *. cbn [app length] in *. rewrite P3.
        destruct (I_abs _ _ Hi) as [AQ _]. rewrite AQ.
        assert (NL : nlin B s - hidx (M s) = S (nlin B s - hidx (M s) - 1)).
        { destruct (nlin_cases B Bpos s) as [N|[_ N]]; lia. }
        rewrite NL. cbn [seq map firstn]. rewrite list_eqb_refl.
        conly s Ecp; [apply (I_dr _ _ Hi) | | rewrite UA; cbn; rewrite !orb_false_r; exact MON].
        destruct (cdrop (C s)); auto. specialize (H7 eq_refl). congruence.
      * congruence.
    + conly s Ecp; [apply (I_dr _ _ Hi) | | rewrite UA; cbn; rewrite !orb_false_r; exact MON].
      rewrite Ecp. sp. split; [exact H1|]. split; [apply CR; reflexivity|]. rsplit; auto; lia.
  - (* not ready: spin *)
    conly s Ecp; [apply (I_dr _ _ Hi) | | rewrite UA; cbn; rewrite !orb_false_r; exact MON].
    rewrite Ecp. rsplit; auto.
Qed.
End S.
