From Coq Require Import List Arith Bool Lia.
Import ListNotations.
Require Import MayV.Queue.MpscCore MayV.Queue.MpscInv.

Ltac inv_some := match goal with H : Some _ = Some _ |- _ => inversion H; subst; clear H end.
Ltac step_cases H :=
  unfold MpscCore.step in H;
  repeat match type of H with
  | context [match ?ac with Push _ _ => _ | PStep _ => _ | Pop => _ | CStep => _ end] => destruct ac
  | context [match pp ?x with _ => _ end] => let E := fresh "Epp" in destruct (pp x) eqn:E
  | context [match cp ?s with _ => _ end] => let E := fresh "Ecp" in destruct (cp s) eqn:E
  | context [if ?c then _ else _] => let E := fresh "Ec" in destruct c eqn:E
  end; try discriminate; inv_some.
Ltac bools :=
  repeat match goal with
  | H : _ && _ = true |- _ => apply andb_prop in H; destruct H
  | H : negb _ = true |- _ => apply negb_true_iff in H
  | H : (_ =? _) = true |- _ => apply Nat.eqb_eq in H
  | H : (_ =? _) = false |- _ => apply Nat.eqb_neq in H
  | H : (_ <? _) = true |- _ => apply Nat.ltb_lt in H
  | H : (_ <? _) = false |- _ => apply Nat.ltb_ge in H
  | H : (_ <=? _) = true |- _ => apply Nat.leb_le in H
  | H : (_ <=? _) = false |- _ => apply Nat.leb_gt in H
  end.
Ltac upd_tac :=
  repeat match goal with
  | |- context [upd ?f ?i ?v ?j] =>
      first [ rewrite (upd_eq f i v) | rewrite (upd_neq f i j v) by (try congruence; try lia)
            | let e := fresh "e" in let ne := fresh "ne" in
              destruct (Nat.eq_dec j i) as [e|ne];
              [ rewrite e; rewrite (upd_eq f i v) | rewrite (upd_neq f i j v ne) ] ]
  end.

Ltac p_facts Hi p :=
  let Dp := fresh "Dp" in
  pose proof (ID _ _ Hi p) as Dp; unfold pinv, slot in Dp;
  match goal with E : pp (P _ p) = _ |- _ => rewrite E in Dp end; cbn in Dp.

Ltac brk := repeat match goal with H : _ /\ _ |- _ => destruct H end.

Ltac splitb := repeat match goal with
  | |- context [if ?c then _ else _] => let E := fresh "Eb" in destruct c eqn:E; cbn
  | H : context [if ?c then _ else _] |- _ => let E := fresh "Eb" in destruct c eqn:E; cbn in H
  end.

Ltac eqs := repeat match goal with
  | H : lk _ = tk _ |- _ => rewrite H in *
  | H : li _ = ti _ |- _ => rewrite H in *
  end.

Ltac fwd := repeat match goal with
  | H : tc ?s = _ |- _ => rewrite H in *
  | H : ?a <= ?b -> _ |- _ => let Q := fresh "Q" in assert (Q : a <= b) by (cbn; lia); specialize (H Q)
  | H : ?a < ?b -> _ |- _ => let Q := fresh "Q" in assert (Q : a < b) by (cbn; lia); specialize (H Q)
  | H : ?a = ?a -> _ |- _ => specialize (H eq_refl)
  | H : S ?a = ?b -> _ |- _ => let Q := fresh "Q" in assert (Q : S a = b) by lia; specialize (H Q)
  | H : true = true -> _ |- _ => specialize (H eq_refl)
  | H : _ /\ _ |- _ => destruct H
  end.

Ltac crush := brk; eqs; fwd; eqs; cbn [pp lk li pv] in *; try congruence; try lia; try nia.

Section S.
Variable B : nat.
Hypothesis Bpos : 1 <= B.
Notation step := (step B).
Notation Inv := (Inv B).

Lemma pres_A s a s' : Inv s -> step s a = Some s' -> ti s' < B /\ (tc s' = true -> S (ti s') = B).
Proof.
  intros Hi H. destruct (IA _ _ Hi) as [A1 A2].
  step_cases H; cbn; bools; try (split; [lia | intros; try discriminate; try lia; auto]); auto.
  all: try (pose proof (ID _ _ Hi p) as Dp; unfold pinv in Dp; rewrite Epp in Dp; lia).
Qed.


Lemma res_mono s a s' : Inv s -> step s a = Some s' -> res B s <= res B s'.
Proof.
  intros Hi H. destruct (IA _ _ Hi) as [A1 A2].
  step_cases H; unfold res; cbn; bools; try lia.
  all: try (p_facts Hi p; destruct Dp as (D1 & D2 & D3 & D4 & D5); rewrite D4; nia).
  all: try (destruct (tc s); lia).
Qed.

Lemma pres_B s a s' : Inv s -> step s a = Some s' -> forall j, res B s' <= j -> sval s' j = None /\ srdy s' j = false.
Proof.
  intros Hi H j Hj. pose proof (res_mono _ _ _ Hi H) as Hm. pose proof (IB _ _ Hi j) as Bj.
  assert (Hj0 : res B s <= j) by lia. specialize (Bj Hj0). destruct Bj as [B1 B2].
  step_cases H; cbn; auto; bools.
  all: try (p_facts Hi p; unfold slot in *; split; auto; upd_tac; auto; exfalso; unfold res in *; cbn in *; lia).
Qed.

Lemma closing_slot_neq s x : Inv s -> S (li x) < B -> lk x * B + li x <> tk s * B + ti s \/ tc s = false.
Proof.
  intros Hi Hl. destruct (IA _ _ Hi) as [A1 A2]. destruct (tc s) eqn:T; auto. left.
  intro E. specialize (A2 eq_refl). apply uniq_rep in E; try lia. 
Qed.


Lemma lpb_mono s a s' : Inv s -> step s a = Some s' -> lpb B s <= lpb B s'.
Proof.
  intros Hi H. destruct (IA _ _ Hi) as [A1 A2].
  step_cases H; unfold lpb; cbn; bools; subst; try lia;
    try (p_facts Hi p); upd_tac; splitb; bools; brk; try congruence; try lia; try nia.
Qed.



Lemma pres_D s a s'  : Inv s -> step s a = Some s' -> forall p', pinv B s' p'.
Proof.
  intros Hi H p'. destruct (IA _ _ Hi) as [A1 A2].
  pose proof (ID _ _ Hi p') as Dp'. pose proof (res_mono _ _ _ Hi H) as Hm.
  pose proof (IU _ _ Hi) as HU.
  step_cases H; bools; unfold pinv, slot, res in *; cbn [tk ti tc sval srdy hidx P cp cv saw rv absq bad_none bad_fifo pp lk li pv] in *; auto;
    try (p_facts Hi p); try (pose proof (IB _ _ Hi (lk (P s p) * B + li (P s p))) as Bs; unfold res in Bs);
    upd_tac; cbn [pp lk li pv]; auto.
  all: try (destruct (pp (P s p')) eqn:Ep'; crush; repeat split; intros; upd_tac; crush).
  all: try (exfalso; eapply (HU p' p); [assumption | unfold inflight; rewrite Ep'; reflexivity | unfold inflight; rewrite Epp; reflexivity | unfold slot; crush]).
Qed.

Lemma pres_U s a s' : Inv s -> step s a = Some s' ->
  forall p p', p <> p' -> inflight (P s' p) = true -> inflight (P s' p') = true -> slot B (P s' p) <> slot B (P s' p').
Proof.
  intros Hi H q q' Hne. destruct (IA _ _ Hi) as [A1 A2].
  pose proof (IU _ _ Hi q q' Hne) as HU. pose proof (ID _ _ Hi q) as Dq. pose proof (ID _ _ Hi q') as Dq'.
  step_cases H; bools; unfold inflight, slot, pinv, res in *; cbn [tk ti tc sval srdy hidx P cp cv saw rv absq bad_none bad_fifo pp lk li pv] in *; auto;
    upd_tac; cbn [pp lk li pv]; auto; try discriminate.
  all: intros I1 I2.
  all: try solve [apply HU; assumption].
  all: try (p_facts Hi p).
  all: destruct (pp (P s q)) eqn:E1; try discriminate; destruct (pp (P s q')) eqn:E2; try discriminate; crush.
  all: try solve [apply HU; reflexivity].
  all: unfold slot in *; crush.
Qed.

Lemma lpb_le_res s : lpb B s <= res B s.
Proof. unfold lpb, res. destruct (tc s); cbn; [destruct (srdy s _)|]; lia. Qed.

Lemma pres_C s a s' : Inv s -> step s a = Some s' ->
  forall j, srdy s' j = true -> sval s' j = Some (rv s' j) /\ j < lpb B s'.
Proof.
  intros Hi H j. destruct (IA _ _ Hi) as [A1 A2].
  pose proof (IC _ _ Hi j) as Cj. pose proof (lpb_mono _ _ _ Hi H) as Hm. pose proof (lpb_le_res s) as Hlr.
  pose proof (IB _ _ Hi j) as Bj.
  step_cases H; bools; cbn [tk ti tc sval srdy hidx P cp cv saw rv absq bad_none bad_fifo pp lk li pv] in *; auto;
    try (p_facts Hi p); try (intros Hr; specialize (Cj Hr); destruct Cj as [C1 C2]; split; [|lia]); auto.
  all: try (upd_tac; auto; crush).
  all: unfold res, lpb in *; cbn [tk ti tc sval srdy hidx P cp cv saw rv absq bad_none bad_fifo] in *; crush; splitb; bools; crush.
  all: try (upd_tac; intros Hr; try (specialize (Cj Hr)); crush; repeat split; crush).
  all: repeat match goal with H : context [upd ?f ?i ?v ?i] |- _ => rewrite (upd_eq f i v) in H; cbn in H end; try discriminate.
  all: try (destruct (closing_slot_neq s (P s p) Hi Ec) as [N|N]; [lia | congruence]).
Qed.
End S.
