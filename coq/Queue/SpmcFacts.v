(* C04 - consequences of the invariant that the preservation proofs share. *)
From Coq Require Import List Arith Bool Lia.
Import ListNotations.
Require Import MayV.Queue.SpmcModel MayV.Queue.SpmcInv MayV.Queue.SpmcTac.
Ltac a_facts Hi a :=
  let Ha := fresh "Ha" in
  pose proof (IAc _ _ Hi a) as Ha; unfold ainv in Ha;
  match goal with E : pc (A _ a) = _ |- _ => rewrite E in Ha end; cbn beta iota in Ha.

Ltac ut := upd_tac; simp.
Ltac fin := try congruence; try lia; auto.
Ltac updr_all :=
  unfold updr in *;
  repeat match goal with
  | |- context [if inr ?lo ?hi ?j then _ else _] => let E := fresh "Er" in destruct (inr lo hi j) eqn:E
  | H : context [if inr ?lo ?hi ?j then _ else _] |- _ => let E := fresh "Er" in destruct (inr lo hi j) eqn:E
  end;
  repeat match goal with
  | H : inr _ _ _ = true |- _ => apply inr_iff in H
  | H : inr _ _ _ = false |- _ => apply inr_false in H
  end.
Ltac owner_only Ha Hne :=
  exfalso; apply Hne; destruct Ha as (_ & Ha1 & Ha2 & _); apply Ha1; right; apply Ha2; reflexivity.
Section S.
Variable B : nat. Variable reuse : bool. Hypothesis Bpos : 1 <= B.
Notation step := (step B reuse). Notation Inv := (Inv B).

Lemma none_not_some {X} (o : option X) : o = None <-> ~ (o <> None).
Proof. destruct o; split; intros; try congruence. exfalso. apply H. discriminate. Qed.

(* consequences of the invariant *)
Lemma head_facts s : Inv s ->
  let k := bno (heap s (hb s)) in
  k < nblk s /\ badr s k = hb s /\ bstart (heap s (hb s)) = k * B /\ HL s = k * B + hi s /\ hi s < B /\
  cl s (HL s) = None /\ rl s (HL s) = false /\ rd s (HL s) = false.
Proof.
  intros Hi. destruct (IHd _ _ Hi) as [H1 H2]. destruct (IBk _ _ Hi _ H2) as (K1 & K2 & K3 & _).
  assert (C : cl s (HL s) = None). { apply none_not_some. rewrite (ICl _ _ Hi). lia. }
  assert (R : rd s (HL s) = false). { destruct (rd s (HL s)) eqn:E; auto. apply (IRd _ _ Hi) in E. congruence. }
  assert (L : rl s (HL s) = false). { destruct (rl s (HL s)) eqn:E; auto. apply (IRd _ _ Hi) in E. congruence. }
  cbn. unfold HL at 1. rewrite K3. repeat split; auto.
Qed.

Lemma claim_facts s a x : Inv s -> claim_ok B s a x ->
  let k := bno (heap s (lb x)) in
  k < nblk s /\ badr s k = lb x /\ bstart (heap s (lb x)) = k * B /\ k * B <= glo x /\ glo x < ghi x /\ ghi x <= k * B + B /\ ghi x <= HL s /\
  used (heap s (lb x)) = cntu (rl s) (k * B) B /\ 0 < used (heap s (lb x)).
Proof.
  intros Hi (C1 & C2 & C3 & C4 & C5). destruct (IBk _ _ Hi _ C2) as (K1 & K2 & K3 & K4 & K5 & _).
  cbn. repeat split; auto; try lia.
  destruct (C5 (ghi x - 1)) as [Q _]; [lia|].
  assert (cl s (ghi x - 1) <> None) by congruence. apply (ICl _ _ Hi) in H. lia.
Qed.

(* releasing the range [p, e) of block b leaves every block alive that still has an unreleased slot *)
Lemma release_used s b p e i :
  Inv s -> alive (heap s b) = true ->
  bno (heap s b) * B <= p -> p <= e -> e <= bno (heap s b) * B + B ->
  (forall j, p <= j < e -> rl s j = false) ->
  bno (heap s b) * B <= i < bno (heap s b) * B + B -> ~ (p <= i < e) -> rl s i = false ->
  e - p < used (heap s b).
Proof.
  intros Hi Al H1 H2 H3 Hf Hi1 Hi2 Hr. destruct (IBk _ _ Hi _ Al) as (_ & _ & _ & _ & K5 & _). rewrite K5.
  pose proof (cntu_updr (rl s) (bno (heap s b) * B) B p e H1 H2 H3 Hf) as Q.
  assert (0 < cntu (updr (rl s) p e true) (bno (heap s b) * B) B).
  { eapply cntu_pos with (i := i); [lia|]. rewrite updr_out; auto. }
  lia.
Qed.

Lemma release_le s b p e :
  Inv s -> alive (heap s b) = true ->
  bno (heap s b) * B <= p -> p <= e -> e <= bno (heap s b) * B + B ->
  (forall j, p <= j < e -> rl s j = false) -> e - p <= used (heap s b).
Proof.
  intros Hi Al H1 H2 H3 Hf. destruct (IBk _ _ Hi _ Al) as (_ & _ & _ & _ & K5 & _). rewrite K5.
  pose proof (cntu_updr (rl s) (bno (heap s b) * B) B p e H1 H2 H3 Hf) as Q. lia.
Qed.


Lemma unrel_above s i : Inv s -> HL s <= i -> cl s i = None /\ rd s i = false /\ rl s i = false.
Proof.
  intros Hi H. assert (C : cl s i = None). { apply none_not_some. rewrite (ICl _ _ Hi). lia. }
  assert (R : rd s i = false). { destruct (rd s i) eqn:E; auto. apply (IRd _ _ Hi) in E. congruence. }
  assert (L : rl s i = false). { destruct (rl s i) eqn:E; auto. apply (IRd _ _ Hi) in E. congruence. }
  auto.
Qed.

Lemma nexti_bounds x : li x < B -> emptyck B x = false -> nid x = newid B x -> locked B x = false -> li x < nexti x < B.
Proof.
  unfold emptyck, newid, locked, nexti. intros H1 H2 H3 H4. destruct (is_bulk (kd x)).
  - rewrite H3 in *. destruct (lb x =? ltb x) eqn:E; cbn in *; [|discriminate].
    bools. split; [lia|]. apply mod_lt; auto.
  - bools. lia.
Qed.


Lemma succ_mod_zero k t : k * B <= t < k * B + B -> (S t mod B = 0 <-> S t = k * B + B).
Proof.
  intros H. replace (S t) with (k * B + (S t - k * B)) at 1 by lia.
  destruct (Nat.eq_dec (S t - k * B) B) as [E|E].
  - rewrite E. rewrite mod_block_end by auto. lia.
  - rewrite mod_block by (auto; lia). lia.
Qed.
Lemma pred_mul n : 1 <= n -> (n - 1) * B + B = n * B.
Proof. intros. destruct n; [lia|]. cbn. rewrite Nat.sub_0_r. lia. Qed.

(* nothing at or above tail.index was read, hence released *)
Lemma unrel_tix s i : Inv s -> tix s <= i -> rl s i = false /\ rd s i = false.
Proof.
  intros Hi H. assert (R : rd s i = false).
  { destruct (rd s i) eqn:E; auto. apply (IGr _ _ Hi) in E. apply in_map_iff in E. destruct E as [[[a j] v] [E1 E2]].
    cbn in E1. subst j. apply (IGt _ _ Hi) in E2. lia. }
  split; auto. destruct (rl s i) eqn:E; auto. apply (IRd _ _ Hi) in E. congruence.
Qed.

(* the block tail.block points to is live, and which logical block it is *)
Lemma tail_facts s : Inv s ->
  alive (heap s (tbk s)) = true /\
  bno (heap s (tbk s)) = (match pc (A s 0) with OB => nblk s - 2 | _ => nblk s - 1 end).
Proof.
  intros Hi. destruct (ITl _ _ Hi) as (T1 & T2 & T3). cbn zeta in *. pose proof (pred_mul (nblk s) T1) as PM.
  destruct (pc (A s 0)) eqn:E.
  all: try (rewrite T2; apply (ILv _ _ Hi) with (i := tix s); [lia | lia | apply unrel_tix; auto]).
  - (* OB *) destruct T2 as (T2 & T4 & T5). rewrite T4. pose proof (pred_mul (nblk s - 1) ltac:(lia)) as PM2.
    replace (nblk s - 1 - 1) with (nblk s - 2) in PM2 by lia.
    apply (ILv _ _ Hi) with (i := tix s); [lia | lia | apply unrel_tix; auto].
  - (* OC *) rewrite T2. apply (ILv _ _ Hi) with (i := S (tix s)); [lia | lia | apply unrel_tix; auto].
Qed.
Lemma lb_alive s a : Inv s -> holds B (A s a) = true \/ lockpc B (A s a) = true -> alive (heap s (lb (A s a))) = true.
Proof.
  intros Hi H. pose proof (IAc _ _ Hi a) as Ha. unfold ainv in Ha. destruct (IHd _ _ Hi) as [_ HA].
  unfold holds, lockpc in H. destruct (pc (A s a)) eqn:E; try (destruct H; discriminate).
  all: destruct Ha as (_ & _ & _ & Ha).
  all: try (destruct (lockedB B (A s a)) eqn:EL; [ destruct Ha as (_ & _ & (L1 & L2 & L3) & _); congruence | destruct Ha as (_ & _ & (_ & C & _) & _); exact C ]).
  all: try (destruct Ha as ((_ & C & _) & _); exact C).
  all: try (destruct Ha as ((L1 & L2 & L3) & _); congruence).
  all: try contradiction.
Qed.

Lemma val_at_app s v i : i < length (pushed s) -> nth_error (pushed s ++ [v]) i = nth_error (pushed s) i.
Proof. intros. apply nth_error_app1. assumption. Qed.

(* length of the pushed log versus tail.index *)
Lemma len_pushed s : Inv s -> tix s <= length (pushed s).
Proof. intros Hi. destruct (ITl _ _ Hi) as (_ & _ & T). cbn zeta in T. destruct (pc (A s 0)); lia. Qed.

Lemma map_add_seq p n : map (fun j => p + j) (seq 0 n) = seq p n.
Proof.
  revert p. induction n as [|n IH]; intros p; cbn; [reflexivity|]. rewrite Nat.add_0_r. f_equal.
  rewrite <- seq_shift, map_map. rewrite <- (IH (S p)). apply map_ext. intros. lia.
Qed.
Lemma nodup_app {X} (l1 l2 : list X) : NoDup l1 -> NoDup l2 -> (forall x, In x l1 -> ~ In x l2) -> NoDup (l1 ++ l2).
Proof.
  induction l1 as [|y l1 IH]; cbn; intros H1 H2 H3; [assumption|]. inversion H1; subst. constructor.
  - intro Q. apply in_app_or in Q. destruct Q; [contradiction|]. apply (H3 y); auto.
  - apply IH; auto.
Qed.
Definition gidx (g : nat * nat * option nat) : nat := snd (fst g).

Lemma lock_knows s a : Inv s -> lockpc B (A s a) = true -> lock_ok s (A s a).
Proof.
  intros Hi H. pose proof (IAc _ _ Hi a) as Ha. unfold ainv in Ha. unfold lockpc in H.
  destruct (pc (A s a)) eqn:E; try discriminate; destruct Ha as (_ & _ & _ & Ha).
  - rewrite H in Ha. tauto.
  - tauto.
  - tauto.
  - tauto.
  - tauto.
  - tauto.
Qed.

Lemma block_uniq k k' t : k * B <= t < k * B + B -> k' * B <= t < k' * B + B -> k = k'.
Proof. intros H1 H2. destruct (Nat.lt_trichotomy k k') as [L|[E|L]]; auto; exfalso; nia. Qed.

Lemma cntu_all_false f lo n : (forall i, lo <= i < lo + n -> f i = false) -> cntu f lo n = n.
Proof.
  revert lo. induction n as [|n IH]; intros lo H; cbn; [reflexivity|]. rewrite (H lo) by lia. rewrite IH; [lia|]. intros i Hi. apply H. lia.
Qed.

End S.
