(* C19 - model of may_queue::mpsc_list_v1 (the removable multi-producer list behind the timers).
   Definitions only.  One transition per hooked shared access of the Rust code as it is in /repo:

     push     Q0 head.swap (node allocation folded in) / Q1 node->prev = prev (plain write)
              / Q2 read of the consumer position `tail` (-> is_head) / Q3 prev->next.store(node)
     pop      KP0 head.load [+ clear the stub's link bit] / KP1 tail->next.load (spin) / KP2 tail.write
              (the commit: next->prev = null, tail = next, value taken, stub's list reference released)
     pop_if   KP0 head.load / KP1 tail->next.load (spin) + predicate / KP2 tail.write
     peek     KK0 head.load / KK1 tail->next.load (spin)
     is_empty KE0 head.load
     remove   [link bit / prev checks at the call] KR1 node.next.load / KR2 prev.next.store (the unlink commit)
     Entry::drop, Entry::is_link: one transition (no hooked access), on the consumer side.

   Nodes are numbered in swap order (0 = the initial stub); a node identity is never reused.  The code's pointer
   comparisons are modelled as comparisons of identities; ListV1Aba.v adds addresses (an allocator that may
   re-use the address of a freed node) and proves that push compares live nodes only, where the two agree.
   [step_old] is push as it was before /repo b8fae1d (consumer position read after the store), kept for the
   refutation witness of ListV1Aba.v.
   Any number of producers (nat), one consumer, any client program: an idle actor may start any operation.
   Ghost fields are updated by [step] and never read by it (monitors only accumulate). *)
From Coq Require Import List Arith Bool.
Import ListNotations.

Record node := {
  (* memory *)
  nprev : option nat; nnext : option nat; nval : bool; nlink : bool; refs : nat;
  freed : bool;      (* Box::from_raw was executed on it *)
  (* ghost *)
  stage : nat;       (* 2 = swapped, 1 = prev written (and consumer position read), 0 = linked (prev.next stored) *)
  inch : bool;       (* still in the chain: an unconsumed entry, or the current stub *)
  gpred : nat;       (* current predecessor in the chain *)
  cons : nat;        (* how many times its value was handed out *)
  byrem : bool;      (* ... by remove() (else by pop / pop_if) *)
  ret : bool;        (* push has returned its handle *)
  hnd : bool;        (* the Entry handle exists (not yet consumed by remove() / dropped) *)
  own : nat }.       (* the producer that pushed it *)

Definition w_prev v d := {| nprev := v; nnext := nnext d; nval := nval d; nlink := nlink d; refs := refs d; freed := freed d; stage := stage d; inch := inch d; gpred := gpred d; cons := cons d; byrem := byrem d; ret := ret d; hnd := hnd d; own := own d |}.
Definition w_next v d := {| nprev := nprev d; nnext := v; nval := nval d; nlink := nlink d; refs := refs d; freed := freed d; stage := stage d; inch := inch d; gpred := gpred d; cons := cons d; byrem := byrem d; ret := ret d; hnd := hnd d; own := own d |}.
Definition w_link v d := {| nprev := nprev d; nnext := nnext d; nval := nval d; nlink := v; refs := refs d; freed := freed d; stage := stage d; inch := inch d; gpred := gpred d; cons := cons d; byrem := byrem d; ret := ret d; hnd := hnd d; own := own d |}.
Definition w_stage v d := {| nprev := nprev d; nnext := nnext d; nval := nval d; nlink := nlink d; refs := refs d; freed := freed d; stage := v; inch := inch d; gpred := gpred d; cons := cons d; byrem := byrem d; ret := ret d; hnd := hnd d; own := own d |}.
Definition w_gpred v d := {| nprev := nprev d; nnext := nnext d; nval := nval d; nlink := nlink d; refs := refs d; freed := freed d; stage := stage d; inch := inch d; gpred := v; cons := cons d; byrem := byrem d; ret := ret d; hnd := hnd d; own := own d |}.
Definition w_ret v d := {| nprev := nprev d; nnext := nnext d; nval := nval d; nlink := nlink d; refs := refs d; freed := freed d; stage := stage d; inch := inch d; gpred := gpred d; cons := cons d; byrem := byrem d; ret := v; hnd := hnd d; own := own d |}.
(* the value is taken: handed out once more *)
Definition w_take (rm : bool) d := {| nprev := nprev d; nnext := nnext d; nval := false; nlink := nlink d; refs := refs d; freed := freed d; stage := stage d; inch := inch d; gpred := gpred d; cons := S (cons d); byrem := rm; ret := ret d; hnd := hnd d; own := own d |}.
(* the list's reference is released (the node leaves the chain): link bit cleared, refs -= 1, freed at 0 *)
Definition w_unchain d := {| nprev := nprev d; nnext := nnext d; nval := nval d; nlink := false; refs := pred (refs d); freed := freed d || Nat.eqb (refs d) 1; stage := stage d; inch := false; gpred := gpred d; cons := cons d; byrem := byrem d; ret := ret d; hnd := hnd d; own := own d |}.
(* Entry::drop: the handle's reference is released *)
Definition w_drop d := {| nprev := nprev d; nnext := nnext d; nval := nval d; nlink := nlink d; refs := pred (refs d); freed := freed d || Nat.eqb (refs d) 1; stage := stage d; inch := inch d; gpred := gpred d; cons := cons d; byrem := byrem d; ret := ret d; hnd := false; own := own d |}.

Inductive ppc := QIdle | Q0 | Q1 | Q2 | Q3.
Record pst := { qp : ppc; qn : nat; qprev : nat;
                qempty : bool;   (* ghost: the swap returned the consumer's stub (the list was empty at the swap) *)
                qclk : nat;      (* ghost: consumer clock at the swap *)
                qhead : bool }.  (* the is_head flag computed by the last push *)
Inductive kpc := KIdle | KP0 (popif : bool) | KP1 (popif : bool) | KP2 | KK0 | KK1 | KE0 | KR1 | KR2.

Record st := {
  nodes : nat -> node; nn : nat;
  head : nat;                    (* Queue.head (producers swap it) *)
  tail : nat;                    (* Queue.tail: the consumer position (the stub) *)
  P : nat -> pst;
  kp : kpc; kn : nat; kx : nat;  (* consumer: pc, node in hand, its successor *)
  kres : option nat;             (* node whose value the last consumer call returned / peeked *)
  kbool : bool;                  (* result of the last is_empty / is_link *)
  kclock : nat;                  (* ghost: number of consumer transitions so far *)
  lastpop : nat;                 (* ghost: last node handed out by pop / pop_if *)
  bad_order : bool;              (* monitor: a pop returned an entry pushed before an earlier popped one *)
  bad_head : bool;               (* monitor: a head report violated one of the claims (a) (c) (d) *)
  bad_val : bool;                (* monitor: a value was absent when taken / an assertion of the code failed *)
  bad_mem : bool }.              (* monitor: a freed node was dereferenced, or a reference count was 0 where the code asserts / decrements it *)

Definition upd {X} (f : nat -> X) i v := fun j => if Nat.eqb j i then v else f j.

Definition s_nodes f s := {| nodes := f; nn := nn s; head := head s; tail := tail s; P := P s; kp := kp s; kn := kn s; kx := kx s; kres := kres s; kbool := kbool s; kclock := kclock s; lastpop := lastpop s; bad_order := bad_order s; bad_head := bad_head s; bad_val := bad_val s; bad_mem := bad_mem s |}.
Definition s_P f s := {| nodes := nodes s; nn := nn s; head := head s; tail := tail s; P := f; kp := kp s; kn := kn s; kx := kx s; kres := kres s; kbool := kbool s; kclock := kclock s; lastpop := lastpop s; bad_order := bad_order s; bad_head := bad_head s; bad_val := bad_val s; bad_mem := bad_mem s |}.
(* a consumer transition: new pc and registers, the consumer clock ticks *)
Definition s_k pc n x s := {| nodes := nodes s; nn := nn s; head := head s; tail := tail s; P := P s; kp := pc; kn := n; kx := x; kres := kres s; kbool := kbool s; kclock := S (kclock s); lastpop := lastpop s; bad_order := bad_order s; bad_head := bad_head s; bad_val := bad_val s; bad_mem := bad_mem s |}.
Definition s_res r s := {| nodes := nodes s; nn := nn s; head := head s; tail := tail s; P := P s; kp := kp s; kn := kn s; kx := kx s; kres := r; kbool := kbool s; kclock := kclock s; lastpop := lastpop s; bad_order := bad_order s; bad_head := bad_head s; bad_val := bad_val s; bad_mem := bad_mem s |}.
Definition s_bool b s := {| nodes := nodes s; nn := nn s; head := head s; tail := tail s; P := P s; kp := kp s; kn := kn s; kx := kx s; kres := kres s; kbool := b; kclock := kclock s; lastpop := lastpop s; bad_order := bad_order s; bad_head := bad_head s; bad_val := bad_val s; bad_mem := bad_mem s |}.
Definition s_alloc n s := {| nodes := nodes s; nn := S n; head := n; tail := tail s; P := P s; kp := kp s; kn := kn s; kx := kx s; kres := kres s; kbool := kbool s; kclock := kclock s; lastpop := lastpop s; bad_order := bad_order s; bad_head := bad_head s; bad_val := bad_val s; bad_mem := bad_mem s |}.
(* the pop commit moves the consumer position *)
Definition s_tail x bo s := {| nodes := nodes s; nn := nn s; head := head s; tail := x; P := P s; kp := kp s; kn := kn s; kx := kx s; kres := kres s; kbool := kbool s; kclock := kclock s; lastpop := x; bad_order := bad_order s || bo; bad_head := bad_head s; bad_val := bad_val s; bad_mem := bad_mem s |}.
Definition s_bhead b s := {| nodes := nodes s; nn := nn s; head := head s; tail := tail s; P := P s; kp := kp s; kn := kn s; kx := kx s; kres := kres s; kbool := kbool s; kclock := kclock s; lastpop := lastpop s; bad_order := bad_order s; bad_head := bad_head s || b; bad_val := bad_val s; bad_mem := bad_mem s |}.
Definition s_bval b s := {| nodes := nodes s; nn := nn s; head := head s; tail := tail s; P := P s; kp := kp s; kn := kn s; kx := kx s; kres := kres s; kbool := kbool s; kclock := kclock s; lastpop := lastpop s; bad_order := bad_order s; bad_head := bad_head s; bad_val := bad_val s || b; bad_mem := bad_mem s |}.
Definition s_bmem b s := {| nodes := nodes s; nn := nn s; head := head s; tail := tail s; P := P s; kp := kp s; kn := kn s; kx := kx s; kres := kres s; kbool := kbool s; kclock := kclock s; lastpop := lastpop s; bad_order := bad_order s; bad_head := bad_head s; bad_val := bad_val s; bad_mem := bad_mem s || b |}.

(* every node in [l] is dereferenced by the transition: none of them may have been freed *)
Definition deref (l : list nat) s := s_bmem (existsb (fun n => freed (nodes s n)) l) s.
Definition modn n (f : node -> node) s := s_nodes (upd (nodes s) n (f (nodes s n))) s.

Definition fresh (h p : nat) :=
  {| nprev := None; nnext := None; nval := true; nlink := true; refs := 2; freed := false;
     stage := 2; inch := true; gpred := h; cons := 0; byrem := false; ret := false; hnd := true; own := p |}.

Inductive action :=
| Push (p : nat) | PStep (p : nat)
| Pop | PopIf | Peek | IsEmpty | Remove (n : nat) | DropH (n : nat) | IsLink (n : nat)
| KStep (yes : bool).            (* [yes]: outcome of pop_if's predicate, used at KP1 only *)

Definition has_handle s n := ret (nodes s n) && hnd (nodes s n).

Definition step (s : st) (a : action) : option st :=
  match a with
  | Push p => match qp (P s p) with
              | QIdle => Some (s_P (upd (P s) p {| qp := Q0; qn := 0; qprev := 0; qempty := false; qclk := 0; qhead := false |}) s)
              | _ => None end
  | PStep p =>
      let x := P s p in
      match qp x with
      | QIdle => None
      | Q0 => (* Node::new + head.swap(node) *)
          let n := nn s in
          Some (s_P (upd (P s) p {| qp := Q1; qn := n; qprev := head s; qempty := Nat.eqb (head s) (tail s); qclk := kclock s; qhead := false |})
               (s_alloc n (s_nodes (upd (nodes s) n (fresh (head s) p)) s)))
      | Q1 => (* node->prev = prev *)
          Some (s_P (upd (P s) p {| qp := Q2; qn := qn x; qprev := qprev x; qempty := qempty x; qclk := qclk x; qhead := qhead x |})
               (modn (qn x) (fun d => w_stage 1 (w_prev (Some (qprev x)) d)) (deref [qn x] s)))
      | Q2 => (* tail.read: is_head := ptr::eq(tail, prev), taken BEFORE the node is linked (fix of the stale-prev
                 comparison: prev is still a chain member here, so it cannot have been freed and re-allocated) *)
          let nd := nodes s (qn x) in
          let flag := Nat.eqb (tail s) (qprev x) in
          let fresh0 := Nat.eqb (cons nd) 0 in
          let claimA := implb (qempty x && fresh0) flag in
          let claimC := implb flag (fresh0 && inch nd && Nat.eqb (gpred nd) (tail s)) in
          let claimD := implb (Nat.eqb (qclk x) (kclock s)) (Bool.eqb flag (qempty x)) in
          Some (s_P (upd (P s) p {| qp := Q3; qn := qn x; qprev := qprev x; qempty := qempty x; qclk := qclk x; qhead := flag |})
               (s_bhead (negb (claimA && claimC && claimD)) (deref [qprev x] s)))
      | Q3 => (* prev->next.store(node); the handle is returned *)
          Some (s_P (upd (P s) p {| qp := QIdle; qn := qn x; qprev := qprev x; qempty := qempty x; qclk := qclk x; qhead := qhead x |})
               (modn (qn x) (fun d => w_ret true (w_stage 0 d)) (modn (qprev x) (w_next (Some (qn x))) (deref [qprev x] s))))
      end
  | Pop => match kp s with KIdle => Some (s_k (KP0 false) 0 0 s) | _ => None end
  | PopIf => match kp s with KIdle => Some (s_k (KP0 true) 0 0 s) | _ => None end
  | Peek => match kp s with KIdle => Some (s_k KK0 0 0 s) | _ => None end
  | IsEmpty => match kp s with KIdle => Some (s_k KE0 0 0 s) | _ => None end
  | Remove n =>
      match kp s with
      | KIdle =>
          if has_handle s n then
            let nd := nodes s n in
            (* `refs & !MASK == 0` -> already removed; `prev.is_null()` -> it is the stub: return None (and the handle is dropped) *)
            if nlink nd && (match nprev nd with Some _ => true | None => false end)
            then Some (s_k KR1 n 0 (deref [n] s))
            else Some (s_res None (s_k KIdle 0 0 (modn n w_drop (deref [n] s))))
          else None
      | _ => None end
  | DropH n =>
      match kp s with
      | KIdle => if has_handle s n then Some (s_k KIdle 0 0 (modn n w_drop (deref [n] s))) else None
      | _ => None end
  | IsLink n =>
      match kp s with
      | KIdle => if has_handle s n then Some (s_bool (nlink (nodes s n)) (s_k KIdle 0 0 (deref [n] s))) else None
      | _ => None end
  | KStep yes =>
      match kp s with
      | KIdle => None
      | KP0 pi => (* head.load; pop() then clears the stub's link bit before spinning *)
          if Nat.eqb (head s) (tail s) then Some (s_res None (s_k KIdle 0 0 s))
          else if pi then Some (s_k (KP1 true) 0 0 s)
               else Some (s_k (KP1 false) 0 0 (modn (tail s) (w_link false) (s_bmem (Nat.eqb (refs (nodes s (tail s))) 0) (deref [tail s] s))))
      | KP1 pi => (* tail->next.load *)
          match nnext (nodes s (tail s)) with
          | None => Some (s_k (KP1 pi) 0 0 (deref [tail s] s))       (* spin *)
          | Some x =>
              if pi then
                (* assert!(tail.value.is_none()); assert!(next.value.is_some()); f(v) *)
                let s1 := s_bval (nval (nodes s (tail s)) || negb (nval (nodes s x))) (deref [tail s; x] s) in
                if yes then Some (s_k KP2 x 0 s1) else Some (s_res None (s_k KIdle 0 0 s1))
              else Some (s_k KP2 x 0 (deref [tail s] s))
          end
      | KP2 => (* next->prev = null; tail.write; value taken; tail->refs -= 1, freed at 0 *)
          let x := kn s in let t := tail s in
          let s1 := s_bval (nval (nodes s t) || negb (nval (nodes s x))) (s_bmem (Nat.eqb (refs (nodes s t)) 0) (deref [t; x] s)) in
          Some (s_res (Some x) (s_k KIdle 0 0
               (s_tail x (Nat.leb x (lastpop s))
                  (modn x (fun d => w_take false (w_prev None d)) (modn t w_unchain s1)))))
      | KK0 => if Nat.eqb (head s) (tail s) then Some (s_res None (s_k KIdle 0 0 s)) else Some (s_k KK1 0 0 s)
      | KK1 =>
          match nnext (nodes s (tail s)) with
          | None => Some (s_k KK1 0 0 (deref [tail s] s))
          | Some x => Some (s_res (Some x) (s_k KIdle 0 0 (s_bval (nval (nodes s (tail s)) || negb (nval (nodes s x))) (deref [tail s; x] s))))
          end
      | KE0 => Some (s_bool (Nat.eqb (head s) (tail s)) (s_k KIdle 0 0 s))
      | KR1 => (* node.next.load; null: the last node is never unlinked *)
          let n := kn s in
          match nnext (nodes s n) with
          | None => Some (s_res None (s_k KIdle 0 0 (modn n w_drop (deref [n] s))))
          | Some x => Some (s_k KR2 n x (deref [n] s))
          end
      | KR2 => (* link bit cleared; next->prev = prev; prev.next.store(next); value taken; refs -= 1; then the handle drops *)
          let n := kn s in let x := kx s in
          match nprev (nodes s n) with
          | None => None
          | Some pr =>
              let s1 := s_bval (negb (nval (nodes s n))) (deref [n; pr; x] s) in
              Some (s_res (Some n) (s_k KIdle 0 0
                   (modn pr (w_next (Some x))
                      (modn x (fun d => w_gpred pr (w_prev (Some pr) d))
                         (modn n (fun d => w_drop (w_take true (w_unchain d))) s1)))))
          end
      end
  end.

(* push as it was before the fix of the head report: prev->next.store at Q2, the consumer position read last
   (kept for the refutation witness in ListV1Aba.v) *)
Definition step_old (s : st) (a : action) : option st :=
  match a with
  | PStep p =>
      let x := P s p in
      match qp x with
      | Q2 =>
          Some (s_P (upd (P s) p {| qp := Q3; qn := qn x; qprev := qprev x; qempty := qempty x; qclk := qclk x; qhead := qhead x |})
               (modn (qn x) (w_stage 0) (modn (qprev x) (w_next (Some (qn x))) (deref [qprev x] s))))
      | Q3 =>
          let flag := Nat.eqb (tail s) (qprev x) in
          Some (s_P (upd (P s) p {| qp := QIdle; qn := qn x; qprev := qprev x; qempty := qempty x; qclk := qclk x; qhead := flag |})
               (modn (qn x) (w_ret true) s))
      | _ => step s a
      end
  | _ => step s a
  end.

(* Queue::new: the stub has refs = 1 (no handle), link bit clear *)
Definition stub := {| nprev := None; nnext := None; nval := false; nlink := false; refs := 1; freed := false;
                      stage := 0; inch := true; gpred := 0; cons := 0; byrem := false; ret := false; hnd := false; own := 0 |}.
Definition unalloc := {| nprev := None; nnext := None; nval := false; nlink := false; refs := 0; freed := false;
                         stage := 0; inch := false; gpred := 0; cons := 0; byrem := false; ret := false; hnd := false; own := 0 |}.
Definition init : st :=
  {| nodes := fun n => if Nat.eqb n 0 then stub else unalloc; nn := 1; head := 0; tail := 0;
     P := fun _ => {| qp := QIdle; qn := 0; qprev := 0; qempty := false; qclk := 0; qhead := false |};
     kp := KIdle; kn := 0; kx := 0; kres := None; kbool := false; kclock := 0;
     lastpop := 0; bad_order := false; bad_head := false; bad_val := false; bad_mem := false |}.

Inductive Reach : st -> Prop := R0 : Reach init | RS s a s' : Reach s -> step s a = Some s' -> Reach s'.

Fixpoint run (s : st) (l : list action) : option st :=
  match l with [] => Some s | a :: l' => match step s a with Some s' => run s' l' | None => None end end.

Definition monitors_ok (s : st) : bool := negb (bad_order s) && negb (bad_head s) && negb (bad_val s) && negb (bad_mem s).

Lemma run_reach l : forall s s', Reach s -> run s l = Some s' -> Reach s'.
Proof.
  induction l as [|a l IH]; cbn; intros s s' R H; [inversion H; subst; exact R|].
  destruct (step s a) as [s1|] eqn:E; [|discriminate]. eapply IH; [eapply RS; eauto | exact H].
Qed.
