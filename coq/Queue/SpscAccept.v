(* Trace acceptor for the spsc model.  One recorded event `[code; actor; obj; val]` of the real
   may_queue::spsc::Queue is matched against the model: the model must be at the corresponding
   control point, must compute the index the code observed / stored, and the block pointers the
   code stores or loads must be - through a renaming address <-> block id that is built up as
   the trace goes and must stay a bijection - the blocks the model says.  Codes are bound to
   source sites in Queue/spsc_sites.json.

   API events (logged by the scenario):
      1 push.call(v)   2 push.ret      3 pop.call    4 pop.ret(some, v)
      5 bulk.call      6 bulk.ret(len) 7 bulk.item(i, v)  (the items, in order, before bulk.ret)
      8 len.call       9 len.ret(l)   10 empty.call 11 empty.ret(b)   12 peek.call  13 peek.ret(some, v)
     14 plen.call     15 plen.ret(l)   (len() called by the thread that pushes)
   sites:
     20 BlockNode::set slot.write (val = push index, obj = the slot)
     21 alloc_node first.store#0   22 alloc_node last_head.store   23 alloc_node first.store#1
     24 push tail.next.store       25 push tail.block.store        26 push tail.index.store
     30 pop tail.index.load  31 pop head.next.load  32 pop head.block.store  33 pop head.index.store
     34 BlockNode::get slot.read (val = offset, obj = the slot): every slot read of pop and bulk_pop
     40 .. 43 the same four sites of bulk_pop        50 peek tail.index.load
     60 len head.index.load  61 len tail.index.load   (producer's transitions if that thread logged plen.call)

   Accesses without a hook are taken together with the preceding recorded event of the same
   thread, which is where the baton scheduler executes them: the unsync_load of head.block in
   alloc_node right after the slot write (20), the slot read of peek right after its tail.index load
   (50).  So one event is one or several consecutive transitions of ONE role.

   The object of every atomic event is tied in the same way to the memory word of the model
   (tail.index, head.index, tail.block, head.block, first, last_head, the `next` field of block b):
   the consumer must load the very `next` field the producer stored for that block.
   The slot object of every slot.write is tied to (block id, offset) of the model, again as a
   bijection: when the model says that a recycled block is written, the code must write the very
   same memory again, and a fresh block must be new memory. *)
From Coq Require Import List ZArith Bool Arith.
Import ListNotations.
Require Import MayV.Queue.SpscModel.

Section A.
Variable B : nat.

Record aux := { ren : list (Z * nat);      (* block address <-> block id *)
                sob : list (Z * nat);      (* slot object <-> block id * B + offset *)
                fob : list (Z * nat);      (* atomic object <-> field: 1 tail.index 2 head.index 3 tail.block 4 head.block
                                              5 first 6 last_head, 100 + b: the `next` field of block b *)
                pact : Z;                  (* the thread inside a producer-side call (0: nobody) *)
                pkind : nat;               (* 1 push, 2 len *)
                cact : Z;                  (* the thread inside a consumer call *)
                ccall : nat;               (* 0 none, 1 pop, 2 bulk_pop, 3 len, 4 is_empty, 5 peek *)
                nitems : nat }.            (* bulk items reported so far *)
Definition ast := (st * aux)%type.
Definition aux0 := {| ren := []; sob := []; fob := []; pact := 0%Z; pkind := 0; cact := 0%Z; ccall := 0; nitems := 0 |}.
Definition a_init : ast := (init, aux0).

Fixpoint lookup (l : list (Z * nat)) (a : Z) : option nat :=
  match l with [] => None | (a', b) :: r => if Z.eqb a' a then Some b else lookup r a end.
Fixpoint rlookup (l : list (Z * nat)) (b : nat) : option Z :=
  match l with [] => None | (a, b') :: r => if Nat.eqb b' b then Some a else rlookup r b end.
(* address a is block b: consistent with the renaming so far, which stays injective both ways *)
Definition bind (l : list (Z * nat)) (a : Z) (b : nat) : option (list (Z * nat)) :=
  match lookup l a with
  | Some b' => if Nat.eqb b' b then Some l else None
  | None => match rlookup l b with Some _ => None | None => Some ((a, b) :: l) end
  end.
(* pointers: null is 0 on both sides *)
Definition bind_ptr (l : list (Z * nat)) (a : Z) (b : nat) : option (list (Z * nat)) :=
  if Z.eqb a 0 then (if Nat.eqb b 0 then Some l else None)
  else if Nat.eqb b 0 then None else bind l a b.

Definition ppc_eqb (a b : ppc) : bool :=
  match a, b with
  | PIdle, PIdle | PWrite, PWrite | PRec1, PRec1 | PRdHead, PRdHead | PStLH, PStLH | PRec2, PRec2
  | PLink, PLink | PSetT, PSetT | PPub, PPub | PLenH, PLenH | PLenT, PLenT => true
  | _, _ => false end.
Definition cpc_eqb (a b : cpc) : bool :=
  match a, b with
  | CIdle, CIdle | CTail, CTail | CRead, CRead | CNext, CNext | CSetH, CSetH | CCommit, CCommit
  | CLenH, CLenH | CLenT, CLenT => true
  | _, _ => false end.
Definition op_eqb (a b : op) : bool :=
  match a, b with OPop, OPop | OBulk, OBulk | OPeek, OPeek | OLen, OLen => true | _, _ => false end.

Definition set_ren x l := {| ren := l; sob := sob x; fob := fob x; pact := pact x; pkind := pkind x; cact := cact x; ccall := ccall x; nitems := nitems x |}.
Definition set_sob x l := {| ren := ren x; sob := l; fob := fob x; pact := pact x; pkind := pkind x; cact := cact x; ccall := ccall x; nitems := nitems x |}.
Definition set_pact x a k := {| ren := ren x; sob := sob x; fob := fob x; pact := a; pkind := k; cact := cact x; ccall := ccall x; nitems := nitems x |}.
Definition set_call x a n := {| ren := ren x; sob := sob x; fob := fob x; pact := pact x; pkind := pkind x; cact := a; ccall := n; nitems := 0 |}.
Definition set_fob x l := {| ren := ren x; sob := sob x; fob := l; pact := pact x; pkind := pkind x; cact := cact x; ccall := ccall x; nitems := nitems x |}.
Definition set_items x n := {| ren := ren x; sob := sob x; fob := fob x; pact := pact x; pkind := pkind x; cact := cact x; ccall := ccall x; nitems := n |}.

(* if [pre] holds take the model transitions [acts] (all must be enabled), require [post] of the
   resulting state and let [nx] update the acceptor's own bookkeeping (None: inconsistent) *)
Definition fin (s : st) (pre : bool) (acts : list action) (post : st -> bool) (nx : st -> option aux) : option ast :=
  if pre then
    match run B s acts with
    | Some s' => if post s' then match nx s' with Some x' => Some (s', x') | None => None end else None
    | None => None
    end
  else None.

Definition zn (n : nat) (v : Z) : bool := Z.eqb (Z.of_nat n) v.
Definition znz (v : Z) : bool := negb (Z.eqb v 0).
Definition ptr_ev (s : st) (x : aux) (pre : bool) (a : action) (v : Z) (blk : st -> nat) : option ast :=
  fin s pre [a] (fun _ => true) (fun s' => option_map (set_ren x) (bind_ptr (ren x) v (blk s'))).

(* the consumer's tail.index load, followed by the slot reads of this call (no hook of their own) *)
Definition load_acts (s : st) : list action :=
  let m := M s in
  let n := if Nat.eqb (hidx m) (tidx m) then 0
           else match cop (C s) with OBulk => Nat.min (tidx m) (blkend B (hidx m)) - hidx m | _ => 1 end in
  CStep :: repeat CStep n.
Definition reads_done (s : st) : bool := negb (cpc_eqb (cp (C s)) CRead) && negb (cpc_eqb (cp (C s)) CTail).

Local Open Scope Z_scope.

(* the memory word an atomic event must hit, from the state BEFORE the event *)
Definition field_of (s : st) (code : Z) : option nat :=
  match code with
  | 26 | 30 | 40 | 50 | 61 => Some 1%nat
  | 33 | 43 | 60 => Some 2%nat
  | 25 => Some 3%nat
  | 32 | 42 => Some 4%nat
  | 21 | 23 => Some 5%nat
  | 22 => Some 6%nat
  | 24 => Some (100 + tblk (M s))%nat
  | 31 | 41 => Some (100 + hblk (M s))%nat
  | _ => None
  end.

Definition accept_core (sx : ast) (e : list Z) : option ast :=
  let (s, x) := sx in
  let m := M s in let p := P s in let c := C s in
  let inp a := Z.eqb (pact x) a in
  let inc a k := Z.eqb (cact x) a && Nat.eqb (ccall x) k in
  let at_c pc o := cpc_eqb (cp c) pc && op_eqb (cop c) o in
  match e with
  | [code; a; o; v] =>
    match code with
    (* ---- API level ---- *)
    | 1 => fin s (ppc_eqb (pp p) PIdle && Z.eqb (pact x) 0 && Z.leb 0 v && Z.ltb 0 a) [Push (Z.to_nat v)]
               (fun _ => true) (fun _ => Some (set_pact x a 1%nat))
    | 2 => fin s (ppc_eqb (pp p) PIdle && inp a && Nat.eqb (pkind x) 1 && Z.ltb 0 a) [] (fun _ => true) (fun _ => Some (set_pact x 0 0%nat))
    | 3 => fin s (cpc_eqb (cp c) CIdle && Nat.eqb (ccall x) 0) [Pop] (fun _ => true) (fun _ => Some (set_call x a 1%nat))
    | 4 => fin s (cpc_eqb (cp c) CIdle && inc a 1%nat && op_eqb (cop c) OPop &&
                  (if znz o then match cacc c with [r] => zn r v | _ => false end else isnil (cacc c)))
               [] (fun _ => true) (fun _ => Some (set_call x 0 0%nat))
    | 5 => fin s (cpc_eqb (cp c) CIdle && Nat.eqb (ccall x) 0) [Bulk] (fun _ => true) (fun _ => Some (set_call x a 2%nat))
    | 7 => fin s (cpc_eqb (cp c) CIdle && inc a 2%nat && op_eqb (cop c) OBulk && zn (nitems x) o &&
                  Nat.ltb (nitems x) (length (cacc c)) && zn (nth (nitems x) (cacc c) 0%nat) v)
               [] (fun _ => true) (fun _ => Some (set_items x (S (nitems x))))
    | 6 => fin s (cpc_eqb (cp c) CIdle && inc a 2%nat && op_eqb (cop c) OBulk && zn (length (cacc c)) o &&
                  Nat.eqb (nitems x) (length (cacc c)))
               [] (fun _ => true) (fun _ => Some (set_call x 0 0%nat))
    | 8 => fin s (cpc_eqb (cp c) CIdle && Nat.eqb (ccall x) 0) [Len] (fun _ => true) (fun _ => Some (set_call x a 3%nat))
    | 9 => fin s (cpc_eqb (cp c) CIdle && inc a 3%nat && op_eqb (cop c) OLen && zn (cres c) v)
               [] (fun _ => true) (fun _ => Some (set_call x 0 0%nat))
    | 10 => fin s (cpc_eqb (cp c) CIdle && Nat.eqb (ccall x) 0) [Len] (fun _ => true) (fun _ => Some (set_call x a 4%nat))
    | 11 => fin s (cpc_eqb (cp c) CIdle && inc a 4%nat && op_eqb (cop c) OLen && Bool.eqb (Nat.eqb (cres c) 0) (znz v))
               [] (fun _ => true) (fun _ => Some (set_call x 0 0%nat))
    | 12 => fin s (cpc_eqb (cp c) CIdle && Nat.eqb (ccall x) 0) [Peek] (fun _ => true) (fun _ => Some (set_call x a 5%nat))
    | 13 => fin s (cpc_eqb (cp c) CIdle && inc a 5%nat && op_eqb (cop c) OPeek &&
                   (if znz o then match cacc c with [r] => zn r v | _ => false end else isnil (cacc c)))
               [] (fun _ => true) (fun _ => Some (set_call x 0 0%nat))
    | 14 => fin s (ppc_eqb (pp p) PIdle && Z.eqb (pact x) 0 && Z.ltb 0 a) [PLen] (fun _ => true) (fun _ => Some (set_pact x a 2%nat))
    | 15 => fin s (ppc_eqb (pp p) PIdle && inp a && Nat.eqb (pkind x) 2 && zn (pres p) v) [] (fun _ => true) (fun _ => Some (set_pact x 0 0%nat))
    (* ---- push ---- *)
    | 20 => fin s (ppc_eqb (pp p) PWrite && inp a && zn (tidx m) v)
                (if at_end B (S (tidx m)) && Nat.eqb (first m) (lasth m) then [PStep; PStep] else [PStep])
                (fun _ => true)
                (fun _ => option_map (set_sob x) (bind (sob x) o (tblk m * B + tidx m mod B)%nat))
    | 21 => ptr_ev s x (ppc_eqb (pp p) PRec1 && inp a) PStep v (fun s' => first (M s'))
    | 22 => ptr_ev s x (ppc_eqb (pp p) PStLH && inp a) PStep v (fun s' => lasth (M s'))
    | 23 => ptr_ev s x (ppc_eqb (pp p) PRec2 && inp a) PStep v (fun s' => first (M s'))
    | 24 => ptr_ev s x (ppc_eqb (pp p) PLink && inp a) PStep v (fun s' => pnew (P s'))
    | 25 => ptr_ev s x (ppc_eqb (pp p) PSetT && inp a) PStep v (fun s' => tblk (M s'))
    | 26 => fin s (ppc_eqb (pp p) PPub && inp a) [PStep] (fun s' => zn (tidx (M s')) v) (fun _ => Some x)
    (* ---- pop / bulk_pop / peek ---- *)
    | 30 => fin s (at_c CTail OPop && inc a 1%nat && zn (tidx m) v) [CStep] (fun _ => true) (fun _ => Some x)
    | 40 => fin s (at_c CTail OBulk && inc a 2%nat && zn (tidx m) v) [CStep] (fun _ => true) (fun _ => Some x)
    (* BlockNode::get slot.read (val = offset in the block, obj = the slot): one read of pop / of the bulk_pop loop *)
    | 34 => fin s (cpc_eqb (cp c) CRead && ((op_eqb (cop c) OPop && inc a 1%nat) || (op_eqb (cop c) OBulk && inc a 2%nat)) &&
                   zn (ck c mod B) v) [CStep] (fun _ => true)
                (fun _ => option_map (set_sob x) (bind (sob x) o (hblk m * B + ck c mod B)%nat))
    | 50 => fin s (at_c CTail OPeek && inc a 5%nat && zn (tidx m) v) (load_acts s) reads_done (fun _ => Some x)
    | 31 => ptr_ev s x (at_c CNext OPop && inc a 1%nat) CStep v (fun s' => cnh (C s'))
    | 41 => ptr_ev s x (at_c CNext OBulk && inc a 2%nat) CStep v (fun s' => cnh (C s'))
    | 32 => ptr_ev s x (at_c CSetH OPop && inc a 1%nat) CStep v (fun s' => hblk (M s'))
    | 42 => ptr_ev s x (at_c CSetH OBulk && inc a 2%nat) CStep v (fun s' => hblk (M s'))
    | 33 => fin s (at_c CCommit OPop && inc a 1%nat) [CStep] (fun s' => zn (hidx (M s')) v) (fun _ => Some x)
    | 43 => fin s (at_c CCommit OBulk && inc a 2%nat) [CStep] (fun s' => zn (hidx (M s')) v) (fun _ => Some x)
    (* ---- len / is_empty ---- *)
    | 60 => if inp a && Nat.eqb (pkind x) 2
            then fin s (ppc_eqb (pp p) PLenH) [PStep] (fun s' => zn (plenh (P s')) v) (fun _ => Some x)
            else fin s (at_c CLenH OLen && (inc a 3%nat || inc a 4%nat)) [CStep] (fun s' => zn (clh (C s')) v) (fun _ => Some x)
    | 61 => if inp a && Nat.eqb (pkind x) 2
            then fin s (ppc_eqb (pp p) PLenT && zn (tidx m) v) [PStep] (fun _ => true) (fun _ => Some x)
            else fin s (at_c CLenT OLen && (inc a 3%nat || inc a 4%nat) && zn (tidx m) v) [CStep] (fun _ => true) (fun _ => Some x)
    | _ => None
    end
  | _ => None
  end.

(* the event's object must be the word the model accesses (objects <-> fields is a bijection too) *)
Definition accept_ev (sx : ast) (e : list Z) : option ast :=
  match accept_core sx e with
  | Some (s', x') =>
      match e with
      | [code; _; o; _] =>
          match field_of (fst sx) code with
          | Some fld => option_map (fun l => (s', set_fob x' l)) (bind (fob x') o fld)
          | None => Some (s', x')
          end
      | _ => Some (s', x')
      end
  | None => None
  end.

Fixpoint accept_all (sx : ast) (tr : list (list Z)) : option ast :=
  match tr with
  | [] => Some sx
  | e :: l => match accept_ev sx e with Some sx' => accept_all sx' l | None => None end
  end.

(* the ghost monitors of the final state (the theorems say they never trip on a reachable state)
   and no call left half-way *)
Definition a_final (sx : ast) : bool := monitors_ok (fst sx).

Lemma run_reach acts : forall s s', Reach B s -> run B s acts = Some s' -> Reach B s'.
Proof.
  induction acts as [|a l IH]; cbn [run]; intros s s' R H; [inversion H; subst; exact R|].
  destruct (step B s a) as [s1|] eqn:E; [|discriminate]. eapply IH; [eapply RS; eauto | exact H].
Qed.
Lemma fin_reach s pre acts post nx sx' : Reach B s -> fin s pre acts post nx = Some sx' -> Reach B (fst sx').
Proof.
  unfold fin. intros R H. destruct pre; [|discriminate].
  destruct (run B s acts) as [s1|] eqn:E; [|discriminate].
  destruct (post s1); [|discriminate]. destruct (nx s1); [|discriminate].
  inversion H; subst. cbn. eapply run_reach; eauto.
Qed.

Lemma accept_core_reach sx e sx' : Reach B (fst sx) -> accept_core sx e = Some sx' -> Reach B (fst sx').
Proof.
  destruct sx as [s x]. cbn [fst]. intros R H. unfold accept_core, ptr_ev in H.
  repeat match type of H with
         | match ?z with _ => _ end = Some _ => destruct z; try discriminate
         end; eauto using fin_reach.
Qed.
Lemma accept_ev_reach sx e sx' : Reach B (fst sx) -> accept_ev sx e = Some sx' -> Reach B (fst sx').
Proof.
  intros R H. unfold accept_ev in H. destruct (accept_core sx e) as [[s1 x1]|] eqn:E; [|discriminate].
  pose proof (accept_core_reach _ _ _ R E) as R1. cbn [fst] in R1.
  assert (G : fst sx' = s1).
  { repeat match type of H with
           | match ?z with _ => _ end = Some _ => destruct z; try discriminate
           | option_map _ ?z = Some _ => destruct z; cbn [option_map] in H; try discriminate
           end; inversion H; reflexivity. }
  now rewrite G.
Qed.

(* every state along an accepted trace of the implementation is a reachable state of the model *)
Theorem accept_all_reach tr : forall sx sx', Reach B (fst sx) -> accept_all sx tr = Some sx' -> Reach B (fst sx').
Proof.
  induction tr as [|e l IH]; cbn [accept_all]; intros sx sx' R H; [inversion H; subst; exact R|].
  destruct (accept_ev sx e) as [sx1|] eqn:E; [|discriminate]. eapply IH; [eapply accept_ev_reach; eauto | exact H].
Qed.
End A.
