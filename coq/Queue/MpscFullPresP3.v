(* Preservation of the full mpsc invariant: the last-slot protocol of push (allocate, wait_next_block, link, tail store). *)
From Coq Require Import List Arith Bool Lia.
Import ListNotations.
Require Import MayV.Queue.MpscFullModel MayV.Queue.MpscFullInv MayV.Queue.MpscFullTac MayV.Queue.MpscFullFacts.
Section S.
Variable B : nat.
Hypothesis Bpos : 1 <= B.
Notation Inv := (Inv B).
Set Default Proof Using "Bpos".
Notation active_nodrop := (active_nodrop B Bpos).
Notation live_tail := (live_tail B Bpos).
Notation live_head := (live_head B Bpos).
Notation nodrop_lhi := (nodrop_lhi B Bpos).
Notation pw_live := (pw_live B Bpos).

Lemma pres_p_next s p : Inv s -> pp (P s p) = PNext -> Inv (p_next s p).
Proof.
  intros Hi E. pose proof (active_nodrop s p Hi ltac:(congruence)) as ND.
  pose proof (I_p _ _ Hi p) as Pp. unfold pinv in Pp. rewrite E in Pp. destruct Pp as ((C1 & C2 & C3 & C4 & C5 & C6) & N1 & N2).
  pose proof (live_tail s Hi ND) as [LT LT1].
  destruct (I_al _ _ Hi _ LT) as (AL1 & AL2 & AL3). destruct (I_al _ _ Hi _ LT1) as (AM1 & AM2 & AM3).
  pose proof (I_ch _ _ Hi _ LT (le_n _)) as CH.
  unfold p_next, deref, blk_at. cbv zeta. rewrite C2, C3. unfold blkof, blk_at in CH. rewrite CH.
  apply Nat.eqb_neq in AM3. rewrite AM3. apply Nat.eqb_neq in AM3.
  destruct Hi. constructor; try (unf; sp; auto; fail).
  - intros q. pose proof (I_p q) as Pq. unfold pinv in *. sp. other_p q p; sp; auto.
    unfold pc_common; unfold blkof, blk_at; sp. rsplit; auto.
  - intros q. sp. other_p q p; sp; intros N; apply I_act; congruence.
  - sp. intros T. specialize (I_cl T). unfold closer, inflight in *. other_t (gcl (G s)) p; sp; auto; try (rewrite E in *; auto).
  - unfold monitors_ok in *. sp. rewrite AL1. cbn. rewrite !orb_false_r. exact I_mon.
Qed.

Lemma pres_p_link s p : Inv s -> pp (P s p) = PLink -> Inv (p_link s p).
Proof.
  intros Hi E. pose proof (active_nodrop s p Hi ltac:(congruence)) as ND.
  pose proof (fun s' => cinv_pstep B Bpos s s' Hi ND) as CF.
  pose proof (I_p _ _ Hi p) as Pp. unfold pinv in Pp. rewrite E in Pp. destruct Pp as ((C1 & C2 & C3 & C4 & C5 & C6) & N1 & N2 & N3).
  pose proof (live_tail s Hi ND) as [LT LT1]. pose proof (live_head s Hi ND) as LH.
  destruct (I_al _ _ Hi _ LT1) as (AL1 & AL2 & AL3).
  pose proof (I_inj _ _ Hi) as INJ.
  unfold p_link, hmod, deref, blk_at. cbv zeta. sp. rewrite N3.
  assert (BK : forall k, live s k -> k <> S (gtk (G s)) -> badr (G s) k <> badr (G s) (S (gtk (G s)))).
  { intros k L N e. apply N. apply INJ; auto. }
  pose proof Hi as Hi'. destruct Hi. constructor.
  - unf; sp; auto.
  - unf; sp; auto.
  - unf; sp; auto.
  - (* I_al *) intros k L. assert (L' : live s k) by exact L. destruct (I_al k L') as (A1 & A2 & A3).
    unfold blkof, blk_at in *. sp. rewrite issome_mod. split; auto. split; auto. hg BK; auto.
  - unf; sp; auto.
  - (* I_fr *) intros a Ha. sp. apply none_mod. apply I_fr; auto.
  - (* I_ch *) intros k L Lk. assert (L' : live s k) by exact L. specialize (I_ch k L' Lk). unfold blkof, blk_at in *. sp. sp. hg BK; auto; try lia.
  - (* I_sb *) intros k i L Li Ln. assert (L' : live s k) by exact L. destruct (I_sb k i L' Li Ln) as [S1 S2].
    unfold blkof, blk_at, nres, pslot in *. sp. hg BK; auto.
  - (* I_sc *) intros k i L Li. assert (L' : live s k) by exact L. specialize (I_sc k i L' Li).
    unfold nlin, rv in *; unfold blkof, blk_at in *. sp. hg BK; auto; try lia.
  - unf; sp; auto.
  - unf; sp; auto.
  - (* I_hd *) destruct I_hd as [H1 H2]. split; [|unf; sp; auto].
    unfold nlin in *; unfold blkof, blk_at in *. sp. hg BK; auto; try lia.
  - (* I_abs *) destruct I_abs as [A1 A2]. unfold nlin, rv in *; unfold blkof, blk_at in *. sp. hg BK; auto; try lia.
  - (* I_p *) intros q. pose proof (I_p q) as Pq. unfold pinv in *. sp. other_p q p; sp.
    + unfold pc_common in *; unfold blkof, blk_at in *; sp. rewrite C3 in *. hg BK; try lia; rsplit; auto.
    + destruct (pp (P s q)) eqn:Eq; auto.
      * destruct Pq as [PWq PVq]. pose proof (pw_live s q Hi' PWq ltac:(congruence)) as LQ.
        unfold pw_common, pslot, nres in *; unfold blkof, blk_at in *; sp. brk. hg BK; rsplit; auto.
      * destruct Pq as [PWq PVq]. pose proof (pw_live s q Hi' PWq ltac:(congruence)) as LQ.
        unfold pw_common, pslot, nres in *; unfold blkof, blk_at in *; sp. brk. hg BK; rsplit; auto.
      * exfalso. destruct Pq as [(_&_&_&_&G1&_) _]. congruence.
      * exfalso. destruct Pq as [(_&_&_&_&G1&_) _]. congruence.
      * exfalso. destruct Pq as [(_&_&_&_&G1&_) _]. congruence.
      * exfalso. destruct Pq as [(_&_&_&_&G1&_) _]. congruence.
  - intros q. sp. other_p q p; sp; intros N; apply I_act; congruence.
  - sp. intros T. specialize (I_cl T). unfold closer, inflight in *. other_t (gcl (G s)) p; sp; auto; try (rewrite E in *; auto).
  - apply CF; sp; auto. intros i Li. unfold blkof, blk_at. sp. hg BK; auto.
  - unf; sp; auto.
  - unf; sp; auto.
  - unfold monitors_ok in *. sp. rewrite AL1. cbn. rewrite !orb_false_r. exact I_mon.
Qed.

Lemma pres_p_store s p : Inv s -> pp (P s p) = PStore -> Inv (p_store s p).
Proof.
  intros Hi E. pose proof (active_nodrop s p Hi ltac:(congruence)) as ND.
  pose proof (fun s' => cinv_pstep B Bpos s s' Hi ND) as CF.
  pose proof (I_p _ _ Hi p) as Pp. unfold pinv in Pp. rewrite E in Pp. destruct Pp as ((C1 & C2 & C3 & C4 & C5 & C6) & N1 & N2 & N3 & N4).
  pose proof (live_tail s Hi ND) as [LT LT1]. pose proof (live_head s Hi ND) as LH.
  pose proof (nodrop_lhi s Hi ND) as LHI.
  destruct (I_ti _ _ Hi) as [TI1 TI2]. specialize (TI2 C4).
  unfold p_store. sp. rewrite N3.
  assert (NR : nres B s = S (gtk (G s)) * B) by (unfold nres; rewrite C4; lia).
  assert (NL : nlin B s = S (gtk (G s)) * B).
  { unfold nlin. rewrite C4. rewrite C3 in C6. assert (li (P s p) = ti (M s)) by lia. rewrite H in C6. rewrite C6. cbn. lia. }
  destruct (nodrop_cp B Bpos s Hi ND) as (NC1 & NC2 & NC3).
  match goal with |- Inv ?x => assert (LV : forall k, live x k <-> live s k) end.
  { intros k. unfold live, lhi. sp. destruct (cp (C s)); try congruence; tauto. }
  pose proof Hi as Hi'. destruct Hi. constructor.
  - unf; sp. split; [lia | discriminate].
  - unf; sp. rewrite C4 in *. lia.
  - unf; sp. destruct I_rng as (?&?&?&?&?&?). rsplit; try lia; try (intros _; lia).
  - intros k L. apply LV in L. exact (I_al k L).
  - intros k k' L L'. apply LV in L. apply LV in L'. exact (I_inj k k' L L').
  - intros a Ha. apply I_fr. intros k L. apply Ha. apply LV. exact L.
  - (* I_ch *) intros k L Lk. assert (L' : live s k) by (apply LV; exact L). sp. unfold blkof, blk_at in *. sp.
    destruct (Nat.eq_dec k (S (gtk (G s)))) as [->|n]; [rewrite N4; f_equal; lia | apply I_ch; auto; lia].
  - (* I_sb *) intros k i L Li Ln. assert (L' : live s k) by (apply LV; exact L). unfold nres in Ln. sp.
    destruct (I_sb k i L' Li ltac:(lia)) as [S1 S2]. unfold blkof, blk_at in *. sp. auto.
  - (* I_sc *) intros k i L Li R. assert (L' : live s k) by (apply LV; exact L). destruct (I_sc k i L' Li R) as [S1 S2].
    split; [exact S1|]. unfold nlin. sp. cbn. lia.
  - unf; sp; auto. destruct I_ptr; split; auto.
  - unf; sp; auto.
  - (* I_hd *) destruct I_hd as [H1 H2]. split; [|unf; sp; auto]. unfold nlin. sp. cbn. lia.
  - (* I_abs *) destruct I_abs as [A1 A2]. unfold nlin at 1. sp. cbn [andb]. rewrite NL in A1.
    replace (S (gtk (G s)) * B + 0 + 0) with (S (gtk (G s)) * B) by lia. split; [exact A1 | exact A2].
  - (* I_p *) intros q. pose proof (I_p q) as Pq. unfold pinv in *. sp. other_p q p; sp; auto.
    destruct (pp (P s q)) eqn:Eq; auto.
    + destruct Pq as [(W1 & W2 & W3 & W4 & W5 & W6 & W7 & W8) PVq]. split; [|exact PVq].
      unfold pw_common. sp. rsplit; auto; try lia;
        try (unfold nres, pslot in *; sp; rewrite C4 in *; lia);
        try (intros SL; destruct (W8 SL) as (_&_&G1&_); congruence).
    + destruct Pq as [(W1 & W2 & W3 & W4 & W5 & W6 & W7 & W8) PVq]. split; [|exact PVq].
      unfold pw_common. sp. rsplit; auto; try lia;
        try (unfold nres, pslot in *; sp; rewrite C4 in *; lia);
        try (intros SL; destruct (W8 SL) as (_&_&G1&_); congruence).
    + exfalso. destruct Pq as [(_&_&_&_&G1&_) _]. congruence.
    + exfalso. destruct Pq as [(_&_&_&_&G1&_) _]. congruence.
    + exfalso. destruct Pq as [(_&_&_&_&G1&_) _]. congruence.
    + exfalso. destruct Pq as [(_&_&_&_&G1&_) _]. congruence.
  - intros q. sp. other_p q p; sp; intros N; [congruence|]. apply In_remove_nat; auto.
  - sp. discriminate.
  - apply CF; sp; auto; try lia.
  - unf; sp; auto. intros; congruence.
  - unf; sp; auto.
  - unf; sp; auto.
Qed.


Lemma pres_p_alloc s p x : Inv s -> pp (P s p) = PAlloc -> alloc_ok s x = true -> Inv (p_alloc B s p x).
Proof.
  intros Hi E AO. pose proof (active_nodrop s p Hi ltac:(congruence)) as ND.
  pose proof (fun s' => cinv_pstep B Bpos s s' Hi ND) as CF.
  pose proof (I_p _ _ Hi p) as Pp. unfold pinv in Pp. rewrite E in Pp. destruct Pp as ((C1 & C2 & C3 & C4 & C5 & C6) & N1).
  pose proof (live_tail s Hi ND) as [LT LT1]. pose proof (live_head s Hi ND) as LH.
  pose proof (nodrop_lhi s Hi ND) as LHI.
  destruct (nodrop_cp B Bpos s Hi ND) as (NC1 & NC2 & NC3).
  destruct (I_al _ _ Hi _ LT) as (AL1 & AL2 & AL3).
  destruct (I_rng _ _ Hi) as (R1 & R2 & R3 & R4 & R5 & R6).
  assert (X0 : x <> 0 /\ heap (M s) x = None).
  { unfold alloc_ok in AO. bools. split; auto. destruct (heap (M s) x); [discriminate|auto]. }
  destruct X0 as [X0 XF].
  assert (XN : forall k, live s k -> badr (G s) k <> x).
  { intros k L e. destruct (I_al _ _ Hi k L) as (A1 & _). rewrite e, XF in A1. discriminate. }
  assert (KB : forall k, live s k -> upd (badr (G s)) (nblk (G s)) x k = badr (G s) k).
  { intros k [_ L]. rewrite LHI in L. apply upd_neq. lia. }
  unfold p_alloc, halloc, deref, blk_at. cbv zeta. sp. rewrite C2, C3. unfold blkof, blk_at in AL2. rewrite AL2.
  match goal with |- Inv ?y => assert (LV : forall k, live y k <-> (live s k \/ k = nblk (G s))) end.
  { intros k. unfold live, lhi. sp. destruct (cp (C s)); try congruence; lia. }
  pose proof Hi as Hi'. destruct Hi. constructor.
  - unf; sp; auto.
  - unf; sp; auto.
  - unf; sp. rsplit; auto; try lia. intros T. congruence.
  - (* I_al *) intros k L. apply LV in L. unfold blkof, blk_at. sp. destruct L as [L | ->].
    + rewrite (KB k L). destruct (I_al k L) as (A1 & A2 & A3). rewrite upd_neq by (apply XN; auto).
      rewrite hget_upd_neq by (apply XN; auto). auto.
    + rewrite !upd_eq. rewrite hget_upd_same. sp. rsplit; auto. rewrite N1. lia.
  - (* I_inj *) intros k k' L L'. apply LV in L. apply LV in L'. sp. destruct L as [L | ->]; destruct L' as [L' | ->]; auto.
    + rewrite (KB k L), (KB k' L'). apply I_inj; auto.
    + rewrite (KB k L), upd_eq. intros e. exfalso. eapply XN; eauto.
    + rewrite (KB k' L'), upd_eq. intros e. exfalso. eapply XN; eauto.
  - (* I_fr *) intros a Ha. sp. assert (a <> x). { intros ->. apply (Ha (nblk (G s))); [apply LV; auto | sp; apply upd_eq]. }
    rewrite upd_neq by auto. apply I_fr. intros k L. specialize (Ha k ltac:(apply LV; auto)). sp. rewrite (KB k L) in Ha. exact Ha.
  - (* I_ch *) intros k L Lk. sp. assert (L0 : live s k) by (destruct LT as [_ LT]; destruct LH; split; [apply LV in L; destruct L as [[? ?]| ->]; lia | rewrite LHI in *; lia]).
    assert (L1 : live s (S k)) by (destruct LT1 as [_ LT1']; destruct L0; split; [lia | rewrite LHI in *; lia]).
    unfold blkof, blk_at. sp. rewrite (KB k L0), (KB (S k) L1). rewrite hget_upd_neq by (apply XN; auto). apply I_ch; auto.
  - (* I_sb *) intros k i L Li Ln. apply LV in L. unfold blkof, blk_at. sp. destruct L as [L | ->].
    + rewrite (KB k L). rewrite hget_upd_neq by (apply XN; auto). apply I_sb; auto.
    + rewrite upd_eq, hget_upd_same. sp. auto.
  - (* I_sc *) intros k i L Li. apply LV in L. unfold nlin, rv; unfold blkof, blk_at. sp.
    rewrite (KB _ LT). rewrite (hget_upd_neq _ x (badr (G s) (gtk (G s)))) by (apply XN; auto).
    destruct L as [L | ->].
    + rewrite (KB k L). rewrite hget_upd_neq by (apply XN; auto). apply I_sc; auto.
    + rewrite upd_eq, hget_upd_same. sp. discriminate.
  - (* I_ptr *) destruct I_ptr as [T1 T2]. sp. rewrite (KB _ LT), (KB _ LH). auto.
  - (* I_old *) unfold oldrel in *. sp. assert (LG : live s (glo (G s))) by (split; [lia | rewrite LHI; lia]).
    rewrite (KB _ LG). exact I_old.
  - (* I_hd *) destruct I_hd as [H1 H2]. split; [|unf; sp; auto].
    unfold nlin in *; unfold blkof, blk_at in *. sp. rewrite (KB _ LT). rewrite hget_upd_neq by (apply XN; auto). exact H1.
  - (* I_abs *) destruct I_abs as [A1 A2]. unfold nlin, rv in *; unfold blkof, blk_at in *. sp.
    rewrite (KB _ LT). rewrite hget_upd_neq by (apply XN; auto). auto.
  - (* I_p *) intros q. pose proof (I_p q) as Pq. unfold pinv in *. sp. other_p q p; sp.
    + unfold pc_common; unfold blkof, blk_at; sp. rewrite C3. rewrite (KB _ LT). rewrite hget_upd_neq by (apply XN; auto).
      unfold blkof, blk_at in C6. rewrite C3 in C6. rsplit; auto; try lia; try congruence. replace (gtk (G s) + 2) with (nblk (G s)) by lia. now rewrite upd_eq.
    + destruct (pp (P s q)) eqn:Eq; auto.
      * destruct Pq as [PWq PVq]. pose proof (pw_live s q Hi' PWq ltac:(congruence)) as LQ.
        destruct PWq as (W1 & W2 & W3 & W4 & W5 & W6 & W7 & W8).
        unfold pw_common, pslot, nres in *; unfold blkof, blk_at in *; sp. rewrite (KB _ LQ). rewrite hget_upd_neq by (apply XN; auto).
        rsplit; auto. intros SL. destruct (W8 SL) as (_&_&G1&_). congruence.
      * destruct Pq as [PWq PVq]. pose proof (pw_live s q Hi' PWq ltac:(congruence)) as LQ.
        destruct PWq as (W1 & W2 & W3 & W4 & W5 & W6 & W7 & W8).
        unfold pw_common, pslot, nres in *; unfold blkof, blk_at in *; sp. rewrite (KB _ LQ). rewrite hget_upd_neq by (apply XN; auto).
        rsplit; auto. intros SL. destruct (W8 SL) as (_&_&G1&_). congruence.
      * exfalso. destruct Pq as [(_&_&_&_&G1&_) _]. congruence.
      * exfalso. destruct Pq as [(_&_&_&_&G1&_) _]. congruence.
      * exfalso. destruct Pq as [(_&_&_&_&G1&_) _]. congruence.
      * exfalso. destruct Pq as [(_&_&_&_&G1&_) _]. congruence.
  - intros q. sp. other_p q p; sp; intros N; apply I_act; congruence.
  - sp. intros T. specialize (I_cl T). unfold closer, inflight in *. other_t (gcl (G s)) p; sp; auto; try (rewrite E in *; auto).
  - apply CF; sp; auto.
    + intros i Li. unfold blkof, blk_at. sp. rewrite (KB _ LH). rewrite hget_upd_neq by (apply XN; auto). auto.
    + intros Hg. apply upd_neq. lia.
  - unf; sp; auto.
  - unf; sp; auto.
  - unfold monitors_ok in *. sp. rewrite AL1. cbn. rewrite !orb_false_r. exact I_mon.
Qed.
End S.
