(* Trace acceptor for the spmc model: one recorded event `[code; actor; obj; val]` of the real
   may_queue::spmc::Queue is matched against one transition of SpmcModel or is a pure observation (the model reads
   a claimed range in one transition: it is taken at the first `slot.read` event of the batch, the
   others are observations whose offsets and number are checked).  The model must be at the corresponding control point and must compute the
   value the code observed.  Codes are bound to source sites in Queue/spmc_sites.json.

   api   1 push.call(v) 2 push.ret | 3 lpop.call 4 lpop.ret(some,v) | 5 pop.call 6 pop.ret(some,v)
         7 bulk.call 8 bulk.ret(len) 9 bulk.item(k,v) | 10 steal.call 11 steal.ret(some,v)
         12 own.pop.call 13 own.pop.ret(some,v) | 14 empty.call 15 empty.ret(b)
   push  20 slot.write(index) 21 tail.next.store(new) 22 tail.block.store(new) 23 tail.index.store(new_index)
   pop   30 head.load 31 tail.index.load#0 32 tail.block.load#0 33 head.cas(ok) 34 start.load 35 tail.index.load#1
         36 head.store#0 (restore) 37 next.load 38 head.store#1 (next) 39 tail.index.load#2 (wait loop)
         40 tail.index.load#3 41 tail.block.load#1 (after a lost CAS)
   local 50 head.load 51 head.cas(ok) 52 start.load 53 head.store#0 54 next.load 55 head.store#1 56 tail.index.store (skip)
   bulk  60 head.load 61 tail.index.load#0 62 tail.block.load#0 63 head.cas(ok) 64 start.load 65 tail.index.load#1
         66 head.store#0 (restore) 67 next.load 68 head.store#1 (next) 69 head.store#2 (same block) 70 tail.index.load#2 (wait loop)
         71 tail.index.load#3 72 tail.block.load#1
   80 used.fetch_sub(old) 81 slot.read(offset) | is_empty 90 head.load 91 tail.index.load 92 tail.block.load

   Actors: the normaliser numbers OS threads from 1.  Events at the sites of push / local_pop and the
   api events push.* / lpop.* belong to the model's owner (actor 0) whatever thread executes them
   (main during the offset phase, the owner thread later) - unless that thread is a stealer working
   on its own queue (control point Ext), whose accesses hit another queue instance and are skipped.
   Addresses: raw block addresses are renamed consistently to the model's small block addresses
   (injective association kept next to the model state), so an address issued twice by the
   allocator is the same model address twice: ABA is replayed, not abstracted. *)
From Coq Require Import List ZArith Bool Arith Lia.
Import ListNotations.
Require Import MayV.Queue.SpmcModel.

Record aux := { amap : list (Z * nat); nxt : nat; rcnt : nat -> nat (* slot reads seen of the actor's current batch *) }.
Definition aux0 : aux := {| amap := []; nxt := 1; rcnt := fun _ => O |}.
Definition set_rcnt (x : aux) (a n : nat) : aux := {| amap := amap x; nxt := nxt x; rcnt := upd (rcnt x) a n |}.

Fixpoint look (m : list (Z * nat)) (z : Z) : option nat :=
  match m with [] => None | (z', n) :: r => if Z.eqb z z' then Some n else look r z end.
Fixpoint rlook (m : list (Z * nat)) (n : nat) : option Z :=
  match m with [] => None | (z, n') :: r => if Nat.eqb n n' then Some z else rlook r n end.

(* the code showed address z where the model has block address n *)
Definition bind (x : aux) (z : Z) (n : nat) : option aux :=
  match look (amap x) z with
  | Some m => if Nat.eqb m n then Some x else None
  | None => match rlook (amap x) n with
            | Some _ => None
            | None => Some {| amap := (z, n) :: amap x; nxt := Nat.max (nxt x) (S n); rcnt := rcnt x |}
            end
  end.
(* the allocator returned address z: the model address it stands for (a new one if z was never seen) *)
Definition choose (x : aux) (z : Z) : nat * aux :=
  match look (amap x) z with
  | Some m => (m, x)
  | None => (nxt x, {| amap := (z, nxt x) :: amap x; nxt := S (nxt x); rcnt := rcnt x |})
  end.

Definition pc_eqb (x y : pcT) : bool :=
  match x, y with
  | Idle, Idle | Ext, Ext | OW, OW | ON, ON | OB, OB | OC, OC | X0, X0 | X1, X1 | X2, X2 | XC, XC | XS, XS
  | XT, XT | XR, XR | XN, XN | XH, XH | XH2, XH2 | XW, XW | XG, XG | XM, XM | LK, LK | LKr, LKr
  | E0, E0 | E1, E1 | E2, E2 => true
  | _, _ => false end.
Definition kd_eqb (x y : opk) : bool :=
  match x, y with
  | KPush, KPush | KLocal, KLocal | KPop, KPop | KBulk, KBulk | KSteal, KSteal | KEmpty, KEmpty | KOwn, KOwn => true
  | _, _ => false end.

Section A.
Variable B : nat.
Notation step := (step B true).
Notation run := (run B true).
Notation Reach := (Reach B true).

Local Open Scope Z_scope.

Definition zb (v : Z) : bool := negb (Z.eqb v 0).
Definition zlock (w : Z) : bool := Z.testbit w 63.
Definition zlow (w : Z) : Z := Z.modulo w 9223372036854775808.
Definition zidx (w : Z) : nat := Z.to_nat (Z.modulo (zlow w) (Z.of_nat B)).
Definition zadr (w : Z) : Z := zlow w - Z.modulo (zlow w) (Z.of_nat B).
Definition zeqn (v : Z) (n : nat) : bool := Z.eqb v (Z.of_nat n).

(* the packed head word w is (block b | index i | lock l) *)
Definition chk_head (x : aux) (w : Z) (b i : nat) (l : bool) : option aux :=
  if Bool.eqb (zlock w) l && Nat.eqb (zidx w) i then bind x (zadr w) b else None.
Definition chk_ptr (x : aux) (v : Z) (o : option nat) : option aux :=
  match o with Some n => if zb v then bind x v n else None | None => if zb v then None else Some x end.

Definition rvis (r : list (option nat)) (some v : Z) : bool :=
  match r with
  | [] => negb (zb some)
  | [Some n] => zb some && zeqn v n
  | _ => false end.

(* take the model actions [acts] from a state satisfying [pre], require [post] afterwards *)
Definition go (s : st) (x : option aux) (pre : bool) (acts : list action) (post : st -> bool) : option (st * aux) :=
  match x with
  | None => None
  | Some x' => if pre then match run s acts with
                           | Some s' => if post s' then Some (s', x') else None
                           | None => None end
               else None
  end.

Definition at_ (s : st) (a : nat) (p : pcT) (k : opk) : bool := pc_eqb (pc (A s a)) p && kd_eqb (kd (A s a)) k.
Definition tt_ (_ : st) := true.

(* the events of pop / bulk_pop / local_pop / steal_into: [k] = kind of the call the site belongs to
   (a bulk_pop site serves KBulk and KSteal), [a] = acting model actor *)
Definition atk (s : st) (a : nat) (p : pcT) (k : opk) : bool :=
  pc_eqb (pc (A s a)) p &&
  match k with KBulk => is_bulk (kd (A s a)) | _ => kd_eqb (kd (A s a)) k end.

Definition ev_head_load s x a k w := go s (chk_head x w (hb s) (hi s) (hl s)) (atk s a X0 k) [Step a O] tt_.
Definition ev_tix_load s x a k (p : pcT) (r : bool) v :=
  go s (Some x) (atk s a p k && Bool.eqb (retry (A s a)) r && zeqn v (tix s)) [Step a O] tt_.
Definition ev_tbk_load s x a k (r : bool) v :=
  go s (bind x v (tbk s)) (atk s a X2 k && Bool.eqb (retry (A s a)) r) [Step a O] tt_.
Definition ev_cas s x a k ok :=
  go s (Some x) (atk s a XC k) [Step a O] (fun s' => Bool.eqb (pc_eqb (pc (A s' a)) XS) (zb ok)).
Definition ev_start s x a k v :=
  go s (Some x) (atk s a XS k && zeqn v (bstart (heap s (lb (A s a))))) [Step a O] tt_.
Definition ev_restore s x a k w :=
  go s (chk_head x w (lb (A s a)) (li (A s a)) false) (atk s a XR k) [Step a O] tt_.
Definition ev_next s x a k v :=
  go s (chk_ptr x v (next (heap s (lb (A s a))))) (atk s a XN k) [Step a O] tt_.
Definition ev_store_next s x a k w :=
  go s (match lnx (A s a) with Some n => chk_head x w n 0 false | None => if zb w then None else Some x end)
     (atk s a XH k) [Step a O] tt_.
Definition ev_store_same s x a k w :=
  go s (chk_head x w (lb (A s a)) (Nat.modulo (pend (A s a)) B) false) (atk s a XH2 k) [Step a O] tt_.

Definition accept_ev (sx : st * aux) (e : list Z) : option (st * aux) :=
  let (s, x) := sx in
  match e with
  | [code; za; o; v] =>
    let t := Z.to_nat za in
    if Z.leb 20 code && pc_eqb (pc (A s t)) Ext then Some (s, x)   (* a stealer inside its own queue instance *)
    else
    match code with
    (* ---- api *)
    | 1 => go s (Some x) true [Call O KPush (Z.to_nat v)] tt_
    | 2 => go s (Some x) (at_ s O Idle KPush) [] tt_
    | 3 => go s (Some x) true [Call O KLocal O] tt_
    | 4 => go s (Some x) (at_ s O Idle KLocal && rvis (rv (A s O)) o v) [] tt_
    | 5 => go s (Some x) true [Call t KPop O] tt_
    | 6 => go s (Some x) (at_ s t Idle KPop && rvis (rv (A s t)) o v) [] tt_
    | 7 => go s (Some x) true [Call t KBulk O] tt_
    | 8 => go s (Some x) (at_ s t Idle KBulk && zeqn o (length (rv (A s t)))) [] tt_
    | 9 => go s (Some x) (at_ s t Idle KBulk &&
                          match nth_error (rv (A s t)) (Z.to_nat o) with Some (Some n) => zeqn v n | _ => false end) [] tt_
    | 10 => go s (Some x) true [Call t KSteal O] tt_
    | 11 => go s (Some x) (kd_eqb (kd (A s t)) KSteal) (if pc_eqb (pc (A s t)) Ext then [Ret t] else [])
               (fun s' => pc_eqb (pc (A s' t)) Idle && rvis (rv (A s' t)) o v)
    | 12 => go s (Some x) true [Call t KOwn O] tt_
    | 13 => go s (Some x) (at_ s t Ext KOwn) [Ret t] (fun s' => rvis (rv (A s' t)) o v)
    | 14 => go s (Some x) true [Call t KEmpty O] tt_
    | 15 => go s (Some x) (at_ s t Idle KEmpty && Bool.eqb (rb (A s t)) (zb v)) [] tt_
    (* ---- push (owner) *)
    | 20 => go s (Some x) (at_ s O OW KPush && zeqn v (tix s)) [Step O O] tt_
    | 21 => let (n, x') := choose x v in go s (Some x') (at_ s O ON KPush && zb v) [Step O n] tt_
    | 22 => go s (bind x v (lnew (A s O))) (at_ s O OB KPush) [Step O O] tt_
    | 23 => go s (Some x) (at_ s O OC KPush && zeqn v (S (tix s))) [Step O O] tt_
    (* ---- pop (stealer t) *)
    | 30 => ev_head_load s x t KPop v
    | 31 => ev_tix_load s x t KPop X1 false v
    | 32 => ev_tbk_load s x t KPop false v
    | 33 => ev_cas s x t KPop v
    | 34 => ev_start s x t KPop v
    | 35 => ev_tix_load s x t KPop XT (retry (A s t)) v
    | 36 => ev_restore s x t KPop v
    | 37 => ev_next s x t KPop v
    | 38 => ev_store_next s x t KPop v
    | 39 => ev_tix_load s x t KPop XW (retry (A s t)) v
    | 40 => ev_tix_load s x t KPop X1 true v
    | 41 => ev_tbk_load s x t KPop true v
    (* ---- local_pop (owner) *)
    | 50 => ev_head_load s x O KLocal v
    | 51 => ev_cas s x O KLocal v
    | 52 => ev_start s x O KLocal v
    | 53 => ev_restore s x O KLocal v
    | 54 => ev_next s x O KLocal v
    | 55 => ev_store_next s x O KLocal v
    | 56 => go s (Some x) (at_ s O LK KLocal && zeqn v (S (lpi (A s O)))) [Step O O] tt_
    (* ---- bulk_pop (stealer t; also inside steal_into) *)
    | 60 => ev_head_load s x t KBulk v
    | 61 => ev_tix_load s x t KBulk X1 false v
    | 62 => ev_tbk_load s x t KBulk false v
    | 63 => ev_cas s x t KBulk v
    | 64 => ev_start s x t KBulk v
    | 65 => ev_tix_load s x t KBulk XT (retry (A s t)) v
    | 66 => ev_restore s x t KBulk v
    | 67 => ev_next s x t KBulk v
    | 68 => ev_store_next s x t KBulk v
    | 69 => ev_store_same s x t KBulk v
    | 70 => ev_tix_load s x t KBulk XW (retry (A s t)) v
    | 71 => ev_tix_load s x t KBulk X1 true v
    | 72 => ev_tbk_load s x t KBulk true v
    (* ---- the slot reads of get / copy_to_bulk (val = offset in the block): the model reads the whole claimed range in
            one transition, taken at the first read; the following reads of the batch are checked against the range *)
    | 81 => let a := if pc_eqb (pc (A s t)) XG || pc_eqb (pc (A s t)) XM then t else O in
            if pc_eqb (pc (A s a)) XG
            then go s (Some (set_rcnt x a 1%nat)) (zeqn v (li (A s a))) [Step a O] tt_
            else go s (Some (set_rcnt x a (S (rcnt x a))))
                    (pc_eqb (pc (A s a)) XM && Nat.ltb (rcnt x a) (pend (A s a) - ppi (A s a)) && zeqn v (li (A s a) + rcnt x a)) [] tt_
    (* ---- mark_slots_read *)
    | 80 => let a := if pc_eqb (pc (A s t)) XM then t else O in
            if pc_eqb (pc (A s a)) XM
            then go s (Some x) (Nat.eqb (rcnt x a) (pend (A s a) - ppi (A s a)) && zeqn v (used (heap s (lb (A s a))))) [Step a O] tt_
            else go s (Some x) (pc_eqb (pc (A s a)) LKr && zeqn v (used (heap s (lb (A s a))))) [Step a O] tt_
    (* ---- is_empty *)
    | 90 => go s (chk_head x v (hb s) (hi s) (hl s)) (at_ s t E0 KEmpty) [Step t O] tt_
    | 91 => go s (Some x) (at_ s t E1 KEmpty && zeqn v (tix s)) [Step t O] tt_
    | 92 => go s (bind x v (tbk s)) (at_ s t E2 KEmpty) [Step t O] tt_
    | _ => None
    end
  | _ => None
  end.

Fixpoint accept_all (sx : st * aux) (tr : list (list Z)) : option (st * aux) :=
  match tr with
  | [] => Some sx
  | e :: l => match accept_ev sx e with Some sx' => accept_all sx' l | None => None end
  end.

(* ---- final check on the ghost state (the theorems say it can never fail on a reachable state) *)
Local Close Scope Z_scope.
Fixpoint nodupb (l : list nat) : bool :=
  match l with [] => true | i :: r => negb (existsb (Nat.eqb i) r) && nodupb r end.
Definition oeqb (x y : option nat) : bool :=
  match x, y with Some a, Some b => Nat.eqb a b | None, None => true | _, _ => false end.
Definition got_ok (s : st) : bool :=
  nodupb (map (fun g => snd (fst g)) (got s)) &&
  forallb (fun g => match snd g with Some _ => oeqb (snd g) (nth_error (pushed s) (snd (fst g))) | None => false end
                    && Nat.ltb (snd (fst g)) (tix s)) (got s).
Definition monitors_ok (sx : st * aux) : bool :=
  let s := fst sx in negb (bad_uaf s) && negb (bad_under s) && negb (bad_null s) && got_ok s.

(* ---- soundness: an accepted trace is a run of the model *)
Lemma run_reach l : forall s s', Reach s -> run s l = Some s' -> Reach s'.
Proof.
  induction l as [|a l IH]; cbn [SpmcModel.run]; intros s s' R H; [inversion H; subst; exact R|].
  destruct (step s a) as [s1|] eqn:E; [|discriminate]. eapply IH; [eapply RS; eauto | exact H].
Qed.
Lemma go_reach s x pre acts post s' x' : Reach s -> go s x pre acts post = Some (s', x') -> Reach s'.
Proof.
  unfold go. intros R H. destruct x; [|discriminate]. destruct pre; [|discriminate].
  destruct (run s acts) as [s1|] eqn:E; [|discriminate]. destruct (post s1); [|discriminate].
  inversion H; subst. eapply run_reach; eauto.
Qed.

Lemma accept_ev_reach s x e s' x' : Reach s -> accept_ev (s, x) e = Some (s', x') -> Reach s'.
Proof.
  intros R H. unfold accept_ev in H.
  unfold ev_head_load, ev_tix_load, ev_tbk_load, ev_cas, ev_start, ev_restore, ev_next, ev_store_next, ev_store_same in H.
  repeat match type of H with
         | (if ?c then _ else _) = Some _ => destruct c
         | (let (_, _) := ?p in _) = Some _ => destruct p
         | match ?y with _ => _ end = Some _ =>
             lazymatch y with
             | go _ _ _ _ _ => fail
             | _ => destruct y; try discriminate
             end
         end;
  try (inversion H; subst; exact R); eauto using go_reach.
Qed.

Theorem accept_all_reach tr : forall s x s' x', Reach s -> accept_all (s, x) tr = Some (s', x') -> Reach s'.
Proof.
  induction tr as [|e l IH]; cbn [accept_all]; intros s x s' x' R H; [inversion H; subst; exact R|].
  destruct (accept_ev (s, x) e) as [[s1 x1]|] eqn:E; [|discriminate].
  eapply IH; [eapply accept_ev_reach; eauto | exact H].
Qed.
End A.
