(* Preservation of the spsc invariant, part C: slot contents, monitors; the invariant is inductive. *)
From Coq Require Import List Arith Bool Lia.
Import ListNotations.
Require Import MayV.Queue.SpscModel MayV.Queue.SpscInv MayV.Queue.SpscPresA MayV.Queue.SpscPresB.

Section S.
Variable B : nat.
Hypothesis Bpos : 1 <= B.
Set Default Proof Using "Bpos".
Notation step := (step B).
Notation Inv := (Inv B).

(* the slot write: the written slot gets the in-flight value, every other live slot is untouched *)
Lemma write_case s j o : Inv s -> pp (P s) = PWrite -> o < B ->
  rdpos s <= j * B + o -> j * B + o < tidx (M s) + 1 ->
  upd2 (slot (M s)) (tblk (M s)) (tidx (M s) mod B) (Some (tidx (M s), pv (P s))) (bid (K s) j) o =
  Some (j * B + o, nth (j * B + o) (pushed (Q s) ++ [pv (P s)]) 0).
Proof.
  intros Hi Epp Ho G1 G2. pose proof (IS1 _ _ Hi j o Ho) as S1.
  pose proof (IK1 _ _ Hi) as K1. destruct (IK2 _ _ Hi) as (_ & _ & _ & ET). pose proof (IK4 _ _ Hi) as K4.
  pose proof (head_bounds _ Bpos _ Hi) as HB. pose proof (IR1 _ _ Hi) as R1.
  pose proof (IP _ _ Hi) as Hp. unfold pinv in Hp. rewrite Epp in Hp. destruct Hp as (P1 & P2 & P3).
  rewrite (mod_loc _ Bpos (gtk (K s))) by lia. rewrite ET.
  destruct (Nat.eq_dec (j * B + o) (tidx (M s))) as [E|E].
  - assert (j = gtk (K s)) by nia. subst j. replace (tidx (M s) - gtk (K s) * B) with o by lia.
    rewrite upd2_eq, E, <- R1. now rewrite nth_snoc_eq.
  - rewrite upd2_neq.
    + unfold wpos, valat in S1. rewrite Epp in S1. cbn [written] in S1. apply S1; lia.
    + destruct (Nat.eq_dec o (tidx (M s) - gtk (K s) * B)) as [Eo|Eo]; [left|right; exact Eo].
      assert (j < gtk (K s)) by nia. apply K4; nia.
Qed.

Lemma pres_S1 s a s' : Inv s -> step s a = Some s' ->
  forall j o, o < B -> rdpos s' <= j * B + o -> j * B + o < wpos s' ->
  slot (M s') (bid (K s') j) o = Some (j * B + o, valat s' (j * B + o)).
Proof.
  intros Hi H j o Ho. pose proof (IS1 _ _ Hi j o Ho) as S1.
  pose proof (IK1 _ _ Hi) as K1. pose proof (IK2 _ _ Hi) as K2. pose proof (IK4 _ _ Hi) as K4.
  pose proof (head_bounds _ Bpos _ Hi) as HB. pose proof (tail_bounds _ Bpos _ Hi) as TB.
  pose proof (IR1 _ _ Hi) as R1. pose proof (IC _ _ Hi) as Hc. unfold cinv in Hc.
  unfold rdpos, wpos, valat in *.
  step_cases_r Hi H; try rewrite Epp in *; try rewrite Ecp in *; sp; cbn [written] in *; brk; intros G1 G2.
  all: try (apply S1; lia).
  - (* a new push starts: only the in-flight value changes, and nothing is in flight *)
    rewrite nth_snoc_lt by lia. rewrite <- (nth_snoc_lt _ (pv (P s))) by lia. apply S1; lia.
  - apply (write_case s j o); auto.
  - apply (write_case s j o); auto.
  - apply (write_case s j o); auto.
  - (* tail.next.store *) rewrite upd_neq by nia. apply S1; lia.
  - (* publication *) rewrite nth_snoc_lt by (rewrite app_length; cbn; lia). apply S1; lia.
Qed.

Lemma pres_S2 s a s' : Inv s -> step s a = Some s' ->
  forall b o i v, slot (M s') b o = Some (i, v) ->
  i < wpos s' /\ (rdpos s' <= i -> b = bid (K s') (i / B) /\ o = i mod B).
Proof.
  intros Hi H b o i v. pose proof (IS2 _ _ Hi b o i v) as S2.
  pose proof (IK1 _ _ Hi) as K1. pose proof (IK2 _ _ Hi) as K2.
  pose proof (head_bounds _ Bpos _ Hi) as HB. pose proof (tail_bounds _ Bpos _ Hi) as TB.
  pose proof (IC _ _ Hi) as Hc. unfold cinv in Hc.
  unfold rdpos, wpos in *.
  step_cases_r Hi H; try rewrite Epp in *; try rewrite Ecp in *; sp; cbn [written] in *; brk; intros G.
  all: try (specialize (S2 G); destruct S2 as [S2a S2b]; split; [lia | intros G1; apply S2b; lia]).
  1-3: (pfacts Hi; brk; unfold upd2 in G;
        destruct (Nat.eqb_spec b (tblk (M s))) as [Eb|Eb]; destruct (Nat.eqb_spec o (tidx (M s) mod B)) as [Eo|Eo]; cbn [andb] in G;
        try (specialize (S2 G); destruct S2 as [S2a S2b]; split; [lia | intros G1; apply S2b; lia]);
        inversion G; subst; split; [lia|]; intros _; split; auto;
        rewrite (div_loc _ Bpos (gtk (K s))) by lia; tauto).
  (* tail.next.store *)
  specialize (S2 G); destruct S2 as [S2a S2b]; split; [lia | intros G1].
  rewrite upd_neq; [apply S2b; lia|].
  assert (i / B < gtk (K s) + 1) by (apply Nat.div_lt_upper_bound; nia). lia.
Qed.

(* (c) the slot the producer writes never holds a value the consumer has not passed yet *)
Lemma no_overwrite s : Inv s -> pp (P s) = PWrite ->
  match slot (M s) (tblk (M s)) (tidx (M s) mod B) with Some (i, _) => rdpos s <=? i | None => false end = false.
Proof.
  intros Hi Epp. destruct (slot (M s) (tblk (M s)) (tidx (M s) mod B)) as [[i v]|] eqn:E; [|reflexivity].
  apply Nat.leb_gt. destruct (IS2 _ _ Hi _ _ _ _ E) as [S2a S2b].
  unfold wpos in S2a. rewrite Epp in S2a. cbn [written] in S2a.
  destruct (Nat.lt_ge_cases i (rdpos s)) as [L|L]; [exact L|exfalso].
  destruct (S2b L) as [Eb Eo].
  pose proof (IK1 _ _ Hi) as K1. destruct (IK2 _ _ Hi) as (_ & _ & _ & ET). pose proof (IK4 _ _ Hi) as K4.
  pose proof (head_bounds _ Bpos _ Hi) as HB.
  pose proof (IP _ _ Hi) as Hp. unfold pinv in Hp. rewrite Epp in Hp. destruct Hp as (P1 & P2 & P3).
  assert (Q1 : ghk (K s) <= i / B) by (apply Nat.div_le_lower_bound; nia).
  assert (Q2 : i / B < gtk (K s) + 1) by (apply Nat.div_lt_upper_bound; nia).
  assert (Q3 : i / B = gtk (K s)).
  { destruct (Nat.eq_dec (i / B) (gtk (K s))) as [Q|Q]; [exact Q|exfalso].
    apply (K4 (i / B) (gtk (K s))); lia. }
  pose proof (Nat.div_mod i B ltac:(lia)) as DM. rewrite Q3, <- Eo in DM.
  rewrite (mod_loc _ Bpos (gtk (K s))) in DM by lia. nia.
Qed.

(* (c) alloc_node hands out `first` only if it lies strictly before the consumer's head block *)
Lemma no_recycle_live s : Inv s -> first (M s) <> lasth (M s) -> in_window s (first (M s)) = false.
Proof.
  intros Hi Hne. pose proof (first_lt _ Bpos _ Hi Hne) as Hlt.
  destruct (in_window s (first (M s))) eqn:E; [exfalso|reflexivity].
  unfold in_window in E. apply existsb_exists in E. destruct E as (k & Hin & Hk).
  apply in_seq in Hin. apply Nat.eqb_eq in Hk.
  pose proof (IK1 _ _ Hi) as K1. destruct (IK2 _ _ Hi) as (EF & _).
  apply (IK4 _ _ Hi (gfk (K s)) k); lia.
Qed.

Lemma first_next_nonnull s : Inv s -> first (M s) <> lasth (M s) -> (nxt (M s) (first (M s)) =? 0) = false.
Proof.
  intros Hi Hne. pose proof (first_lt _ Bpos _ Hi Hne) as Hlt. pose proof (IK1 _ _ Hi) as K1.
  destruct (IK2 _ _ Hi) as (EF & _). rewrite EF, (IK5 _ _ Hi) by lia.
  apply Nat.eqb_neq. pose proof (IK3 _ _ Hi (S (gfk (K s)))). lia.
Qed.

Lemma pres_M s a s' : Inv s -> step s a = Some s' -> flags_ok (F s').
Proof.
  intros Hi H. pose proof (IM _ _ Hi) as Hm. unfold flags_ok in *. destruct Hm as (M1 & M2 & M3 & M4 & M5 & M6 & M7 & M8).
  pose proof (IK1 _ _ Hi) as K1. pose proof (IK2 _ _ Hi) as K2. pose proof (IK3 _ _ Hi) as K3.
  pose proof (IK5 _ _ Hi) as K5.
  pose proof (head_bounds _ Bpos _ Hi) as HB. pose proof (tail_bounds _ Bpos _ Hi) as TB.
  pose proof (absq_len _ Bpos _ Hi) as AL.
  step_cases_r Hi H; repeat split; auto; try (rewrite ?M1, ?M2, ?M3, ?M4, ?M5, ?M6, ?M7, ?M8; cbn [orb]).
  all: try reflexivity.
  all: try (apply no_overwrite; assumption).
  all: try (pfacts Hi; brk; first [apply no_recycle_live | apply first_next_nonnull]; assumption).
  all: try (bools; destruct (absq (Q s)); [reflexivity | cbn in AL; lia]).
  all: try (pfacts Hi; brk; apply orb_false_intro; apply Nat.ltb_ge; lia).
  all: try cfacts Hi; brk.
  - (* peek: the value read is the abstract head *)
    bools. match goal with D : _ = OBulk \/ _ |- _ => destruct D as [D|D]; [congruence|] end.
    assert (Ek : ck (C s) = hidx (M s)) by lia.
    match goal with E : cacc _ = _ |- _ => rewrite E end. rewrite Ek, Nat.sub_diag.
    destruct (absq (Q s)) as [|x l]; [cbn in AL; lia|]. cbn. now rewrite Nat.eqb_refl.
  - (* head.next.load never sees null *)
    match goal with E : hblk _ = _ |- _ => rewrite E end.
    pose proof (next_in_seq _ Bpos _ Hi ltac:(lia)). rewrite K5 by lia.
    apply Nat.eqb_neq. pose proof (K3 (S (ghk (K s)))). lia.
  - (* commit: what was collected is a prefix of the abstract queue *)
    assert (L : length (cacc (C s)) = cend (C s) - hidx (M s)).
    { match goal with E : cacc _ = _ |- _ => rewrite E end. rewrite firstn_length. lia. }
    rewrite L. match goal with E : cacc _ = _ |- _ => rewrite <- E end. now rewrite list_eqb_refl.
  - (* len *)
    match goal with E : clh _ = _ |- _ => rewrite E end.
    apply orb_false_intro; apply Nat.ltb_ge; lia.
Qed.
End S.
