(* Witness runs of the full mpsc model (vm_compute): the variant WITHOUT the old_block delay dereferences a freed
   block; the naive len() bound is refuted by the closing-bit under-reporting; a pusher may hold the address of
   a freed block in the tail word it loaded (it never dereferences it before a successful CAS); and an ABA run in
   which a CAS succeeds on a tail word that was loaded four blocks earlier, the address having been freed and
   issued again in between - harmlessly, as the theorems say. *)
From Coq Require Import List Arith Bool.
Import ListNotations.
Require Import MayV.Queue.MpscFullModel.

(* a push that takes an inner slot; a push that takes the last slot of its block (new block at address x) *)
Definition pushO (p v : nat) : list action := [Push p v; PStep p 0; PStep p 0; PStep p 0; PStep p 0].
Definition pushC (p v x : nat) : list action :=
  [Push p v; PStep p 0; PStep p 0; PStep p 0; PStep p 0; PStep p x; PStep p 0; PStep p 0; PStep p 0].
(* a pop inside a block (try_get, head.index store); a pop at a block end (+ old_block.replace, wait_next_block, head.block store) *)
Definition popO : list action := [Pop; CStep; CStep].
Definition popE : list action := [Pop; CStep; CStep; CStep; CStep; CStep].

(* ---- without the delay: block size 2; pusher 1 takes the last slot of block 0 and is preempted after its ready store;
   the consumer pops both values and (no delay) frees block 0 right after head.block.store; pusher 1 then reads
   block.start of the freed block *)
Definition sched_nodelay : list action :=
  pushO 0 11 ++ [Push 1 12; PStep 1 0; PStep 1 0; PStep 1 0; PStep 1 0] ++ popO ++ popE ++ [PStep 1 3].
Lemma nodelay_uaf :
  match run 2 false (init 2) sched_nodelay with
  | Some s => bad_uaf (F s) = true /\ heap (M s) 1 = None /\ lb (P s 1) = 1 /\ popped (G s) = [11; 12]
  | None => False end.
Proof. vm_compute. repeat split. Qed.
(* the same schedule with the delay: block 0 is parked in old_block, nothing trips *)
Lemma delay_same_schedule_ok :
  match run 2 true (init 2) sched_nodelay with
  | Some s => monitors_ok s = true /\ oldb (M s) = 1 /\ issome (heap (M s) 1) = true
  | None => False end.
Proof. vm_compute. repeat split. Qed.

(* ---- len(): push 11 completed, push 12 took the last slot and has published it (LP) but not yet re-opened the tail:
   the abstract queue holds 2 values during the whole call, len() answers 1 *)
Definition sched_len : list action :=
  pushO 0 11 ++ [Push 1 12; PStep 1 0; PStep 1 0; PStep 1 0; PStep 1 0] ++ [Len; CStep; CStep].
Lemma len_underreports :
  match run 2 true (init 2) sched_len with
  | Some s => cres (C s) = 1 /\ glen0 (G s) = 2 /\ length (absq (G s)) = 2 /\ monitors_ok s = true /\ pp (P s 1) = PAlloc
  | None => False end.
Proof. vm_compute. repeat split. Qed.
(* peek in the same situation (the consumer has taken 11 out): None although the abstract queue holds 12 *)
Definition sched_peek : list action :=
  pushO 0 11 ++ [Push 1 12; PStep 1 0; PStep 1 0; PStep 1 0; PStep 1 0] ++ popO ++ [Peek; CStep].
Lemma peek_underreports :
  match run 2 true (init 2) sched_peek with
  | Some s => cp (C s) = CIdle /\ cret (C s) = [] /\ absq (G s) = [12] /\ monitors_ok s = true /\ pp (P s 1) = PAlloc
  | None => False end.
Proof. vm_compute. repeat split. Qed.

(* ---- ABA: pusher 9 loads the tail word (address 1, index 0) and is preempted before its CAS *)
Definition aba_1 : list action :=
  [Push 9 99; PStep 9 0] ++
  pushO 0 11 ++ pushC 0 12 3 ++ popO ++ popE ++           (* block 0 (address 1) is parked *)
  pushO 0 13 ++ pushC 0 14 4 ++ popO ++ popE.             (* block 0 is freed, block 1 (address 2) is parked *)
Definition aba_2 : list action :=
  pushO 0 15 ++ pushC 0 16 1 ++ popO ++ popE ++           (* block 4 is allocated at address 1 again *)
  pushO 0 17 ++ pushC 0 18 2.                             (* the tail moves to block 4: the tail word is (1, 0) again *)
Definition aba_3 : list action :=
  [PStep 9 0; PStep 9 0; PStep 9 0] ++                    (* the stale CAS succeeds; slot write; ready *)
  popO ++ popE ++ popO.
(* after aba_1 the preempted pusher holds the address of a FREED block in its copy of the tail word *)
Lemma stale_tail_word_names_freed_block :
  match run 2 true (init 2) aba_1 with
  | Some s => pp (P s 9) = PCas /\ lb (P s 9) = 1 /\ heap (M s) 1 = None /\ monitors_ok s = true
  | None => False end.
Proof. vm_compute. repeat split. Qed.
(* after aba_2 the tail word is bit for bit what pusher 9 loaded, but it now names logical block 4, not block 0 *)
Lemma aba_cas_would_succeed :
  match run 2 true (init 2) (aba_1 ++ aba_2) with
  | Some s => pp (P s 9) = PCas /\ cas_ok s 9 = true /\ gtk (G s) = 4 /\ badr (G s) 4 = 1 /\ badr (G s) 0 = 1 /\ monitors_ok s = true
  | None => False end.
Proof. vm_compute. repeat split. Qed.
(* ... its CAS succeeds, the value goes into slot 0 of block 4 and comes out last, in reservation order *)
Lemma aba_run_is_harmless :
  match run 2 true (init 2) (aba_1 ++ aba_2 ++ aba_3) with
  | Some s => popped (G s) = [11; 12; 13; 14; 15; 16; 17; 18; 99] /\ absq (G s) = [] /\ monitors_ok s = true /\
              nth 8 (rlog (G s)) (0, 0) = (9, 99) /\ gk (P s 9) = 4
  | None => False end.
Proof. vm_compute. repeat split. Qed.

(* ---- a whole life: pushes over three blocks, bulk_pop, peek, len, address reuse, drop with a value left *)
Definition sched_life : list action :=
  pushO 0 11 ++ pushC 1 12 3 ++ popO ++ popE ++ [Pop; CStep; CStep] ++
  pushO 0 13 ++ pushC 0 14 4 ++ [Bulk; CStep; CStep; CStep; CStep; CStep; CStep] ++
  pushO 0 15 ++ pushC 0 16 1 ++ [Len; CStep; CStep; Peek; CStep; CStep] ++ pushO 2 17 ++
  [Drop] ++ repeat CStep 17.
Lemma whole_life :
  match run 2 true (init 2) sched_life with
  | Some s => cp (C s) = CDead /\ popped (G s) = [11; 12; 13; 14; 15; 16; 17] /\ absq (G s) = [] /\
              (nalloc (G s), nfree (G s)) = (5, 5) /\ map (fun a => issome (heap (M s) a)) (seq 0 6) = [false; false; false; false; false; false] /\
              monitors_ok s = true
  | None => False end.
Proof. vm_compute. repeat split. Qed.

(* ---- the same as statements about reachable states *)
Lemma run_Reach B d l : forall s s', Reach B d s -> run B d s l = Some s' -> Reach B d s'.
Proof.
  induction l as [|a l IH]; cbn [run]; intros s s' R H; [inversion H; subst; exact R|].
  destruct (step B d s a) as [s1|] eqn:E; [|discriminate]. eapply IH; [eapply RS; eauto | exact H].
Qed.
Lemma witness B d l (Q : st -> Prop) :
  match run B d (init B) l with Some s => Q s | None => False end -> exists s, Reach B d s /\ Q s.
Proof.
  destruct (run B d (init B) l) as [s|] eqn:E; [|tauto]. intros H. exists s. split; auto.
  eapply run_Reach; [apply R0 | exact E].
Qed.

Lemma without_delay_use_after_free : exists s, Reach 2 false s /\ bad_uaf (F s) = true.
Proof. apply (witness 2 false sched_nodelay). pose proof nodelay_uaf as H. destruct (run 2 false (init 2) sched_nodelay); tauto. Qed.
Lemma len_below_abstract_length :
  exists s, Reach 2 true s /\ cp (C s) = CIdle /\ cop (C s) = OLen /\ cres (C s) < glen0 (G s) /\ cres (C s) < length (absq (G s)).
Proof. apply (witness 2 true sched_len). vm_compute. repeat split; repeat constructor. Qed.
Lemma peek_none_on_nonempty :
  exists s, Reach 2 true s /\ cp (C s) = CIdle /\ cop (C s) = OPeek /\ cret (C s) = [] /\ absq (G s) <> [].
Proof. apply (witness 2 true sched_peek). vm_compute. repeat split; discriminate. Qed.
Lemma pusher_holds_freed_address :
  exists s p, Reach 2 true s /\ pp (P s p) = PCas /\ heap (M s) (lb (P s p)) = None.
Proof.
  destruct (witness 2 true aba_1 (fun s => pp (P s 9) = PCas /\ heap (M s) (lb (P s 9)) = None)) as [s [R Q]].
  - vm_compute. split; reflexivity.
  - exists s, 9. tauto.
Qed.
Lemma aba_reaches_the_cas :
  exists s p, Reach 2 true s /\ pp (P s p) = PCas /\ cas_ok s p = true /\ gtk (G s) = 4 /\
              lb (P s p) = badr (G s) 0 /\ badr (G s) 0 = badr (G s) (gtk (G s)).
Proof.
  destruct (witness 2 true (aba_1 ++ aba_2) (fun s => pp (P s 9) = PCas /\ cas_ok s 9 = true /\ gtk (G s) = 4 /\
              lb (P s 9) = badr (G s) 0 /\ badr (G s) 0 = badr (G s) (gtk (G s)))) as [s [R Q]].
  - vm_compute. repeat split.
  - exists s, 9. tauto.
Qed.
Lemma life_reaches_dead :
  exists s, Reach 2 true s /\ cp (C s) = CDead /\ popped (G s) = [11; 12; 13; 14; 15; 16; 17] /\ nalloc (G s) = 5.
Proof. apply (witness 2 true sched_life). vm_compute. repeat split. Qed.
