(* C19 - what the node identities of the model abstract from: addresses.
   Overlay: every node gets an address when it is allocated (Q0), chosen by the allocator among the addresses
   not held by a node that is allocated and not freed; the code's `ptr::eq(tail, prev)` compares addresses.
   With re-use of a freed node's address the code-level flag can be true although the own entry is long
   consumed: claim (c) of the head report is refuted for address comparison (witness below, a potential -
   benign - finding: a spurious is_head=true makes add_timer install/wake once more than needed).
   Claims (a), (b), (d) are not affected: they compare with a node that is still the stub, hence not freed. *)
From Coq Require Import List Arith Bool.
Import ListNotations.
Require Import MayV.Queue.ListV1Model.

Definition amap := nat -> nat.
(* address [c] is free: no allocated, unfreed node lives there *)
Definition addr_free (s : st) (ad : amap) (c : nat) : bool :=
  forallb (fun k => freed (nodes s k) || negb (Nat.eqb (ad k) c)) (seq 0 (nn s)).

(* overlay step: [c] is the allocator's choice, used by the Q0 transition only *)
Definition step2 (x : st * amap) (a : action) (c : nat) : option (st * amap) :=
  let (s, ad) := x in
  match step s a with
  | None => None
  | Some s' =>
      match a with
      | PStep p => match qp (P s p) with
                   | Q0 => if addr_free s ad c then Some (s', upd ad (nn s) c) else None
                   | _ => Some (s', ad) end
      | _ => Some (s', ad)
      end
  end.

Definition init2 : st * amap := (init, fun _ => 0).
Inductive Reach2 : st * amap -> Prop :=
| R20 : Reach2 init2
| R2S x a c x' : Reach2 x -> step2 x a c = Some x' -> Reach2 x'.

Lemma reach2_reach x : Reach2 x -> Reach (fst x).
Proof.
  induction 1 as [|[s ad] a c [s' ad'] R IH H]; [apply R0|].
  cbn in *. unfold step2 in H. destruct (step s a) as [s1|] eqn:E; [|discriminate].
  assert (s' = s1).
  { destruct a; try (inversion H; reflexivity).
    destruct (qp (P s p)); try (inversion H; reflexivity).
    destruct (addr_free s ad c); inversion H; reflexivity. }
  subst. eapply RS; eauto.
Qed.

Fixpoint run2 (x : st * amap) (l : list (action * nat)) : option (st * amap) :=
  match l with [] => Some x | (a, c) :: l' => match step2 x a c with Some x' => run2 x' l' | None => None end end.
Lemma run2_reach l : forall x x', Reach2 x -> run2 x l = Some x' -> Reach2 x'.
Proof.
  induction l as [|[a c] l IH]; cbn; intros x x' R H; [inversion H; subst; exact R|].
  destruct (step2 x a c) as [x1|] eqn:E; [|discriminate]. eapply IH; [eapply R2S; eauto | exact H].
Qed.

(* the flag the code computes at the producer's read of the consumer position *)
Definition code_flag (x : st * amap) (p : nat) : bool :=
  let (s, ad) := x in Nat.eqb (ad (tail s)) (ad (qprev (P s p))).
(* the flag the model computes (node identity) *)
Definition model_flag (x : st * amap) (p : nat) : bool :=
  let (s, ad) := x in Nat.eqb (tail s) (qprev (P s p)).

Definition aba_schedule : list (action * nat) :=
  let push p c := [(Push p, 0); (PStep p, c); (PStep p, 0); (PStep p, 0); (PStep p, 0)] in
  let pop := [(Pop, 0); (KStep false, 0); (KStep false, 0); (KStep false, 0)] in
  push 0 1                                                      (* node 1 at address 1 *)
  ++ [(Push 1, 0); (PStep 1, 2); (PStep 1, 0); (PStep 1, 0)]    (* node 2 at address 2 behind node 1; producer 1 now before its tail read *)
  ++ pop ++ pop                                                 (* both entries popped: node 1 passed *)
  ++ [(DropH 1, 0)]                                             (* its handle dropped: node 1 freed *)
  ++ push 2 1                                                   (* node 3 re-uses address 1 *)
  ++ pop.                                                       (* ... and becomes the stub *)

(* claim (c) fails for the code-level flag: producer 1 would report is_head = true although its entry (node 2)
   was consumed and is not even in the list any more; the model's flag (node identity) is false *)
Theorem head_report_c_refuted_under_address_reuse :
  exists x, Reach2 x /\
    match qp (P (fst x) 1) with Q3 => true | _ => false end = true /\
    code_flag x 1 = true /\ model_flag x 1 = false /\
    cons (nodes (fst x) (qn (P (fst x) 1))) = 1 /\ monitors_ok (fst x) = true.
Proof.
  destruct (run2 init2 aba_schedule) as [x|] eqn:E; [|vm_compute in E; discriminate].
  exists x. split; [eapply run2_reach; [apply R20 | exact E]|].
  vm_compute in E. inversion E; subst. vm_compute. repeat split; reflexivity.
Qed.
