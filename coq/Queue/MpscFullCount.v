(* The number of allocations equals successful frees plus allocated blocks; after Queue::drop allocations = frees. *)
From Coq Require Import List Arith Bool Lia.
Import ListNotations.
Require Import MayV.Queue.MpscFullModel MayV.Queue.MpscFullInv MayV.Queue.MpscFullTac MayV.Queue.MpscFullFacts
  MayV.Queue.MpscFullPresC1 MayV.Queue.MpscFullPresC2 MayV.Queue.MpscFullThm.

(* allocations = successful frees + blocks that are allocated now *)
Definition Cnt (s : st) : Prop := nfree (G s) + (lhi s - glo (G s)) = nalloc (G s).

Section S.
Variable B : nat.
Hypothesis Bpos : 1 <= B.
Notation Inv := (Inv B).
Notation step := (step B true).
Notation Reach := (Reach B true).
Set Default Proof Using "Bpos".

Ltac ifs := repeat match goal with |- context [if ?c then _ else _] => destruct c end.

Lemma cnt_step s a s' : Inv s -> Cnt s -> step s a = Some s' -> Cnt s'.
Proof.
  intros Hi Hc H. destruct a as [p v|p x| | | | | |]; cbn [MpscFullModel.step] in H.
  - destruct (pp (P s p)) eqn:E; try discriminate. destruct (cdrop (C s)) eqn:D; [discriminate|]. inversion H; subst.
    unfold Cnt, lhi, p_call in *. sp. exact Hc.
  - assert (ND : pp (P s p) <> PIdle -> cp (C s) <> DFree2 /\ cp (C s) <> DOld /\ cp (C s) <> CDead).
    { intros N. apply (nodrop_cp B Bpos s Hi). apply (active_nodrop B Bpos s p Hi N). }
    destruct (pp (P s p)) eqn:E; try discriminate; try (inversion H; subst); destruct (ND ltac:(congruence)) as (N1 & N2 & N3).
    + unfold Cnt, lhi, p_load in *. sp. exact Hc.
    + unfold Cnt, lhi, p_cas in *. ifs; sp; exact Hc.
    + unfold Cnt, lhi, p_write, hmod, deref in *. sp. exact Hc.
    + unfold Cnt, lhi, p_ready, hmod, deref in *. ifs; sp; exact Hc.
    + destruct (alloc_ok s x) eqn:AO; [|discriminate]. inversion H; subst.
      destruct (I_rng _ _ Hi) as (R1 & R2 & R3 & R4 & R5 & R6).
      unfold Cnt, lhi, p_alloc, halloc, deref in *. sp. destruct (cp (C s)); try congruence; lia.
    + unfold Cnt, lhi, p_next, deref in *. ifs; sp; exact Hc.
    + unfold Cnt, lhi, p_link, hmod, deref in *. sp. exact Hc.
    + unfold Cnt, lhi, p_store in *. sp. destruct (cp (C s)); try congruence; lia.
  - destruct (api_ok s) eqn:A; [|discriminate]. inversion H; subst. unfold api_ok in A. destruct (cp (C s)) eqn:Ecp; try discriminate.
    unfold Cnt, lhi, c_start in *. sp. rewrite Ecp in Hc. exact Hc.
  - destruct (api_ok s) eqn:A; [|discriminate]. inversion H; subst. unfold api_ok in A. destruct (cp (C s)) eqn:Ecp; try discriminate.
    unfold Cnt, lhi, c_start in *. sp. rewrite Ecp in Hc. exact Hc.
  - destruct (api_ok s) eqn:A; [|discriminate]. inversion H; subst. unfold api_ok in A. destruct (cp (C s)) eqn:Ecp; try discriminate.
    unfold Cnt, lhi, c_start in *. sp. rewrite Ecp in Hc. exact Hc.
  - destruct (api_ok s) eqn:A; [|discriminate]. inversion H; subst. unfold api_ok in A. destruct (cp (C s)) eqn:Ecp; try discriminate.
    unfold Cnt, lhi, c_start in *. sp. rewrite Ecp in Hc. exact Hc.
  - destruct (api_ok s && isnil (act (G s))) eqn:A; [|discriminate]. inversion H; subst. apply andb_prop in A. destruct A as [A _].
    unfold api_ok in A. destruct (cp (C s)) eqn:Ecp; try discriminate.
    unfold Cnt, lhi, c_start in *. sp. rewrite Ecp in Hc. exact Hc.
  - destruct (cp (C s)) eqn:Ecp; try discriminate; inversion H; subst; clear H.
    + unfold Cnt, lhi, c_try, deref in *. cbv zeta. rewrite Ecp in Hc. ifs; sp; exact Hc.
    + unfold Cnt, lhi, c_tail, c_fin_empty, deref in *. cbv zeta. rewrite Ecp in Hc. ifs; sp; ifs; exact Hc.
    + unfold Cnt, lhi, c_spin, deref in *. cbv zeta. rewrite Ecp in Hc. ifs; sp; try (rewrite Ecp); try exact Hc. destruct (cop (C s)); sp; exact Hc.
    + unfold Cnt, lhi, c_commit, c_fin, c_start in *. cbv zeta. rewrite Ecp in Hc. ifs; sp; exact Hc.
    + (* c_free *)
      pose proof (I_old _ _ Hi) as OLD. unfold oldrel in OLD. rewrite Ecp in OLD.
      assert (Hp : pcls (cp (C s)) <= 2) by (rewrite Ecp; cbn; lia).
      destruct (I_rng _ _ Hi) as (R1 & R2 & R3 & R4 & R5 & R6).
      unfold Cnt, c_free in *. sp. destruct (oldb (M s) =? 0) eqn:EO; bools.
      * assert (GL : glo (G s) = ghk (G s)).
        { destruct OLD as [[_ ?]|[O1 O2]]; auto. exfalso.
          assert (LG : live s (glo (G s))) by (unfold live; rewrite (lhi_nblk B Bpos s Hp); lia).
          destruct (I_al _ _ Hi _ LG) as (_ & _ & NZ). congruence. }
        unfold lhi in *. sp. rewrite Ecp in Hc. lia.
      * destruct OLD as [[? _]|[O1 O2]]; [congruence|].
        assert (LG : live s (glo (G s))) by (unfold live; rewrite (lhi_nblk B Bpos s Hp); lia).
        destruct (I_al _ _ Hi _ LG) as (AL1 & _). rewrite O1.
        rewrite (hfree_some B Bpos s _ _ (issome_hget _ _ AL1)). unfold lhi in *. sp. rewrite Ecp in Hc. lia.
    + unfold Cnt, lhi, c_next, deref in *. cbv zeta. rewrite Ecp in Hc. ifs; sp; try (rewrite Ecp); exact Hc.
    + unfold Cnt, lhi, c_seth, c_fin, c_start in *. cbv zeta. rewrite Ecp in Hc. ifs; sp; exact Hc.
    + unfold Cnt, lhi, c_lenh in *. sp. rewrite Ecp in Hc. exact Hc.
    + unfold Cnt, lhi, c_lent, deref in *. sp. rewrite Ecp in Hc. exact Hc.
    + unfold Cnt, lhi, d_head in *. sp. rewrite Ecp in Hc. exact Hc.
    + unfold Cnt, lhi, d_tail in *. sp. rewrite Ecp in Hc. exact Hc.
    + unfold Cnt, lhi, d_next, deref in *. sp. rewrite Ecp in Hc. exact Hc.
    + (* d_free1 *)
      pose proof (I_c _ _ Hi) as Hcc. unfold cinv in Hcc. rewrite Ecp in Hcc. destruct Hcc as [[D [K KH]] [H1 H2]].
      destruct (drop_idle B Bpos s Hi D) as [_ TF]. destruct (I_rng _ _ Hi) as (R1 & R2 & R3 & R4 & R5 & R6). specialize (R6 TF).
      assert (Hp : pcls (cp (C s)) <= 2) by (rewrite Ecp; cbn; lia).
      destruct (live_tail' B Bpos s Hi Hp) as [_ LT1]. destruct (I_al _ _ Hi _ LT1) as (AL1 & _).
      unfold Cnt, d_free1 in *. cbv zeta. rewrite H2. rewrite (hfree_some B Bpos s _ _ (issome_hget _ _ AL1)).
      unfold lhi in *. sp. rewrite Ecp in Hc. lia.
    + (* d_free2 *)
      pose proof (I_c _ _ Hi) as Hcc. unfold cinv in Hcc. rewrite Ecp in Hcc. destruct Hcc as [[D [K KH]] H1].
      destruct (I_rng _ _ Hi) as (R1 & R2 & R3 & R4 & R5 & R6).
      assert (LT : live s (gtk (G s))) by (unfold live, lhi; rewrite Ecp; lia).
      destruct (I_al _ _ Hi _ LT) as (AL1 & _).
      unfold Cnt, d_free2 in *. cbv zeta. rewrite H1. rewrite (hfree_some B Bpos s _ _ (issome_hget _ _ AL1)).
      unfold lhi in *. sp. rewrite Ecp in Hc. lia.
    + (* d_old *)
      pose proof (I_c _ _ Hi) as Hcc. unfold cinv in Hcc. rewrite Ecp in Hcc. destruct Hcc as [D [K KH]].
      pose proof (I_old _ _ Hi) as OLD. unfold oldrel in OLD. rewrite Ecp in OLD.
      destruct (I_rng _ _ Hi) as (R1 & R2 & R3 & R4 & R5 & R6).
      unfold Cnt, d_old in *. sp. destruct (oldb (M s) =? 0) eqn:EO; bools.
      * assert (GL : glo (G s) = ghk (G s)).
        { destruct OLD as [[_ ?]|[O1 O2]]; auto. exfalso.
          assert (LG : live s (glo (G s))) by (unfold live, lhi; rewrite Ecp; lia).
          destruct (I_al _ _ Hi _ LG) as (_ & _ & NZ). congruence. }
        unfold lhi in *. sp. rewrite Ecp in Hc. lia.
      * destruct OLD as [[? _]|[O1 O2]]; [congruence|].
        assert (LG : live s (glo (G s))) by (unfold live, lhi; rewrite Ecp; lia).
        destruct (I_al _ _ Hi _ LG) as (AL1 & _). rewrite O1.
        rewrite (hfree_some B Bpos s _ _ (issome_hget _ _ AL1)). unfold lhi in *. sp. rewrite Ecp in Hc. lia.
Qed.

Theorem cnt_reach s : Reach s -> Cnt s.
Proof.
  induction 1 as [|s a s' R IH St]; [unfold Cnt, lhi; cbn; lia|].
  eapply cnt_step; eauto. apply (inv_reach B Bpos); auto.
Qed.

(* after Queue::drop every allocation has been matched by exactly one successful free *)
Theorem after_drop_allocs_equal_frees s : Reach s -> cp (C s) = CDead -> nalloc (G s) = nfree (G s).
Proof.
  intros R Ecp. pose proof (cnt_reach s R) as Hc. pose proof (inv_reach B Bpos s R) as Hi.
  pose proof (I_c _ _ Hi) as Hcc. unfold cinv in Hcc. rewrite Ecp in Hcc. destruct Hcc as [[D [K KH]] GL].
  unfold Cnt, lhi in Hc. rewrite Ecp in Hc. lia.
Qed.
End S.
