(* C19 - theorems about every reachable state of the mpsc_list_v1 model. *)
From Coq Require Import List Arith Bool Lia.
Import ListNotations.
Require Import MayV.Queue.ListV1Model MayV.Queue.ListV1Inv MayV.Queue.ListV1Frame MayV.Queue.ListV1PresQ0 MayV.Queue.ListV1PresQ1
  MayV.Queue.ListV1PresQ2 MayV.Queue.ListV1PresQ3 MayV.Queue.ListV1PresKP2 MayV.Queue.ListV1PresKR2 MayV.Queue.ListV1Refs.

Lemma inv_step s a s' : Inv s -> step s a = Some s' -> Inv s'.
Proof.
  intros Hi H. destruct a as [p | p | | | | | n | n | n | y]; try (eapply inv_step_frames; eauto; exact I).
  - destruct (qp (P s p)) eqn:Eq.
    + unfold step in H. rewrite Eq in H. discriminate.
    + eapply inv_q0; eauto.
    + eapply inv_q1; eauto.
    + eapply inv_q2; eauto.
    + eapply inv_q3; eauto.
  - destruct (kp s) eqn:Ek; try (eapply inv_step_frames; eauto; cbn; split; congruence).
    + eapply inv_kp2; eauto.
    + eapply inv_kr2; eauto.
Qed.

Theorem inv_reach s : Reach s -> Inv s /\ Inv2 s.
Proof.
  induction 1 as [|s a s' R (Hi & H2) H]; [split; [apply inv_init | apply inv2_init]|].
  split; [eapply inv_step; eauto | eapply inv2_step; eauto].
Qed.
