(* Theorems about every reachable state of the spsc model (any block size B >= 1, any schedule,
   any client program of the two roles). *)
From Coq Require Import List Arith Bool Lia.
Import ListNotations.
Require Import MayV.Queue.SpscModel MayV.Queue.SpscInv MayV.Queue.SpscPresA MayV.Queue.SpscPresB MayV.Queue.SpscPresC.

Section S.
Variable B : nat.
Hypothesis Bpos : 1 <= B.
Set Default Proof Using "Bpos".
Notation step := (step B).
Notation Reach := (Reach B).
Notation Inv := (Inv B).

Lemma inv_step s a s' : Inv s -> step s a = Some s' -> Inv s'.
Proof.
  intros Hi H. destruct (pres_R _ Bpos _ _ _ Hi H) as (R1 & R2 & R3). constructor; auto.
  - eapply pres_K1; eauto.
  - eapply pres_K2; eauto.
  - eapply pres_K3; eauto.
  - eapply pres_K4; eauto.
  - eapply pres_K5; eauto.
  - eapply pres_P; eauto.
  - eapply pres_C; eauto.
  - eapply pres_S1; eauto.
  - eapply pres_S2; eauto.
  - eapply pres_M; eauto.
Qed.

Theorem inv_reach s : Reach s -> Inv s.
Proof. induction 1; eauto using (inv_init B Bpos), inv_step. Qed.

(* ---------------- (a) refinement to the abstract FIFO ---------------- *)

(* The values handed out so far followed by the abstract queue are the pushed values in push
   order; tail.index counts the pushes linearised (LP = the tail.index store), head.index the
   values handed out (LP = the head.index store). *)
Theorem refines_fifo s : Reach s ->
  pushed (Q s) = popped (Q s) ++ absq (Q s) /\
  length (pushed (Q s)) = tidx (M s) /\ length (popped (Q s)) = hidx (M s).
Proof. intros R. pose proof (inv_reach s R) as Hi. split; [apply (IR3 _ _ Hi)|split; [apply (IR1 _ _ Hi)|apply (IR2 _ _ Hi)]]. Qed.

(* the abstract queue changes only at the two linearisation points, and there as the FIFO does:
   the tail.index store appends the pushed value, the head.index store removes what pop/bulk_pop return *)
Theorem lin_step s a s' : Reach s -> step s a = Some s' ->
  (absq (Q s') = absq (Q s) /\ pushed (Q s') = pushed (Q s) /\ popped (Q s') = popped (Q s) /\
   tidx (M s') = tidx (M s) /\ hidx (M s') = hidx (M s)) \/
  (a = PStep /\ pp (P s) = PPub /\ absq (Q s') = absq (Q s) ++ [pv (P s)] /\ tidx (M s') = S (tidx (M s)) /\
   hidx (M s') = hidx (M s)) \/
  (a = CStep /\ cp (C s) = CCommit /\ absq (Q s) = cacc (C s) ++ absq (Q s') /\
   popped (Q s') = popped (Q s) ++ cacc (C s) /\ hidx (M s') = cend (C s) /\ tidx (M s') = tidx (M s)).
Proof.
  intros R H. pose proof (inv_reach s R) as Hi. pose proof (absq_len _ Bpos _ Hi) as AL.
  step_cases_r Hi H; auto 10.
  right; right. cfacts Hi. brk. repeat split; auto.
  assert (L : length (cacc (C s)) = cend (C s) - hidx (M s)).
  { match goal with E : cacc _ = _ |- _ => rewrite E end. rewrite firstn_length. lia. }
  rewrite L. match goal with E : cacc _ = _ |- _ => rewrite E at 1 end. now rewrite firstn_skipn.
Qed.

(* what pop / bulk_pop are about to return when they commit: a non-empty prefix of the abstract
   queue (values in push order), at most one block long; a single value for pop *)
Theorem commit_returns_prefix s : Reach s -> cp (C s) = CCommit ->
  cacc (C s) = firstn (length (cacc (C s))) (absq (Q s)) /\
  1 <= length (cacc (C s)) /\ length (cacc (C s)) <= B /\ length (cacc (C s)) = cend (C s) - hidx (M s).
Proof.
  intros R Ecp. pose proof (inv_reach s R) as Hi. pose proof (absq_len _ Bpos _ Hi) as AL.
  cfacts Hi. brk.
  assert (L : length (cacc (C s)) = cend (C s) - hidx (M s)).
  { match goal with E : cacc _ = _ |- _ => rewrite E end. rewrite firstn_length. lia. }
  rewrite L. repeat split; auto; lia.
Qed.

(* monitor form: no pop / bulk_pop / peek ever returned anything else than the head(s) of the abstract queue *)
Theorem pops_return_fifo_prefix s : Reach s -> bad_fifo (F s) = false.
Proof. intros R. apply (IM _ _ (inv_reach s R)). Qed.

(* every slot the consumer reads holds the value pushed with exactly that index *)
Theorem reads_see_pushed_value s : Reach s -> bad_read (F s) = false.
Proof. intros R. apply (IM _ _ (inv_reach s R)). Qed.
Theorem read_slot_holds_queue_value s : Reach s -> cp (C s) = CRead ->
  slot (M s) (hblk (M s)) (ck (C s) mod B) = Some (ck (C s), nth (ck (C s) - hidx (M s)) (absq (Q s)) 0).
Proof. intros R. apply read_ok; auto. now apply inv_reach. Qed.

(* ---------------- (b) "empty" only if the abstract queue is empty ---------------- *)

(* pop / bulk_pop / peek answer "empty" iff the tail.index load sees head.index; at that very
   step the abstract queue is empty (stronger than "at some step of the call") *)
Theorem empty_answers_justified s : Reach s -> bad_none (F s) = false.
Proof. intros R. apply (IM _ _ (inv_reach s R)). Qed.
Theorem indices_equal_iff_abstract_empty s : Reach s -> (hidx (M s) = tidx (M s) <-> absq (Q s) = []).
Proof.
  intros R. pose proof (inv_reach s R) as Hi. pose proof (absq_len _ Bpos _ Hi) as AL.
  pose proof (head_bounds _ Bpos _ Hi). split; intros E.
  - destruct (absq (Q s)); [reflexivity|cbn in AL; lia].
  - rewrite E in AL. cbn in AL. lia.
Qed.

(* ---------------- (c) block recycling (the last_head protocol) ---------------- *)

(* alloc_node never hands out a block of the window head.block .. last appended block *)
Theorem recycled_block_not_in_consumer_window s : Reach s -> bad_recyc (F s) = false.
Proof. intros R. apply (IM _ _ (inv_reach s R)). Qed.
(* the producer never overwrites a slot whose value the consumer has not passed yet *)
Theorem no_unconsumed_slot_overwritten s : Reach s -> bad_over (F s) = false.
Proof. intros R. apply (IM _ _ (inv_reach s R)). Qed.
(* no null `next` is ever followed (consumer at a block end, producer in alloc_node) *)
Theorem no_null_next_followed s : Reach s -> bad_null (F s) = false.
Proof. intros R. apply (IM _ _ (inv_reach s R)). Qed.

(* the structural reason: the blocks from `first` to the last appended one are pairwise different,
   linked by `next` in sequence order, and first <= last_head <= head.block <= tail.block in that order *)
Theorem live_blocks_distinct_and_chained s : Reach s ->
  let k := K s in
  (gfk k <= glk k /\ glk k <= ghk k /\ ghk k <= gtk k /\ gtk k < gnb k) /\
  (first (M s) = bid k (gfk k) /\ lasth (M s) = bid k (glk k) /\ hblk (M s) = bid k (ghk k) /\ tblk (M s) = bid k (gtk k)) /\
  (forall i j, gfk k <= i -> i < j -> j < gnb k -> bid k i <> bid k j) /\
  (forall j, gfk k <= j -> S j < gnb k -> nxt (M s) (bid k j) = bid k (S j)).
Proof.
  intros R. pose proof (inv_reach s R) as Hi. cbv zeta.
  split; [apply (IK1 _ _ Hi)|split; [apply (IK2 _ _ Hi)|split; [apply (IK4 _ _ Hi)|apply (IK5 _ _ Hi)]]].
Qed.

(* the block alloc_node returned (recycled or fresh) is none of the blocks the consumer can still reach *)
Theorem new_tail_block_not_reachable_by_consumer s : Reach s -> pp (P s) = PLink ->
  forall j, ghk (K s) <= j -> j < gnb (K s) -> bid (K s) j <> pnew (P s).
Proof.
  intros R Epp j G1 G2. pose proof (inv_reach s R) as Hi. pose proof (IK1 _ _ Hi) as K1.
  pfacts Hi. brk. match goal with Hn : forall j, _ -> _ -> bid _ j <> pnew _ |- _ => apply Hn; lia end.
Qed.

(* every value not yet passed by the consumer sits in its slot of its block of the sequence *)
Theorem unconsumed_values_intact s : Reach s ->
  forall j o, o < B -> rdpos s <= j * B + o -> j * B + o < tidx (M s) ->
  slot (M s) (bid (K s) j) o = Some (j * B + o, nth (j * B + o) (pushed (Q s)) 0).
Proof.
  intros R j o Ho G1 G2. pose proof (inv_reach s R) as Hi. pose proof (tail_bounds _ Bpos _ Hi).
  rewrite (IS1 _ _ Hi j o Ho G1) by lia. unfold valat. rewrite nth_snoc_lt; auto. rewrite (IR1 _ _ Hi). lia.
Qed.

(* ---------------- (d) len ---------------- *)

(* len() called by the consumer returns a number between the abstract lengths at call and at return *)
Theorem len_between_call_and_return s : Reach s -> bad_len (F s) = false.
Proof. intros R. apply (IM _ _ (inv_reach s R)). Qed.

(* len() called by the producer thread returns a number between the abstract lengths at return and at call *)
Theorem producer_len_between_return_and_call s : Reach s -> bad_lenp (F s) = false.
Proof. intros R. apply (IM _ _ (inv_reach s R)). Qed.

Theorem monitors_never_trip s : Reach s -> monitors_ok s = true.
Proof.
  intros R. destruct (IM _ _ (inv_reach s R)) as (M1 & M2 & M3 & M4 & M5 & M6 & M7 & M8).
  unfold monitors_ok. now rewrite M1, M2, M3, M4, M5, M6, M7, M8.
Qed.
End S.
