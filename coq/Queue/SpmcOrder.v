(* C04 - (ii) order: a ghost overlay on the invariant.  Every actor's entries in the log of values handed out
   carry increasing logical indices: the owner's local pops come out in push order. *)
From Coq Require Import List Arith Bool Lia.
Import ListNotations.
Require Import MayV.Queue.SpmcModel MayV.Queue.SpmcInv MayV.Queue.SpmcTac MayV.Queue.SpmcFacts MayV.Queue.SpmcPresA1 MayV.Queue.SpmcThm.
Ltac cas_ok Ec :=
  let E1 := fresh "E" in let E2 := fresh "E" in
  apply andb_prop in Ec; destruct Ec as [E1 Hhl]; apply andb_prop in E1; destruct E1 as [Hhb Hhi];
  apply Nat.eqb_eq in Hhb; apply Nat.eqb_eq in Hhi; apply negb_true_iff in Hhl.

Section S.
Variable B : nat. Variable reuse : bool. Hypothesis Bpos : 1 <= B.
Notation step := (step B reuse). Notation Inv := (Inv B). Notation Reach := (Reach B reuse).

Definition gact (g : nat * nat * option nat) : nat := fst (fst g).
(* entries of one actor appear in the log with increasing logical index *)
Fixpoint ordered (l : list (nat * nat * option nat)) : Prop :=
  match l with
  | [] => True
  | g :: r => (forall g', In g' r -> gact g' = gact g -> gidx g < gidx g') /\ ordered r
  end.
Definition unread (x : ast) : bool := holds B x && match pc x with XM => false | _ => true end.

Definition Inv2 (s : st) : Prop :=
  (forall a i v, In (a, i, v) (got s) -> unread (A s a) = true -> i < glo (A s a)) /\ ordered (got s).

Lemma ordered_app l1 l2 : ordered l1 -> ordered l2 ->
  (forall g g', In g l1 -> In g' l2 -> gact g' = gact g -> gidx g < gidx g') -> ordered (l1 ++ l2).
Proof.
  induction l1 as [|g l1 IH]; cbn; intros H1 H2 H3; [assumption|]. destruct H1 as [H1 H1']. split.
  - intros g' Hin E. apply in_app_or in Hin. destruct Hin; [apply H1; auto | apply H3; auto].
  - apply IH; auto.
Qed.
Lemma ordered_seq a p (f : nat -> option nat) n : ordered (map (fun j => (a, p + j, f j)) (seq 0 n)).
Proof.
  generalize 0. induction n as [|n IH]; intros lo; cbn; [trivial|]. split; [|apply IH].
  intros g' Hin _. apply in_map_iff in Hin. destruct Hin as (j & <- & Hj). apply in_seq in Hj. unfold gidx. cbn. lia.
Qed.

Lemma got_below_head s a i v : Inv s -> In (a, i, v) (got s) -> i < HL s.
Proof. intros Hi Hin. destruct (IGt _ _ Hi a i v Hin) as (G1 & G2 & _). apply (ICl _ _ Hi). congruence. Qed.

(* an actor at the first control point of a call holds no claim (used before the hypothesis is unfolded:
   unfolding `unread` on the updated actor record in a hypothesis and then splitting on the kind of the
   call made the kernel re-check that conversion in the expensive direction - 7 minutes at Qed) *)
Lemma unread_entry (x : ast) k : pc x = entry k -> unread x = false.
Proof. unfold unread, holds. intros ->. destruct k; reflexivity. Qed.

Lemma inv2_step s ac s' : Inv s -> Inv2 s -> step s ac = Some s' -> Inv2 s'.
Proof.
  intros Hi (J1 & J2) H. pose proof (got_below_head s) as GH.
  split.
  - intros a' i v Hin Hu. specialize (J1 a' i v). specialize (GH a' i v Hi).
    step_cases H; simp.
    all: try (a_facts Hi a).
    all: destruct (Nat.eq_dec a' a) as [->|Hne]; [rewrite ?upd_eq in * | rewrite ?upd_neq in * by auto]; simp.
    all: try (exfalso; match goal with Ec : call_ok _ ?k = true |- _ => rewrite (unread_entry _ k) in Hu by reflexivity end; discriminate Hu).
    all: unfold unread, holds in *; simp; rewrite ?Epc in *; cbn beta iota in *.
    all: try discriminate.
    all: try solve [apply J1; auto].
    all: try (destruct k; discriminate).
    all: unfold lockedB, locked in *; simp.
    all: try match goal with E : (if is_bulk _ then _ else _) = _ |- _ => rewrite E in *; cbn [negb andb] in * end.
    all: try discriminate.
    all: try solve [apply J1; auto].
    + cas_ok Ec. unfold HL in GH. rewrite Hhi in GH. auto.
    + destruct Ha as (_ & _ & _ & (L1 & L2 & L3) & Pp & _). unfold HL in GH. rewrite L2, L3, <- Pp in GH. auto.
    + destruct Ha as (_ & _ & _ & (L1 & L2 & L3) & Pp & _). unfold HL in GH. rewrite L2, L3, <- Pp in GH. auto.
    + destruct Ha as (_ & _ & _ & (L1 & L2 & L3) & Pp & _). unfold HL in GH. rewrite L2, L3, <- Pp in GH. auto.
    + apply in_app_or in Hin. destruct Hin as [Hin|Hin]; [apply J1; auto|].
      apply in_map_iff in Hin. destruct Hin as (j & E & _). inversion E. congruence.
  - step_cases H; simp; auto.
    a_facts Hi a. destruct Ha as (_ & _ & _ & Hc & Pp & Pe & _).
    apply ordered_app; auto; [apply ordered_seq|].
    intros g g' Hg Hg' Ea. apply in_map_iff in Hg'. destruct Hg' as (j & <- & Hj). destruct g as [[a0 i0] v0]. unfold gact, gidx in *. cbn in *. subst a0.
    assert (i0 < glo (A s a)); [|lia]. apply (J1 a i0 v0 Hg). unfold unread, holds. rewrite Epc. reflexivity.
Qed.

Lemma inv2_init : Inv2 (init B).
Proof. split; cbn; [intros a i v [] | trivial]. Qed.

Theorem inv2_reach s : Reach s -> Inv2 s.
Proof.
  intros R. induction R; [apply inv2_init|]. eapply inv2_step; eauto. apply (inv_reach B reuse Bpos). assumption.
Qed.

(* (ii) whatever one actor obtains over time - in particular the owner with its local pops - comes in push order:
   of two entries of the same actor in the log, the later one has the larger logical index *)
Theorem obtained_in_push_order s l1 g1 l2 g2 l3 : Reach s ->
  got s = l1 ++ g1 :: l2 ++ g2 :: l3 -> gact g1 = gact g2 -> gidx g1 < gidx g2.
Proof.
  intros R E Ea. destruct (inv2_reach s R) as (_ & O). rewrite E in O. clear E.
  induction l1 as [|g l1 IH]; cbn in O; [|apply IH; tauto].
  destruct O as (O1 & _). apply O1; auto. apply in_or_app. right. left. reflexivity.
Qed.
End S.
